import PeliteModel.Lemmas.VersionMisc
/-!
C13 helper lemmas, part 8: the queries of the model on a written resource against the answers the
specification derives from the abstract content (`Spec.stringsOf`, `Spec.valueOf`, `Spec.stringMapsOf`).

1. UTF-16: the model's `from_utf16_lossy` / `decode_utf16` against the specification's `text` / `wellFormed16`.
2. the string tables of the parse tree of a written resource are the resource's tables (contents).
3. `strings`, `value`, `file_info` on a written resource.
-/
set_option linter.unusedSimpArgs false
set_option linter.unnecessarySimpa false

namespace Pelite.Version
open Spec

/-! ### 1. UTF-16 -/

theorem isSurrogate_eq (u : Nat) : isSurrogate u = (isHigh u || isLow u) := by
  unfold isSurrogate isHigh isLow
  by_cases h1 : 0xD800 ≤ u <;> by_cases h2 : u ≤ 0xDFFF <;> by_cases h3 : u ≤ 0xDBFF <;> by_cases h4 : 0xDC00 ≤ u <;>
    simp [h1, h2, h3, h4] <;> omega

/-- `String::from_utf16_lossy` reads UTF-16 as the standard says -/
theorem lossy_eq_text (ws : List Nat) : lossy ws = text ws := by
  unfold lossy
  fun_induction decode16 ws with
  | case1 => rfl
  | case2 u h =>
    have : (isHigh u || isLow u) = false := by rw [← isSurrogate_eq]; simpa using h
    simp [text, this]
  | case3 u h =>
    have : (isHigh u || isLow u) = true := by rw [← isSurrogate_eq]; simpa using h
    simp [text, this]
  | case4 u u2 rest h ih =>
    have hs : (isHigh u || isLow u) = false := by rw [← isSurrogate_eq]; simpa using h
    have hh : isHigh u = false := by
      cases hx : isHigh u
      · rfl
      · rw [hx] at hs; simp at hs
    have hl : isLow u = false := by rw [hh] at hs; simpa using hs
    simp only [List.map_cons, ih, text, hh, hl, Bool.false_and, Bool.or_self, Bool.false_eq_true, if_false]
  | case5 u u2 rest h h2 ih =>
    have hs : (isHigh u || isLow u) = true := by rw [← isSurrogate_eq]; simpa using h
    have hh : isHigh u = false := by
      simp only [isSurrogate, Bool.not_eq_true', Bool.not_eq_false, Bool.and_eq_true, decide_eq_true_eq] at h
      simp only [isHigh, Bool.and_eq_false_iff, decide_eq_false_iff_not]
      omega
    have hl : isLow u = true := by rw [hh] at hs; simpa using hs
    simp only [List.map_cons, ih, text, hh, hl, Bool.false_and, Bool.false_or, Bool.false_eq_true, if_false, if_true]
  | case6 u u2 rest h h2 h3 ih =>
    have hs : (isHigh u || isLow u) = true := by rw [← isSurrogate_eq]; simpa using h
    have hl : isLow u2 = false := by
      simp only [Bool.or_eq_true, decide_eq_true_eq] at h3
      simp only [isLow, Bool.and_eq_false_iff, decide_eq_false_iff_not]
      omega
    simp only [List.map_cons, ih, text, hl, hs, Bool.and_false, Bool.false_eq_true, if_false, if_true]
  | case7 u u2 rest h h2 h3 ih =>
    simp only [isSurrogate, Bool.not_eq_true', Bool.not_eq_false, Bool.and_eq_true, decide_eq_true_eq] at h
    simp only [Bool.or_eq_true, decide_eq_true_eq, not_or, Nat.not_lt, Nat.not_le] at h3
    have hh : isHigh u = true := by
      simp only [isHigh, Bool.and_eq_true, decide_eq_true_eq]; omega
    have hl : isLow u2 = true := by
      simp only [isLow, Bool.and_eq_true, decide_eq_true_eq]; omega
    simp only [List.map_cons, ih, text, hh, hl, Bool.and_self, if_true, List.cons.injEq, and_true]
    omega

/-- `decode_utf16` yields no error exactly on well-formed UTF-16 -/
theorem validUtf16_eq (ws : List Nat) : validUtf16 ws = wellFormed16 ws := by
  unfold validUtf16
  fun_induction decode16 ws with
  | case1 => rfl
  | case2 u h =>
    have : (isHigh u || isLow u) = false := by rw [← isSurrogate_eq]; simpa using h
    simp [wellFormed16, this, Dec.isOk]
  | case3 u h =>
    have : (isHigh u || isLow u) = true := by rw [← isSurrogate_eq]; simpa using h
    simp [wellFormed16, this, Dec.isOk]
  | case4 u u2 rest h ih =>
    have hs : (isHigh u || isLow u) = false := by rw [← isSurrogate_eq]; simpa using h
    have hh : isHigh u = false := by
      cases hx : isHigh u
      · rfl
      · rw [hx] at hs; simp at hs
    have hl : isLow u = false := by rw [hh] at hs; simpa using hs
    simp only [List.all_cons, ih, wellFormed16, hh, hl, Dec.isOk, Bool.false_and, Bool.or_self, Bool.false_eq_true,
      if_false, Bool.not_false, Bool.true_and]
  | case5 u u2 rest h h2 ih =>
    have hs : (isHigh u || isLow u) = true := by rw [← isSurrogate_eq]; simpa using h
    have hh : isHigh u = false := by
      simp only [isSurrogate, Bool.not_eq_true', Bool.not_eq_false, Bool.and_eq_true, decide_eq_true_eq] at h
      simp only [isHigh, Bool.and_eq_false_iff, decide_eq_false_iff_not]
      omega
    have hl : isLow u = true := by rw [hh] at hs; simpa using hs
    simp only [List.all_cons, wellFormed16, hh, hl, Dec.isOk, Bool.false_and, Bool.false_or, Bool.false_eq_true,
      if_false, Bool.not_true]
  | case6 u u2 rest h h2 h3 ih =>
    have hs : (isHigh u || isLow u) = true := by rw [← isSurrogate_eq]; simpa using h
    have hl : isLow u2 = false := by
      simp only [Bool.or_eq_true, decide_eq_true_eq] at h3
      simp only [isLow, Bool.and_eq_false_iff, decide_eq_false_iff_not]
      omega
    simp only [List.all_cons, wellFormed16, hl, hs, Dec.isOk, Bool.and_false, Bool.false_and, Bool.false_eq_true,
      if_false, Bool.not_true]
  | case7 u u2 rest h h2 h3 ih =>
    simp only [isSurrogate, Bool.not_eq_true', Bool.not_eq_false, Bool.and_eq_true, decide_eq_true_eq] at h
    simp only [Bool.or_eq_true, decide_eq_true_eq, not_or, Nat.not_lt, Nat.not_le] at h3
    have hh : isHigh u = true := by
      simp only [isHigh, Bool.and_eq_true, decide_eq_true_eq]; omega
    have hl : isLow u2 = true := by
      simp only [isLow, Bool.and_eq_true, decide_eq_true_eq]; omega
    simp only [List.all_cons, ih, wellFormed16, hh, hl, Dec.isOk, Bool.and_self, if_true, Bool.true_and]

/-! ### 2. the string tables of a written resource -/

/-- what is reported for a string: key and value (terminator stripped), contents only -/
def strContent (x : Tlv) : List Nat × List Nat := (x.key.ws, (stripNul x.value).ws)

/-- a string table of the parse tree, contents only: its key and its strings -/
def PTable.content (t : PTable) : List Nat × List (List Nat × List Nat) := (t.node.key.ws, t.strings.map strContent)

/-- a string table of the abstract resource in the same form -/
def vtContent (t : VTable) : List Nat × List (List Nat × List Nat) :=
  (t.lang, t.strings.map fun s => (s.key, stripTerminator s.stored))

theorem map_congr_of_map_eq {α β γ δ : Type} {c : α → γ} {f : β → γ} (F : α → δ) (G : β → δ) :
    ∀ (l : List α) (ds : List β), l.map c = ds.map f →
      (∀ a b, b ∈ ds → c a = f b → F a = G b) → l.map F = ds.map G := by
  intro l
  induction l with
  | nil =>
    intro ds h _
    cases ds with
    | nil => rfl
    | cons _ _ => simp at h
  | cons a l ih =>
    intro ds h hFG
    cases ds with
    | nil => simp at h
    | cons b ds =>
      simp only [List.map_cons, List.cons.injEq] at h
      simp only [List.map_cons]
      rw [hFG a b (List.mem_cons_self ..) h.1, ih ds h.2 (fun a' b' hb' => hFG a' b' (List.mem_cons_of_mem _ hb'))]

/-- the strings of one written table -/
theorem content_strings (tight : Bool) (c : Sl) (strs : List VStr)
    (hc : c.ws = encodeList tight (strs.map VStr.node)) (hwf : ∀ s ∈ strs, s.wf = true) :
    (items .words c).map strContent = strs.map (fun s => (s.key, stripTerminator s.stored)) := by
  have henc : encodeList tight (strs.map VStr.node)
      = encSiblings ((strs.map (fun s => (⟨s.key, s.stored, true, []⟩ : ND))).map (ND.enc tight)) := by
    rw [encodeList_eq, List.map_map, List.map_map]
    congr 1
  have hitems := items_encSiblings .words tight (strs.map (fun s => (⟨s.key, s.stored, true, []⟩ : ND)))
    (by
      intro d hd
      obtain ⟨s, hs, rfl⟩ := List.mem_map.mp hd
      exact ⟨hwf s hs, Or.inl rfl⟩) c.off
  rw [← henc, ← hc, ← sl_eta c c.ws rfl] at hitems
  have : (items .words c).map strContent
      = ((items .words c).map Tlv.content).map (fun p => (p.1, stripTerminator p.2.1)) := by
    simp only [List.map_map]
    apply List.map_congr_left
    intro t _
    simp [strContent, Tlv.content, stripNul_ws]
  rw [this, hitems, List.map_map, List.map_map]
  rfl

/-- the string tables of a written StringFileInfo block -/
theorem content_tables (tight : Bool) (c : Sl) (ts : List VTable)
    (hc : c.ws = encodeList tight (ts.map VTable.node)) (hwf : ∀ t ∈ ts, t.wf = true) :
    ((items .zero c).map pTable).map PTable.content = ts.map vtContent := by
  have henc : encodeList tight (ts.map VTable.node)
      = encSiblings ((ts.map (fun t => (⟨t.lang, [], true, encodeList tight (t.strings.map VStr.node)⟩ : ND))).map (ND.enc tight)) := by
    rw [encodeList_eq, List.map_map, List.map_map]
    congr 1
  have hitems := items_encSiblings .zero tight
    (ts.map (fun t => (⟨t.lang, [], true, encodeList tight (t.strings.map VStr.node)⟩ : ND)))
    (by
      intro d hd
      obtain ⟨t, ht, rfl⟩ := List.mem_map.mp hd
      have := hwf t ht
      simp only [VTable.wf, Bool.and_eq_true] at this
      exact ⟨this.1, rfl⟩) c.off
  rw [← henc, ← hc, ← sl_eta c c.ws rfl, List.map_map] at hitems
  rw [List.map_map]
  refine map_congr_of_map_eq _ _ _ _ hitems ?_
  intro a t ht hct
  simp only [Tlv.content, Function.comp, Prod.mk.injEq] at hct
  obtain ⟨h1, _, h3⟩ := hct
  have hw := hwf t ht
  simp only [VTable.wf, Bool.and_eq_true, List.all_eq_true] at hw
  simp only [Function.comp, PTable.content, pTable, vtContent, h1, content_strings tight a.children t.strings h3 hw.2]

/-- the string tables below the blocks of a written root -/
theorem content_infos (tight : Bool) (c : Sl) (bs : List VBlock)
    (hc : c.ws = encodeList tight (bs.map VBlock.node)) (hwf : ∀ b ∈ bs, b.wf = true) :
    (((items .zero c).map pInfo).flatMap PInfo.tables).map PTable.content = (bs.flatMap VBlock.tables).map vtContent := by
  have henc : encodeList tight (bs.map VBlock.node) = encSiblings ((bs.map (blockND tight)).map (ND.enc tight)) := by
    rw [encodeList_eq, List.map_map, List.map_map]
    congr 1
    apply List.map_congr_left
    intro b _
    cases b <;> simp [blockND, VBlock.node, Spec.encode, ND.enc]
  have hitems := items_encSiblings .zero tight (bs.map (blockND tight))
    (by
      intro d hd
      obtain ⟨b, _, rfl⟩ := List.mem_map.mp hd
      cases b
      · exact ⟨by simp only [blockND]; decide, rfl⟩
      · exact ⟨by simp only [blockND]; decide, rfl⟩) c.off
  rw [← henc, ← hc, ← sl_eta c c.ws rfl, List.map_map] at hitems
  rw [List.map_flatMap, List.map_flatMap, List.flatMap_map]
  refine flatMap_congr_of_map_eq _ _ _ _ hitems ?_
  intro a b hb hct
  have hw := hwf b hb
  cases b with
  | stringInfo ts =>
    simp only [Tlv.content, Function.comp, Prod.mk.injEq, blockND] at hct
    obtain ⟨h1, _, h3⟩ := hct
    simp only [VBlock.wf, List.all_eq_true] at hw
    have hk : a.key.ws = strStringFileInfo := by rw [h1, kStringFileInfo_eq]
    simp only [PInfo.tables, pInfo, hk, if_true, VBlock.tables, content_tables tight a.children ts h3 hw]
  | varInfo vs =>
    simp only [Tlv.content, Function.comp, Prod.mk.injEq, blockND] at hct
    obtain ⟨h1, _, h3⟩ := hct
    have hk : a.key.ws = strVarFileInfo := by rw [h1, kVarFileInfo_eq]
    have hne : strVarFileInfo ≠ strStringFileInfo := by decide
    simp only [PInfo.tables, pInfo, hk, hne, if_true, if_false, VBlock.tables, List.map_nil]

/-- **the tables of a written resource read back**: the parse tree of the written block has a
first root, and its string tables are, contents only, the tables of the resource -/
theorem tables_encode (tight : Bool) (v : VInfo) (hwf : v.wf = true) (off : Nat) :
    ∃ r rs, pRoots ⟨off, v.encode tight⟩ = r :: rs ∧ r.tables.map PTable.content = v.tables.map vtContent := by
  simp only [VInfo.wf, Bool.and_eq_true, List.all_eq_true] at hwf
  have henc : v.encode tight
      = encSiblings ([(⟨v.key, v.value, false, encodeList tight (v.blocks.map VBlock.node)⟩ : ND)].map (ND.enc tight)) := by
    simp [VInfo.encode, VInfo.node, Spec.encode, encSiblings, ND.enc]
  have hitems := items_encSiblings .bytes tight
    [(⟨v.key, v.value, false, encodeList tight (v.blocks.map VBlock.node)⟩ : ND)]
    (by
      intro d hd
      simp only [List.mem_singleton] at hd
      subst hd
      exact ⟨hwf.1, Or.inl rfl⟩) off
  rw [← henc] at hitems
  unfold pRoots
  cases hl : items .bytes ⟨off, v.encode tight⟩ with
  | nil => rw [hl] at hitems; simp at hitems
  | cons vi rest =>
    rw [hl] at hitems
    simp only [List.map_cons, List.map_nil, List.cons.injEq, Tlv.content, Prod.mk.injEq] at hitems
    obtain ⟨⟨_, _, h3⟩, _⟩ := hitems
    refine ⟨pRoot vi, rest.map pRoot, rfl, ?_⟩
    simp only [PRoot.tables, pRoot, VInfo.tables]
    exact content_infos tight vi.children v.blocks h3 hwf.2

/-! ### 3. the queries on a written resource -/

/-- table contents: key words and (key, value) words of the strings -/
abbrev Contents := List (List Nat × List (List Nat × List Nat))

/-- what `strings(lang)` enumerates, as a function of the table contents -/
def entriesOf (cs : Contents) (lang : Language) : List (Str × Str) :=
  (cs.filter fun c => Language.parse c.1 = some lang).flatMap fun c => c.2.map fun kv => (lossy kv.1, lossy kv.2)

theorem kvsOf_content (r : PRoot) (lang : Language) :
    (r.kvsOf lang).map (fun kv => (lossy kv.1.ws, lossy kv.2.ws)) = entriesOf (r.tables.map PTable.content) lang := by
  unfold PRoot.kvsOf entriesOf
  rw [List.map_flatMap, List.filter_map, List.flatMap_map]
  congr 1
  funext t
  simp only [PTable.kvs, PTable.content, List.map_map]
  rfl

/-- `Language::parse` and the documented reading of a table key agree on keys of 8 hex digits -/
theorem parse_eq_iff {k : List Nat} (hk : (langOfKey k).isSome = true) (l c : Nat) :
    Language.parse k = some ⟨l, c⟩ ↔ langOfKey k = some (l, c) := by
  cases h : langOfKey k with
  | none => rw [h] at hk; cases hk
  | some p =>
    obtain ⟨l', c'⟩ := p
    rw [parse_hex_key h]
    simp only [Option.some.injEq, Language.mk.injEq, Prod.mk.injEq]

theorem mem_tables_langOk {v : VInfo} (h : v.langKeysOk = true) {t : VTable} (ht : t ∈ v.tables) :
    (langOfKey t.lang).isSome = true := by
  simp only [VInfo.langKeysOk, List.all_eq_true] at h
  exact h t ht

/-- `strings(lang)` of the table contents of a resource is `Spec.stringsOf` -/
theorem entriesOf_spec (v : VInfo) (hl : v.langKeysOk = true) (l c : Nat) :
    entriesOf (v.tables.map vtContent) ⟨l, c⟩ = stringsOf v (l, c) := by
  unfold entriesOf stringsOf
  rw [List.filter_map, List.flatMap_map]
  have hf : (v.tables.filter ((fun c_1 : List Nat × List (List Nat × List Nat) => decide (Language.parse c_1.1 = some ⟨l, c⟩)) ∘ vtContent))
      = v.tables.filter (fun t => decide (langOfKey t.lang = some (l, c))) := by
    apply List.filter_congr
    intro t ht
    have := parse_eq_iff (mem_tables_langOk hl ht) l c
    simp only [Function.comp, vtContent]
    by_cases h : langOfKey t.lang = some (l, c)
    · simp [h, this.mpr h]
    · have h' : ¬ Language.parse t.lang = some ⟨l, c⟩ := fun h'' => h (this.mp h'')
      simp [h, h']
  rw [hf]
  congr 1
  funext t
  simp only [vtContent, VTable.entries, List.map_map, lossy_eq_text]
  rfl

/-- the parse tree of `w` has a first root, whose string tables are, contents only, those of `v` -/
def TablesAre (w : Sl) (v : VInfo) : Prop :=
  ∃ r rs, pRoots w = r :: rs ∧ r.tables.map PTable.content = v.tables.map vtContent

/-- `strings(lang)` on a block whose tables are those of `v` -/
theorem strings_of_tables (w : Sl) (hw : w.Al) (v : VInfo) (ht : TablesAre w v) (hl : v.langKeysOk = true) (l c : Nat) :
    strings w ⟨l, c⟩ = .ok (stringsOf v (l, c)) := by
  rw [strings_eq _ hw]
  obtain ⟨r, rs, hr, hc⟩ := ht
  rw [hr]
  simp only [kvsOf_content, hc, entriesOf_spec v hl]

/-- **`strings(lang)` on a written resource** -/
theorem strings_encode (tight : Bool) (v : VInfo) (hwf : v.wf = true) (hl : v.langKeysOk = true) (l c : Nat) :
    strings ⟨0, v.encode tight⟩ ⟨l, c⟩ = .ok (stringsOf v (l, c)) :=
  strings_of_tables _ (fun _ => rfl) v (tables_encode tight v hwf 0) hl l c

theorem mem_kvsOf {r : PRoot} {lang : Language} {kv : Sl × Sl} (h : kv ∈ r.kvsOf lang) :
    ∃ c ∈ r.tables.map PTable.content, ∃ p ∈ c.2, p.1 = kv.1.ws := by
  simp only [PRoot.kvsOf, List.mem_flatMap, List.mem_filter] at h
  obtain ⟨t, ⟨ht, _⟩, hkv⟩ := h
  simp only [PTable.kvs, List.mem_map] at hkv
  obtain ⟨x, hx, rfl⟩ := hkv
  exact ⟨t.content, List.mem_map.mpr ⟨t, ht, rfl⟩, strContent x, List.mem_map.mpr ⟨x, hx, rfl⟩, rfl⟩

/-- `value(lang, key)` on a block whose tables are those of `v` -/
theorem value_of_tables (w : Sl) (hw : w.Al) (v : VInfo) (ht : TablesAre w v) (hl : v.langKeysOk = true)
    (hk : v.keysValid = true) (l c : Nat) (key : Str) :
    value w ⟨l, c⟩ key = .ok (valueOf v (l, c) key) := by
  rw [value_eq _ hw]
  obtain ⟨r, rs, hr, hc⟩ := ht
  rw [hr]
  simp only
  rw [value_strings_agree_tree r ⟨l, c⟩ key ?_, kvsOf_content, hc, entriesOf_spec v hl]
  · rfl
  · intro kv hkv
    obtain ⟨cn, hcn, p, hp, hpk⟩ := mem_kvsOf hkv
    rw [hc] at hcn
    obtain ⟨t, ht, rfl⟩ := List.mem_map.mp hcn
    simp only [vtContent, List.mem_map] at hp
    obtain ⟨s, hs, rfl⟩ := hp
    simp only [VInfo.keysValid, List.all_eq_true] at hk
    rw [← hpk, validUtf16_eq]
    exact hk t ht s hs

/-- **`value(lang, key)` on a written resource** -/
theorem value_encode (tight : Bool) (v : VInfo) (hwf : v.wf = true) (hl : v.langKeysOk = true)
    (hk : v.keysValid = true) (l c : Nat) (key : Str) :
    value ⟨0, v.encode tight⟩ ⟨l, c⟩ key = .ok (valueOf v (l, c) key) :=
  value_of_tables _ (fun _ => rfl) v (tables_encode tight v hwf 0) hl hk l c key

/-! ### file_info().strings -/

section am
variable {κ ν : Type} [DecidableEq κ]

theorem amInsert_fresh (k : κ) (v : ν) (m : List (κ × ν)) (h : k ∉ m.map (·.1)) : amInsert k v m = m ++ [(k, v)] := by
  induction m with
  | nil => rfl
  | cons p m ih =>
    obtain ⟨k', v'⟩ := p
    simp only [List.map_cons, List.mem_cons, not_or] at h
    have : ¬ k' = k := fun e => h.1 e.symm
    simp only [amInsert, this, if_false, List.cons_append, ih h.2]

/-- inserting under pairwise distinct fresh keys appends: nothing is replaced -/
theorem foldl_amInsertOpt_fresh {α : Type} (kf : α → Option κ) (vf : α → ν) (l : List α) (m0 : List (κ × ν))
    (h : (m0.map (·.1) ++ l.filterMap kf).Nodup) :
    l.foldl (fun m x => amInsertOpt (kf x) (vf x) m) m0
      = m0 ++ l.filterMap (fun x => (kf x).map fun k => (k, vf x)) := by
  induction l generalizing m0 with
  | nil => simp
  | cons x l ih =>
    rw [List.foldl_cons]
    cases hk : kf x with
    | none =>
      have h' : (m0.map (·.1) ++ l.filterMap kf).Nodup := by simpa [List.filterMap_cons, hk] using h
      rw [show amInsertOpt none (vf x) m0 = m0 from rfl, ih m0 h']
      simp [List.filterMap_cons, hk]
    | some k =>
      have h' : (m0.map (·.1) ++ k :: l.filterMap kf).Nodup := by simpa [List.filterMap_cons, hk] using h
      have hfresh : k ∉ m0.map (·.1) := by
        intro hm
        exact (List.nodup_append.mp h').2.2 k hm k (List.mem_cons_self ..) rfl
      rw [show amInsertOpt (some k) (vf x) m0 = amInsert k (vf x) m0 from rfl, amInsert_fresh k _ _ hfresh]
      rw [ih (m0 ++ [(k, vf x)]) (by simpa [List.map_append] using h')]
      simp [List.filterMap_cons, hk]

theorem filterMap_congr_mem {α β : Type} {f g : α → Option β} (l : List α) (h : ∀ x ∈ l, f x = g x) :
    l.filterMap f = l.filterMap g := by
  induction l with
  | nil => rfl
  | cons a l ih =>
    simp only [List.filterMap_cons, h a (List.mem_cons_self ..), ih (fun x hx => h x (List.mem_cons_of_mem _ hx))]

end am

theorem distinct_nodup {α : Type} [DecidableEq α] (l : List α) (h : distinct l = true) : l.Nodup := by
  induction l with
  | nil => exact List.Pairwise.nil
  | cons a l ih =>
    simp only [distinct, Bool.and_eq_true, Bool.not_eq_true', ← Bool.not_eq_true, List.contains_iff_mem] at h
    exact List.nodup_cons.mpr ⟨h.1, ih h.2⟩

/-- what `file_info().strings` holds when nothing is replaced, as a function of the table contents -/
def mapsOf (cs : Contents) : List (Language × List (Str × Str)) :=
  cs.filterMap fun c => (Language.parse c.1).map fun l => (l, c.2.map fun kv => (lossy kv.1, lossy kv.2))

theorem entries_content (t : PTable) (h : (t.content.2.map fun kv => lossy kv.1).Nodup) :
    t.entries = t.content.2.map fun kv => (lossy kv.1, lossy kv.2) := by
  unfold PTable.entries
  have := foldl_amInsertOpt_fresh (fun kv : Sl × Sl => some (lossy kv.1.ws)) (fun kv => lossy kv.2.ws) t.kvs []
    (by
      simp only [List.map_nil, List.nil_append]
      have e : t.kvs.filterMap (fun kv : Sl × Sl => some (lossy kv.1.ws)) = t.content.2.map fun kv => lossy kv.1 := by
        rw [show (fun kv : Sl × Sl => some (lossy kv.1.ws)) = some ∘ (fun kv : Sl × Sl => lossy kv.1.ws) from rfl,
          List.filterMap_eq_map]
        simp only [PTable.kvs, PTable.content, List.map_map]
        rfl
      rw [e]; exact h)
  simp only [amInsertOpt, List.nil_append] at this
  rw [this]
  rw [show (fun x : Sl × Sl => Option.map (fun k => (k, lossy x.2.ws)) (some (lossy x.1.ws)))
      = some ∘ (fun x : Sl × Sl => (lossy x.1.ws, lossy x.2.ws)) from rfl, List.filterMap_eq_map]
  simp only [PTable.kvs, PTable.content, List.map_map]
  rfl

/-- the hash map of `file_info` when no two tables name the same language and no table holds a key twice -/
theorem stringsMap_content (ts : List PTable)
    (hl : ((ts.map PTable.content).filterMap fun c => Language.parse c.1).Nodup)
    (hk : ∀ c ∈ ts.map PTable.content, (c.2.map fun kv => lossy kv.1).Nodup) :
    stringsMap ts [] = mapsOf (ts.map PTable.content) := by
  unfold stringsMap mapsOf
  rw [foldl_amInsertOpt_fresh PTable.lang PTable.entries ts []
    (by rw [List.filterMap_map] at hl; exact hl)]
  rw [List.nil_append, List.filterMap_map]
  apply filterMap_congr_mem
  intro t ht
  simp only [Function.comp, PTable.lang]
  rw [entries_content t (hk _ (List.mem_map.mpr ⟨t, ht, rfl⟩))]
  rfl

theorem nodup_parse (ts : List VTable) (hok : ∀ t ∈ ts, (langOfKey t.lang).isSome = true)
    (hd : (ts.map fun t => langOfKey t.lang).Nodup) : (ts.filterMap fun t => Language.parse t.lang).Nodup := by
  induction ts with
  | nil => exact List.Pairwise.nil
  | cons t ts ih =>
    have ht := hok t (List.mem_cons_self ..)
    have hrest := fun x hx => hok x (List.mem_cons_of_mem _ hx)
    simp only [List.map_cons] at hd
    obtain ⟨hnot, hd'⟩ := List.nodup_cons.mp hd
    cases h : langOfKey t.lang with
    | none => rw [h] at ht; cases ht
    | some p =>
      obtain ⟨l, c⟩ := p
      simp only [List.filterMap_cons, parse_hex_key h]
      refine List.nodup_cons.mpr ⟨?_, ih hrest hd'⟩
      intro hm
      obtain ⟨t', ht', hp⟩ := List.mem_filterMap.mp hm
      have := (parse_eq_iff (hrest t' ht') l c).mp hp
      exact hnot (List.mem_map.mpr ⟨t', ht', by rw [this, h]⟩)

/-- the hash map of the table contents of a resource is `Spec.stringMapsOf` -/
theorem mapsOf_spec (v : VInfo) (hl : v.langKeysOk = true) :
    (mapsOf (v.tables.map vtContent)).map (fun e => ((e.1.langId, e.1.charsetId), e.2)) = stringMapsOf v := by
  unfold mapsOf stringMapsOf
  rw [List.filterMap_map, List.map_filterMap]
  apply filterMap_congr_mem
  intro t ht
  have hok := mem_tables_langOk hl ht
  cases h : langOfKey t.lang with
  | none => rw [h] at hok; cases hok
  | some p =>
    obtain ⟨l, c⟩ := p
    simp only [Function.comp, vtContent, parse_hex_key h, Option.map_some, VTable.entries, List.map_map, lossy_eq_text]
    rfl

/-- `file_info().strings` on a block whose tables are those of `v` -/
theorem fileInfo_strings_of_tables (w : Sl) (hw : w.Al) (v : VInfo) (ht : TablesAre w v) (hl : v.langKeysOk = true)
    (hd : v.langsDistinct = true) (hk : v.keysDistinct = true) :
    ∃ fi, fileInfo w = .ok fi ∧
      fi.strings.map (fun e => ((e.1.langId, e.1.charsetId), e.2)) = stringMapsOf v := by
  obtain ⟨fi, hfi, hfi2⟩ := fileInfo_eq w hw
  refine ⟨fi, hfi, ?_⟩
  obtain ⟨r, rs, hr, hc⟩ := ht
  rw [hr] at hfi2
  rw [hfi2.2.1, stringsMap_content, hc, mapsOf_spec v hl]
  · rw [hc, List.filterMap_map]
    exact nodup_parse v.tables (fun t ht => mem_tables_langOk hl ht) (distinct_nodup _ hd)
  · rw [hc]
    intro c hcm
    obtain ⟨t, ht, rfl⟩ := List.mem_map.mp hcm
    simp only [VInfo.keysDistinct, List.all_eq_true] at hk
    have := distinct_nodup _ (hk t ht)
    simp only [vtContent, List.map_map, lossy_eq_text]
    exact this

/-- **`file_info().strings` on a written resource** -/
theorem fileInfo_strings_encode (tight : Bool) (v : VInfo) (hwf : v.wf = true) (hl : v.langKeysOk = true)
    (hd : v.langsDistinct = true) (hk : v.keysDistinct = true) :
    ∃ fi, fileInfo ⟨0, v.encode tight⟩ = .ok fi ∧
      fi.strings.map (fun e => ((e.1.langId, e.1.charsetId), e.2)) = stringMapsOf v :=
  fileInfo_strings_of_tables _ (fun _ => rfl) v (tables_encode tight v hwf 0) hl hd hk

end Pelite.Version
