import PeliteModel.Lemmas.Version
/-!
C13 helper lemmas, part 3: the parse tree of a block, `visit` as a structural walk over it, the
event list as its flattening, and every visitor's result as a fold of the event list.
-/
set_option linter.unusedSimpArgs false
set_option linter.unnecessarySimpa false

namespace Pelite.Version

/-! ### the parse tree -/

/-- a string table as the parser sees it: its TLV and the TLVs of its strings -/
structure PTable where
  node : Tlv
  strings : List Tlv

inductive PKind where
  | tables (ts : List PTable)
  | vars (vs : List Tlv)
  | other

structure PInfo where
  node : Tlv
  kind : PKind

structure PRoot where
  node : Tlv
  infos : List PInfo

def pTable (st : Tlv) : PTable := ⟨st, items .words st.children⟩

def pInfo (fi : Tlv) : PInfo :=
  ⟨fi, if fi.key.ws = strStringFileInfo then .tables ((items .zero fi.children).map pTable)
       else if fi.key.ws = strVarFileInfo then .vars (items .bytes fi.children)
       else .other⟩

def pRoot (vi : Tlv) : PRoot := ⟨vi, (items .zero vi.children).map pInfo⟩

/-- the root nodes `visit` iterates over (it stops at the first one a visitor accepts) -/
def pRoots (w : Sl) : List PRoot := (items .bytes w).map pRoot

/-- `Some(fixed)` iff the value is 52 bytes -/
def fixedSl (v : Sl) : Option Sl := if v.len = 26 then some v else none

theorem fixedOf_eq {v : Sl} (h : v.Al) : fixedOf v = .ok (fixedSl v) := by
  unfold fixedOf fixedSl
  by_cases h0 : v.len * 2 = 0
  · have : ¬ v.len = 26 := by omega
    simp [h0, this]
  · by_cases h52 : v.len * 2 = 52
    · have hoff : v.off % 2 = 0 := h (by omega)
      have h26 : v.len = 26 := by omega
      simp [h52, hoff, h26]
    · have : ¬ v.len = 26 := by omega
      simp [h0, h52, this]

/-! ### the structural walk -/

section walk
variable {σ : Type} (V : Visitor σ)

def walkStrings (strs : List Tlv) (s : σ) : σ :=
  strs.foldl (fun s str => V.string s str.key (stripNul str.value)) s

def walkTable (s : σ) (t : PTable) : σ :=
  match V.stringTable s t.node.key with
  | (s, false) => s
  | (s, true) => V.exitScope (walkStrings V t.strings (V.enterScope s 2)) 2

def walkVars (vs : List Tlv) (s : σ) : σ := vs.foldl (fun s v => V.var s v.key v.value) s

def walkKind (k : PKind) (s : σ) : σ :=
  match k with
  | .tables ts => ts.foldl (walkTable V) s
  | .vars vs => walkVars V vs s
  | .other => s

def walkInfo (s : σ) (i : PInfo) : σ :=
  match V.fileInfo s i.node.key with
  | (s, false) => s
  | (s, true) => V.exitScope (walkKind V i.kind (V.enterScope s 1)) 1

/-- one root node: the new state and whether `visit` goes on to the next root -/
def walkRoot (r : PRoot) (s : σ) : σ × Bool :=
  match V.versionInfo s r.node.key (fixedSl r.node.value) with
  | (s, false) => (s, true)
  | (s, true) => (V.exitScope (r.infos.foldl (walkInfo V) (V.enterScope s 0)) 0, false)

/-- the root loop: the first accepted root ends it -/
def walkRoots : List PRoot → σ → σ
  | [], s => s
  | r :: rs, s =>
    match walkRoot V r s with
    | (s, true) => walkRoots rs s
    | (s, false) => s

theorem runSteps_foldl (f : σ → Tlv → σ) (step : Tlv → σ → Out (σ × Bool))
    (h : ∀ t s, step t s = .ok (f s t, true)) (l : List Tlv) (s : σ) :
    runSteps step l s = .ok (l.foldl f s) := by
  induction l generalizing s with
  | nil => rfl
  | cons t l ih => simp only [runSteps, h, List.foldl_cons]; exact ih _

theorem visitStrings_eq (c : Sl) (s : σ) :
    visitStrings V c s = .ok (walkStrings V (items .words c) s) := by
  unfold visitStrings walkStrings
  rw [forEach_eq_runSteps]
  exact runSteps_foldl _ _ (fun t s => by simp only [stripNulChk_eq]) _ _

theorem visitVars_eq (c : Sl) (s : σ) :
    visitVars V c s = .ok (walkVars V (items .bytes c) s) := by
  unfold visitVars walkVars
  rw [forEach_eq_runSteps]
  exact runSteps_foldl _ _ (fun _ _ => rfl) _ _

theorem visitTables_eq (c : Sl) (s : σ) :
    visitTables V c s = .ok (((items .zero c).map pTable).foldl (walkTable V) s) := by
  unfold visitTables
  rw [forEach_eq_runSteps, List.foldl_map]
  refine runSteps_foldl (fun s t => walkTable V s (pTable t)) _ ?_ _ _
  intro st s
  simp only [walkTable, pTable]
  rcases hst : V.stringTable s st.key with ⟨s', b⟩
  cases b
  · rfl
  · simp only [visitStrings_eq]

theorem visitInfos_eq (c : Sl) (s : σ) :
    visitInfos V c s = .ok (((items .zero c).map pInfo).foldl (walkInfo V) s) := by
  unfold visitInfos
  rw [forEach_eq_runSteps, List.foldl_map]
  refine runSteps_foldl (fun s t => walkInfo V s (pInfo t)) _ ?_ _ _
  intro fi s
  simp only [walkInfo, pInfo]
  rcases hfi : V.fileInfo s fi.key with ⟨s', b⟩
  cases b
  · rfl
  · dsimp only
    by_cases h1 : fi.key.ws = strStringFileInfo
    · simp only [h1, if_true, visitTables_eq, walkKind]
    · by_cases h2 : fi.key.ws = strVarFileInfo
      · have hne : strVarFileInfo ≠ strStringFileInfo := by decide
        simp only [h2, hne, if_true, if_false, visitVars_eq, walkKind]
      · simp only [h1, h2, if_false, walkKind]

theorem runSteps_roots (l : List Tlv) (hal : ∀ t ∈ l, t.value.Al) (s : σ) :
    runSteps (fun vi s =>
      match fixedOf vi.value with
      | .ok fixed =>
        match V.versionInfo s vi.key fixed with
        | (s, false) => .ok (s, true)
        | (s, true) =>
          match visitInfos V vi.children (V.enterScope s 0) with
          | .ok s => .ok (V.exitScope s 0, false)
          | .err e => .err e | .panic m => .panic m | .ub m => .ub m | .diverge => .diverge
      | .err e => .err e | .panic m => .panic m | .ub m => .ub m | .diverge => .diverge) l s
    = .ok (walkRoots V (l.map pRoot) s) := by
  induction l generalizing s with
  | nil => rfl
  | cons vi l ih =>
    have hv := hal vi (List.mem_cons_self ..)
    simp only [runSteps, List.map_cons, walkRoots, walkRoot, pRoot, fixedOf_eq hv]
    rcases hvi : V.versionInfo s vi.key (fixedSl vi.value) with ⟨s', b⟩
    cases b
    · simp only []
      exact ih (fun t ht => hal t (List.mem_cons_of_mem _ ht)) s'
    · simp only [visitInfos_eq]

/-- **visit is a structural walk over the parse tree** (for every visitor, every block placed on a
32-bit boundary).  In particular it always returns: no panic, no ub, no divergence. -/
theorem visit_eq_walk (w : Sl) (hw : w.Al) (s : σ) :
    visit V w s = .ok (walkRoots V (pRoots w) s) := by
  unfold visit pRoots
  rw [forEach_eq_runSteps]
  exact runSteps_roots V _ (fun t ht => (items_al .bytes w hw t ht).1) s

end walk

/-! ### the event list is the flattened tree -/

def flatStrings (strs : List Tlv) : List Event := strs.map fun x => .string x.key (stripNul x.value)

def flatTable (t : PTable) : List Event :=
  [.stringTable t.node.key, .enter 2] ++ flatStrings t.strings ++ [.exit 2]

def flatKind : PKind → List Event
  | .tables ts => ts.flatMap flatTable
  | .vars vs => vs.map fun x => .var x.key x.value
  | .other => []

def flatInfo (i : PInfo) : List Event := [.fileInfo i.node.key, .enter 1] ++ flatKind i.kind ++ [.exit 1]

def flatRoot (r : PRoot) : List Event :=
  [.versionInfo r.node.key (fixedSl r.node.value), .enter 0] ++ r.infos.flatMap flatInfo ++ [.exit 0]

/-- only the first root is reported -/
def flatRoots : List PRoot → List Event
  | [] => []
  | r :: _ => flatRoot r

/-- interpreting one recorded callback with a visitor `V`.  The second component is `some d` while
the events belong to a subtree that `V` declined (its callback returned `false`): they are skipped
up to and including the subtree's `exit d`. -/
def replay {σ : Type} (V : Visitor σ) : σ × Option Nat → Event → σ × Option Nat
  | (s, none), .versionInfo k f => ((V.versionInfo s k f).1, none)
  | (s, none), .fileInfo k => match V.fileInfo s k with | (s, true) => (s, none) | (s, false) => (s, some 1)
  | (s, none), .stringTable k => match V.stringTable s k with | (s, true) => (s, none) | (s, false) => (s, some 2)
  | (s, none), .string k v => (V.string s k v, none)
  | (s, none), .var k v => (V.var s k v, none)
  | (s, none), .enter d => (V.enterScope s d, none)
  | (s, none), .exit d => (V.exitScope s d, none)
  | (s, some d), .exit d' => if d' = d then (s, none) else (s, some d)
  | (s, some d), _ => (s, some d)

section replay
variable {σ : Type} (V : Visitor σ)

theorem replay_skip (d : Nat) (l : List Event) (h : Event.exit d ∉ l) (s : σ) :
    l.foldl (replay V) (s, some d) = (s, some d) := by
  induction l with
  | nil => rfl
  | cons e l ih =>
    have he : e ≠ .exit d := fun h' => h (h' ▸ List.mem_cons_self ..)
    have hl : Event.exit d ∉ l := fun h' => h (List.mem_cons_of_mem _ h')
    rw [List.foldl_cons]
    have : replay V (s, some d) e = (s, some d) := by
      cases e <;> simp only [replay]
      rename_i d'
      have : d' ≠ d := fun h' => he (h' ▸ rfl)
      simp [this]
    rw [this]; exact ih hl

theorem replay_strings (strs : List Tlv) (s : σ) :
    (flatStrings strs).foldl (replay V) (s, none) = (walkStrings V strs s, none) := by
  unfold flatStrings walkStrings
  induction strs generalizing s with
  | nil => rfl
  | cons x l ih => simp only [List.map_cons, List.foldl_cons, replay]; exact ih _

theorem exit2_notin_strings (strs : List Tlv) (d : Nat) : Event.exit d ∉ flatStrings strs := by
  unfold flatStrings
  intro h
  obtain ⟨x, _, hx⟩ := List.mem_map.mp h
  cases hx

theorem replay_table (t : PTable) (s : σ) :
    (flatTable t).foldl (replay V) (s, none) = (walkTable V s t, none) := by
  unfold flatTable walkTable
  simp only [List.cons_append, List.nil_append, List.foldl_cons, replay]
  rcases hst : V.stringTable s t.node.key with ⟨s', b⟩
  cases b
  · simp only [replay, List.foldl_append, List.foldl_cons, List.foldl_nil]
    rw [replay_skip V 2 _ (exit2_notin_strings _ 2)]
    simp [replay]
  · simp only [replay, List.foldl_append, List.foldl_cons, List.foldl_nil, replay_strings]

theorem replay_tables (ts : List PTable) (s : σ) :
    (ts.flatMap flatTable).foldl (replay V) (s, none) = (ts.foldl (walkTable V) s, none) := by
  induction ts generalizing s with
  | nil => rfl
  | cons t l ih => simp only [List.flatMap_cons, List.foldl_append, replay_table, List.foldl_cons]; exact ih _

theorem replay_vars (vs : List Tlv) (s : σ) :
    (vs.map fun x => Event.var x.key x.value).foldl (replay V) (s, none) = (walkVars V vs s, none) := by
  unfold walkVars
  induction vs generalizing s with
  | nil => rfl
  | cons x l ih => simp only [List.map_cons, List.foldl_cons, replay]; exact ih _

theorem replay_kind (k : PKind) (s : σ) :
    (flatKind k).foldl (replay V) (s, none) = (walkKind V k s, none) := by
  cases k with
  | tables ts => exact replay_tables V ts s
  | vars vs => exact replay_vars V vs s
  | other => rfl

theorem exit1_notin_kind (k : PKind) : Event.exit 1 ∉ flatKind k := by
  cases k with
  | tables ts =>
    simp only [flatKind, List.mem_flatMap, not_exists, not_and]
    intro t _ h
    simp only [flatTable, flatStrings, List.cons_append, List.nil_append, List.mem_cons, List.mem_append,
      List.mem_map] at h
    rcases h with h | h | h
    · cases h
    · cases h
    · rcases h with ⟨x, _, hx⟩ | h
      · cases hx
      · simp at h
  | vars vs =>
    simp only [flatKind, List.mem_map, not_exists, not_and]
    intro x _ h; cases h
  | other => simp [flatKind]

theorem replay_info (i : PInfo) (s : σ) :
    (flatInfo i).foldl (replay V) (s, none) = (walkInfo V s i, none) := by
  unfold flatInfo walkInfo
  simp only [List.cons_append, List.nil_append, List.foldl_cons, replay]
  rcases hfi : V.fileInfo s i.node.key with ⟨s', b⟩
  cases b
  · simp only [replay, List.foldl_append, List.foldl_cons, List.foldl_nil]
    rw [replay_skip V 1 _ (exit1_notin_kind _)]
    simp [replay]
  · simp only [replay, List.foldl_append, List.foldl_cons, List.foldl_nil, replay_kind]

theorem replay_infos (is : List PInfo) (s : σ) :
    (is.flatMap flatInfo).foldl (replay V) (s, none) = (is.foldl (walkInfo V) s, none) := by
  induction is generalizing s with
  | nil => rfl
  | cons t l ih => simp only [List.flatMap_cons, List.foldl_append, replay_info, List.foldl_cons]; exact ih _

/-- a visitor whose `version_info` callback always returns `true` (all visitors of the crate) -/
def Visitor.AcceptsRoot (V : Visitor σ) : Prop := ∀ s k f, (V.versionInfo s k f).2 = true

theorem replay_roots (hV : V.AcceptsRoot) (rs : List PRoot) (s : σ) :
    (flatRoots rs).foldl (replay V) (s, none) = (walkRoots V rs s, none) := by
  cases rs with
  | nil => rfl
  | cons r l =>
    simp only [flatRoots, flatRoot, walkRoots, walkRoot, List.cons_append, List.nil_append, List.foldl_cons, replay]
    have h := hV s r.node.key (fixedSl r.node.value)
    rcases hvi : V.versionInfo s r.node.key (fixedSl r.node.value) with ⟨s', b⟩
    rw [hvi] at h
    cases h
    simp only [replay, List.foldl_append, List.foldl_cons, List.foldl_nil, replay_infos]

end replay

theorem walk_recorder_strings (strs : List Tlv) (s : List Event) :
    walkStrings recorder strs s = s ++ flatStrings strs := by
  unfold walkStrings flatStrings
  induction strs generalizing s with
  | nil => simp
  | cons x l ih => simp only [List.foldl_cons, List.map_cons]; rw [ih]; simp [recorder]

/-- the recorded events are the flattened tree -/
theorem events_eq_flat (w : Sl) (hw : w.Al) : events w = .ok (flatRoots (pRoots w)) := by
  unfold events
  rw [visit_eq_walk recorder w hw]
  have h := replay_roots recorder (fun _ _ _ => rfl) (pRoots w) []
  have h2 : ∀ (l : List Event) (s : List Event), l.foldl (replay recorder) (s, none) = (s ++ l, none) := by
    intro l
    induction l with
    | nil => intro s; simp
    | cons e l ih =>
      intro s
      rw [List.foldl_cons]
      have : replay recorder (s, none) e = (s ++ [e], none) := by cases e <;> rfl
      rw [this, ih]; simp
  rw [h2] at h
  simp only [List.nil_append] at h
  have := congrArg Prod.fst h
  simp only at this
  rw [← this]

/-- **every visitor's result is a fold of the one event list** -/
theorem visit_eq_fold {σ : Type} (V : Visitor σ) (hV : V.AcceptsRoot) (w : Sl) (hw : w.Al) (s : σ) :
    ∃ es, events w = .ok es ∧ visit V w s = .ok (es.foldl (replay V) (s, none)).1 := by
  refine ⟨_, events_eq_flat w hw, ?_⟩
  rw [visit_eq_walk V w hw, replay_roots V hV]

end Pelite.Version
