import PeliteModel.Lemmas.VersionRoundTrip
/-!
C13 helper lemmas, part 7: the reference writer emits u16 words when the content words are u16 and
the root's length fits (every other length field is smaller).
-/
set_option linter.unusedSimpArgs false
set_option linter.unnecessarySimpa false

namespace Pelite.Version
open Spec

def U16 (l : List Nat) : Prop := ∀ w ∈ l, w < 65536

theorem U16_of_u16s {l : List Nat} (h : u16s l = true) : U16 l := by
  intro w hw
  simp only [u16s, List.all_eq_true, decide_eq_true_eq] at h
  exact h w hw

theorem U16_append {a b : List Nat} : U16 (a ++ b) ↔ U16 a ∧ U16 b := by
  constructor
  · intro h; exact ⟨fun w hw => h w (List.mem_append_left _ hw), fun w hw => h w (List.mem_append_right _ hw)⟩
  · rintro ⟨ha, hb⟩ w hw
    rcases List.mem_append.mp hw with h | h
    · exact ha w h
    · exact hb w h

theorem U16_nil : U16 [] := fun _ h => by cases h

theorem U16_pad (n : Nat) : U16 (pad n) := by
  intro w hw
  simp only [pad, List.mem_replicate] at hw
  omega

theorem encTail_U16 (tight : Bool) (key value body : List Nat) (hv : U16 value) (hb : U16 body) :
    U16 (encTail tight key value body) := by
  unfold encTail
  split
  · split
    · exact U16_nil
    · exact U16_pad _
  · refine U16_append.mpr ⟨U16_append.mpr ⟨U16_pad _, hv⟩, ?_⟩
    split
    · exact U16_nil
    · exact U16_append.mpr ⟨U16_pad _, hb⟩

theorem encNode_length (tight : Bool) (key value : List Nat) (text : Bool) (body : List Nat) :
    (encNode tight key value text body).length = 4 + key.length + (encTail tight key value body).length := by
  rw [encNode_eq]; simp only [List.length_append, List.length_cons, List.length_nil]; omega

theorem encTail_length_ge (tight : Bool) (key value body : List Nat) :
    value.length + body.length ≤ (encTail tight key value body).length := by
  obtain ⟨p1, p2, ht, _, _⟩ := encTail_decomp tight key value body
  rw [ht]; simp only [List.length_append]; omega

theorem encNode_U16 (tight : Bool) (key value : List Nat) (text : Bool) (body : List Nat)
    (hl : 2 * (encNode tight key value text body).length < 65536)
    (hk : U16 key) (hv : U16 value) (hb : U16 body) : U16 (encNode tight key value text body) := by
  have hlen := encNode_length tight key value text body
  have htl := encTail_length_ge tight key value body
  rw [encNode_eq]
  intro w hw
  simp only [List.cons_append, List.nil_append, List.mem_cons, List.mem_append] at hw
  rcases hw with h | h | h | h | h | h
  · omega
  · subst h; split <;> omega
  · subst h; split <;> omega
  · exact hk w h
  · omega
  · exact encTail_U16 tight key value body hv hb w h

theorem encSiblings_length_mem {n : List Nat} {ns : List (List Nat)} (h : n ∈ ns) :
    n.length ≤ (encSiblings ns).length := by
  induction ns with
  | nil => cases h
  | cons m ms ih =>
    simp only [encSiblings, List.length_append]
    rcases List.mem_cons.mp h with h | h
    · subst h; omega
    · have := ih h
      have hne : ms.isEmpty = false := by
        cases ms with
        | nil => cases h
        | cons _ _ => rfl
      simp only [hne, Bool.false_eq_true, if_false, List.length_append]
      omega

theorem encSiblings_U16 {ns : List (List Nat)} (h : ∀ n ∈ ns, U16 n) : U16 (encSiblings ns) := by
  induction ns with
  | nil => exact U16_nil
  | cons m ms ih =>
    simp only [encSiblings]
    refine U16_append.mpr ⟨h m (List.mem_cons_self ..), ?_⟩
    split
    · exact U16_nil
    · exact U16_append.mpr ⟨U16_pad _, ih (fun n hn => h n (List.mem_cons_of_mem _ hn))⟩

/-- siblings: each is u16 as soon as its own length fits, and it does because the whole fits -/
theorem siblings_U16 {α : Type} (f : α → List Nat) (xs : List α)
    (h : ∀ x ∈ xs, 2 * (f x).length < 65536 → U16 (f x))
    (hl : 2 * (encSiblings (xs.map f)).length < 65536) : U16 (encSiblings (xs.map f)) := by
  apply encSiblings_U16
  intro n hn
  obtain ⟨x, hx, rfl⟩ := List.mem_map.mp hn
  have := encSiblings_length_mem hn
  exact h x hx (by omega)

theorem node_U16 (tight : Bool) (key value : List Nat) (text : Bool) (children : List Node)
    (hk : U16 key) (hv : U16 value)
    (hc : ∀ c ∈ children, 2 * (Spec.encode tight c).length < 65536 → U16 (Spec.encode tight c))
    (hl : 2 * (Spec.encode tight (.mk key value text children)).length < 65536) :
    U16 (Spec.encode tight (.mk key value text children)) := by
  rw [encode_mk] at hl ⊢
  have hlen := encNode_length tight key value text (encSiblings (children.map (Spec.encode tight)))
  have htl := encTail_length_ge tight key value (encSiblings (children.map (Spec.encode tight)))
  exact encNode_U16 tight key value text _ hl hk hv (siblings_U16 _ children hc (by omega))

/-- **the writer emits u16 words** -/
theorem encode_U16 (tight : Bool) (v : VInfo) (hu : v.u16 = true) (hf : v.fits tight = true) :
    U16 (v.encode tight) := by
  simp only [VInfo.u16, Bool.and_eq_true, List.all_eq_true] at hu
  simp only [VInfo.fits, decide_eq_true_eq] at hf
  obtain ⟨⟨hk, hv⟩, hb⟩ := hu
  unfold VInfo.encode VInfo.node at *
  refine node_U16 tight _ _ _ _ (U16_of_u16s hk) (U16_of_u16s hv) ?_ hf
  intro c hc
  obtain ⟨b, hbm, rfl⟩ := List.mem_map.mp hc
  have hbu := hb b hbm
  cases b with
  | stringInfo ts =>
    simp only [VBlock.u16, List.all_eq_true] at hbu
    unfold VBlock.node
    refine node_U16 tight _ _ _ _ (U16_of_u16s (by decide)) U16_nil ?_
    intro c hc
    obtain ⟨t, htm, rfl⟩ := List.mem_map.mp hc
    have htu := hbu t htm
    simp only [VTable.u16, Bool.and_eq_true, List.all_eq_true] at htu
    unfold VTable.node
    refine node_U16 tight _ _ _ _ (U16_of_u16s htu.1) U16_nil ?_
    intro c hc
    obtain ⟨s, hsm, rfl⟩ := List.mem_map.mp hc
    have hsu := htu.2 s hsm
    simp only [VStr.u16, Bool.and_eq_true] at hsu
    unfold VStr.node
    exact node_U16 tight _ _ _ _ (U16_of_u16s hsu.1) (U16_of_u16s hsu.2) (fun c hc => by cases hc)
  | varInfo vs =>
    simp only [VBlock.u16, List.all_eq_true] at hbu
    unfold VBlock.node
    refine node_U16 tight _ _ _ _ (U16_of_u16s (by decide)) U16_nil ?_
    intro c hc
    obtain ⟨x, hxm, rfl⟩ := List.mem_map.mp hc
    have hxu := hbu x hxm
    simp only [VVar.u16, Bool.and_eq_true] at hxu
    unfold VVar.node
    exact node_U16 tight _ _ _ _ (U16_of_u16s hxu.1) (U16_of_u16s hxu.2) (fun c hc => by cases hc)

end Pelite.Version
