import PeliteModel.Model.WrapExports
import PeliteModel.Lemmas.Exports
/-! Helper lemmas for the format agnostic export API (`Model/WrapExports.lean`, theorems in `Thm/C19Wrap.lean`). -/
namespace Pelite.Exports
open Pelite.Pe

theorem wIter_eq (w : WBy) : w.iter = w.get.iter := by
  cases w <;> rfl

theorem wIterNames_eq (w : WBy) : w.iterNames = w.get.iterNames := by
  cases w <;> rfl

/-- both twins guard the checked indexing by `min`: the panic arm of either is never taken, so the
lists agree although the two panic sites differ -/
theorem wIterNameIndices_eq (w : WBy) : w.iterNameIndices = w.get.iterNameIndices := by
  have key : ∀ y : By, ∀ h ∈ List.range (min y.names.cnt y.idx.cnt),
      (if h < y.idx.cnt then Out.ok (y.nameOfHint h, le16 y.b (y.idx.off + 2 * h))
        else Out.panic "wrap iter_name_indices:self.name_indices()[hint]") =
      (if h < y.idx.cnt then Out.ok (y.nameOfHint h, y.idxAt h)
        else Out.panic "iter_name_indices:self.name_indices[hint]") := by
    intro y h hh
    have := List.mem_range.1 hh
    rw [if_pos (by omega), if_pos (by omega)]
    rfl
  cases w with
  | t32 y => exact List.map_congr_left (key y)
  | t64 y => exact List.map_congr_left (key y)

theorem wIterNameIndices_items (w : WBy) :
    w.iterNameIndices =
      (List.range (min w.names.cnt w.nameIndices.cnt)).map
        (fun h => .ok (w.nameOfHint h, le16 w.b (w.nameIndices.off + 2 * h))) ∧
    w.iterNameIndices.length = min w.get.names.cnt w.get.idx.cnt ∧
    (w.nameIndices.cnt = 0 → w.iterNameIndices = []) := by
  have e : w.iterNameIndices =
      (List.range (min w.names.cnt w.nameIndices.cnt)).map
        (fun h => .ok (w.nameOfHint h, le16 w.b (w.nameIndices.off + 2 * h))) := by
    unfold WBy.iterNameIndices
    apply List.map_congr_left
    intro h hh
    have := List.mem_range.1 hh
    rw [if_pos (by omega)]
  refine ⟨e, ?_, ?_⟩
  · rw [e, List.length_map, List.length_range]
    cases w <;> rfl
  · intro h0
    rw [e, h0, Nat.min_zero]
    rfl

theorem mapOut_get_t32 {α} (o : Out α) : mapOut Wrap.get (o.bind fun a => .ok (Wrap.t32 a)) = o := by
  cases o <;> rfl
theorem mapOut_get_t64 {α} (o : Out α) : mapOut Wrap.get (o.bind fun a => .ok (Wrap.t64 a)) = o := by
  cases o <;> rfl

theorem wExportsBy_get (w : WExports) : mapOut Wrap.get w.by = w.get.by := by
  cases w with
  | t32 e => exact mapOut_get_t32 e.by
  | t64 e => exact mapOut_get_t64 e.by

theorem wExports_by_t32 (o : Out Exports) :
    mapOut Wrap.get (o.bind fun e => .ok (Wrap.t32 e)) = o ∧
    mapOut Wrap.get ((o.bind fun e => .ok (Wrap.t32 e)).bind WExports.by) = o.bind Exports.by := by
  cases o with
  | ok e => exact ⟨rfl, wExportsBy_get (.t32 e)⟩
  | _ => exact ⟨rfl, rfl⟩

theorem wExports_by_t64 (o : Out Exports) :
    mapOut Wrap.get (o.bind fun e => .ok (Wrap.t64 e)) = o ∧
    mapOut Wrap.get ((o.bind fun e => .ok (Wrap.t64 e)).bind WExports.by) = o.bind Exports.by := by
  cases o with
  | ok e => exact ⟨rfl, wExportsBy_get (.t64 e)⟩
  | _ => exact ⟨rfl, rfl⟩

theorem wExports_ofView (v : View) :
    wExports (Wrap.ofView v) =
      match v.fmt with
      | .pe32 => (tryFrom v).bind fun e => .ok (Wrap.t32 e)
      | .pe64 => (tryFrom v).bind fun e => .ok (Wrap.t64 e) := by
  unfold Wrap.ofView
  cases v.fmt <;> rfl

theorem wExports_by (v : View) :
    mapOut Wrap.get (wExports (Wrap.ofView v)) = tryFrom v ∧
    mapOut Wrap.get ((wExports (Wrap.ofView v)).bind WExports.by) = (tryFrom v).bind Exports.by := by
  rw [wExports_ofView]
  cases v.fmt
  · exact wExports_by_t32 (tryFrom v)
  · exact wExports_by_t64 (tryFrom v)

theorem mkTab_cnt_le {r : Out Ref} {cnt : Nat} {t : Tab} (h : mkTab r cnt = .ok t) : t.cnt ≤ cnt := by
  unfold mkTab at h
  split at h <;> cases h <;> simp

/-- a table of a `By` answered by `Exports::by` has at most as many elements as its 32-bit count field says -/
theorem by_cnt_lt {e : Exports} {y : By} (h : e.by = .ok y) :
    y.fns.cnt < 4294967296 ∧ y.names.cnt < 4294967296 ∧ y.idx.cnt < 4294967296 := by
  obtain ⟨hf, hn, hi⟩ := by_tables h
  have b1 := le32_lt e.b (e.off + 20)
  have b2 := le32_lt e.b (e.off + 24)
  have f := mkTab_cnt_le hf
  have n := mkTab_cnt_le hn
  have i := mkTab_cnt_le hi
  unfold Exports.nFns at f
  unfold Exports.nNames at n i
  omega

end Pelite.Exports
