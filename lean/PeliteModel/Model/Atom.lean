import PeliteModel.Prim.Basic
/-! `pattern::Atom` (src/proc-macros/pattern.rs) — shared by the parser model and the interpreter model. -/
namespace Pelite.Pattern

/-- src: pattern.rs:Atom; every argument is a `u8`. -/
inductive Atom
  | byte (b : Nat) | save (slot : Nat) | push (skip : Nat) | pop | fuzzy (mask : Nat)
  | skip (n : Nat) | back (n : Nat) | rangext (n : Nat) | many (n : Nat)
  | jump1 | jump4 | ptr | pir (slot : Nat) | vTypeName | check (slot : Nat) | aligned (n : Nat)
  | readI8 (slot : Nat) | readU8 (slot : Nat) | readI16 (slot : Nat) | readU16 (slot : Nat)
  | readI32 (slot : Nat) | readU32 (slot : Nat) | zero (slot : Nat)
  | case (next : Nat) | brk (next : Nat) | nop
  deriving DecidableEq, Repr, Inhabited

/-- canonical text, identical to what the Rust harness prints (`Debug` of the atom with decimal arguments) -/
def Atom.show : Atom → String
  | .byte b => s!"Byte({b})" | .save s => s!"Save({s})" | .push s => s!"Push({s})" | .pop => "Pop"
  | .fuzzy m => s!"Fuzzy({m})" | .skip n => s!"Skip({n})" | .back n => s!"Back({n})"
  | .rangext n => s!"Rangext({n})" | .many n => s!"Many({n})" | .jump1 => "Jump1" | .jump4 => "Jump4"
  | .ptr => "Ptr" | .pir s => s!"Pir({s})" | .vTypeName => "VTypeName" | .check s => s!"Check({s})"
  | .aligned n => s!"Aligned({n})" | .readI8 s => s!"ReadI8({s})" | .readU8 s => s!"ReadU8({s})"
  | .readI16 s => s!"ReadI16({s})" | .readU16 s => s!"ReadU16({s})" | .readI32 s => s!"ReadI32({s})"
  | .readU32 s => s!"ReadU32({s})" | .zero s => s!"Zero({s})" | .case n => s!"Case({n})"
  | .brk n => s!"Break({n})" | .nop => "Nop"

/-- parse the canonical text back (driver input for hand-built atom lists) -/
def Atom.ofString (s : String) : Option Atom :=
  let (name, arg) := match s.splitOn "(" with
    | [n, a] => (n, (a.dropEnd 1).toString.toNat?)
    | _ => (s, none)
  match name, arg with
  | "Byte", some b => some (.byte b) | "Save", some b => some (.save b) | "Push", some b => some (.push b)
  | "Pop", none => some .pop | "Fuzzy", some b => some (.fuzzy b) | "Skip", some b => some (.skip b)
  | "Back", some b => some (.back b) | "Rangext", some b => some (.rangext b) | "Many", some b => some (.many b)
  | "Jump1", none => some .jump1 | "Jump4", none => some .jump4 | "Ptr", none => some .ptr
  | "Pir", some b => some (.pir b) | "VTypeName", none => some .vTypeName | "Check", some b => some (.check b)
  | "Aligned", some b => some (.aligned b) | "ReadI8", some b => some (.readI8 b) | "ReadU8", some b => some (.readU8 b)
  | "ReadI16", some b => some (.readI16 b) | "ReadU16", some b => some (.readU16 b)
  | "ReadI32", some b => some (.readI32 b) | "ReadU32", some b => some (.readU32 b) | "Zero", some b => some (.zero b)
  | "Case", some b => some (.case b) | "Break", some b => some (.brk b) | "Nop", none => some .nop
  | _, _ => none

/-- src: pattern.rs:save_len -/
def saveLen (pat : List Atom) : Nat :=
  pat.foldl (fun m a => match a with
    | .save s | .pir s | .check s | .zero s | .readI8 s | .readI16 s | .readI32 s
    | .readU8 s | .readU16 s | .readU32 s => max m (s + 1)
    | _ => m) 0

end Pelite.Pattern
