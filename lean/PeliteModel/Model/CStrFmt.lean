import PeliteModel.Prim.Basic
/-!
Model of the formatters of `util::CStr` (src/util/c_str.rs): `impl fmt::Debug` and `impl fmt::Display`,
as functions from the string's bytes (without the NUL) to the bytes written to the formatter.
`split_f(bytes, p)` = (longest prefix on which `p` is false, rest).
-/
namespace Pelite.CStrFmt

/-- `util::split_f`: index of the first element satisfying `p`, or the length -/
def splitAt (p : Nat → Bool) : List Nat → Nat
  | [] => 0
  | b :: bs => if p b then 0 else splitAt p bs + 1

theorem splitAt_le (p : Nat → Bool) (l : List Nat) : splitAt p l ≤ l.length := by
  induction l with
  | nil => simp [splitAt]
  | cons b bs ih => unfold splitAt; split <;> simp <;> omega

def hexDigitU (n : Nat) : Nat := if n < 10 then 48 + n else 55 + n          -- '0'..'9', 'A'..'F'
/-- `write!(f, "\\x{:02X}", byte)` -/
def escX (b : Nat) : List Nat := [92, 120, hexDigitU (b / 16), hexDigitU (b % 16)]

/-- the splitter of the printable arm of Debug: `byte < 0x20 || byte >= 0x7F || byte == '"' || byte == '\\'` -/
def dbgStopPrintable (b : Nat) : Bool := b < 0x20 || b ≥ 0x7F || b == 34 || b == 92
/-- the splitter of the escape arm of Debug: `byte >= 0x20 && byte < 0x7F` -/
def dbgStopEscape (b : Nat) : Bool := b ≥ 0x20 && b < 0x7F

/-- src: c_str.rs:<CStr as fmt::Debug>::fmt — the `while bytes.len() > 0` loop -/
def debugLoop : List Nat → List Nat
  | [] => []
  | b :: bs =>
    if b = 0 then [92, 48] ++ debugLoop bs                       -- "\\0"
    else if b = 10 then [92, 110] ++ debugLoop bs                -- "\\n"
    else if b = 13 then [92, 114] ++ debugLoop bs                -- "\\r"
    else if b = 9 then [92, 116] ++ debugLoop bs                 -- "\\t"
    else if b = 34 then [92, 34] ++ debugLoop bs                 -- "\\\""
    else if b = 92 then [92, 92] ++ debugLoop bs                 -- "\\\\"
    else if 0x20 ≤ b ∧ b ≤ 0x7E then
      -- printable run written verbatim; `b` itself is not a stop byte, so the run has ≥ 1 byte
      let n := splitAt dbgStopPrintable bs
      (b :: bs.take n) ++ debugLoop (bs.drop n)
    else
      -- run of bytes to escape; `b` is not in 0x20..0x7F, so the run has ≥ 1 byte
      let n := splitAt dbgStopEscape bs
      ((b :: bs.take n).flatMap escX) ++ debugLoop (bs.drop n)
termination_by l => l.length
decreasing_by
  all_goals simp only [List.length_cons, List.length_drop]
  all_goals omega

def debug (bytes : List Nat) : List Nat := [34] ++ debugLoop bytes ++ [34]

/-- src: c_str.rs:<CStr as fmt::Display>::fmt -/
def displayLoop : List Nat → List Nat
  | [] => []
  | b :: bs =>
    if b < 0x80 then
      let n := splitAt (fun x => x ≥ 0x80) bs
      (b :: bs.take n) ++ displayLoop (bs.drop n)
    else
      let n := splitAt (fun x => x < 0x80) bs
      ((b :: bs.take n).flatMap escX) ++ displayLoop (bs.drop n)
termination_by l => l.length
decreasing_by
  all_goals simp only [List.length_cons, List.length_drop]
  all_goals omega

def display (bytes : List Nat) : List Nat := displayLoop bytes

end Pelite.CStrFmt
