import PeliteModel.Model.Pe
/-!
Model of `PeFile::to_view` (src/pe64/file.rs) and `PeView::to_file` (src/pe64/view.rs) as functions
from the image bytes to the produced `Vec<u8>`.
-/
namespace Pelite.Pe

/-- `dst[doff .. doff+len].copy_from_slice(&src[soff .. soff+len])` (ranges already checked) -/
def blit (dst : Bytes) (doff : Nat) (src : Bytes) (soff len : Nat) : Bytes :=
  dst.extract 0 doff ++ src.extract soff (soff + len) ++ dst.extract (doff + len) dst.size

/-- one iteration of the section loop of `to_view`:
`dest = vec.get_mut(va .. va.wrapping_add(vs))`, `src = image.get(prd .. prd.wrapping_add(rs))`,
copy the common prefix when both exist. -/
-- src: file.rs:PeFile::to_view (loop body)
def toViewStep (image : Bytes) (vec : Bytes) (s : Sec) : Bytes :=
  let dend := wadd32 s.va s.vs
  let send := wadd32 s.prd s.rs
  if s.va ≤ dend ∧ dend ≤ vec.size ∧ s.prd ≤ send ∧ send ≤ image.size then
    blit vec s.va image s.prd (min (dend - s.va) (send - s.prd))
  else vec

-- src: file.rs:PeFile::to_view
def View.toView (v : View) : Bytes :=
  let soh := sizeOfHeaders v.b
  let soi := sizeOfImage v.b
  let vec : Bytes := Array.replicate soi 0
  -- headers: `get_unchecked(..SizeOfHeaders)` on both, validated by the constructor
  let vec := blit vec 0 v.b 0 soh
  v.secs.foldl (toViewStep v.b) vec

-- src: view.rs:PeView::to_file (loop body)
def toFileStep (image : Bytes) (vec : Bytes) (s : Sec) : Bytes :=
  -- `dest_end = min(prd.wrapping_add(rs), vec.len())`: the part of the raw data that fits the clamped file
  let dend := min (wadd32 s.prd s.rs) vec.size
  let send := wadd32 s.va s.vs
  if s.prd ≤ dend ∧ dend ≤ vec.size ∧ s.va ≤ send ∧ send ≤ image.size then
    blit vec s.prd image s.va (min (dend - s.prd) (send - s.va))
  else vec

/-- `file_size`: max of SizeOfHeaders and every raw end (wrapping), clamped to SizeOfImage -/
def View.fileSize (v : View) : Nat :=
  min (v.secs.foldl (fun m s => max m (wadd32 s.prd s.rs)) (sizeOfHeaders v.b)) (sizeOfImage v.b)

-- src: view.rs:PeView::to_file
def View.toFile (v : View) : Bytes :=
  let soh := sizeOfHeaders v.b
  let vec : Bytes := Array.replicate v.fileSize 0
  let vec := blit vec 0 v.b 0 soh
  v.secs.foldl (toFileStep v.b) vec

end Pelite.Pe
