import PeliteModel.Model.Typed
/-!
Model of the small directory decoders (property C15), written once and parametrised by the format:

* `src/pe64/debug.rs` + `src/wrap/debug.rs`   — `Debug::try_from`, `Dir::{data, entry}`, `code_view`, `dbg`, `pgo`,
  `CodeView`, `Pgo::iter`, `PgoIter::next`, `Debug::pdb_file_name`
* `src/pe64/tls.rs`                            — `Tls::{try_from, raw_data, slot, callbacks}`
* `src/pe64/load_config.rs`                    — `LoadConfig::{try_from, security_cookie, se_handler_table}`
* `src/pe64/exception.rs`                      — `Exception::{try_from, check_sorted, index_of, lookup_function_entry}`,
  `Function::{bytes, unwind_info}`, `UnwindInfo::*`; `core::slice::binary_search_by` (the algorithm of the
  toolchain the harness is built with)
* `src/pe64/security.rs` + `src/security.rs`   — `try_from`, `Security::{new, image, certificate_type, certificate_data}`

Every typed read goes through the typed-read model (`Model/Typed.lean`); every manual cast
(`&*(p as *const T)`, `slice::from_raw_parts`, `get_unchecked`) goes through `rawRef`, so a missing bounds or
alignment check in the Rust code would show up as `ub`.  Struct offsets are literal here; the driver op
`dirs_layout` OBSERVES them by running the definitions of this file on probe buffers (Driver/Dirs.lean: the byte an
accessor depends on, the `Ref`s the decoders hand out) and the harness prints `size_of`/`align_of`/`offset_of` of the
current source next to them.
-/
namespace Pelite.Dirs
open Pelite Pelite.Pe

/-! ### struct layouts that depend on the format (`image.rs`: IMAGE_TLS_DIRECTORY32/64, IMAGE_LOAD_CONFIG_DIRECTORY32/64) -/

def tlsSize : Fmt → Nat | .pe32 => 24 | .pe64 => 40
def tlsAlign : Fmt → Nat | .pe32 => 4 | .pe64 => 8
def lcSize : Fmt → Nat | .pe32 => 72 | .pe64 => 112
def lcAlign : Fmt → Nat | .pe32 => 4 | .pe64 => 8
def lcOffCookie : Fmt → Nat | .pe32 => 60 | .pe64 => 88
def lcOffTable : Fmt → Nat | .pe32 => 64 | .pe64 => 96
def lcOffCount : Fmt → Nat | .pe32 => 68 | .pe64 => 104

/-- a `Va` field (u32 / u64) at `off` -/
def ptrAt (v : View) (off : Nat) : Nat := leN v.b off v.fmt.ptrSize

/-! ### debug directory -/

-- src: debug.rs:Debug::try_from   (&[IMAGE_DEBUG_DIRECTORY]: 28 bytes each, align 4)
def debugTryFrom (v : View) : Out Ref :=
  match v.dataDir 6 with
  | none => .err .null                                     -- data_directory().get(DEBUG).ok_or(Null)
  | some (va, size) =>
    if size % 28 ≠ 0 then .err .invalid
    else v.dervaSlice (.rva va) 28 4 (size / 28)

/-- number of entries of a debug directory slice -/
def debugCount (t : Ref) : Nat := t.len / 28
/-- offset of entry `i` -/
def debugEntryOff (t : Ref) (i : Nat) : Nat := t.off + 28 * i

/-! fields of the IMAGE_DEBUG_DIRECTORY at buffer offset `d` -/
def ddCharacteristics (b : Bytes) (d : Nat) : Nat := le32 b d
def ddTimeDateStamp (b : Bytes) (d : Nat) : Nat := le32 b (d + 4)
def ddMajor (b : Bytes) (d : Nat) : Nat := le16 b (d + 8)
def ddMinor (b : Bytes) (d : Nat) : Nat := le16 b (d + 10)
def ddType (b : Bytes) (d : Nat) : Nat := le32 b (d + 12)
def ddSizeOfData (b : Bytes) (d : Nat) : Nat := le32 b (d + 16)
def ddAddressOfRawData (b : Bytes) (d : Nat) : Nat := le32 b (d + 20)
def ddPointerToRawData (b : Bytes) (d : Nat) : Nat := le32 b (d + 24)

-- src: debug.rs:Dir::data
def dirData (v : View) (d : Nat) : Option Ref :=
  let size := ddSizeOfData v.b d
  let offset := match v.kind with
    | .file => ddPointerToRawData v.b d
    | .view => ddAddressOfRawData v.b d
  let stop := wadd64 offset size                 -- offset.wrapping_add(size) on usize
  if offset ≤ stop ∧ stop ≤ v.b.size then some ⟨offset, stop - offset, 1⟩ else none   -- image.get(offset..stop)

inductive CodeView
  | cv20 (image : Ref) (name : Ref)
  | cv70 (image : Ref) (name : Ref)
  deriving DecidableEq, Repr

def sigNB10 : Nat := 0x3031424E     -- b"NB10" read as a little-endian dword
def sigRSDS : Nat := 0x53445352     -- b"RSDS"

/-- `CStr::from_bytes(&bytes[k..])` over the window `bytes` -/
def cstrTail (v : View) (bytes : Ref) (k : Nat) (site : String) : Out Ref :=
  if k > bytes.len then .panic site              -- `&bytes[k..]`
  else match cstrFromBytes v.b (bytes.off + k) (bytes.len - k) with
    | some c => .ok c
    | none => .err .encoding

-- src: debug.rs:code_view
def codeView (v : View) (d : Nat) : Out CodeView :=
  match dirData v d with
  | none => .err .bounds
  | some bytes =>
    if bytes.len < 16 then .err .bounds
    else if (v.img.base + bytes.off) % 4 ≠ 0 then .err .misaligned        -- bytes.as_ptr().aligned_to(4)
    else
      rawRef "code_view:cv_signature" v.img bytes.off 4 1 >>= fun sig =>  -- &*(ptr as *const [u8; 4])
      if le32 v.b sig.off = sigNB10 then
        if bytes.len < 16 then .err .bounds
        else
          rawRef "code_view:IMAGE_DEBUG_CV_INFO_PDB20" v.img bytes.off 16 4 >>= fun image =>
          cstrTail v bytes 16 "code_view:bytes[16..]" >>= fun name =>
          .ok (.cv20 image name)
      else if le32 v.b sig.off = sigRSDS then
        if bytes.len < 24 then .err .bounds
        else
          rawRef "code_view:IMAGE_DEBUG_CV_INFO_PDB70" v.img bytes.off 24 4 >>= fun image =>
          cstrTail v bytes 24 "code_view:bytes[24..]" >>= fun name =>
          .ok (.cv70 image name)
      else .err .badMagic

-- src: debug.rs:dbg    (&IMAGE_DEBUG_MISC: 12 bytes, align 4)
def dbgEntry (v : View) (d : Nat) : Out Ref :=
  match dirData v d with
  | none => .err .bounds
  | some data =>
    if data.len < 12 then .err .bounds
    else if (v.img.base + data.off) % 4 ≠ 0 then .err .misaligned
    else rawRef "dbg:IMAGE_DEBUG_MISC" v.img data.off 12 4

/-! fields of the IMAGE_DEBUG_MISC at buffer offset `m` (`Dbg::image()`: DataType, Length, Unicode; `image.rs`) -/
def miscDataType (b : Bytes) (m : Nat) : Nat := le32 b m
def miscLength (b : Bytes) (m : Nat) : Nat := le32 b (m + 4)
def miscUnicode (b : Bytes) (m : Nat) : Nat := byteAt b (m + 8)

-- src: debug.rs:pgo    (&[u32] of data.len() / 4 words)
def pgoEntry (v : View) (d : Nat) : Out Ref :=
  match dirData v d with
  | none => .err .bounds
  | some data =>
    if data.len < 4 then .err .bounds
    else if (v.img.base + data.off) % 4 ≠ 0 then .err .misaligned
    else rawRef "pgo:from_raw_parts" v.img data.off (4 * (data.len / 4)) 4

inductive Entry
  | codeView (cv : CodeView)
  | dbg (image : Ref)
  | pgo (image : Ref)
  | unknown (data : Option Ref)
  deriving DecidableEq, Repr

-- src: debug.rs:Dir::entry
def dirEntry (v : View) (d : Nat) : Out Entry :=
  let ty := ddType v.b d
  if ty = 2 then codeView v d >>= fun cv => .ok (.codeView cv)        -- IMAGE_DEBUG_TYPE_CODEVIEW
  else if ty = 4 then dbgEntry v d >>= fun r => .ok (.dbg r)          -- IMAGE_DEBUG_TYPE_MISC
  else if ty = 13 then pgoEntry v d >>= fun r => .ok (.pgo r)         -- IMAGE_DEBUG_TYPE_POGO
  else .ok (.unknown (dirData v d))

/-! field offsets of IMAGE_DEBUG_CV_INFO_PDB20 { CvSignature, Offset, TimeDateStamp, Age } and
IMAGE_DEBUG_CV_INFO_PDB70 { CvSignature, Signature: GUID, Age } (`image.rs`); `dirs_layout` prints them next to
`offset_of!` of the current source -/
def cv20OffOffset : Nat := 4
def cv20OffTimeDateStamp : Nat := 8
def cv20OffAge : Nat := 12
def cv70OffSignature : Nat := 4
def cv70OffAge : Nat := 20

/-- `CodeView::pdb_file_name`, `CodeView::age`, `CodeView::format` -/
def CodeView.name : CodeView → Ref | .cv20 _ n => n | .cv70 _ n => n
def CodeView.image : CodeView → Ref | .cv20 i _ => i | .cv70 i _ => i
-- src: wrap/debug.rs:CodeView::age    (`image.Age`)
def CodeView.age (b : Bytes) : CodeView → Nat
  | .cv20 i _ => le32 b (i.off + cv20OffAge)
  | .cv70 i _ => le32 b (i.off + cv70OffAge)
/-- `format()`: the four signature bytes -/
def CodeView.format (cv : CodeView) : Ref := ⟨cv.image.off, 4, 1⟩
/-- `image.CvSignature` (both variants, +0) -/
def CodeView.cvSignature (b : Bytes) (cv : CodeView) : Nat := le32 b cv.image.off
/-- `CodeView::Cv70 { image, .. }` → `&image.Signature`: the GUID (16 bytes, `align_of::<GUID>() = 4`) inside
IMAGE_DEBUG_CV_INFO_PDB70; a `Cv20` has none (what `Debug` / `Serialize` print as "signature") -/
def CodeView.guidRef : CodeView → Option Ref
  | .cv20 _ _ => none
  | .cv70 i _ => some ⟨i.off + cv70OffSignature, 16, 4⟩
/-- `CodeView::Cv20 { image, .. }` → `image.TimeDateStamp`; a `Cv70` has none (what `Debug` / `Serialize` print
as "time_date_stamp") -/
def CodeView.timestamp (b : Bytes) : CodeView → Option Nat
  | .cv20 i _ => some (le32 b (i.off + cv20OffTimeDateStamp))
  | .cv70 _ _ => none
/-- `CodeView::Cv20 { image, .. }` → `image.Offset` -/
def CodeView.offset (b : Bytes) : CodeView → Option Nat
  | .cv20 i _ => some (le32 b (i.off + cv20OffOffset))
  | .cv70 _ _ => none

-- src: debug.rs:Debug::pdb_file_name — `find_map` over the entries: the first entry that decodes as CodeView
def pdbFileNameFrom (v : View) (t : Ref) : Nat → Nat → Option Ref
  | 0, _ => none
  | fuel+1, i =>
    match dirEntry v (debugEntryOff t i) with
    | .ok (.codeView cv) => some cv.name
    | _ => pdbFileNameFrom v t fuel (i + 1)

def pdbFileName (v : View) (t : Ref) : Option Ref := pdbFileNameFrom v t (debugCount t) 0

structure PgoItem where
  rva : Nat
  size : Nat
  name : Ref
  deriving DecidableEq, Repr

/-- `Pgo::iter`: the window of u32 words (offset, count) after the leading signature word -/
def pgoIterStart (image : Ref) : Nat × Nat :=
  let n := image.len / 4
  if n ≥ 1 then (image.off + 4, n - 1) else (image.off, n)

-- src: wrap/debug.rs:PgoIter::next — ONE call: the answer and the iterator's state afterwards.  The state of a
-- `PgoIter` is the window `self.image` of u32 words: (buffer offset, number of words).
def pgoNext (b : Bytes) (st : Nat × Nat) : Out (Option PgoItem × (Nat × Nat)) :=
  let off := st.1
  let n := st.2
  if n ≥ 3 then
    let rva := le32 b off                                   -- self.image[0]
    let size := le32 b (off + 4)                            -- self.image[1]
    match cstrFromBytes b (off + 8) (4 * (n - 2)) with      -- CStr::from_bytes(bytes(&self.image[2..]))?
    | none => .ok (none, st)                                -- `?`: `None`, `self.image` not advanced
    | some name =>
      let len := (name.len - 1) / 4                         -- name.len() >> 2  (len() excludes the NUL)
      if 2 + len + 1 > n then .panic "PgoIter::next:image[2+len+1..]"
      else .ok (some ⟨rva, size, name⟩, (off + 4 * (2 + len + 1), n - (2 + len + 1)))
  else .ok (none, st)

/-- `next` iterated until the first `None` (what `for sec in pgo` sees) -/
def pgoLoop (b : Bytes) : Nat → Nat → Nat → Out (List PgoItem)
  | 0, _, _ => .diverge
  | fuel+1, off, n =>
    pgoNext b (off, n) >>= fun r =>
      match r.1 with
      | none => .ok []
      | some item => pgoLoop b fuel r.2.1 r.2.2 >>= fun rest => .ok (item :: rest)

/-- the items a `PgoIter` in state `st` will still yield -/
def pgoItemsFrom (b : Bytes) (st : Nat × Nat) : Out (List PgoItem) := pgoLoop b (st.2 + 1) st.1 st.2

def pgoItems (b : Bytes) (image : Ref) : Out (List PgoItem) := pgoItemsFrom b (pgoIterStart image)

/-! `PgoIter` implements `next` only; the other calls it offers are the provided methods of
`core::iter::Iterator`, loops over `next` (as for `IterBlocks`, Model/Relocs.lean) -/

-- src: core::iter::Iterator::nth (provided): `self.advance_by(n).ok()?; self.next()`, where `advance_by` calls
-- `next` up to `n` times and gives up at the first `None`
def pgoNth (b : Bytes) : Nat → Nat × Nat → Out (Option PgoItem × (Nat × Nat))
  | 0, st => pgoNext b st
  | k+1, st =>
    pgoNext b st >>= fun r =>
      match r.1 with
      | none => .ok (none, r.2)
      | some _ => pgoNth b k r.2

-- src: core::iter::Iterator::count (provided): `self.fold(0, |n, _| n + 1)`, a loop over `next`
def pgoCountLoop (b : Bytes) : Nat → Nat × Nat → Nat → Out Nat
  | 0, _, _ => .diverge
  | fuel+1, st, acc =>
    pgoNext b st >>= fun r =>
      match r.1 with
      | none => .ok acc
      | some _ => pgoCountLoop b fuel r.2 (acc + 1)

def pgoCount (b : Bytes) (st : Nat × Nat) : Out Nat := pgoCountLoop b (st.2 + 1) st 0

-- src: core::iter::Iterator::size_hint (provided): `(0, None)`
def pgoSizeHint (_st : Nat × Nat) : Nat × Option Nat := (0, none)

/-! ### TLS directory -/

-- src: tls.rs:Tls::try_from
def tlsTryFrom (v : View) : Out Ref :=
  match v.dataDir 9 with
  | none => .err .null
  | some (va, _) => v.derva (.rva va) (tlsSize v.fmt) (tlsAlign v.fmt)

def tlsStart (v : View) (t : Ref) : Nat := ptrAt v t.off
def tlsEnd (v : View) (t : Ref) : Nat := ptrAt v (t.off + v.fmt.ptrSize)
def tlsIndex (v : View) (t : Ref) : Nat := ptrAt v (t.off + 2 * v.fmt.ptrSize)
def tlsCallBacks (v : View) (t : Ref) : Nat := ptrAt v (t.off + 3 * v.fmt.ptrSize)
def tlsZeroFill (v : View) (t : Ref) : Nat := le32 v.b (t.off + 4 * v.fmt.ptrSize)
def tlsChars (v : View) (t : Ref) : Nat := le32 v.b (t.off + 4 * v.fmt.ptrSize + 4)

-- src: tls.rs:Tls::raw_data
def tlsRawData (v : View) (t : Ref) : Out Ref :=
  if tlsStart v t > tlsEnd v t then .err .invalid
  else v.dervaSlice (.va (tlsStart v t)) 1 1 (tlsEnd v t - tlsStart v t)

-- src: tls.rs:Tls::slot    (&u32)
def tlsSlot (v : View) (t : Ref) : Out Ref := v.derva (.va (tlsIndex v t)) 4 4

-- src: tls.rs:Tls::callbacks    (&[Va], zero terminated)
def tlsCallbacks (v : View) (t : Ref) : Out Ref :=
  v.dervaSliceS (.va (tlsCallBacks v t)) v.fmt.ptrSize v.fmt.ptrSize 0

/-! ### load config directory -/

-- src: load_config.rs:LoadConfig::try_from
def lcTryFrom (v : View) : Out Ref :=
  match v.dataDir 10 with
  | none => .err .null
  | some (va, _) => v.derva (.rva va) (lcSize v.fmt) (lcAlign v.fmt)

def lcDeclaredSize (v : View) (t : Ref) : Nat := le32 v.b t.off
def lcCookieVa (v : View) (t : Ref) : Nat := ptrAt v (t.off + lcOffCookie v.fmt)
def lcTableVa (v : View) (t : Ref) : Nat := ptrAt v (t.off + lcOffTable v.fmt)
def lcCount (v : View) (t : Ref) : Nat := ptrAt v (t.off + lcOffCount v.fmt)

-- src: load_config.rs:LoadConfig::security_cookie    (&u32)
def lcSecurityCookie (v : View) (t : Ref) : Out Ref := v.derva (.va (lcCookieVa v t)) 4 4

-- src: load_config.rs:LoadConfig::se_handler_table    (&[Va] of SEHandlerCount elements)
def lcSeHandlerTable (v : View) (t : Ref) : Out Ref :=
  v.dervaSlice (.va (lcTableVa v t)) v.fmt.ptrSize v.fmt.ptrSize (lcCount v t)

/-! ### exception directory -/

-- src: exception.rs:Exception::try_from    (&[RUNTIME_FUNCTION]: 12 bytes each, align 4)
def excTryFrom (v : View) : Out Ref :=
  match v.dataDir 3 with
  | none => .err .null
  | some (va, size) =>
    if size % 12 ≠ 0 then .err .invalid
    else v.dervaSlice (.rva va) 12 4 (size / 12)

def excCount (t : Ref) : Nat := t.len / 12
def rfOff (t : Ref) (i : Nat) : Nat := t.off + 12 * i
def rfBegin (b : Bytes) (t : Ref) (i : Nat) : Nat := le32 b (rfOff t i)
def rfEnd (b : Bytes) (t : Ref) (i : Nat) : Nat := le32 b (rfOff t i + 4)
def rfUnwind (b : Bytes) (t : Ref) (i : Nat) : Nat := le32 b (rfOff t i + 8)

-- src: exception.rs:Exception::check_sorted    (`windows(2).all(..)`)
def checkSorted (b : Bytes) (t : Ref) : Bool :=
  (List.range (excCount t - 1)).all fun i =>
    rfBegin b t i ≤ rfEnd b t i ∧ rfEnd b t i ≤ rfBegin b t (i + 1) ∧ rfBegin b t (i + 1) ≤ rfEnd b t (i + 1)

/-- `Result<usize, usize>` of a binary search -/
inductive SearchRes
  | found (i : Nat)
  | notFound (i : Nat)
  deriving DecidableEq, Repr

/-- src: core/src/slice/mod.rs:binary_search_by — the `while size > 1` loop; `cmp i` = the closure applied to
element `i`.  Returns the final `base`. -/
def bsearchLoop (cmp : Nat → Ordering) (base size : Nat) : Nat :=
  if size > 1 then
    let half := size / 2
    let mid := base + half
    let base' := if cmp mid = .gt then base else mid        -- select_unpredictable(cmp == Greater, base, mid)
    bsearchLoop cmp base' (size - half)
  else base
termination_by size
decreasing_by omega

-- src: core/src/slice/mod.rs:binary_search_by
def bsearchBy (n : Nat) (cmp : Nat → Ordering) : SearchRes :=
  if n = 0 then .notFound 0
  else
    let base := bsearchLoop cmp 0 n
    match cmp base with
    | .eq => .found base
    | .lt => .notFound (base + 1)
    | .gt => .notFound base

/-- the closure of `index_of` applied to record `i`: how the *record* compares to `pc` -/
def rfCmp (b : Bytes) (t : Ref) (pc : Nat) (i : Nat) : Ordering :=
  if pc < rfBegin b t i then .gt
  else if pc ≥ rfEnd b t i then .lt
  else .eq

-- src: exception.rs:Exception::index_of
def indexOf (b : Bytes) (t : Ref) (pc : Nat) : SearchRes := bsearchBy (excCount t) (rfCmp b t pc)

-- src: exception.rs:Exception::lookup_function_entry    (the RUNTIME_FUNCTION of the hit)
def lookupFunctionEntry (b : Bytes) (t : Ref) (pc : Nat) : Out (Option Ref) :=
  match indexOf b t pc with
  | .found i =>
    if i < excCount t then .ok (some ⟨rfOff t i, 12, 4⟩)          -- &self.image[index]
    else .panic "lookup_function_entry:image[index]"
  | .notFound _ => .ok none

-- src: exception.rs:Function::bytes
def fnBytes (v : View) (t : Ref) (i : Nat) : Out Ref :=
  if rfBegin v.b t i > rfEnd v.b t i then .err .overflow
  else v.dervaSlice (.rva (rfBegin v.b t i)) 1 1 (rfEnd v.b t i - rfBegin v.b t i)

-- src: exception.rs:Function::unwind_info    (&UNWIND_INFO: 4 bytes, align 1; CountOfCodes at +2)
def unwindInfo (v : View) (t : Ref) (i : Nat) : Out Ref :=
  match v.slice (rfUnwind v.b t i) 4 1 with
  | .ok bytes =>
    rawRef "unwind_info:UNWIND_INFO" v.img bytes.off 4 1 >>= fun image =>
    let minSize := 4 + 2 * byteAt v.b (image.off + 2)
    if bytes.len < minSize then .err .bounds else .ok image
  | .err e => .err e | .panic s => .panic s | .ub s => .ub s | .diverge => .diverge

-- src: exception.rs:UnwindInfo::unwind_codes    (`from_raw_parts(UnwindCode.as_ptr(), CountOfCodes)`)
def unwindCodes (v : View) (image : Ref) : Out Ref :=
  rawRef "unwind_codes:from_raw_parts" v.img (image.off + 4) (2 * byteAt v.b (image.off + 2)) 1

/-- `image.CountOfCodes` (what `unwind_info` and `unwind_codes` read at +2) -/
def uwCountOfCodes (b : Bytes) (image : Ref) : Nat := byteAt b (image.off + 2)
-- src: exception.rs:UnwindInfo::{version, flags, size_of_prolog, frame_register, frame_offset}
def uwVersion (b : Bytes) (image : Ref) : Nat := byteAt b image.off % 8
def uwFlags (b : Bytes) (image : Ref) : Nat := byteAt b image.off / 8
def uwSizeOfProlog (b : Bytes) (image : Ref) : Nat := byteAt b (image.off + 1)
def uwFrameRegister (b : Bytes) (image : Ref) : Nat := byteAt b (image.off + 3) % 16
def uwFrameOffset (b : Bytes) (image : Ref) : Nat := byteAt b (image.off + 3) / 16

/-! ### security directory -/

-- src: pe64/security.rs:try_from + security.rs:Security::new    (the directory bytes, `&[u8]`)
def securityTryFrom (v : View) : Out Ref :=
  if v.kind ≠ .file then .err .unmapped
  else match v.dataDir 4 with
    | none => .err .null
    | some (va, size) =>
      if va = 0 then .err .null
      else if va % 8 ≠ 0 ∨ size % 8 ≠ 0 then .err .misaligned
      else if size = 0 then .err .bounds
      else match cadd64 va size with                        -- start.checked_add(size)
        | none => .err .overflow
        | some stop =>
          if va ≤ stop ∧ stop ≤ v.b.size then                -- image.get(start..end)
            -- Security::new: debug_assert!(aligned_to(align_of::<WIN_CERTIFICATE>())); debug_assert!(len >= 8)
            if (v.img.base + va) % 4 ≠ 0 then .panic "Security::new:aligned"
            else if stop - va < 8 then .panic "Security::new:len"
            else .ok ⟨va, stop - va, 1⟩
          else .err .bounds

-- src: security.rs:Security::image    (`&*(ptr as *const WIN_CERTIFICATE)`: 8 bytes, align 4)
def secImage (v : View) (s : Ref) : Out Ref := rawRef "Security::image" v.img s.off 8 4
def secLength (b : Bytes) (s : Ref) : Nat := le32 b s.off
def secRevision (b : Bytes) (s : Ref) : Nat := le16 b (s.off + 4)
-- src: security.rs:Security::certificate_type
def secCertType (v : View) (s : Ref) : Out Nat :=
  secImage v s >>= fun im => .ok (le16 v.b (im.off + 6))
-- src: security.rs:Security::certificate_data    (`get_unchecked(8..)`)
def secCertData (v : View) (s : Ref) : Out Ref :=
  if s.len < 8 then .ub "certificate_data:get_unchecked(8..)"
  else rawRef "certificate_data:get_unchecked(8..)" v.img (s.off + 8) (s.len - 8) 1

end Pelite.Dirs
