import PeliteModel.Model.Pe
import PeliteModel.Model.Atom
/-!
Model of the pattern interpreter `Exec::{exec, exec_many}` (src/pe64/scanner.rs, compiled for pe32
and pe64 through `#[path]`), parametrised by the private `trait Scan` (`ScanI`) and instantiated
for `Pe.View` (`impl Scan for P: Pe`) and for a raw byte buffer (`impl Scan for &[u8]`, test only).

Shape of the recursion.  The Rust `exec` is a `while` loop over `self.pat[self.pc]` that calls
itself for `Push`, `Case` and (through `exec_many`) `Many`.  Here one call of `exec` processes one
atom and then calls itself for the rest of the loop; the fuel is handed *down* (not threaded), so
the fuel consumed is the length of the longest chain "loop position / nested call", which is what
bounds the Rust stack depth.  `Lemmas/Exec.lean` proves that fuel `pat.length + 1 - pc` suffices:
every recursive call (continuation or nested frame) starts at a strictly larger `pc`.
The *number of steps* is not bounded by that: `exec_many` re-runs the tail of the pattern once per
candidate offset, so the work is bounded by the product of the `Many` limits only.

Integers: `cursor`, save slots: `u32` as `Nat`; `pc`: `usize` as `Nat` (`pc ≤ pat.len() + 255`
always, see `Lemmas/Exec.lean:exec_pc_le`).  Atom arguments are `u8` (`Atom.ok`); for such
arguments `ext_range + n as u32 ≤ 255 * 256 + 255` and `ext as u32 * 256` cannot overflow, they are
plain additions here.
-/
namespace Pelite.Exec
open Pelite.Pattern

/-- every atom argument is a `u8` -/
def Atom.ok : Atom → Bool
  | .byte n | .save n | .push n | .fuzzy n | .skip n | .back n | .rangext n | .many n | .pir n
  | .check n | .aligned n | .readI8 n | .readU8 n | .readI16 n | .readU16 n | .readI32 n
  | .readU32 n | .zero n | .case n | .brk n => n < 256
  | .pop | .jump1 | .jump4 | .ptr | .vTypeName | .nop => true

/-- src: scanner.rs: `trait Scan` — what the interpreter needs from the image.
`read w rva`: the little-endian unsigned value of the `w` bytes at `rva` (`read::<T>` for
`size_of::<T>() = w`); `slice rva`: the window `mem[off .. off+len]`; `fmt` selects
`size_of::<Va>()` and the `VTypeName` variant the module was compiled with. -/
structure ScanI where
  mem : Bytes
  fmt : Pe.Fmt
  read : Nat → Nat → Option Nat
  pointer : Nat → Option Nat
  slice : Nat → Option (Nat × Nat)

/-- `self.pc`, `self.cursor` and the caller's `save: &mut [Rva]` -/
structure St where
  pc : Nat
  cursor : Nat
  save : Array Nat
  deriving DecidableEq, Repr

/-- `if let Some(slot) = save.get_mut(slot as usize) { *slot = v }` : out of range stores are ignored -/
@[inline] def saveSet (save : Array Nat) (slot v : Nat) : Array Nat := save.setIfInBounds slot v

/-- `i8 as u32`, `i16 as u32` of the raw little-endian value -/
@[inline] def sext8 (b : Nat) : Nat := if b < 128 then b else b + 0xFFFFFF00
@[inline] def sext16 (w : Nat) : Nat := if w < 32768 then w else w + 0xFFFF0000

/-- `let skip = ext_range + skip as u32; if skip == 0 { SKIP_VA } else { skip }` -/
@[inline] def skipAmt (S : ScanI) (ext n : Nat) : Nat :=
  if ext + n = 0 then S.fmt.ptrSize else ext + n

/-- src: scanner.rs:Exec::exec, `Atom::VTypeName` (`fn get`, the pe32 and the pe64 variant) -/
def vtypeName (S : ScanI) (cursor : Nat) : Option Nat :=
  match S.fmt with
  | .pe32 =>
    if cursor % 4 ≠ 0 then none else do            -- (cursor & 3) != 0
      let colPtr ← S.read 4 (wsub32 cursor 4)
      let colRva ← S.pointer colPtr
      let typePtr ← S.read 4 (wadd32 colRva 12)
      let typeRva ← S.pointer typePtr
      some (wadd32 typeRva 8)
  | .pe64 =>
    if cursor % 8 ≠ 0 then none else do            -- (cursor & 7) != 0
      let colPtr ← S.read 8 (wsub32 cursor 8)
      let colRva ← S.pointer colPtr
      let typeRva ← S.read 4 (wadd32 colRva 12)
      some (wadd32 typeRva 16)

/-- One iteration of the `while let Some(atom)` loop for the atoms that do not call `exec`
recursively or return `true`.  `none` = `return false`; `some (st, mask, ext_range)` = fall through
to the next iteration.  `st.pc` has been incremented already. -/
def step (S : ScanI) (a : Atom) (st : St) (mask ext : Nat) : Out (Option (St × Nat × Nat)) :=
  match a with
  | .byte b =>
    match S.read 1 st.cursor with
    | some v =>
      if v &&& mask = b &&& mask then
        -- `self.cursor += 1` is a checked add
        if st.cursor + 1 < 4294967296 then .ok (some ({ st with cursor := st.cursor + 1 }, 0xff, ext))
        else .panic "exec:Byte:cursor+=1"
      else .ok none
    | none => .ok none
  | .save slot => .ok (some ({ st with save := saveSet st.save slot st.cursor }, mask, ext))
  | .fuzzy m => .ok (some (st, m, ext))
  | .skip n => .ok (some ({ st with cursor := wadd32 st.cursor (skipAmt S ext n) }, mask, 0))
  | .back n => .ok (some ({ st with cursor := wsub32 st.cursor (skipAmt S ext n) }, mask, 0))
  | .rangext n => .ok (some (st, mask, n * 256))
  | .jump1 =>
    match S.read 1 st.cursor with
    | some v => .ok (some ({ st with cursor := wadd32 (wadd32 st.cursor (sext8 v)) 1 }, mask, ext))
    | none => .ok none
  | .jump4 =>
    match S.read 4 st.cursor with
    | some v => .ok (some ({ st with cursor := wadd32 (wadd32 st.cursor v) 4 }, mask, ext))
    | none => .ok none
  | .ptr =>
    match (S.read S.fmt.ptrSize st.cursor).bind S.pointer with
    | some rva => .ok (some ({ st with cursor := rva }, mask, ext))
    | none => .ok none
  | .pir slot =>
    match S.read 4 st.cursor with
    | some v =>
      let base := (st.save[slot]?).getD st.cursor
      .ok (some ({ st with cursor := wadd32 base v }, mask, ext))
    | none => .ok none
  | .vTypeName =>
    match vtypeName S st.cursor with
    | some c => .ok (some ({ st with cursor := c }, mask, ext))
    | none => .ok none
  | .check slot =>
    match st.save[slot]? with
    | some rva => if rva ≠ st.cursor then .ok none else .ok (some (st, mask, ext))
    | none => .ok (some (st, mask, ext))
  | .aligned n =>
    -- nonsensical alignments are ignored; `cursor & ((1 << n) - 1) == 0`
    if n < 32 ∧ st.cursor % 2 ^ n ≠ 0 then .ok none else .ok (some (st, mask, ext))
  | .readU8 slot =>
    match S.read 1 st.cursor with
    | some v => .ok (some ({ st with save := saveSet st.save slot v, cursor := wadd32 st.cursor 1 }, mask, ext))
    | none => .ok none
  | .readI8 slot =>
    match S.read 1 st.cursor with
    | some v => .ok (some ({ st with save := saveSet st.save slot (sext8 v), cursor := wadd32 st.cursor 1 }, mask, ext))
    | none => .ok none
  | .readU16 slot =>
    match S.read 2 st.cursor with
    | some v => .ok (some ({ st with save := saveSet st.save slot v, cursor := wadd32 st.cursor 2 }, mask, ext))
    | none => .ok none
  | .readI16 slot =>
    match S.read 2 st.cursor with
    | some v => .ok (some ({ st with save := saveSet st.save slot (sext16 v), cursor := wadd32 st.cursor 2 }, mask, ext))
    | none => .ok none
  | .readU32 slot | .readI32 slot =>
    match S.read 4 st.cursor with
    | some v => .ok (some ({ st with save := saveSet st.save slot v, cursor := wadd32 st.cursor 4 }, mask, ext))
    | none => .ok none
  | .zero slot => .ok (some ({ st with save := saveSet st.save slot 0 }, mask, ext))
  | .nop => .ok (some (st, mask, ext))
  -- handled by `exec` itself
  | .push _ | .pop | .many _ | .case _ | .brk _ => .ok none

/-- src: exec_many, "Peek at a byte to match on": the first `Byte` behind any number of `Save`s -/
def peekByte : List Atom → Option Nat
  | .byte b :: _ => some b
  | .save _ :: r => peekByte r
  | _ => none

/-- `bytes[i] == byte` when a byte was peeked, every offset otherwise -/
def peekOk (peek : Option Nat) (v : Nat) : Bool :=
  match peek with
  | some b => v == b
  | none => true

/-- src: exec_many, the two `for i in 0..bytes.len() as u32` loops (`peek = some b`: only offsets
whose byte equals `b` are tried and only then `self.cursor` / `self.pc` are reset; `none`: every
offset).  `ex` is the recursive `self.exec(save)`; `k` offsets remain, the next one is `i`.
A failed attempt leaves its `pc`, `cursor` and save contents behind. -/
def manyLoop (mem : Bytes) (ex : St → Out (Bool × St)) (cursor pc off : Nat) (peek : Option Nat) :
    Nat → Nat → St → Out (Bool × St)
  | 0, _, st => .ok (false, st)
  | k+1, i, st =>
    if peekOk peek (byteAt mem (off + i)) then
      match ex { st with cursor := wadd32 cursor i, pc := pc } with
      | .ok (true, st') => .ok (true, st')
      | .ok (false, st') => manyLoop mem ex cursor pc off peek k (i + 1) st'
      | o => o
    else manyLoop mem ex cursor pc off peek k (i + 1) st

/-- src: scanner.rs:Exec::exec_many.  `limit == 0` means "to the end of the slice". -/
def execMany (S : ScanI) (pat : List Atom) (ex : St → Out (Bool × St)) (st : St) (limit : Nat) :
    Out (Bool × St) :=
  match S.slice st.cursor with
  | none => .ok (false, st)
  | some (off, len) =>
    let n := if limit = 0 then len else min limit len
    -- `&self.pat[pc..]`
    if st.pc ≤ pat.length then
      manyLoop S.mem ex st.cursor st.pc off (peekByte (pat.drop st.pc)) n 0 st
    else .panic "exec_many:pat[pc..]"

/-- src: scanner.rs:Exec::exec.  `mask`, `ext` are the locals `mask`, `ext_range`; every nested
call starts with `0xff`, `0`.  Returns the function result and `self` / `save` as it leaves them. -/
def exec (S : ScanI) (pat : List Atom) : Nat → St → Nat → Nat → Out (Bool × St)
  | 0, _, _, _ => .diverge
  | fuel+1, st, mask, ext =>
    match pat[st.pc]? with
    | none => .ok (true, st)
    | some atom =>
      let st := { st with pc := st.pc + 1 }
      match atom with
      | .push skip =>
        let cursor := wadd32 st.cursor (skipAmt S ext skip)
        match exec S pat fuel st 0xff 0 with
        | .ok (true, st') => exec S pat fuel { st' with cursor := cursor } 0xff 0
        | o => o                                   -- `return false` (or the failure of the callee)
      | .pop => .ok (true, st)
      | .many limit => execMany S pat (fun s => exec S pat fuel s 0xff 0) st (ext + limit)
      | .case next =>
        match exec S pat fuel st 0xff 0 with
        | .ok (true, st') => exec S pat fuel st' mask ext
        | .ok (false, st') => exec S pat fuel { st' with pc := st.pc + next, cursor := st.cursor } mask ext
        | o => o
      | .brk next => .ok (true, { st with pc := st.pc + next })
      | a =>
        match step S a st mask ext with
        | .ok none => .ok (false, st)
        | .ok (some (st', mask', ext')) => exec S pat fuel st' mask' ext'
        | .err e => .err e
        | .panic s => .panic s
        | .ub s => .ub s
        | .diverge => .diverge

/-- fuel that always suffices (`Lemmas/Exec.lean:exec_ne_diverge`) -/
def fuelFor (pat : List Atom) : Nat := pat.length + 1

/-- src: scanner.rs:Scanner::exec — `Exec { pe, pat, cursor, pc: 0 }.exec(save)` -/
def run (S : ScanI) (pat : List Atom) (cursor : Nat) (save : Array Nat) : Out (Bool × Array Nat) :=
  match exec S pat (fuelFor pat) ⟨0, cursor, save⟩ 0xff 0 with
  | .ok (b, st) => .ok (b, st.save)
  | .err e => .err e
  | .panic s => .panic s
  | .ub s => .ub s
  | .diverge => .diverge

/-! ### the two implementations of `trait Scan` -/

/-- the little-endian value of `w` bytes at `off` (`ptr::read_unaligned` of a `u8/u16/u32/u64`) -/
def leN (b : Bytes) (w off : Nat) : Nat :=
  match w with
  | 1 => byteAt b off
  | 2 => le16 b off
  | 4 => le32 b off
  | 8 => le64 b off
  | _ => 0

/-- src: scanner.rs: `impl<'a, P: Pe<'a>> Scan<'a> for P` :
`read = derva_copy(rva).ok()` (= `slice(rva, size_of T, 1)` + unaligned read of its first bytes),
`pointer = va_to_rva(va).ok()`, `slice = slice_bytes(rva).ok()` (= `slice(rva, 0, 1)`). -/
def ofView (v : Pe.View) : ScanI where
  mem := v.b
  fmt := v.fmt
  read w rva := match v.slice rva w 1 with
    | .ok r => some (leN v.b w r.off)
    | _ => none
  pointer va := match v.vaToRva va with
    | .ok r => some r
    | _ => none
  slice rva := match v.slice rva 0 1 with
    | .ok r => some (r.off, r.len)
    | _ => none

/-- src: scanner.rs: `impl<'a> Scan<'a> for &'a [u8]` (used by the unit test `exec_tests_parse_docs`
only): `read = self.get(rva .. rva + size_of T)`, `pointer = Some(va as Rva)`, `slice = self.get(rva..)`. -/
def ofRaw (f : Pe.Fmt) (b : Bytes) : ScanI where
  mem := b
  fmt := f
  read w rva := if rva + w ≤ b.size then some (leN b w rva) else none
  pointer va := some (va % 4294967296)
  slice rva := if rva ≤ b.size then some (rva, b.size - rva) else none

end Pelite.Exec
