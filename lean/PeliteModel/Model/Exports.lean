import PeliteModel.Model.Typed
/-!
Model of the export directory: `src/pe64/exports.rs` (`Exports`, `By`, `GetProcAddress`; compiled a
second time as `pe32::exports`), over the typed-read model (`View.derva`, `dervaSlice`, `dervaCStr`).
The format agnostic API of `src/wrap/exports.rs` — with its three hand-written iterators — has its
own model, `Model/WrapExports.lean`, proved equal to this one in `Thm/C19Wrap.lean`.

`IMAGE_EXPORT_DIRECTORY` (src/image.rs, 40 bytes, align 4):
  0 Characteristics  4 TimeDateStamp  8 Version  12 Name  16 Base  20 NumberOfFunctions
  24 NumberOfNames  28 AddressOfFunctions  32 AddressOfNames  36 AddressOfNameOrdinals

A `CStr` is compared through `as_ref()`: the bytes without the NUL, `==` bytewise and `cmp` /
`partial_cmp` lexicographic (`<` on `List Nat` is exactly the lexicographic order of `[u8]::cmp`).
-/
namespace Pelite.Exports
open Pelite.Pe

/-- `Exports<'a, P>`: the view, the export data directory entry (`datadir`) and the offset of the
`IMAGE_EXPORT_DIRECTORY` in the buffer (`image`) -/
structure Exports where
  v : View
  ddVA : Nat
  ddSize : Nat
  off : Nat

def Exports.b (e : Exports) : Bytes := e.v.b
def Exports.nameRva (e : Exports) : Nat := le32 e.b (e.off + 12)
def Exports.base (e : Exports) : Nat := le32 e.b (e.off + 16)
def Exports.nFns (e : Exports) : Nat := le32 e.b (e.off + 20)
def Exports.nNames (e : Exports) : Nat := le32 e.b (e.off + 24)
def Exports.aFns (e : Exports) : Nat := le32 e.b (e.off + 28)
def Exports.aNames (e : Exports) : Nat := le32 e.b (e.off + 32)
def Exports.aOrds (e : Exports) : Nat := le32 e.b (e.off + 36)

-- src: exports.rs:Exports::try_from
def tryFrom (v : View) : Out Exports :=
  match v.dataDir 0 with
  | none => .err .null
  | some (va, size) => (v.derva (.rva va) 40 4).bind fun r => .ok ⟨v, va, size, r.off⟩

/-- `&'a IMAGE_EXPORT_DIRECTORY` -/
def Exports.image (e : Exports) : Ref := ⟨e.off, 40, 4⟩
-- src: exports.rs:Exports::dll_name
def Exports.dllName (e : Exports) : Out Ref := e.v.dervaCStr (.rva e.nameRva)
-- src: exports.rs:Exports::ordinal_base   (`Base as Ordinal`)
def Exports.ordinalBase (e : Exports) : Nat := e.base % 65536
-- src: exports.rs:Exports::functions / names / name_indices
def Exports.functions (e : Exports) : Out Ref := e.v.dervaSlice (.rva e.aFns) 4 4 e.nFns
def Exports.names (e : Exports) : Out Ref := e.v.dervaSlice (.rva e.aNames) 4 4 e.nNames
def Exports.nameIndices (e : Exports) : Out Ref := e.v.dervaSlice (.rva e.aOrds) 2 2 e.nNames

/-- a table of `By`: buffer offset and element count; `isStatic` = the `&[]` substituted for a null
table (a zero-length slice that does not point into the image) -/
structure Tab where
  off : Nat
  cnt : Nat
  isStatic : Bool
  deriving DecidableEq, Repr

/-- `match self.functions() { Ok(t) => t, Err(Error::Null) => &[], Err(e) => return Err(e) }` -/
def mkTab (r : Out Ref) (cnt : Nat) : Out Tab :=
  match r with
  | .ok r => .ok ⟨r.off, cnt, false⟩
  | .err .null => .ok ⟨0, 0, true⟩
  | .err e => .err e
  | .panic s => .panic s
  | .ub s => .ub s
  | .diverge => .diverge

/-- `By<'a, P>` -/
structure By where
  exp : Exports
  fns : Tab
  names : Tab
  idx : Tab

-- src: exports.rs:Exports::by
def Exports.by (e : Exports) : Out By :=
  (mkTab e.functions e.nFns).bind fun f =>
  (mkTab e.names e.nNames).bind fun n =>
  (mkTab e.nameIndices e.nNames).bind fun i =>
  .ok ⟨e, f, n, i⟩

/-- `Export<'a>`: `Symbol(&'a u32)` = the entry of the address table, `Forward(&'a CStr)` = the
string with its NUL -/
inductive Export
  | symbol (ref : Ref)
  | forward (ref : Ref)
  deriving DecidableEq, Repr

/-- `Import<'a>` as returned by `name_lookup` -/
inductive Import
  | byName (hint : Nat) (name : Ref)
  | byOrdinal (ord : Nat)
  deriving DecidableEq, Repr

/-- `Import` as an argument: the name is the caller's bytes -/
inductive ImportQ
  | byName (hint : Nat) (name : List Nat)
  | byOrdinal (ord : Nat)
  deriving DecidableEq, Repr

/-- `CStr::as_ref()`: the bytes of the string without its NUL -/
def cstrBytes (b : Bytes) (r : Ref) : List Nat :=
  (List.range (r.len - 1)).map (fun i => byteAt b (r.off + i))

-- src: exports.rs:Exports::is_forwarded
def Exports.isForwarded (e : Exports) (rva : Nat) : Bool :=
  decide (rva ≥ e.ddVA ∧ rva - e.ddVA < e.ddSize)

-- src: exports.rs:Exports::symbol_from_rva   (`o` = buffer offset of the `&'a Rva`)
def Exports.symbolFromRva (e : Exports) (o : Nat) : Out Export :=
  let rva := le32 e.b o
  if rva = 0 then .err .null
  else if e.isForwarded rva then (e.v.dervaCStr (.rva rva)).bind fun c => .ok (.forward c)
  else .ok (.symbol ⟨o, 4, 4⟩)

def By.b (y : By) : Bytes := y.exp.v.b
/-- `self.names[i]`, `self.name_indices[i]` for an index already known to be in range -/
def By.nameAt (y : By) (i : Nat) : Nat := le32 y.b (y.names.off + 4 * i)
def By.idxAt (y : By) (i : Nat) : Nat := le16 y.b (y.idx.off + 2 * i)
def By.fnAt (y : By) (i : Nat) : Nat := le32 y.b (y.fns.off + 4 * i)

-- src: exports.rs:By::index
def By.index (y : By) (i : Nat) : Out Export :=
  if i < y.fns.cnt then y.exp.symbolFromRva (y.fns.off + 4 * i) else .err .bounds

-- src: exports.rs:By::ordinal   (`ordinal: u16`, `Base: u32`)
def By.ordinal (y : By) (o : Nat) : Out Export :=
  if o < y.exp.base then .err .bounds else y.index (o - y.exp.base)

-- src: exports.rs:By::hint
def By.hint (y : By) (h : Nat) : Out Export :=
  if h < y.idx.cnt then y.index (y.idxAt h) else .err .bounds

-- src: exports.rs:By::name_of_hint
def By.nameOfHint (y : By) (h : Nat) : Out Ref :=
  if h < y.names.cnt then y.exp.v.dervaCStr (.rva (y.nameAt h)) else .err .bounds

-- src: exports.rs:By::name_linear_   (`for hint in 0..self.names.len()`: `n` hints left, next is `h`)
def By.nameLinearLoop (y : By) (q : List Nat) : Nat → Nat → Out Export
  | 0, _ => .err .null
  | n+1, h =>
    match y.nameOfHint h with
    | .ok c => if cstrBytes y.b c = q then y.hint h else y.nameLinearLoop q n (h + 1)
    | .err _ => y.nameLinearLoop q n (h + 1)
    | .panic s => .panic s
    | .ub s => .ub s
    | .diverge => .diverge

def By.nameLinear (y : By) (q : List Nat) : Out Export := y.nameLinearLoop q y.names.cnt 0

-- src: exports.rs:By::name_   (the `while lower_bound != upper_bound` loop)
def By.nameLoop (y : By) (q : List Nat) (lower upper : Nat) : Out Export :=
  if lower = upper then .err .null
  else if upper < lower then .panic "name:upper_bound - lower_bound"
  else
    let i := lower + (upper - lower) / 2
    if i < y.names.cnt then
      match y.exp.v.dervaCStr (.rva (y.nameAt i)) with
      | .ok c =>
        let s := cstrBytes y.b c
        if q < s then y.nameLoop q lower i
        else if s < q then y.nameLoop q (i + 1) upper
        else if i < y.idx.cnt then y.index (y.idxAt i) else .err .bounds
      | .err e => .err e
      | .panic s => .panic s
      | .ub s => .ub s
      | .diverge => .diverge
    else .panic "name:self.names[i]"
termination_by upper - lower
decreasing_by all_goals omega

def By.name (y : By) (q : List Nat) : Out Export := y.nameLoop q 0 y.names.cnt

-- src: exports.rs:By::hint_name_
def By.hintName (y : By) (h : Nat) (q : List Nat) : Out Export :=
  match y.hint h with
  | .ok e =>
    (match y.nameOfHint h with
     | .ok c => if cstrBytes y.b c = q then .ok e else y.name q
     | .err _ => y.name q
     | .panic s => .panic s
     | .ub s => .ub s
     | .diverge => .diverge)
  | .err _ => y.name q
  | .panic s => .panic s
  | .ub s => .ub s
  | .diverge => .diverge

-- src: exports.rs:By::import
def By.import (y : By) (i : ImportQ) : Out Export :=
  match i with
  | .byName h q => y.hintName h q
  | .byOrdinal o => y.ordinal o

/-- `self.name_indices.iter().position(|&i| i as usize == index)`: `n` entries left, next is `h` -/
def By.position (y : By) (index : Nat) : Nat → Nat → Option Nat
  | 0, _ => none
  | n+1, h => if y.idxAt h = index then some h else y.position index n (h + 1)

-- src: exports.rs:By::name_lookup   (`index: usize`; `(index as u32).wrapping_add(Base) as u16`)
def By.nameLookup (y : By) (index : Nat) : Out Import :=
  match y.position index y.idx.cnt 0 with
  | some h =>
    if h < y.names.cnt then (y.exp.v.dervaCStr (.rva (y.nameAt h))).bind fun c => .ok (.byName h c)
    else .err .bounds
  | none => .ok (.byOrdinal ((index % 4294967296 + y.exp.base) % 4294967296 % 65536))

/-- a value that is computed and dropped: only its panics matter -/
def discard {α β} (x : Out α) (k : Out β) : Out β :=
  match x with
  | .panic s => .panic s
  | .ub s => .ub s
  | .diverge => .diverge
  | _ => k

-- src: exports.rs:By::check_sorted   (over `iter_names()`, whose items evaluate `name_of_hint` and `hint`)
def By.checkSortedLoop (y : By) : Nat → Nat → List Nat → Out Bool
  | 0, _, _ => .ok true
  | n+1, h, last =>
    discard (y.nameOfHint h) <| discard (y.hint h) <|
      (y.nameOfHint h).bind fun c =>
        let s := cstrBytes y.b c
        if s < last then .ok false else y.checkSortedLoop n (h + 1) s

def By.checkSorted (y : By) : Out Bool := y.checkSortedLoop y.names.cnt 0 []

-- src: exports.rs:By::iter / iter_names / iter_name_indices (the items, in order)
def By.iter (y : By) : List (Out Export) :=
  (List.range y.fns.cnt).map fun i => y.exp.symbolFromRva (y.fns.off + 4 * i)
def By.iterNames (y : By) : List (Out Ref × Out Export) :=
  (List.range y.names.cnt).map fun h => (y.nameOfHint h, y.hint h)
/-- `(0..min(names.len(), name_indices.len())).map(|hint| (name_of_hint(hint), name_indices[hint]))`:
the indexing is a checked one (the hand-written twin of src: wrap/exports.rs is `WBy.iterNameIndices`) -/
def By.iterNameIndices (y : By) : List (Out (Out Ref × Nat)) :=
  (List.range (min y.names.cnt y.idx.cnt)).map fun h =>
    if h < y.idx.cnt then .ok (y.nameOfHint h, y.idxAt h)
    else .panic "iter_name_indices:self.name_indices[hint]"

/-- the argument of `GetProcAddress::get_export` -/
inductive Query
  | name (q : List Nat)
  | ordinal (o : Nat)
  | import (i : ImportQ)
  deriving Repr

-- src: exports.rs:GetProcAddress::get_export (three impls; wrap/exports.rs:get_export_by_* = `wGetExport`)
def getExport (v : View) (q : Query) : Out Export :=
  (tryFrom v).bind fun e => e.by.bind fun y =>
    match q with
    | .name n => y.name n
    | .ordinal o => y.ordinal o
    | .import i => y.import i

-- src: exports.rs:GetProcAddress::get_proc_address   (`.symbol().ok_or(Error::Null)`)
def getProcAddress (v : View) (q : Query) : Out Nat :=
  (getExport v q).bind fun e =>
    match e with
    | .symbol r => v.rvaToVa (le32 v.b r.off)
    | .forward _ => .err .null

end Pelite.Exports
