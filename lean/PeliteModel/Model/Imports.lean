import PeliteModel.Model.Typed
/-!
Model of `src/pe64/imports.rs` (compiled for PE32 and PE32+ through `#[path]`) and of the wrappers in
`src/wrap/imports.rs`: `Imports::{try_from, image, iter}`, `Desc::{image, dll_name, iat, int}`,
`import_from_va`, `IAT::{try_from, image, iter}`.  Written once over `View`, parametrised by the
format: `Va` is 4 / 8 bytes wide (size = alignment), the ordinal flag is bit 31 / 63.
The typed reads are the ones of `Model/Typed.lean` (`derva`, `dervaSlice`, `dervaSliceS`, `dervaCStr`);
only the sentinel scan over the 20-byte descriptors is spelled out here, because its stop predicate
(`IMAGE_IMPORT_DESCRIPTOR::is_null`) looks at one *field* of the element.
-/
namespace Pelite.Imports
open Pelite Pelite.Pe

/-- `size_of::<Va>() = align_of::<Va>()` (u32 / u64) -/
def vaSize (f : Fmt) : Nat := f.ptrSize
/-- `IMAGE_ORDINAL_FLAG` = `IMAGE_ORDINAL_FLAG32` / `IMAGE_ORDINAL_FLAG64` (image.rs, pe32/image.rs, pe64/image.rs) -/
def ordinalFlag : Fmt → Nat | .pe32 => 0x80000000 | .pe64 => 0x8000000000000000

/-- `size_of::<IMAGE_IMPORT_DESCRIPTOR>()`; five `u32` fields, `repr(C)`, alignment 4 -/
def descSize : Nat := 20
def descAlign : Nat := 4
/-- field offsets: OriginalFirstThunk 0, TimeDateStamp 4, ForwarderChain 8, Name 12, FirstThunk 16 -/
def offOFT : Nat := 0
def offName : Nat := 12
def offFT : Nat := 16
def dirImport : Nat := 1     -- IMAGE_DIRECTORY_ENTRY_IMPORT
def dirIAT : Nat := 12       -- IMAGE_DIRECTORY_ENTRY_IAT

/-- `wrap::imports::Import<'a>`; the name is the `&CStr` (string plus its NUL) -/
inductive Import
  | byName (hint : Nat) (name : Ref)
  | byOrdinal (ord : Nat)
  deriving DecidableEq, Repr

-- src: imports.rs:import_from_va
def importFromVa (v : View) (va : Nat) : Out Import :=
  if va &&& ordinalFlag v.fmt = 0 then do
    let rva := va % 4294967296                                       -- `va as Rva`
    let hint ← v.derva (.rva rva) 2 2                                -- `pe.derva::<u16>(rva)?`
    let rva2 ← padd32 "import_from_va:rva+2" rva 2                   -- `rva + 2`
    let name ← v.dervaCStr (.rva rva2)                               -- `pe.derva_c_str(rva + 2)?`
    pure (.byName (le16 v.b hint.off) name)                          -- `*hint as usize`
  else
    pure (.byOrdinal (va % 65536))                                   -- `va as Ordinal`

/-- src: image.rs:IMAGE_IMPORT_DESCRIPTOR::is_null on the descriptor stored at offset `o`:
"This is all that really marks an empty import descriptor": `FirstThunk == 0` -/
def isNullAt (b : Bytes) (o : Nat) : Bool := le32 b (o + offFT) == 0

/-- the loop of `derva_slice_f::<IMAGE_IMPORT_DESCRIPTOR, _>`: `bytes` is the window
`[off, off + blen)` of the image, `&*s` is the unchecked reference to element `len`. -/
def descLoop (img : Img) (off blen : Nat) (fuel len : Nat) : Out Nat :=
  match fuel with
  | 0 => .diverge
  | fuel+1 =>
    let offset := len * descSize
    if offset + descSize > blen then .err .bounds                    -- "Safety critical OOB check"
    else match rawRef "derva_slice_f:&*s" img (off + offset) descSize descAlign with
      | .ok s =>
        if isNullAt img.bytes s.off then .ok len                     -- `f(&*s)` → from_raw_parts(.., len)
        else descLoop img off blen fuel (len + 1)
      | .err e => .err e | .panic s => .panic s | .ub s => .ub s | .diverge => .diverge

-- src: imports.rs:Imports::try_from  (the result is `Imports::image()`: `&[IMAGE_IMPORT_DESCRIPTOR]`)
def tryFrom (v : View) : Out Ref :=
  match v.dataDir dirImport with                                     -- `.get(IMAGE_DIRECTORY_ENTRY_IMPORT).ok_or(Null)?`
  | none => .err .null
  | some (rva, _) => do
    let bytes ← v.at (.rva rva) 0 descAlign                          -- `self.slice(rva, 0, align)?`
    let n ← descLoop v.img bytes.off bytes.len (bytes.len + 2) 0
    pure ⟨bytes.off, n * descSize, descAlign⟩

/-- src: imports.rs:Imports::iter / Iter::next: the `&IMAGE_IMPORT_DESCRIPTOR`s of the array, in order -/
def descs (image : Ref) : List Ref :=
  (List.range (image.len / descSize)).map (fun i => ⟨image.off + descSize * i, descSize, descAlign⟩)

/-! ### `Desc` (a reference to one descriptor) -/
def Desc.oft (v : View) (d : Ref) : Nat := le32 v.b (d.off + offOFT)
def Desc.name (v : View) (d : Ref) : Nat := le32 v.b (d.off + offName)
def Desc.ft (v : View) (d : Ref) : Nat := le32 v.b (d.off + offFT)

-- src: imports.rs:Desc::dll_name
def dllName (v : View) (d : Ref) : Out Ref := v.dervaCStr (.rva (Desc.name v d))

/-- the `&'a Va`s a `slice::Iter<'a, Va>` over the array yields -/
def thunkRefs (f : Fmt) (arr : Ref) : List Ref :=
  (List.range (arr.len / vaSize f)).map (fun i => ⟨arr.off + vaSize f * i, vaSize f, vaSize f⟩)

/-- `*va` -/
def thunkVal (v : View) (t : Ref) : Nat := leN v.b t.off (vaSize v.fmt)

-- src: imports.rs:Desc::iat — `derva_slice_s(FirstThunk, 0)`
def iatSlice (v : View) (d : Ref) : Out Ref :=
  v.dervaSliceS (.rva (Desc.ft v d)) (vaSize v.fmt) (vaSize v.fmt) 0
def iat (v : View) (d : Ref) : Out (List Ref) := do
  let s ← iatSlice v d
  pure (thunkRefs v.fmt s)

-- src: imports.rs:Desc::int — `derva_slice_s(OriginalFirstThunk, 0)` mapped through `import_from_va`
def intSlice (v : View) (d : Ref) : Out Ref :=
  v.dervaSliceS (.rva (Desc.oft v d)) (vaSize v.fmt) (vaSize v.fmt) 0
def int (v : View) (d : Ref) : Out (List (Out Import)) := do
  let s ← intSlice v d
  pure ((thunkRefs v.fmt s).map (fun t => importFromVa v (thunkVal v t)))

/-! ### the image-wide IAT -/

-- src: imports.rs:IAT::try_from (the result is `IAT::image()`: `&[Va]`)
def iatTryFrom (v : View) : Out Ref :=
  match v.dataDir dirIAT with                                        -- `.get(IMAGE_DIRECTORY_ENTRY_IAT).ok_or(Null)?`
  | none => .err .null
  | some (rva, size) =>
    -- "Ignore datadir.Size not being a multiple of sizeof(Va)": `Size as usize / size_of::<Va>()`
    v.dervaSlice (.rva rva) (vaSize v.fmt) (vaSize v.fmt) (size / vaSize v.fmt)

-- src: imports.rs:IAT::iter — `(va, import_from_va(pe, va))`
def iatIter (v : View) (image : Ref) : List (Ref × Out Import) :=
  (thunkRefs v.fmt image).map (fun t => (t, importFromVa v (thunkVal v t)))

end Pelite.Imports
