import PeliteModel.Model.Pe
import PeliteModel.Model.Relocs
/-!
Model of the hand-written `Serialize` implementations for the header part of an image
(`src/pe64/headers.rs` `mod serde`, `src/base_relocs.rs` `mod serde`) as a function to the values
the JSON carries, plus the image-level `Pe::base_relocs` extraction (`src/pe64/base_relocs.rs`).
Derived (`#[derive(Serialize)]`) field-by-field output of the `image.rs` structs is the accessor
value by construction of the derive; `serde_json` itself is trusted.
-/
namespace Pelite.Pe

-- src: pe64/base_relocs.rs:try_from — the directory bytes as a window of the image
def View.baseRelocsRef (v : View) : Out Ref :=
  match v.dataDir 5 with
  | none => .err .null
  | some (va, size) =>
    match v.slice va size 4 with
    | .ok r => .ok ⟨r.off, size, 4⟩            -- `relocs.get_unchecked(..Size)`; `slice` guaranteed `Size ≤ len`
    | .err e => .err e | .panic s => .panic s | .ub s => .ub s | .diverge => .diverge

/-- the directory bytes copied out (the relocation model works on its own byte string) -/
def View.baseRelocsBytes (v : View) : Out Bytes :=
  match v.baseRelocsRef with
  | .ok r => .ok (v.b.extract r.off (r.off + r.len))
  | .err e => .err e | .panic s => .panic s | .ub s => .ub s | .diverge => .diverge

-- src: headers.rs:Details "DataDirectory.Sections": position of the first section containing the directory's VirtualAddress
def ddSection : List Sec → Nat → Option Nat
  | [], _ => none
  | s :: rest, va => if va ≥ s.va ∧ va - s.va < s.vs then some 0 else (ddSection rest va).map (· + 1)

structure HeaderJson where
  eLfanew : Nat
  numberOfSections : Nat
  sizeOfOptionalHeader : Nat
  magic : Nat
  sizeOfCode : Nat
  baseOfCode : Nat
  imageBase : Nat
  sizeOfImage : Nat
  sizeOfHeaders : Nat
  checkSumField : Nat
  numberOfRvaAndSizes : Nat
  dataDirectory : List (Nat × Nat)
  sections : List Sec
  detCheckSum : Nat
  detDdSections : List (Option Nat)

/-- what `serialize_pe` reports in "headers" (the fields this model covers) -/
def View.headerJson (v : View) : HeaderJson :=
  let dds := (List.range (numDataDirs v.fmt v.b)).filterMap v.dataDir
  { eLfanew := eLfanew v.b, numberOfSections := numberOfSections v.b,
    sizeOfOptionalHeader := sizeOfOptionalHeader v.b, magic := optMagic v.b,
    sizeOfCode := sizeOfCode v.b, baseOfCode := baseOfCode v.b,
    imageBase := imageBaseField v.fmt v.b, sizeOfImage := sizeOfImage v.b,
    sizeOfHeaders := sizeOfHeaders v.b, checkSumField := checkSumField v.b,
    numberOfRvaAndSizes := numberOfRvaAndSizes v.fmt v.b,
    dataDirectory := dds, sections := v.secs, detCheckSum := v.checkSum,
    detDdSections := dds.map (fun d => ddSection v.secs d.1) }

end Pelite.Pe
