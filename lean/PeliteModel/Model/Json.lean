import PeliteModel.Model.Pe
import PeliteModel.Model.Relocs
/-!
Model of the hand-written `Serialize` implementations for the header part of an image
(`src/pe64/headers.rs` `mod serde`, `src/base_relocs.rs` `mod serde`) as a function to the values
the JSON carries, plus the image-level `Pe::base_relocs` extraction (`src/pe64/base_relocs.rs`).
Derived (`#[derive(Serialize)]`) field-by-field output of the `image.rs` structs is the accessor
value by construction of the derive; `serde_json` itself is trusted.
Second half of the file: the JSON value type `Json`, the text `serde_json` prints for it
(`Json.print`) and a strict reader (`Json.parse`) used to state well-formedness.  The serializer of
the whole image (`View.serializePe`) is Model/JsonDirs.lean.
-/
namespace Pelite.Pe

-- src: pe64/base_relocs.rs:try_from — the directory bytes as a window of the image
def View.baseRelocsRef (v : View) : Out Ref :=
  match v.dataDir 5 with
  | none => .err .null
  | some (va, size) =>
    match v.slice va size 4 with
    | .ok r => .ok ⟨r.off, size, 4⟩            -- `relocs.get_unchecked(..Size)`; `slice` guaranteed `Size ≤ len`
    | .err e => .err e | .panic s => .panic s | .ub s => .ub s | .diverge => .diverge

/-- the directory bytes copied out (the relocation model works on its own byte string) -/
def View.baseRelocsBytes (v : View) : Out Bytes :=
  match v.baseRelocsRef with
  | .ok r => .ok (v.b.extract r.off (r.off + r.len))
  | .err e => .err e | .panic s => .panic s | .ub s => .ub s | .diverge => .diverge

-- src: headers.rs:Details "DataDirectory.Sections": position of the first section containing the directory's VirtualAddress
def ddSection : List Sec → Nat → Option Nat
  | [], _ => none
  | s :: rest, va => if va ≥ s.va ∧ va - s.va < s.vs then some 0 else (ddSection rest va).map (· + 1)

structure HeaderJson where
  eLfanew : Nat
  numberOfSections : Nat
  sizeOfOptionalHeader : Nat
  magic : Nat
  sizeOfCode : Nat
  baseOfCode : Nat
  imageBase : Nat
  sizeOfImage : Nat
  sizeOfHeaders : Nat
  checkSumField : Nat
  numberOfRvaAndSizes : Nat
  dataDirectory : List (Nat × Nat)
  sections : List Sec
  detCheckSum : Nat
  detDdSections : List (Option Nat)

/-- what `serialize_pe` reports in "headers" (the fields this model covers) -/
def View.headerJson (v : View) : HeaderJson :=
  let dds := (List.range (numDataDirs v.fmt v.b)).filterMap v.dataDir
  { eLfanew := eLfanew v.b, numberOfSections := numberOfSections v.b,
    sizeOfOptionalHeader := sizeOfOptionalHeader v.b, magic := optMagic v.b,
    sizeOfCode := sizeOfCode v.b, baseOfCode := baseOfCode v.b,
    imageBase := imageBaseField v.fmt v.b, sizeOfImage := sizeOfImage v.b,
    sizeOfHeaders := sizeOfHeaders v.b, checkSumField := checkSumField v.b,
    numberOfRvaAndSizes := numberOfRvaAndSizes v.fmt v.b,
    dataDirectory := dds, sections := v.secs, detCheckSum := v.checkSum,
    detDdSections := dds.map (fun d => ddSection v.secs d.1) }

end Pelite.Pe

/-! ## JSON values and the text `serde_json` prints for them

`Json` is the value tree a `Serialize` implementation describes to a serde serializer, restricted to
what pelite emits: unit/`None` (`null`), booleans, unsigned integers (every number pelite serializes
is a `u8`..`u64`/`usize`), strings (their UTF-8 bytes), sequences, and structs / maps / struct
variants (all of them JSON objects; the keys are UTF-8 byte strings too; the order of the members
is the order of the `serialize_field` / `collect_map` calls, duplicate keys are kept).
`Json.print` is the text `serde_json::to_string` (the compact formatter) writes for such a tree;
`serde_json` itself is trusted — `print` transcribes `serde_json::ser::format_escaped_str_contents`
and `CompactFormatter`. -/
namespace Pelite

inductive Json
  | null
  | bool (b : Bool)
  | num (n : Nat)
  | str (s : List Nat)
  | arr (xs : List Json)
  | obj (kvs : List (List Nat × Json))
  deriving Repr, Inhabited

namespace Json

/-- the bytes of an ASCII literal (field names, fixed strings) -/
def asc (s : String) : List Nat := s.toList.map Char.toNat

/-- `serialize_str` of an ASCII literal -/
def lit (s : String) : Json := .str (asc s)
/-- `serialize_struct` + `serialize_field`s: the members in call order -/
def struct (l : List (String × Json)) : Json := .obj (l.map fun p => (asc p.1, p.2))
/-- `Option<T>`: `None` is `null`, `Some(x)` is `x` -/
def opt {α} (f : α → Json) : Option α → Json
  | none => .null
  | some a => f a
/-- a sequence of unsigned integers (`&[u8]`, `&[u32]`, `&[Va]`) -/
def nums (l : List Nat) : Json := .arr (l.map .num)

/-- first member with the given key (what a reader of the document sees for distinct keys) -/
def lookup (k : List Nat) : List (List Nat × Json) → Option Json
  | [] => none
  | (k', v) :: rest => if k' = k then some v else lookup k rest
def field (j : Json) (name : String) : Option Json :=
  match j with
  | .obj kvs => lookup (asc name) kvs
  | _ => none

/-! ### the printed text -/

def hexDigitL (n : Nat) : Nat := if n < 10 then 48 + n else 87 + n      -- b"0123456789abcdef"
/-- decimal digits (`itoa`): no sign, no leading zero, "0" for zero -/
def decimal (n : Nat) : List Nat :=
  if n < 10 then [48 + n] else decimal (n / 10) ++ [48 + n % 10]
termination_by n
decreasing_by omega

/-- src: serde_json/ser.rs `ESCAPE` table + `write_char_escape`: one byte of a string -/
def escByte (b : Nat) : List Nat :=
  if b = 34 then [92, 34]                 -- \"
  else if b = 92 then [92, 92]            -- \\
  else if b = 8 then [92, 98]             -- \b
  else if b = 9 then [92, 116]            -- \t
  else if b = 10 then [92, 110]           -- \n
  else if b = 12 then [92, 102]           -- \f
  else if b = 13 then [92, 114]           -- \r
  else if b < 32 then [92, 117, 48, 48, hexDigitL (b / 16), hexDigitL (b % 16)]     -- \u00XX
  else [b]

/-- `format_escaped_str`: the quoted, escaped string -/
def printStr (s : List Nat) : List Nat := [34] ++ s.flatMap escByte ++ [34]

mutual
/-- `serde_json::to_string` (CompactFormatter) -/
def print : Json → List Nat
  | .null => [110, 117, 108, 108]
  | .bool true => [116, 114, 117, 101]
  | .bool false => [102, 97, 108, 115, 101]
  | .num n => decimal n
  | .str s => printStr s
  | .arr xs => [91] ++ printElems xs ++ [93]
  | .obj kvs => [123] ++ printMembers kvs ++ [125]
/-- the elements of an array, separated by `,` -/
def printElems : List Json → List Nat
  | [] => []
  | [x] => print x
  | x :: y :: rest => print x ++ [44] ++ printElems (y :: rest)
/-- the members of an object: `"key":value`, separated by `,` -/
def printMembers : List (List Nat × Json) → List Nat
  | [] => []
  | [(k, v)] => printStr k ++ [58] ++ print v
  | (k, v) :: m :: rest => printStr k ++ [58] ++ print v ++ [44] ++ printMembers (m :: rest)
end

/-! ### a strict reader (specification side: used to STATE that the printed text is well formed; the driver does not use it)

A checker for a subset of RFC 8259 JSON texts over byte lists: it accepts no whitespace, only unsigned
integers without leading zeros, only the escapes `\" \\ \/ \b \f \n \r \t` and `\u00XY` (value < 0x80);
raw bytes < 0x20 inside a string are rejected; no trailing commas.  It may reject well-formed texts, it
accepts no ill-formed one (modulo UTF-8 validity of the bytes ≥ 0x80 inside strings, which are taken
verbatim).  `Lemmas/Json.lean`: `parse (print j) = some j` for every `j`. -/

/-- ASCII `0`..`9` -/
def isDigit (c : Nat) : Bool := decide (48 ≤ c) && decide (c ≤ 57)

/-- value of a run of ASCII digits, most significant first -/
def digitsVal (ds : List Nat) : Nat := ds.foldl (fun a d => 10 * a + (d - 48)) 0

/-- at least two digits and the first one is `0` -/
def leadingZero : List Nat → Bool
  | d :: _ :: _ => d == 48
  | _ => false

/-- `int` of RFC 8259 without sign: the longest run of digits; empty run and leading zero rejected -/
def readNum (t : List Nat) : Option (Nat × List Nat) :=
  if (t.takeWhile isDigit).isEmpty || leadingZero (t.takeWhile isDigit) then none
  else some (digitsVal (t.takeWhile isDigit), t.dropWhile isDigit)

/-- strip the given bytes from the front -/
def expect : List Nat → List Nat → Option (List Nat)
  | [], t => some t
  | _ :: _, [] => none
  | p :: ps, c :: t => if p = c then expect ps t else none

/-- value of one hex digit, either case -/
def hexVal (c : Nat) : Option Nat :=
  if 48 ≤ c ∧ c ≤ 57 then some (c - 48)
  else if 97 ≤ c ∧ c ≤ 102 then some (c - 87)
  else if 65 ≤ c ∧ c ≤ 70 then some (c - 55)
  else none

/-- the byte a two-character escape `\e` stands for -/
def unescChar (e : Nat) : Option Nat :=
  if e = 34 then some 34            -- \"
  else if e = 92 then some 92       -- \\
  else if e = 47 then some 47       -- \/
  else if e = 98 then some 8        -- \b
  else if e = 102 then some 12      -- \f
  else if e = 110 then some 10      -- \n
  else if e = 114 then some 13      -- \r
  else if e = 116 then some 9       -- \t
  else none

/-- the rest of a string after the opening quote: the bytes it denotes and the input after the
closing quote -/
def readStrBody : List Nat → Option (List Nat × List Nat)
  | [] => none
  | c :: r =>
    if c = 34 then some ([], r)
    else if c = 92 then
      match r with
      | [] => none
      | e :: r1 =>
        if e = 117 then
          match r1 with
          | a :: b :: x :: y :: r2 =>
            if a = 48 ∧ b = 48 then
              match hexVal x, hexVal y with
              | some hx, some hy =>
                if 16 * hx + hy < 128 then
                  (readStrBody r2).map (fun p => ((16 * hx + hy) :: p.1, p.2))
                else none
              | _, _ => none
            else none
          | _ => none
        else
          match unescChar e with
          | some v => (readStrBody r1).map (fun p => (v :: p.1, p.2))
          | none => none
    else if c < 32 then none
    else (readStrBody r).map (fun p => (c :: p.1, p.2))

/-- a string: `"` body -/
def readStr : List Nat → Option (List Nat × List Nat)
  | [] => none
  | c :: r => if c = 34 then readStrBody r else none

mutual
/-- one value at the front of the input -/
def parseVal : Nat → List Nat → Option (Json × List Nat)
  | 0, _ => none
  | _ + 1, [] => none
  | fuel + 1, c :: r =>
    if isDigit c then (readNum (c :: r)).map (fun p => (Json.num p.1, p.2))
    else if c = 110 then (expect [117, 108, 108] r).map (fun r' => (Json.null, r'))
    else if c = 116 then (expect [114, 117, 101] r).map (fun r' => (Json.bool true, r'))
    else if c = 102 then (expect [97, 108, 115, 101] r).map (fun r' => (Json.bool false, r'))
    else if c = 34 then (readStrBody r).map (fun p => (Json.str p.1, p.2))
    else if c = 91 then
      match r with
      | [] => none
      | d :: r' =>
        if d = 93 then some (Json.arr [], r')
        else (parseElems fuel (d :: r')).map (fun p => (Json.arr p.1, p.2))
    else if c = 123 then
      match r with
      | [] => none
      | d :: r' =>
        if d = 125 then some (Json.obj [], r')
        else (parseMembers fuel (d :: r')).map (fun p => (Json.obj p.1, p.2))
    else none
/-- `value (, value)* ]` -/
def parseElems : Nat → List Nat → Option (List Json × List Nat)
  | 0, _ => none
  | fuel + 1, t =>
    match parseVal fuel t with
    | none => none
    | some (_, []) => none
    | some (v, c :: r) =>
      if c = 93 then some ([v], r)
      else if c = 44 then (parseElems fuel r).map (fun p => (v :: p.1, p.2))
      else none
/-- `string : value (, string : value)* }` -/
def parseMembers : Nat → List Nat → Option (List (List Nat × Json) × List Nat)
  | 0, _ => none
  | fuel + 1, t =>
    match readStr t with
    | none => none
    | some (_, []) => none
    | some (k, d :: r1) =>
      if d = 58 then
        match parseVal fuel r1 with
        | none => none
        | some (_, []) => none
        | some (v, e :: r2) =>
          if e = 125 then some ([(k, v)], r2)
          else if e = 44 then (parseMembers fuel r2).map (fun p => ((k, v) :: p.1, p.2))
          else none
      else none
end

/-- a whole text: one value and nothing after it -/
def parse (t : List Nat) : Option Json :=
  match parseVal (t.length + 1) t with
  | some (j, []) => some j
  | _ => none

end Json

/-! ### `Result::ok()` inside an `Out` computation -/
namespace Out
/-- `result.ok()`: a library error becomes `None`, a value `Some`; a panic / unchecked access /
hang of the accessor is one of the serializer. -/
def okOpt {α} : Out α → Out (Option α)
  | .ok a => .ok (some a)
  | .err _ => .ok none
  | .panic s => .panic s
  | .ub s => .ub s
  | .diverge => .diverge
/-- what `.ok()` gives for the accessor's answer, as a pure value (for statements) -/
def toOption {α} : Out α → Option α
  | .ok a => some a
  | _ => none
end Out

end Pelite
