import PeliteModel.Model.Json
import PeliteModel.Model.CStrFmt
import PeliteModel.Model.Exports
import PeliteModel.Model.Imports
import PeliteModel.Model.Dirs
import PeliteModel.Model.Rich
import PeliteModel.Model.Resources
/-!
Model of `serialize_pe` (src/pe64/pe.rs) — what `impl Serialize for PeFile / PeView` (and, through
`#[serde(untagged)]`, the format-agnostic `Wrap<..>`) hands to a serde serializer — composed of the
module models.  Nothing here re-implements a directory decoder: every value comes from the function
of Model/{Exports,Imports,Relocs,Dirs,Rich,Resources}.lean that models the accessor the Rust
serializer calls.

## The structure `serialize_pe` emits (read off the source, 2026-09-26)

`serialize_struct(pe.serde_name(), 10)`, ten fields in this order:

```
 1 "headers"         Headers<P>                 never null (infallible accessor)            src: pe64/headers.rs mod serde
 2 "rich_structure"  pe.rich_structure().ok()   null | {xor_key, checksum, records:[{product, build, count}]}
                                                                                             src: rich_structure.rs mod serde
 3 "exports"         pe.exports().ok()          null | (Exports::serialize = self.by().ok()) null |
                       {dll_name: null|str, time_date_stamp, version:"maj.min", ordinal_base, functions:[u32], names:{name: index}}
                                                                                             src: pe64/exports.rs mod serde
 4 "imports"         pe.imports().ok()          null | [ {dll_name: null|str, int: null|[Import]} ]
                       Import (derive, externally tagged): {"ByName":{hint,name}} | {"ByOrdinal":{ord}}
                                                                                             src: pe64/imports.rs mod serde, wrap/imports.rs
 5 "base_relocs"     pe.base_relocs().ok()      null | {rvas:[u32], types:[u8]}              src: base_relocs.rs mod serde
 6 "debug"           pe.debug().ok()            null | [ {type: null|str, time_date_stamp, version:"maj.min", entry: null|Entry} ]
                       Entry (derive, untagged): CodeView {format, pdb_file_name, time_date_stamp|signature, age}
                                               | Dbg {} | Pgo [ {rva, size, name} ] | Unknown(null | [u8])
                                                                                             src: pe64/debug.rs mod serde, wrap/debug.rs mod serde2
 7 "tls"             pe.tls().ok()              null | {raw_data: null|[u8], callbacks: null|[Va]}      src: pe64/tls.rs mod serde
 8 "load_config"     pe.load_config().ok()      null | {security_cookie: null|u32, se_handler_table: null|[Va]}
                                                                                             src: pe64/load_config.rs mod serde
 9 "security"        pe.security().ok()         null | {certificate_type: u16, certificate_data: [u8]}  src: security.rs mod serde
10 "resources"       pe.resources().ok()        null | (Resources::serialize: root() failed) null | tree
                       tree = [ {name: null|u32|str, "directory": null|tree  or  "data": null|{address,size,code_page}} ]
                       cut off with null at depth 32 and after `fsck_budget()` directories     src: resources/mod.rs mod serde
```

* Every field but "headers" is an `Option` made with `.ok()`: an accessor error of ANY kind becomes
  `null`; the error kind is not visible in the document.  Inside the directories the same idiom is used
  for dll names, the INT, the debug entry, TLS data / callbacks, load-config members, resource names
  and entries.  Items of iterators whose decoding fails are dropped (`filter_map(.. .ok())`): INT
  entries, export names (also dropped when the name is not UTF-8: `to_str().ok()`).
* No library error aborts the serialization: the only `?` are on the serializer's own results, and
  `serde_json` fails only on non-string map keys (the only map, "names", has `&str` keys) or I/O.
* `exception` and the IAT are NOT serialized.  `data-encoding` (base64) is an optional feature; without
  it (the harness does not enable it) byte strings are sequences of numbers.
* `&CStr`, `IMAGE_VERSION`, `GUID` are serialized with `collect_str(self)`: their `Display` text.
* Panics of a checked build reachable from here (all are `.panic` / `.ub` branches of the module
  models, and all are excluded for accepted images by `C19_json_total`): `RichStructure::{xor_key,
  records, checksum}` indexing and `i += 4`; `iter_name_indices` indexing; `import_from_va`
  `rva + 2`; `PgoIter::next` slicing; the unchecked casts of debug entries / security.
  Two serializer panics were real defects and are fixed in /repo: 2d21c73 (headers: section
  `VirtualAddress + VirtualSize` overflow in "DataDirectory.Sections") and 74c5571 (resources:
  unbounded recursion on shared / self-referential directories — now the depth / budget cut-off).
-/
namespace Pelite.Pe
open Pelite Pelite.Json

/-- `collect_str(&CStr)`: the `Display` text of the string the reference denotes (all ASCII) -/
def cstrText (b : Bytes) (c : Ref) : List Nat := CStrFmt.display (Exports.cstrBytes b c)

/-- the bytes a `&[u8]` reference denotes -/
def bytesOf (b : Bytes) (r : Ref) : List Nat := (List.range r.len).map fun i => byteAt b (r.off + i)
/-- the values a `&[T]` reference denotes, `T` an unsigned integer of `size` bytes -/
def valsOf (b : Bytes) (r : Ref) (size : Nat) : List Nat :=
  (List.range (r.len / size)).map fun i => leN b (r.off + size * i) size

/-! ### 3 exports -/

structure ExportsJson where
  dllName : Option (List Nat)
  timeDateStamp : Nat
  version : Nat × Nat
  ordinalBase : Nat
  functions : List Nat
  names : List (List Nat × Nat)
  deriving DecidableEq, Repr

/-- `name.ok().and_then(|name| name.to_str().ok())`: the bytes of a name that decoded and is UTF-8 -/
def exportNameStr (b : Bytes) (name : Option Ref) : Option (List Nat) :=
  name.bind fun c =>
    let s := Exports.cstrBytes b c
    if (Resources.utf8Chars s).isSome then some s else none

/-- `iter_name_indices().filter_map(..)` collected by `collect_map` -/
def exportNames (y : Exports.By) : List (Out (Out Ref × Nat)) → Out (List (List Nat × Nat))
  | [] => .ok []
  | it :: rest =>
    it >>= fun p =>                                   -- the item (its `name_indices[hint]` may panic)
    p.1.okOpt >>= fun name =>
    exportNames y rest >>= fun tl =>
    match exportNameStr y.b name with
    | some s => .ok ((s, p.2) :: tl)
    | none => .ok tl

-- src: exports.rs:<By as Serialize>::serialize
def serializeBy (y : Exports.By) : Out ExportsJson :=
  y.exp.dllName.okOpt >>= fun dll =>                  -- self.dll_name().ok()
  exportNames y y.iterNameIndices >>= fun names =>
  .ok { dllName := dll.map (cstrText y.b),
        timeDateStamp := le32 y.b (y.exp.off + 4),    -- self.image.TimeDateStamp
        version := (le16 y.b (y.exp.off + 8), le16 y.b (y.exp.off + 10)),   -- self.image.Version
        ordinalBase := y.exp.ordinalBase,
        functions := (List.range y.fns.cnt).map y.fnAt,                     -- self.functions()
        names := names }

-- src: exports.rs:<Exports as Serialize>::serialize   (`self.by().ok().serialize(serializer)`)
def serializeExports (e : Exports.Exports) : Out (Option ExportsJson) :=
  e.by.okOpt >>= fun oy =>
  match oy with
  | none => .ok none
  | some y => serializeBy y >>= fun j => .ok (some j)

/-- field 3: `pe.exports().ok()` -/
def View.exportsJson (v : View) : Out (Option ExportsJson) :=
  (Exports.tryFrom v).okOpt >>= fun oe =>
  match oe with
  | none => .ok none
  | some e => serializeExports e

/-- `"maj.min"` (`<IMAGE_VERSION as Display>::fmt`) -/
def versionText (ver : Nat × Nat) : List Nat := decimal ver.1 ++ [46] ++ decimal ver.2

def ExportsJson.toJson (x : ExportsJson) : Json :=
  .struct [("dll_name", opt .str x.dllName), ("time_date_stamp", .num x.timeDateStamp),
    ("version", .str (versionText x.version)), ("ordinal_base", .num x.ordinalBase),
    ("functions", nums x.functions), ("names", .obj (x.names.map fun p => (p.1, .num p.2)))]

/-! ### 4 imports -/

/-- `wrap::imports::Import` as serialized: the name is its `Display` text -/
inductive ImportJson
  | byName (hint : Nat) (name : List Nat)
  | byOrdinal (ord : Nat)
  deriving DecidableEq, Repr

structure DescJson where
  dllName : Option (List Nat)
  int : Option (List ImportJson)
  deriving DecidableEq, Repr

def importJson (b : Bytes) : Imports.Import → ImportJson
  | .byName h n => .byName h (cstrText b n)
  | .byOrdinal o => .byOrdinal o

/-- `int.filter_map(|import| import.ok())` collected by `collect_seq` -/
def intItems (b : Bytes) : List (Out Imports.Import) → Out (List ImportJson)
  | [] => .ok []
  | it :: rest =>
    it.okOpt >>= fun oi =>
    intItems b rest >>= fun tl =>
    match oi with
    | some i => .ok (importJson b i :: tl)
    | none => .ok tl

-- src: imports.rs:<Desc as Serialize>::serialize
def serializeDesc (v : View) (d : Ref) : Out DescJson :=
  (Imports.dllName v d).okOpt >>= fun dll =>          -- self.dll_name().ok()
  (Imports.int v d).okOpt >>= fun oint =>             -- self.int().map(..).ok()
  (match oint with
   | none => .ok none
   | some items => intItems v.b items >>= fun l => .ok (some l)) >>= fun int =>
  .ok { dllName := dll.map (cstrText v.b), int := int }

/-- `collect_seq` over items whose serialization may panic -/
def seqOut {α β} (f : α → Out β) : List α → Out (List β)
  | [] => .ok []
  | a :: rest => f a >>= fun x => seqOut f rest >>= fun tl => .ok (x :: tl)

/-- field 4: `pe.imports().ok()`; `<Imports as Serialize>::serialize` = `collect_seq(self.into_iter())` -/
def View.importsJson (v : View) : Out (Option (List DescJson)) :=
  (Imports.tryFrom v).okOpt >>= fun oi =>
  match oi with
  | none => .ok none
  | some image => seqOut (serializeDesc v) (Imports.descs image) >>= fun l => .ok (some l)

def ImportJson.toJson : ImportJson → Json
  | .byName h n => .struct [("ByName", .struct [("hint", .num h), ("name", .str n)])]
  | .byOrdinal o => .struct [("ByOrdinal", .struct [("ord", .num o)])]

def DescJson.toJson (d : DescJson) : Json :=
  .struct [("dll_name", opt .str d.dllName), ("int", opt (fun l => .arr (l.map ImportJson.toJson)) d.int)]

/-! ### 5 base relocations -/

structure RelocsJson where
  rvas : List Nat
  types : List Nat
  deriving DecidableEq, Repr

-- src: base_relocs.rs:<BaseRelocs as Serialize>::serialize — `for_each` pushing onto two vectors
-- (modelled as consing and one final reversal)
def serializeRelocs (data : Bytes) : RelocsJson :=
  let acc := Relocs.forEach (fun rva ty (acc : List Nat × List Nat) => (rva :: acc.1, ty :: acc.2)) data ([], [])
  { rvas := acc.1.reverse, types := acc.2.reverse }

/-- field 5: `pe.base_relocs().ok()` -/
def View.baseRelocsJson (v : View) : Out (Option RelocsJson) :=
  v.baseRelocsBytes.okOpt >>= fun od => .ok (od.map serializeRelocs)

def RelocsJson.toJson (r : RelocsJson) : Json :=
  .struct [("rvas", nums r.rvas), ("types", nums r.types)]

/-! ### 2 rich structure -/

structure RichJson where
  xorKey : Nat
  checksum : Nat
  records : List Rich.Record
  deriving DecidableEq, Repr

-- src: rich_structure.rs:<RichStructure as Serialize>::serialize   (`SerdeIter(self.records())`: the clone, to exhaustion)
def serializeRich (r : Rich.RichS) : Out RichJson :=
  r.xorKey >>= fun k =>
  r.checksum >>= fun c =>
  r.records >>= fun it =>
  .ok ⟨k, c, it.collect⟩

/-- field 2: `pe.rich_structure().ok()` -/
def View.richJson (v : View) : Out (Option RichJson) :=
  (Rich.ofImage v.img).okOpt >>= fun o =>
  match o with
  | none => .ok none
  | some r => serializeRich r >>= fun j => .ok (some j)

-- src: rich_structure.rs:<RichRecord as Serialize>::serialize   (product, build, count — in this order)
def recordJson (r : Rich.Record) : Json :=
  .struct [("product", .num r.product), ("build", .num r.build), ("count", .num r.count)]

def RichJson.toJson (r : RichJson) : Json :=
  .struct [("xor_key", .num r.xorKey), ("checksum", .num r.checksum), ("records", .arr (r.records.map recordJson))]

/-! ### 6 debug -/

inductive DebugEntryJson
  | cv20 (format pdbFileName : List Nat) (timeDateStamp age : Nat)
  | cv70 (format pdbFileName signature : List Nat) (age : Nat)
  | dbg
  | pgo (items : List (Nat × Nat × List Nat))
  | unknown (data : Option (List Nat))
  deriving DecidableEq, Repr

structure DebugDirJson where
  type : Option String
  timeDateStamp : Nat
  version : Nat × Nat
  entry : Option DebugEntryJson
  deriving DecidableEq, Repr

-- src: stringify.rs:DebugType::to_str   (`stringify!($name)`: the identifier of the constant)
def debugTypeName (ty : Nat) : Option String :=
  match ty with
  | 0 => some "IMAGE_DEBUG_TYPE_UNKNOWN" | 1 => some "IMAGE_DEBUG_TYPE_COFF" | 2 => some "IMAGE_DEBUG_TYPE_CODEVIEW"
  | 3 => some "IMAGE_DEBUG_TYPE_FPO" | 4 => some "IMAGE_DEBUG_TYPE_MISC" | 5 => some "IMAGE_DEBUG_TYPE_EXCEPTION"
  | 6 => some "IMAGE_DEBUG_TYPE_FIXUP" | 7 => some "IMAGE_DEBUG_TYPE_OMAP_TO_SRC" | 8 => some "IMAGE_DEBUG_TYPE_OMAP_FROM_SRC"
  | 9 => some "IMAGE_DEBUG_TYPE_BORLAND" | 10 => some "IMAGE_DEBUG_TYPE_RESERVED10" | 11 => some "IMAGE_DEBUG_TYPE_CLSID"
  | 12 => some "IMAGE_DEBUG_TYPE_VC_FEATURE" | 13 => some "IMAGE_DEBUG_TYPE_POGO" | 14 => some "IMAGE_DEBUG_TYPE_ILTCG"
  | 15 => some "IMAGE_DEBUG_TYPE_MPX" | 16 => some "IMAGE_DEBUG_TYPE_REPRO"
  | _ => none

/-- `{:02x}` of a byte -/
def hex2 (b : Nat) : List Nat := [hexDigitL (b / 16), hexDigitL (b % 16)]

/-- src: util/guid.rs:lower_dashed — `{:08x}-{:04x}-{:04x}-{:04x}-{:012x}` in braces, of the GUID stored at `o`
(Data1 u32, Data2 u16, Data3 u16 little endian; Data4 eight bytes in memory order) -/
def guidText (b : Bytes) (o : Nat) : List Nat :=
  let h (i : Nat) := hex2 (byteAt b (o + i))
  [123] ++ h 3 ++ h 2 ++ h 1 ++ h 0 ++ [45] ++ h 5 ++ h 4 ++ [45] ++ h 7 ++ h 6 ++ [45] ++ h 8 ++ h 9 ++ [45] ++
    h 10 ++ h 11 ++ h 12 ++ h 13 ++ h 14 ++ h 15 ++ [125]

-- src: wrap/debug.rs:<CodeView as Serialize>::serialize
def codeViewJson (b : Bytes) : Dirs.CodeView → DebugEntryJson
  | .cv20 image name =>        -- IMAGE_DEBUG_CV_INFO_PDB20: CvSignature 0, Offset 4, TimeDateStamp 8, Age 12
    .cv20 (bytesOf b ⟨image.off, 4, 1⟩) (cstrText b name) (le32 b (image.off + 8)) (le32 b (image.off + 12))
  | .cv70 image name =>        -- IMAGE_DEBUG_CV_INFO_PDB70: CvSignature 0, Signature (GUID) 4, Age 20
    .cv70 (bytesOf b ⟨image.off, 4, 1⟩) (cstrText b name) (guidText b (image.off + 4)) (le32 b (image.off + 20))

-- src: wrap/debug.rs:Entry (derive, untagged) over <CodeView|Dbg|Pgo as Serialize>, `Option<&[u8]>`
def entryJson (v : View) : Dirs.Entry → Out DebugEntryJson
  | .codeView cv => .ok (codeViewJson v.b cv)
  | .dbg _ => .ok .dbg
  | .pgo image =>                                     -- collect_seq(self.iter())
    Dirs.pgoItems v.b image >>= fun items =>
    .ok (.pgo (items.map fun it => (it.rva, it.size, cstrText v.b it.name)))
  | .unknown data => .ok (.unknown (data.map (bytesOf v.b)))

-- src: debug.rs:<Dir as Serialize>::serialize   (serde_json is human readable: the type is its name)
def serializeDebugDir (v : View) (d : Nat) : Out DebugDirJson :=
  (Dirs.dirEntry v d).okOpt >>= fun oe =>             -- self.entry().ok()
  (match oe with
   | none => .ok none
   | some e => entryJson v e >>= fun j => .ok (some j)) >>= fun entry =>
  .ok { type := debugTypeName (Dirs.ddType v.b d), timeDateStamp := Dirs.ddTimeDateStamp v.b d,
        version := (Dirs.ddMajor v.b d, Dirs.ddMinor v.b d), entry := entry }

/-- field 6: `pe.debug().ok()`; `<Debug as Serialize>::serialize` = `collect_seq(self.into_iter())` -/
def View.debugJson (v : View) : Out (Option (List DebugDirJson)) :=
  (Dirs.debugTryFrom v).okOpt >>= fun ot =>
  match ot with
  | none => .ok none
  | some t =>
    seqOut (fun i => serializeDebugDir v (Dirs.debugEntryOff t i)) (List.range (Dirs.debugCount t)) >>= fun l =>
    .ok (some l)

def pgoItemJson (it : Nat × Nat × List Nat) : Json :=
  .struct [("rva", .num it.1), ("size", .num it.2.1), ("name", .str it.2.2)]

def DebugEntryJson.toJson : DebugEntryJson → Json
  | .cv20 f n t a => .struct [("format", .str f), ("pdb_file_name", .str n), ("time_date_stamp", .num t), ("age", .num a)]
  | .cv70 f n s a => .struct [("format", .str f), ("pdb_file_name", .str n), ("signature", .str s), ("age", .num a)]
  | .dbg => .struct []
  | .pgo items => .arr (items.map pgoItemJson)
  | .unknown data => opt nums data

def DebugDirJson.toJson (d : DebugDirJson) : Json :=
  .struct [("type", opt lit d.type), ("time_date_stamp", .num d.timeDateStamp),
    ("version", .str (versionText d.version)), ("entry", opt DebugEntryJson.toJson d.entry)]

/-! ### 7 tls -/

structure TlsJson where
  rawData : Option (List Nat)
  callbacks : Option (List Nat)
  deriving DecidableEq, Repr

-- src: tls.rs:<Tls as Serialize>::serialize   (without the `data-encoding` feature)
def serializeTls (v : View) (t : Ref) : Out TlsJson :=
  (Dirs.tlsRawData v t).okOpt >>= fun raw =>          -- self.raw_data().ok()
  (Dirs.tlsCallbacks v t).okOpt >>= fun cbs =>        -- self.callbacks().ok()
  .ok { rawData := raw.map (bytesOf v.b), callbacks := cbs.map fun r => valsOf v.b r v.fmt.ptrSize }

/-- field 7: `pe.tls().ok()` -/
def View.tlsJson (v : View) : Out (Option TlsJson) :=
  (Dirs.tlsTryFrom v).okOpt >>= fun ot =>
  match ot with
  | none => .ok none
  | some t => serializeTls v t >>= fun j => .ok (some j)

def TlsJson.toJson (t : TlsJson) : Json :=
  .struct [("raw_data", opt nums t.rawData), ("callbacks", opt nums t.callbacks)]

/-! ### 8 load config -/

structure LoadConfigJson where
  securityCookie : Option Nat
  seHandlerTable : Option (List Nat)
  deriving DecidableEq, Repr

-- src: load_config.rs:<LoadConfig as Serialize>::serialize
def serializeLoadConfig (v : View) (t : Ref) : Out LoadConfigJson :=
  (Dirs.lcSecurityCookie v t).okOpt >>= fun ck =>     -- self.security_cookie().ok()
  (Dirs.lcSeHandlerTable v t).okOpt >>= fun tab =>    -- self.se_handler_table().ok()
  .ok { securityCookie := ck.map fun r => le32 v.b r.off,
        seHandlerTable := tab.map fun r => valsOf v.b r v.fmt.ptrSize }

/-- field 8: `pe.load_config().ok()` -/
def View.loadConfigJson (v : View) : Out (Option LoadConfigJson) :=
  (Dirs.lcTryFrom v).okOpt >>= fun ot =>
  match ot with
  | none => .ok none
  | some t => serializeLoadConfig v t >>= fun j => .ok (some j)

def LoadConfigJson.toJson (t : LoadConfigJson) : Json :=
  .struct [("security_cookie", opt .num t.securityCookie), ("se_handler_table", opt nums t.seHandlerTable)]

/-! ### 9 security -/

structure SecurityJson where
  certificateType : Nat
  certificateData : List Nat
  deriving DecidableEq, Repr

-- src: security.rs:<Security as Serialize>::serialize   (without the `data-encoding` feature)
def serializeSecurity (v : View) (s : Ref) : Out SecurityJson :=
  Dirs.secCertType v s >>= fun ty =>                  -- self.certificate_type()
  Dirs.secCertData v s >>= fun data =>                -- self.certificate_data()
  .ok ⟨ty, bytesOf v.b data⟩

/-- field 9: `pe.security().ok()` -/
def View.securityJson (v : View) : Out (Option SecurityJson) :=
  (Dirs.securityTryFrom v).okOpt >>= fun os =>
  match os with
  | none => .ok none
  | some s => serializeSecurity v s >>= fun j => .ok (some j)

def SecurityJson.toJson (s : SecurityJson) : Json :=
  .struct [("certificate_type", .num s.certificateType), ("certificate_data", nums s.certificateData)]

/-! ### 10 resources

The tree is generic, so this field is produced as a `Json` value directly.  The recursion follows
`Resources.fsckDir` (Model/Resources.lean): `k = FSCK_MAX_DEPTH - depth` counts down, the directory
budget (a `Cell<usize>` in the Rust code) is threaded through in pre-order and returned. -/

/-- one scalar value as UTF-8 (`String::push(char)`) -/
def utf8Enc (c : Nat) : List Nat :=
  if c < 0x80 then [c]
  else if c < 0x800 then [0xC0 + c / 64, 0x80 + c % 64]
  else if c < 0x10000 then [0xE0 + c / 4096, 0x80 + c / 64 % 64, 0x80 + c % 64]
  else [0xF0 + c / 262144, 0x80 + c / 4096 % 64, 0x80 + c / 64 % 64, 0x80 + c % 64]

-- src: resources/mod.rs:<Name as Serialize>::serialize   (`String::from_utf16_lossy` for a wide name)
def resNameJson : Resources.Name → Json
  | .id n => .num n
  | .wide ws => .str ((Resources.decodeUtf16 ws).flatMap fun
      | .ok c => utf8Enc c
      | .bad _ => utf8Enc 0xFFFD)
  | .str s => .str s

-- src: resources/mod.rs:<DataEntry as Serialize>::serialize
def resDataJson (d : Resources.DataEntry) : Json :=
  .struct [("address", .num d.offsetToData), ("size", .num d.sizeOf), ("code_page", .num d.codePageOf)]

/-- `collect_seq(dir.entries().map(|e| Limited(e, limit)))` with `<Limited<DirectoryEntry> as Serialize>`
inlined; `rec` is `<Limited<Directory> as Serialize>` one level deeper with `named: false` -/
def serResEntries (rec : Resources.Dir → Nat → Out (Json × Nat)) (r : Resources.Resources) (named : Bool) :
    List Resources.DirEntry → Nat → Out (List Json × Nat)
  | [], b => .ok ([], b)
  | e :: rest, b =>
    (e.getName r).okOpt >>= fun name =>               -- e.name().ok().map(|name| name.rename_id(names))
    let nameJ := opt (fun (n : Resources.Name) => resNameJson (n.renameId (if named then Resources.rsrcTypes else []))) name
    (e.entry r).okOpt >>= fun en =>                   -- e.entry().ok()
    (match en with
     | some (.dir d) => rec d b >>= fun jb => .ok (("directory", jb.1), jb.2)
     | some (.data de) => .ok (("data", resDataJson de), b)
     | none => .ok ((if e.isDir then "directory" else "data", Json.null), b)) >>= fun fb =>
    serResEntries rec r named rest fb.2 >>= fun tl =>
    .ok (.struct [("name", nameJ), fb.1] :: tl.1, tl.2)

-- src: resources/mod.rs:<Limited<Directory> as Serialize>::serialize with `k = FSCK_MAX_DEPTH - depth`
def serResDir (r : Resources.Resources) : Nat → Bool → Resources.Dir → Nat → Out (Json × Nat)
  | 0, _, _, b => .ok (.null, b)                      -- limit.depth >= FSCK_MAX_DEPTH
  | k+1, named, d, b =>
    if b = 0 then .ok (.null, b)                      -- limit.budget.get() == 0
    else
      d.entries r >>= fun es =>
      serResEntries (serResDir r k false) r named es (b - 1) >>= fun lb =>
      .ok (.arr lb.1, lb.2)

-- src: resources/mod.rs:<Resources as Serialize>::serialize
def serializeResources (r : Resources.Resources) : Out Json :=
  (Resources.root r).okOpt >>= fun o =>
  match o with
  | none => .ok .null                                 -- Err(_) => serializer.serialize_none()
  | some root =>
    serResDir r Resources.FSCK_MAX_DEPTH true root (Resources.fsckBudget r) >>= fun jb => .ok jb.1

/-- field 10: `pe.resources().ok()` (`null` when the accessor fails) -/
def View.resourcesJson (v : View) : Out Json :=
  (Resources.ofView v).okOpt >>= fun o =>
  match o with
  | none => .ok .null
  | some rs => serializeResources rs.1

/-! ### 1 headers (the whole member; `HeaderJson` of Model/Json.lean is the subset the header theorems talk about)

`derive(Serialize)` on the `image.rs` structs emits the fields in declaration order under their own
names; offsets are those of the `repr(C)` layouts (compared with `offset_of!` by the `dirs_layout` /
`hdr` operations of the other properties). -/

/-- `(name, offset, width)` fields read little-endian relative to `base` -/
def fieldsJson (b : Bytes) (base : Nat) (fs : List (String × Nat × Nat)) : List (String × Json) :=
  fs.map fun f => (f.1, .num (leN b (base + f.2.1) f.2.2))

/-- `IMAGE_VERSION<T>`: `"Major.Minor"`, `T` of `w` bytes -/
def versionAt (b : Bytes) (o w : Nat) : Json := .str (versionText (leN b o w, leN b (o + w) w))

/-- `[u16; n]` -/
def u16Array (b : Bytes) (o n : Nat) : Json := nums ((List.range n).map fun i => le16 b (o + 2 * i))

-- src: image.rs:IMAGE_DOS_HEADER
def dosHeaderJson (b : Bytes) : Json :=
  .struct (fieldsJson b 0 [("e_magic", 0, 2), ("e_cblp", 2, 2), ("e_cp", 4, 2), ("e_crlc", 6, 2), ("e_cparhdr", 8, 2),
      ("e_minalloc", 10, 2), ("e_maxalloc", 12, 2), ("e_ss", 14, 2), ("e_sp", 16, 2), ("e_csum", 18, 2), ("e_ip", 20, 2),
      ("e_cs", 22, 2), ("e_lfarlc", 24, 2), ("e_ovno", 26, 2)] ++
    [("e_res", u16Array b 28 4)] ++ fieldsJson b 0 [("e_oemid", 36, 2), ("e_oeminfo", 38, 2)] ++
    [("e_res2", u16Array b 40 10)] ++ fieldsJson b 0 [("e_lfanew", 60, 4)])

-- src: image.rs:IMAGE_FILE_HEADER
def fileHeaderJson (b : Bytes) (o : Nat) : Json :=
  .struct (fieldsJson b o [("Machine", 0, 2), ("NumberOfSections", 2, 2), ("TimeDateStamp", 4, 4),
    ("PointerToSymbolTable", 8, 4), ("NumberOfSymbols", 12, 4), ("SizeOfOptionalHeader", 16, 2), ("Characteristics", 18, 2)])

-- src: image.rs:IMAGE_OPTIONAL_HEADER32 / IMAGE_OPTIONAL_HEADER64   (`DataDirectory` is `serde(skip)`)
def optionalHeaderJson (f : Fmt) (b : Bytes) (o : Nat) : Json :=
  let common1 := fieldsJson b o [("Magic", 0, 2)] ++ [("LinkerVersion", versionAt b (o + 2) 1)] ++
    fieldsJson b o [("SizeOfCode", 4, 4), ("SizeOfInitializedData", 8, 4), ("SizeOfUninitializedData", 12, 4),
      ("AddressOfEntryPoint", 16, 4), ("BaseOfCode", 20, 4)]
  let base := match f with
    | .pe32 => fieldsJson b o [("BaseOfData", 24, 4), ("ImageBase", 28, 4)]
    | .pe64 => fieldsJson b o [("ImageBase", 24, 8)]
  let common2 := fieldsJson b o [("SectionAlignment", 32, 4), ("FileAlignment", 36, 4)] ++
    [("OperatingSystemVersion", versionAt b (o + 40) 2), ("ImageVersion", versionAt b (o + 44) 2),
     ("SubsystemVersion", versionAt b (o + 48) 2)] ++
    fieldsJson b o [("Win32VersionValue", 52, 4), ("SizeOfImage", 56, 4), ("SizeOfHeaders", 60, 4), ("CheckSum", 64, 4),
      ("Subsystem", 68, 2), ("DllCharacteristics", 70, 2)]
  let tail := match f with
    | .pe32 => fieldsJson b o [("SizeOfStackReserve", 72, 4), ("SizeOfStackCommit", 76, 4), ("SizeOfHeapReserve", 80, 4),
        ("SizeOfHeapCommit", 84, 4), ("LoaderFlags", 88, 4), ("NumberOfRvaAndSizes", 92, 4)]
    | .pe64 => fieldsJson b o [("SizeOfStackReserve", 72, 8), ("SizeOfStackCommit", 80, 8), ("SizeOfHeapReserve", 88, 8),
        ("SizeOfHeapCommit", 96, 8), ("LoaderFlags", 104, 4), ("NumberOfRvaAndSizes", 108, 4)]
  .struct (common1 ++ base ++ common2 ++ tail)

-- src: util/mod.rs:trimn
def trimn (l : List Nat) : List Nat := (l.reverse.dropWhile (· == 0)).reverse

-- src: wrap/sections.rs:serialize_name   (`parsen`: the name without trailing NULs when that is UTF-8,
-- else `serialize_bytes` of all eight bytes — a sequence of numbers in serde_json)
def sectionNameJson (b : Bytes) (o : Nat) : Json :=
  let name := (List.range 8).map fun i => byteAt b (o + i)
  if (Resources.utf8Chars (trimn name)).isSome then .str (trimn name) else nums name

-- src: image.rs:IMAGE_SECTION_HEADER
def sectionHeaderJson (b : Bytes) (o : Nat) : Json :=
  .struct ([("Name", sectionNameJson b o)] ++ fieldsJson b o [("VirtualSize", 8, 4), ("VirtualAddress", 12, 4),
    ("SizeOfRawData", 16, 4), ("PointerToRawData", 20, 4), ("PointerToRelocations", 24, 4), ("PointerToLinenumbers", 28, 4),
    ("NumberOfRelocations", 32, 2), ("NumberOfLinenumbers", 34, 2), ("Characteristics", 36, 4)])

/-- src: stringify.rs `flags!`::to_strs — the identifiers of the set bits, lowest bit first
(every bit index of these three tables has an identifier) -/
def flagNames (tbl : List String) (x : Nat) : Json :=
  .arr ((List.range tbl.length).filterMap fun i => if x / 2 ^ i % 2 = 1 then tbl[i]?.map lit else none)

-- src: stringify.rs:FileChars, DllChars, SectionChars (`stringify!($name)`)
def fileCharNames : List String := ["IMAGE_FILE_RELOCS_STRIPPED", "IMAGE_FILE_EXECUTABLE_IMAGE", "IMAGE_FILE_LINE_NUMS_STRIPPED",
  "IMAGE_FILE_LOCAL_SYMS_STRIPPED", "IMAGE_FILE_AGGRESIVE_WS_TRIM", "IMAGE_FILE_LARGE_ADDRESS_AWARE", "IMAGE_FILE_6",
  "IMAGE_FILE_BYTES_REVERSED_LO", "IMAGE_FILE_32BIT_MACHINE", "IMAGE_FILE_DEBUG_STRIPPED", "IMAGE_FILE_REMOVABLE_RUN_FROM_SWAP",
  "IMAGE_FILE_NET_RUN_FROM_SWAP", "IMAGE_FILE_SYSTEM", "IMAGE_FILE_DLL", "IMAGE_FILE_UP_SYSTEM_ONLY", "IMAGE_FILE_BYTES_REVERSED_HI"]
def dllCharNames : List String := ["IMAGE_DLLCHARACTERISTICS_0", "IMAGE_DLLCHARACTERISTICS_1", "IMAGE_DLLCHARACTERISTICS_2",
  "IMAGE_DLLCHARACTERISTICS_3", "IMAGE_DLLCHARACTERISTICS_4", "IMAGE_DLLCHARACTERISTICS_HIGH_ENTROPY_VA",
  "IMAGE_DLLCHARACTERISTICS_DYNAMIC_BASE", "IMAGE_DLLCHARACTERISTICS_FORCE_INTEGRITY", "IMAGE_DLLCHARACTERISTICS_NX_COMPAT",
  "IMAGE_DLLCHARACTERISTICS_NO_ISOLATION", "IMAGE_DLLCHARACTERISTICS_NO_SEH", "IMAGE_DLLCHARACTERISTICS_NO_BIND",
  "IMAGE_DLLCHARACTERISTICS_APPCONTAINER", "IMAGE_DLLCHARACTERISTICS_WDM_DRIVER", "IMAGE_DLLCHARACTERISTICS_GUARD_CF",
  "IMAGE_DLLCHARACTERISTICS_TERMINAL_SERVER_AWARE"]
def sectionCharNames : List String := ["IMAGE_SCN_0", "IMAGE_SCN_1", "IMAGE_SCN_2", "IMAGE_SCN_TYPE_NO_PAD", "IMAGE_SCN_4",
  "IMAGE_SCN_CNT_CODE", "IMAGE_SCN_CNT_INITIALIZED_DATA", "IMAGE_SCN_CNT_UNINITIALIZED_DATA", "IMAGE_SCN_LNK_OTHER",
  "IMAGE_SCN_LNK_INFO", "IMAGE_SCN_10", "IMAGE_SCN_LNK_REMOVE", "IMAGE_SCN_LNK_COMDAT", "IMAGE_SCN_13",
  "IMAGE_SCN_NO_DEFER_SPEC_EXC", "IMAGE_SCN_GPREL", "IMAGE_SCN_16", "IMAGE_SCN_MEM_PURGEABLE", "IMAGE_SCN_MEM_LOCKED",
  "IMAGE_SCN_MEM_PRELOAD", "IMAGE_SCN_ALIGN_1", "IMAGE_SCN_ALIGN_2", "IMAGE_SCN_ALIGN_4", "IMAGE_SCN_ALIGN_8",
  "IMAGE_SCN_LNK_NRELOC_OVFL", "IMAGE_SCN_MEM_DISCARDABLE", "IMAGE_SCN_MEM_NOT_CACHED", "IMAGE_SCN_MEM_NOT_PAGED",
  "IMAGE_SCN_MEM_SHARED", "IMAGE_SCN_MEM_EXECUTE", "IMAGE_SCN_MEM_READ", "IMAGE_SCN_MEM_WRITE"]

-- src: stringify.rs:Machine / OptionalMagic / Subsystem / DirectoryEntry ::to_str
def machineName (x : Nat) : Option String :=
  if x = 0x14c then some "IMAGE_FILE_MACHINE_I386" else if x = 0x8664 then some "IMAGE_FILE_MACHINE_AMD64"
  else if x = 0x200 then some "IMAGE_FILE_MACHINE_IA64" else none
def optionalMagicName (x : Nat) : Option String :=
  if x = 0x10b then some "IMAGE_NT_OPTIONAL_HDR32_MAGIC" else if x = 0x20b then some "IMAGE_NT_OPTIONAL_HDR64_MAGIC"
  else if x = 0x107 then some "IMAGE_ROM_OPTIONAL_HDR_MAGIC" else none
def subsystemName (x : Nat) : Option String :=
  match x with
  | 0 => some "IMAGE_SUBSYSTEM_UNKNOWN" | 1 => some "IMAGE_SUBSYSTEM_NATIVE" | 2 => some "IMAGE_SUBSYSTEM_WINDOWS_GUI"
  | 3 => some "IMAGE_SUBSYSTEM_WINDOWS_CUI" | 5 => some "IMAGE_SUBSYSTEM_OS2_CUI" | 7 => some "IMAGE_SUBSYSTEM_POSIX_CUI"
  | 8 => some "IMAGE_SUBSYSTEM_NATIVE_WINDOWS" | 9 => some "IMAGE_SUBSYSTEM_WINDOWS_CE_GUI"
  | 10 => some "IMAGE_SUBSYSTEM_EFI_APPLICATION" | 11 => some "IMAGE_SUBSYSTEM_EFI_BOOT_SERVICE_DRIVER"
  | 12 => some "IMAGE_SUBSYSTEM_EFI_RUNTIME_DRIVER" | 13 => some "IMAGE_SUBSYSTEM_EFI_ROM" | 14 => some "IMAGE_SUBSYSTEM_XBOX"
  | 16 => some "IMAGE_SUBSYSTEM_WINDOWS_BOOT_APPLICATION"
  | _ => none
def directoryEntryNames : List String := ["IMAGE_DIRECTORY_ENTRY_EXPORT", "IMAGE_DIRECTORY_ENTRY_IMPORT",
  "IMAGE_DIRECTORY_ENTRY_RESOURCE", "IMAGE_DIRECTORY_ENTRY_EXCEPTION", "IMAGE_DIRECTORY_ENTRY_SECURITY",
  "IMAGE_DIRECTORY_ENTRY_BASERELOC", "IMAGE_DIRECTORY_ENTRY_DEBUG", "IMAGE_DIRECTORY_ENTRY_ARCHITECTURE",
  "IMAGE_DIRECTORY_ENTRY_GLOBALPTR", "IMAGE_DIRECTORY_ENTRY_TLS", "IMAGE_DIRECTORY_ENTRY_LOAD_CONFIG",
  "IMAGE_DIRECTORY_ENTRY_BOUND_IMPORT", "IMAGE_DIRECTORY_ENTRY_IAT", "IMAGE_DIRECTORY_ENTRY_DELAY_IMPORT",
  "IMAGE_DIRECTORY_ENTRY_COM_DESCRIPTOR"]

-- src: headers.rs:<Details as Serialize>::serialize
def View.detailsJson (v : View) : Json :=
  let h := v.headerJson
  let fh := eLfanew v.b + 4
  .struct [
    ("DosHeader.e_magic", lit "MZ"), ("NtHeaders.Signature", lit "PE"),
    ("FileHeader.Machine", opt lit (machineName (le16 v.b fh))),
    ("FileHeader.Characteristics", flagNames fileCharNames (le16 v.b (fh + 18))),
    ("OptionalHeader.Magic", opt lit (optionalMagicName (optMagic v.b))),
    ("OptionalHeader.CheckSum", .num h.detCheckSum),
    ("OptionalHeader.Subsystem", opt lit (subsystemName (le16 v.b (optOff v.b + 68)))),
    ("OptionalHeader.DllCharacteristics", flagNames dllCharNames (le16 v.b (optOff v.b + 70))),
    ("DataDirectory.Names", .arr ((List.range h.dataDirectory.length).map fun i => opt lit directoryEntryNames[i]?)),
    ("DataDirectory.Sections", .arr (h.detDdSections.map (opt .num))),
    ("SectionHeaders.Characteristics", .arr (h.sections.map fun s => flagNames sectionCharNames s.chars))]

-- src: headers.rs:<Headers as Serialize>::serialize
def View.headersJson (v : View) : Json :=
  let h := v.headerJson
  .struct [
    ("DosHeader", dosHeaderJson v.b),
    ("NtHeaders", .struct [("Signature", .num (le32 v.b (eLfanew v.b))), ("FileHeader", fileHeaderJson v.b (eLfanew v.b + 4)),
      ("OptionalHeader", optionalHeaderJson v.fmt v.b (optOff v.b))]),
    ("DataDirectory", .arr (h.dataDirectory.map fun d => .struct [("VirtualAddress", .num d.1), ("Size", .num d.2)])),
    ("SectionHeaders", .arr ((List.range (numberOfSections v.b)).map fun i => sectionHeaderJson v.b (secTable v.b + 40 * i))),
    ("details", v.detailsJson)]

/-! ### the document -/

/-- what `serialize_pe` hands to the serializer, field by field (typed; "resources" is a tree) -/
structure PeJson where
  /-- the member "headers", whole -/
  headersDoc : Json
  /-- the part of it the header theorems (`Thm/C19.lean`) are about -/
  headers : HeaderJson
  richStructure : Option RichJson
  exports : Option ExportsJson
  imports : Option (List DescJson)
  baseRelocs : Option RelocsJson
  debug : Option (List DebugDirJson)
  tls : Option TlsJson
  loadConfig : Option LoadConfigJson
  security : Option SecurityJson
  resources : Json

-- src: pe.rs:serialize_pe   (the fields are evaluated in the order they are emitted)
def View.serializePe (v : View) : Out PeJson :=
  v.richJson >>= fun richStructure =>
  v.exportsJson >>= fun exports =>
  v.importsJson >>= fun imports =>
  v.baseRelocsJson >>= fun baseRelocs =>
  v.debugJson >>= fun debug =>
  v.tlsJson >>= fun tls =>
  v.loadConfigJson >>= fun loadConfig =>
  v.securityJson >>= fun security =>
  v.resourcesJson >>= fun resources =>
  .ok { headersDoc := v.headersJson, headers := v.headerJson, richStructure, exports, imports, baseRelocs, debug, tls, loadConfig, security, resources }

def PeJson.toJson (p : PeJson) : Json :=
  .struct [
    ("headers", p.headersDoc),
    ("rich_structure", opt RichJson.toJson p.richStructure),
    ("exports", opt ExportsJson.toJson p.exports),
    ("imports", opt (fun l => .arr (l.map DescJson.toJson)) p.imports),
    ("base_relocs", opt RelocsJson.toJson p.baseRelocs),
    ("debug", opt (fun l => .arr (l.map DebugDirJson.toJson)) p.debug),
    ("tls", opt TlsJson.toJson p.tls),
    ("load_config", opt LoadConfigJson.toJson p.loadConfig),
    ("security", opt SecurityJson.toJson p.security),
    ("resources", p.resources)]

end Pelite.Pe
