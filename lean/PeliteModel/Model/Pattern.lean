import PeliteModel.Model.Atom
/-!
Model of the pattern *parser*: `src/proc-macros/pattern.rs` (`parse`, `parse_helper`) and of the
`pattern!` proc macro's literal unescaper (`src/proc-macros/lib.rs:parse_str_literal`).

`Atom` and `saveLen` live in `Model/Atom.lean` (shared with the interpreter model).

The parser is mirrored state for state: the result vector (`Array Atom`, with the in-place updates
`result[sub.case] = …`, `result[brk] = …`, `mem::replace(result.last_mut(), …)`), `save : u8`,
`depth : u8`, the `subs` stack, `sub_end`, the byte iterator (`rest`) and `*pat` (`pat`: the slice that
is only advanced at the *bottom* of the loop body — the two `continue` statements skip it).
Every place where a checked build could panic is an explicit `.panic site` branch
(u8 / u32 / usize arithmetic, vector indexing); Lemmas/Pattern.lean proves them unreachable.
-/
namespace Pelite.Pattern

/-- src: pattern.rs:PatError -/
inductive PatErr
  | unpairedHexDigit | unknownChar | manyOverflow | manyRange | manyInvalid | saveOverflow
  | stackError | stackInvalid | unclosedQuote | alignedOperand | readOperand | subPattern | subOverflow
  deriving DecidableEq, Repr, Inhabited

/-- the `Debug` name of the kind -/
def PatErr.name : PatErr → String
  | .unpairedHexDigit => "UnpairedHexDigit" | .unknownChar => "UnknownChar" | .manyOverflow => "ManyOverflow"
  | .manyRange => "ManyRange" | .manyInvalid => "ManyInvalid" | .saveOverflow => "SaveOverflow"
  | .stackError => "StackError" | .stackInvalid => "StackInvalid" | .unclosedQuote => "UnclosedQuote"
  | .alignedOperand => "AlignedOperand" | .readOperand => "ReadOperand" | .subPattern => "SubPattern"
  | .subOverflow => "SubOverflow"

/-- outcome of one modelled parser step -/
inductive Res (α : Type)
  | ok (a : α)
  | err (k : PatErr)
  | panic (site : String)
  deriving Repr

/-- outcome of `pattern::parse`: `Ok(atoms)`, `Err(ParsePatError { kind, position })`, or a panic of
the checked build / fuel exhaustion (both proved impossible). -/
inductive ParseOut
  | ok (atoms : List Atom)
  | err (kind : PatErr) (pos : Nat)
  | panic (site : String)
  | diverge
  deriving DecidableEq, Repr

/-- src: pattern.rs:parse_helper `struct SubPattern` (`brks` in push order) -/
structure Sub where
  case : Nat          -- usize
  brks : List Nat     -- Vec<usize>
  save : Nat          -- u8
  saveNext : Nat      -- u8
  depth : Nat         -- u8
  deriving Repr, DecidableEq

/-- the local variables of `parse_helper` other than the iterator and `*pat` -/
structure PSt where
  result : Array Atom
  save : Nat          -- u8
  depth : Nat         -- u8
  subs : List Sub     -- Vec<SubPattern>; head = last element
  subEnd : Nat        -- usize
  deriving Repr

/-- state after one token: new locals, the iterator's remaining bytes, and whether control reached
the bottom of the loop body (`*pat = iter.as_slice()`), which the two `continue`s skip. -/
structure Next where
  st : PSt
  rest : List UInt8
  upd : Bool

def pushA (st : PSt) (a : Atom) : PSt := { st with result := st.result.push a }

/-- `*result.last_mut().unwrap() = a` -/
def setLast (r : Array Atom) (a : Atom) : Array Atom := r.setIfInBounds (r.size - 1) a

/-- the arms of `match chr` -/
inductive Cls
  | jump1 | jump4 | ptr | open | close | subStart | subCase | subEnd | many | hex | quote | save
  | skip | aligned | readI | readU | zero | space | other
  deriving DecidableEq, Repr

def classify (c : Nat) : Cls :=
  if c = 37 then .jump1            -- %
  else if c = 36 then .jump4       -- $
  else if c = 42 then .ptr         -- *
  else if c = 123 then .open       -- {
  else if c = 125 then .close      -- }
  else if c = 40 then .subStart    -- (
  else if c = 124 then .subCase    -- |
  else if c = 41 then .subEnd      -- )
  else if c = 91 then .many        -- [
  else if (48 ≤ c ∧ c ≤ 57) ∨ (65 ≤ c ∧ c ≤ 70) ∨ (97 ≤ c ∧ c ≤ 102) then .hex
  else if c = 34 then .quote       -- "
  else if c = 39 then .save        -- '
  else if c = 63 then .skip        -- ?
  else if c = 64 then .aligned     -- @
  else if c = 105 then .readI      -- i
  else if c = 117 then .readU      -- u
  else if c = 122 then .zero       -- z
  else if c = 32 ∨ c = 10 ∨ c = 13 ∨ c = 9 then .space
  else .other

-- src: parse_helper, arm b'{'
def opOpen (st : PSt) : Res PSt :=
  if st.depth ≥ 255 then .err .stackError else
  -- depth += 1   (u8)
  if st.depth + 1 ≥ 256 then .panic "depth += 1" else
  let depth := st.depth + 1
  match st.result.back? with
  | some .jump1 => .ok { st with depth := depth, result := (setLast st.result (.push 1)).push .jump1 }
  | some .jump4 => .ok { st with depth := depth, result := (setLast st.result (.push 4)).push .jump4 }
  | some .ptr => .ok { st with depth := depth, result := (setLast st.result (.push 0)).push .ptr }
  | _ => .err .stackInvalid

-- src: parse_helper, arm b'}'
def opClose (st : PSt) : Res PSt :=
  if st.depth ≤ 0 then .err .stackError else
  -- depth -= 1   (u8)
  if st.depth < 1 then .panic "depth -= 1" else
  .ok { st with depth := st.depth - 1, result := st.result.push .pop }

-- src: parse_helper, arm b'('
def opSubStart (st : PSt) : Res PSt :=
  let sub : Sub := { case := st.result.size, brks := [], save := st.save, saveNext := 0, depth := st.depth }
  .ok { st with subs := sub :: st.subs, result := st.result.push (.case 0) }

-- src: parse_helper, arm b'|'
def opSubCase (st : PSt) : Res PSt :=
  match st.subs with
  | [] => .err .subPattern
  | sub :: subs =>
    let saveNext := max sub.saveNext st.save
    let brks := sub.brks ++ [st.result.size]
    let result := st.result.push (.brk 0)
    -- let case_offset = result.len() - sub.case - 1;   (usize)
    if result.size < sub.case + 1 then .panic "result.len() - sub.case - 1" else
    let caseOffset := result.size - sub.case - 1
    if caseOffset ≥ 256 then .err .subOverflow else
    -- result[sub.case] = Atom::Case(case_offset as u8);
    if sub.case ≥ result.size then .panic "result[sub.case]" else
    let result := result.setIfInBounds sub.case (.case caseOffset)
    let sub' : Sub := { sub with saveNext := saveNext, brks := brks, case := result.size }
    .ok { st with save := sub.save, depth := sub.depth, subs := sub' :: subs, result := result.push (.case 0) }

/-- src: parse_helper, arm b')', `for &brk in &sub.brks { … }` -/
def fillBrks (result : Array Atom) : List Nat → Res (Array Atom)
  | [] => .ok result
  | brk :: brks =>
    -- let brk_offset = result.len() - brk - 1;   (usize)
    if result.size < brk + 1 then .panic "result.len() - brk - 1" else
    let off := result.size - brk - 1
    if off ≥ 256 then .err .subOverflow else
    -- result[brk] = Atom::Break(brk_offset as u8);
    if brk ≥ result.size then .panic "result[brk]" else
    fillBrks (result.setIfInBounds brk (.brk off)) brks

-- src: parse_helper, arm b')'
def opSubEnd (st : PSt) : Res PSt :=
  match st.subs with
  | [] => .err .subPattern
  | sub :: subs =>
    let save := max sub.saveNext st.save
    -- result[sub.case] = Atom::Nop;
    if sub.case ≥ st.result.size then .panic "result[sub.case]" else
    let result := st.result.setIfInBounds sub.case .nop
    match fillBrks result sub.brks with
    | .ok result => .ok { result := result, save := save, depth := sub.depth, subs := subs, subEnd := result.size }
    | .err k => .err k
    | .panic s => .panic s

/-- src: arm b'[', first `loop`: returns (lower_bound, at_least_one_char, terminating chr, iterator) -/
def manyLower : List UInt8 → Nat → Bool → Res (Nat × Bool × Nat × List UInt8)
  | [], _, _ => .err .manyInvalid
  | c :: cs, lb, seen =>
    let chr := c.toNat
    if chr = 45 ∨ chr = 93 then .ok (lb, seen, chr, cs)
    else if 48 ≤ chr ∧ chr ≤ 57 then
      -- lower_bound = lower_bound * 10 + (chr - b'0') as u32;   (u32)
      if lb * 10 ≥ 4294967296 then .panic "lower_bound * 10" else
      if lb * 10 + (chr - 48) ≥ 4294967296 then .panic "lower_bound * 10 + d" else
      let lb := lb * 10 + (chr - 48)
      if lb ≥ 16384 then .err .manyOverflow else manyLower cs lb true
    else .err .manyInvalid

/-- src: arm b'[', second `loop`: returns (upper_bound, iterator) -/
def manyUpper : List UInt8 → Nat → Res (Nat × List UInt8)
  | [], _ => .err .manyInvalid
  | c :: cs, ub =>
    let chr := c.toNat
    if chr = 93 then .ok (ub, cs)
    else if 48 ≤ chr ∧ chr ≤ 57 then
      if ub * 10 ≥ 4294967296 then .panic "upper_bound * 10" else
      if ub * 10 + (chr - 48) ≥ 4294967296 then .panic "upper_bound * 10 + d" else
      let ub := ub * 10 + (chr - 48)
      if ub ≥ 16384 then .err .manyOverflow else manyUpper cs ub
    else .err .manyInvalid

/-- `if n >= 256 { push(Rangext((n >> 8) as u8)) } push(mk((n & 0xff) as u8))` -/
def emitRange (result : Array Atom) (n : Nat) (mk : Nat → Atom) : Array Atom :=
  let result := if n ≥ 256 then result.push (.rangext ((n / 256) % 256)) else result
  result.push (mk (n % 256))

-- src: parse_helper, arm b'['
def opMany (st : PSt) (rest : List UInt8) : Res Next :=
  match manyLower rest 0 false with
  | .err k => .err k
  | .panic s => .panic s
  | .ok (lb, seen, chr, rest) =>
    if !seen then .err .manyInvalid else
    let result := if lb > 0 then emitRange st.result lb .skip else st.result
    -- `if chr == b']' { continue; }`  — skips the `*pat = …` at the bottom of the loop body
    if chr = 93 then .ok ⟨{ st with result := result }, rest, false⟩
    else
      match manyUpper rest 0 with
      | .err k => .err k
      | .panic s => .panic s
      | .ok (ub, rest) =>
        if lb < ub then
          -- let many_skip = upper_bound - lower_bound;   (u32, guarded by the comparison)
          if ub < lb then .panic "upper_bound - lower_bound" else
          .ok ⟨{ st with result := emitRange result (ub - lb) .many }, rest, true⟩
        else .err .manyRange

-- src: parse_helper, arm b'0'...b'9' | b'A'...b'F' | b'a'...b'f'
def opHex (st : PSt) (chr : Nat) (rest : List UInt8) : Res Next :=
  -- high nibble (u8 arithmetic)
  if chr < 97 ∧ chr < 65 ∧ chr < 48 then .panic "chr - b'0'" else
  let hi := if chr ≥ 97 then chr - 97 + 10 else if chr ≥ 65 then chr - 65 + 10 else chr - 48
  if hi ≥ 256 then .panic "chr - b'a' + 10" else
  match rest with
  | [] => .err .unpairedHexDigit
  | c :: rest =>
    let chr := c.toNat
    let lo : Option Nat :=
      if chr ≥ 97 ∧ chr ≤ 102 then some (chr - 97 + 10)
      else if chr ≥ 65 ∧ chr ≤ 70 then some (chr - 65 + 10)
      else if chr ≥ 48 ∧ chr ≤ 57 then some (chr - 48)
      else none
    match lo with
    | none => .err .unpairedHexDigit
    | some lo =>
      -- Atom::Byte((hi << 4) + lo)   (u8: `<<` discards high bits, `+` is checked)
      let v := (hi * 16) % 256 + lo
      if v ≥ 256 then .panic "(hi << 4) + lo" else
      .ok ⟨pushA st (.byte v), rest, true⟩

/-- src: parse_helper, arm b'"' (the inner `loop`); `none` = iterator exhausted -/
def quoted : List UInt8 → Array Atom → Option (Array Atom × List UInt8)
  | [], _ => none
  | c :: cs, r => if c.toNat ≠ 34 then quoted cs (r.push (.byte c.toNat)) else some (r, cs)

def opQuote (st : PSt) (rest : List UInt8) : Res Next :=
  match quoted rest st.result with
  | none => .err .unclosedQuote
  | some (r, rest) => .ok ⟨{ st with result := r }, rest, true⟩

/-- the arms that allocate the next save slot for `mk`: b'\'' and b'z', and the tail of b'i' / b'u'
(there the atom value is built before the overflow check, which makes no difference). -/
def opSlot (st : PSt) (mk : Nat → Atom) : Res PSt :=
  if st.save ≥ 255 then .err .saveOverflow else
  -- save += 1   (u8)
  if st.save + 1 ≥ 256 then .panic "save += 1" else
  .ok { st with result := st.result.push (mk st.save), save := st.save + 1 }

-- src: parse_helper, arm b'?'
def opSkip (st : PSt) : PSt × Bool :=
  if st.result.size > st.subEnd then
    match st.result.back? with
    | some (.skip n) =>
      if n ≠ 0 ∧ n < 255 then
        -- *skip += 1; continue;
        ({ st with result := setLast st.result (.skip (n + 1)) }, false)
      else (pushA st (.skip 1), true)
    | _ => (pushA st (.skip 1), true)
  else (pushA st (.skip 1), true)

-- src: parse_helper, arm b'@'
def opAligned (st : PSt) (rest : List UInt8) : Res Next :=
  match rest with
  | [] => .err .alignedOperand
  | o :: rest =>
    let op := o.toNat
    if op ≥ 48 ∧ op ≤ 57 then .ok ⟨pushA st (.aligned (op - 48)), rest, true⟩
    else if op ≥ 65 ∧ op ≤ 90 then
      if 10 + (op - 65) ≥ 256 then .panic "10 + (op - b'A')" else .ok ⟨pushA st (.aligned (10 + (op - 65))), rest, true⟩
    else if op ≥ 97 ∧ op ≤ 122 then
      if 10 + (op - 97) ≥ 256 then .panic "10 + (op - b'a')" else .ok ⟨pushA st (.aligned (10 + (op - 97))), rest, true⟩
    else .err .alignedOperand

-- src: parse_helper, arms b'i' and b'u'
def opRead (st : PSt) (rest : List UInt8) (mk1 mk2 mk4 : Nat → Atom) : Res Next :=
  match rest with
  | [] => .err .readOperand
  | c :: rest =>
    let chr := c.toNat
    let mk : Option (Nat → Atom) :=
      if chr = 49 then some mk1 else if chr = 50 then some mk2 else if chr = 52 then some mk4 else none
    match mk with
    | none => .err .readOperand
    | some mk =>
      match opSlot st mk with
      | .ok st => .ok ⟨st, rest, true⟩
      | .err k => .err k
      | .panic s => .panic s

def liftSt (rest : List UInt8) : Res PSt → Res Next
  | .ok st => .ok ⟨st, rest, true⟩
  | .err k => .err k
  | .panic s => .panic s

/-- one iteration of `while let Some(mut chr) = iter.next().cloned() { match chr { … } … }`
(without the final `*pat = …`, which `parseLoop` does when `upd`). -/
def tok (chr : Nat) (rest : List UInt8) (st : PSt) : Res Next :=
  match classify chr with
  | .jump1 => .ok ⟨pushA st .jump1, rest, true⟩
  | .jump4 => .ok ⟨pushA st .jump4, rest, true⟩
  | .ptr => .ok ⟨pushA st .ptr, rest, true⟩
  | .open => liftSt rest (opOpen st)
  | .close => liftSt rest (opClose st)
  | .subStart => liftSt rest (opSubStart st)
  | .subCase => liftSt rest (opSubCase st)
  | .subEnd => liftSt rest (opSubEnd st)
  | .many => opMany st rest
  | .hex => opHex st chr rest
  | .quote => opQuote st rest
  | .save => liftSt rest (opSlot st .save)
  | .skip => let (st, upd) := opSkip st; .ok ⟨st, rest, upd⟩
  | .aligned => opAligned st rest
  | .readI => opRead st rest .readI8 .readI16 .readI32
  | .readU => opRead st rest .readU8 .readU16 .readU32
  | .zero => liftSt rest (opSlot st .zero)
  | .space => .ok ⟨st, rest, true⟩
  | .other => .err .unknownChar

-- src: parse_helper:is_redundant
def isRedundant : Atom → Bool
  | .skip _ | .rangext _ | .pop | .many _ => true
  | _ => false

/-- `while result.last().map(is_redundant).unwrap_or(false) { result.pop(); }` -/
def trim (r : Array Atom) : Array Atom :=
  if h : 0 < r.size then
    if isRedundant r[r.size - 1] then trim r.pop else r
  else r
termination_by r.size
decreasing_by simp; omega

/-- the code after the `while let` loop -/
def finish (st : PSt) : Res (Array Atom) :=
  if st.depth ≠ 0 then .err .stackError
  else if st.subs.length ≠ 0 then .err .subPattern
  else .ok (trim st.result)

/-- result of `parse_helper`; the error carries the final value of `*pat` -/
inductive LoopOut
  | ok (result : Array Atom)
  | err (k : PatErr) (pat : List UInt8)
  | panic (site : String)
  | diverge

/-- the `while let` loop; `rest` = `iter.as_slice()`, `pat` = `*pat`. Each iteration consumes at
least one byte, so fuel `rest.length + 1` suffices (`parseLoop_fuel`). -/
def parseLoop : Nat → List UInt8 → List UInt8 → PSt → LoopOut
  | 0, _, _, _ => .diverge
  | fuel + 1, rest, pat, st =>
    match rest with
    | [] =>
      match finish st with
      | .ok r => .ok r
      | .err k => .err k pat
      | .panic s => .panic s
    | c :: rest =>
      match tok c.toNat rest st with
      | .ok nx => parseLoop fuel nx.rest (if nx.upd then nx.rest else pat) nx.st
      | .err k => .err k pat
      | .panic s => .panic s

/-- locals at the top of `parse_helper` after `result.push(Atom::Save(0))` -/
def initSt : PSt := { result := #[.save 0], save := 1, depth := 0, subs := [], subEnd := 0 }

/-- src: pattern.rs:parse — on error `position = pat_end.as_ptr() - pat.as_ptr()` (usize). -/
def parse (s : List UInt8) : ParseOut :=
  match parseLoop (s.length + 1) s s initSt with
  | .ok r => .ok r.toList
  | .err k pat =>
    if s.length < pat.length then .panic "pat_end.as_ptr() - pat.as_ptr()" else .err k (s.length - pat.length)
  | .panic site => .panic site
  | .diverge => .diverge

/-! ## The `pattern!` proc macro (src/proc-macros/lib.rs) -/

/-- why the macro panics (= the invocation does not compile) -/
inductive MacroErr
  | notStringLiteral        -- "expected string literal starting with a `\"` …"
  | unicodeEscape           -- "unicode escape sequence not supported"
  | unknownEscape (c : Char) -- "unknown escape sequence: {c}"
  | truncated               -- `\` as the last char: panic!("")
  | unterminated            -- "unexpected end of string literal, missing `\"` terminator?"
  | invalidPattern (kind : PatErr) (pos : Nat) -- "invalid pattern syntax: {err}"
  | parserPanic (site : String)
  deriving DecidableEq, Repr

deriving instance DecidableEq for Except

/-- src: lib.rs:parse_str_literal, the `loop` after the opening quote; the accumulator is `string`
(reversed).  Everything after the closing quote is ignored (`break`). -/
def unescapeGo : List Char → List Char → Except MacroErr (List Char)
  | [], _ => .error .unterminated
  | '\\' :: cs, acc =>
    match cs with
    | [] => .error .truncated
    | '\\' :: cs => unescapeGo cs ('\\' :: acc)
    | '\'' :: cs => unescapeGo cs ('\'' :: acc)
    | '"' :: cs => unescapeGo cs ('"' :: acc)
    | 't' :: cs => unescapeGo cs ('\t' :: acc)
    | 'r' :: cs => unescapeGo cs ('\r' :: acc)
    | 'n' :: cs => unescapeGo cs ('\n' :: acc)
    | 'u' :: _ => .error .unicodeEscape
    | c :: _ => .error (.unknownEscape c)
  | '"' :: _, acc => .ok acc.reverse
  | c :: cs, acc => unescapeGo cs (c :: acc)

/-- src: lib.rs:parse_str_literal on the chars of `Literal::to_string()` -/
def unescape : List Char → Except MacroErr (List Char)
  | '"' :: cs => unescapeGo cs []
  | _ => .error .notStringLiteral

/-- `String::push` for every char, then `as_bytes()` -/
def utf8 (cs : List Char) : List UInt8 := cs.flatMap String.utf8EncodeChar

/-- what `pattern!(<lit>)` expands to: the atoms (printed with `{:?}` and re-parsed by rustc —
trusted, validated by the batch correspondence check) or a compile error. -/
def macroAtoms (lit : List Char) : Except MacroErr (List Atom) :=
  match unescape lit with
  | .error e => .error e
  | .ok cs =>
    match parse (utf8 cs) with
    | .ok atoms => .ok atoms
    | .err k pos => .error (.invalidPattern k pos)
    | .panic site => .error (.parserPanic site)
    | .diverge => .error (.parserPanic "diverge")

-- The reference escaper `escapeWith` (a literal *writer*, specification vocabulary of C17) lives in
-- Spec/RustLiteral.lean.

end Pelite.Pattern
