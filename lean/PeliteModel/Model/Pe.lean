import PeliteModel.Prim.Basic
/-!
Model of the PE core: `validate_headers`, header accessors, section table, address conversion and
the untyped slice/read primitives (`src/pe64/pe.rs`, `file.rs`, `view.rs`, `headers.rs`,
`wrap/sections.rs`, `wrap/file.rs`, `wrap/view.rs`).  Written once, parametrised by the format.
Offsets are literal here; `Thm/C07.lean` proves them equal to the layout regenerated from the
current source (`Generated/Tables.lean`) and to the PE/COFF specification (`Spec/PeFormat.lean`).
-/
namespace Pelite.Pe

inductive Fmt | pe32 | pe64
  deriving DecidableEq, Repr
inductive Kind | file | view
  deriving DecidableEq, Repr

def Fmt.ntSize : Fmt → Nat | .pe32 => 120 | .pe64 => 136     -- size_of::<IMAGE_NT_HEADERS>()
def Fmt.optSize : Fmt → Nat | .pe32 => 96 | .pe64 => 112     -- size_of::<IMAGE_OPTIONAL_HEADER>()
def Fmt.magic : Fmt → Nat | .pe32 => 0x10b | .pe64 => 0x20b
def Fmt.ptrSize : Fmt → Nat | .pe32 => 4 | .pe64 => 8
def Fmt.vaLimit : Fmt → Nat | .pe32 => 4294967296 | .pe64 => 18446744073709551616
def Fmt.offNumRva : Fmt → Nat | .pe32 => 92 | .pe64 => 108

/-! ### raw header fields (meaningful once `validate` accepted the image) -/
def eLfanew (b : Bytes) : Nat := le32 b 60
def optOff (b : Bytes) : Nat := eLfanew b + 24
def numberOfSections (b : Bytes) : Nat := le16 b (eLfanew b + 6)
def sizeOfOptionalHeader (b : Bytes) : Nat := le16 b (eLfanew b + 20)
def optMagic (b : Bytes) : Nat := le16 b (optOff b)
def sizeOfCode (b : Bytes) : Nat := le32 b (optOff b + 4)
def baseOfCode (b : Bytes) : Nat := le32 b (optOff b + 20)
def sizeOfImage (b : Bytes) : Nat := le32 b (optOff b + 56)
def sizeOfHeaders (b : Bytes) : Nat := le32 b (optOff b + 60)
def checkSumField (b : Bytes) : Nat := le32 b (optOff b + 64)
def numberOfRvaAndSizes (f : Fmt) (b : Bytes) : Nat := le32 b (optOff b + f.offNumRva)
def imageBaseField (f : Fmt) (b : Bytes) : Nat :=
  match f with
  | .pe32 => le32 b (optOff b + 28)
  | .pe64 => le64 b (optOff b + 24)
def secTable (b : Bytes) : Nat := optOff b + sizeOfOptionalHeader b
def ntEnd (f : Fmt) (b : Bytes) : Nat := eLfanew b + f.ntSize
def numDataDirs (f : Fmt) (b : Bytes) : Nat := min (numberOfRvaAndSizes f b) 16

/-- src: pe.rs:validate_headers (order of checks and error kinds as in the code). Returns SizeOfImage. -/
def validate (f : Fmt) (img : Img) : Out Nat :=
  let b := img.bytes
  if 64 > b.size then .err .bounds
  else if img.base % 4 ≠ 0 then .err .misaligned
  else if le16 b 0 ≠ 0x5A4D then .err .badMagic
  else if eLfanew b % 4 ≠ 0 then .err .misaligned
  else if eLfanew b > 0x01000000 then .err .insanity
  else if eLfanew b + 24 + 2 > b.size then .err .bounds
  else if le32 b (eLfanew b) ≠ 0x00004550 ∨ ¬ (optMagic b = 0x10b ∨ optMagic b = 0x20b) then .err .badMagic
  else if optMagic b ≠ f.magic then .err .peMagic
  else if ntEnd f b > b.size then .err .bounds
  else if sizeOfHeaders b > b.size then .err .bounds
  else if sizeOfHeaders b > sizeOfImage b then .err .insanity
  else if ntEnd f b + numDataDirs f b * 8 > b.size then .err .bounds
  else if numberOfSections b > 96 then .err .insanity
  else if numberOfSections b * 40 + secTable b > b.size then .err .bounds
  else if secTable b % 4 ≠ 0 then .err .misaligned
  else .ok (sizeOfImage b)

/-- A constructed `PeFile` / `PeView`. -/
structure View where
  img : Img
  fmt : Fmt
  kind : Kind
  imageBase : Nat        -- `image_base()`: ImageBase field for files, `base_address` for views

-- src: file.rs:PeFile::from_bytes, view.rs:PeView::from_bytes
def fromBytes (f : Fmt) (k : Kind) (img : Img) : Out View :=
  match validate f img with
  | .ok _ => .ok ⟨img, f, k, imageBaseField f img.bytes⟩
  | .err e => .err e
  | .panic s => .panic s
  | .ub s => .ub s
  | .diverge => .diverge

-- src: view.rs:PeView::set_base_address
def View.setBase (v : View) (base : Nat) : View := { v with imageBase := base }

/-- src: wrap/file.rs, wrap/view.rs: try PE32+ first, retry as PE32 on `PeMagic`. -/
def wrapFromBytes (k : Kind) (img : Img) : Out View :=
  match fromBytes .pe64 k img with
  | .ok v => .ok v
  | .err .peMagic => fromBytes .pe32 k img
  | o => o

/-! ### header accessors (refs into the image) -/
def View.b (v : View) : Bytes := v.img.bytes
def View.dosHeader (_ : View) : Ref := ⟨0, 64, 4⟩
def View.dosImage (v : View) : Ref := ⟨0, eLfanew v.b, 1⟩
def View.ntHeaders (v : View) : Ref := ⟨eLfanew v.b, v.fmt.ntSize, 4⟩
def View.fileHeader (v : View) : Ref := ⟨eLfanew v.b + 4, 20, 4⟩
def View.optionalHeader (v : View) : Ref := ⟨optOff v.b, v.fmt.optSize, 4⟩
def View.dataDirectory (v : View) : Ref := ⟨ntEnd v.fmt v.b, 8 * numDataDirs v.fmt v.b, 4⟩
def View.sectionHeaders (v : View) : Ref := ⟨secTable v.b, 40 * numberOfSections v.b, 4⟩
def View.headersImage (v : View) : Ref := ⟨0, sizeOfHeaders v.b, 1⟩

/-- data directory entry `i` as (VirtualAddress, Size); `none` = `.get(i)` out of range -/
def View.dataDir (v : View) (i : Nat) : Option (Nat × Nat) :=
  if i < numDataDirs v.fmt v.b then
    some (le32 v.b (ntEnd v.fmt v.b + 8 * i), le32 v.b (ntEnd v.fmt v.b + 8 * i + 4))
  else none

/-! ### section table -/
structure Sec where
  nameLo : Nat    -- Name[0..4] little endian
  nameHi : Nat    -- Name[4..8]
  vs : Nat        -- VirtualSize
  va : Nat        -- VirtualAddress
  rs : Nat        -- SizeOfRawData
  prd : Nat       -- PointerToRawData
  chars : Nat
  deriving DecidableEq, Repr

def secAt (b : Bytes) (o : Nat) : Sec :=
  ⟨le32 b o, le32 b (o + 4), le32 b (o + 8), le32 b (o + 12), le32 b (o + 16), le32 b (o + 20), le32 b (o + 36)⟩

def sections (b : Bytes) : List Sec :=
  (List.range (numberOfSections b)).map (fun i => secAt b (secTable b + 40 * i))

def View.secs (v : View) : List Sec := sections v.b

/-! ### address conversion over an arbitrary section table -/

-- src: pe.rs:Pe::rva_to_file_offset (the loop)
def r2fSecs : List Sec → Nat → Out Nat
  | [], _ => .err .bounds
  | s :: rest, rva =>
    let vend := wadd32 s.va (max s.vs s.rs)
    if s.va ≤ rva ∧ rva < vend then
      if (cadd32 s.prd s.rs).isNone then .err .overflow
      else
        let so := rva - s.va
        if so < s.rs then .ok (so + s.prd)
        else if so < s.vs then .err .zeroFill
        else .err .bounds
    else r2fSecs rest rva

def rvaToFileOffset (soh : Nat) (secs : List Sec) (rva : Nat) : Out Nat :=
  if rva < soh then .ok rva else r2fSecs secs rva

-- src: pe.rs:Pe::file_offset_to_rva (the loop)
def f2rSecs : List Sec → Nat → Out Nat
  | [], _ => .err .bounds
  | s :: rest, fo =>
    let eord := wadd32 s.prd s.rs
    if s.prd ≤ fo ∧ fo < eord then
      if (cadd32 s.va s.vs).isNone then .err .overflow
      else
        let so := fo - s.prd       -- `file_offset as Rva - PointerToRawData` (fo < 2^32 here)
        if so < s.vs then .ok (so + s.va)
        else if so < s.rs then .err .unmapped
        else .err .bounds
    else f2rSecs rest fo

def fileOffsetToRva (soh : Nat) (secs : List Sec) (fo : Nat) : Out Nat :=
  if fo < soh then .ok fo else f2rSecs secs fo

def View.rvaToFileOffset (v : View) (rva : Nat) : Out Nat :=
  Pe.rvaToFileOffset (sizeOfHeaders v.b) v.secs rva
def View.fileOffsetToRva (v : View) (fo : Nat) : Out Nat :=
  Pe.fileOffsetToRva (sizeOfHeaders v.b) v.secs fo

-- src: pe.rs:Pe::rva_to_va
def View.rvaToVa (v : View) (rva : Nat) : Out Nat :=
  if rva = 0 then .err .null
  else if rva < sizeOfImage v.b then
    (if v.imageBase + rva < v.fmt.vaLimit then .ok (v.imageBase + rva) else .err .overflow)
  else .err .bounds

-- src: pe.rs:Pe::va_to_rva
def View.vaToRva (v : View) (va : Nat) : Out Nat :=
  if va = 0 then .err .null
  else if va < v.imageBase ∨ va - v.imageBase > sizeOfImage v.b then .err .bounds
  else .ok (va - v.imageBase)

/-! ### untyped slices -/

/-- `util::AlignTo::aligned_to` on a pointer: debug-asserts that `align` is a power of two. -/
def isPow2 (a : Nat) : Bool := a ≠ 0 ∧ a &&& (a - 1) = 0
def alignedTo (site : String) (addr align : Nat) : Out Bool :=
  if isPow2 align then .ok (addr % align = 0) else .panic site

-- src: pe.rs:slice_section
def sliceSection (img : Img) (rva min align : Nat) : Out Ref :=
  if rva = 0 then .err .null
  else match alignedTo "slice_section:aligned_to" (img.base + rva) align with
    | .ok false => .err .misaligned
    | .ok true =>
      if rva ≤ img.bytes.size ∧ img.bytes.size - rva ≥ min then .ok ⟨rva, img.bytes.size - rva, align⟩
      else .err .bounds
    | .panic s => .panic s
    | _ => .err .invalid

-- src: pe.rs:range_file
def rangeFile (size : Nat) : List Sec → Nat → Nat → Out (Nat × Nat)
  | [], _, _ => .err .bounds
  | s :: rest, rva, min =>
    let vend := wadd32 s.va (max s.vs s.rs)
    if s.va ≤ rva ∧ rva < vend then
      let stop := wadd32 s.prd s.rs
      -- image.get(PointerToRawData .. PointerToRawData.wrapping_add(SizeOfRawData))
      if s.prd ≤ stop ∧ stop ≤ size then
        let so := rva - s.va
        let slen := stop - s.prd
        if so < slen ∧ slen - so ≥ min then .ok (s.prd + so, slen - so)
        else if min > vend - rva then .err .bounds else .err .zeroFill
      else .err .invalid
    else rangeFile size rest rva min

-- src: pe.rs:slice_file
def sliceFile (img : Img) (secs : List Sec) (rva min align : Nat) : Out Ref :=
  if rva = 0 then .err .null
  else match alignedTo "slice_file:aligned_to" (img.base + rva) align with
    | .ok false => .err .misaligned
    | .ok true =>
      match rangeFile img.bytes.size secs rva min with
      | .ok (o, l) =>
        -- the bytes are referenced where they are stored: `bytes.as_ptr().aligned_to(align_of)`
        if (img.base + o) % align = 0 then .ok ⟨o, l, align⟩ else .err .misaligned
      | .err e => .err e
      | .panic s => .panic s
      | .ub s => .ub s
      | .diverge => .diverge
    | .panic s => .panic s
    | _ => .err .invalid

-- src: pe.rs:Pe::slice
def View.slice (v : View) (rva min align : Nat) : Out Ref :=
  match v.kind with
  | .file => sliceFile v.img v.secs rva min align
  | .view => sliceSection v.img rva min align

-- src: pe.rs:read_section
def readSection (img : Img) (imageBase soi va min align : Nat) : Out Ref :=
  if va = 0 then .err .null
  else if va < imageBase ∨ va - imageBase > soi then .err .bounds
  else
    let start := va - imageBase
    match alignedTo "read_section:aligned_to" (img.base + start) align with
    | .ok false => .err .misaligned
    | .ok true =>
      if start ≤ img.bytes.size ∧ img.bytes.size - start ≥ min then .ok ⟨start, img.bytes.size - start, align⟩
      else .err .bounds
    | .panic s => .panic s
    | _ => .err .invalid

-- src: pe.rs:read_file
def readFile (img : Img) (secs : List Sec) (imageBase soi va min align : Nat) : Out Ref :=
  if va = 0 then .err .null
  else if va < imageBase ∨ va - imageBase > soi then .err .bounds
  else
    let rva := va - imageBase
    match alignedTo "read_file:aligned_to" (img.base + rva) align with
    | .ok false => .err .misaligned
    | .ok true =>
      match rangeFile img.bytes.size secs rva min with
      | .ok (o, l) =>
        -- the bytes are referenced where they are stored: `bytes.as_ptr().aligned_to(align_of)`
        if (img.base + o) % align = 0 then .ok ⟨o, l, align⟩ else .err .misaligned
      | .err e => .err e
      | .panic s => .panic s
      | .ub s => .ub s
      | .diverge => .diverge
    | .panic s => .panic s
    | _ => .err .invalid

-- src: pe.rs:Pe::read
def View.read (v : View) (va min align : Nat) : Out Ref :=
  match v.kind with
  | .file => readFile v.img v.secs v.imageBase (sizeOfImage v.b) va min align
  | .view => readSection v.img v.imageBase (sizeOfImage v.b) va min align

/-- src: wrap/pe.rs:get_section_bytes -/
def View.sectionBytes (v : View) (s : Sec) : Out Ref :=
  let (addr, size) := match v.kind with
    | .file => (s.prd, s.rs)
    | .view => (s.va, s.vs)
  if addr = 0 then .err .null
  else
    let stop := wadd32 addr size          -- `address.wrapping_add(size) as usize`
    if addr ≤ stop ∧ stop ≤ v.b.size then .ok ⟨addr, stop - addr, 1⟩   -- image.get(start..end)
    else .err .bounds

/-! ### Headers helpers -/

-- src: wrap/sections.rs:SectionHeaders::by_rva
def byRva : List Sec → Nat → Option Nat
  | [], _ => none
  | s :: rest, rva =>
    if rva ≥ s.va ∧ rva < wadd32 s.va s.vs then some 0 else (byRva rest rva).map (· + 1)

/-- name query as the two little-endian halves of the NUL-padded 8-byte buffer; `none` if longer than 8 -/
def byName : List Sec → Nat → Nat → Option Nat
  | [], _, _ => none
  | s :: rest, lo, hi =>
    if s.nameLo = lo ∧ s.nameHi = hi then some 0 else (byName rest lo hi).map (· + 1)

-- src: headers.rs:Headers::code_range / image_range
def View.codeRange (v : View) : Nat × Nat := (baseOfCode v.b, wadd32 (baseOfCode v.b) (sizeOfCode v.b))
def View.imageRange (v : View) : Nat × Nat := (sizeOfHeaders v.b, sizeOfImage v.b)

/-- src: headers.rs:Headers::check_sum — 32-bit accumulate with end-around carry over the dwords,
skipping the CheckSum field, folded to 16 bits, plus the length. -/
def csumStep (acc dw : Nat) : Nat :=
  let c := acc % 4294967296 + dw + acc / 4294967296
  if c > 0xffffffff then c % 4294967296 + c / 4294967296 else c

def csumLoop (b : Bytes) (skip : Nat) (n : Nat) : Nat → Nat → Nat
  | 0, acc => acc
  | fuel+1, acc =>
    let i := n - (fuel + 1)
    csumLoop b skip n fuel (if i = skip then acc else csumStep acc (le32 b (4 * i)))

def View.checkSum (v : View) : Nat :=
  let n := v.b.size / 4
  let pos := (eLfanew v.b + 24 + 64) / 4
  let c := csumLoop v.b pos n n 0
  -- the remaining 1..3 bytes, zero extended (`byteAt` reads 0 beyond the buffer)
  let c := if v.b.size % 4 ≠ 0 then csumStep c (le32 v.b (4 * n)) else c
  let c := c % 65536 + c / 65536
  let c := c + c / 65536
  let c := c % 65536
  (c + v.b.size) % 4294967296

/-! ### `SectionHeaders::by_name` on the query bytes -/

/-- `let mut name_buf = [0u8; IMAGE_SIZEOF_SHORT_NAME]; for i in 0..name.len() { name_buf[i] = name[i]; }`
(the caller has checked `name.len() <= 8`, so no index is out of range) -/
-- src: wrap/sections.rs:SectionHeaders::by_name (the copy loop)
def nameBuf (n : Bytes) : Bytes :=
  (List.range n.size).foldl (fun buf i => buf.setIfInBounds i (n.getD i 0)) (Array.replicate 8 0)

/-- index of the section found by `by_name(name)`, `none` = `None` -/
-- src: wrap/sections.rs:SectionHeaders::by_name
def byNameBytes (secs : List Sec) (n : Bytes) : Option Nat :=
  -- `if name.len() > IMAGE_SIZEOF_SHORT_NAME { return None; }`
  if n.size > 8 then none
  else
    let buf := nameBuf n
    -- `for sect in self.iter() { if sect.0.Name == name_buf { return Some(sect); } }`: the 8 bytes of
    -- `Name` are kept as two little-endian halves in `Sec`
    byName secs (le32 buf 0) (le32 buf 4)

end Pelite.Pe
