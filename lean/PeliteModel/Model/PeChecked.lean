import PeliteModel.Model.Pe
import PeliteModel.Model.Typed
import PeliteModel.Model.Convert
/-!
CHECKED variants of the PE core (`Model/Pe.lean`), the typed reads (`Model/Typed.lean`) and the
conversions (`Model/Convert.lean`).

The unchecked models compute on unbounded `Nat` (`+` never overflows, `-` truncates at 0, `&bytes[..n]`
is implicit).  The Rust code computes on `u32` / `u64` / `usize` and a checked (debug) build PANICS
on `+ - *` overflow, on `s[i]` / `&s[a..b]` out of range and on `copy_from_slice` with different
lengths.  The functions below mirror the Rust code branch for branch and put a *panicking*
primitive (`padd32`, `padd64`, `psub`, `pmulUsize`, `pIndexTo`, `pIndexFrom`, `pIndex`, `pCopyLen`) at
exactly the Rust sites (one `-- src: file.rs:line expression` comment per site); the unchecked
accesses of the typed reads and conversions (`&*(p as *const T)`, `slice::from_raw_parts`,
`get_unchecked`, `ptr::read_unaligned`) go through `rawRef` (`Out.ub` when outside the buffer or
misaligned).  Casts (`as u32`, `as usize`, `as Rva`) truncate / widen as on a 64-bit target;
`wrapping_add` wraps; the safe `slice.get(..)` is `getRange` / `getFrom`.

`Lemmas/PeChecked.lean` + `Thm/C02Arith.lean` prove `fChk args = f args` for every function and all
inputs in the range of their Rust types — so no panic / ub branch of a checked function is ever
taken, and every theorem about the unchecked model transfers.  The drivers run the CHECKED
variants, so the correspondence run ties them to the real code.

Line numbers refer to /repo/src/pe64/{pe,file,view,headers}.rs, /repo/src/util/{align,c_str,wide_str}.rs
(the `pe32` module includes the same files with `Va = u32`).
-/
namespace Pelite

/-! ### primitives (kept here, not in `Prim/Basic.lean`, so that nothing else is rebuilt) -/

/-- `a * b` on `usize` / `u64`: panics on overflow in a checked build -/
@[inline] def pmulUsize (site : String) (a b : Nat) : Out Nat :=
  if a * b < 18446744073709551616 then .ok (a * b) else .panic site
/-- `&s[..n]` / `&mut s[..n]` on a slice of length `len`: the length of the result -/
@[inline] def pIndexTo (site : String) (len n : Nat) : Out Nat := if n ≤ len then .ok n else .panic site
/-- `&s[n..]` on a slice of length `len`: the length of the result -/
@[inline] def pIndexFrom (site : String) (len n : Nat) : Out Nat := if n ≤ len then .ok (len - n) else .panic site
/-- `s[i]` on a slice of length `len` -/
@[inline] def pIndex (site : String) (len i : Nat) : Out Unit := if i < len then .ok () else .panic site
/-- `dst.copy_from_slice(src)`: panics unless the lengths are equal -/
@[inline] def pCopyLen (site : String) (dlen slen : Nat) : Out Unit := if dlen = slen then .ok () else .panic site
/-- safe `s.get(a..b)` on a slice of length `len`: offset and length of the sub-slice -/
@[inline] def getRange (len a b : Nat) : Option (Nat × Nat) := if a ≤ b ∧ b ≤ len then some (a, b - a) else none
/-- safe `s.get(a..)` on a slice of length `len`: length of the sub-slice -/
@[inline] def getFrom (len a : Nat) : Option Nat := if a ≤ len then some (len - a) else none

namespace Pe

/-! ### `validate_headers` and the constructors -/

-- src: pe.rs:772-852 validate_headers
-- The four unchecked reads (`&*(p as *const IMAGE_DOS_HEADER)` pe.rs:781, `*(p as *const u32)` pe.rs:801,
-- `*(p as *const u16)` pe.rs:802, `&*(p as *const IMAGE_NT_HEADERS)` pe.rs:817) go through `rawRef`
-- with the size and alignment of the pointee (`IMAGE_DOS_HEADER`: 64 / 4, `IMAGE_NT_HEADERS`: 120 or 136 / 4,
-- tied to the regenerated layout by `C01_validate_pointee_layout`); the fields are then read at the
-- offsets of `Model/Pe.lean` (`le16 b 0` is `dos.e_magic`, …).
def validateChk (f : Fmt) (img : Img) : Out Nat :=
  let b := img.bytes
  if 64 > b.size then .err .bounds                                    -- pe.rs:774
  else if img.base % 4 ≠ 0 then .err .misaligned                      -- pe.rs:778 aligned_to(4), a literal power of two
  else do
    -- src: pe.rs:781 &*(image.as_ptr() as *const IMAGE_DOS_HEADER)
    let _dos ← rawRef "pe.rs:781 &*(image.as_ptr() as *const IMAGE_DOS_HEADER)" img 0 64 4
    if le16 b 0 ≠ 0x5A4D then .err .badMagic                          -- pe.rs:783
    else if eLfanew b % 4 ≠ 0 then .err .misaligned                   -- pe.rs:787
    else if eLfanew b > 0x01000000 then .err .insanity                -- pe.rs:792
    else do
      -- src: pe.rs:797 dos.e_lfanew as usize + (size_of::<IMAGE_NT_HEADERS>() - size_of::<IMAGE_OPTIONAL_HEADER>())
      let magicOff ← padd64 "pe.rs:797 e_lfanew as usize + (size_of NT - size_of OPT)" (eLfanew b) (f.ntSize - f.optSize)
      -- src: pe.rs:798 magic_offset + mem::size_of::<u16>()
      let magicEnd ← padd64 "pe.rs:798 magic_offset + size_of::<u16>()" magicOff 2
      if magicEnd > b.size then .err .bounds
      else do
        -- src: pe.rs:801 *(image.as_ptr().offset(dos.e_lfanew as isize) as *const u32)
        let _sig ← rawRef "pe.rs:801 *(image.as_ptr().offset(e_lfanew) as *const u32)" img (eLfanew b) 4 4
        -- src: pe.rs:802 *(image.as_ptr().add(magic_offset) as *const u16)
        let _mag ← rawRef "pe.rs:802 *(image.as_ptr().add(magic_offset) as *const u16)" img magicOff 2 2
        if le32 b (eLfanew b) ≠ 0x00004550 ∨ ¬ (le16 b magicOff = 0x10b ∨ le16 b magicOff = 0x20b) then .err .badMagic
        else if le16 b magicOff ≠ f.magic then .err .peMagic            -- pe.rs:808
        else do
          -- src: pe.rs:813 dos.e_lfanew as usize + mem::size_of::<IMAGE_NT_HEADERS>()
          let ntEnd ← padd64 "pe.rs:813 e_lfanew as usize + size_of NT" (eLfanew b) f.ntSize
          if ntEnd > b.size then .err .bounds
          else do
            -- src: pe.rs:817 &*(image.as_ptr().offset(dos.e_lfanew as isize) as *const IMAGE_NT_HEADERS)
            let _nt ← rawRef "pe.rs:817 &*(image.as_ptr().offset(e_lfanew) as *const IMAGE_NT_HEADERS)" img (eLfanew b) f.ntSize 4
            if sizeOfHeaders b > b.size then .err .bounds              -- pe.rs:818
            else if sizeOfHeaders b > sizeOfImage b then .err .insanity     -- pe.rs:821
            else do
              let nrs := min (numberOfRvaAndSizes f b) 16                   -- pe.rs:826
              -- src: pe.rs:827 num_rva_sizes * mem::size_of::<IMAGE_DATA_DIRECTORY>()
              let sdd ← pmulUsize "pe.rs:827 num_rva_sizes * size_of DD" nrs 8
              -- src: pe.rs:828 nt_end + size_of_data_dir
              let ddEnd ← padd64 "pe.rs:828 nt_end + size_of_data_dir" ntEnd sdd
              if ddEnd > b.size then .err .bounds
              else if numberOfSections b > 96 then .err .insanity           -- pe.rs:833
              else do
                -- src: pe.rs:837 nt.FileHeader.NumberOfSections as usize * mem::size_of::<IMAGE_SECTION_HEADER>()
                let sos ← pmulUsize "pe.rs:837 NumberOfSections as usize * size_of SH" (numberOfSections b) 40
                -- src: pe.rs:840-841 dos.e_lfanew as usize + (size_of NT - size_of OPT)
                let t ← padd64 "pe.rs:841 e_lfanew as usize + (size_of NT - size_of OPT)" (eLfanew b) (f.ntSize - f.optSize)
                -- src: pe.rs:842 + nt.FileHeader.SizeOfOptionalHeader as usize
                let start ← padd64 "pe.rs:842 + SizeOfOptionalHeader as usize" t (sizeOfOptionalHeader b)
                -- src: pe.rs:844 size_of_sections + start_of_sections
                let secEnd ← padd64 "pe.rs:844 size_of_sections + start_of_sections" sos start
                if secEnd > b.size then .err .bounds
                else if start % 4 ≠ 0 then .err .misaligned                  -- pe.rs:848 aligned_to(align_of SH = 4)
                else .ok (sizeOfImage b)

-- src: file.rs:39-43 PeFile::from_bytes, view.rs:58-63 PeView::from_bytes
def fromBytesChk (f : Fmt) (k : Kind) (img : Img) : Out View :=
  match validateChk f img with
  | .ok _ => .ok ⟨img, f, k, imageBaseField f img.bytes⟩
  | .err e => .err e
  | .panic s => .panic s
  | .ub s => .ub s
  | .diverge => .diverge

/-- src: wrap/file.rs, wrap/view.rs: try PE32+ first, retry as PE32 on `PeMagic`. -/
def wrapFromBytesChk (k : Kind) (img : Img) : Out View :=
  match fromBytesChk .pe64 k img with
  | .ok v => .ok v
  | .err .peMagic => fromBytesChk .pe32 k img
  | o => o

/-! ### address conversion -/

-- src: pe.rs:91-119 Pe::rva_to_file_offset (the loop)
def r2fSecsChk : List Sec → Nat → Out Nat
  | [], _ => .err .bounds                                              -- pe.rs:119
  | s :: rest, rva =>
    let vend := wadd32 s.va (max s.vs s.rs)                            -- pe.rs:95 wrapping_add
    if s.va ≤ rva ∧ rva < vend then                                    -- pe.rs:97
      if (cadd32 s.prd s.rs).isNone then .err .overflow                -- pe.rs:100 checked_add
      else do
        -- src: pe.rs:104 rva - it.VirtualAddress
        let so ← psub "pe.rs:104 rva - it.VirtualAddress" rva s.va
        if so < s.rs then
          -- src: pe.rs:108 (section_offset + it.PointerToRawData) as usize   (u32 add, then widening)
          padd32 "pe.rs:108 section_offset + it.PointerToRawData" so s.prd
        else if so < s.vs then .err .zeroFill                          -- pe.rs:111
        else .err .bounds
    else r2fSecsChk rest rva

-- src: pe.rs:85-120 Pe::rva_to_file_offset
def rvaToFileOffsetChk (soh : Nat) (secs : List Sec) (rva : Nat) : Out Nat :=
  if rva < soh then .ok rva                                            -- pe.rs:87-88 `rva as usize` widens
  else r2fSecsChk secs rva

-- src: pe.rs:139-167 Pe::file_offset_to_rva (the loop)
def f2rSecsChk : List Sec → Nat → Out Nat
  | [], _ => .err .bounds                                              -- pe.rs:167
  | s :: rest, fo =>
    let eord := wadd32 s.prd s.rs                                      -- pe.rs:143 wrapping_add
    if s.prd ≤ fo ∧ fo < eord then                                     -- pe.rs:145 both sides widened to usize
      if (cadd32 s.va s.vs).isNone then .err .overflow                 -- pe.rs:148 checked_add
      else do
        -- src: pe.rs:152 file_offset as Rva - it.PointerToRawData   (truncating cast, then u32 subtraction)
        let so ← psub "pe.rs:152 file_offset as Rva - it.PointerToRawData" (fo % 4294967296) s.prd
        if so < s.vs then
          -- src: pe.rs:156 section_offset + it.VirtualAddress
          padd32 "pe.rs:156 section_offset + it.VirtualAddress" so s.va
        else if so < s.rs then .err .unmapped                          -- pe.rs:159
        else .err .bounds
    else f2rSecsChk rest fo

-- src: pe.rs:133-168 Pe::file_offset_to_rva
def fileOffsetToRvaChk (soh : Nat) (secs : List Sec) (fo : Nat) : Out Nat :=
  if fo < soh then .ok (fo % 4294967296)                               -- pe.rs:135-136 `file_offset as Rva` truncates
  else f2rSecsChk secs fo

def View.rvaToFileOffsetChk (v : View) (rva : Nat) : Out Nat :=
  Pe.rvaToFileOffsetChk (sizeOfHeaders v.b) v.secs rva
def View.fileOffsetToRvaChk (v : View) (fo : Nat) : Out Nat :=
  Pe.fileOffsetToRvaChk (sizeOfHeaders v.b) v.secs fo

-- src: pe.rs:204-220 Pe::va_to_rva      (`rva_to_va`, pe.rs:179-194, has no panicking site: `checked_add`)
def View.vaToRvaChk (v : View) (va : Nat) : Out Nat :=
  if va = 0 then .err .null                                            -- pe.rs:205
  else if va < v.imageBase then .err .bounds                           -- pe.rs:213 left operand of `||`
  else do
    -- src: pe.rs:213 va - image_base > size_of_image as Va
    let d ← psub "pe.rs:213 va - image_base" va v.imageBase
    if d > sizeOfImage v.b then .err .bounds
    else do
      -- src: pe.rs:217 (va - image_base) as Rva    (Va subtraction, then truncating cast)
      let d' ← psub "pe.rs:217 va - image_base" va v.imageBase
      .ok (d' % 4294967296)

/-! ### untyped slices -/

-- src: util/align.rs:25-29 `aligned_to` on `usize`
def alignedToChk (site : String) (addr align : Nat) : Out Bool :=
  if isPow2 align then do                                              -- align.rs:26 debug_assert!(align.is_power_of_two())
    -- src: align.rs:27 align - 1
    let mask ← psub "align.rs:27 align - 1" align 1
    .ok (decide (addr &&& mask = 0))                                   -- align.rs:28 self & mask == 0
  else .panic site

-- src: pe.rs:662-676 slice_section
def sliceSectionChk (img : Img) (rva min align : Nat) : Out Ref :=
  let start := rva                                                     -- pe.rs:663 `rva as usize` widens
  if rva = 0 then .err .null
  -- src: pe.rs:667 usize::wrapping_add(image.as_ptr() as usize, start).aligned_to(align_of)
  else match alignedToChk "slice_section:aligned_to" (wadd64 img.base start) align with
    | .ok false => .err .misaligned
    | .ok true =>
      match getFrom img.bytes.size start with                          -- pe.rs:671 image.get(start..)
      | some blen => if blen ≥ min then .ok ⟨start, blen, align⟩ else .err .bounds
      | none => .err .bounds
    | .panic s => .panic s
    | _ => .err .invalid

-- src: pe.rs:700-724 range_file
def rangeFileChk (size : Nat) : List Sec → Nat → Nat → Out (Nat × Nat)
  | [], _, _ => .err .bounds                                           -- pe.rs:723
  | s :: rest, rva, min =>
    let vend := wadd32 s.va (max s.vs s.rs)                            -- pe.rs:706 wrapping_add
    if s.va ≤ rva ∧ rva < vend then                                    -- pe.rs:708
      -- src: pe.rs:711-712 image.get(PointerToRawData as usize..PointerToRawData.wrapping_add(SizeOfRawData) as usize)
      match getRange size s.prd (wadd32 s.prd s.rs) with
      | none => .err .invalid
      | some (boff, blen) => do
        -- src: pe.rs:714 (rva - it.VirtualAddress) as usize
        let so ← psub "pe.rs:714 rva - it.VirtualAddress" rva s.va
        let fails : Out (Nat × Nat) := do
          -- src: pe.rs:719 (VirtualEnd - rva) as usize
          let room ← psub "pe.rs:719 VirtualEnd - rva" vend rva
          if min > room then .err .bounds else .err .zeroFill
        match getFrom blen so with                                     -- pe.rs:715 section_bytes.get(section_offset..)
        | some l => if l ≠ 0 ∧ l ≥ min then .ok (boff + so, l) else fails   -- pe.rs:717
        | none => fails
    else rangeFileChk size rest rva min

/-- the part of `slice_file` / `read_file` after the preamble (pe.rs:734-739, 758-763) -/
def fileTailChk (site : String) (img : Img) (secs : List Sec) (rva min align : Nat) : Out Ref :=
  match rangeFileChk img.bytes.size secs rva min with
  | .ok (o, l) =>
    -- src: pe.rs:736 / 760 bytes.as_ptr().aligned_to(align_of)   (`bytes` lies inside `image`: no wrap)
    (match alignedToChk site (img.base + o) align with
     | .ok true => .ok ⟨o, l, align⟩
     | .ok false => .err .misaligned
     | .panic s => .panic s
     | _ => .err .invalid)
  | .err e => .err e
  | .panic s => .panic s
  | .ub s => .ub s
  | .diverge => .diverge

-- src: pe.rs:726-741 slice_file
def sliceFileChk (img : Img) (secs : List Sec) (rva min align : Nat) : Out Ref :=
  if rva = 0 then .err .null
  -- src: pe.rs:730 usize::wrapping_add(image.as_ptr() as usize, rva as usize).aligned_to(align_of)
  else match alignedToChk "slice_file:aligned_to" (wadd64 img.base rva) align with
    | .ok false => .err .misaligned
    | .ok true => fileTailChk "slice_file:aligned_to" img secs rva min align
    | .panic s => .panic s
    | _ => .err .invalid

-- src: pe.rs:236-243 Pe::slice
def View.sliceChk (v : View) (rva min align : Nat) : Out Ref :=
  match v.kind with
  | .file => sliceFileChk v.img v.secs rva min align
  | .view => sliceSectionChk v.img rva min align

-- src: pe.rs:677-698 read_section
def readSectionChk (img : Img) (imageBase soi va min align : Nat) : Out Ref :=
  if va = 0 then .err .null
  else if va < imageBase then .err .bounds                             -- pe.rs:683 left operand of `||`
  else do
    -- src: pe.rs:683 va - image_base > image_size as Va
    let d ← psub "pe.rs:683 va - image_base" va imageBase
    if d > soi then .err .bounds
    else do
      -- src: pe.rs:687 (va - image_base) as usize     (u32 widens, u64 is usize)
      let start ← psub "pe.rs:687 va - image_base" va imageBase
      -- src: pe.rs:688 usize::wrapping_add(image.as_ptr() as usize, start).aligned_to(align_of)
      match alignedToChk "read_section:aligned_to" (wadd64 img.base start) align with
      | .ok false => .err .misaligned
      | .ok true =>
        match getFrom img.bytes.size start with                        -- pe.rs:692 image.get(start..)
        | some blen => if blen ≥ min then .ok ⟨start, blen, align⟩ else .err .bounds
        | none => .err .bounds
      | .panic s => .panic s
      | _ => .err .invalid

-- src: pe.rs:743-766 read_file
def readFileChk (img : Img) (secs : List Sec) (imageBase soi va min align : Nat) : Out Ref :=
  if va = 0 then .err .null
  else if va < imageBase then .err .bounds                             -- pe.rs:749 left operand of `||`
  else do
    -- src: pe.rs:749 va - image_base > size_of_image as Va
    let d ← psub "pe.rs:749 va - image_base" va imageBase
    if d > soi then .err .bounds
    else do
      -- src: pe.rs:753 (va - image_base) as Rva      (truncating cast for `Va = u64`)
      let d' ← psub "pe.rs:753 va - image_base" va imageBase
      let rva := d' % 4294967296
      -- src: pe.rs:754 usize::wrapping_add(image.as_ptr() as usize, rva as usize).aligned_to(align_of)
      match alignedToChk "read_file:aligned_to" (wadd64 img.base rva) align with
      | .ok false => .err .misaligned
      | .ok true => fileTailChk "read_file:aligned_to" img secs rva min align
      | .panic s => .panic s
      | _ => .err .invalid

-- src: pe.rs:280-287 Pe::read
def View.readChk (v : View) (va min align : Nat) : Out Ref :=
  match v.kind with
  | .file => readFileChk v.img v.secs v.imageBase (sizeOfImage v.b) va min align
  | .view => readSectionChk v.img v.imageBase (sizeOfImage v.b) va min align

/-! ### `Headers::check_sum` -/

-- src: headers.rs:46-49 / 56-59  (`site` = the line of the first statement)
def csumStepChk (site : String) (acc dw : Nat) : Out Nat := do
  -- src: headers.rs:46 (check_sum & 0xffffffff) + dw as u64 + (check_sum >> 32)   (two u64 additions)
  let t ← padd64 (site ++ " (check_sum & 0xffffffff) + dw as u64") (acc % 4294967296) dw
  let c ← padd64 (site ++ " .. + (check_sum >> 32)") t (acc / 4294967296)
  if c > 0xffffffff then
    -- src: headers.rs:48 (check_sum & 0xffffffff) + (check_sum >> 32)
    padd64 (site ++ "+2 (check_sum & 0xffffffff) + (check_sum >> 32)") (c % 4294967296) (c / 4294967296)
  else .ok c

-- src: headers.rs:41-50 the loop `for i in 0..dwords.len()`; `i = n - (fuel+1)` is the loop counter
def csumLoopChk (b : Bytes) (skip : Nat) (n : Nat) : Nat → Nat → Out Nat
  | 0, acc => .ok acc
  | fuel+1, acc =>
    let i := n - (fuel + 1)
    if i = skip then csumLoopChk b skip n fuel acc                     -- headers.rs:42-44 continue
    else do
      -- src: headers.rs:45 dwords[i]
      pIndex "headers.rs:45 dwords[i]" n i
      let acc ← csumStepChk "headers.rs:46" acc (le32 b (4 * i))
      csumLoopChk b skip n fuel acc

-- src: headers.rs:32-68 Headers::check_sum
def View.checkSumChk (v : View) : Out Nat := do
  let len := v.b.size
  -- src: headers.rs:36-37 self.pe.dos_header().e_lfanew as usize + offset_of!(IMAGE_NT_HEADERS.OptionalHeader)
  let p1 ← padd64 "headers.rs:37 e_lfanew as usize + offset_of!(OptionalHeader)" (eLfanew v.b) 24
  -- src: headers.rs:38 + offset_of!(IMAGE_OPTIONAL_HEADER.CheckSum)
  let p2 ← padd64 "headers.rs:38 + offset_of!(CheckSum)" p1 64
  let pos := p2 / 4
  let n := len / 4                                                     -- headers.rs:39 image.len() / 4
  -- src: headers.rs:39 slice::from_raw_parts(image.as_ptr() as *const u32, image.len() / 4)
  -- (the same access: pe.rs:479 `Pe::rich_structure`)
  let _dwords ← rawRef "headers.rs:39 slice::from_raw_parts(image.as_ptr() as *const u32, image.len() / 4)" v.img 0 (4 * n) 4
  let c ← csumLoopChk v.b pos n n 0
  -- src: headers.rs:52 &image[dwords.len() * 4..]
  let tstart ← pmulUsize "headers.rs:52 dwords.len() * 4" n 4
  let tlen ← pIndexFrom "headers.rs:52 &image[dwords.len() * 4..]" len tstart
  let c ← (if tlen ≠ 0 then do                                         -- headers.rs:53
      -- src: headers.rs:55 last[..tail.len()].copy_from_slice(tail)
      let l ← pIndexTo "headers.rs:55 last[..tail.len()]" 4 tlen
      pCopyLen "headers.rs:55 copy_from_slice" l tlen
      -- `u32::from_le_bytes(last)`: the tail zero extended (`byteAt` reads 0 beyond the buffer)
      csumStepChk "headers.rs:56" c (le32 v.b tstart)
    else .ok c)
  -- src: headers.rs:61 (check_sum & 0xffff) + (check_sum >> 16)
  let c ← padd64 "headers.rs:61 (check_sum & 0xffff) + (check_sum >> 16)" (c % 65536) (c / 65536)
  -- src: headers.rs:62 check_sum + (check_sum >> 16)
  let c ← padd64 "headers.rs:62 check_sum + (check_sum >> 16)" c (c / 65536)
  let c := c % 65536                                                   -- headers.rs:63
  -- src: headers.rs:65 check_sum += image.len() as u64
  let c ← padd64 "headers.rs:65 check_sum += image.len() as u64" c len
  .ok (c % 4294967296)                                                 -- headers.rs:67 `as u32`

/-! ### `SectionHeaders::by_name` -/

-- src: wrap/sections.rs:103-105 `for i in 0..name.len() { name_buf[i] = name[i]; }`
-- (`i = name.len() - (fuel+1)` is the loop counter; `buf` is `name_buf: [u8; 8]`)
def nameBufLoopChk (n : Bytes) : Nat → Bytes → Out Bytes
  | 0, buf => .ok buf
  | fuel+1, buf => do
    let i := n.size - (fuel + 1)
    -- src: sections.rs:104 name[i]            (the right-hand side is evaluated first)
    pIndex "sections.rs:104 name[i]" n.size i
    -- src: sections.rs:104 name_buf[i] = ..
    pIndex "sections.rs:104 name_buf[i]" buf.size i
    nameBufLoopChk n fuel (buf.setIfInBounds i (n.getD i 0))

-- src: wrap/sections.rs:95-112 SectionHeaders::by_name
def byNameBytesChk (secs : List Sec) (n : Bytes) : Out (Option Nat) :=
  if n.size > 8 then .ok none                                          -- sections.rs:98-100 return None
  else do
    -- src: sections.rs:102 let mut name_buf = [0u8; IMAGE_SIZEOF_SHORT_NAME]
    let buf ← nameBufLoopChk n n.size (Array.replicate 8 0)
    -- src: sections.rs:106-111 `sect.0.Name == name_buf` (array comparison, no index), first match
    .ok (byName secs (le32 buf 0) (le32 buf 4))

/-! ### typed reads -/

/-- `self.slice(rva, min, align)` or `self.read(va, min, align)`, checked -/
def View.atChk (v : View) (a : Addr) (min align : Nat) : Out Ref :=
  match a with
  | .rva r => v.sliceChk r min align
  | .va x => v.readChk x min align

-- src: pe.rs:302-310 derva / 390-398 deref
def View.dervaChk (v : View) (a : Addr) (size align : Nat) : Out Ref :=
  match v.atChk a size align with
  -- src: pe.rs:307 / 395 &*(bytes.as_ptr() as *const T)
  | .ok r => rawRef "pe.rs:307 &*(bytes.as_ptr() as *const T)" v.img r.off size align
  | .err e => .err e | .panic s => .panic s | .ub s => .ub s | .diverge => .diverge

-- src: pe.rs:312-319 derva_copy / 400-407 deref_copy
def View.dervaCopyChk (v : View) (a : Addr) (size : Nat) : Out Nat :=
  match v.atChk a size 1 with
  | .ok r => do
    -- src: pe.rs:317 / 405 ptr::read_unaligned(p)
    let p ← rawRef "pe.rs:317 ptr::read_unaligned(bytes.as_ptr() as *const T)" v.img r.off size 1
    .ok (leN v.b p.off size)
  | .err e => .err e | .panic s => .panic s | .ub s => .ub s | .diverge => .diverge

-- src: pe.rs:323-328 derva_into / 411-416 deref_into
def View.dervaIntoChk (v : View) (a : Addr) (len : Nat) : Out (List UInt8) :=
  match v.atChk a len 1 with
  | .ok r => do
    -- src: pe.rs:326 / 414 &bytes[..len]
    let n ← pIndexTo "pe.rs:326 &bytes[..len]" r.len len
    -- src: pe.rs:326 / 414 dataview::bytes_mut(dest).copy_from_slice(..)
    pCopyLen "pe.rs:326 copy_from_slice" len n
    .ok ((List.range len).map (fun i => v.b.getD (r.off + i) 0))
  | .err e => .err e | .panic s => .panic s | .ub s => .ub s | .diverge => .diverge

-- src: pe.rs:330-339 derva_slice / 418-427 deref_slice
def View.dervaSliceChk (v : View) (a : Addr) (size align len : Nat) : Out Ref :=
  if a.isZero then .err .null                                          -- pe.rs:331 / 419
  else if size * len ≥ 18446744073709551616 then .err .overflow        -- pe.rs:334 / 422 checked_mul
  else match v.atChk a (size * len) align with
    -- src: pe.rs:338 / 426 slice::from_raw_parts(bytes.as_ptr() as *const T, len)
    | .ok r => rawRef "pe.rs:338 slice::from_raw_parts(bytes.as_ptr() as *const T, len)" v.img r.off (size * len) align
    | .err e => .err e | .panic s => .panic s | .ub s => .ub s | .diverge => .diverge

-- src: pe.rs:350-366 / 438-454 the loop of derva_slice_f / deref_slice_f
def sliceFLoopChk (img : Img) (off blen size align : Nat) (stop : Nat → Bool) (fuel : Nat) (len : Nat) : Out Nat :=
  match fuel with
  | 0 => .diverge
  | fuel+1 => do
    -- src: pe.rs:353 / 441 len * mem::size_of::<T>()
    let offset ← pmulUsize "pe.rs:353 len * size_of::<T>()" len size
    -- src: pe.rs:354 / 442 offset + mem::size_of::<T>() > bytes.len()
    let e ← padd64 "pe.rs:354 offset + size_of::<T>()" offset size
    if e > blen then .err .bounds
    else do
      -- src: pe.rs:359-360 / 447-448 f(&*(bytes.as_ptr().offset(offset as isize) as *const T))
      let s ← rawRef "pe.rs:360 &*(bytes.as_ptr().offset(offset) as *const T)" img (off + offset) size align
      if stop (leN img.bytes s.off size) then .ok len
      else do
        -- src: pe.rs:364 / 452 len += 1
        let len' ← padd64 "pe.rs:364 len += 1" len 1
        sliceFLoopChk img off blen size align stop fuel len'

-- src: pe.rs:346-367 derva_slice_f / 434-455 deref_slice_f
def View.dervaSliceFChk (v : View) (a : Addr) (size align : Nat) (stop : Nat → Bool) : Out Ref :=
  match v.atChk a 0 align with
  | .ok r =>
    (match sliceFLoopChk v.img r.off r.len size align stop (r.len + 2) 0 with
     -- src: pe.rs:361 / 449 slice::from_raw_parts(bytes.as_ptr() as *const T, len)   (`n * size` is the extent, not a Rust product)
     | .ok n => rawRef "pe.rs:361 slice::from_raw_parts(bytes.as_ptr() as *const T, len)" v.img r.off (n * size) align
     | .err e => .err e | .panic s => .panic s | .ub s => .ub s | .diverge => .diverge)
  | .err e => .err e | .panic s => .panic s | .ub s => .ub s | .diverge => .diverge

-- src: pe.rs:373-375 derva_slice_s / 461-463 deref_slice_s
def View.dervaSliceSChk (v : View) (a : Addr) (size align sentinel : Nat) : Out Ref :=
  v.dervaSliceFChk a size align (fun x => x == sentinel)

-- src: pe.rs:350-366 / 438-454 the loop of derva_slice_f / deref_slice_f for a STATEFUL callable
-- (`F: FnMut`): `stop len x` is the answer of the call made on element `len` (see `sliceFLoopI`)
def sliceFLoopIChk (img : Img) (off blen size align : Nat) (stop : Nat → Nat → Bool) (fuel : Nat) (len : Nat) : Out Nat :=
  match fuel with
  | 0 => .diverge
  | fuel+1 => do
    -- src: pe.rs:353 / 441 len * mem::size_of::<T>()
    let offset ← pmulUsize "pe.rs:353 len * size_of::<T>()" len size
    -- src: pe.rs:354 / 442 offset + mem::size_of::<T>() > bytes.len()
    let e ← padd64 "pe.rs:354 offset + size_of::<T>()" offset size
    if e > blen then .err .bounds
    else do
      -- src: pe.rs:359-360 / 447-448 f(&*(bytes.as_ptr().offset(offset as isize) as *const T))
      let s ← rawRef "pe.rs:360 &*(bytes.as_ptr().offset(offset) as *const T)" img (off + offset) size align
      if stop len (leN img.bytes s.off size) then .ok len
      else do
        -- src: pe.rs:364 / 452 len += 1
        let len' ← padd64 "pe.rs:364 len += 1" len 1
        sliceFLoopIChk img off blen size align stop fuel len'

-- src: pe.rs:346-367 derva_slice_f / 434-455 deref_slice_f, stateful callable
def View.dervaSliceFIChk (v : View) (a : Addr) (size align : Nat) (stop : Nat → Nat → Bool) : Out Ref :=
  match v.atChk a 0 align with
  | .ok r =>
    (match sliceFLoopIChk v.img r.off r.len size align stop (r.len + 2) 0 with
     -- src: pe.rs:361 / 449 slice::from_raw_parts(bytes.as_ptr() as *const T, len)
     | .ok n => rawRef "pe.rs:361 slice::from_raw_parts(bytes.as_ptr() as *const T, len)" v.img r.off (n * size) align
     | .err e => .err e | .panic s => .panic s | .ub s => .ub s | .diverge => .diverge)
  | .err e => .err e | .panic s => .panic s | .ub s => .ub s | .diverge => .diverge

-- src: c_str.rs:39-42 CStr::from_bytes over the window `[off, off+len)`
def cstrFromBytesChk (img : Img) (off len : Nat) : Out (Option Ref) :=
  match findNul img.bytes off len 0 with                               -- c_str.rs:40 position(..)?
  | some n => do
    -- src: c_str.rs:41 len + 1
    let e ← padd64 "c_str.rs:41 len + 1" n 1
    -- src: c_str.rs:41 bytes.get_unchecked(..len + 1)
    let r ← rawRef "c_str.rs:41 bytes.get_unchecked(..len + 1)" img off e 1
    .ok (some r)
  | none => .ok none

-- src: pe.rs:377-384 derva_c_str / derva_string::<CStr>, 465-472 deref_c_str
def View.dervaCStrChk (v : View) (a : Addr) : Out Ref :=
  match v.atChk a 0 1 with
  | .ok r => (match cstrFromBytesChk v.img r.off r.len with
      | .ok (some c) => .ok c
      | .ok none => .err .encoding
      | .err e => .err e | .panic s => .panic s | .ub s => .ub s | .diverge => .diverge)
  | .err e => .err e | .panic s => .panic s | .ub s => .ub s | .diverge => .diverge

-- src: wide_str.rs:54-61 <WideStr as FromBytes>::from_bytes over the window `[off, off+len)`
def wstrFromBytesChk (img : Img) (off len : Nat) : Out (Option Ref) := do
  -- src: wide_str.rs:56 *p   (`p = bytes.as_ptr() as *const u16`)
  let p ← rawRef "wide_str.rs:56 *(bytes.as_ptr() as *const u16)" img off 2 2
  -- src: wide_str.rs:56 *p as usize + 1
  let n ← padd64 "wide_str.rs:56 *p as usize + 1" (le16 img.bytes p.off) 1
  -- src: wide_str.rs:57 len * 2 > bytes.len()
  let nb ← pmulUsize "wide_str.rs:57 len * 2" n 2
  if nb > len then .ok none
  else do
    -- src: wide_str.rs:60 slice::from_raw_parts(p, len)
    let r ← rawRef "wide_str.rs:60 slice::from_raw_parts(p, len)" img off nb 2
    .ok (some r)

-- src: pe.rs:381-384 derva_string::<WideStr> / 469-472 deref_string::<WideStr>
def View.dervaWStrChk (v : View) (a : Addr) : Out Ref :=
  match v.atChk a 2 2 with
  | .ok r => (match wstrFromBytesChk v.img r.off r.len with
      | .ok (some c) => .ok c
      | .ok none => .err .encoding
      | .err e => .err e | .panic s => .panic s | .ub s => .ub s | .diverge => .diverge)
  | .err e => .err e | .panic s => .panic s | .ub s => .ub s | .diverge => .diverge

/-! ### conversions -/

/-- the copy of file.rs:68-72 / view.rs:125-129 once `dest = vec[doff .. doff+dlen]` and
`src = image[soff .. soff+slen]` exist -/
def copyFitsChk (file : String) (vec image : Bytes) (doff dlen soff slen : Nat) : Out Bytes := do
  let len := min dlen slen                                             -- file.rs:70 / view.rs:127 cmp::min
  -- src: file.rs:71 / view.rs:128 dest[..len]
  let d ← pIndexTo (file ++ " dest[..len]") dlen len
  -- src: file.rs:71 / view.rs:128 &src[..len]
  let s ← pIndexTo (file ++ " &src[..len]") slen len
  -- src: file.rs:71 / view.rs:128 .copy_from_slice(..)
  pCopyLen (file ++ " copy_from_slice") d s
  .ok (blit vec doff image soff len)

-- src: file.rs:64-73 PeFile::to_view (loop body)
def toViewStepChk (image : Bytes) (vec : Bytes) (s : Sec) : Out Bytes :=
  -- src: file.rs:65 vec.get_mut(VirtualAddress as usize..u32::wrapping_add(VirtualAddress, VirtualSize) as usize)
  let dest := getRange vec.size s.va (wadd32 s.va s.vs)
  -- src: file.rs:66 image.get(PointerToRawData as usize..u32::wrapping_add(PointerToRawData, SizeOfRawData) as usize)
  let src := getRange image.size s.prd (wadd32 s.prd s.rs)
  match dest, src with                                                 -- file.rs:68
  | some (doff, dlen), some (soff, slen) => copyFitsChk "file.rs:71" vec image doff dlen soff slen
  | _, _ => .ok vec

/-- the header copy of `to_view` / `to_file` (file.rs:56-61, view.rs:111-116) -/
def copyHeadersChk (file : String) (vec image : Bytes) (soh : Nat) : Out Bytes :=
  -- src: file.rs:58 / view.rs:113 vec.get_unchecked_mut(..sizeof_headers as usize)
  if ¬ soh ≤ vec.size then .ub (file ++ " vec.get_unchecked_mut(..sizeof_headers)")
  -- src: file.rs:59 / view.rs:114 image.get_unchecked(..sizeof_headers as usize)
  else if ¬ soh ≤ image.size then .ub (file ++ " image.get_unchecked(..sizeof_headers)")
  else do
    -- src: file.rs:60 / view.rs:115 dest_headers.copy_from_slice(src_headers)
    pCopyLen (file ++ " dest_headers.copy_from_slice(src_headers)") soh soh
    .ok (blit vec 0 image 0 soh)

/-- `for section in self.section_headers() { .. }` -/
def foldSecsChk (step : Bytes → Sec → Out Bytes) : List Sec → Bytes → Out Bytes
  | [], vec => .ok vec
  | s :: rest, vec => do
    let vec ← step vec s
    foldSecsChk step rest vec

-- src: file.rs:45-76 PeFile::to_view
def View.toViewChk (v : View) : Out Bytes := do
  let soh := sizeOfHeaders v.b
  let soi := sizeOfImage v.b
  let vec : Bytes := Array.replicate soi 0                             -- file.rs:52 vec![0u8; sizeof_image as usize]
  let vec ← copyHeadersChk "file.rs:58" vec v.b soh
  foldSecsChk (toViewStepChk v.b) v.secs vec

-- src: view.rs:119-130 PeView::to_file (loop body)
def toFileStepChk (image : Bytes) (vec : Bytes) (s : Sec) : Out Bytes :=
  -- src: view.rs:121 cmp::min(u32::wrapping_add(PointerToRawData, SizeOfRawData) as usize, vec.len())
  let dend := min (wadd32 s.prd s.rs) vec.size
  -- src: view.rs:122 vec.get_mut(PointerToRawData as usize..dest_end)
  let dest := getRange vec.size s.prd dend
  -- src: view.rs:123 image.get(VirtualAddress as usize..u32::wrapping_add(VirtualAddress, VirtualSize) as usize)
  let src := getRange image.size s.va (wadd32 s.va s.vs)
  match dest, src with                                                 -- view.rs:125
  | some (doff, dlen), some (soff, slen) => copyFitsChk "view.rs:128" vec image doff dlen soff slen
  | _, _ => .ok vec

-- src: view.rs:92-133 PeView::to_file   (`View.fileSize`, view.rs:99-104, has no panicking site:
-- `cmp::max` / `u32::wrapping_add` / `cmp::min`)
def View.toFileChk (v : View) : Out Bytes := do
  let soh := sizeOfHeaders v.b
  let vec : Bytes := Array.replicate v.fileSize 0                      -- view.rs:107 vec![0u8; file_size as usize]
  let vec ← copyHeadersChk "view.rs:113" vec v.b soh
  foldSecsChk (toFileStepChk v.b) v.secs vec

end Pe
end Pelite
