import PeliteModel.Prim.Basic
/-!
Model of the typed addresses: `pe32::Ptr<T>` / `pe64::Ptr<T>` (src/pe64/ptr.rs, compiled twice with
`Va = u32 | u64`) and `Pir<T>` (src/pir.rs, a typed rva, always 32 bits).  A pointer is its address; the
width `w ∈ {32, 64}` stands for the format.  `+` and `*` of the Rust code are the CHECKED operations of a
debug build (panic), `wrapping_add` wraps, `as Va` truncates.
-/
namespace Pelite.PtrT

-- src: ptr.rs:Ptr::member — `va + offset as Va`
def member (w va off : Nat) : Out Nat :=
  if va + off < 2 ^ w then .ok (va + off) else .panic "Ptr::member: attempt to add with overflow"

-- src: ptr.rs:Ptr::offset / pir.rs:Pir::offset — `self.va.wrapping_add(offset as Va)`; `off` = the signed
-- offset in two's complement of `w` bits
def offset (w va off : Nat) : Nat := (va + off) % 2 ^ w

-- src: ptr.rs:Ptr::<[T]>::at / pir.rs:Pir::<[T]>::at — `self.va + (i * size_of::<T>()) as Va`
def elemAt (w va size i : Nat) : Out Nat :=
  if i * size < 2 ^ 64 then                                             -- usize multiplication
    let d := (i * size) % 2 ^ w                                         -- `as Va` truncates for pe32 / Pir
    if va + d < 2 ^ w then .ok (va + d) else .panic "Ptr::at: attempt to add with overflow"
  else .panic "Ptr::at: attempt to multiply with overflow"

def hexDigitL (n : Nat) : Nat := if n < 10 then 48 + n else 87 + n

/-- the `for i in 0..n { va = va.rotate_left(4); digit = va & 0xf }` loop: the `n` nibbles, most significant first -/
def nibbles (va : Nat) : Nat → List Nat
  | 0 => []
  | n + 1 => hexDigitL (va / 16 ^ n % 16) :: nibbles va n

-- src: ptr.rs:Ptr::fmt / pir.rs:Pir::fmt (Display and Debug): `0x` + `w/4` lower-case digits
def text (w va : Nat) : List Nat := [48, 120] ++ nibbles va (w / 4)

end Pelite.PtrT
