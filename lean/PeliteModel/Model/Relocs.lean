import PeliteModel.Prim.Basic
/-!
Model of `src/base_relocs.rs`: `BaseRelocs::{parse, iter_blocks, fold/for_each}`,
`IterBlocks::{peek,next}`, `Block::{words,rva_of,type_of}`, `build`.
The directory is the byte string `data`; `base` is the machine address of its first byte.
-/
namespace Pelite.Relocs

/-- A block as `IterBlocks::peek` hands it out: header at `off` (8 bytes, align 4) and
`nwords` type-offset words at `off + 8` (align 2). -/
structure Block where
  off : Nat
  va : Nat          -- image.VirtualAddress
  size : Nat        -- image.SizeOfBlock
  nwords : Nat
  deriving DecidableEq, Repr

def Block.imageRef (b : Block) : Ref := ⟨b.off, 8, 4⟩
def Block.wordsRef (b : Block) : Ref := ⟨b.off + 8, 2 * b.nwords, 2⟩

-- src: base_relocs.rs:BaseRelocs::parse
def parse (img : Img) : Out Unit :=
  if img.base % 4 = 0 then .ok () else .err .misaligned

-- src: base_relocs.rs:IterBlocks::peek   (`self.data = data[off..]`)
def peek (data : Bytes) (off : Nat) : Option Block :=
  let rem := data.size - off
  if rem ≥ 8 then
    let size := le32 data (off + 4)
    -- cmp::min(SizeOfBlock as usize, data.len()).saturating_sub(8) / 2
    some { off := off, va := le32 data off, size := size, nwords := (min size rem - 8) / 2 }
  else none

/-- how far `IterBlocks::next` advances: `min(align_to(max(SizeOfBlock, 8), 4), data.len())`,
alignment computed in `usize` (after the fix of the u32 wrap-around). -/
-- src: base_relocs.rs:IterBlocks::next
def step (size rem : Nat) : Nat := min (alignTo64 (max size 8) 4) rem

theorem step_pos {size rem : Nat} (hs : size < 4294967296) (h : rem ≥ 8) : 8 ≤ step size rem := by
  unfold step alignTo64 wadd64
  omega

/-- all blocks from offset `off` on (`iter_blocks().collect()`) -/
def blocksFrom (data : Bytes) (off : Nat) : List Block :=
  match h : peek data off with
  | none => []
  | some b =>
    have : data.size - (off + step b.size (data.size - off)) < data.size - off := by
      unfold peek at h
      simp only at h
      split at h
      · cases h
        have := step_pos (size := le32 data (off+4)) (rem := data.size - off) (le32_lt _ _) (by assumption)
        simp only; omega
      · cases h
    b :: blocksFrom data (off + step b.size (data.size - off))
termination_by data.size - off

def blocks (data : Bytes) : List Block := blocksFrom data 0

-- src: base_relocs.rs:Block::rva_of / type_of
def rvaOf (va w : Nat) : Nat := wadd32 va (w % 4096)
def typeOf (w : Nat) : Nat := w / 4096

/-- the words of a block, read from the directory -/
def Block.words (data : Bytes) (b : Block) : List Nat :=
  (List.range b.nwords).map (fun i => le16 data (b.off + 8 + 2 * i))

/-- `fold`/`for_each` and the flattened block iterator: non-padding entries in stored order -/
-- src: base_relocs.rs:BaseRelocs::fold
def flatBlock (data : Bytes) (b : Block) : List (Nat × Nat) :=
  (b.words data).filterMap (fun w => if typeOf w ≠ 0 then some (rvaOf b.va w, typeOf w) else none)

def flat (data : Bytes) : List (Nat × Nat) := (blocks data).flatMap (flatBlock data)

/-! ### build -/

def u16le (x : Nat) : List UInt8 := [UInt8.ofNat (x % 256), UInt8.ofNat (x / 256 % 256)]
def u32le (x : Nat) : List UInt8 :=
  [UInt8.ofNat (x % 256), UInt8.ofNat (x / 256 % 256), UInt8.ofNat (x / 65536 % 256), UInt8.ofNat (x / 16777216 % 256)]

-- src: base_relocs.rs:encode_type_offset   (`rva - base` cannot underflow: the caller checked `rva >= start`)
def encodeTypeOffset (base rva ty : Nat) : Nat := ((rva - base) ||| (ty <<< 12)) % 65536

/-- number of leading pairs whose rva lies in `[start, end]` -/
def runLen (start stop : Nat) : List (Nat × Nat) → Nat
  | [] => 0
  | p :: ps => if start ≤ p.1 ∧ p.1 ≤ stop then runLen start stop ps + 1 else 0

theorem runLen_le (start stop : Nat) (ps : List (Nat × Nat)) : runLen start stop ps ≤ ps.length := by
  induction ps with
  | nil => simp [runLen]
  | cons p ps ih => unfold runLen; split <;> simp <;> omega

/-- one block of `build`: header, `n` encoded words, a zero padding word when `n` is odd -/
def buildBlock (start : Nat) (ps : List (Nat × Nat)) : List UInt8 :=
  let n := ps.length
  let size := alignTo64 (8 + 2 * n) 4
  u32le start ++ u32le size ++ (ps.flatMap (fun p => u16le (encodeTypeOffset start p.1 p.2)))
    ++ (if n % 2 = 1 then u16le 0 else [])

-- src: base_relocs.rs:build   (rvas/types zipped: the function asserts equal lengths)
def buildList : List (Nat × Nat) → List UInt8
  | [] => []
  | p :: ps =>
    let start := p.1 / 4096 * 4096          -- rvas[0] & !0x0fff
    let stop := start + 4095                -- start + 0x0fff   (≤ 0xFFFFFFFF, no overflow)
    let n := runLen start stop (p :: ps)    -- ≥ 1 after the fix (`rvas[n] <= end`)
    buildBlock start ((p :: ps).take n) ++ buildList ((p :: ps).drop n)
termination_by l => l.length
decreasing_by
  have h1 : 1 ≤ runLen (p.1 / 4096 * 4096) (p.1 / 4096 * 4096 + 4095) (p :: ps) := by
    simp only [runLen]
    have : p.1 / 4096 * 4096 ≤ p.1 ∧ p.1 ≤ p.1 / 4096 * 4096 + 4095 := by omega
    simp [this]
  have := runLen_le (p.1 / 4096 * 4096) (p.1 / 4096 * 4096 + 4095) (p :: ps)
  simp only [List.length_drop, List.length_cons] at *
  omega

def build (ps : List (Nat × Nat)) : Bytes := (buildList ps).toArray

end Pelite.Relocs
