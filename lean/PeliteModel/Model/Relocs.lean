import PeliteModel.Prim.Basic
/-!
Model of `src/base_relocs.rs`: `BaseRelocs::{parse, iter_blocks, fold/for_each}`,
`IterBlocks::{peek,next}` (+ the provided `nth`/`count`/`size_hint`), `Block::{words,rva_of,type_of}`, `build`.
The directory is the byte string `data`; `base` is the machine address of its first byte.
-/
namespace Pelite.Relocs

/-- A block as `IterBlocks::peek` hands it out: header at `off` (8 bytes, align 4) and
`nwords` type-offset words at `off + 8` (align 2). -/
structure Block where
  off : Nat
  va : Nat          -- image.VirtualAddress
  size : Nat        -- image.SizeOfBlock
  nwords : Nat
  deriving DecidableEq, Repr

def Block.imageRef (b : Block) : Ref := ⟨b.off, 8, 4⟩
def Block.wordsRef (b : Block) : Ref := ⟨b.off + 8, 2 * b.nwords, 2⟩

-- src: base_relocs.rs:BaseRelocs::parse
def parse (img : Img) : Out Unit :=
  if img.base % 4 = 0 then .ok () else .err .misaligned

-- src: base_relocs.rs:IterBlocks::peek   (`self.data = data[off..]`)
def peek (data : Bytes) (off : Nat) : Option Block :=
  let rem := data.size - off
  if rem ≥ 8 then
    let size := le32 data (off + 4)
    -- cmp::min(SizeOfBlock as usize, data.len()).saturating_sub(8) / 2
    some { off := off, va := le32 data off, size := size, nwords := (min size rem - 8) / 2 }
  else none

/-- how far `IterBlocks::next` advances: `min(align_to(max(SizeOfBlock, 8), 4), data.len())`,
alignment computed in `usize` (after the fix of the u32 wrap-around). -/
-- src: base_relocs.rs:IterBlocks::next
def step (size rem : Nat) : Nat := min (alignTo64 (max size 8) 4) rem

theorem step_pos {size rem : Nat} (hs : size < 4294967296) (h : rem ≥ 8) : 8 ≤ step size rem := by
  unfold step alignTo64 wadd64
  omega

/-- all blocks from offset `off` on (`iter_blocks().collect()`) -/
def blocksFrom (data : Bytes) (off : Nat) : List Block :=
  match h : peek data off with
  | none => []
  | some b =>
    have : data.size - (off + step b.size (data.size - off)) < data.size - off := by
      unfold peek at h
      simp only at h
      split at h
      · cases h
        have := step_pos (size := le32 data (off+4)) (rem := data.size - off) (le32_lt _ _) (by assumption)
        simp only; omega
      · cases h
    b :: blocksFrom data (off + step b.size (data.size - off))
termination_by data.size - off

def blocks (data : Bytes) : List Block := blocksFrom data 0

/-! ### `IterBlocks` as an iterator object

The state of an `IterBlocks` is the slice `self.data = data[off..]`, i.e. the offset `off`.
Only `next` is written by hand in the Rust code; `nth`, `count` and `size_hint` are the provided
methods of `core::iter::Iterator` (loops over `next`), `clone` is derived (copies the slice).
`IterBlocks` implements neither `DoubleEndedIterator` nor `ExactSizeIterator`. -/

/-- `IterBlocks::next` on the state "remaining data starts at `off`": the block and the new state. -/
-- src: base_relocs.rs:IterBlocks::next
def nextBlock (data : Bytes) (off : Nat) : Option (Block × Nat) :=
  match peek data off with
  | none => none
  | some b => some (b, off + step b.size (data.size - off))

theorem nextBlock_decreases {data : Bytes} {off : Nat} {b : Block} {off' : Nat}
    (h : nextBlock data off = some (b, off')) : data.size - off' < data.size - off := by
  unfold nextBlock at h
  cases hp : peek data off with
  | none => rw [hp] at h; cases h
  | some b0 =>
    rw [hp] at h
    cases h
    unfold peek at hp
    simp only at hp
    split at hp
    · cases hp
      have := step_pos (size := le32 data (off+4)) (rem := data.size - off) (le32_lt _ _) (by assumption)
      simp only; omega
    · cases hp

/-- `Iterator::nth` (provided method): `self.advance_by(n).ok()?; self.next()`, where `advance_by`
calls `next` up to `n` times and gives up at the first `None`. -/
-- src: core::iter::Iterator::nth
def nthBlock (data : Bytes) : Nat → Nat → Option Block × Nat
  | off, 0 =>
    match nextBlock data off with
    | none => (none, off)
    | some (b, off') => (some b, off')
  | off, k + 1 =>
    match nextBlock data off with
    | none => (none, off)
    | some (_, off') => nthBlock data off' k

/-- `Iterator::count` (provided method): `self.fold(0, |n, _| n + 1)`, a loop over `next`. -/
-- src: core::iter::Iterator::count
def countBlocks (data : Bytes) (off : Nat) (n : Nat) : Nat :=
  match h : nextBlock data off with
  | none => n
  | some (_, off') =>
    have := nextBlock_decreases h
    countBlocks data off' (n + 1)
termination_by data.size - off

/-- `Iterator::size_hint` (provided method): `(0, None)`. -/
-- src: core::iter::Iterator::size_hint
def sizeHintBlocks (_data : Bytes) (_off : Nat) : Nat × Option Nat := (0, none)

-- src: base_relocs.rs:Block::rva_of / type_of
def rvaOf (va w : Nat) : Nat := wadd32 va (w % 4096)
def typeOf (w : Nat) : Nat := w / 4096

/-- the words of a block, read from the directory -/
def Block.words (data : Bytes) (b : Block) : List Nat :=
  (List.range b.nwords).map (fun i => le16 data (b.off + 8 + 2 * i))

/-- External iteration: what a caller of the block iterator collects with
`for b in iter_blocks() { for w in b.words() { if b.type_of(w) != 0 { push((b.rva_of(w), b.type_of(w))) } } }`
(the non-padding entries in stored order).  The internal iteration `fold`/`for_each` is modelled
separately below; that the two agree is theorem `C14_fold_eq_flat`. -/
-- src: base_relocs.rs:IterBlocks + Block::{words, rva_of, type_of}
def flatBlock (data : Bytes) (b : Block) : List (Nat × Nat) :=
  (b.words data).filterMap (fun w => if typeOf w ≠ 0 then some (rvaOf b.va w, typeOf w) else none)

def flat (data : Bytes) : List (Nat × Nat) := (blocks data).flatMap (flatBlock data)

/-! ### `fold` / `for_each`: internal iteration, the two nested `for` loops of the Rust code -/

/-- inner loop `for word in block.words()` from word index `i` on -/
-- src: base_relocs.rs:BaseRelocs::fold
def foldWords {α : Type} (f : α → Nat → Nat → α) (data : Bytes) (b : Block) (i : Nat) (accum : α) : α :=
  if i < b.nwords then
    let word := le16 data (b.off + 8 + 2 * i)
    let ty := typeOf word                                  -- block.type_of(word)
    if ty ≠ 0 then                                         -- ty != IMAGE_REL_BASED_ABSOLUTE
      foldWords f data b (i + 1) (f accum (rvaOf b.va word) ty)
    else foldWords f data b (i + 1) accum
  else accum
termination_by b.nwords - i

/-- outer loop `for block in self.iter_blocks()` from iterator state `off` on -/
-- src: base_relocs.rs:BaseRelocs::fold
def foldBlocks {α : Type} (f : α → Nat → Nat → α) (data : Bytes) (off : Nat) (accum : α) : α :=
  match h : nextBlock data off with
  | none => accum
  | some (b, off') =>
    have := nextBlock_decreases h
    foldBlocks f data off' (foldWords f data b 0 accum)
termination_by data.size - off

-- src: base_relocs.rs:BaseRelocs::fold
def fold {α : Type} (f : α → Nat → Nat → α) (init : α) (data : Bytes) : α := foldBlocks f data 0 init

/-- `for_each(f)` is `self.fold((), |(), rva, ty| f(rva, ty))`; the `FnMut` closure `f` is a state
transformer over whatever it captured (`σ`). -/
-- src: base_relocs.rs:BaseRelocs::for_each
def forEach {σ : Type} (f : Nat → Nat → σ → σ) (data : Bytes) (s : σ) : σ :=
  (fold (fun (acc : Unit × σ) rva ty => ((), f rva ty acc.2)) ((), s) data).2

/-! ### build -/

def u16le (x : Nat) : List UInt8 := [UInt8.ofNat (x % 256), UInt8.ofNat (x / 256 % 256)]
def u32le (x : Nat) : List UInt8 :=
  [UInt8.ofNat (x % 256), UInt8.ofNat (x / 256 % 256), UInt8.ofNat (x / 65536 % 256), UInt8.ofNat (x / 16777216 % 256)]

-- src: base_relocs.rs:encode_type_offset   (`rva - base` cannot underflow: the caller checked `rva >= start`)
def encodeTypeOffset (base rva ty : Nat) : Nat := ((rva - base) ||| (ty <<< 12)) % 65536

/-- number of leading pairs whose rva lies in `[start, end]` -/
def runLen (start stop : Nat) : List (Nat × Nat) → Nat
  | [] => 0
  | p :: ps => if start ≤ p.1 ∧ p.1 ≤ stop then runLen start stop ps + 1 else 0

theorem runLen_le (start stop : Nat) (ps : List (Nat × Nat)) : runLen start stop ps ≤ ps.length := by
  induction ps with
  | nil => simp [runLen]
  | cons p ps ih => unfold runLen; split <;> simp <;> omega

/-- one block of `build`: header, `n` encoded words, a zero padding word when `n` is odd -/
def buildBlock (start : Nat) (ps : List (Nat × Nat)) : List UInt8 :=
  let n := ps.length
  let size := alignTo64 (8 + 2 * n) 4
  u32le start ++ u32le size ++ (ps.flatMap (fun p => u16le (encodeTypeOffset start p.1 p.2)))
    ++ (if n % 2 = 1 then u16le 0 else [])

-- src: base_relocs.rs:build   (rvas/types zipped: the function asserts equal lengths)
def buildList : List (Nat × Nat) → List UInt8
  | [] => []
  | p :: ps =>
    let start := p.1 / 4096 * 4096          -- rvas[0] & !0x0fff
    let stop := start + 4095                -- start + 0x0fff   (≤ 0xFFFFFFFF, no overflow)
    let n := runLen start stop (p :: ps)    -- ≥ 1 after the fix (`rvas[n] <= end`)
    buildBlock start ((p :: ps).take n) ++ buildList ((p :: ps).drop n)
termination_by l => l.length
decreasing_by
  have h1 : 1 ≤ runLen (p.1 / 4096 * 4096) (p.1 / 4096 * 4096 + 4095) (p :: ps) := by
    simp only [runLen]
    have : p.1 / 4096 * 4096 ≤ p.1 ∧ p.1 ≤ p.1 / 4096 * 4096 + 4095 := by omega
    simp [this]
  have := runLen_le (p.1 / 4096 * 4096) (p.1 / 4096 * 4096 + 4095) (p :: ps)
  simp only [List.length_drop, List.length_cons] at *
  omega

def build (ps : List (Nat × Nat)) : Bytes := (buildList ps).toArray

end Pelite.Relocs
