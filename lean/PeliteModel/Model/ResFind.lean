import PeliteModel.Model.Resources
/-!
Model of `src/resources/find.rs`: lookup by name inside a directory, by path, by
[type, name(, language)], and the manifest / version helpers.  (`icons` / `cursors` need the group
parser and live in `Model/ResGroup.lean`.)

A Rust `Result<T, FindError>` is `Except FindError T`; the surrounding `Out` only carries what is
not a Rust value (`ub`, `panic`, `diverge`) — for the find API `Out.err` never occurs.
Paths are the raw bytes of the `OsStr` (unix).  Core-only imports.
-/
namespace Pelite.Resources

-- src: find.rs:FindError
inductive FindError
  | pe (e : Err)
  | bad8Path
  | notFound
  | noRootPath
  | unDataEntry
  | unDirectory
  deriving DecidableEq, Repr

abbrev FRes (α : Type) := Except FindError α

/-- `x?` on a `pelite::Result` inside a function returning `Result<_, FindError>` (`From<Error>`) -/
def liftE {α β : Type} (x : Out α) (f : α → Out (FRes β)) : Out (FRes β) :=
  match x with
  | .ok a => f a
  | .err e => .ok (.error (.pe e))
  | .panic s => .panic s
  | .ub s => .ub s
  | .diverge => .diverge

/-- `x?` on a `Result<_, FindError>` -/
def bindF {α β : Type} (x : Out (FRes α)) (f : α → Out (FRes β)) : Out (FRes β) :=
  match x with
  | .ok (.ok a) => f a
  | .ok (.error e) => .ok (.error e)
  | .err e => .err e
  | .panic s => .panic s
  | .ub s => .ub s
  | .diverge => .diverge

def okF {α : Type} (a : α) : Out (FRes α) := .ok (.ok a)
def failF {α : Type} (e : FindError) : Out (FRes α) := .ok (.error e)

/-- `entries.find(|de| de.name() == Ok(name))`: an entry whose name cannot be read is skipped -/
def firstMatch (r : Resources) (name : Name) : List DirEntry → Out (Option DirEntry)
  | [] => .ok none
  | e :: rest =>
    match e.getName r with
    | .ok nm => if nm.eq name then .ok (some e) else firstMatch r name rest
    | .err _ => firstMatch r name rest
    | .panic s => .panic s
    | .ub s => .ub s
    | .diverge => .diverge

/-- `self.entries().find(..).ok_or(NotFound)?.entry()` (the common prefix of `get*`) -/
def lookup (r : Resources) (d : Dir) (name : Name) : Out (FRes Entry) :=
  match d.entries r with
  | .ok es =>
    match firstMatch r name es with
    | .ok (some e) => liftE (e.entry r) okF
    | .ok none => failF .notFound
    | .err e => .err e
    | .panic s => .panic s
    | .ub s => .ub s
    | .diverge => .diverge
  | .err e => .err e
  | .panic s => .panic s
  | .ub s => .ub s
  | .diverge => .diverge

def asData : Entry → Out (FRes DataEntry)
  | .data d => okF d
  | .dir _ => failF .unDirectory
def asDir : Entry → Out (FRes Dir)
  | .dir d => okF d
  | .data _ => failF .unDataEntry

-- src: find.rs:Directory::get / get_data / get_dir
def Dir.get (r : Resources) (d : Dir) (name : Name) : Out (FRes Entry) := lookup r d name
def Dir.getData (r : Resources) (d : Dir) (name : Name) : Out (FRes DataEntry) := bindF (lookup r d name) asData
def Dir.getDir (r : Resources) (d : Dir) (name : Name) : Out (FRes Dir) := bindF (lookup r d name) asDir

-- src: find.rs:Directory::first / first_data / first_dir
def Dir.first (r : Resources) (d : Dir) : Out (FRes Entry) :=
  match d.entries r with
  | .ok (e :: _) => liftE (e.entry r) okF
  | .ok [] => failF .notFound
  | .err e => .err e
  | .panic s => .panic s
  | .ub s => .ub s
  | .diverge => .diverge
def Dir.firstData (r : Resources) (d : Dir) : Out (FRes DataEntry) := bindF (d.first r) asData
def Dir.firstDir (r : Resources) (d : Dir) : Out (FRes Dir) := bindF (d.first r) asDir

/-! ### paths (`std::path::Path::iter`, unix) -/

/-- `bytes.split(|b| b == b'/')` -/
def splitSlash (p : List Nat) : List (List Nat) :=
  p.foldr (fun c acc => if c = 47 then [] :: acc else
    match acc with
    | h :: t => (c :: h) :: t
    | [] => [[c]]) [[]]

/-- empty pieces (repeated / trailing separators) and `.` are normalised away -/
def keepPart (p : List Nat) : Bool := p ≠ [] ∧ p ≠ [46]

/-- the first component of `path.iter()` and the components of `iter.as_path()` after it:
a leading `/` is the root component; otherwise the first piece (a leading `.` is kept as `.`). -/
def pathSplit (p : List Nat) : Option (List Nat × List (List Nat)) :=
  match p with
  | [] => none
  | 47 :: _ => some ([47], (splitSlash p).filter keepPart)
  | _ =>
    match splitSlash p with
    | first :: rest => some (first, rest.filter keepPart)
    | [] => none

-- src: find.rs:Directory::find_internal — the `'parts` loop
def findParts (r : Resources) : List (List Nat) → Entry → Out (FRes Entry)
  | [], entry => okF entry
  | part :: rest, entry =>
    match utf8Chars part with                                   -- part.to_str().ok_or(Bad8Path)?
    | none => failF .bad8Path
    | some _ =>
      match entry with
      | .dir d =>
        match d.entries r with
        | .ok es =>
          match firstMatch r (.str part) es with
          | .ok (some child) => liftE (child.entry r) (findParts r rest)
          | .ok none => failF .notFound
          | .err e => .err e
          | .panic s => .panic s
          | .ub s => .ub s
          | .diverge => .diverge
        | .err e => .err e
        | .panic s => .panic s
        | .ub s => .ub s
        | .diverge => .diverge
      | .data _ => failF .unDataEntry

/-- `Directory::find(path)`: every component of the path is a part -/
def dirPathParts (p : List Nat) : List (List Nat) :=
  match pathSplit p with
  | none => []
  | some (first, rest) => first :: rest

-- src: find.rs:Directory::find
def Dir.find (r : Resources) (d : Dir) (p : List Nat) : Out (FRes Entry) := findParts r (dirPathParts p) (.dir d)

-- src: find.rs:Resources::find_internal
def find (r : Resources) (p : List Nat) : Out (FRes Entry) :=
  match pathSplit p with
  | none => failF .notFound                                                 -- the path is empty
  | some (slash, rest) =>
    if slash ≠ [47] ∧ slash ≠ [92] then failF .noRootPath                  -- slash != "/" && slash != "\\"
    else liftE (root r) fun d => findParts r rest (.dir d)

-- src: find.rs:Resources::find_data / find_dir
def findData (r : Resources) (p : List Nat) : Out (FRes DataEntry) := bindF (find r p) asData
def findDir (r : Resources) (p : List Nat) : Out (FRes Dir) := bindF (find r p) asDir

/-! ### by type / name / language -/

-- src: find.rs:Resources::find_resources
def findResources (r : Resources) (ty name : Name) : Out (FRes Dir) :=
  liftE (root r) fun d => bindF (d.getDir r ty) fun t => t.getDir r name

-- src: find.rs:Resources::find_resource
def findResource (r : Resources) (ty name : Name) : Out (FRes Ref) :=
  bindF (findResources r ty name) fun n => bindF (n.firstData r) fun de => liftE (de.bytes r) okF

-- src: find.rs:Resources::find_resource_ex
def findResourceEx (r : Resources) (ty name lang : Name) : Out (FRes Ref) :=
  bindF (findResources r ty name) fun n => bindF (n.getData r lang) fun de => liftE (de.bytes r) okF

def RT_CURSOR : Nat := 1
def RT_ICON : Nat := 3
def RT_GROUP_CURSOR : Nat := 12
def RT_GROUP_ICON : Nat := 14
def RT_VERSION : Nat := 16
def RT_MANIFEST : Nat := 24

/-- the lookup behind `version_info()`: `find_resource(&[Name::VERSION, Name::Id(1)])` -/
def versionBytes (r : Resources) : Out (FRes Ref) := findResource r (.id RT_VERSION) (.id 1)

-- src: find.rs:Resources::version_info — the lookup, then `VersionInfo::try_from` (which only checks
-- that the bytes start at a multiple of 4; the parser itself is module `Version`)
def versionInfo (r : Resources) : Out (FRes Ref) :=
  bindF (versionBytes r) fun b =>
    if (r.base + b.off) % 4 ≠ 0 then failF (.pe .misaligned) else okF ⟨b.off, b.len / 2 * 2, 2⟩

-- src: find.rs:Resources::manifest
def manifest (r : Resources) : Out (FRes Ref) :=
  liftE (root r) fun d => bindF (d.getDir r (.id RT_MANIFEST)) fun m => bindF (m.firstDir r) fun l =>
    bindF (l.firstData r) fun de => liftE (de.bytes r) fun b =>
      match utf8Chars ((bytesAt r.sec b.off b.len).map UInt8.toNat) with      -- str::from_utf8(bytes)?
      | some _ => okF b
      | none => failF (.pe .encoding)

end Pelite.Resources
