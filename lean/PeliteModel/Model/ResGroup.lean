import PeliteModel.Model.ResFind
/-!
Model of `src/resources/group.rs` (`GroupResource::{new, entries, ty, image, write}`) and of the
`icons()` / `cursors()` helpers of `src/resources/find.rs`.
The group bytes are a reference into the resource section (that is where `icons()` finds them).
Core-only imports.
-/
namespace Pelite.Resources

/-- `GroupResource { resources, image }`: `off` = where the 6-byte GRPICONDIR lies, with its
`idType` and `idCount`. -/
structure Group where
  off : Nat
  ty : Nat
  count : Nat
  deriving DecidableEq, Repr

-- src: group.rs:GroupResource::new
def groupNew (r : Resources) (bytes : Ref) : Out Group :=
  if (r.base + bytes.off) % 2 ≠ 0 then .err .misaligned             -- !bytes.as_ptr().aligned_to(2)
  else if bytes.len < 6 then .err .bounds                            -- bytes.len() < size_of::<GRPICONDIR>()
  else
    match rawRef "group.rs:new &*(bytes.as_ptr() as *const GRPICONDIR)" r.img bytes.off 6 2 with
    | .ok _ =>
      let reserved := le16 r.sec bytes.off
      let ty := le16 r.sec (bytes.off + 2)
      let count := le16 r.sec (bytes.off + 4)
      if reserved ≠ 0 ∨ ¬ (ty = 1 ∨ ty = 2) then .err .badMagic
      else if bytes.len ≠ 6 + count * 14 then .err .bounds           -- bytes.len() != total_size
      else .ok ⟨bytes.off, ty, count⟩
    | .err e => .err e
    | .panic s => .panic s
    | .ub s => .ub s
    | .diverge => .diverge

/-- a GRPICONDIRENTRY: where it lies, `bytes_in_resource()` and `nId` -/
structure GroupEntry where
  off : Nat
  bytesInRes : Nat
  nId : Nat
  deriving DecidableEq, Repr

def groupEntryAt (r : Resources) (o : Nat) : GroupEntry :=
  ⟨o, le16 r.sec (o + 10) * 0x10000 + le16 r.sec (o + 8), le16 r.sec (o + 12)⟩   -- Hi * 0x10000 + Lo: fits u32

def groupEntriesFrom (r : Resources) (start : Nat) : Nat → List GroupEntry
  | 0 => []
  | n+1 => groupEntryAt r start :: groupEntriesFrom r (start + 14) n

-- src: group.rs:GroupResource::entries
def Group.entries (r : Resources) (g : Group) : Out (List GroupEntry) :=
  match rawRef "group.rs:entries from_raw_parts" r.img (g.off + 6) (14 * g.count) 2 with
  | .ok _ => .ok (groupEntriesFrom r (g.off + 6) g.count)
  | .err e => .err e
  | .panic s => .panic s
  | .ub s => .ub s
  | .diverge => .diverge

-- src: group.rs:GroupResource::ty + ResourceType::id  (`unreachable!()` for any other idType)
def Group.typeId (g : Group) : Out Nat :=
  if g.ty = 1 then .ok RT_ICON else if g.ty = 2 then .ok RT_CURSOR else .panic "group.rs:ty unreachable!()"

-- src: group.rs:GroupResource::image
def Group.image (r : Resources) (g : Group) (id : Nat) : Out (FRes Ref) :=
  match g.typeId with
  | .ok t =>
    liftE (root r) fun d => bindF (d.getDir r (.id t)) fun td => bindF (td.getDir r (.id id)) fun nd =>
      bindF (nd.firstData r) fun de => liftE (de.bytes r) okF
  | .err e => .err e
  | .panic s => .panic s
  | .ub s => .ub s
  | .diverge => .diverge

def le32Bytes (n : Nat) : List UInt8 :=
  [UInt8.ofNat (n % 256), UInt8.ofNat (n / 256 % 256), UInt8.ofNat (n / 65536 % 256), UInt8.ofNat (n / 16777216 % 256)]

/-- first loop of `write`: per entry the first 12 bytes of the GRPICONDIRENTRY followed by the
running image offset (which replaces `nId` and the two padding bytes); the offset wraps -/
def writeEntries (r : Resources) : List GroupEntry → Nat → List UInt8
  | [], _ => []
  | e :: rest, imageOffset =>
    bytesAt r.sec e.off 12 ++ le32Bytes imageOffset ++ writeEntries r rest (wadd32 imageOffset e.bytesInRes)

/-- second loop of `write`: the image bytes of every entry whose lookup succeeds (errors are skipped) -/
def writeImages (r : Resources) (g : Group) : List GroupEntry → Out (List UInt8)
  | [] => .ok []
  | e :: rest =>
    match g.image r e.nId with
    | .ok res =>
      let here := match res with
        | .ok b => bytesAt r.sec b.off b.len
        | .error _ => []
      match writeImages r g rest with
      | .ok more => .ok (here ++ more)
      | o => o
    | .err e => .err e
    | .panic s => .panic s
    | .ub s => .ub s
    | .diverge => .diverge

-- src: group.rs:GroupResource::write (into a `Vec<u8>`: the writes themselves cannot fail)
def Group.write (r : Resources) (g : Group) : Out (List UInt8) :=
  match g.entries r with
  | .ok es =>
    match writeImages r g es with
    | .ok images => .ok (bytesAt r.sec g.off 6 ++ writeEntries r es (6 + es.length * 16) ++ images)
    | o => o
  | .err e => .err e
  | .panic s => .panic s
  | .ub s => .ub s
  | .diverge => .diverge

/-! ### `write` into a sink that may accept fewer bytes than offered

`write` hands its output to `dest` in a sequence of `dest.write_all(buf)?` calls: the 6 header bytes,
one 16-byte record per entry, then the image bytes of every entry whose lookup succeeds.
`io::Write::write_all` calls `write` until the buffer is empty. -/

/-- the buffers of the `write_all` calls of the first loop (one record per entry) -/
def writeEntryCalls (r : Resources) : List GroupEntry → Nat → List (List UInt8)
  | [], _ => []
  | e :: rest, imageOffset =>
    (bytesAt r.sec e.off 12 ++ le32Bytes imageOffset) :: writeEntryCalls r rest (wadd32 imageOffset e.bytesInRes)

/-- the buffers of the `write_all` calls of the second loop (failed lookups make no call) -/
def writeImageCalls (r : Resources) (g : Group) : List GroupEntry → Out (List (List UInt8))
  | [] => .ok []
  | e :: rest =>
    match g.image r e.nId with
    | .ok res =>
      match writeImageCalls r g rest with
      | .ok more =>
        match res with
        | .ok b => .ok (bytesAt r.sec b.off b.len :: more)
        | .error _ => .ok more
      | o => o
    | .err e => .err e
    | .panic s => .panic s
    | .ub s => .ub s
    | .diverge => .diverge

/-- all `write_all` calls of `write`, in order -/
def Group.writeCalls (r : Resources) (g : Group) : Out (List (List UInt8)) :=
  match g.entries r with
  | .ok es =>
    match writeImageCalls r g es with
    | .ok images => .ok (bytesAt r.sec g.off 6 :: (writeEntryCalls r es (6 + es.length * 16) ++ images))
    | o => o
  | .err e => .err e
  | .panic s => .panic s
  | .ub s => .ub s
  | .diverge => .diverge

/-- what a sink holds after a sequence of calls, and whether `write` returned `Err(WriteZero)` -/
structure SinkState where
  received : List UInt8
  failed : Bool
  deriving DecidableEq, Repr

-- src: std io::Write::write_all on a sink whose `write(buf)` accepts `min(n, buf.len())` bytes:
-- `while !buf.is_empty() { match self.write(buf) { Ok(0) => return Err(WriteZero), Ok(k) => buf = &buf[k..], Err(e) => return Err(e) } }`
def writeAllChunked (n : Nat) : Nat → List UInt8 → List UInt8 → Out SinkState
  | _, sink, [] => .ok ⟨sink, false⟩
  | 0, _, _ :: _ => .diverge
  | fuel+1, sink, b :: bs =>
    if n = 0 then .ok ⟨sink, true⟩
    else writeAllChunked n fuel (sink ++ (b :: bs).take n) ((b :: bs).drop n)

/-- `dest.write_all(buf)?` for every call in turn: the first error ends `write` -/
def feedCalls (n : Nat) : List (List UInt8) → List UInt8 → Out SinkState
  | [], sink => .ok ⟨sink, false⟩
  | buf :: rest, sink =>
    match writeAllChunked n buf.length sink buf with
    | .ok st => if st.failed then .ok st else feedCalls n rest st.received
    | o => o

-- src: group.rs:GroupResource::write into a sink that accepts at most `n` bytes per call
def Group.writeChunked (r : Resources) (g : Group) (n : Nat) : Out SinkState :=
  match g.writeCalls r with
  | .ok calls => feedCalls n calls []
  | .err e => .err e
  | .panic s => .panic s
  | .ub s => .ub s
  | .diverge => .diverge

/-- one item of `icons()` / `cursors()` for a directory entry of the group directory -/
def groupItem (r : Resources) (de : DirEntry) : Out (FRes (Name × Group)) :=
  liftE (de.getName r) fun name =>
    liftE (de.entry r) fun e => bindF (asDir e) fun d => bindF (d.firstData r) fun data =>
      liftE (data.bytes r) fun bytes => liftE (groupNew r bytes) fun g => okF (name, g)

def groupItems (r : Resources) : List DirEntry → Out (List (FRes (Name × Group)))
  | [] => .ok []
  | de :: rest =>
    match groupItem r de with
    | .ok item =>
      match groupItems r rest with
      | .ok more => .ok (item :: more)
      | o => o
    | .err e => .err e
    | .panic s => .panic s
    | .ub s => .ub s
    | .diverge => .diverge

/-- `root().and_then(|root| root.get_dir(ty))` then `.into_iter().flat_map(..)`: when the group
directory is not found (for whatever reason) the iterator is empty -/
def groups (r : Resources) (ty : Nat) : Out (List (FRes (Name × Group))) :=
  match liftE (root r) fun d => d.getDir r (.id ty) with
  | .ok (.ok gd) =>
    match gd.entries r with
    | .ok es => groupItems r es
    | .err e => .err e
    | .panic s => .panic s
    | .ub s => .ub s
    | .diverge => .diverge
  | .ok (.error _) => .ok []
  | .err e => .err e
  | .panic s => .panic s
  | .ub s => .ub s
  | .diverge => .diverge

-- src: find.rs:Resources::icons / cursors
def icons (r : Resources) : Out (List (FRes (Name × Group))) := groups r RT_GROUP_ICON
def cursors (r : Resources) : Out (List (FRes (Name × Group))) := groups r RT_GROUP_CURSOR

end Pelite.Resources
