import PeliteModel.Prim.Basic
import PeliteModel.Model.Pe
/-!
Model of `src/resources/mod.rs` (Resources, Directory, DirectoryEntry, DataEntry, Name, fsck),
`src/resources/art.rs` (the tree printer behind `Display`) and `Pe::resources` (src/pe64/pe.rs).

The resource section is a byte string plus the directory RVA and the machine address of its
byte 0.  Every `&*(p as *const T)` / `from_raw_parts` of the Rust code goes through `rawRef`
(bounds + alignment of the *address*), so a check the Rust code does not make shows up as `ub`.
Offsets, counts and field values are `Nat`s read with `le16` / `le32`.
Core-only imports.
-/
namespace Pelite.Resources

/-- `Resources { section, dir }`: `sec` = the section bytes, `dirVA` = `dir.VirtualAddress`,
`base` = machine address of `section[0]`. -/
structure Resources where
  sec : Bytes
  dirVA : Nat
  base : Nat

def Resources.img (r : Resources) : Img := ⟨r.sec, r.base⟩

/-- `bytes[off .. off+len]` as a list (only used on ranges established to be inside). -/
def bytesAt (b : Bytes) (off len : Nat) : List UInt8 := (List.range len).map fun i => b.getD (off + i) 0

/-- `n` little-endian u16 words starting at `off` -/
def wordsAt (b : Bytes) (off n : Nat) : List Nat := (List.range n).map fun i => le16 b (off + 2 * i)

/-! ### `Pe::resources` -/

-- src: pe.rs:Pe::resources — data directory 2, `slice(va, 0, align_of::<IMAGE_RESOURCE_DIRECTORY>())`,
-- clamped to the directory `Size`.  Also returns where the section starts in the image buffer.
def ofView (v : Pe.View) : Out (Resources × Nat) :=
  match v.dataDir 2 with
  | none => .err .null
  | some (va, size) =>
    match v.slice va 0 4 with
    | .ok ref =>
      let n := min size ref.len
      .ok (⟨v.b.extract ref.off (ref.off + n), va, v.img.base + ref.off⟩, ref.off)
    | .err e => .err e
    | .panic s => .panic s
    | .ub s => .ub s
    | .diverge => .diverge

/-! ### raw slices -/

-- src: mod.rs:Resources::slice::<T>  (`size` = size_of::<T>(), `align` = align_of::<T>(), a power of two)
def slice (r : Resources) (site : String) (off size align : Nat) : Out Ref :=
  if off % align ≠ 0 then .err .misaligned               -- start & (align_of - 1) != 0
  else if off + size > r.sec.size then .err .bounds       -- section.get(start..end)
  else rawRef site r.img off size align                   -- &*(bytes.as_ptr() as *const T)

-- src: mod.rs:Resources::slice_ws — returns the reference to the words (after the length prefix)
def sliceWs (r : Resources) (off : Nat) : Out Ref :=
  if off % 2 ≠ 0 then .err .misaligned
  else if off + 2 > r.sec.size then .err .bounds          -- section.get(offset..offset + 2)
  else
    match rawRef "mod.rs:slice_ws *(len.as_ptr() as *const u16)" r.img off 2 2 with
    | .ok _ =>
      let len := le16 r.sec off
      if off + 2 + len * 2 > r.sec.size then .err .bounds   -- section.get(offset + 2..offset + 2 + len * 2)
      else rawRef "mod.rs:slice_ws from_raw_parts" r.img (off + 2) (len * 2) 2
    | .err e => .err e
    | .panic s => .panic s
    | .ub s => .ub s
    | .diverge => .diverge

/-! ### Directory -/

/-- `Directory { resources, image }`: `off` = where the 16-byte IMAGE_RESOURCE_DIRECTORY lies,
`named` / `ids` = its NumberOfNamedEntries / NumberOfIdEntries. -/
structure Dir where
  off : Nat
  named : Nat
  ids : Nat
  deriving DecidableEq, Repr

def Dir.ref (d : Dir) : Ref := ⟨d.off, 16, 4⟩

-- src: mod.rs:Directory::try_from
def dirTryFrom (r : Resources) (off : Nat) : Out Dir :=
  match slice r "mod.rs:slice IMAGE_RESOURCE_DIRECTORY" off 16 4 with
  | .ok _ =>
    let named := le16 r.sec (off + 12)
    let ids := le16 r.sec (off + 14)
    let entriesSize := (named + ids) * 8
    let entriesOffset := off + 16
    if entriesSize > r.sec.size - entriesOffset then .err .bounds    -- no underflow: the header is inside
    else .ok ⟨off, named, ids⟩
  | .err e => .err e
  | .panic s => .panic s
  | .ub s => .ub s
  | .diverge => .diverge

-- src: mod.rs:Resources::root
def root (r : Resources) : Out Dir := dirTryFrom r 0

/-- `DirectoryEntry { resources, image }`: `off` = where the 8-byte IMAGE_RESOURCE_DIRECTORY_ENTRY
lies, `name` / `offset` = its two u32 fields. -/
structure DirEntry where
  off : Nat
  name : Nat
  offset : Nat
  deriving DecidableEq, Repr

def DirEntry.ref (e : DirEntry) : Ref := ⟨e.off, 8, 4⟩

def entryAt (r : Resources) (o : Nat) : DirEntry := ⟨o, le32 r.sec o, le32 r.sec (o + 4)⟩

/-- the `n` consecutive entry records starting at `start` -/
def entriesFrom (r : Resources) (start : Nat) : Nat → List DirEntry
  | 0 => []
  | n+1 => entryAt r start :: entriesFrom r (start + 8) n

/-- `slice::from_raw_parts(p, len)` over entry records, then `.iter().map(..)` -/
def entrySlice (r : Resources) (site : String) (start n : Nat) : Out (List DirEntry) :=
  match rawRef site r.img start (8 * n) 4 with
  | .ok _ => .ok (entriesFrom r start n)
  | .err e => .err e
  | .panic s => .panic s
  | .ub s => .ub s
  | .diverge => .diverge

-- src: mod.rs:Directory::entries
def Dir.entries (r : Resources) (d : Dir) : Out (List DirEntry) :=
  entrySlice r "mod.rs:entries from_raw_parts" (d.off + 16) (d.named + d.ids)
-- src: mod.rs:Directory::named_entries
def Dir.namedEntries (r : Resources) (d : Dir) : Out (List DirEntry) :=
  entrySlice r "mod.rs:named_entries from_raw_parts" (d.off + 16) d.named
-- src: mod.rs:Directory::id_entries
def Dir.idEntries (r : Resources) (d : Dir) : Out (List DirEntry) :=
  entrySlice r "mod.rs:id_entries from_raw_parts" (d.off + 16 + 8 * d.named) d.ids

/-! ### Name -/

/-- `Name::Id(u32) | Name::Wide(&[u16]) | Name::Str(&str)`; a `&str` is its UTF-8 bytes. -/
inductive Name
  | id (n : Nat)
  | wide (ws : List Nat)
  | str (s : List Nat)
  deriving DecidableEq, Repr

/-- one item of `char::decode_utf16`: a scalar value or the unpaired surrogate -/
inductive U16Item
  | ok (c : Nat)
  | bad (u : Nat)
  deriving DecidableEq, Repr

/-- `core::char::decode_utf16` (DecodeUtf16::next): a non-surrogate is itself; a trailing surrogate
is an error; a leading surrogate followed by a trailing one is the pair, else an error and the
follower is decoded again. -/
def decodeUtf16 : List Nat → List U16Item
  | [] => []
  | [u] => if u < 0xD800 ∨ 0xE000 ≤ u then [.ok u] else [.bad u]
  | u :: u2 :: rest =>
    if u < 0xD800 ∨ 0xE000 ≤ u then .ok u :: decodeUtf16 (u2 :: rest)
    else if 0xDC00 ≤ u then .bad u :: decodeUtf16 (u2 :: rest)
    else if u2 < 0xDC00 ∨ 0xDFFF < u2 then .bad u :: decodeUtf16 (u2 :: rest)
    else .ok ((u % 0x400) * 0x400 + u2 % 0x400 + 0x10000) :: decodeUtf16 rest

def isCont (b : Nat) : Bool := 0x80 ≤ b ∧ b ≤ 0xBF

/-- `str::from_utf8` + `.chars()`: the scalar values of a well-formed UTF-8 byte string
(Unicode table 3-7: no overlong forms, no surrogates, nothing above U+10FFFF), else `none`. -/
def utf8Chars : List Nat → Option (List Nat)
  | [] => some []
  | b0 :: rest =>
    if b0 < 0x80 then (utf8Chars rest).map (b0 :: ·)
    else if 0xC2 ≤ b0 ∧ b0 ≤ 0xDF then
      match rest with
      | b1 :: rest1 =>
        if isCont b1 then (utf8Chars rest1).map (((b0 - 0xC0) * 64 + (b1 - 0x80)) :: ·) else none
      | _ => none
    else if 0xE0 ≤ b0 ∧ b0 ≤ 0xEF then
      match rest with
      | b1 :: b2 :: rest2 =>
        let lo := if b0 = 0xE0 then 0xA0 else 0x80
        let hi := if b0 = 0xED then 0x9F else 0xBF
        if lo ≤ b1 ∧ b1 ≤ hi ∧ isCont b2 then
          (utf8Chars rest2).map (((b0 - 0xE0) * 4096 + (b1 - 0x80) * 64 + (b2 - 0x80)) :: ·)
        else none
      | _ => none
    else if 0xF0 ≤ b0 ∧ b0 ≤ 0xF4 then
      match rest with
      | b1 :: b2 :: b3 :: rest3 =>
        let lo := if b0 = 0xF0 then 0x90 else 0x80
        let hi := if b0 = 0xF4 then 0x8F else 0xBF
        if lo ≤ b1 ∧ b1 ≤ hi ∧ isCont b2 ∧ isCont b3 then
          (utf8Chars rest3).map (((b0 - 0xF0) * 262144 + (b1 - 0x80) * 4096 + (b2 - 0x80) * 64 + (b3 - 0x80)) :: ·)
        else none
      | _ => none
    else none
termination_by l => l.length

/-- `string.chars()` of a `&str` held as bytes (a `&str` is valid by its type) -/
def strChars (s : List Nat) : List Nat := (utf8Chars s).getD []

/-- the accumulation loop of `from_str_radix` (radix 10, u32): every byte a digit, no overflow -/
def parseDigits : List Nat → Nat → Option Nat
  | [], acc => some acc
  | c :: rest, acc =>
    if 48 ≤ c ∧ c ≤ 57 then
      let v := acc * 10 + (c - 48)          -- checked_mul(10) then checked_add(digit)
      if v < 4294967296 then parseDigits rest v else none
    else none

/-- `str::parse::<u32>()` (core::num::from_str_radix): empty → Err; a lone sign → Err; one leading
`+` is skipped (`-` is not, the type is unsigned); then `parseDigits`. -/
def parseU32 (s : List Nat) : Option Nat :=
  match s with
  | [] => none
  | [c] => if c = 43 ∨ c = 45 then none else parseDigits [c] 0
  | c :: rest => if c = 43 then parseDigits rest 0 else parseDigits (c :: rest) 0

def asc (s : String) : List Nat := s.toList.map Char.toNat

-- src: mod.rs:RSRC_TYPES (transcribed by hand; `Thm/C12.lean` compares it with the RT_* names)
def rsrcTypes : List (Option (List Nat)) := [
  none, some (asc "#CURSOR"), some (asc "#BITMAP"), some (asc "#ICON"), some (asc "#MENU"),
  some (asc "#DIALOG"), some (asc "#STRING"), some (asc "#FONTDIR"), some (asc "#FONT"), some (asc "#ACCELERATOR"),
  some (asc "#RCDATA"), some (asc "#MESSAGETABLE"), some (asc "#GROUP_CURSOR"), none, some (asc "#GROUP_ICON"),
  none, some (asc "#VERSION"), some (asc "#DLGINCLUDE"), none, some (asc "#PLUGPLAY"),
  some (asc "#VXD"), some (asc "#ANICURSOR"), some (asc "#ANIICON"), some (asc "#HTML"), some (asc "#MANIFEST")]

/-- `names.get(id as usize)` flattened: `Some(&Some(name))` ↦ `some name` -/
def typeName (names : List (Option (List Nat))) (id : Nat) : Option (List Nat) :=
  match names[id]? with
  | some (some n) => some n
  | _ => none

-- src: mod.rs:Name::eq_string
def Name.eqString (self : Name) (s : List Nat) : Bool :=
  match self with
  | .id n =>
    if ¬ (s.length ≥ 2 ∧ s.getD 0 0 = 35) then false            -- string.len() >= 2 && bytes[0] == b'#'
    else if s.getD 1 0 > 48 ∧ s.getD 1 0 ≤ 57 then                -- bytes[1] > b'0' && bytes[1] <= b'9'
      match parseU32 (s.drop 1) with                              -- string[1..].parse::<u32>()
      | some v => n = v
      | none => false
    else
      match typeName rsrcTypes n with
      | some name => s = name
      | none => false
  | .wide ws => decodeUtf16 ws = (strChars s).map .ok             -- decode_utf16(words).eq(string.chars().map(Ok))
  | .str name => s = name

-- src: mod.rs:impl PartialEq for Name
def Name.eq (self rhs : Name) : Bool :=
  match self, rhs with
  | .id a, .id b => a = b
  | .id _, .wide _ => false
  | .wide a, .wide b => a = b
  | .wide _, .id _ => false
  | .str l, rhs => rhs.eqString l
  | lhs, .str r => lhs.eqString r

-- src: mod.rs:Name::rename_id
def Name.renameId (self : Name) (names : List (Option (List Nat))) : Name :=
  match self with
  | .id n =>
    match typeName names n with
    | some nm => .str nm
    | none => self
  | _ => self

/-- decimal digits of `n` as characters (`write!(f, "{}", id)`) -/
def decimal (n : Nat) : List Nat := (Nat.toDigits 10 n).map Char.toNat

-- src: mod.rs:impl Display for Name — the characters written
def Name.display : Name → List Nat
  | .id n => 35 :: decimal n
  | .wide ws => (decodeUtf16 ws).map fun | .ok c => c | .bad _ => 0xFFFD
  | .str s => strChars s

/-! ### DirectoryEntry, DataEntry -/

/-- `DataEntry { resources, image }`: where the 16-byte IMAGE_RESOURCE_DATA_ENTRY lies and its fields -/
structure DataEntry where
  off : Nat
  offsetToData : Nat
  size : Nat
  codePage : Nat
  deriving DecidableEq, Repr

def DataEntry.ref (d : DataEntry) : Ref := ⟨d.off, 16, 4⟩

inductive Entry
  | dir (d : Dir)
  | data (d : DataEntry)
  deriving DecidableEq, Repr

/-- the reference behind `Name::Wide` (`none` for an id) -/
def DirEntry.nameRef (r : Resources) (e : DirEntry) : Out (Option Ref) :=
  if e.name ≥ 0x80000000 then                       -- Name & 0x80000000 != 0
    match sliceWs r (e.name % 0x80000000) with      -- Name & !0x80000000 (Name < 2^32)
    | .ok w => .ok (some w)
    | .err e => .err e
    | .panic s => .panic s
    | .ub s => .ub s
    | .diverge => .diverge
  else .ok none

-- src: mod.rs:DirectoryEntry::name
def DirEntry.getName (r : Resources) (e : DirEntry) : Out Name :=
  match e.nameRef r with
  | .ok (some w) => .ok (.wide (wordsAt r.sec w.off (w.len / 2)))
  | .ok none => .ok (.id e.name)
  | .err e => .err e
  | .panic s => .panic s
  | .ub s => .ub s
  | .diverge => .diverge

-- src: mod.rs:DirectoryEntry::is_dir
def DirEntry.isDir (e : DirEntry) : Bool := e.offset ≥ 0x80000000

-- src: mod.rs:DataEntry::try_from
def dataTryFrom (r : Resources) (off : Nat) : Out DataEntry :=
  match slice r "mod.rs:slice IMAGE_RESOURCE_DATA_ENTRY" off 16 4 with
  | .ok _ => .ok ⟨off, le32 r.sec off, le32 r.sec (off + 4), le32 r.sec (off + 8)⟩
  | .err e => .err e
  | .panic s => .panic s
  | .ub s => .ub s
  | .diverge => .diverge

-- src: mod.rs:DirectoryEntry::entry
def DirEntry.entry (r : Resources) (e : DirEntry) : Out Entry :=
  if e.isDir then
    match dirTryFrom r (e.offset % 0x80000000) with     -- Offset & !0x80000000 (Offset < 2^32)
    | .ok d => .ok (.dir d)
    | .err e => .err e
    | .panic s => .panic s
    | .ub s => .ub s
    | .diverge => .diverge
  else
    match dataTryFrom r e.offset with
    | .ok d => .ok (.data d)
    | .err e => .err e
    | .panic s => .panic s
    | .ub s => .ub s
    | .diverge => .diverge

-- src: mod.rs:DataEntry::bytes
def DataEntry.bytes (r : Resources) (d : DataEntry) : Out Ref :=
  if d.offsetToData < r.dirVA then .err .overflow                  -- u32::checked_sub
  else
    let start := d.offsetToData - r.dirVA
    if start + d.size ≥ 4294967296 then .err .overflow              -- u32::checked_add
    else if start + d.size > r.sec.size then .err .bounds           -- section.get(start..end)
    else .ok ⟨start, d.size, 1⟩

-- src: mod.rs:DataEntry::size / code_page
def DataEntry.sizeOf (d : DataEntry) : Nat := d.size
def DataEntry.codePageOf (d : DataEntry) : Nat := d.codePage

/-! ### fsck

`fsck_(depth, budget)` recurses with `depth + 1` and fails at `depth >= FSCK_MAX_DEPTH`; the model
counts the remaining depth `k = FSCK_MAX_DEPTH - depth` down, which makes the recursion structural.
The visit budget is threaded through and returned. -/

def FSCK_MAX_DEPTH : Nat := 32

-- src: mod.rs:Resources::fsck_budget
def fsckBudget (r : Resources) : Nat := r.sec.size / 16

-- src: mod.rs:DataEntry::fsck
def DataEntry.fsck (r : Resources) (d : DataEntry) : Out Unit :=
  match d.bytes r with
  | .ok _ => .ok ()
  | .err e => .err e
  | .panic s => .panic s
  | .ub s => .ub s
  | .diverge => .diverge

/-- `self.entries().try_for_each(|e| e.fsck_(depth, budget))` with `DirectoryEntry::fsck_` inlined;
`rec` is `Directory::fsck_` at `depth + 1`. -/
def fsckEntries (rec : Dir → Nat → Out Nat) (r : Resources) : List DirEntry → Nat → Out Nat
  | [], b => .ok b
  | e :: rest, b =>
    match e.getName r with                                  -- self.name()?
    | .ok _ =>
      match e.entry r with                                  -- self.entry()?
      | .ok (.dir d) =>
        match rec d b with                                  -- dir.fsck_(depth + 1, budget)
        | .ok b' => fsckEntries rec r rest b'
        | o => o
      | .ok (.data de) =>
        match de.fsck r with                                -- data.fsck()
        | .ok _ => fsckEntries rec r rest b
        | .err e => .err e
        | .panic s => .panic s
        | .ub s => .ub s
        | .diverge => .diverge
      | .err e => .err e
      | .panic s => .panic s
      | .ub s => .ub s
      | .diverge => .diverge
    | .err e => .err e
    | .panic s => .panic s
    | .ub s => .ub s
    | .diverge => .diverge

-- src: mod.rs:Directory::fsck_ with `k = FSCK_MAX_DEPTH - depth`; returns the remaining budget
def fsckDir (r : Resources) : Nat → Dir → Nat → Out Nat
  | 0, _, _ => .err .insanity                               -- depth >= FSCK_MAX_DEPTH
  | k+1, d, b =>
    if b = 0 then .err .insanity                            -- *budget == 0
    else
      match d.entries r with
      | .ok es => fsckEntries (fsckDir r k) r es (b - 1)    -- *budget -= 1
      | .err e => .err e
      | .panic s => .panic s
      | .ub s => .ub s
      | .diverge => .diverge

def unitOf : Out Nat → Out Unit
  | .ok _ => .ok ()
  | .err e => .err e
  | .panic s => .panic s
  | .ub s => .ub s
  | .diverge => .diverge

-- src: mod.rs:Directory::fsck
def Dir.fsck (r : Resources) (d : Dir) : Out Unit := unitOf (fsckDir r FSCK_MAX_DEPTH d (fsckBudget r))

-- src: mod.rs:DirectoryEntry::fsck  (`fsck_(0, budget)`: a sub-directory is checked at depth 1)
def DirEntry.fsck (r : Resources) (e : DirEntry) : Out Unit :=
  unitOf (fsckEntries (fsckDir r (FSCK_MAX_DEPTH - 1)) r [e] (fsckBudget r))

-- src: mod.rs:Resources::fsck
def fsck (r : Resources) : Out Unit :=
  match root r with
  | .ok d => d.fsck r
  | .err e => .err e
  | .panic s => .panic s
  | .ub s => .ub s
  | .diverge => .diverge

/-! ### the tree printer (art.rs), `TreeArt::Ascii` -/

-- src: error.rs:Error::to_str — the wording of the messages is not modelled: the harness replaces each
-- message by this canonical token before comparing (a reworded message is not a disagreement)
def errText : Err → List Nat
  | .null => asc "<E:Null>" | .bounds => asc "<E:Bounds>"
  | .zeroFill => asc "<E:ZeroFill>" | .unmapped => asc "<E:Unmapped>"
  | .misaligned => asc "<E:Misaligned>" | .badMagic => asc "<E:BadMagic>"
  | .peMagic => asc "<E:PeMagic>" | .insanity => asc "<E:Insanity>"
  | .invalid => asc "<E:Invalid>" | .overflow => asc "<E:Overflow>"
  | .encoding => asc "<E:Encoding>" | .aliasing => asc "<E:Aliasing>"

/-- `for open in (0..depth).map(|i| margin & (1 << i) != 0)`: "    " when open, "|   " otherwise -/
def marginText (depth margin : Nat) : List Nat :=
  (List.range depth).flatMap fun i => if margin.testBit i then asc "    " else asc "|   "

/-- the loop body of `draw_` over the remaining entries; `rec` draws a sub-directory at `depth + 1`
with the given margin and budget.  Returns the text — one record per entry drawn, in output order:
margin, prefix, name, `/` for a directory, newline — and the remaining budget (the `Cell`). -/
def drawEntries (rec : Dir → Nat → Nat → Out (List (List Nat) × Nat)) (r : Resources) (depth margin : Nat) (isRoot : Bool) :
    List DirEntry → Nat → Out (List (List Nat) × Nat)
  | [], b => .ok ([], b)
  | e :: rest, b =>
    let tail := rest.isEmpty                                     -- entries.len() == 0
    let pre := marginText depth margin ++ (if tail then asc "`-- " else asc "+-- ")
    let nameOut : Out (List Nat) :=
      match e.getName r with
      | .ok nm => .ok (nm.renameId (if isRoot then rsrcTypes else [])).display
      | .err err => .ok (errText err)
      | .panic s => .panic s
      | .ub s => .ub s
      | .diverge => .diverge
    match nameOut with
    | .ok nameS =>
      let line := pre ++ nameS ++ (if e.isDir then [47, 10] else [10])
      let sub : Out (List (List Nat) × Nat) :=
        match e.entry r with
        | .ok (.dir d) => rec d (margin ||| (if tail then 2 ^ depth else 0)) b
        | .ok (.data _) => .ok ([], b)
        | .err _ => .ok ([], b)
        | .panic s => .panic s
        | .ub s => .ub s
        | .diverge => .diverge
      match sub with
      | .ok (subText, b1) =>
        match drawEntries rec r depth margin isRoot rest b1 with
        | .ok (more, b2) => .ok (line :: (subText ++ more), b2)
        | o => o
      | o => o
    | .err e => .err e
    | .panic s => .panic s
    | .ub s => .ub s
    | .diverge => .diverge

-- src: art.rs:TreeFmt::draw_ with `k = 32 - depth`
def drawDir (r : Resources) : Nat → Bool → Dir → Nat → Nat → Out (List (List Nat) × Nat)
  | 0, _, _, _, b => .ok ([], b)                                  -- depth >= 32: quiet failsafe
  | k+1, isRoot, d, margin, b =>
    if b = 0 then .ok ([], b)                                     -- budget.get() == 0
    else
      match d.entries r with
      | .ok es => drawEntries (fun d' m b' => drawDir r k false d' m b') r (31 - k) margin isRoot es (b - 1)
      | .err e => .err e
      | .panic s => .panic s
      | .ub s => .ub s
      | .diverge => .diverge

def textOf : Out (List (List Nat) × Nat) → Out (List Nat)
  | .ok (t, _) => .ok t.flatten
  | .err e => .err e
  | .panic s => .panic s
  | .ub s => .ub s
  | .diverge => .diverge

-- src: art.rs:impl Display for Directory
def Dir.display (r : Resources) (d : Dir) : Out (List Nat) :=
  match textOf (drawDir r 32 false d 0 (fsckBudget r)) with
  | .ok t => .ok (asc "Directory/\n" ++ t)
  | o => o

-- src: art.rs:impl Display for Resources
def display (r : Resources) : Out (List Nat) :=
  match root r with
  | .ok d =>
    match textOf (drawDir r 32 true d 0 (fsckBudget r)) with
    | .ok t => .ok (asc "Resources/\n" ++ t)
    | o => o
  | .err e => .ok (asc "Resources/\n" ++ errText e)
  | .panic s => .panic s
  | .ub s => .ub s
  | .diverge => .diverge

end Pelite.Resources
