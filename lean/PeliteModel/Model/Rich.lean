import PeliteModel.Prim.Basic
/-!
Model of `src/rich_structure.rs` (`RichStructure`, `RichRecord`, `RichIter`) and of the `u32`
reinterpretation in `Pe::rich_structure` (src/pe64/pe.rs).

An image is seen as a list of dwords (`Nat`, each `< 2^32`).  A `RichStructure` is the pair of
slices the Rust struct holds.  Every indexing / slicing / checked arithmetic operation of the Rust
code has its own failure branch (`Out.panic`) so that "never panics" is a theorem, not an assumption.
Core-only imports.
-/
namespace Pelite.Rich

def DANS : Nat := 0x536e6144   -- DANS_MARKER "DanS"
def RICH : Nat := 0x68636952   -- RICH_MARKER "Rich"
def USZ : Nat := 18446744073709551616   -- 2^64 (usize)

/-- `image[i]` on a `&[u32]`: panics when out of range. -/
def idx (site : String) (ws : List Nat) (i : Nat) : Out Nat :=
  match ws[i]? with
  | some v => .ok v
  | none => .panic site

/-- `a * b` on u32 (checked build). -/
def pmul32 (site : String) (a b : Nat) : Out Nat := if a * b < 4294967296 then .ok (a * b) else .panic site
/-- `a * b` on usize (checked build). -/
def pmul64 (site : String) (a b : Nat) : Out Nat := if a * b < USZ then .ok (a * b) else .panic site

/-- `u32::rotate_left(x, n)`: the shift distance is `n mod 32`. -/
def rotl32 (x n : Nat) : Nat :=
  ((x <<< (n % 32)) % 4294967296) ||| (x >>> (32 - n % 32))

/-! ### RichRecord -/

/-- `RichRecord { build: u16, product: u16, count: u32 }` -/
structure Record where
  build : Nat
  product : Nat
  count : Nat
  deriving DecidableEq, Repr

/-- the field ranges the Rust types impose -/
def Record.WF (r : Record) : Prop := r.build < 65536 ∧ r.product < 65536 ∧ r.count < 4294967296

instance (r : Record) : Decidable r.WF := by unfold Record.WF; infer_instance

-- src: rich_structure.rs:RichRecord::decode
def Record.decode (key v0 v1 : Nat) : Record :=
  let field := v0 ^^^ key
  let build := field &&& 0xffff
  let product := (field >>> 16) &&& 0xffff
  let count := v1 ^^^ key
  ⟨build, product, count⟩

/-- `(product as u32) << 16 | (build as u32)` (no bit is shifted out: `product < 2^16`) -/
def Record.value (r : Record) : Nat := (r.product <<< 16) ||| r.build

-- src: rich_structure.rs:RichRecord::encode
def Record.encode (r : Record) (key : Nat) : Nat × Nat :=
  (r.value ^^^ key, r.count ^^^ key)

/-! ### RichStructure::try_from -/

/-- `RichStructure { dos_stub: &[u32], image: &[u32] }`; `dos_stub = &area[..start]`,
`image = &area[start..end]`, so `start = dosStub.length`, `end = dosStub.length + image.length`. -/
structure RichS where
  dosStub : List Nat
  image : List Nat
  deriving DecidableEq, Repr

def RichS.start (r : RichS) : Nat := r.dosStub.length
def RichS.end_ (r : RichS) : Nat := r.dosStub.length + r.image.length

/-- src: rich_structure.rs:try_from, first loop ("Skip the padding zeroes"), `e` = `end`. -/
def skipPad (img : List Nat) (e : Nat) : Out Nat :=
  if e < 16 then .err .invalid
  else
    match img[e - 1]? with                   -- `end - 1`: no underflow, 16 ≤ end
    | none => .panic "rich_structure.rs:47 image[end - 1]"
    | some v =>
      if v ≠ 0 then .ok e
      else skipPad img (e - 1)               -- `end -= 1`
termination_by e
decreasing_by omega

/-- the short-circuit test `image[start] == dx && image[start+1] == x && image[start+2] == x && image[start+3] == x` -/
def hdrAt (img : List Nat) (x dx s : Nat) : Out Bool :=
  match img[s]? with
  | none => .panic "rich_structure.rs:67 image[start]"
  | some a =>
    if a ≠ dx then .ok false else
    match img[s + 1]? with
    | none => .panic "rich_structure.rs:67 image[start + 1]"
    | some b =>
      if b ≠ x then .ok false else
      match img[s + 2]? with
      | none => .panic "rich_structure.rs:67 image[start + 2]"
      | some c =>
        if c ≠ x then .ok false else
        match img[s + 3]? with
        | none => .panic "rich_structure.rs:67 image[start + 3]"
        | some d => .ok (d = x)

/-- src: rich_structure.rs:try_from, second loop ("Scan to find the header block"), `s` = `start`. -/
def findStart (img : List Nat) (x dx : Nat) (s : Nat) : Out Nat :=
  if s < 16 then .err .invalid
  else
    match hdrAt img x dx s with
    | .ok true => .ok s
    | .ok false => findStart img x dx (s - 2)     -- `start -= 2`: no underflow, 16 ≤ start
    | .err e => .err e
    | .panic p => .panic p
    | .ub p => .ub p
    | .diverge => .diverge
termination_by s
decreasing_by omega

/-- `&image[a..b]` on a slice: panics unless `a ≤ b ≤ len`. -/
def slice (site : String) (ws : List Nat) (a b : Nat) : Out (List Nat) :=
  if a ≤ b ∧ b ≤ ws.length then .ok ((ws.take b).drop a) else .panic site

/-- src: rich_structure.rs:RichStructure::try_from, everything after the shadowing
`let image = image.get(..(e_lfanew / 4) as usize)`; `img` is that truncated slice. -/
def parseArea (img : List Nat) : Out RichS :=
  skipPad img img.length >>= fun e =>
  idx "rich_structure.rs:55 image[end - 2]" img (e - 2) >>= fun m =>
  if m ≠ RICH then .err .badMagic else
  idx "rich_structure.rs:58 image[end - 1]" img (e - 1) >>= fun x =>
  let dx := DANS ^^^ x
  psub "rich_structure.rs:62 end - 6" e 6 >>= fun s0 =>
  findStart img x dx s0 >>= fun s =>
  slice "rich_structure.rs:75 &image[..start]" img 0 s >>= fun dosStub =>
  slice "rich_structure.rs:76 &image[start..end]" img s e >>= fun im =>
  .ok ⟨dosStub, im⟩

-- src: rich_structure.rs:RichStructure::try_from
def tryFrom (image : List Nat) : Out RichS :=
  match image[15]? with                       -- image.get(15).ok_or(Invalid)
  | none => .err .invalid
  | some eLfanew =>
    let n := eLfanew / 4                      -- (e_lfanew / 4) as usize
    if n > image.length then .err .invalid    -- image.get(..n).ok_or(Invalid)
    else parseArea (image.take n)

/-- The dwords of a byte buffer as `Pe::rich_structure` sees them:
`slice::from_raw_parts(image.as_ptr() as *const u32, image.len() / 4)` on a little-endian machine. -/
def wordsGo (b : Bytes) : Nat → Nat → List Nat
  | 0, _ => []
  | k + 1, i => le32 b (4 * i) :: wordsGo b k (i + 1)

def words (b : Bytes) : List Nat := wordsGo b (b.size / 4) 0

-- src: pe64/pe.rs:Pe::rich_structure — the reinterpretation needs a 4-aligned image pointer
def ofImage (img : Img) : Out RichS :=
  rawRef "pe.rs:473 from_raw_parts(image as *const u32)" img 0 (img.bytes.size / 4 * 4) 4 >>= fun _ =>
  tryFrom (words img.bytes)

/-! ### accessors -/

-- src: rich_structure.rs:RichStructure::xor_key
def RichS.xorKey (r : RichS) : Out Nat := idx "rich_structure.rs:114 self.image[1]" r.image 1

/-- `RichIter { iter: &[u32], key: u32 }` -/
structure Iter where
  iter : List Nat
  key : Nat
  deriving DecidableEq, Repr

-- src: rich_structure.rs:RichStructure::records
def RichS.records (r : RichS) : Out Iter :=
  psub "rich_structure.rs:118 self.image.len() - 2" r.image.length 2 >>= fun hi =>
  slice "rich_structure.rs:118 &self.image[4..len - 2]" r.image 4 hi >>= fun it =>
  r.xorKey >>= fun key =>
  .ok ⟨it, key⟩

/-! ### RichIter -/

-- src: rich_structure.rs:RichIter::next
def Iter.next (it : Iter) : Out (Option Record × Iter) :=
  if it.iter.length ≥ 2 then
    idx "rich_structure.rs:254 self.iter[0]" it.iter 0 >>= fun a =>
    idx "rich_structure.rs:254 self.iter[1]" it.iter 1 >>= fun b =>
    slice "rich_structure.rs:255 &self.iter[2..]" it.iter 2 it.iter.length >>= fun rest =>
    .ok (some (Record.decode it.key a b), ⟨rest, it.key⟩)
  else .ok (none, it)

-- src: rich_structure.rs:RichIter::size_hint  (lower bound = upper bound)
def Iter.sizeHint (it : Iter) : Nat := it.iter.length / 2

-- src: rich_structure.rs:RichIter::count, ExactSizeIterator::len (default: the size hint)
def Iter.count (it : Iter) : Nat := it.sizeHint
def Iter.len (it : Iter) : Nat := it.sizeHint

-- src: rich_structure.rs:RichIter::nth   (as of commit ed9f3f7: the guard is `len / 2 > n`, so the
-- checked `n * 2`, `+ 1`, `+ 2` below it stay far from `usize::MAX`; they are modelled as checked anyway)
def Iter.nth (it : Iter) (n : Nat) : Out (Option Record × Iter) :=
  if it.iter.length / 2 > n then
    pmul64 "rich_structure.rs:271 n * 2" n 2 >>= fun n2 =>
    padd64 "rich_structure.rs:271 n * 2 + 1" n2 1 >>= fun n21 =>
    padd64 "rich_structure.rs:272 n * 2 + 2" n2 2 >>= fun n22 =>
    idx "rich_structure.rs:271 self.iter[n * 2]" it.iter n2 >>= fun a =>
    idx "rich_structure.rs:271 self.iter[n * 2 + 1]" it.iter n21 >>= fun b =>
    slice "rich_structure.rs:272 &self.iter[n * 2 + 2..]" it.iter n22 it.iter.length >>= fun rest =>
    .ok (some (Record.decode it.key a b), ⟨rest, it.key⟩)
  else
    slice "rich_structure.rs:276 &self.iter[..0]" it.iter 0 0 >>= fun rest =>
    .ok (none, ⟨rest, it.key⟩)

-- src: rich_structure.rs:RichIter::next_back
def Iter.nextBack (it : Iter) : Out (Option Record × Iter) :=
  let len := it.iter.length
  if len ≥ 2 then
    idx "rich_structure.rs:285 self.iter[len - 2]" it.iter (len - 2) >>= fun a =>
    idx "rich_structure.rs:285 self.iter[len - 1]" it.iter (len - 1) >>= fun b =>
    slice "rich_structure.rs:286 &self.iter[..len - 2]" it.iter 0 (len - 2) >>= fun rest =>
    .ok (some (Record.decode it.key a b), ⟨rest, it.key⟩)
  else .ok (none, it)

/-- Running `next` to exhaustion (`for record in records`, `collect`): the decoded dword pairs in
order; a trailing odd dword is never reached.  (Tied to `Iter.next` by `collect_next_*` in Lemmas.) -/
def decodeAll (key : Nat) : List Nat → List Record
  | a :: b :: t => Record.decode key a b :: decodeAll key t
  | _ => []

def Iter.collect (it : Iter) : List Record := decodeAll it.key it.iter

/-! ### checksum -/

/-- the four bytes of a dword in memory order (little endian), as `*(dword as *const [u8; 4])` reads them -/
def byte0 (w : Nat) : Nat := w % 256
def byte1 (w : Nat) : Nat := w / 256 % 256
def byte2 (w : Nat) : Nat := w / 65536 % 256
def byte3 (w : Nat) : Nat := w / 16777216 % 256

/-- src: rich_structure.rs:_checksum, first loop; `i : u32` is the byte offset.
`i + k` (k ≤ 3) and `i += 4` are checked additions. -/
def csumStub : List Nat → Nat → Nat → Out Nat
  | [], _, csum => .ok csum
  | w :: ws, i, csum =>
    if i + 3 ≥ 4294967296 then .panic "rich_structure.rs:98 i + k" else
    let b0 := if i = 0x3c then 0 else byte0 w     -- "Zero the e_lfanew field"
    let b1 := if i = 0x3c then 0 else byte1 w
    let b2 := if i = 0x3c then 0 else byte2 w
    let b3 := if i = 0x3c then 0 else byte3 w
    let csum := wadd32 csum (rotl32 b0 (i + 0))
    let csum := wadd32 csum (rotl32 b1 (i + 1))
    let csum := wadd32 csum (rotl32 b2 (i + 2))
    let csum := wadd32 csum (rotl32 b3 (i + 3))
    if i + 4 ≥ 4294967296 then .panic "rich_structure.rs:102 i += 4" else
    csumStub ws (i + 4) csum

/-- src: rich_structure.rs:_checksum, second loop -/
def csumRecs : List Record → Nat → Nat
  | [], csum => csum
  | r :: rs, csum => csumRecs rs (wadd32 csum (rotl32 r.value r.count))

-- src: rich_structure.rs:RichStructure::_checksum   (`size_of_val(dos_stub) as u32` truncates)
def checksumOf (dosStub : List Nat) (records : List Record) : Out Nat :=
  csumStub dosStub 0 ((4 * dosStub.length) % 4294967296) >>= fun c =>
  .ok (csumRecs records c)

-- src: rich_structure.rs:RichStructure::checksum
def RichS.checksum (r : RichS) : Out Nat :=
  r.records >>= fun it => checksumOf r.dosStub it.collect

/-! ### encode -/

/-- result of `encode`: `Err(total_len)` (destination untouched) or `Ok(total_len)` and the new destination -/
inductive EncRes
  | tooSmall (need : Nat)
  | done (total : Nat) (dest : List Nat)
  deriving DecidableEq, Repr

/-- the dwords `encode` writes for the records: `dest[i*2+4], dest[i*2+5]` -/
def encodeAll (key : Nat) : List Record → List Nat
  | [] => []
  | r :: rs => (r.encode key).1 :: (r.encode key).2 :: encodeAll key rs

/-- src: rich_structure.rs:RichStructure::encode.  `destLen = dest.len()`.  Every index below
`dest.len()` is written exactly once (header 0..3, records 4..2n+3, footer 2n+4, 2n+5, padding the
rest), so the new destination is given in closed form; `n * 2 + 6` cannot overflow `usize`
(a slice of 8-byte records has `n < 2^60`). -/
def RichS.encode (r : RichS) (records : List Record) (destLen : Nat) : Out EncRes :=
  checksumOf r.dosStub records >>= fun key =>
  let n := records.length
  -- let total_size = ((xor_key / 32) % 3 + n as u32) * 8 + 0x20;
  padd32 "rich_structure.rs:131 (xor_key / 32) % 3 + n as u32" ((key / 32) % 3) (n % 4294967296) >>= fun a =>
  pmul32 "rich_structure.rs:131 (..) * 8" a 8 >>= fun b =>
  padd32 "rich_structure.rs:131 (..) * 8 + 0x20" b 0x20 >>= fun totalSize =>
  let totalLen := totalSize / 4
  if destLen < n * 2 + 6 then .ok (.tooSmall totalLen)
  else
    .ok (.done totalLen
      ([DANS ^^^ key, key, key, key] ++ encodeAll key records ++ [RICH, key]
        ++ List.replicate (destLen - (n * 2 + 6)) 0))

end Pelite.Rich
