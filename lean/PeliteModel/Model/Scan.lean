import PeliteModel.Model.Exec
/-!
Model of the pattern scanner `Matches::{setup, strategy, strategy0, strategy1, strategy2, next,
next_section}` and `Scanner::{matches, matches_code, finds, finds_code, exec}`
(src/pe64/scanner.rs; src/wrap/scanner.rs only dispatches on the format).

The search functions are parametrised by the interpreter `ex cursor save` (`Scanner::exec`), which
`next` instantiates with `Exec.run (Exec.ofView v) pat`; `Lemmas/Scan.lean` reasons about an
arbitrary `ex`.  Besides what the Rust code returns (`bool`, the `Matches` state, the save array)
every search returns the *position* of the reported match (`Res.pos`, a ghost value: the Rust caller
can only learn it through a `Save` atom).

Checked `u32` arithmetic of the Rust code (`self.range.start + …`, `cursor + jump`, `… - base`) is
`padd32` / an explicit `panic`; `Lemmas/Scan.lean` proves none is reachable.  `self.hits` (a `u32`
incremented by the checked `self.hits += 1` once per interpreter call) is a plain `Nat` counter here.
That this loses nothing is PROVED (`Lemmas/Scan.lean`: `strat{0,1,2}Loop_hits`, `nextWith_hits`,
`Reach_hits`; `Thm/C10Pos.lean`): every returning call of `next` — any interpreter, image, atom list,
state — raises `hits` by at most the number of positions `range.start` advanced
(`C10_hits_bounded`), `range.start` never decreases and never passes `max range.start range.end`
(`C10_next_advance`), so after any sequence of calls on `matches(pat, lo..hi)` with `hi` a `u32`
`hits ≤ range.start - lo ≤ hi - lo < 2^32` (`C10_hits_no_overflow`, `C10_hits_no_overflow_code`);
the counter only grows during a search (the loop lemmas hold from every intermediate loop state), so
no value it takes during a returning call exceeds `u32::MAX` and the checked increment cannot panic.
The correspondence run does NOT compare the exact values of `hits()` / `range()` (a performance
counter and the iterator's resume point: the property constrains neither exactly, so
`vlib/props_scan.py:C10.project` strips them); it checks the implementation's own `range=` / `hits=`
against what these theorems say of every correct run (`C10.oracle`: `range.end` unchanged,
`lo ≤ range.start ≤ max lo range.end`, reported positions below `range.start`,
`number of reported matches ≤ hits ≤ range.start - lo`).
`slice.len() as u32` is the identity (buffers are below 4 GiB).
-/
namespace Pelite.Scan
open Pelite.Pattern Pelite.Exec

/-- `const QS_BUF_LEN: usize = 16` -/
def QS_BUF_LEN : Nat := 16

/-- src: scanner.rs:Matches::setup with `room = QS_BUF_LEN - qslen` bytes left in `qsbuf` -/
def setupGo : List Atom → Nat → List Nat
  | [], _ => []
  | .byte b :: r, room => if room = 0 then [] else b :: setupGo r (room - 1)   -- `if qslen >= QS_BUF_LEN { break }`
  | .save _ :: r, room => setupGo r room
  | .aligned _ :: r, room => setupGo r room
  | .nop :: r, room => setupGo r room
  | _ :: _, _ => []                                                            -- all other atoms interfere

/-- src: scanner.rs:Matches::setup — the literal prefix `&qsbuf[..qslen]` -/
def setup (pat : List Atom) : List Nat := setupGo pat QS_BUF_LEN

/-- `Matches { range, hits }` (scanner and pattern are parameters) -/
structure MSt where
  start : Nat
  stop : Nat
  hits : Nat
  deriving DecidableEq, Repr

/-- result of one search: the returned `bool`, the position of the match (ghost, 0 if none), the
`Matches` state and the save array as they are left -/
structure Res where
  found : Bool
  pos : Nat
  m : MSt
  save : Array Nat
  deriving DecidableEq, Repr

/-- the interpreter as the searches see it: `self.scanner.exec(cursor, self.pat, save)` -/
abbrev Interp := Nat → Array Nat → Out (Bool × Array Nat)

/-- src: strategy0, the `while self.range.start < end` loop; `k` = iterations left (`end - start`) -/
def strat0Loop (ex : Interp) (stop : Nat) : Nat → MSt → Array Nat → Out Res
  | 0, m, save => if m.start < stop then .diverge else .ok ⟨false, 0, m, save⟩
  | k+1, m, save =>
    if m.start < stop then
      let cursor := m.start
      -- self.hits += 1; self.range.start += 1;
      (padd32 "strategy0:range.start+=1" m.start 1).bind fun st1 =>
      let m' : MSt := { m with start := st1, hits := m.hits + 1 }
      (ex cursor save).bind fun r =>
        if r.1 then .ok ⟨true, cursor, m', r.2⟩ else strat0Loop ex stop k m' r.2
    else .ok ⟨false, 0, m, save⟩

/-- src: scanner.rs:Matches::strategy0 on the window `bytes[off .. off+len]` -/
def strategy0 (ex : Interp) (len : Nat) (m : MSt) (save : Array Nat) : Out Res :=
  (padd32 "strategy0:range.start+len" m.start len).bind fun stop =>
  strat0Loop ex stop len m save

/-- src: strategy1, the `for i in slice.iter().enumerate().filter_map(..)` loop: `k` offsets left,
the next is `i` -/
def strat1Loop (ex : Interp) (bytes : Bytes) (off len byte : Nat) (m : MSt) :
    Nat → Nat → Nat → Array Nat → Out Res
  | 0, _, hits, save =>
    -- self.range.start += slice.len() as u32;
    (padd32 "strategy1:range.start+=len" m.start len).bind fun st1 =>
    .ok ⟨false, 0, { m with start := st1, hits := hits }, save⟩
  | k+1, i, hits, save =>
    if byteAt bytes (off + i) = byte then
      (padd32 "strategy1:range.start+i" m.start i).bind fun cursor =>
      (ex cursor save).bind fun r =>
        if r.1 then
          (padd32 "strategy1:cursor+1" cursor 1).bind fun st1 =>
          .ok ⟨true, cursor, { m with start := st1, hits := hits + 1 }, r.2⟩
        else strat1Loop ex bytes off len byte m k (i + 1) (hits + 1) r.2
    else strat1Loop ex bytes off len byte m k (i + 1) hits save

/-- src: scanner.rs:Matches::strategy1 (`qsbuf[0]`: the caller guarantees a non-empty prefix) -/
def strategy1 (ex : Interp) (bytes : Bytes) (qs : List Nat) (off len : Nat) (m : MSt) (save : Array Nat) : Out Res :=
  match qs with
  | [] => .panic "strategy1:qsbuf[0]"
  | byte :: _ => strat1Loop ex bytes off len byte m len 0 m.hits save

/-- src: strategy2, "Initialize jump table for quicksearch":
`let mut jumps = [qslen as u8; 256]; for i in 0..qslen - 1 { jumps[qsbuf[i] as usize] = qslen as u8 - i as u8 - 1; }` -/
def mkJumps (qs : List Nat) : Array Nat :=
  (List.range (qs.length - 1)).foldl
    (fun J i => J.setIfInBounds (qs.getD i 0) (qs.length - i - 1)) (Array.replicate 256 qs.length)

/-- `tbuf == qsbuf` for `tbuf = bytes[o .. o + qs.length]` -/
def winEq (bytes : Bytes) : Nat → List Nat → Bool
  | _, [] => true
  | o, q :: qs => byteAt bytes o == q && winEq bytes (o + 1) qs

/-- src: strategy2, the `while i + qslen <= slice.len()` loop (fuel: `i` grows by `jump ≥ 1`) -/
def strat2Loop (ex : Interp) (bytes : Bytes) (qs : List Nat) (J : Array Nat) (off len : Nat) (m : MSt) :
    Nat → Nat → Nat → Array Nat → Out Res
  | 0, _, _, _ => .diverge
  | fuel+1, i, hits, save =>
    let qslen := qs.length
    if i + qslen ≤ len then
      let last := byteAt bytes (off + i + qslen - 1)            -- tbuf[qslen - 1]
      let jump := J.getD last 0                                  -- jumps[last as usize]
      if qs.getD (qslen - 1) 0 = last ∧ winEq bytes (off + i) qs = true then
        (padd32 "strategy2:range.start+i" m.start i).bind fun cursor =>
        (ex cursor save).bind fun r =>
          if r.1 then
            (padd32 "strategy2:cursor+jump" cursor jump).bind fun st1 =>
            .ok ⟨true, cursor, { m with start := st1, hits := hits + 1 }, r.2⟩
          else strat2Loop ex bytes qs J off len m fuel (i + jump) (hits + 1) r.2
      else strat2Loop ex bytes qs J off len m fuel (i + jump) hits save
    else
      -- "FIXME! Quicksearch stops too soon!" : self.range.start += slice.len() as u32;
      (padd32 "strategy2:range.start+=len" m.start len).bind fun st1 =>
      .ok ⟨false, 0, { m with start := st1, hits := hits }, save⟩

/-- src: scanner.rs:Matches::strategy2 -/
def strategy2 (ex : Interp) (bytes : Bytes) (qs : List Nat) (off len : Nat) (m : MSt) (save : Array Nat) : Out Res :=
  strat2Loop ex bytes qs (mkJumps qs) off len m (len + 1) 0 m.hits save

/-- src: scanner.rs:Matches::strategy -/
def strategy (ex : Interp) (bytes : Bytes) (qs : List Nat) (off len : Nat) (m : MSt) (save : Array Nat) : Out Res :=
  if qs.length = 0 then strategy0 ex len m save
  else if qs.length < 4 then strategy1 ex bytes qs off len m save
  else strategy2 ex bytes qs off len m save

/-- src: scanner.rs:Matches::next_section for `slice = bytes[off .. off+len]` mapped at rva `base` -/
def nextSection (ex : Interp) (bytes : Bytes) (qs : List Nat) (base off len : Nat) (m : MSt) (save : Array Nat) : Out Res :=
  -- self.range.start = cmp::max(base, self.range.start);
  let m : MSt := { m with start := max base m.start }
  -- let start = self.range.start - base;
  let start := m.start - base
  -- let end = cmp::min(base.saturating_add(slice.len() as u32), self.range.end) - base;
  let e := min (min (base + len) 4294967295) m.stop
  if e < base then .panic "next_section:end-base" else
  let stop := e - base
  if start ≥ stop then .ok ⟨false, 0, m, save⟩
  -- &slice[start as usize..end as usize]
  else if stop ≤ len then strategy ex bytes qs (off + start) (stop - start) m save
  else .panic "next_section:slice[start..end]"

/-- src: scanner.rs:Matches::next, `Align::File`: the `for section in section_headers()` loop -/
def nextFile (ex : Interp) (bytes : Bytes) (qs : List Nat) : List Pe.Sec → MSt → Array Nat → Out Res
  | [], m, save => .ok ⟨false, 0, m, save⟩
  | s :: rest, m, save =>
    -- If section overlaps with the scanning range
    if s.va < m.stop ∧ wadd32 s.va s.vs > m.start then
      -- image.get(PointerToRawData as usize .. PointerToRawData.wrapping_add(SizeOfRawData) as usize)
      let stop := wadd32 s.prd s.rs
      if s.prd ≤ stop ∧ stop ≤ bytes.size then
        (nextSection ex bytes qs s.va s.prd (stop - s.prd) m save).bind fun r =>
          if r.found then .ok r else nextFile ex bytes qs rest r.m r.save
      else nextFile ex bytes qs rest m save
    else nextFile ex bytes qs rest m save

/-- src: scanner.rs:Matches::next with an abstract interpreter -/
def nextWith (ex : Interp) (v : Pe.View) (qs : List Nat) (m : MSt) (save : Array Nat) : Out Res :=
  match v.kind with
  | .file => nextFile ex v.b qs v.secs m save
  | .view => nextSection ex v.b qs 0 0 v.b.size m save

/-- src: scanner.rs:Scanner::exec on a view -/
def interp (v : Pe.View) (pat : List Atom) : Interp := Exec.run (Exec.ofView v) pat

/-- src: scanner.rs:Matches::next -/
def next (v : Pe.View) (pat : List Atom) (m : MSt) (save : Array Nat) : Out Res :=
  nextWith (interp v pat) v (setup pat) m save

/-- src: scanner.rs:Scanner::matches -/
def matchesInit (lo hi : Nat) : MSt := ⟨lo, hi, 0⟩

/-- src: scanner.rs:Scanner::matches_code (`headers().code_range()`) -/
def matchesCodeInit (v : Pe.View) : MSt := ⟨v.codeRange.1, v.codeRange.2, 0⟩

/-- src: scanner.rs:Scanner::finds with an abstract `next`: the second `next` runs on `&mut save[..0]` -/
def findsWith (nx : MSt → Array Nat → Out Res) (m : MSt) (save : Array Nat) : Out (Bool × Array Nat) :=
  (nx m save).bind fun r1 =>
    if !r1.found then .ok (false, r1.save)
    else (nx r1.m #[]).bind fun r2 => .ok (!r2.found, r1.save)

/-- src: scanner.rs:Scanner::finds -/
def finds (v : Pe.View) (pat : List Atom) (lo hi : Nat) (save : Array Nat) : Out (Bool × Array Nat) :=
  findsWith (next v pat) (matchesInit lo hi) save

/-- src: scanner.rs:Scanner::finds_code -/
def findsCode (v : Pe.View) (pat : List Atom) (save : Array Nat) : Out (Bool × Array Nat) :=
  findsWith (next v pat) (matchesCodeInit v) save

/-- result of `while matches.next(&mut save) { record }`: the reported (position, save) pairs,
the final state, and whether `next` returned `false` (else the cap `n` was reached) -/
structure All where
  hits : List (Nat × Array Nat)
  m : MSt
  save : Array Nat
  exhausted : Bool
  deriving DecidableEq, Repr

/-- at most `n` calls of `next` reusing the save array, as the documented usage does -/
def scanAll (nx : MSt → Array Nat → Out Res) : Nat → MSt → Array Nat → Out All
  | 0, m, save => .ok ⟨[], m, save, false⟩
  | n+1, m, save =>
    (nx m save).bind fun r =>
      if r.found then
        (scanAll nx n r.m r.save).bind fun a => .ok { a with hits := (r.pos, r.save) :: a.hits }
      else .ok ⟨[], r.m, r.save, true⟩

end Pelite.Scan
