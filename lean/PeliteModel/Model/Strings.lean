import PeliteModel.Prim.Basic
import PeliteModel.Generated.Tables
/-!
Model of `src/strings.rs`: `Config`, `Found`, `Enumerator::next`.
The printable-byte predicate is NOT transcribed: it is the table regenerated from the source.
-/
namespace Pelite.Strings

structure Config where
  minLen : Nat        -- u8
  minLenNul : Nat     -- u8
  strictNul : Bool
  deriving Repr

/-- `Found { string: &bytes[start..start+len], address: base + start, has_nul }` -/
structure Found where
  start : Nat
  len : Nat
  hasNul : Bool
  deriving DecidableEq, Repr

-- src: strings.rs:is_printable_ascii (regenerated)
def printable (b : Nat) : Bool := Generated.printableTable.getD b false

/-- src: strings.rs:Enumerator::next — the `while` loop plus the tail after it.
Returns the found string and the new `self.offset`. -/
def scan (bytes : Bytes) (cfg : Config) (start i : Nat) : Option (Found × Nat) :=
  if i < bytes.size then
    let b := byteAt bytes i
    if printable b then scan bytes cfg start (i+1)
    else if b = 0 then
      if i - start ≥ cfg.minLenNul then some (⟨start, i - start, true⟩, i + 1)
      else scan bytes cfg (i+1) (i+1)
    else if !cfg.strictNul then
      if i - start ≥ cfg.minLen then some (⟨start, i - start, false⟩, i + 1)
      else scan bytes cfg (i+1) (i+1)
    else scan bytes cfg (i+1) (i+1)
  else
    if start ≠ i ∧ !cfg.strictNul ∧ i - start ≥ cfg.minLen then some (⟨start, i - start, false⟩, i)
    else none
termination_by bytes.size - i

/-- `Enumerator::next` with `self.offset = off`. -/
def next (bytes : Bytes) (cfg : Config) (off : Nat) : Option (Found × Nat) := scan bytes cfg off off

/-- `enumerate(..).collect()`: repeated `next` until `None`; `diverge` when the fuel runs out. -/
def enumAll (bytes : Bytes) (cfg : Config) : Nat → Nat → Out (List Found)
  | 0, _ => .diverge
  | fuel+1, off =>
    match next bytes cfg off with
    | none => .ok []
    | some (f, off') =>
      match enumAll bytes cfg fuel off' with
      | .ok fs => .ok (f :: fs)
      | o => o

/-- address field of a found string: `self.base.wrapping_add(start as u32)` -/
def address (base : Nat) (f : Found) : Nat := wadd32 base f.start

end Pelite.Strings
