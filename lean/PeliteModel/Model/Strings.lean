import PeliteModel.Prim.Basic
import PeliteModel.Generated.Tables
/-!
Model of `src/strings.rs`: `Config`, `Found`, `Enumerator::next`.
The printable-byte predicate is NOT transcribed: it is the table regenerated from the source.
-/
namespace Pelite.Strings

structure Config where
  minLen : Nat        -- u8
  minLenNul : Nat     -- u8
  strictNul : Bool
  deriving Repr

/-- `Found { string: &bytes[start..start+len], address: base + start, has_nul }` -/
structure Found where
  start : Nat
  len : Nat
  hasNul : Bool
  deriving DecidableEq, Repr

-- src: strings.rs:is_printable_ascii (regenerated)
def printable (b : Nat) : Bool := Generated.printableTable.getD b false

/-- src: strings.rs:Enumerator::next — the `while` loop plus the tail after it.
Returns the found string and the new `self.offset`. -/
def scan (bytes : Bytes) (cfg : Config) (start i : Nat) : Option (Found × Nat) :=
  if i < bytes.size then
    let b := byteAt bytes i
    if printable b then scan bytes cfg start (i+1)
    else if b = 0 then
      if i - start ≥ cfg.minLenNul then some (⟨start, i - start, true⟩, i + 1)
      else scan bytes cfg (i+1) (i+1)
    else if !cfg.strictNul then
      if i - start ≥ cfg.minLen then some (⟨start, i - start, false⟩, i + 1)
      else scan bytes cfg (i+1) (i+1)
    else scan bytes cfg (i+1) (i+1)
  else
    if start ≠ i ∧ !cfg.strictNul ∧ i - start ≥ cfg.minLen then some (⟨start, i - start, false⟩, i)
    else none
termination_by bytes.size - i

/-- `Enumerator::next` with `self.offset = off`. -/
def next (bytes : Bytes) (cfg : Config) (off : Nat) : Option (Found × Nat) := scan bytes cfg off off

/-- every `Some` moves the offset forward and keeps it inside the buffer (why the loops over `next`
below terminate) -/
theorem scan_progress (bytes : Bytes) (cfg : Config) (s i : Nat) (f : Found) (off' : Nat) (hsi : s ≤ i)
    (hi : i ≤ bytes.size) (h : scan bytes cfg s i = some (f, off')) : s < off' ∧ off' ≤ bytes.size := by
  fun_induction scan bytes cfg s i with
  | case1 start i hlt b hp ih => exact ih (by omega) (by omega) h
  | case2 start i hlt b hp hz hlen => cases h; omega
  | case3 start i hlt b hp hz hlen ih => have := ih (Nat.le_refl _) (by omega) h; omega
  | case4 start i hlt b hp hz hs hlen => cases h; omega
  | case5 start i hlt b hp hz hs hlen ih => have := ih (Nat.le_refl _) (by omega) h; omega
  | case6 start i hlt b hp hz hs ih => have := ih (Nat.le_refl _) (by omega) h; omega
  | case7 start i hge hc => cases h; omega
  | case8 start i hge hc => cases h

theorem next_progress {bytes : Bytes} {cfg : Config} {off : Nat} {f : Found} {off' : Nat}
    (hoff : off ≤ bytes.size) (h : next bytes cfg off = some (f, off')) :
    off < off' ∧ off' ≤ bytes.size :=
  scan_progress bytes cfg off off f off' (Nat.le_refl _) hoff h

/-- beyond the end of the buffer `next` answers `None` -/
theorem next_beyond {bytes : Bytes} {cfg : Config} {off : Nat} (hoff : bytes.size ≤ off) :
    next bytes cfg off = none := by
  unfold next scan
  rw [if_neg (by omega)]
  simp

theorem next_decreases {bytes : Bytes} {cfg : Config} {off : Nat} {f : Found} {off' : Nat}
    (h : next bytes cfg off = some (f, off')) : bytes.size - off' < bytes.size - off := by
  by_cases hoff : bytes.size ≤ off
  · rw [next_beyond hoff] at h; cases h
  · have := next_progress (by omega) h; omega

/-- `Enumerator::next` as a transition of the iterator object: the answer and the new `self.offset`.
`self.offset` is written only on the three `return Some(..)` paths; a `None` leaves it alone. -/
-- src: strings.rs:Enumerator::next
def step (bytes : Bytes) (cfg : Config) (off : Nat) : Option Found × Nat :=
  match next bytes cfg off with
  | none => (none, off)
  | some (f, off') => (some f, off')

/-- the answers of `n` consecutive calls of `next` on the iterator standing at `off` -/
def nexts (bytes : Bytes) (cfg : Config) : Nat → Nat → List (Option Found)
  | _, 0 => []
  | off, n + 1 => (step bytes cfg off).1 :: nexts bytes cfg (step bytes cfg off).2 n

/-- `self.offset` once `next` has answered `None` (or after `fuel` calls) -/
def finalOff (bytes : Bytes) (cfg : Config) : Nat → Nat → Nat
  | 0, off => off
  | fuel + 1, off =>
    match next bytes cfg off with
    | none => off
    | some (_, off') => finalOff bytes cfg fuel off'

/-! `Enumerator` is `Iterator + Clone`; only `next` is written by hand, `nth`, `count`, `size_hint`
are the provided methods of `core::iter::Iterator` (loops over `next`), `clone` is derived. -/

/-- `Iterator::nth` (provided): `self.advance_by(n).ok()?; self.next()` -/
-- src: core::iter::Iterator::nth
def nthFound (bytes : Bytes) (cfg : Config) : Nat → Nat → Option Found × Nat
  | off, 0 => step bytes cfg off
  | off, k + 1 =>
    match next bytes cfg off with
    | none => (none, off)
    | some (_, off') => nthFound bytes cfg off' k

/-- `Iterator::count` (provided): a loop over `next` -/
-- src: core::iter::Iterator::count
def countFound (bytes : Bytes) (cfg : Config) (off n : Nat) : Nat :=
  match h : next bytes cfg off with
  | none => n
  | some (_, off') =>
    have := next_decreases h
    countFound bytes cfg off' (n + 1)
termination_by bytes.size - off

/-- `Iterator::size_hint` (provided): `(0, None)` -/
-- src: core::iter::Iterator::size_hint
def sizeHintFound (_bytes : Bytes) (_cfg : Config) (_off : Nat) : Nat × Option Nat := (0, none)

/-- `it.clone().collect()`: everything the iterator standing at `off` still yields -/
def itemsFrom (bytes : Bytes) (cfg : Config) (off : Nat) : List Found :=
  match h : next bytes cfg off with
  | none => []
  | some (f, off') =>
    have := next_decreases h
    f :: itemsFrom bytes cfg off'
termination_by bytes.size - off

/-- `enumerate(..).collect()`: repeated `next` until `None`; `diverge` when the fuel runs out. -/
def enumAll (bytes : Bytes) (cfg : Config) : Nat → Nat → Out (List Found)
  | 0, _ => .diverge
  | fuel+1, off =>
    match next bytes cfg off with
    | none => .ok []
    | some (f, off') =>
      match enumAll bytes cfg fuel off' with
      | .ok fs => .ok (f :: fs)
      | o => o

/-- address field of a found string: `self.base.wrapping_add(start as u32)` -/
def address (base : Nat) (f : Found) : Nat := wadd32 base f.start

/-! ### `Enumerator.offset` is a `u32`

Everything above keeps `self.offset` as a natural number.  The field is a `u32`: the three `return Some(..)` paths
store `(i + 1) as u32` / `i as u32` (strings.rs:95,101,110), the next call starts at `self.offset as usize`, and the
address is computed from `start as u32`.  `nextT` is the transition AS WRITTEN, with the casts; `Thm/C20.lean`
(`C20_offset_fits`) shows that for buffers below 4 GiB — the model's global bound, and every buffer the line protocol can
carry — it is the transition without them, and (`C20_offset_wraps_at_4GiB`) what happens at 4 GiB. -/

/-- `x as u32` -/
def trunc32 (x : Nat) : Nat := x % 4294967296

-- src: strings.rs:Enumerator::next  (with `self.offset = (i + 1) as u32` / `i as u32`)
def nextT (bytes : Bytes) (cfg : Config) (off : Nat) : Option (Found × Nat) :=
  match next bytes cfg off with
  | none => none
  | some (f, off') => some (f, trunc32 off')

/-- `self.base.wrapping_add(start as u32)` with the cast spelled out -/
def addressT (base : Nat) (f : Found) : Nat := wadd32 base (trunc32 f.start)

/-! The enumerator object over an ARBITRARY transition `nx : offset ↦ (answer, new offset)` — `next` or `nextT` —: the
hand-written `next` and the provided methods over it.  A transition that does not move forward (as `nextT` on a 4 GiB
buffer) makes the loops run forever, so they carry fuel (`diverge` when it runs out). -/

def stepW (nx : Nat → Option (Found × Nat)) (off : Nat) : Option Found × Nat :=
  match nx off with
  | none => (none, off)
  | some (f, off') => (some f, off')

-- src: core::iter::Iterator::nth
def nthW (nx : Nat → Option (Found × Nat)) : Nat → Nat → Option Found × Nat
  | off, 0 => stepW nx off
  | off, k + 1 =>
    match nx off with
    | none => (none, off)
    | some (_, off') => nthW nx off' k

-- src: core::iter::Iterator::count
def countW (nx : Nat → Option (Found × Nat)) : Nat → Nat → Nat → Out Nat
  | 0, _, _ => .diverge
  | fuel + 1, off, n =>
    match nx off with
    | none => .ok n
    | some (_, off') => countW nx fuel off' (n + 1)

/-- `collect()` -/
def itemsW (nx : Nat → Option (Found × Nat)) : Nat → Nat → Out (List Found)
  | 0, _ => .diverge
  | fuel + 1, off =>
    match nx off with
    | none => .ok []
    | some (f, off') =>
      match itemsW nx fuel off' with
      | .ok fs => .ok (f :: fs)
      | o => o

/-- `enumerate(..).collect()` with the `u32` offset field -/
def enumAllT (bytes : Bytes) (cfg : Config) (fuel off : Nat) : Out (List Found) := itemsW (nextT bytes cfg) fuel off

end Pelite.Strings
