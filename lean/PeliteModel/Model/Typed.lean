import PeliteModel.Model.Pe
/-!
Model of the typed read family of `src/pe64/pe.rs`: `derva`, `derva_copy`, `derva_into`,
`derva_slice`, `derva_slice_f/_s`, `derva_c_str`/`derva_string`, and the `deref*` twins that go
through `read(va)` instead of `slice(rva)`; `util::CStr::from_bytes`, `util::WideStr::from_bytes`.
An address is `Addr.rva r` or `Addr.va a`; everything else is shared.
-/
namespace Pelite.Pe

inductive Addr | rva (r : Nat) | va (a : Nat)
  deriving Repr

def Addr.isZero : Addr → Bool
  | .rva r => r == 0
  | .va a => a == 0

/-- `self.slice(rva, min, align)` or `self.read(va, min, align)` -/
def View.at (v : View) (a : Addr) (min align : Nat) : Out Ref :=
  match a with
  | .rva r => v.slice r min align
  | .va x => v.read x min align

/-- little-endian value of `size` bytes at `off` (size ∈ {1,2,4,8}) -/
def leN (b : Bytes) (off size : Nat) : Nat :=
  match size with
  | 1 => byteAt b off
  | 2 => le16 b off
  | 4 => le32 b off
  | 8 => le64 b off
  | _ => 0

-- src: pe.rs:derva / deref  (T: Pod with size_of = size, align_of = align)
def View.derva (v : View) (a : Addr) (size align : Nat) : Out Ref :=
  match v.at a size align with
  | .ok r => .ok ⟨r.off, size, align⟩
  | .err e => .err e | .panic s => .panic s | .ub s => .ub s | .diverge => .diverge

-- src: pe.rs:derva_copy / deref_copy   (value of an integer type of `size` bytes)
def View.dervaCopy (v : View) (a : Addr) (size : Nat) : Out Nat :=
  match v.at a size 1 with
  | .ok r => .ok (leN v.b r.off size)
  | .err e => .err e | .panic s => .panic s | .ub s => .ub s | .diverge => .diverge

-- src: pe.rs:derva_into / deref_into   (`dest` of `len` bytes)
def View.dervaInto (v : View) (a : Addr) (len : Nat) : Out (List UInt8) :=
  match v.at a len 1 with
  | .ok r => .ok ((List.range len).map (fun i => v.b.getD (r.off + i) 0))
  | .err e => .err e | .panic s => .panic s | .ub s => .ub s | .diverge => .diverge

-- src: pe.rs:derva_slice / deref_slice
def View.dervaSlice (v : View) (a : Addr) (size align len : Nat) : Out Ref :=
  if a.isZero then .err .null                                    -- `rva == 0` / `ptr.is_null()` first
  else if size * len ≥ 18446744073709551616 then .err .overflow  -- checked_mul
  else match v.at a (size * len) align with
    | .ok r => .ok ⟨r.off, size * len, align⟩
    | .err e => .err e | .panic s => .panic s | .ub s => .ub s | .diverge => .diverge

/-- the loop of `derva_slice_f`: `bytes` is the window `[off, off+blen)`; returns the element count -/
def sliceFLoop (b : Bytes) (off blen size : Nat) (stop : Nat → Bool) (fuel : Nat) (len : Nat) : Out Nat :=
  match fuel with
  | 0 => .diverge
  | fuel+1 =>
    let offset := len * size
    if offset + size > blen then .err .bounds            -- "Safety critical OOB check"
    else if stop (leN b (off + offset) size) then .ok len
    else sliceFLoop b off blen size stop fuel (len + 1)

-- src: pe.rs:derva_slice_f / deref_slice_f   (elements are integers of `size` bytes; `stop` = the callable)
def View.dervaSliceF (v : View) (a : Addr) (size align : Nat) (stop : Nat → Bool) : Out Ref :=
  match v.at a 0 align with
  | .ok r =>
    (match sliceFLoop v.b r.off r.len size stop (r.len + 2) 0 with
     | .ok n => .ok ⟨r.off, n * size, align⟩
     | .err e => .err e | .panic s => .panic s | .ub s => .ub s | .diverge => .diverge)
  | .err e => .err e | .panic s => .panic s | .ub s => .ub s | .diverge => .diverge

-- src: pe.rs:derva_slice_s / deref_slice_s
def View.dervaSliceS (v : View) (a : Addr) (size align sentinel : Nat) : Out Ref :=
  v.dervaSliceF a size align (fun x => x == sentinel)

/-- position of the first NUL in the window, `none` if there is none -/
def findNul (b : Bytes) (off : Nat) : Nat → Nat → Option Nat
  | 0, _ => none
  | n+1, i => if byteAt b (off + i) = 0 then some i else findNul b off n (i + 1)

-- src: c_str.rs:CStr::from_bytes over the window `[off, off+len)`: the string plus its NUL
def cstrFromBytes (b : Bytes) (off len : Nat) : Option Ref :=
  match findNul b off len 0 with
  | some n => some ⟨off, n + 1, 1⟩
  | none => none

-- src: pe.rs:derva_c_str / derva_string::<CStr> / deref_c_str
def View.dervaCStr (v : View) (a : Addr) : Out Ref :=
  match v.at a 0 1 with
  | .ok r => (match cstrFromBytes v.b r.off r.len with
      | some c => .ok c
      | none => .err .encoding)
  | .err e => .err e | .panic s => .panic s | .ub s => .ub s | .diverge => .diverge

-- src: wide_str.rs:<WideStr as FromBytes>::from_bytes  (not reachable from the public API: the
-- `WideStr` type is not exported; modelled for the property's statement only)
def wstrFromBytes (b : Bytes) (off len : Nat) : Option Ref :=
  let n := le16 b off + 1
  if n * 2 > len then none else some ⟨off, n * 2, 2⟩

def View.dervaWStr (v : View) (a : Addr) : Out Ref :=
  match v.at a 2 2 with
  | .ok r => (match wstrFromBytes v.b r.off r.len with
      | some c => .ok c
      | none => .err .encoding)
  | .err e => .err e | .panic s => .panic s | .ub s => .ub s | .diverge => .diverge


/-! ### `derva_slice_f` / `deref_slice_f` with a STATEFUL callable (`F: FnMut(&T) -> bool`)

The loop of pe.rs:346-367 calls `f` exactly once per element, in index order, starting with element 0
and stopping at the first `true`.  So the answer of a callable with internal state (a counter, the
previous elements it has seen, …) on its call for element `len` is a function of `len` and of the
bytes: the model hands the index to the predicate as well.  `sliceFLoop` / `View.dervaSliceF` above
are the special case of a predicate that ignores the index (`sliceFLoop_eq_I`, Lemmas/Typed.lean). -/

/-- the loop of `derva_slice_f` for a callable whose answer may depend on the call number -/
-- src: pe.rs:derva_slice_f / deref_slice_f (the loop)
def sliceFLoopI (b : Bytes) (off blen size : Nat) (stop : Nat → Nat → Bool) (fuel : Nat) (len : Nat) : Out Nat :=
  match fuel with
  | 0 => .diverge
  | fuel+1 =>
    let offset := len * size
    if offset + size > blen then .err .bounds            -- "Safety critical OOB check"
    else if stop len (leN b (off + offset) size) then .ok len
    else sliceFLoopI b off blen size stop fuel (len + 1)

-- src: pe.rs:derva_slice_f / deref_slice_f   (`stop i x` = the answer of the `i`-th call, made on element `i` of value `x`)
def View.dervaSliceFI (v : View) (a : Addr) (size align : Nat) (stop : Nat → Nat → Bool) : Out Ref :=
  match v.at a 0 align with
  | .ok r =>
    (match sliceFLoopI v.b r.off r.len size stop (r.len + 2) 0 with
     | .ok n => .ok ⟨r.off, n * size, align⟩
     | .err e => .err e | .panic s => .panic s | .ub s => .ub s | .diverge => .diverge)
  | .err e => .err e | .panic s => .panic s | .ub s => .ub s | .diverge => .diverge

end Pelite.Pe
