import PeliteModel.Prim.Basic
/-!
Model of `src/resources/version_info.rs`: `parse_tlv`, `Parser` (as the `for … in
Parser{..}.filter_map(Result::ok)` loop), `VersionInfo::{try_from, visit, fixed, translation, value,
strings, file_info, source_code}`, the six `Visit` implementations, `Language::parse`,
`util::FmtUtf16` and the parts of `char::decode_utf16` / `String::from_utf16_lossy` they use.

`parse_tlv` and the terminator stripping of `visit` index and slice with panicking operations
(`Sl.idx`, `Sl.sliceFrom`, `Sl.sliceTo`), one at each `words[i]` / `&words[a..b]` of the Rust code;
`parseTlv_eq_total` and `stripNulChk_eq` prove the panic outcomes unreachable.

The block is a list of u16 words (`Nat`, `< 65536` when it comes from bytes).  A Rust `&[u16]` is
a `Sl`: the word offset of its first element from the start of the block plus the words it views,
so that both the contents and the extent of everything handed to a visitor are explicit.
A Rust `String` is the list of its Unicode scalar values.
-/
namespace Pelite.Version

/-- `&'a [u16]` into the block: `off` = word offset from the start of the block, `ws` = contents. -/
structure Sl where
  off : Nat
  ws : List Nat
  deriving DecidableEq, Repr, Inhabited

namespace Sl
@[inline] def len (s : Sl) : Nat := s.ws.length
/-- `&s[n..]` (the caller has established `n ≤ len`, else Rust panics) -/
@[inline] def drop (s : Sl) (n : Nat) : Sl := ⟨s.off + n, s.ws.drop n⟩
/-- `&s[..n]` (the caller has established `n ≤ len`) -/
@[inline] def take (s : Sl) (n : Nat) : Sl := ⟨s.off, s.ws.take n⟩
/-- one past the last word -/
@[inline] def stop (s : Sl) : Nat := s.off + s.ws.length
end Sl

/-- `usize::align_to(2)` = `wrapping_add(1) & !1`.  Every argument in this module is at most the
length of a slice (or a u16), so the wrapping add never wraps; see `align2_eq_alignTo64`. -/
@[inline] def align2 (x : Nat) : Nat := (x + 1) / 2 * 2

theorem align2_eq_alignTo64 (x : Nat) (h : x + 1 < 18446744073709551616) : align2 x = alignTo64 x 2 := by
  unfold align2 alignTo64 wadd64
  rw [Nat.mod_eq_of_lt h]

/-- src: util/mod.rs:wstrn — the words before the first NUL, all of them when there is none. -/
def wstrn (s : Sl) : Sl := ⟨s.off, s.ws.takeWhile (fun w => w != 0)⟩

/-- src: version_info.rs:ValueLengthType -/
inductive Vlt | zero | bytes | words
  deriving DecidableEq, Repr

/-- src: version_info.rs:TLV -/
structure Tlv where
  key : Sl
  value : Sl
  children : Sl
  deriving DecidableEq, Repr

/-- `cmp::max(4, words[0] as usize / 2)` -/
@[inline] def nodeLen (words : Sl) : Nat := max 4 (words.ws.getD 0 0 / 2)

/-- the `match state.vlt` of parse_tlv; `none` = `return Err(Invalid)` -/
@[inline] def valueLen (vlt : Vlt) (words : Sl) : Option Nat :=
  match vlt with
  | .zero => if words.ws.getD 1 0 = 0 then some 0 else none
  | .bytes => some (words.ws.getD 1 0 / 2)
  | .words => some (words.ws.getD 1 0)

/-! ### slicing and indexing of a checked build

`a[i]`, `&a[n..]` and `&a[..n]` panic when the index or the bound is out of range.  `parse_tlv` is
written with them at exactly the places where the Rust code indexes or slices; that none of the
`panic` outcomes is reachable is a theorem (`parseTlv_eq_total` below), not a convention. -/

namespace Sl
/-- `s[i]`: panics when `i ≥ s.len()` -/
@[inline] def idx (s : Sl) (i : Nat) (site : String) : Out Nat :=
  if i < s.len then .ok (s.ws.getD i 0) else .panic site
/-- `&s[n..]`: panics when `n > s.len()` -/
@[inline] def sliceFrom (s : Sl) (n : Nat) (site : String) : Out Sl :=
  if n ≤ s.len then .ok (s.drop n) else .panic site
/-- `&s[..n]`: panics when `n > s.len()` -/
@[inline] def sliceTo (s : Sl) (n : Nat) (site : String) : Out Sl :=
  if n ≤ s.len then .ok (s.take n) else .panic site

theorem idx_ok {s : Sl} {i : Nat} (h : i < s.len) (site : String) : s.idx i site = .ok (s.ws.getD i 0) := if_pos h
theorem sliceFrom_ok {s : Sl} {n : Nat} (h : n ≤ s.len) (site : String) : s.sliceFrom n site = .ok (s.drop n) := if_pos h
theorem sliceTo_ok {s : Sl} {n : Nat} (h : n ≤ s.len) (site : String) : s.sliceTo n site = .ok (s.take n) := if_pos h
theorem idx_panic {s : Sl} {i : Nat} (h : ¬ i < s.len) (site : String) : s.idx i site = .panic site := if_neg h
theorem sliceFrom_panic {s : Sl} {n : Nat} (h : ¬ n ≤ s.len) (site : String) : s.sliceFrom n site = .panic site := if_neg h
theorem sliceTo_panic {s : Sl} {n : Nat} (h : ¬ n ≤ s.len) (site : String) : s.sliceTo n site = .panic site := if_neg h
end Sl

def siteLen : String := "version_info.rs:parse_tlv words[0]"
def siteVLen : String := "version_info.rs:parse_tlv words[1]"
def siteRest : String := "version_info.rs:parse_tlv &words[cmp::min(length.align_to(2), words.len())..]"
def siteNode : String := "version_info.rs:parse_tlv &words[..length]"
def siteKey : String := "version_info.rs:parse_tlv &words[3..]"
def siteBody : String := "version_info.rs:parse_tlv &words[cmp::min(key.len().align_to(2) + 4, words.len())..]"
def siteValue : String := "version_info.rs:parse_tlv &words[..value_length]"
def siteChildren : String := "version_info.rs:parse_tlv &words[cmp::min(value.len().align_to(2), words.len())..]"

/-- src: version_info.rs:parse_tlv, every `words[i]` / `&words[a..b]` of the Rust code a panicking
operation.  Returns the TLV and the new `state.words` (on `Err` the caller, `Parser::next`, empties
`state.words`, so the value assigned before the error is never observed).
`key.len().align_to(2) + 4` cannot overflow: a `&[u16]` has fewer than 2^62 elements (a Rust slice
is at most `isize::MAX` bytes). -/
def parseTlv (vlt : Vlt) (words : Sl) : Out (Tlv × Sl) :=
  if words.len < 4 then .err .invalid else do
  -- let length = cmp::max(4, words[0] as usize / 2);
  let w0 ← words.idx 0 siteLen
  let length := max 4 (w0 / 2)
  -- let value_length = match state.vlt { .. words[1] .. };
  let valueLength ← (match vlt with
    | .zero => do
      let w1 ← words.idx 1 siteVLen
      if w1 = 0 then pure 0 else .err .invalid
    | .bytes => do
      let w1 ← words.idx 1 siteVLen
      pure (w1 / 2)
    | .words => words.idx 1 siteVLen : Out Nat)
  if length > words.len then .err .invalid else do
  -- state.words = &words[cmp::min(length.align_to(2), words.len())..];
  let rest ← words.sliceFrom (min (align2 length) words.len) siteRest
  -- words = &words[..length];
  let node ← words.sliceTo length siteNode
  -- let key = wstrn(&words[3..]);
  let tail ← node.sliceFrom 3 siteKey
  let key := wstrn tail
  -- if words[3..].len() == key.len()
  let tail' ← node.sliceFrom 3 siteKey
  if tail'.len = key.len then .err .invalid else do
  -- words = &words[cmp::min(key.len().align_to(2) + 4, words.len())..];
  let body ← node.sliceFrom (min (align2 key.len + 4) node.len) siteBody
  if valueLength > body.len then .err .invalid else do
  -- let value = &words[..value_length];
  let value ← body.sliceTo valueLength siteValue
  -- let children = &words[cmp::min(value.len().align_to(2), words.len())..];
  let children ← body.sliceFrom (min (align2 value.len) body.len) siteChildren
  pure (⟨key, value, children⟩, rest)

/-- `parse_tlv` with total `take` / `drop` in place of the panicking operations: what `parseTlv`
computes once its panic branches are known to be unreachable.  Not run by the driver; the lemmas
about `parseTlv` go through it. -/
def parseTlvTotal (vlt : Vlt) (words : Sl) : Out (Tlv × Sl) :=
  if words.len < 4 then .err .invalid else
  let length := nodeLen words
  match valueLen vlt words with
  | none => .err .invalid
  | some valueLength =>
    if length > words.len then .err .invalid else
    let rest := words.drop (min (align2 length) words.len)
    let node := words.take length
    let tail := node.drop 3
    let key := wstrn tail
    if tail.len = key.len then .err .invalid else
    let body := node.drop (min (align2 key.len + 4) node.len)
    if valueLength > body.len then .err .invalid else
    let value := body.take valueLength
    let children := body.drop (min (align2 value.len) body.len)
    .ok (⟨key, value, children⟩, rest)

/-- the part of `parse_tlv` after the value length has been determined -/
theorem parseTlv_tail_eq (words : Sl) (valueLength : Nat) :
    (if max 4 (words.ws.getD 0 0 / 2) > words.len then Out.err Err.invalid
        else do
          let rest ← words.sliceFrom (min (align2 (max 4 (words.ws.getD 0 0 / 2))) words.len) siteRest
          let node ← words.sliceTo (max 4 (words.ws.getD 0 0 / 2)) siteNode
          let tail ← node.sliceFrom 3 siteKey
          let tail' ← node.sliceFrom 3 siteKey
          if tail'.len = (wstrn tail).len then Out.err Err.invalid
            else do
              let body ← node.sliceFrom (min (align2 (wstrn tail).len + 4) node.len) siteBody
              if valueLength > body.len then Out.err Err.invalid
                else do
                  let value ← body.sliceTo valueLength siteValue
                  let children ← body.sliceFrom (min (align2 value.len) body.len) siteChildren
                  pure (({ key := wstrn tail, value := value, children := children } : Tlv), rest)) =
      (if nodeLen words > words.len then Out.err Err.invalid
      else
        let rest := words.drop (min (align2 (nodeLen words)) words.len)
        let node := words.take (nodeLen words)
        let tail := node.drop 3
        let key := wstrn tail
        if tail.len = key.len then .err .invalid else
        let body := node.drop (min (align2 key.len + 4) node.len)
        if valueLength > body.len then .err .invalid else
        let value := body.take valueLength
        let children := body.drop (min (align2 value.len) body.len)
        .ok (⟨key, value, children⟩, rest)) := by
  have hnl : max 4 (words.ws.getD 0 0 / 2) = nodeLen words := rfl
  simp only [hnl]
  by_cases hL : nodeLen words > words.len
  · simp only [hL, if_true]
  · simp only [hL, if_false]
    -- &words[cmp::min(length.align_to(2), words.len())..]: the bound is clamped to the length
    rw [Sl.sliceFrom_ok (Nat.min_le_right _ _)]
    -- &words[..length]: `length > words.len()` has returned
    rw [Sl.sliceTo_ok (Nat.le_of_not_gt hL)]
    simp only [Out.bind_ok]
    -- &words[3..]: the node has `length = max(4, _)` words
    have h3 : 3 ≤ (words.take (nodeLen words)).len := by
      have := Nat.le_max_left 4 (words.ws.getD 0 0 / 2)
      rw [hnl] at this
      simp only [Sl.len, Sl.take, List.length_take] at *
      omega
    rw [Sl.sliceFrom_ok h3]
    simp only [Out.bind_ok]
    split
    · rfl
    · -- &words[cmp::min(key.len().align_to(2) + 4, words.len())..]: clamped
      rw [Sl.sliceFrom_ok (Nat.min_le_right _ _)]
      simp only [Out.bind_ok]
      split
      · rfl
      · rename_i hv
        -- &words[..value_length]: `value_length > words.len()` has returned
        rw [Sl.sliceTo_ok (Nat.le_of_not_gt hv)]
        simp only [Out.bind_ok]
        -- &words[cmp::min(value.len().align_to(2), words.len())..]: clamped
        rw [Sl.sliceFrom_ok (Nat.min_le_right _ _)]
        rfl

/-- **No index and no slice bound of `parse_tlv` is ever out of range**: each panicking operation
is preceded by a check (or a `cmp::min` / `cmp::max` clamp) that implies its range condition, so
the checked function is the total one. -/
theorem parseTlv_eq_total (vlt : Vlt) (words : Sl) : parseTlv vlt words = parseTlvTotal vlt words := by
  unfold parseTlv parseTlvTotal
  by_cases h4 : words.len < 4
  · simp only [h4, if_true]
  · simp only [h4, if_false]
    -- words[0], words[1]: `words.len() < 4` has returned
    have i0 : 0 < words.len := by omega
    have i1 : 1 < words.len := by omega
    simp only [Sl.idx_ok i0, Sl.idx_ok i1, Out.bind_ok]
    cases vlt
    · simp only [valueLen]
      by_cases h1 : words.ws.getD 1 0 = 0
      · simp only [h1, if_true, Out.pure_eq, Out.bind_ok]
        exact parseTlv_tail_eq words 0
      · simp only [h1, if_false, Out.bind_err]
    · simp only [valueLen, Out.pure_eq, Out.bind_ok]
      exact parseTlv_tail_eq words _
    · simp only [valueLen, Out.bind_ok]
      exact parseTlv_tail_eq words _

/-- every successful `parse_tlv` shortens the parser's input: the loop below terminates -/
theorem parseTlv_rest_lt {vlt : Vlt} {words : Sl} {t : Tlv} {rest : Sl}
    (h : parseTlv vlt words = .ok (t, rest)) : rest.len < words.len := by
  rw [parseTlv_eq_total] at h
  unfold parseTlvTotal at h
  dsimp only at h
  repeat' (split at h)
  all_goals first
    | (cases h; done)
    | (cases h
       simp only [Sl.len, Sl.drop, List.length_drop, nodeLen, align2] at *
       omega)

/-- src: version_info.rs `for tlv in Parser { words, vlt }.filter_map(Result::ok) { body }`.
`Parser::next`: `None` on empty input; an `Err` item empties the input (so the following `next` is
`None`) and is dropped by `filter_map`; a panic of `parse_tlv` propagates.
`step` is the loop body; its `Bool` says whether the loop goes on (`false` = the body `return`ed). -/
def forEach {σ : Type} (vlt : Vlt) (step : Tlv → σ → Out (σ × Bool)) (words : Sl) (s : σ) : Out σ :=
  if words.len = 0 then .ok s else
  match _h : parseTlv vlt words with
  | .ok (tlv, rest) =>
    match step tlv s with
    | .ok (s', true) => forEach vlt step rest s'
    | .ok (s', false) => .ok s'
    | .err e => .err e
    | .panic m => .panic m
    | .ub m => .ub m
    | .diverge => .diverge
  | .err _ => .ok s
  | .panic m => .panic m
  | .ub m => .ub m
  | .diverge => .diverge
termination_by words.len
decreasing_by exact parseTlv_rest_lt _h

/-- src: version_info.rs:Visit (the `&mut self` is threaded as `σ`) -/
structure Visitor (σ : Type) where
  versionInfo : σ → Sl → Option Sl → σ × Bool
  fileInfo : σ → Sl → σ × Bool
  stringTable : σ → Sl → σ × Bool
  string : σ → Sl → Sl → σ
  var : σ → Sl → Sl → σ
  enterScope : σ → Nat → σ
  exitScope : σ → Nat → σ

/-- src: version_info.rs:Visit — the provided (default) methods -/
def Visitor.default {σ : Type} : Visitor σ where
  versionInfo s _ _ := (s, true)
  fileInfo s _ := (s, true)
  stringTable s _ := (s, true)
  string s _ _ := s
  var s _ _ := s
  enterScope s _ := s
  exitScope s _ := s

-- src: version_info.rs:mod strings
def strStringFileInfo : List Nat := [83, 116, 114, 105, 110, 103, 70, 105, 108, 101, 73, 110, 102, 111]
def strVarFileInfo : List Nat := [86, 97, 114, 70, 105, 108, 101, 73, 110, 102, 111]
def strTranslation : List Nat := [84, 114, 97, 110, 115, 108, 97, 116, 105, 111, 110]

/-- "Strip the nul terminator...": `if value.last() != Some(&0) { value } else { &value[..len-1] }`
(total form, see `stripNulChk`) -/
def stripNul (v : Sl) : Sl :=
  if v.ws.getLast? ≠ some 0 then v else v.take (v.len - 1)

def siteStripSub : String := "version_info.rs:visit string.value.len() - 1 (attempt to subtract with overflow)"
def siteStrip : String := "version_info.rs:visit &string.value[..string.value.len() - 1]"

/-- src: version_info.rs:visit "Strip the nul terminator..." as a checked build runs it: the `usize`
subtraction panics on underflow, the slicing when its bound is out of range. -/
def stripNulChk (v : Sl) : Out Sl :=
  if v.ws.getLast? ≠ some 0 then .ok v else
  if v.len < 1 then .panic siteStripSub else
  v.sliceTo (v.len - 1) siteStrip

/-- neither panic is reachable: a slice whose last word is `0` is not empty -/
theorem stripNulChk_eq (v : Sl) : stripNulChk v = .ok (stripNul v) := by
  unfold stripNulChk stripNul
  by_cases h : v.ws.getLast? ≠ some 0
  · rw [if_pos h, if_pos h]
  · rw [if_neg h, if_neg h]
    have hne : ¬ v.len < 1 := by
      intro hlt
      have h0 : v.ws = [] := List.eq_nil_of_length_eq_zero (by simp only [Sl.len] at hlt; omega)
      exact h (by rw [h0]; simp)
    rw [if_neg hne, Sl.sliceTo_ok (Nat.sub_le _ _)]

def siteFixed : String := "version_info.rs:visit &*(value.as_ptr() as *const VS_FIXEDFILEINFO)"

/-- `match mem::size_of_val(value) { 0 => None, 52 => Some(&*(ptr as *const VS_FIXEDFILEINFO)), _ => None }`.
The block starts 4-aligned (`try_from`), so the unchecked cast is aligned iff the word offset is even. -/
def fixedOf (value : Sl) : Out (Option Sl) :=
  if value.len * 2 = 0 then .ok none
  else if value.len * 2 = 52 then (if value.off % 2 = 0 then .ok (some value) else .ub siteFixed)
  else .ok none

section visit
variable {σ : Type} (V : Visitor σ)

/-- innermost loop of `visit`: the strings of one string table -/
def visitStrings (children : Sl) (s : σ) : Out σ :=
  forEach .words (fun str s =>
    match stripNulChk str.value with
    | .ok value => .ok (V.string s str.key value, true)
    | .err e => .err e | .panic m => .panic m | .ub m => .ub m | .diverge => .diverge) children s

/-- the string tables of a `StringFileInfo` block -/
def visitTables (children : Sl) (s : σ) : Out σ :=
  forEach .zero (fun st s =>
    match V.stringTable s st.key with
    | (s, false) => .ok (s, true)             -- continue
    | (s, true) =>
      match visitStrings V st.children (V.enterScope s 2) with
      | .ok s => .ok (V.exitScope s 2, true)
      | .err e => .err e | .panic m => .panic m | .ub m => .ub m | .diverge => .diverge) children s

/-- the vars of a `VarFileInfo` block -/
def visitVars (children : Sl) (s : σ) : Out σ :=
  forEach .bytes (fun var s => .ok (V.var s var.key var.value, true)) children s

/-- the children of the root: `StringFileInfo` / `VarFileInfo` / anything else -/
def visitInfos (children : Sl) (s : σ) : Out σ :=
  forEach .zero (fun fi s =>
    match V.fileInfo s fi.key with
    | (s, false) => .ok (s, true)             -- continue
    | (s, true) =>
      let s := V.enterScope s 1
      let r : Out σ :=
        if fi.key.ws = strStringFileInfo then visitTables V fi.children s
        else if fi.key.ws = strVarFileInfo then visitVars V fi.children s
        else .ok s
      match r with
      | .ok s => .ok (V.exitScope s 1, true)
      | .err e => .err e | .panic m => .panic m | .ub m => .ub m | .diverge => .diverge) children s

/-- src: version_info.rs:VersionInfo::visit -/
def visit (words : Sl) (s : σ) : Out σ :=
  forEach .bytes (fun vi s =>
    match fixedOf vi.value with
    | .ok fixed =>
      match V.versionInfo s vi.key fixed with
      | (s, false) => .ok (s, true)           -- continue
      | (s, true) =>
        match visitInfos V vi.children (V.enterScope s 0) with
        | .ok s => .ok (V.exitScope s 0, false)   -- "Ignore any additional version infos...": return
        | .err e => .err e | .panic m => .panic m | .ub m => .ub m | .diverge => .diverge
    | .err e => .err e | .panic m => .panic m | .ub m => .ub m | .diverge => .diverge) words s

end visit

/-! ### the event list: a visitor that records every callback -/

inductive Event where
  | versionInfo (key : Sl) (fixed : Option Sl)
  | fileInfo (key : Sl)
  | stringTable (lang : Sl)
  | string (key value : Sl)
  | var (key value : Sl)
  | enter (depth : Nat)
  | exit (depth : Nat)
  deriving DecidableEq, Repr

def recorder : Visitor (List Event) where
  versionInfo s k f := (s ++ [.versionInfo k f], true)
  fileInfo s k := (s ++ [.fileInfo k], true)
  stringTable s k := (s ++ [.stringTable k], true)
  string s k v := s ++ [.string k v]
  var s k v := s ++ [.var k v]
  enterScope s d := s ++ [.enter d]
  exitScope s d := s ++ [.exit d]

def events (words : Sl) : Out (List Event) := visit recorder words []

/-- bit `i` of a 64-bit mask -/
def maskBit (m i : Nat) : Bool := decide (i < 64) && m.testBit i

/-- a user visitor that records every callback and DECLINES (returns `false` from) the i-th
`file_info` callback iff bit i of `fmask` is set and the j-th `string_table` callback iff bit j of
`tmask` is set (state: events, `file_info` callbacks so far, `string_table` callbacks so far; declined
callbacks are counted and recorded).  Not part of the crate: the visitor of the `events_skip2`
operation (harness/src/ops_version.rs `Recorder`), which exercises the two `continue`s of the nested
loops of `visit`. -/
def recorderSkip2 (fmask tmask : Nat) : Visitor (List Event × Nat × Nat) where
  versionInfo s k f := ((s.1 ++ [.versionInfo k f], s.2), true)
  fileInfo s k := ((s.1 ++ [.fileInfo k], s.2.1 + 1, s.2.2), !maskBit fmask s.2.1)
  stringTable s k := ((s.1 ++ [.stringTable k], s.2.1, s.2.2 + 1), !maskBit tmask s.2.2)
  string s k v := (s.1 ++ [.string k v], s.2)
  var s k v := (s.1 ++ [.var k v], s.2)
  enterScope s d := (s.1 ++ [.enter d], s.2)
  exitScope s d := (s.1 ++ [.exit d], s.2)

/-! ### Language -/

structure Language where
  langId : Nat
  charsetId : Nat
  deriving DecidableEq, Repr, Inhabited

/-- src: version_info.rs:Language::parse::digit (u16 wrapping arithmetic) -/
def digit (word : Nat) : Nat :=
  let num := (word + 65536 - 48) % 65536
  let upper := ((word + 65536 - 65) % 65536 + 10) % 65536
  let lower := ((word + 65536 - 97) % 65536 + 10) % 65536
  if word ≥ 97 then lower else if word ≥ 65 then upper else num

/-- `d << n` on u16 (no overflow check on the value, bits shifted out are lost) -/
@[inline] def shl16 (d n : Nat) : Nat := (d * 2 ^ n) % 65536

/-- src: version_info.rs:Language::parse — `none` = `Err(lang)` -/
def Language.parse (lang : List Nat) : Option Language :=
  if lang.length ≠ 8 then none else
  let d (i : Nat) := digit (lang.getD i 0)
  some ⟨shl16 (d 0) 12 ||| shl16 (d 1) 8 ||| shl16 (d 2) 4 ||| d 3,
        shl16 (d 4) 12 ||| shl16 (d 5) 8 ||| shl16 (d 6) 4 ||| d 7⟩

/-- src: version_info.rs:Language::from_slice — `words.len() / 2` pairs -/
def langsOf : List Nat → List Language
  | a :: b :: rest => ⟨a, b⟩ :: langsOf rest
  | _ => []

/-! ### UTF-16 (std: `char::decode_utf16`, `String::from_utf16_lossy`) -/

inductive Dec where
  | ok (c : Nat)
  | bad (u : Nat)
  deriving DecidableEq, Repr

@[inline] def isSurrogate (u : Nat) : Bool := 0xD800 ≤ u && u ≤ 0xDFFF

/-- std: `DecodeUtf16::next`, collected -/
def decode16 : List Nat → List Dec
  | [] => []
  | [u] => if !isSurrogate u then [.ok u] else [.bad u]
  | u :: u2 :: rest =>
    if !isSurrogate u then .ok u :: decode16 (u2 :: rest)
    else if u ≥ 0xDC00 then .bad u :: decode16 (u2 :: rest)
    else if u2 < 0xDC00 || u2 > 0xDFFF then .bad u :: decode16 (u2 :: rest)
    else .ok ((u % 1024) * 1024 + u2 % 1024 + 65536) :: decode16 rest

/-- a Rust `String`: its chars as scalar values -/
abbrev Str := List Nat

/-- `String::from_utf16_lossy` -/
def lossy (ws : List Nat) : Str :=
  (decode16 ws).map fun | .ok c => c | .bad _ => 0xFFFD

/-! ### the query visitors -/

/-- src: QueryFixed -/
def queryFixed : Visitor (Option Sl) :=
  { Visitor.default with
    versionInfo := fun _ _ fixed => (fixed, true)
    fileInfo := fun s _ => (s, false) }

/-- src: VersionInfo::fixed -/
def fixed (words : Sl) : Out (Option Sl) := visit queryFixed words none

/-- src: QueryTranslation; `none` = the initial `&[]` -/
def queryTranslation : Visitor (Option Sl) :=
  { Visitor.default with
    fileInfo := fun s key => (s, key.ws = strVarFileInfo)
    var := fun s key value => if key.ws = strTranslation then some value else s }

/-- src: VersionInfo::translation — the slice that is reinterpreted as `&[Language]` -/
def translation (words : Sl) : Out (Option Sl) := visit queryTranslation words none

def langMatch (lang : Language) (key : Sl) : Bool :=
  match Language.parse key.ws with
  | some l => l = lang
  | none => false

/-- src: QueryValue -/
def queryValue (lang : Language) (key : Str) : Visitor (Option Str) :=
  { Visitor.default with
    fileInfo := fun s k => (s, k.ws = strStringFileInfo)
    stringTable := fun s l => (s, langMatch lang l)
    string := fun s k v => if key.map Dec.ok = decode16 k.ws then some (lossy v.ws) else s }

/-- src: VersionInfo::value -/
def value (words : Sl) (lang : Language) (key : Str) : Out (Option Str) :=
  visit (queryValue lang key) words none

/-- src: QueryStrings with the closure `|k, v| out.push((k, v))` -/
def queryStrings (lang : Language) : Visitor (List (Str × Str)) :=
  { Visitor.default with
    stringTable := fun s l => (s, langMatch lang l)
    string := fun s k v => s ++ [(lossy k.ws, lossy v.ws)] }

/-- src: VersionInfo::strings -/
def strings (words : Sl) (lang : Language) : Out (List (Str × Str)) :=
  visit (queryStrings lang) words []

/-- `HashMap::insert` on an association list (order is not observable: dumps are printed sorted) -/
def amInsert {κ ν : Type} [DecidableEq κ] (k : κ) (v : ν) : List (κ × ν) → List (κ × ν)
  | [] => [(k, v)]
  | (k', v') :: m => if k' = k then (k, v) :: m else (k', v') :: amInsert k v m

def amLookup {κ ν : Type} [DecidableEq κ] (k : κ) : List (κ × ν) → Option ν
  | [] => none
  | (k', v') :: m => if k' = k then some v' else amLookup k m

/-- src: FileInfo -/
structure FileInfo where
  fixed : Option Sl := none
  strings : List (Language × List (Str × Str)) := []
  langs : Option Sl := none
  lang : Language := ⟨0, 0⟩
  deriving Repr

/-- src: impl Visit for FileInfo -/
def fileInfoVisitor : Visitor FileInfo :=
  { Visitor.default with
    versionInfo := fun s _ fixed => ({ s with fixed := fixed }, true)
    stringTable := fun s l =>
      match Language.parse l.ws with
      | some lang => ({ s with lang := lang, strings := amInsert lang [] s.strings }, true)
      | none => (s, false)
    string := fun s k v =>
      match amLookup s.lang s.strings with
      | some entry => { s with strings := amInsert s.lang (amInsert (lossy k.ws) (lossy v.ws) entry) s.strings }
      | none => s
    var := fun s key value => if key.ws = strTranslation then { s with langs := some value } else s }

/-- src: VersionInfo::file_info -/
def fileInfo (words : Sl) : Out FileInfo := visit fileInfoVisitor words {}

/-! ### source-code rendering -/

def str (s : String) : Str := s.toList.map Char.toNat
def dec (n : Nat) : Str := str (toString n)
/-- `{:#x}` -/
def hexx (n : Nat) : Str := str "0x" ++ (Nat.toDigits 16 n).map Char.toNat
/-- `{:04x}` -/
def hex04 (n : Nat) : Str :=
  let d := (Nat.toDigits 16 n).map Char.toNat
  List.replicate (4 - d.length) 48 ++ d

/-- src: util/wide_str.rs: impl Debug for FmtUtf16 -/
def fmtDebug (ws : List Nat) : Str :=
  str "L\"" ++ (decode16 ws).flatMap (fun
    | .ok 0 => str "\\0"
    | .ok 10 => str "\\n"
    | .ok 13 => str "\\r"
    | .ok 9 => str "\\t"
    | .ok 34 => str "\\\""
    | .ok 92 => str "\\\\"
    | .ok c => [c]
    | .bad u => str "\\u" ++ hex04 u) ++ str "\""

/-- the header the `String` visitor writes for `Some(fixed)`; `f` = the 26 words of VS_FIXEDFILEINFO
(dwSignature, dwStrucVersion, dwFileVersion{Minor,Major,Build,Patch}, dwProductVersion{..},
dwFileFlagsMask, dwFileFlags, dwFileOS, dwFileType, dwFileSubtype, dwFileDateMS, dwFileDateLS) -/
def renderFixed (f : List Nat) : Str :=
  let w (i : Nat) := f.getD i 0
  let d (i : Nat) := w i + 65536 * w (i + 1)
  str "1 VERSIONINFO\nFILEVERSION " ++ dec (w 5) ++ str ", " ++ dec (w 4) ++ str ", " ++ dec (w 7) ++ str ", " ++ dec (w 6)
  ++ str "\nPRODUCTVERSION " ++ dec (w 9) ++ str ", " ++ dec (w 8) ++ str ", " ++ dec (w 11) ++ str ", " ++ dec (w 10)
  ++ str "\nFILEFLAGSMASK " ++ hexx (d 12)
  ++ str "\nFILEFLAGS " ++ hexx (d 14)
  ++ str "\nFILEOS (" ++ dec (d 16 / 65536) ++ str " << 16) | " ++ dec (d 16 % 65536)
  ++ str "\nFILETYPE " ++ dec (d 18)
  ++ str "\nFILESUBTYPE " ++ dec (d 20) ++ str "\n"

/-- `&"        "[..depth * 2]` -/
def indent (depth : Nat) : Str := List.replicate (depth * 2) 32

/-- what one callback appends to the `String` visitor -/
def renderEvent : Event → Str
  | .versionInfo _ (some f) => renderFixed f.ws
  | .versionInfo _ none => []
  | .fileInfo k => str "  BLOCK " ++ fmtDebug k.ws ++ str "\n"
  | .stringTable l => str "    BLOCK " ++ fmtDebug l.ws ++ str "\n"
  | .string k v => str "      VALUE " ++ fmtDebug k.ws ++ str ", " ++ fmtDebug v.ws ++ str "\n"
  | .var k v =>
    if k.ws ≠ strTranslation then [] else
    str "    VALUE " ++ fmtDebug k.ws
      ++ (langsOf v.ws).flatMap (fun l => str ", " ++ dec l.langId ++ str ", " ++ dec l.charsetId) ++ str "\n"
  | .enter d => indent d ++ str "{\n"
  | .exit d => indent d ++ str "}\n"

/-- src: impl Visit for String -/
def sourceVisitor : Visitor Str where
  versionInfo s k f := (s ++ renderEvent (.versionInfo k f), true)
  fileInfo s k := (s ++ renderEvent (.fileInfo k), true)
  stringTable s l := (s ++ renderEvent (.stringTable l), true)
  string s k v := s ++ renderEvent (.string k v)
  var s k v := s ++ renderEvent (.var k v)
  enterScope s d := s ++ renderEvent (.enter d)
  exitScope s d := s ++ renderEvent (.exit d)

/-- src: VersionInfo::source_code -/
def sourceCode (words : Sl) : Out Str := visit sourceVisitor words []

/-! ### try_from -/

/-- the u16 words of a byte buffer: `from_raw_parts(ptr as *const u16, len / 2)` -/
def wordsOfBytes (b : Bytes) : List Nat := (List.range (b.size / 2)).map fun i => le16 b (2 * i)

/-- src: VersionInfo::try_from; `base` = address of `bytes[0]` -/
def tryFrom (base : Nat) (bytes : Bytes) : Out Sl :=
  if base % 4 ≠ 0 then .err .misaligned else .ok ⟨0, wordsOfBytes bytes⟩

end Pelite.Version
