import PeliteModel.Model.JsonDirs
/-!
Model of `util::WideStr` (src/util/wide_str.rs), the length-prefixed UTF-16 string of resource names
and version information: the constructor `from_words`, the formatters `impl fmt::Display` /
`impl fmt::Debug` (both through `FmtUtf16`), `to_string`, and `impl PartialEq<str>`.

Reach: the crate does not export `WideStr` itself (`// pub use self::wide_str::WideStr;` in util/mod.rs) —
what the public API runs is `FmtUtf16`'s Debug, through `VersionInfo::source_code()`; `Thm/C13WFmt.lean`
proves this model equal to the version model's independent transcription (`Version.fmtDebug`), which the
`source` operation compares with the real code.  The other definitions transcribe the unexported rest of the file.

Strings are lists of 16-bit code units (`List Nat`, every element < 2^16); outputs are the UTF-8 bytes
written to the formatter.  `char::decode_utf16` is `Resources.decodeUtf16`, `String::push(char)` /
`write_char` is `Pe.utf8Enc` — the definitions the resource and serializer models already use, so the
formatter, the name comparison of `find` and the serializer of wide names share one decoder.
-/
namespace Pelite.WStrFmt
open Pelite.Resources (decodeUtf16 U16Item)
open Pelite.Pe (utf8Enc)

/-- src: wide_str.rs:WideStr::from_words — `len = words[0] + 1; words.get(0..len)`; the model returns the
string's code units (`Deref`: `words[1..]`) -/
def fromWords : List Nat → Option (List Nat)
  | [] => none
  | n :: rest => if n ≤ rest.length then some (rest.take n) else none

/-- src: wide_str.rs:<FmtUtf16 as fmt::Display>::fmt — one decoded item -/
def displayItem : U16Item → List Nat
  | .ok c => utf8Enc c
  | .bad _ => utf8Enc 0xFFFD                                   -- char::REPLACEMENT_CHARACTER

/-- src: wide_str.rs:<FmtUtf16 as fmt::Display>::fmt -/
def display (ws : List Nat) : List Nat := (decodeUtf16 ws).flatMap displayItem

def hexDigitL (n : Nat) : Nat := if n < 10 then 48 + n else 87 + n          -- '0'..'9', 'a'..'f'
/-- `write!(f, "\\u{:04x}", e.unpaired_surrogate())`; an unpaired surrogate is ≥ 0xD800, so exactly four digits -/
def escU (u : Nat) : List Nat :=
  [92, 117, hexDigitL (u / 4096 % 16), hexDigitL (u / 256 % 16), hexDigitL (u / 16 % 16), hexDigitL (u % 16)]

/-- src: wide_str.rs:<FmtUtf16 as fmt::Debug>::fmt — one decoded item -/
def debugItem : U16Item → List Nat
  | .ok c =>
    if c = 0 then [92, 48]                                      -- "\\0"
    else if c = 10 then [92, 110]                               -- "\\n"
    else if c = 13 then [92, 114]                               -- "\\r"
    else if c = 9 then [92, 116]                                -- "\\t"
    else if c = 34 then [92, 34]                                -- "\\\""
    else if c = 92 then [92, 92]                                -- "\\\\"
    else utf8Enc c
  | .bad u => escU u

/-- src: wide_str.rs:<FmtUtf16 as fmt::Debug>::fmt — `L"` … `"` -/
def debug (ws : List Nat) : List Nat := [76, 34] ++ (decodeUtf16 ws).flatMap debugItem ++ [34]

/-- src: wide_str.rs:WideStr::to_string — `decode_utf16(..).collect::<Result<String, _>>()`: the UTF-8
text, or the first unpaired surrogate -/
def toStringItems : List U16Item → Except Nat (List Nat)
  | [] => .ok []
  | .ok c :: rest =>
    match toStringItems rest with
    | .ok s => .ok (utf8Enc c ++ s)
    | .error u => .error u
  | .bad u :: _ => .error u

def toString (ws : List Nat) : Except Nat (List Nat) := toStringItems (decodeUtf16 ws)

/-- src: wide_str.rs:<WideStr as PartialEq<str>>::eq — `decode_utf16(self).eq(rhs.chars().map(Ok))`,
`rhs` given by its scalar values -/
def eqChars (ws : List Nat) (chars : List Nat) : Bool := decide (decodeUtf16 ws = chars.map U16Item.ok)

end Pelite.WStrFmt
