import PeliteModel.Model.Exports
/-!
Model of the format agnostic export API: `src/wrap/exports.rs` (and `Wrap<Pe32, Pe64>::exports` of
`src/wrap/pe.rs`), method for method.

`enum Wrap<T32, T64> { T32(T32), T64(T64) }` (src/wrap/mod.rs).  `pe32::exports` is the source file
`pe64/exports.rs` compiled a second time (`#[path = "../pe64/exports.rs"]` in src/pe32/mod.rs), so
both payload types are modelled by the one `Exports` / `By` of `Model/Exports.lean`; the variant is
kept, and every wrapper method is the `match self { Wrap::T32(x) => …, Wrap::T64(x) => … }` of the
source with the arm it has there.

Almost every method forwards to the method of the same name in both arms.  Three do NOT: the
iterators `By::iter`, `By::iter_names` and `By::iter_name_indices` are written out a second time on
top of the forwarding accessors (`self.functions()`, `self.names()`, `self.name_indices()`,
`self.symbol_from_rva(..)`, `self.name_of_hint(..)`, `self.hint(..)`).  They are modelled the same
way here — from the *wrapper's* accessors, not from the format specific iterators — and
`Thm/C19Wrap.lean` proves each equal to its format specific twin.  The driver answers the `wf` / `wv`
operations of the `exports` / `export` families through this file.

`len() as u32` in the three iterators (and in their twins): a table of `By` has at most
`NumberOfFunctions` / `NumberOfNames` (32-bit fields) elements, the cast is the identity
(`C19_wrap_len_fits_u32`); the model keeps the count as it is, like `Model/Exports.lean`.
-/
namespace Pelite.Exports
open Pelite.Pe

/-- `Wrap<T32, T64>` for payloads that share one model type -/
inductive Wrap (α : Type)
  | t32 (x : α)
  | t64 (x : α)

/-- the payload of either variant -/
def Wrap.get {α} : Wrap α → α
  | .t32 x => x
  | .t64 x => x

/-- `Wrap<PeFile32, PeFile64>` / `Wrap<PeView32, PeView64>`: `wrapFromBytes` answers a view whose
format says which variant `PeFile::from_bytes` / `PeView::from_bytes` (src: wrap/pe.rs) built -/
def Wrap.ofView (v : View) : Wrap View :=
  match v.fmt with
  | .pe32 => .t32 v
  | .pe64 => .t64 v

/-- `Wrap<T32, T64>::transpose` for `Wrap<Result<T32>, Result<T64>>` (src: wrap/mod.rs) -/
def Wrap.transpose {α} : Wrap (Out α) → Out (Wrap α)
  | .t32 x => x.bind fun a => .ok (.t32 a)
  | .t64 x => x.bind fun a => .ok (.t64 a)

abbrev WExports := Wrap Exports
abbrev WBy := Wrap By

-- src: wrap/pe.rs:Wrap<Pe32, Pe64>::exports   (`pe32.exports().map(Wrap::T32)`; `Pe::exports` = `Exports::try_from`)
def wExports (p : Wrap View) : Out WExports :=
  match p with
  | .t32 pe32 => (tryFrom pe32).bind fun e => .ok (.t32 e)
  | .t64 pe64 => (tryFrom pe64).bind fun e => .ok (.t64 e)

/-! ### `impl Wrap<pe32::exports::Exports, pe64::exports::Exports>` — every method forwards -/

-- src: wrap/exports.rs:Exports::image
def WExports.image (w : WExports) : Ref :=
  match w with
  | .t32 exports => exports.image
  | .t64 exports => exports.image
-- src: wrap/exports.rs:Exports::dll_name
def WExports.dllName (w : WExports) : Out Ref :=
  match w with
  | .t32 exports => exports.dllName
  | .t64 exports => exports.dllName
-- src: wrap/exports.rs:Exports::ordinal_base
def WExports.ordinalBase (w : WExports) : Nat :=
  match w with
  | .t32 exports => exports.ordinalBase
  | .t64 exports => exports.ordinalBase
-- src: wrap/exports.rs:Exports::functions
def WExports.functions (w : WExports) : Out Ref :=
  match w with
  | .t32 exports => exports.functions
  | .t64 exports => exports.functions
-- src: wrap/exports.rs:Exports::names
def WExports.names (w : WExports) : Out Ref :=
  match w with
  | .t32 exports => exports.names
  | .t64 exports => exports.names
-- src: wrap/exports.rs:Exports::name_indices
def WExports.nameIndices (w : WExports) : Out Ref :=
  match w with
  | .t32 exports => exports.nameIndices
  | .t64 exports => exports.nameIndices
-- src: wrap/exports.rs:Exports::by   (`Wrap::T32(exports.by()).transpose()`)
def WExports.by (w : WExports) : Out WBy :=
  match w with
  | .t32 exports => (Wrap.t32 exports.by).transpose
  | .t64 exports => (Wrap.t64 exports.by).transpose

/-! ### `impl Wrap<pe32::exports::By, pe64::exports::By>` — the forwarding methods -/

/-- the buffer the three slices of a `By` point into -/
def WBy.b (w : WBy) : Bytes :=
  match w with
  | .t32 y => y.b
  | .t64 y => y.b

-- src: wrap/exports.rs:By::image   (through `Deref<Target = Exports>`)
def WBy.image (w : WBy) : Ref :=
  match w with
  | .t32 y => y.exp.image
  | .t64 y => y.exp.image
-- src: wrap/exports.rs:By::dll_name
def WBy.dllName (w : WBy) : Out Ref :=
  match w with
  | .t32 y => y.exp.dllName
  | .t64 y => y.exp.dllName
-- src: wrap/exports.rs:By::ordinal_base
def WBy.ordinalBase (w : WBy) : Nat :=
  match w with
  | .t32 y => y.exp.ordinalBase
  | .t64 y => y.exp.ordinalBase
-- src: wrap/exports.rs:By::functions
def WBy.functions (w : WBy) : Tab :=
  match w with
  | .t32 y => y.fns
  | .t64 y => y.fns
-- src: wrap/exports.rs:By::names
def WBy.names (w : WBy) : Tab :=
  match w with
  | .t32 y => y.names
  | .t64 y => y.names
-- src: wrap/exports.rs:By::name_indices
def WBy.nameIndices (w : WBy) : Tab :=
  match w with
  | .t32 y => y.idx
  | .t64 y => y.idx
-- src: wrap/exports.rs:By::check_sorted
def WBy.checkSorted (w : WBy) : Out Bool :=
  match w with
  | .t32 y => y.checkSorted
  | .t64 y => y.checkSorted
-- src: wrap/exports.rs:By::ordinal
def WBy.ordinal (w : WBy) (ordinal : Nat) : Out Export :=
  match w with
  | .t32 y => y.ordinal ordinal
  | .t64 y => y.ordinal ordinal
-- src: wrap/exports.rs:By::name_linear
def WBy.nameLinear (w : WBy) (name : List Nat) : Out Export :=
  match w with
  | .t32 y => y.nameLinear name
  | .t64 y => y.nameLinear name
-- src: wrap/exports.rs:By::name
def WBy.name (w : WBy) (name : List Nat) : Out Export :=
  match w with
  | .t32 y => y.name name
  | .t64 y => y.name name
-- src: wrap/exports.rs:By::import
def WBy.import (w : WBy) (i : ImportQ) : Out Export :=
  match w with
  | .t32 y => y.import i
  | .t64 y => y.import i
-- src: wrap/exports.rs:By::index
def WBy.index (w : WBy) (index : Nat) : Out Export :=
  match w with
  | .t32 y => y.index index
  | .t64 y => y.index index
-- src: wrap/exports.rs:By::hint
def WBy.hint (w : WBy) (hint : Nat) : Out Export :=
  match w with
  | .t32 y => y.hint hint
  | .t64 y => y.hint hint
-- src: wrap/exports.rs:By::hint_name
def WBy.hintName (w : WBy) (hint : Nat) (name : List Nat) : Out Export :=
  match w with
  | .t32 y => y.hintName hint name
  | .t64 y => y.hintName hint name
-- src: wrap/exports.rs:By::name_of_hint
def WBy.nameOfHint (w : WBy) (hint : Nat) : Out Ref :=
  match w with
  | .t32 y => y.nameOfHint hint
  | .t64 y => y.nameOfHint hint
-- src: wrap/exports.rs:By::name_lookup
def WBy.nameLookup (w : WBy) (index : Nat) : Out Import :=
  match w with
  | .t32 y => y.nameLookup index
  | .t64 y => y.nameLookup index
-- src: wrap/exports.rs:By::symbol_from_rva   (`o` = buffer offset of the `&'a u32`)
def WBy.symbolFromRva (w : WBy) (o : Nat) : Out Export :=
  match w with
  | .t32 y => y.exp.symbolFromRva o
  | .t64 y => y.exp.symbolFromRva o

/-! ### the hand-written twins: no `match self`, built from the wrapper's own accessors -/

-- src: wrap/exports.rs:By::iter
--   `self.functions().iter().map(move |rva| self.symbol_from_rva(rva))`
def WBy.iter (w : WBy) : List (Out Export) :=
  (List.range w.functions.cnt).map fun i => w.symbolFromRva (w.functions.off + 4 * i)

-- src: wrap/exports.rs:By::iter_names
--   `(0..self.names().len() as u32).map(move |hint| (self.name_of_hint(hint as usize), self.hint(hint as usize)))`
def WBy.iterNames (w : WBy) : List (Out Ref × Out Export) :=
  (List.range w.names.cnt).map fun hint => (w.nameOfHint hint, w.hint hint)

-- src: wrap/exports.rs:By::iter_name_indices
--   `(0..min(self.names().len(), self.name_indices().len()) as u32)
--      .map(move |hint| (self.name_of_hint(hint as usize), self.name_indices()[hint as usize] as usize))`
-- the indexing `self.name_indices()[hint]` is a checked one
def WBy.iterNameIndices (w : WBy) : List (Out (Out Ref × Nat)) :=
  (List.range (min w.names.cnt w.nameIndices.cnt)).map fun hint =>
    if hint < w.nameIndices.cnt then .ok (w.nameOfHint hint, le16 w.b (w.nameIndices.off + 2 * hint))
    else .panic "wrap iter_name_indices:self.name_indices()[hint]"

/-! ### `impl Wrap<Pe32, Pe64>`: `get_export_by_*` forward to the three `GetProcAddress::get_export` -/

-- src: wrap/exports.rs:get_export_by_ordinal
def wGetExportByOrdinal (p : Wrap View) (ordinal : Nat) : Out Export :=
  match p with
  | .t32 pe32 => getExport pe32 (.ordinal ordinal)
  | .t64 pe64 => getExport pe64 (.ordinal ordinal)
-- src: wrap/exports.rs:get_export_by_import
def wGetExportByImport (p : Wrap View) (i : ImportQ) : Out Export :=
  match p with
  | .t32 pe32 => getExport pe32 (.import i)
  | .t64 pe64 => getExport pe64 (.import i)
-- src: wrap/exports.rs:get_export_by_name
def wGetExportByName (p : Wrap View) (name : List Nat) : Out Export :=
  match p with
  | .t32 pe32 => getExport pe32 (.name name)
  | .t64 pe64 => getExport pe64 (.name name)

/-- the three `get_export_by_*` under the one argument type the driver parses -/
def wGetExport (p : Wrap View) (q : Query) : Out Export :=
  match q with
  | .name n => wGetExportByName p n
  | .ordinal o => wGetExportByOrdinal p o
  | .import i => wGetExportByImport p i

end Pelite.Exports
