/-
Primitive layer shared by every model module (DESIGN.md appendix A).
Core-only imports: the driver executable links against this.
-/
namespace Pelite

/-- The twelve `pelite::Error` kinds (src/error.rs). -/
inductive Err
  | null | bounds | zeroFill | unmapped | misaligned | badMagic | peMagic
  | insanity | invalid | overflow | encoding | aliasing
  deriving DecidableEq, Repr, Inhabited

def Err.name : Err → String
  | .null => "Null" | .bounds => "Bounds" | .zeroFill => "ZeroFill" | .unmapped => "Unmapped"
  | .misaligned => "Misaligned" | .badMagic => "BadMagic" | .peMagic => "PeMagic"
  | .insanity => "Insanity" | .invalid => "Invalid" | .overflow => "Overflow"
  | .encoding => "Encoding" | .aliasing => "Aliasing"

/-- Outcome of a modelled operation.  `panic` = a Rust panic of the checked (debug) build,
`ub` = an unchecked access outside the buffer or misaligned, `diverge` = fuel exhausted. -/
inductive Out (α : Type)
  | ok (a : α)
  | err (e : Err)
  | panic (site : String)
  | ub (site : String)
  | diverge
  deriving Repr, DecidableEq

namespace Out
@[inline] def bind {α β} (x : Out α) (f : α → Out β) : Out β :=
  match x with
  | ok a => f a
  | err e => err e
  | panic s => panic s
  | ub s => ub s
  | diverge => diverge

instance : Monad Out where
  pure := Out.ok
  bind := Out.bind

def isOk {α} : Out α → Bool | ok _ => true | _ => false
def isPanic {α} : Out α → Bool | panic _ => true | _ => false
def isUb {α} : Out α → Bool | ub _ => true | _ => false
def isDiverge {α} : Out α → Bool | diverge => true | _ => false

def ofOption {α} (e : Err) : Option α → Out α
  | some a => ok a
  | none => err e

@[simp] theorem bind_ok {α β} (a : α) (f : α → Out β) : (Out.ok a >>= f) = f a := rfl
@[simp] theorem bind_err {α β} (e : Err) (f : α → Out β) : (Out.err e >>= f) = Out.err e := rfl
@[simp] theorem bind_panic {α β} (s) (f : α → Out β) : (Out.panic s >>= f) = Out.panic s := rfl
@[simp] theorem bind_ub {α β} (s) (f : α → Out β) : (Out.ub s >>= f) = Out.ub s := rfl
@[simp] theorem bind_diverge {α β} (f : α → Out β) : ((Out.diverge : Out α) >>= f) = Out.diverge := rfl
@[simp] theorem pure_eq {α} (a : α) : (pure a : Out α) = Out.ok a := rfl
end Out

abbrev Bytes := Array UInt8

def U8 : Nat := 256
def U16 : Nat := 65536
def U32 : Nat := 4294967296
def U64 : Nat := 18446744073709551616

/-- byte at `i` as a `Nat`, 0 when out of range (callers check the range first). -/
@[inline] def byteAt (b : Bytes) (i : Nat) : Nat := (b.getD i 0).toNat

theorem byteAt_lt (b : Bytes) (i : Nat) : byteAt b i < 256 := by
  unfold byteAt; exact UInt8.toNat_lt _

/-- little-endian reads (unchecked: caller has established the range). -/
@[inline] def le16 (b : Bytes) (i : Nat) : Nat := byteAt b i + 256 * byteAt b (i+1)
@[inline] def le32 (b : Bytes) (i : Nat) : Nat :=
  byteAt b i + 256 * byteAt b (i+1) + 65536 * byteAt b (i+2) + 16777216 * byteAt b (i+3)
@[inline] def le64 (b : Bytes) (i : Nat) : Nat := le32 b i + 4294967296 * le32 b (i+4)

theorem le16_lt (b : Bytes) (i : Nat) : le16 b i < 65536 := by
  have := byteAt_lt b i; have := byteAt_lt b (i+1); unfold le16; omega
theorem le32_lt (b : Bytes) (i : Nat) : le32 b i < 4294967296 := by
  have := byteAt_lt b i; have := byteAt_lt b (i+1); have := byteAt_lt b (i+2); have := byteAt_lt b (i+3)
  unfold le32; omega
theorem le64_lt (b : Bytes) (i : Nat) : le64 b i < 18446744073709551616 := by
  have := le32_lt b i; have := le32_lt b (i+4); unfold le64; omega

/-- machine arithmetic -/
@[inline] def wadd32 (a b : Nat) : Nat := (a + b) % 4294967296
@[inline] def wsub32 (a b : Nat) : Nat := (a + 4294967296 - b % 4294967296) % 4294967296
@[inline] def wadd64 (a b : Nat) : Nat := (a + b) % 18446744073709551616
@[inline] def wsub64 (a b : Nat) : Nat := (a + 18446744073709551616 - b % 18446744073709551616) % 18446744073709551616
@[inline] def cadd32 (a b : Nat) : Option Nat := if a + b < 4294967296 then some (a + b) else none
@[inline] def cadd64 (a b : Nat) : Option Nat := if a + b < 18446744073709551616 then some (a + b) else none
@[inline] def padd32 (site : String) (a b : Nat) : Out Nat := if a + b < 4294967296 then .ok (a + b) else .panic site
@[inline] def padd64 (site : String) (a b : Nat) : Out Nat := if a + b < 18446744073709551616 then .ok (a + b) else .panic site
@[inline] def psub (site : String) (a b : Nat) : Out Nat := if b ≤ a then .ok (a - b) else .panic site

/-- `util::AlignTo::align_to` on `u32` for a power-of-two `a` (wrapping add, then mask). -/
@[inline] def alignTo32 (x a : Nat) : Nat := (wadd32 x (a - 1)) / a * a
/-- same on `usize` (64 bit) -/
@[inline] def alignTo64 (x a : Nat) : Nat := (wadd64 x (a - 1)) / a * a

/-- An image: the buffer and the machine address of its byte 0. -/
structure Img where
  bytes : Bytes
  base : Nat

/-- What a returned `&T`, `&[T]`, `&CStr` is: a window into the image, with the alignment its type needs. -/
structure Ref where
  off : Nat
  len : Nat
  align : Nat
  deriving DecidableEq, Repr

def RefOK (i : Img) (r : Ref) : Prop :=
  r.off + r.len ≤ i.bytes.size ∧ (i.base + r.off) % r.align = 0

instance (i : Img) (r : Ref) : Decidable (RefOK i r) := by unfold RefOK; infer_instance

/-- models `&*(p as *const T)`, `slice::from_raw_parts`, `get_unchecked`: UB unless inside and aligned -/
def rawRef (site : String) (i : Img) (off size align : Nat) : Out Ref :=
  if off + size ≤ i.bytes.size ∧ (i.base + off) % align = 0 then .ok ⟨off, size, align⟩ else .ub site

theorem rawRef_ok {site i off size align r} (h : rawRef site i off size align = .ok r) : RefOK i r := by
  unfold rawRef at h
  split at h
  · cases h; assumption
  · cases h

end Pelite
