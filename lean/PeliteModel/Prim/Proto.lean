import PeliteModel.Prim.Basic
/-! Line-protocol helpers for the driver (parsing numbers / hex, canonical printing). Not proved about. -/
namespace Pelite.Proto

def hexVal (c : Char) : Nat :=
  if '0' ≤ c ∧ c ≤ '9' then c.toNat - '0'.toNat
  else if 'a' ≤ c ∧ c ≤ 'f' then c.toNat - 'a'.toNat + 10
  else if 'A' ≤ c ∧ c ≤ 'F' then c.toNat - 'A'.toNat + 10
  else 0

def hexValB (c : UInt8) : Nat :=
  let c := c.toNat
  if 48 ≤ c ∧ c ≤ 57 then c - 48
  else if 97 ≤ c ∧ c ≤ 102 then c - 87
  else if 65 ≤ c ∧ c ≤ 70 then c - 55
  else 0

def unhexGo (u : ByteArray) (n : Nat) (i : Nat) (acc : Bytes) : Bytes :=
  match n with
  | 0 => acc
  | n+1 => unhexGo u n (i+2) (acc.push (UInt8.ofNat (hexValB (u.get! i) * 16 + hexValB (u.get! (i+1)))))

def unhex (s : String) : Bytes :=
  if s == "-" then #[] else
  let u := s.toUTF8
  unhexGo u (u.size / 2) 0 (Array.mkEmpty (u.size / 2))

def hexDigit (n : Nat) : Char := if n < 10 then Char.ofNat (48 + n) else Char.ofNat (87 + n)

def hex (b : Bytes) : String :=
  if b.size == 0 then "-" else
  String.ofList (b.foldr (fun x acc => hexDigit (x.toNat / 16) :: hexDigit (x.toNat % 16) :: acc) [])

def hexNum (s : String) : Nat := s.foldl (fun acc c => acc * 16 + hexVal c) 0

def num (s : String) : Nat :=
  if s.startsWith "0x" then hexNum (s.drop 2).toString else s.toNat!

def join (l : List String) (sep : String := ",") : String := sep.intercalate l

def ref (r : Ref) : String := s!"{r.off}:{r.len}"

def outStr {α} (f : α → String) : Out α → String
  | .ok a => "ok " ++ f a
  | .err e => "err " ++ e.name
  | .panic s => "panic " ++ s
  | .ub s => "ub " ++ s
  | .diverge => "diverge"

end Pelite.Proto
