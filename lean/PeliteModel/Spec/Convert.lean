import PeliteModel.Model.Convert
/-! Specification side of C06. -/
namespace Pelite.Pe

/-- Layout relation for "an image a loader can map": every section's raw data lies in the file and
its virtual range in the image, without wrap-around and beyond the headers, and the virtual ranges
of different sections are disjoint.  (Generator images satisfy it; for others `to_view` is
"last writer wins" and only shape and totality are claimed.) -/
def Loadable (v : View) : Prop :=
  (∀ s ∈ v.secs, s.va + s.vs < 4294967296 ∧ s.prd + s.rs < 4294967296 ∧
      s.va + s.vs ≤ sizeOfImage v.b ∧ s.prd + s.rs ≤ v.b.size ∧ sizeOfHeaders v.b ≤ s.va) ∧
  v.secs.Pairwise (fun a b => a.va + a.vs ≤ b.va ∨ b.va + b.vs ≤ a.va)

/-- additionally: raw ranges beyond the headers and pairwise disjoint, section table inside the headers.
A section without raw data (`SizeOfRawData = 0`, an ordinary `.bss` with `PointerToRawData = 0`)
stores nothing: its `PointerToRawData` is not constrained. -/
def LoadableFile (v : View) : Prop :=
  Loadable v ∧
  (∀ s ∈ v.secs, s.rs = 0 ∨ sizeOfHeaders v.b ≤ s.prd) ∧
  v.secs.Pairwise (fun a b => a.prd + a.rs ≤ b.prd ∨ b.prd + b.rs ≤ a.prd) ∧
  secTable v.b + 40 * numberOfSections v.b ≤ sizeOfHeaders v.b ∧
  ntEnd v.fmt v.b + 8 * numDataDirs v.fmt v.b ≤ sizeOfHeaders v.b

end Pelite.Pe
