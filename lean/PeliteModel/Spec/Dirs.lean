import PeliteModel.Model.Dirs
import PeliteModel.Lemmas.IterSeq
/-!
Specification side of C15, written from the property statement and the PE/COFF format (not from the
decoders): record counts, where the raw data of a debug entry lives, the CodeView NB10 / RSDS record
layouts, POGO records, the TLS callback list, what a sorted function table is and what a lookup must
answer on it, the certificate window.  Resolution of an RVA / VA to buffer bytes is the typed-read
primitive `View.at` characterised by C04 / C05.
-/
namespace Pelite.Dirs.Spec
open Pelite Pelite.Pe

/-- a directory of `size` bytes holding `recSize`-byte records: `size / recSize` records, invalid unless exact -/
def recordCount (size recSize : Nat) : Out Nat :=
  if size % recSize = 0 then .ok (size / recSize) else .err .invalid

/-! ### debug directory (IMAGE_DEBUG_DIRECTORY: 28 bytes: Characteristics, TimeDateStamp, MajorVersion,
MinorVersion, Type, SizeOfData, AddressOfRawData, PointerToRawData) -/

/-- where the raw data of the entry at buffer offset `d` lives: `SizeOfData` bytes at `PointerToRawData`
in a file, at `AddressOfRawData` in a mapped image; nothing when that window leaves the buffer -/
def rawDataWindow (k : Kind) (b : Bytes) (d : Nat) : Option (Nat × Nat) :=
  let p := match k with
    | .file => le32 b (d + 24)
    | .view => le32 b (d + 20)
  let n := le32 b (d + 16)
  if p + n ≤ b.size then some (p, n) else none

/-- the four signature characters at `off` -/
def hasSig (b : Bytes) (off : Nat) (c0 c1 c2 c3 : Char) : Prop :=
  byteAt b off = c0.toNat ∧ byteAt b (off + 1) = c1.toNat ∧ byteAt b (off + 2) = c2.toNat ∧ byteAt b (off + 3) = c3.toNat

instance (b : Bytes) (off : Nat) (c0 c1 c2 c3 : Char) : Decidable (hasSig b off c0 c1 c2 c3) := by
  unfold hasSig; infer_instance

/-- a NUL-terminated string of `n` non-NUL bytes at `off` that fits into `avail` bytes -/
def IsCStr (b : Bytes) (off avail n : Nat) : Prop :=
  n + 1 ≤ avail ∧ byteAt b (off + n) = 0 ∧ ∀ j, j < n → byteAt b (off + j) ≠ 0

/-- CodeView 2.0 record in the window `[off, off+len)`: "NB10", Offset, TimeDateStamp, Age, path -/
structure IsNB10 (b : Bytes) (off len pathLen : Nat) : Prop where
  sig : hasSig b off 'N' 'B' '1' '0'
  fits : 16 ≤ len
  path : IsCStr b (off + 16) (len - 16) pathLen

/-- CodeView 7.0 record: "RSDS", GUID (16 bytes), Age, path -/
structure IsRSDS (b : Bytes) (off len pathLen : Nat) : Prop where
  sig : hasSig b off 'R' 'S' 'D' 'S'
  fits : 24 ≤ len
  path : IsCStr b (off + 24) (len - 24) pathLen

/-! fields of the two records, by the documented layouts (all dwords little endian):
NB10: +0 "NB10", +4 Offset, +8 TimeDateStamp, +12 Age, +16 path; RSDS: +0 "RSDS", +4 GUID (16 bytes), +20 Age, +24 path -/
def nb10Offset (b : Bytes) (off : Nat) : Nat := le32 b (off + 4)
def nb10TimeDateStamp (b : Bytes) (off : Nat) : Nat := le32 b (off + 8)
def nb10Age (b : Bytes) (off : Nat) : Nat := le32 b (off + 12)
/-- the GUID of an RSDS record at `off`: the 16 bytes at +4 (a `GUID { u32, u16, u16, [u8; 8] }`, dword aligned
whenever the record is) -/
def rsdsGuid (off : Nat) : Ref := ⟨off + 4, 16, 4⟩
def rsdsAge (b : Bytes) (off : Nat) : Nat := le32 b (off + 20)

/-- POGO records laid out back to back from `off` to `stop`: rva, size, NUL-terminated name padded to a
dword boundary.  A record is (rva, size, length of the name). -/
inductive PogoLayout (b : Bytes) : Nat → List (Nat × Nat × Nat) → Nat → Prop
  | nil (off : Nat) : PogoLayout b off [] off
  | cons (off rva size n : Nat) (rest : List (Nat × Nat × Nat)) (stop : Nat) :
      le32 b off = rva → le32 b (off + 4) = size →
      byteAt b (off + 8 + n) = 0 → (∀ j, j < n → byteAt b (off + 8 + j) ≠ 0) →
      PogoLayout b (off + 8 + 4 * (n / 4 + 1)) rest stop →
      PogoLayout b off ((rva, size, n) :: rest) stop

/-- what the iterator must yield for a record list laid out from `off` -/
def pogoExpected : Nat → List (Nat × Nat × Nat) → List PgoItem
  | _, [] => []
  | off, (rva, size, n) :: rest => ⟨rva, size, ⟨off + 8, n + 1, 1⟩⟩ :: pogoExpected (off + 8 + 4 * (n / 4 + 1)) rest

/-- the debug directory as the format describes it: the entries' raw-data windows -/
def debugWindows (v : View) : Out (List (Option (Nat × Nat))) :=
  match v.dataDir 6 with
  | none => .err .null
  | some (va, size) =>
    match recordCount size 28 with
    | .ok n =>
      (match v.at (.rva va) size 4 with
       | .ok s => .ok ((List.range n).map fun i => rawDataWindow v.kind v.b (s.off + 28 * i))
       | .err e => .err e | .panic s => .panic s | .ub s => .ub s | .diverge => .diverge)
    | .err e => .err e | .panic s => .panic s | .ub s => .ub s | .diverge => .diverge

/-! ### TLS: the callback list is the VA array up to (not including) its first zero entry -/

/-- the entries before the first zero among the first `avail` entries; `none` when there is no zero -/
def vaListUntilZero (b : Bytes) (off ps : Nat) : Nat → Option (List Nat)
  | 0 => none
  | avail+1 =>
    let x := leN b off ps
    if x = 0 then some []
    else (vaListUntilZero b (off + ps) ps avail).map (x :: ·)

/-! ### exception directory (RUNTIME_FUNCTION: BeginAddress, EndAddress, UnwindData) -/

/-- the function table is sorted: every record is a range and consecutive records do not overlap -/
def Sorted (b : Bytes) (t : Ref) : Prop :=
  ∀ i, i + 1 < excCount t →
    rfBegin b t i ≤ rfEnd b t i ∧ rfEnd b t i ≤ rfBegin b t (i + 1) ∧ rfBegin b t (i + 1) ≤ rfEnd b t (i + 1)

/-- executable form of `Sorted` for the driver's `hyp=` -/
def sortedTable (b : Bytes) (t : Ref) : Bool :=
  (List.range (excCount t - 1)).all fun i =>
    decide (rfBegin b t i ≤ rfEnd b t i) && decide (rfEnd b t i ≤ rfBegin b t (i + 1)) &&
      decide (rfBegin b t (i + 1) ≤ rfEnd b t (i + 1))

/-- textbook binary search on the half-open window `[lo, hi)`: the reference `binary_search_by` is measured
against (`cmp i` = how element `i` compares to the target) -/
def bsearchRef (cmp : Nat → Ordering) (lo hi : Nat) : SearchRes :=
  if lo < hi then
    let mid := lo + (hi - lo) / 2
    match cmp mid with
    | .eq => .found mid
    | .lt => bsearchRef cmp (mid + 1) hi
    | .gt => bsearchRef cmp lo mid
  else .notFound lo
termination_by hi - lo
decreasing_by all_goals omega

/-- record `i` covers `pc`: `[BeginAddress, EndAddress)` -/
def Covers (b : Bytes) (t : Ref) (i pc : Nat) : Prop := rfBegin b t i ≤ pc ∧ pc < rfEnd b t i

instance (b : Bytes) (t : Ref) (i pc : Nat) : Decidable (Covers b t i pc) := by unfold Covers; infer_instance

/-- reference lookup: the first record (linear scan) that covers `pc` -/
def linearLookup (b : Bytes) (t : Ref) (pc : Nat) : Option Nat :=
  (List.range (excCount t)).find? fun i => decide (Covers b t i pc)

/-! ### security directory: WIN_CERTIFICATE (dwLength, wRevision, wCertificateType, bCertificate[]) at a
FILE OFFSET (the directory's "VirtualAddress"), present in files only -/

/-- the directory is well formed for a file of `fileSize` bytes -/
def CertWellFormed (fileSize va size : Nat) : Prop :=
  va ≠ 0 ∧ va % 8 = 0 ∧ size % 8 = 0 ∧ 8 ≤ size ∧ va + size ≤ fileSize

instance (n va size : Nat) : Decidable (CertWellFormed n va size) := by unfold CertWellFormed; infer_instance

def certLength (b : Bytes) (va : Nat) : Nat := le32 b va
def certType (b : Bytes) (va : Nat) : Nat := le16 b (va + 6)
/-- the stored certificate: the `dwLength − 8` bytes after the 8-byte header -/
def certBytes (b : Bytes) (va : Nat) : Ref := ⟨va + 8, certLength b va - 8, 1⟩
/-- a directory holding exactly one certificate whose length is the directory size (the generated ones) -/
def SingleCert (b : Bytes) (va size : Nat) : Prop := certLength b va = size

instance (b : Bytes) (va size : Nat) : Decidable (SingleCert b va size) := by unfold SingleCert; infer_instance

/-! ### `Dir::entry`: the decoder chosen by `Type`, its value wrapped into the variant -/

/-- the outcome of a decoder wrapped into an `Entry` variant: a value is wrapped, every other outcome (typed error,
…) is handed on unchanged — `Ok(Entry::X(decoder(dir)?))` -/
def wrapEntry {α : Type} (f : α → Entry) : Out α → Out Entry
  | .ok a => .ok (f a)
  | .err e => .err e
  | .panic s => .panic s
  | .ub s => .ub s
  | .diverge => .diverge

/-- the documented `Type` values the crate interprets (`image.rs`: IMAGE_DEBUG_TYPE_CODEVIEW / _MISC / _POGO) -/
def typeCodeView : Nat := 2
def typeMisc : Nat := 4
def typePogo : Nat := 13

/-! ### C01 for the debug decoders: every reference inside an interpreted entry is valid -/

def cvRefsOK (img : Img) : CodeView → Prop
  | .cv20 i n => RefOK img i ∧ RefOK img n
  | .cv70 i n => RefOK img i ∧ RefOK img n

def entryRefsOK (img : Img) : Entry → Prop
  | .codeView cv => cvRefsOK img cv
  | .dbg r => RefOK img r
  | .pgo r => RefOK img r
  | .unknown (some r) => RefOK img r
  | .unknown none => True

end Pelite.Dirs.Spec

/-! ### the model's `PgoIter` in the vocabulary of the sequence specification (C18; `Lemmas/IterSeq.lean`) -/
namespace Pelite.Dirs
open Pelite Pelite.Pe Pelite.Seq

/-- one call on the model's iterator (state = window), result in the vocabulary of the sequence specification -/
def pgoStepOp (b : Bytes) (st : Nat × Nat) : Op → Out (Res PgoItem × (Nat × Nat))
  | .next => pgoNext b st >>= fun r => .ok (.item r.1, r.2)
  | .nth n => pgoNth b n st >>= fun r => .ok (.item r.1, r.2)
  | .sizeHint => .ok (.hint (pgoSizeHint st).1 (pgoSizeHint st).2, st)
  | .count => pgoCount b st >>= fun n => .ok (.num n, st)             -- `it.clone().count()`
  | .clone => pgoItemsFrom b st >>= fun l => .ok (.list l, st)        -- `it = it.clone()`: same window; its items

/-- the answers of a whole call history on the iterator in state `st` -/
def pgoRunOps (b : Bytes) : Nat × Nat → List Op → Out (List (Res PgoItem))
  | _, [] => .ok []
  | st, o :: os => pgoStepOp b st o >>= fun r => pgoRunOps b r.2 os >>= fun rs => .ok (r.1 :: rs)

end Pelite.Dirs
