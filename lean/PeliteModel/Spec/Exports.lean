import PeliteModel.Model.Exports
/-!
Specification side of C08, written from the property statement and the PE export format:
the abstract export tables and what each lookup must answer — no references, no buffer.

  ordinal o      ↦ functions[o − base]                      (Bounds below the base / beyond the table)
  i-th name      ↦ functions[name_indices[i]]
  entry          ↦ Null if 0, Forward(string at rva) if the rva lies in the directory's extent, else Symbol
  reverse lookup ↦ the first name whose index it is (with its hint), else its ordinal

The second half relates a `By` of the model to its abstract tables (`tablesOf`, `cstrOf`, `Export.abs`).
-/
namespace Pelite.Exports
open Pelite.Pe

def mapOut {α β} (f : α → β) : Out α → Out β
  | .ok a => .ok (f a)
  | .err e => .err e
  | .panic s => .panic s
  | .ub s => .ub s
  | .diverge => .diverge

namespace Spec

/-- the abstract export directory -/
structure Tables where
  base : Nat            -- ordinal base (the 32-bit `Base` field)
  fns : List Nat        -- export address table: RVAs, 0 = hole
  names : List Nat      -- name pointer table: RVAs of the names
  idx : List Nat        -- ordinal table: the index into `fns` of the i-th name
  dirVA : Nat           -- extent of the export data directory
  dirSize : Nat
  deriving Repr

/-- an exported entry without its reference -/
inductive Sym
  | symbol (rva : Nat)
  | forward (s : List Nat)
  deriving DecidableEq, Repr

inductive Imp
  | byName (hint : Nat) (name : List Nat)
  | byOrdinal (ord : Nat)
  deriving DecidableEq, Repr

section
variable (T : Tables) (cstr : Nat → Out (List Nat))   -- `cstr rva`: the C string stored at `rva`

def index (i : Nat) : Out Sym :=
  match T.fns[i]? with
  | none => .err .bounds
  | some rva =>
    if rva = 0 then .err .null
    else if T.dirVA ≤ rva ∧ rva < T.dirVA + T.dirSize then mapOut Sym.forward (cstr rva)
    else .ok (.symbol rva)

def ordinal (o : Nat) : Out Sym :=
  if o < T.base then .err .bounds else index T cstr (o - T.base)

def hint (h : Nat) : Out Sym :=
  match T.idx[h]? with
  | none => .err .bounds
  | some i => index T cstr i

def nameOfHint (h : Nat) : Out (List Nat) :=
  match T.names[h]? with
  | none => .err .bounds
  | some r => cstr r

/-- the hints whose name reads as `q`, in table order -/
def hintsOf (q : List Nat) : List Nat :=
  (List.range T.names.length).filter fun h => nameOfHint T cstr h = .ok q

/-- linear search: the FIRST hint whose name is `q` -/
def nameLinear (q : List Nat) : Out Sym :=
  match (hintsOf T cstr q).head? with
  | none => .err .null
  | some h => hint T cstr h

/-- every name is readable and each is `≤` (bytewise lexicographic) its successor -/
def sorted : Bool :=
  (List.range T.names.length).all fun h =>
    match nameOfHint T cstr h with
    | .ok s => h == 0 || (match nameOfHint T cstr (h - 1) with | .ok p => !decide (s < p) | _ => false)
    | _ => false

/-- every name is readable and each is `<` its successor: sorted without duplicates.  Then lookup by
name is a function of the tables (binary and linear search must agree). -/
def nameDetermined : Bool :=
  (List.range T.names.length).all fun h =>
    match nameOfHint T cstr h with
    | .ok s => h == 0 || (match nameOfHint T cstr (h - 1) with | .ok p => decide (p < s) | _ => false)
    | _ => false

/-- lookup by name (meaningful when `nameDetermined`): the entry of the name equal to `q`, else Null -/
def name (q : List Nat) : Out Sym := nameLinear T cstr q

/-- hint with name fallback: the hint's entry when the hint's name is `q`, else lookup by name -/
def hintName (h : Nat) (q : List Nat) : Out Sym :=
  match hint T cstr h, nameOfHint T cstr h with
  | .ok e, .ok s => if s = q then .ok e else name T cstr q
  | _, _ => name T cstr q

/-- reverse lookup of an index: the first name that denotes it, with its hint; else its ordinal
(`index + base` truncated to 16 bits, as the code computes it) -/
def nameLookup (i : Nat) : Out Imp :=
  match T.idx.findIdx? (fun x => x = i) with
  | some h =>
    (match T.names[h]? with
     | none => .err .bounds
     | some r => mapOut (Imp.byName h) (cstr r))
  | none => .ok (.byOrdinal ((i + T.base) % 65536))

/-! #### lookup by name on ANY table: the set of acceptable answers

On a table that is not sorted, or that carries a name twice, "the entry of the name `q`" is not a
function of the tables (`nameDetermined` fails) — but the format still says which answers are
*acceptable*: an entry the table associates with a name-table index whose string is `q`.  Written from
the format and the documentation of `By::name` ("If the name table isn't sorted, certain exported
functions may fail to be found"), not from the search loop. -/

/-- what the table associates with the name `q`: for every hint whose name reads as `q`, in table
order, what that hint denotes (an entry, Null for a hole, Bounds for an index outside the address
table / a missing ordinal-table slot, the error of an unreadable forwarder string) -/
def namedEntries (q : List Nat) : List (Out Sym) := (hintsOf T cstr q).map (hint T cstr)

/-- a name that cannot be read, as the failure of a lookup that had to read it -/
def readFailure : Out (List Nat) → Option (Out Sym)
  | .ok _ => none
  | .err e => some (.err e)
  | .panic s => some (.panic s)
  | .ub s => some (.ub s)
  | .diverge => some .diverge

/-- the failures of reading the names of the table, in table order -/
def nameReadFailures : List (Out Sym) :=
  (List.range T.names.length).filterMap fun h => readFailure (nameOfHint T cstr h)

/-- The ACCEPTABLE ANSWERS of a lookup by name (`name q`, `hint_name _ q`, `import ByName{_, q}`):

* what any one of the hints named `q` denotes (`namedEntries`) — which of them is not prescribed;
* Null when no hint is named `q`;
* on a table that is not `sorted` (a name unreadable or smaller than its predecessor — the format
  promises the search nothing there) additionally Null (an existing name may be missed) and the
  failure of reading any name of the table.

Never an entry of a different name, and on a sorted table — duplicates or not — never Null for a
name whose entries are all present. -/
def acceptName (q : List Nat) : List (Out Sym) :=
  namedEntries T cstr q ++
  ((if (namedEntries T cstr q).isEmpty || !sorted T cstr then [.err .null] else []) ++
   (if sorted T cstr then [] else nameReadFailures T cstr))

end

/-- get_proc_address: image base + rva for real symbols inside the image, Null for forwarders -/
def procAddress (imageBase sizeOfImage vaLimit : Nat) (s : Out Sym) : Out Nat :=
  match s with
  | .ok (.symbol rva) =>
    if rva = 0 then .err .null
    else if rva < sizeOfImage then
      (if imageBase + rva < vaLimit then .ok (imageBase + rva) else .err .overflow)
    else .err .bounds
  | .ok (.forward _) => .err .null
  | .err e => .err e
  | .panic s => .panic s
  | .ub s => .ub s
  | .diverge => .diverge

end Spec

/-! ### abstraction of the model's values -/

/-- the string stored at `rva`, as the view reads it -/
def cstrOf (v : View) (rva : Nat) : Out (List Nat) := mapOut (cstrBytes v.b) (v.dervaCStr (.rva rva))

/-- the tables a `By` denotes (a null table is an empty one) -/
def tablesOf (y : By) : Spec.Tables where
  base := y.exp.base
  fns := (List.range y.fns.cnt).map y.fnAt
  names := (List.range y.names.cnt).map y.nameAt
  idx := (List.range y.idx.cnt).map y.idxAt
  dirVA := y.exp.ddVA
  dirSize := y.exp.ddSize

def Export.abs (b : Bytes) : Export → Spec.Sym
  | .symbol r => .symbol (le32 b r.off)
  | .forward r => .forward (cstrBytes b r)

def Import.abs (b : Bytes) : Import → Spec.Imp
  | .byName h r => .byName h (cstrBytes b r)
  | .byOrdinal o => .byOrdinal o

/-- the references an answer hands out -/
def Export.ref : Export → Ref
  | .symbol r => r
  | .forward r => r

/-- a table of `By` is the `&[]` placeholder of a null table, or `cnt` elements inside the buffer at
an address aligned for the element type -/
def Tab.OK (img : Img) (t : Tab) (size : Nat) : Prop :=
  (t.isStatic = true ∧ t.cnt = 0) ∨ (t.isStatic = false ∧ RefOK img ⟨t.off, size * t.cnt, size⟩)

/-- what `Exports::by` establishes about the three tables it hands to `By` -/
structure By.WF (y : By) : Prop where
  fns : Tab.OK y.exp.v.img y.fns 4
  names : Tab.OK y.exp.v.img y.names 4
  idx : Tab.OK y.exp.v.img y.idx 2

end Pelite.Exports
