import PeliteModel.Model.Imports
/-!
Specification side of C09, written from the property statement and the PE/COFF import tables
(".idata": Import Directory Table, Import Lookup Table, Hint/Name Table, Import Address Table) —
not from the code.  Where bytes are found for an RVA is the business of C04/C05 (`View.at`); this
file says what the tables *are* inside the window of bytes that starts at the referenced RVA.
-/
namespace Pelite.Imports
open Pelite Pelite.Pe

/-! ### layout relations -/

/-- FirstThunk of the `i`-th 20-byte record of a table starting at `off` -/
def ftAt (b : Bytes) (off i : Nat) : Nat := le32 b (off + 20 * i + 16)

/-- all five fields of the record at `o` are zero -/
def AllZeroAt (b : Bytes) (o : Nat) : Prop :=
  le32 b o = 0 ∧ le32 b (o + 4) = 0 ∧ le32 b (o + 8) = 0 ∧ le32 b (o + 12) = 0 ∧ le32 b (o + 16) = 0

instance (b : Bytes) (o : Nat) : Decidable (AllZeroAt b o) := by unfold AllZeroAt; infer_instance

/-- **Reading 1 (what the loader and the code use).** The window `[off, off + len)` holds an import
directory of `n` descriptors: descriptor `i` is the record at `off + 20·i`, the terminator is the
first record whose `FirstThunk` is zero, and the terminator lies inside the window. -/
structure IsImportDir (b : Bytes) (off len n : Nat) : Prop where
  fits : (n + 1) * 20 ≤ len
  live : ∀ i, i < n → ftAt b off i ≠ 0
  term : ftAt b off n = 0

/-- **Reading 2 (the property's wording).** The terminator is the first *all-zero* record. -/
structure IsImportDirZ (b : Bytes) (off len n : Nat) : Prop where
  fits : (n + 1) * 20 ≤ len
  live : ∀ i, i < n → ¬ AllZeroAt b (off + 20 * i)
  term : AllZeroAt b (off + 20 * n)

/-- A well-formed directory: inside the window only all-zero records have `FirstThunk = 0`
(i.e. only the terminator has that field zero). -/
def WellFormedDir (b : Bytes) (off len : Nat) : Prop :=
  ∀ i, (i + 1) * 20 ≤ len → ftAt b off i = 0 → AllZeroAt b (off + 20 * i)

/-- The window `[off, off + len)` holds a zero-terminated table of `n` thunks of `sz` bytes. -/
structure IsThunkTable (b : Bytes) (off len sz n : Nat) : Prop where
  fits : (n + 1) * sz ≤ len
  live : ∀ i, i < n → leN b (off + i * sz) sz ≠ 0
  term : leN b (off + n * sz) sz = 0

/-- The window holds a NUL-terminated string of `n` bytes (`n + 1` with its terminator). -/
structure IsCStr (b : Bytes) (off len n : Nat) : Prop where
  fits : n + 1 ≤ len
  live : ∀ i, i < n → byteAt b (off + i) ≠ 0
  term : byteAt b (off + n) = 0

/-! ### what the right answer of a scan is (relations; each determines the answer uniquely) -/

/-- `res` is the right answer for "the import directory at `rva`": the error of the slice if the
RVA does not resolve to a 4-aligned window; else the `n` descriptors of the window (`IsImportDir`),
`Bounds` if the window ends before any terminator — never a truncated table. -/
def ImportDirAnswer (v : View) (rva : Nat) (res : Out Ref) : Prop :=
  match v.at (.rva rva) 0 4 with
  | .ok w => (∀ n, IsImportDir v.b w.off w.len n → res = .ok ⟨w.off, n * 20, 4⟩) ∧
             ((∀ n, ¬ IsImportDir v.b w.off w.len n) → res = .err .bounds)
  | .err e => res = .err e
  | _ => False

/-- the same for a zero-terminated thunk table (thunks of the format's width, naturally aligned) -/
def ThunkTableAnswer (v : View) (rva : Nat) (res : Out Ref) : Prop :=
  match v.at (.rva rva) 0 (vaSize v.fmt) with
  | .ok w => (∀ n, IsThunkTable v.b w.off w.len (vaSize v.fmt) n → res = .ok ⟨w.off, n * vaSize v.fmt, vaSize v.fmt⟩) ∧
             ((∀ n, ¬ IsThunkTable v.b w.off w.len (vaSize v.fmt) n) → res = .err .bounds)
  | .err e => res = .err e
  | _ => False

/-- the same for a NUL-terminated string: the reference covers the string and its NUL; `Encoding`
if the window holds no NUL -/
def CStrAnswer (v : View) (rva : Nat) (res : Out Ref) : Prop :=
  match v.at (.rva rva) 0 1 with
  | .ok w => (∀ n, IsCStr v.b w.off w.len n → res = .ok ⟨w.off, n + 1, 1⟩) ∧
             ((∀ n, ¬ IsCStr v.b w.off w.len n) → res = .err .encoding)
  | .err e => res = .err e
  | _ => False

/-! ### thunk decoding (PE/COFF "Import Lookup Table") -/

/-- number of bits of a thunk -/
def thunkBits (f : Fmt) : Nat := 8 * vaSize f

/-- "Ordinal/Name Flag": the most significant bit of the thunk *of its own width* -/
def isOrdinal (f : Fmt) (va : Nat) : Bool := va.testBit (thunkBits f - 1)

/-- a conforming by-name thunk: only bits 30..0 (the Hint/Name RVA) may be set -/
def ConformingName (va : Nat) : Prop := va < 2147483648

inductive Thunk
  | ordinal (ord : Nat)        -- bits 15..0
  | hintName (rva : Nat)       -- RVA of the Hint/Name entry
  deriving DecidableEq, Repr

/-- what the code must make of a thunk value (the RVA is taken from the low 32 bits; for a
`ConformingName` thunk that is the thunk itself) -/
def decodeThunk (f : Fmt) (va : Nat) : Thunk :=
  if isOrdinal f va then .ordinal (va % 65536) else .hintName (va % 4294967296)

/-! ### executable specification (for the driver's `spec=` answer) -/

/-- first index below `n` satisfying `p` -/
def firstIdx (n : Nat) (p : Nat → Bool) : Option Nat := (List.range n).find? p

/-- number of descriptors in the window: index of the first record with `FirstThunk = 0` among the
records that fit; `Bounds` if none of them is a terminator -/
def specDescCount (b : Bytes) (off len : Nat) : Out Nat :=
  match firstIdx (len / 20) (fun i => ftAt b off i == 0) with
  | some n => .ok n
  | none => .err .bounds

def specThunkCount (b : Bytes) (off len sz : Nat) : Out Nat :=
  match firstIdx (len / sz) (fun i => leN b (off + i * sz) sz == 0) with
  | some n => .ok n
  | none => .err .bounds

/-- the directory: located through data directory 1; RVA 0 = no imports (`Null`, through `View.at`).
An image whose data-directory array is too short to have entry 1 has no imports either: `Null`
(`Thm/C09.lean`: `C09_missing_entry_null`). -/
def specTryFrom (v : View) : Out Ref :=
  match v.dataDir dirImport with
  | none => .err .null
  | some (rva, _) =>
    match v.at (.rva rva) 0 4 with
    | .ok w => (match specDescCount v.b w.off w.len with
        | .ok n => .ok ⟨w.off, n * 20, 4⟩
        | .err e => .err e | .panic s => .panic s | .ub s => .ub s | .diverge => .diverge)
    | .err e => .err e | .panic s => .panic s | .ub s => .ub s | .diverge => .diverge

/-- zero-terminated thunk table at `rva` -/
def specThunks (v : View) (rva : Nat) : Out Ref :=
  match v.at (.rva rva) 0 (vaSize v.fmt) with
  | .ok w => (match specThunkCount v.b w.off w.len (vaSize v.fmt) with
      | .ok n => .ok ⟨w.off, n * vaSize v.fmt, vaSize v.fmt⟩
      | .err e => .err e | .panic s => .panic s | .ub s => .ub s | .diverge => .diverge)
  | .err e => .err e | .panic s => .panic s | .ub s => .ub s | .diverge => .diverge

/-- NUL-terminated string at `rva`: the reference covers the string and its NUL -/
def specCStr (v : View) (rva : Nat) : Out Ref :=
  match v.at (.rva rva) 0 1 with
  | .ok w => (match firstIdx w.len (fun i => byteAt v.b (w.off + i) == 0) with
      | some n => .ok ⟨w.off, n + 1, 1⟩
      | none => .err .encoding)
  | .err e => .err e | .panic s => .panic s | .ub s => .ub s | .diverge => .diverge

/-- decoded thunk: ordinal, or the hint (u16 at the RVA, 2-aligned) and the name at RVA + 2 -/
def specImport (v : View) (va : Nat) : Out Import :=
  match decodeThunk v.fmt va with
  | .ordinal o => .ok (.byOrdinal o)
  | .hintName rva =>
    match v.at (.rva rva) 2 2 with
    | .ok h => (match specCStr v (rva + 2) with
        | .ok nm => .ok (.byName (le16 v.b h.off) nm)
        | .err e => .err e | .panic s => .panic s | .ub s => .ub s | .diverge => .diverge)
    | .err e => .err e | .panic s => .panic s | .ub s => .ub s | .diverge => .diverge

/-- the image-wide IAT: data directory 12, exactly ⌊Size / thunk size⌋ entries; no entry 12 in the
data-directory array = no IAT (`Null`) -/
def specIat (v : View) : Out Ref :=
  match v.dataDir dirIAT with
  | none => .err .null
  | some (rva, size) =>
    let n := size / vaSize v.fmt
    match v.at (.rva rva) (n * vaSize v.fmt) (vaSize v.fmt) with
    | .ok w => .ok ⟨w.off, n * vaSize v.fmt, vaSize v.fmt⟩
    | .err e => .err e | .panic s => .panic s | .ub s => .ub s | .diverge => .diverge

end Pelite.Imports
