/-!
# The grammar of JSON texts (RFC 8259, sections 2 – 7), as inductive predicates

Specification side of C19 ("the JSON rendering is well formed"), written from the RFC and from nothing
else: this file imports no module of the project — in particular it does not know `Json.parse`
(Model/Json.lean), the project's own reader, nor `Json.print`.  `Thm/C19Text.lean` proves that every
text `Json.print` produces is a `JsonText`.

Alphabet.  The RFC's ABNF is over Unicode code points; a text is a `List Nat` here, one number per
character.  Every terminal of the grammar except `unescaped` is an ASCII character.  `unescaped` is
`%x20-21 / %x23-5B / %x5D-10FFFF`, i.e. "every character of the alphabet from U+0020 on except `"`
and `\`": the upper end `10FFFF` is the top of the alphabet, not a restriction the grammar adds, and it
is therefore left to the alphabet here (`Unescaped`).  Read over code points this is the RFC's grammar
verbatim (`JsonTextRFC` adds the bound explicitly).  Read over UTF-8 OCTETS — which is what
`serde_json::to_string` emits and `Json.print` models — an octet `≥ 0x80` can only occur inside a
string, as part of the encoding of a code point `≥ U+0080`, which is `unescaped`; so a UTF-8 octet
string is a JSON text iff it is well-formed UTF-8 and satisfies this grammar octet-wise (UTF-8
well-formedness of string contents is outside this file: `&str` guarantees it on the Rust side).
-/
namespace Pelite.Spec
namespace JsonText

/-! ## §2 structural characters and insignificant white space -/

/-- `ws = *( %x20 / %x09 / %x0A / %x0D )`: one white-space character -/
def IsWs (c : Nat) : Prop := c = 0x20 ∨ c = 0x09 ∨ c = 0x0A ∨ c = 0x0D

/-- `ws` -/
def Ws (t : List Nat) : Prop := ∀ c ∈ t, IsWs c

/-- a structural character with the white space the RFC allows around it:
`begin-array = ws %x5B ws`, `begin-object = ws %x7B ws`, `end-array = ws %x5D ws`,
`end-object = ws %x7D ws`, `name-separator = ws %x3A ws`, `value-separator = ws %x2C ws` -/
inductive Tok (c : Nat) : List Nat → Prop
  | mk (w1 w2 : List Nat) : Ws w1 → Ws w2 → Tok c (w1 ++ [c] ++ w2)

/-! ## §6 numbers -/

/-- `DIGIT = %x30-39` -/
def IsDigit (c : Nat) : Prop := 0x30 ≤ c ∧ c ≤ 0x39
/-- `digit1-9 = %x31-39` -/
def IsDigit19 (c : Nat) : Prop := 0x31 ≤ c ∧ c ≤ 0x39
/-- `*DIGIT` -/
def Digits (t : List Nat) : Prop := ∀ c ∈ t, IsDigit c

/-- `int = zero / ( digit1-9 *DIGIT )` -/
inductive Int : List Nat → Prop
  | zero : Int [0x30]
  | pos (d : Nat) (ds : List Nat) : IsDigit19 d → Digits ds → Int (d :: ds)

/-- `[ frac ]`, `frac = decimal-point 1*DIGIT` -/
inductive OptFrac : List Nat → Prop
  | none : OptFrac []
  | some (ds : List Nat) : ds ≠ [] → Digits ds → OptFrac (0x2E :: ds)

/-- `[ minus / plus ]` -/
inductive OptSign : List Nat → Prop
  | none : OptSign []
  | minus : OptSign [0x2D]
  | plus : OptSign [0x2B]

/-- `[ exp ]`, `exp = e [ minus / plus ] 1*DIGIT`, `e = %x65 / %x45` -/
inductive OptExp : List Nat → Prop
  | none : OptExp []
  | some (e : Nat) (s ds : List Nat) : (e = 0x65 ∨ e = 0x45) → OptSign s → ds ≠ [] → Digits ds → OptExp (e :: (s ++ ds))

/-- `[ minus ]` -/
inductive OptMinus : List Nat → Prop
  | none : OptMinus []
  | minus : OptMinus [0x2D]

/-- `number = [ minus ] int [ frac ] [ exp ]` -/
inductive Number : List Nat → Prop
  | mk (m i f e : List Nat) : OptMinus m → Int i → OptFrac f → OptExp e → Number (m ++ i ++ f ++ e)

/-! ## §7 strings -/

/-- `unescaped = %x20-21 / %x23-5B / %x5D-10FFFF` (the top of the last range is the top of the alphabet) -/
def Unescaped (c : Nat) : Prop := (0x20 ≤ c ∧ c ≤ 0x21) ∨ (0x23 ≤ c ∧ c ≤ 0x5B) ∨ 0x5D ≤ c

/-- `HEXDIG` (RFC 5234: `DIGIT / "A" … "F"`, case insensitive) -/
def IsHex (c : Nat) : Prop := IsDigit c ∨ (0x41 ≤ c ∧ c ≤ 0x46) ∨ (0x61 ≤ c ∧ c ≤ 0x66)

/-- the character after `escape` in a two-character escape: `" \ / b f n r t` -/
def IsEscapeLetter (c : Nat) : Prop :=
  c = 0x22 ∨ c = 0x5C ∨ c = 0x2F ∨ c = 0x62 ∨ c = 0x66 ∨ c = 0x6E ∨ c = 0x72 ∨ c = 0x74

/-- `char = unescaped / escape ( %x22 / %x5C / %x2F / %x62 / %x66 / %x6E / %x72 / %x74 / %x75 4HEXDIG )`,
`escape = %x5C` -/
inductive Chr : List Nat → Prop
  | unescaped (c : Nat) : Unescaped c → Chr [c]
  | escape (c : Nat) : IsEscapeLetter c → Chr [0x5C, c]
  | uescape (a b c d : Nat) : IsHex a → IsHex b → IsHex c → IsHex d → Chr [0x5C, 0x75, a, b, c, d]

/-- `*char` -/
inductive Chars : List Nat → Prop
  | nil : Chars []
  | cons (c cs : List Nat) : Chr c → Chars cs → Chars (c ++ cs)

/-- `string = quotation-mark *char quotation-mark` -/
inductive Str : List Nat → Prop
  | mk (cs : List Nat) : Chars cs → Str (0x22 :: (cs ++ [0x22]))

/-! ## §3 values, §4 objects, §5 arrays -/

mutual
/-- `value = false / null / true / object / array / number / string` -/
inductive Value : List Nat → Prop
  /-- `false = %x66.61.6c.73.65` -/
  | false_ : Value [0x66, 0x61, 0x6C, 0x73, 0x65]
  /-- `null = %x6e.75.6c.6c` -/
  | null : Value [0x6E, 0x75, 0x6C, 0x6C]
  /-- `true = %x74.72.75.65` -/
  | true_ : Value [0x74, 0x72, 0x75, 0x65]
  | number (t : List Nat) : Number t → Value t
  | string (t : List Nat) : Str t → Value t
  /-- `array = begin-array [ value *( value-separator value ) ] end-array`, the empty case -/
  | arrayEmpty (b e : List Nat) : Tok 0x5B b → Tok 0x5D e → Value (b ++ e)
  | array (b es e : List Nat) : Tok 0x5B b → Elements es → Tok 0x5D e → Value (b ++ es ++ e)
  /-- `object = begin-object [ member *( value-separator member ) ] end-object`, the empty case -/
  | objectEmpty (b e : List Nat) : Tok 0x7B b → Tok 0x7D e → Value (b ++ e)
  | object (b ms e : List Nat) : Tok 0x7B b → Members ms → Tok 0x7D e → Value (b ++ ms ++ e)
/-- `value *( value-separator value )` -/
inductive Elements : List Nat → Prop
  | one (v : List Nat) : Value v → Elements v
  | more (v s r : List Nat) : Value v → Tok 0x2C s → Elements r → Elements (v ++ s ++ r)
/-- `member *( value-separator member )`, `member = string name-separator value` -/
inductive Members : List Nat → Prop
  | one (k c v : List Nat) : Str k → Tok 0x3A c → Value v → Members (k ++ c ++ v)
  | more (k c v s r : List Nat) : Str k → Tok 0x3A c → Value v → Tok 0x2C s → Members r → Members (k ++ c ++ v ++ s ++ r)
end

end JsonText

open JsonText in
/-- `JSON-text = ws value ws` -/
def JsonText (t : List Nat) : Prop := ∃ w1 v w2, Ws w1 ∧ Value v ∧ Ws w2 ∧ t = w1 ++ v ++ w2

/-- … over an alphabet with top `U+10FFFF` (code points) — the bound `unescaped` spells out -/
def JsonTextRFC (t : List Nat) : Prop := JsonText t ∧ ∀ c ∈ t, c ≤ 0x10FFFF

end Pelite.Spec
