import PeliteModel.Model.Exec
/-!
# Reference semantics of pattern strings (C11, semantic half)

Written from the documentation — the `parse` docs in `src/proc-macros/pattern.rs` (= `src/pattern.rs`),
the `Atom` docs there, `src/proc-macros/lib.rs`, `readme.md` — and NOT from the parser / interpreter.
The only things shared with the models are the atom type (`Model/Atom.lean`, the target language of the
reference compiler) and the abstract image interface `Exec.ScanI` (`read`, `pointer`, `slice`: what
`trait Scan` offers; instances `ofView`, `ofRaw`).

## The documented syntax (AST)

```
Item ::= hh            exact byte, two case-insensitive hex digits                  byte b
       | "text"        the bytes of the text (no escapes, hence no `"` inside)      str bytes
       | ?             placeholder for one unknown byte                             any
       | [n]           fixed size skip = n question marks                           skip n
       | [a-b]         lower / upper bound of the number of bytes to skip           range a b
       | % | $ | *     follow signed 1 byte jump / signed 4 byte jump / pointer     jump j
       | '             bookmark: save the cursor                                    save
       | @n            check alignment to (1 << n)                                  aligned n
       | i1 i2 i4      read and sign extend, store next to the bookmarks            readI w
       | u1 u2 u4      read and zero extend                                         readU w
       | z             store zero (Atom::Zero; the letter is not in the `parse` docs) zero
       | j { body }    match body at the jump's destination, then return            group j gap body
       | ( b1 | … )    alternatives, tried left to right                            alt [b1, …]
       | spaces        "completely optional and carry no semantic meaning"          ws s
```
White space is kept in the tree (`ws`, and `gap` between a jump symbol and its `{`) so that `render`
reproduces EVERY spelling of a pattern, not just a canonical one; it means nothing (`sem`, `compile`
ignore it).  The documentation names the space character (32) only; the reference grammar also admits
TAB, LF, CR (an extension that cannot change the meaning of a documented string).

## Readings taken where the documentation is silent (all documented at the definition)

* cursor arithmetic is `Rva` (`u32`) arithmetic, i.e. modulo 2^32;
* a wildcard / fixed skip only moves the cursor, it does not require the skipped bytes to exist
  (they are "unknown bytes");
* `[a-b]`: the documentation says "lower and upper bound of number of bytes to skip … non greedy,
  considers the first match while skipping as little as possible".  Reading taken: skip `a` bytes, then
  try the candidates `a+0, a+1, …, a+(b-a-1)` — the upper bound is EXCLUSIVE, as implemented — among the
  positions that exist in the image (`slice` at the position after the lower bound succeeded and the
  candidate offset is inside it; `Atom::Many`: "looks for the next pattern at most a certain number of
  bytes ahead"); the first candidate at which THE REST OF THE ENCLOSING GROUP (the rest of the brace
  sub-pattern, of the alternative, or of the whole pattern) matches is taken, and the choice is final;
* alternatives: the first alternative that matches is taken and the choice is final (no backtracking
  into an earlier `( | )` when the rest fails);
* `@n` with `n ≥ 32`: "the scanner will silently ignore nonsensical arguments" (Atom docs);
* save slots: slot 0 = match position; then one slot per `'`, `i?`, `u?`, `z` in order of appearance;
  every alternative of a `( | )` starts counting where the `(` stood and counting continues behind the
  `)` with the maximum over the alternatives.
-/
namespace Pelite.PatSem
open Pelite.Pattern Pelite.Exec

/-! ## Syntax -/

inductive Jump | j1 | j4 | ptr
  deriving DecidableEq, Repr, Inhabited

inductive Item
  | ws (s : List UInt8)
  | byte (b : Nat)
  | str (bs : List UInt8)
  | any
  | skip (n : Nat)
  | range (a b : Nat)
  | jump (j : Jump)
  | save
  | aligned (n : Nat)
  | readI (w : Nat)
  | readU (w : Nat)
  | zero
  | group (j : Jump) (gap : List UInt8) (body : List Item)
  | alt (bodies : List (List Item))
  deriving Repr, Inhabited

abbrev Pat := List Item

/-! ## Concrete syntax -/

/-- spelling choices that are not part of the tree: the case of hex digits and of `@` operands ≥ 10 -/
structure Style where
  upperHex : Bool := false
  upperAlign : Bool := false
  deriving DecidableEq, Repr

def hexDigit (up : Bool) (n : Nat) : UInt8 :=
  if n < 10 then (48 + n).toUInt8 else if up then (55 + n).toUInt8 else (87 + n).toUInt8

/-- decimal digits, most significant first (`fuel` ≥ number of digits) -/
def decDigits : Nat → Nat → List UInt8 → List UInt8
  | 0, _, acc => acc
  | fuel + 1, n, acc =>
    if n < 10 then (48 + n).toUInt8 :: acc else decDigits fuel (n / 10) ((48 + n % 10).toUInt8 :: acc)

/-- decimal spelling of a bound (< 16384 < 10^5; 6 digits cover every `n < 10^6`) -/
def dec (n : Nat) : List UInt8 := decDigits 6 n []

def Jump.chr : Jump → UInt8 | .j1 => 37 | .j4 => 36 | .ptr => 42

def alignChr (sty : Style) (n : Nat) : UInt8 :=
  if n < 10 then (48 + n).toUInt8 else if sty.upperAlign then (55 + n).toUInt8 else (87 + n).toUInt8

mutual
/-- the documented concrete syntax of an item -/
def renderItem (sty : Style) : Item → List UInt8
  | .ws s => s
  | .byte b => [hexDigit sty.upperHex (b / 16), hexDigit sty.upperHex (b % 16)]
  | .str bs => 34 :: (bs ++ [34])
  | .any => [63]
  | .skip n => 91 :: (dec n ++ [93])
  | .range a b => 91 :: (dec a ++ 45 :: (dec b ++ [93]))
  | .jump j => [j.chr]
  | .save => [39]
  | .aligned n => [64, alignChr sty n]
  | .readI w => [105, (48 + w).toUInt8]
  | .readU w => [117, (48 + w).toUInt8]
  | .zero => [122]
  | .group j gap body => j.chr :: (gap ++ 123 :: (render sty body ++ [125]))
  | .alt bodies => 40 :: (renderAlts sty bodies ++ [41])
def render (sty : Style) : List Item → List UInt8
  | [] => []
  | it :: r => renderItem sty it ++ render sty r
def renderAlts (sty : Style) : List (List Item) → List UInt8
  | [] => []
  | [b] => render sty b
  | b :: bs => render sty b ++ 124 :: renderAlts sty bs
end

/-- the pattern string of `p` (`show` in the task statement; `show` is a Lean keyword) -/
def showPat (p : Pat) : List UInt8 := render {} p
/-- a second printer: upper case hex digits and alignment letters -/
def showPatUpper (p : Pat) : List UInt8 := render { upperHex := true, upperAlign := true } p

/-! ## Well-formedness: the side conditions the syntax imposes -/

def isWsByte (c : UInt8) : Bool := c = 32 || c = 9 || c = 10 || c = 13

/- the next free save slot after an item / a sequence / the alternatives of a `( | )` that started at `k` -/
mutual
def slotsItem (k : Nat) : Item → Nat
  | .save | .readI _ | .readU _ | .zero => k + 1
  | .group _ _ body => slotsItems k body
  | .alt bodies => slotsAlts k bodies
  | _ => k
def slotsItems (k : Nat) : List Item → Nat
  | [] => k
  | it :: r => slotsItems (slotsItem k it) r
def slotsAlts (k : Nat) : List (List Item) → Nat
  | [] => k
  | b :: bs => max (slotsItems k b) (slotsAlts k bs)
end

/- local conditions: operands in range, quoted text free of `"`, white space is white space, at least
one alternative, brace nesting at most 255 deep (`d` = braces open around the item) -/
mutual
def wfItem (d : Nat) : Item → Bool
  | .ws s => s.all isWsByte
  | .byte b => b < 256
  | .str bs => bs.all (· ≠ 34)
  | .skip n => n < 16384
  | .range a b => a < b && b < 16384
  | .aligned n => n < 36
  | .readI w | .readU w => w = 1 || w = 2 || w = 4
  | .group _ gap body => gap.all isWsByte && d < 255 && wfItems (d + 1) body
  | .alt bodies => !bodies.isEmpty && wfAlts d bodies
  | _ => true
def wfItems (d : Nat) : List Item → Bool
  | [] => true
  | it :: r => wfItem d it && wfItems d r
def wfAlts (d : Nat) : List (List Item) → Bool
  | [] => true
  | b :: bs => wfItems d b && wfAlts d bs
end

/-! ## Denotational semantics -/

/-- `Rva` arithmetic -/
def addRva (a b : Nat) : Nat := (a + b) % 4294967296

/-- two's complement sign extension of a `w`-byte value to an `Rva`-sized slot (w = 1, 2; a dword fills the slot) -/
def signExtend (w v : Nat) : Nat :=
  if w = 1 then (if v < 128 then v else 4294967296 - (256 - v))
  else if w = 2 then (if v < 32768 then v else 4294967296 - (65536 - v))
  else v

def Jump.width (S : ScanI) : Jump → Nat
  | .j1 => 1 | .j4 => 4 | .ptr => S.fmt.ptrSize

/-- destination of the jump whose operand sits at `c`: relative jumps count from the byte after the
operand; a pointer is translated by the image (`pointer`), failing when it cannot be -/
def Jump.target (S : ScanI) (j : Jump) (c : Nat) : Option Nat :=
  match j with
  | .j1 => (S.read 1 c).map fun v => addRva (addRva c (signExtend 1 v)) 1
  | .j4 => (S.read 4 c).map fun v => addRva (addRva c v) 4
  | .ptr => (S.read S.fmt.ptrSize c).bind S.pointer

/-- captures: (slot, value) pairs, newest first.  A successful match writes every slot at most once. -/
abbrev Caps := List (Nat × Nat)

/-- first success of `f` on `i, i+1, …, i+n-1` -/
def firstSome {α : Type} (f : Nat → Option α) : Nat → Nat → Option α
  | 0, _ => none
  | n + 1, i => match f i with
    | some x => some x
    | none => firstSome f n (i + 1)

/-- all the bytes of a quoted / hex text match at `c`, `c+1`, … -/
def matchBytes (S : ScanI) : List Nat → Nat → Option Nat
  | [], c => some c
  | b :: bs, c => if S.read 1 c = some b then matchBytes S bs (c + 1) else none

mutual
/-- `semItem S k it c` : match item `it`, whose first save slot is `k`, at cursor `c` → new cursor and
the slots written.  (`range` is handled by `sem`: its meaning depends on the rest of the group.) -/
def semItem (S : ScanI) (k : Nat) : Item → Nat → Option (Nat × Caps)
  | .ws _, c => some (c, [])
  | .byte b, c => (matchBytes S [b] c).map (·, [])
  | .str bs, c => (matchBytes S (bs.map UInt8.toNat) c).map (·, [])
  | .any, c => some (addRva c 1, [])
  | .skip n, c => some (addRva c n, [])
  | .range _ _, _ => none
  | .jump j, c => (j.target S c).map (·, [])
  | .save, c => some (c, [(k, c)])
  | .aligned n, c => if n < 32 ∧ c % 2 ^ n ≠ 0 then none else some (c, [])
  | .readI w, c => (S.read w c).map fun v => (addRva c w, [(k, signExtend w v)])
  | .readU w, c => (S.read w c).map fun v => (addRva c w, [(k, v)])
  | .zero, c => some (c, [(k, 0)])
  | .group j _ body, c =>
    match j.target S c with
    | none => none
    | some t =>
      match sem S k body t with
      | none => none
      | some (_, w) => some (addRva c (j.width S), w)      -- back to the byte after the jump operand
  | .alt bodies, c => semAlts S k bodies c
/-- a sequence: the items one after the other; at `[a-b]` the rest of the sequence is tried at the
candidate positions in ascending order -/
def sem (S : ScanI) (k : Nat) : List Item → Nat → Option (Nat × Caps)
  | [], c => some (c, [])
  | .range a b :: r, c =>
    match S.slice (addRva c a) with
    | none => none
    | some (_, len) => firstSome (fun i => sem S k r (addRva (addRva c a) i)) (min (b - a) len) 0
  | it :: r, c =>
    match semItem S k it c with
    | none => none
    | some (c1, w1) =>
      match sem S (slotsItem k it) r c1 with
      | none => none
      | some (c2, w2) => some (c2, w2 ++ w1)
/-- alternatives: the first one that matches (each numbers its slots from `k`) -/
def semAlts (S : ScanI) (k : Nat) : List (List Item) → Nat → Option (Nat × Caps)
  | [], _ => none
  | b :: bs, c =>
    match sem S k b c with
    | some r => some r
    | none => semAlts S k bs c
end

/-- **⟦p⟧ S c** : the pattern string of `p` matched at `c` — `none` = no match, `some (c', caps)` = match,
final cursor and captures; slot 0 (the match position) is added here. -/
def denote (S : ScanI) (p : Pat) (c : Nat) : Option (Nat × Caps) :=
  (sem S 1 p c).map fun (c', w) => (c', w ++ [(0, c)])

/-- the value the documentation specifies for `slot` (the successful path writes a slot at most once;
slots it does not write — bookmarks of alternatives that were not taken — are unspecified) -/
def Caps.get (w : Caps) (slot : Nat) : Option Nat := (w.find? (·.1 = slot)).map (·.2)

/-! ## Reference compiler

State passing like the parser, but purely on lists: `comp k pend items` are the atoms of `items` when
`k` is the parser's `save` counter and `pend = some n` says "the last atom emitted so far is `Skip(n)`
and a following `?` may still be merged into it" (that atom is then the first atom of the result, or
has been merged).  `pend = none` after every other atom and right after `)` (the `sub_end` guard: a
`?` is never merged into the last alternative). -/

def flush : Option Nat → List Atom
  | none => []
  | some n => [.skip n]

/-- `Rangext` prefix for an operand ≥ 256 -/
def rangext (n : Nat) : List Atom := if n ≥ 256 then [.rangext (n / 256)] else []

def Jump.atom : Jump → Atom | .j1 => .jump1 | .j4 => .jump4 | .ptr => .ptr
/-- `Push` operand: the size of the jump operand, 0 = pointer sized -/
def Jump.push : Jump → Nat | .j1 => 1 | .j4 => 4 | .ptr => 0

def readAtom (signed : Bool) (w k : Nat) : Atom :=
  match signed, w with
  | true, 1 => .readI8 k | true, 2 => .readI16 k | true, _ => .readI32 k
  | false, 1 => .readU8 k | false, 2 => .readU16 k | false, _ => .readU32 k

mutual
/-- the atoms of a sequence, `pend` being the still mergeable `Skip` in front of it (included in the result) -/
def comp (k : Nat) (pend : Option Nat) : List Item → List Atom
  | [] => flush pend
  | .ws _ :: r => comp k pend r
  | .any :: r =>
    match pend with
    | some n =>
      if n ≠ 0 ∧ n < 255 then comp k (some (n + 1)) r      -- `*skip += 1`
      else .skip n :: comp k (some 1) r
    | none => comp k (some 1) r
  | .skip n :: r =>
    if n = 0 then comp k pend r                           -- `[0]` emits nothing
    else flush pend ++ rangext n ++ comp k (some (n % 256)) r
  | .range a b :: r =>
    (if a = 0 then flush pend else flush pend ++ rangext a ++ [.skip (a % 256)])
      ++ rangext (b - a) ++ .many ((b - a) % 256) :: comp k none r
  | .byte b :: r => flush pend ++ .byte b :: comp k none r
  | .str bs :: r =>
    -- an empty text emits nothing: the last atom stays what it was
    if bs = [] then comp k pend r
    else flush pend ++ bs.map (fun c => Atom.byte c.toNat) ++ comp k none r
  | .jump j :: r => flush pend ++ j.atom :: comp k none r
  | .save :: r => flush pend ++ .save k :: comp (k + 1) none r
  | .aligned n :: r => flush pend ++ .aligned n :: comp k none r
  | .readI w :: r => flush pend ++ readAtom true w k :: comp (k + 1) none r
  | .readU w :: r => flush pend ++ readAtom false w k :: comp (k + 1) none r
  | .zero :: r => flush pend ++ .zero k :: comp (k + 1) none r
  | .group j _ body :: r =>
    flush pend ++ .push j.push :: j.atom :: (comp k none body ++ .pop :: comp (slotsItems k body) none r)
  | .alt bodies :: r =>
    -- nothing is merged into the last alternative (`sub_end`): the rest starts with `pend = none`
    flush pend ++ compAlts k bodies ++ comp (slotsAlts k bodies) none r
/-- `Case n₁, A₁…, Break m₁, Case n₂, A₂…, Break m₂, …, Nop, Aₙ…` -/
def compAlts (k : Nat) : List (List Item) → List Atom
  | [] => []
  | [b] => .nop :: comp k none b
  | b :: bs => .case ((comp k none b).length + 1) :: (comp k none b ++ .brk (compAlts k bs).length :: compAlts k bs)
end

/-- the complete code of a sequence -/
def code (k : Nat) (items : List Item) : List Atom := comp k none items

/-- what the parser trims from the end -/
def redundant : Atom → Bool
  | .skip _ | .rangext _ | .pop | .many _ => true
  | _ => false

def trimEnd (l : List Atom) : List Atom := (l.reverse.dropWhile redundant).reverse
/-- the trimmed atoms -/
def trimmedTail (l : List Atom) : List Atom := (l.reverse.takeWhile redundant).reverse

/-- before trimming -/
def compileRaw (p : Pat) : List Atom := .save 0 :: code 1 p

/-- **the reference compiler** -/
def compile (p : Pat) : List Atom := trimEnd (compileRaw p)

/- sub-pattern offsets fit a byte: every `Case` / `Break` operand of the alternatives below is < 256 -/
mutual
def offsItem (k : Nat) : Item → Bool
  | .group _ _ body => offsItems k body
  | .alt bodies => offsAlts k bodies
  | _ => true
def offsItems (k : Nat) : List Item → Bool
  | [] => true
  | it :: r => offsItem k it && offsItems (slotsItem k it) r
def offsAlts (k : Nat) : List (List Item) → Bool
  | [] => true
  | [b] => offsItems k b
  | b :: bs => offsItems k b && (code k b).length + 1 < 256 && (compAlts k bs).length < 256 && offsAlts k bs
end

/-- **well-formed pattern**: everything the syntax demands of a pattern string -/
def WF (p : Pat) : Bool :=
  wfItems 0 p && slotsItems 1 p ≤ 255 && offsItems 1 p

/-! ## The fragment on which the interpreter implements the documented semantics

Two places where `exec` deviates from the reading above (witnesses in `Thm/C11.lean`):
* the LAST alternative of a `( | )` is not a frame of its own — `Nop, Aₙ…` runs inline — so a `[a-b]`
  directly inside it retries over everything up to the end of the ENCLOSING group; that differs from the
  documented scope unless nothing follows the `)` in its group;
* a `[a-b]` that the parser trims from the end of the pattern is not executed at all, while everywhere
  else it requires the candidate position to exist. -/

/-- items that emit no atom -/
def silentItem : Item → Bool
  | .ws _ => true
  | .skip n => n = 0
  | .str bs => bs = []
  | _ => false

def silent (r : List Item) : Bool := r.all silentItem

/- `scopeOK t items`: every `[a-b]` of the sequence retries over its documented scope.  `t` says that the
sequence ends where its frame ends (brace body, non-last alternative, whole pattern, or a last
alternative behind which nothing follows in such a sequence); a `[a-b]` directly in the sequence needs
`t`. -/
mutual
def scopeOK (t : Bool) : List Item → Bool
  | [] => true
  | .range _ _ :: r => t && scopeOK t r
  | .group _ _ body :: r => scopeOK true body && scopeOK t r
  | .alt bodies :: r => scopeOKAlts (t && silent r) bodies && scopeOK t r
  | _ :: r => scopeOK t r
def scopeOKAlts (tl : Bool) : List (List Item) → Bool
  | [] => true
  | [b] => scopeOK tl b
  | b :: bs => scopeOK true b && scopeOKAlts tl bs
end

def isMany : Atom → Bool | .many _ => true | _ => false

/-- the fragment: ranges are scopeOK as documented and none of them is trimmed away -/
def InFragment (p : Pat) : Bool :=
  scopeOK true p && !(trimmedTail (compileRaw p)).any isMany

/-! ## Side condition on file images

On a `PeFile` the interpreter reads bytes through the FIRST section whose virtual extent contains the
rva, but `exec_many` peeks through the slice of the section the skip started in.  The two agree when the
virtual extents of the sections are pairwise disjoint (and do not wrap) — the layout every linker
produces and the only one for which "the byte at an rva" is unambiguous. -/

/-- decidable: extents `[va, va + max(vs, rs))` do not wrap and are pairwise disjoint -/
def secsDisjointB : List Pe.Sec → Bool
  | [] => true
  | s :: r =>
    decide (s.va + max s.vs s.rs < 4294967296) &&
    r.all (fun t => decide (s.va + max s.vs s.rs ≤ t.va) || decide (t.va + max t.vs t.rs ≤ s.va)) && secsDisjointB r

/-! ## Reference reader: the inverse of `render`

A recursive descent reader of the documented grammar.  `readSeq` reads items up to (not including) the
first `}`, `|`, `)` or the end; white space runs become `ws` items. -/

def hexVal (c : UInt8) : Option Nat :=
  if 48 ≤ c ∧ c ≤ 57 then some (c.toNat - 48)
  else if 65 ≤ c ∧ c ≤ 70 then some (c.toNat - 55)
  else if 97 ≤ c ∧ c ≤ 102 then some (c.toNat - 87)
  else none

def alignVal (c : UInt8) : Option Nat :=
  if 48 ≤ c ∧ c ≤ 57 then some (c.toNat - 48)
  else if 65 ≤ c ∧ c ≤ 90 then some (c.toNat - 55)
  else if 97 ≤ c ∧ c ≤ 122 then some (c.toNat - 87)
  else none

def readDec : List UInt8 → Nat → Bool → Option (Nat × List UInt8)
  | c :: cs, n, seen =>
    if 48 ≤ c ∧ c ≤ 57 then (if n < 100000 then readDec cs (n * 10 + (c.toNat - 48)) true else none)
    else if seen then some (n, c :: cs) else none
  | [], _, _ => none

def jumpOf (c : UInt8) : Option Jump :=
  if c = 37 then some .j1 else if c = 36 then some .j4 else if c = 42 then some .ptr else none

mutual
/-- `fuel` bounds the recursion (input length + 1 suffices) -/
def readSeq : Nat → List UInt8 → Option (List Item × List UInt8)
  | 0, _ => none
  | _ + 1, [] => some ([], [])
  | fuel + 1, c :: cs =>
    let cont (it : Item) (rest : List UInt8) : Option (List Item × List UInt8) :=
      (readSeq fuel rest).map fun (its, rest') => (it :: its, rest')
    if c = 125 ∨ c = 124 ∨ c = 41 then some ([], c :: cs)
    else if isWsByte c then
      let s := (c :: cs).takeWhile isWsByte
      cont (.ws s) ((c :: cs).dropWhile isWsByte)
    else if c = 63 then cont .any cs
    else if c = 39 then cont .save cs
    else if c = 122 then cont .zero cs
    else if c = 34 then
      let bs := cs.takeWhile (· ≠ 34)
      match cs.dropWhile (· ≠ 34) with
      | _ :: rest => cont (.str bs) rest
      | [] => none
    else if c = 64 then
      match cs with
      | o :: rest => (alignVal o).bind fun n => cont (.aligned n) rest
      | [] => none
    else if c = 105 ∨ c = 117 then
      match cs with
      | o :: rest =>
        if o = 49 ∨ o = 50 ∨ o = 52 then cont (if c = 105 then .readI (o.toNat - 48) else .readU (o.toNat - 48)) rest
        else none
      | [] => none
    else if c = 91 then
      match readDec cs 0 false with
      | some (a, d :: rest) =>
        if d = 93 then cont (.skip a) rest
        else if d = 45 then
          match readDec rest 0 false with
          | some (b, e :: rest') => if e = 93 then cont (.range a b) rest' else none
          | _ => none
        else none
      | _ => none
    else if c = 40 then
      match readAlts fuel cs with
      | some (bs, rest) => cont (.alt bs) rest
      | none => none
    else
      match jumpOf c with
      | some j =>
        let gap := cs.takeWhile isWsByte
        match cs.dropWhile isWsByte with
        | 123 :: rest =>
          match readSeq fuel rest with
          | some (body, 125 :: rest') => cont (.group j gap body) rest'
          | _ => none
        | _ => cont (.jump j) cs
      | none =>
        match hexVal c, cs with
        | some hi, d :: rest => (hexVal d).bind fun lo => cont (.byte (hi * 16 + lo)) rest
        | _, _ => none
/-- `b1 | b2 | … )` -/
def readAlts : Nat → List UInt8 → Option (List (List Item) × List UInt8)
  | 0, _ => none
  | fuel + 1, inp =>
    match readSeq fuel inp with
    | some (b, d :: rest) =>
      if d = 41 then some ([b], rest)
      else if d = 124 then (readAlts fuel rest).map fun (bs, rest') => (b :: bs, rest')
      else none
    | _ => none
end

/-- the tree of a pattern string, if it belongs to the documented grammar -/
def readPat (s : List UInt8) : Option Pat :=
  match readSeq (s.length + 1) s with
  | some (p, []) => some p
  | _ => none

/-- the spelling of `s`, if `s` is `render sty p` for one of the four styles -/
def readStyled (s : List UInt8) : Option (Style × Pat) :=
  match readPat s with
  | none => none
  | some p =>
    [(⟨false, false⟩ : Style), ⟨true, true⟩, ⟨false, true⟩, ⟨true, false⟩].findSome? fun sty =>
      if render sty p = s then some (sty, p) else none

/-! ## Note on the upper bound of `[a-b]` (second audit round)

The header of this file lists "the upper bound is EXCLUSIVE, as implemented" among the readings taken where the
documentation is silent.  It is not silent there: "lower and upper bound of number of bytes to skip" makes `b` a
legal number of skipped bytes (YARA's `[4-6]` = 4, 5 or 6 bytes).  `sem` / `denote` (and `semI` / `denoteImpl` of
`Spec/PatternSemImpl.lean`) are therefore specifications of what the implementation DOES at `[a-b]`; what the
documentation SAYS is `denoteDoc` of `Spec/PatternSemDoc.lean`.  The difference is a recorded known finding
(`Thm/C11Doc.lean:C11_doc_upper_bound_differs`, `known-findings.txt`), not repaired. -/

end Pelite.PatSem
