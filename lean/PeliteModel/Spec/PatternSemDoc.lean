import PeliteModel.Spec.PatternSemImpl
/-!
# The documented upper bound of `[a-b]` (C11)

The `parse` documentation (`src/proc-macros/pattern.rs`, "The syntax takes inspiration from YARA hexadecimal
strings") says about `b8 [16] 50 [13-42] ff`:

> Pairs of decimal numbers separated by a hypen in square brackets indicate the lower and upper bound of
> number of bytes to skip.  The scanner is non greedy and considers the first match while skipping as little
> as possible.

"Lower and upper bound of the number of bytes to skip" — as in YARA, where the jump `[4-6]` stands for 4, 5 or
6 arbitrary bytes — makes `b` itself a legal number of skipped bytes: `[13-42]` skips 13, 14, …, 42 bytes.

`Spec/PatternSem.lean` (`sem` / `denote`) and `Spec/PatternSemImpl.lean` (`semI` / `denoteImpl`) take the
upper bound EXCLUSIVE, "as implemented": the parser compiles `[13-42]` to `Skip(13), Many(29)` and `exec_many`
tries the offsets `0 … 28` (`&bytes[..min(limit, len)]`), i.e. 13 … 41 skipped bytes; the documented 42-byte
skip is never tried.  That is a deviation of the implementation from its documentation (recorded as a known
finding, not repaired: a repair changes the meaning of every ranged pattern), not a reading of it.

This file states the documented meaning: `semD` / `semAltsD` / `denoteDoc` are `semI` / `semAltsI` /
`denoteImpl` of `Spec/PatternSemImpl.lean`, character for character, except for ONE expression: the number
of candidates of a `[a-b]` is `b + 1 - a` (the skips `a, a+1, …, b`) instead of `b - a`.  Everything else —
the continuation semantics, the scope of a `[a-b]` in a last alternative, a trailing `[a-b]` meaning `[a]`
("skipping as little as possible"), slot numbering — is unchanged, so that the ONLY difference between
`denoteDoc` and `denoteImpl` is the documented upper bound.

`bumpRanges` writes a tree in the implemented dialect: every `[a-b]` becomes `[a-(b+1)]`.
`Thm/C11Doc.lean`: `denoteDoc S p = denoteImpl S (bumpRanges p)`; the two semantics agree on patterns without
`[a-b]` and at every `[a-b]` whose candidate "exactly `b` bytes" is not needed; a kernel-checked witness
where they differ, on which the interpreter (and the real scanner) follow `denoteImpl`.
-/
namespace Pelite.PatSem
open Pelite.Pattern Pelite.Exec

mutual
/-- `semI` with the documented upper bound: `[a-b]` tries the skips `a, a+1, …, b` -/
def semD (S : ScanI) (k : Nat) : List Item → Nat → Kont → Option (Nat × Caps)
  | [], c, κ => κ c
  | .range a b :: r, c, κ =>
    -- the first candidate at which the rest of the FRAME matches; `b` bytes is a candidate
    match S.slice (addRva c a) with
    | none => none
    | some (_, len) => firstSome (fun i => semD S k r (addRva (addRva c a) i) κ) (min (b + 1 - a) len) 0
  | .group j _ body :: r, c, κ =>
    match j.target S c with
    | none => none
    | some t =>
      match semD S k body t Kont.done with
      | none => none
      | some (_, w) => addCaps w (semD S (slotsItems k body) r (addRva c (j.width S)) κ)
  | .alt bodies :: r, c, κ =>
    semAltsD S k bodies c (fun c1 => semD S (slotsAlts k bodies) r c1 κ)
  | it :: r, c, κ =>
    match semItem S k it c with
    | none => none
    | some (c1, w1) => addCaps w1 (semD S (slotsItem k it) r c1 κ)
/-- `semAltsI` over `semD` -/
def semAltsD (S : ScanI) (k : Nat) : List (List Item) → Nat → Kont → Option (Nat × Caps)
  | [], _, _ => none
  | [b], c, κ => semD S k b c κ
  | b :: bs, c, κ =>
    match semD S k b c Kont.done with
    | some (c1, w1) => addCaps w1 (κ c1)
    | none => semAltsD S k bs c κ
end

/-- **⟦p⟧_doc S c** : the pattern string of `p` matched at `c` with the DOCUMENTED upper bound of every
`[a-b]` (inclusive); otherwise the semantics the implementation has (`denoteImpl`). -/
def denoteDoc (S : ScanI) (p : Pat) (c : Nat) : Option (Nat × Caps) :=
  (semD S 1 (dropTrailing true p) c Kont.done).map fun (c', w) => (c', w ++ [(0, c)])

/-! ## Translating between the two dialects -/

mutual
/-- every `[a-b]` becomes `[a-(b+1)]`: the tree whose IMPLEMENTED meaning is the documented meaning of the
argument -/
def bumpRanges : List Item → List Item
  | [] => []
  | .range a b :: r => .range a (b + 1) :: bumpRanges r
  | .group j gap body :: r => .group j gap (bumpRanges body) :: bumpRanges r
  | .alt bodies :: r => .alt (bumpAlts bodies) :: bumpRanges r
  | it :: r => it :: bumpRanges r
def bumpAlts : List (List Item) → List (List Item)
  | [] => []
  | b :: bs => bumpRanges b :: bumpAlts bs
end

mutual
/-- does the tree contain a `[a-b]` at all (at any depth) -/
def hasRange : List Item → Bool
  | [] => false
  | .range _ _ :: _ => true
  | .group _ _ body :: r => hasRange body || hasRange r
  | .alt bodies :: r => hasRangeAlts bodies || hasRange r
  | _ :: r => hasRange r
def hasRangeAlts : List (List Item) → Bool
  | [] => false
  | b :: bs => hasRange b || hasRangeAlts bs
end

end Pelite.PatSem
