import PeliteModel.Spec.PatternSem
/-!
# Second reference semantics of pattern strings: the reading the implementation has (C11)

`Spec/PatternSem.lean` fixes ONE reading of the `parse` documentation (`sem` / `denote`).  Two sentences
of that documentation do not determine the meaning of a pattern string:

* "Parentheses indicate alternate subpatterns … The scanner attempts to match the alternate subpatterns
  from left to right and fails if none of them match." — together with "`[a-b]` … The scanner is non
  greedy and considers the first match while skipping as little as possible."  It is not said WHAT has to
  match after the skipped bytes: `denote` reads "the rest of the enclosing sub-pattern" for every
  alternative.  The reading taken here: the LAST alternative is not a sub-pattern of its own, it simply
  continues into whatever follows the `)`; so a `[a-b]` in the last alternative looks for the first
  position at which the rest of the alternative AND what follows the `)` (up to the end of the enclosing
  brace body / earlier alternative / pattern) match.  Earlier alternatives stay committed choices.
* "`[a-b]` … lower and upper bound of number of bytes to skip": a `[a-b]` behind which nothing can fail any
  more — only wild cards, skips, white space, empty texts and closing brackets follow up to the end of the
  pattern string — has nothing to look for.  `denote` still demands that the position after the lower
  bound exists in the image; the reading taken here: such a trailing `[a-b]` skips "as little as possible",
  i.e. it means `[a]` (which, like every fixed skip, only moves the cursor).  Nothing that follows it can
  observe the cursor, so for the answer and the captures it is a no-op.

Everything else is as in `Spec/PatternSem.lean` (same trees, same `semItem` for the items without
sub-patterns, same slot numbering, same `Caps`).  The semantics is written with an explicit success
continuation `κ` = "the rest of the enclosing frame" (backtracking semantics: `[a-b]` tries its
candidates in ascending order against `κ`), not by running the interpreter model.

`Thm/C11Impl.lean`: the interpreter implements `denoteImpl` for EVERY well-formed pattern, and
`denoteImpl = denote` on the fragment `InFragment`.
-/
namespace Pelite.PatSem
open Pelite.Pattern Pelite.Exec

/-- what remains to be matched in the enclosing frame, as a function of the cursor -/
abbrev Kont := Nat → Option (Nat × Caps)

/-- nothing remains: the frame ends here -/
def Kont.done : Kont := fun c => some (c, [])

/-- add the captures `w1` of what was matched before -/
def addCaps (w1 : Caps) : Option (Nat × Caps) → Option (Nat × Caps)
  | none => none
  | some (c2, w2) => some (c2, w2 ++ w1)

mutual
/-- `semI S k items c κ` : match the sequence `items` (first save slot `k`) at cursor `c` and then the
rest `κ` of the enclosing frame; the result is that of the whole frame. -/
def semI (S : ScanI) (k : Nat) : List Item → Nat → Kont → Option (Nat × Caps)
  | [], c, κ => κ c
  | .range a b :: r, c, κ =>
    -- the first candidate at which the rest of the FRAME matches
    match S.slice (addRva c a) with
    | none => none
    | some (_, len) => firstSome (fun i => semI S k r (addRva (addRva c a) i) κ) (min (b - a) len) 0
  | .group j _ body :: r, c, κ =>
    -- a brace body is a frame of its own
    match j.target S c with
    | none => none
    | some t =>
      match semI S k body t Kont.done with
      | none => none
      | some (_, w) => addCaps w (semI S (slotsItems k body) r (addRva c (j.width S)) κ)
  | .alt bodies :: r, c, κ =>
    semAltsI S k bodies c (fun c1 => semI S (slotsAlts k bodies) r c1 κ)
  | it :: r, c, κ =>
    -- items without sub-patterns: as in `Spec/PatternSem.lean`
    match semItem S k it c with
    | none => none
    | some (c1, w1) => addCaps w1 (semI S (slotsItem k it) r c1 κ)
/-- alternatives followed by `κ`: every alternative but the last is a frame of its own and a committed
choice; the last one continues inline into `κ` -/
def semAltsI (S : ScanI) (k : Nat) : List (List Item) → Nat → Kont → Option (Nat × Caps)
  | [], _, _ => none
  | [b], c, κ => semI S k b c κ
  | b :: bs, c, κ =>
    match semI S k b c Kont.done with
    | some (c1, w1) => addCaps w1 (κ c1)
    | none => semAltsI S k bs c κ
end

/-! ## Trailing `[a-b]` -/

/-- items behind which nothing can fail: they only move the cursor (or mean nothing) -/
def trailingItem : Item → Bool
  | .ws _ | .any | .skip _ | .range _ _ => true
  | .str bs => bs = []
  | _ => false

mutual
/-- `dropTrailing e items` : `e` says that the sequence `items` ends where the pattern string ends (only
closing brackets follow).  Every `[a-b]` behind which only `trailingItem`s and closing brackets follow up
to the end of the pattern string is replaced by `[a]`: it has nothing to look for, it skips as little as
possible — its lower bound — and, like a fixed skip, does not require the skipped bytes to exist.
`dropTrailing false` changes nothing. -/
def dropTrailing (e : Bool) : List Item → List Item
  | [] => []
  | .range a b :: r => (if e && r.all trailingItem then .skip a else .range a b) :: dropTrailing e r
  | .group j gap body :: r => .group j gap (dropTrailing (e && r.all trailingItem) body) :: dropTrailing e r
  | .alt bodies :: r => .alt (dropTrailingAlts (e && r.all trailingItem) bodies) :: dropTrailing e r
  | it :: r => it :: dropTrailing e r
/-- only the last alternative ends where the `)` stands -/
def dropTrailingAlts (e : Bool) : List (List Item) → List (List Item)
  | [] => []
  | [b] => [dropTrailing e b]
  | b :: bs => dropTrailing false b :: dropTrailingAlts e bs
end

/-- **⟦p⟧ᵢ S c** : the pattern string of `p` matched at `c` under the reading above -/
def denoteImpl (S : ScanI) (p : Pat) (c : Nat) : Option (Nat × Caps) :=
  (semI S 1 (dropTrailing true p) c Kont.done).map fun (c', w) => (c', w ++ [(0, c)])

end Pelite.PatSem
