import PeliteModel.Spec.PatternSem
/-!
# Second reference semantics of pattern strings: the reading the implementation has (C11)

`Spec/PatternSem.lean` fixes ONE reading of the `parse` documentation (`sem` / `denote`).  Two sentences
of that documentation do not determine the meaning of a pattern string:

* "Parentheses indicate alternate subpatterns … The scanner attempts to match the alternate subpatterns
  from left to right and fails if none of them match." — together with "`[a-b]` … The scanner is non
  greedy and considers the first match while skipping as little as possible."  It is not said WHAT has to
  match after the skipped bytes: `denote` reads "the rest of the enclosing sub-pattern" for every
  alternative.  The reading taken here: the LAST alternative is not a sub-pattern of its own, it simply
  continues into whatever follows the `)`; so a `[a-b]` in the last alternative looks for the first
  position at which the rest of the alternative AND what follows the `)` (up to the end of the enclosing
  brace body / earlier alternative / pattern) match.  Earlier alternatives stay committed choices.
* "`[a-b]` … lower and upper bound of number of bytes to skip": a `[a-b]` behind which nothing can fail any
  more — only wild cards, skips, white space, empty texts and closing brackets follow up to the end of the
  pattern string — has nothing to look for.  `denote` still demands that the position after the lower
  bound exists in the image; the reading taken here: such a trailing `[a-b]` skips "as little as possible",
  i.e. it means `[a]` (which, like every fixed skip, only moves the cursor).  Nothing that follows it can
  observe the cursor, so for the answer and the captures it is a no-op.

Everything else is as in `Spec/PatternSem.lean` (same trees, same `semItem` for the items without
sub-patterns, same slot numbering, same `Caps`).  The semantics is written with an explicit success
continuation `κ` = "the rest of the enclosing frame" (backtracking semantics: `[a-b]` tries its
candidates in ascending order against `κ`), not by running the interpreter model.

`Thm/C11Impl.lean`: the interpreter implements `denoteImpl` for EVERY well-formed pattern, and
`denoteImpl = denote` on the fragment `InFragment`.
-/
namespace Pelite.PatSem
open Pelite.Pattern Pelite.Exec

/-- what remains to be matched in the enclosing frame, as a function of the cursor -/
abbrev Kont := Nat → Option (Nat × Caps)

/-- nothing remains: the frame ends here -/
def Kont.done : Kont := fun c => some (c, [])

/-- add the captures `w1` of what was matched before -/
def addCaps (w1 : Caps) : Option (Nat × Caps) → Option (Nat × Caps)
  | none => none
  | some (c2, w2) => some (c2, w2 ++ w1)

mutual
/-- `semI S k items c κ` : match the sequence `items` (first save slot `k`) at cursor `c` and then the
rest `κ` of the enclosing frame; the result is that of the whole frame. -/
def semI (S : ScanI) (k : Nat) : List Item → Nat → Kont → Option (Nat × Caps)
  | [], c, κ => κ c
  | .range a b :: r, c, κ =>
    -- the first candidate at which the rest of the FRAME matches
    match S.slice (addRva c a) with
    | none => none
    | some (_, len) => firstSome (fun i => semI S k r (addRva (addRva c a) i) κ) (min (b - a) len) 0
  | .group j _ body :: r, c, κ =>
    -- a brace body is a frame of its own
    match j.target S c with
    | none => none
    | some t =>
      match semI S k body t Kont.done with
      | none => none
      | some (_, w) => addCaps w (semI S (slotsItems k body) r (addRva c (j.width S)) κ)
  | .alt bodies :: r, c, κ =>
    semAltsI S k bodies c (fun c1 => semI S (slotsAlts k bodies) r c1 κ)
  | it :: r, c, κ =>
    -- items without sub-patterns: as in `Spec/PatternSem.lean`
    match semItem S k it c with
    | none => none
    | some (c1, w1) => addCaps w1 (semI S (slotsItem k it) r c1 κ)
/-- alternatives followed by `κ`: every alternative but the last is a frame of its own and a committed
choice; the last one continues inline into `κ` -/
def semAltsI (S : ScanI) (k : Nat) : List (List Item) → Nat → Kont → Option (Nat × Caps)
  | [], _, _ => none
  | [b], c, κ => semI S k b c κ
  | b :: bs, c, κ =>
    match semI S k b c Kont.done with
    | some (c1, w1) => addCaps w1 (κ c1)
    | none => semAltsI S k bs c κ
end

/-! ## Trailing `[a-b]` -/

/-- items behind which nothing can fail: they only move the cursor (or mean nothing) -/
def trailingItem : Item → Bool
  | .ws _ | .any | .skip _ | .range _ _ => true
  | .str bs => bs = []
  | _ => false

mutual
/-- `dropTrailing e items` : `e` says that the sequence `items` ends where the pattern string ends (only
closing brackets follow).  Every `[a-b]` behind which only `trailingItem`s and closing brackets follow up
to the end of the pattern string is replaced by `[a]`: it has nothing to look for, it skips as little as
possible — its lower bound — and, like a fixed skip, does not require the skipped bytes to exist.
`dropTrailing false` changes nothing. -/
def dropTrailing (e : Bool) : List Item → List Item
  | [] => []
  | .range a b :: r => (if e && r.all trailingItem then .skip a else .range a b) :: dropTrailing e r
  | .group j gap body :: r => .group j gap (dropTrailing (e && r.all trailingItem) body) :: dropTrailing e r
  | .alt bodies :: r => .alt (dropTrailingAlts (e && r.all trailingItem) bodies) :: dropTrailing e r
  | it :: r => it :: dropTrailing e r
/-- only the last alternative ends where the `)` stands -/
def dropTrailingAlts (e : Bool) : List (List Item) → List (List Item)
  | [] => []
  | [b] => [dropTrailing e b]
  | b :: bs => dropTrailing false b :: dropTrailingAlts e bs
end

/-- **⟦p⟧ᵢ S c** : the pattern string of `p` matched at `c` under the reading above -/
def denoteImpl (S : ScanI) (p : Pat) (c : Nat) : Option (Nat × Caps) :=
  (semI S 1 (dropTrailing true p) c Kont.done).map fun (c', w) => (c', w ++ [(0, c)])

/-! ## Footprint: what the semantics asks the image (perturbation clause of C11)

"… and rejects a layout that differs in any byte the pattern constrains."  The semantics talks to the image
through four kinds of questions; `footprint S p c` lists, in order, the questions `denoteImpl S p c` asks —
on the accepting path AND on every failed candidate of a `[a-b]` / failed alternative before it.
`Thm/C11Frame.lean`: the answer of `denoteImpl` depends on the image only through the answers to these questions
(`C11_impl_footprint`); for straight-line patterns (no `[a-b]`, no `( | )`) the literal bytes `constrained S p c`
are all in the footprint, hold on every accepted layout, and a layout that differs in one of them is rejected. -/

/-- a question the semantics asks the image -/
inductive Query
  /-- compare the byte at `a` with a literal of the pattern (exact byte `hh` / a byte of quoted text) -/
  | lit (a : Nat)
  /-- read a `w`-byte operand at `a`: jump operand, pointer, typed read `i?` / `u?` -/
  | read (w a : Nat)
  /-- translate the pointer value `v` to an rva -/
  | pointer (v : Nat)
  /-- how many bytes are addressable from `a` on (bounds the candidates of a `[a-b]`) -/
  | slice (a : Nat)
  deriving DecidableEq, Repr

/-- the images `S` and `S'` answer the question alike -/
def Query.same (S S' : ScanI) : Query → Prop
  | .lit a => S'.read 1 a = S.read 1 a
  | .read w a => S'.read w a = S.read w a
  | .pointer v => S'.pointer v = S.pointer v
  | .slice a => (S'.slice a).map (·.2) = (S.slice a).map (·.2)

/-- the comparisons `matchBytes` makes: up to and including the first mismatch -/
def fpMatch (S : ScanI) : List Nat → Nat → List Query
  | [], _ => []
  | b :: bs, c => .lit c :: (if S.read 1 c = some b then fpMatch S bs (c + 1) else [])

/-- the questions `Jump.target` asks -/
def Jump.fp (S : ScanI) (j : Jump) (c : Nat) : List Query :=
  match j with
  | .j1 => [.read 1 c]
  | .j4 => [.read 4 c]
  | .ptr => .read S.fmt.ptrSize c :: (match S.read S.fmt.ptrSize c with | some v => [.pointer v] | none => [])

/-- the questions `semItem` asks for an item without sub-patterns -/
def fpItem (S : ScanI) : Item → Nat → List Query
  | .byte b, c => fpMatch S [b] c
  | .str bs, c => fpMatch S (bs.map UInt8.toNat) c
  | .jump j, c => j.fp S c
  | .readI w, c => [.read w c]
  | .readU w, c => [.read w c]
  | _, _ => []

/-- the questions of the candidates `i, i+1, …` of a `firstSome`, up to and including the first success -/
def fpFirst {α : Type} (f : Nat → Option α) (g : Nat → List Query) : Nat → Nat → List Query
  | 0, _ => []
  | n + 1, i => g i ++ (match f i with | some _ => [] | none => fpFirst f g n (i + 1))

mutual
/-- the questions `semI S k items c κ` asks, `φ c1` being those of the continuation `κ` at `c1` -/
def fpI (S : ScanI) (k : Nat) : List Item → Nat → Kont → (Nat → List Query) → List Query
  | [], c, _, φ => φ c
  | .range a b :: r, c, κ, φ =>
    .slice (addRva c a) ::
    match S.slice (addRva c a) with
    | none => []
    | some (_, len) =>
      fpFirst (fun i => semI S k r (addRva (addRva c a) i) κ) (fun i => fpI S k r (addRva (addRva c a) i) κ φ)
        (min (b - a) len) 0
  | .group j _ body :: r, c, κ, φ =>
    j.fp S c ++
    match j.target S c with
    | none => []
    | some t =>
      fpI S k body t Kont.done (fun _ => []) ++
      match semI S k body t Kont.done with
      | none => []
      | some _ => fpI S (slotsItems k body) r (addRva c (j.width S)) κ φ
  | .alt bodies :: r, c, κ, φ =>
    fpAltsI S k bodies c (fun c1 => semI S (slotsAlts k bodies) r c1 κ) (fun c1 => fpI S (slotsAlts k bodies) r c1 κ φ)
  | it :: r, c, κ, φ =>
    fpItem S it c ++
    match semItem S k it c with
    | none => []
    | some (c1, _) => fpI S (slotsItem k it) r c1 κ φ
/-- the questions `semAltsI S k bodies c κ` asks -/
def fpAltsI (S : ScanI) (k : Nat) : List (List Item) → Nat → Kont → (Nat → List Query) → List Query
  | [], _, _, _ => []
  | [b], c, κ, φ => fpI S k b c κ φ
  | b :: bs, c, κ, φ =>
    fpI S k b c Kont.done (fun _ => []) ++
    match semI S k b c Kont.done with
    | some (c1, _) => φ c1
    | none => fpAltsI S k bs c κ φ
end

/-- **the footprint of `denoteImpl S p c`** -/
def footprint (S : ScanI) (p : Pat) (c : Nat) : List Query :=
  fpI S 1 (dropTrailing true p) c Kont.done (fun _ => [])

mutual
def straightItem : Item → Bool
  | .range _ _ => false
  | .alt _ => false
  | .group _ _ body => straight body
  | _ => true
/-- straight-line patterns: no `[a-b]` and no `( | )` at any depth (brace groups and jumps are allowed) -/
def straight : List Item → Bool
  | [] => true
  | it :: r => straightItem it && straight r
end

/-- the (address, value) pairs `matchBytes` demands: up to and including the first mismatch -/
def consMatch (S : ScanI) : List Nat → Nat → List (Nat × Nat)
  | [], _ => []
  | b :: bs, c => (c, b) :: (if S.read 1 c = some b then consMatch S bs (c + 1) else [])

def consItem (S : ScanI) : Item → Nat → List (Nat × Nat)
  | .byte b, c => consMatch S [b] c
  | .str bs, c => consMatch S (bs.map UInt8.toNat) c
  | _, _ => []

/-- the cursor behind a straight-line item that matches at `c`; `none`: it does not match (or is a `[a-b]` / `( | )`) -/
def advanceI (S : ScanI) (k : Nat) : Item → Nat → Option Nat
  | .range _ _, _ => none
  | .alt _, _ => none
  | .group j _ body, c =>
    match j.target S c with
    | none => none
    | some t => (semI S k body t Kont.done).map fun _ => addRva c (j.width S)
  | it, c => (semItem S k it c).map (·.1)

mutual
/-- the literal bytes one item constrains: its own (exact byte, quoted text) or those of its brace body at the
jump's destination -/
def consIt (S : ScanI) (k : Nat) : Item → Nat → List (Nat × Nat)
  | .byte b, c => consMatch S [b] c
  | .str bs, c => consMatch S (bs.map UInt8.toNat) c
  | .group j _ body, c =>
    match j.target S c with
    | none => []
    | some t => consI S k body t
  | _, _ => []
/-- the literal bytes a straight-line sequence constrains at cursor `c`: (address, required value), in the order
the semantics compares them, jump destinations taken from the image; the list ends at the first item that fails
(and at the first `[a-b]` / `( | )`) -/
def consI (S : ScanI) (k : Nat) : List Item → Nat → List (Nat × Nat)
  | [], _ => []
  | it :: r, c =>
    consIt S k it c ++
    match advanceI S k it c with
    | none => []
    | some c1 => consI S (slotsItem k it) r c1
end

/-- **the bytes the pattern constrains** on the image `S` at cursor `c`: every literal byte of a straight-line
pattern (`C11_impl_constrained_complete`); in general those up to the first `[a-b]` / `( | )` of each sequence -/
def constrained (S : ScanI) (p : Pat) (c : Nat) : List (Nat × Nat) := consI S 1 (dropTrailing true p) c

mutual
def litCountItem : Item → Nat
  | .byte _ => 1
  | .str bs => bs.length
  | .group _ _ body => litCount body
  | _ => 0
/-- the number of literal bytes (exact bytes and bytes of quoted text) of a straight-line sequence, at any depth -/
def litCount : List Item → Nat
  | [] => 0
  | it :: r => litCountItem it + litCount r
end

end Pelite.PatSem
