import PeliteModel.Model.Pe
/-! Specification side of C04 / C07, written from the property statements and the PE/COFF format. -/
namespace Pelite.Pe

/-- every field of the section header is a `u32` -/
def Sec.InRange (s : Sec) : Prop :=
  s.vs < 4294967296 ∧ s.va < 4294967296 ∧ s.rs < 4294967296 ∧ s.prd < 4294967296

/-- the virtual extent of a section as the mapping uses it: `[va, va + max(vs, rs))` modulo 2^32 -/
def Sec.containsRva (s : Sec) (rva : Nat) : Bool :=
  s.va ≤ rva && rva < (s.va + max s.vs s.rs) % 4294967296

/-- first section whose virtual extent contains `rva` -/
def firstV (secs : List Sec) (rva : Nat) : Option Sec := secs.find? (·.containsRva rva)

/-- the raw extent of a section: `[prd, prd + rs)` modulo 2^32 -/
def Sec.containsOff (s : Sec) (fo : Nat) : Bool :=
  s.prd ≤ fo && fo < (s.prd + s.rs) % 4294967296

def firstF (secs : List Sec) (fo : Nat) : Option Sec := secs.find? (·.containsOff fo)

/-- C04 (1): what `rva_to_file_offset` must answer for an rva at or beyond the headers -/
def specR2F (secs : List Sec) (rva : Nat) : Out Nat :=
  match firstV secs rva with
  | none => .err .bounds
  | some s =>
    if s.prd + s.rs ≥ 4294967296 then .err .overflow
    else if rva - s.va < s.rs then .ok (s.prd + (rva - s.va))
    else if rva - s.va < s.vs then .err .zeroFill
    else .err .bounds

def specF2R (secs : List Sec) (fo : Nat) : Out Nat :=
  match firstF secs fo with
  | none => .err .bounds
  | some s =>
    if s.va + s.vs ≥ 4294967296 then .err .overflow
    else if fo - s.prd < s.vs then .ok (s.va + (fo - s.prd))
    else if fo - s.prd < s.rs then .err .unmapped
    else .err .bounds

/-- Well-formed section table for the inversion statement: no wrap-around, raw data and virtual
extents beyond the headers, raw extents pairwise disjoint, virtual extents pairwise disjoint.
A section WITHOUT raw data (`SizeOfRawData = 0`: an ordinary `.bss`, whose `PointerToRawData` is
conventionally 0) stores nothing, so nothing is asked of its `PointerToRawData`. -/
def WF (soh : Nat) (secs : List Sec) : Prop :=
  (∀ s ∈ secs, s.va + max s.vs s.rs < 4294967296 ∧ s.prd + s.rs < 4294967296 ∧ (s.rs = 0 ∨ soh ≤ s.prd) ∧ soh ≤ s.va) ∧
  secs.Pairwise (fun a b => (a.prd + a.rs ≤ b.prd ∨ b.prd + b.rs ≤ a.prd) ∧
                            (a.va + max a.vs a.rs ≤ b.va ∨ b.va + max b.vs b.rs ≤ a.va))

/-- C07: structural acceptance, written from the PE layout (all sizes from the PE/COFF spec). -/
def Accept (f : Fmt) (img : Img) : Prop :=
  let b := img.bytes
  64 ≤ b.size ∧ img.base % 4 = 0 ∧
  le16 b 0 = 0x5A4D ∧                                   -- "MZ"
  eLfanew b % 4 = 0 ∧ eLfanew b ≤ 0x01000000 ∧          -- documented sanity limit
  eLfanew b + f.ntSize ≤ b.size ∧                       -- NT headers inside the buffer
  le32 b (eLfanew b) = 0x00004550 ∧                     -- "PE\0\0"
  optMagic b = f.magic ∧                                -- magic of the parser in use
  sizeOfHeaders b ≤ b.size ∧ sizeOfHeaders b ≤ sizeOfImage b ∧
  eLfanew b + f.ntSize + 8 * min (numberOfRvaAndSizes f b) 16 ≤ b.size ∧   -- declared data directories
  numberOfSections b ≤ 96 ∧
  eLfanew b + 24 + sizeOfOptionalHeader b + 40 * numberOfSections b ≤ b.size ∧  -- declared section table
  sizeOfOptionalHeader b % 4 = 0                        -- section table dword aligned (Misaligned otherwise)

instance (f : Fmt) (img : Img) : Decidable (Accept f img) := by unfold Accept; infer_instance

/-- The standard PE checksum (ImageHlp `CheckSumMappedFile`): one's-complement sum of the 16-bit
words of the file with the two words of the CheckSum field taken as zero, plus the file length. -/
def foldCarry16 (x : Nat) : Nat := x % 65536 + x / 65536
def stdSum16 (b : Bytes) (skipWord : Nat) : Nat → Nat → Nat
  | 0, acc => acc
  | fuel+1, acc =>
    let i := (b.size + 1) / 2 - (fuel + 1)
    let w := if i = skipWord ∨ i = skipWord + 1 then 0 else le16 b (2 * i)
    stdSum16 b skipWord fuel (foldCarry16 (acc + w))
def stdPeChecksum (b : Bytes) : Nat :=
  let skip := (eLfanew b + 24 + 64) / 2
  let s := stdSum16 b skip ((b.size + 1) / 2) 0      -- every 16-bit word, the last one zero extended
  let s := foldCarry16 (foldCarry16 s)
  (s + b.size) % 4294967296

end Pelite.Pe
