import PeliteModel.Model.Pe
/-! Offsets, sizes and constants of the PE/COFF structures, entered by hand from the Microsoft
PE format specification / winnt.h, in the order `harness/probe` prints the layout of `image.rs`:

dos.size dos.align dos.e_magic dos.e_lfanew file.size file.NumberOfSections file.SizeOfOptionalHeader
nt32.size nt32.align nt32.Signature nt32.FileHeader nt32.OptionalHeader
nt64.size nt64.align nt64.Signature nt64.FileHeader nt64.OptionalHeader
opt32.size opt32.Magic opt32.SizeOfCode opt32.AddressOfEntryPoint opt32.BaseOfCode opt32.ImageBase
opt32.SizeOfImage opt32.SizeOfHeaders opt32.CheckSum opt32.NumberOfRvaAndSizes opt32.DataDirectory
opt64.size opt64.Magic opt64.SizeOfCode opt64.AddressOfEntryPoint opt64.BaseOfCode opt64.ImageBase
opt64.SizeOfImage opt64.SizeOfHeaders opt64.CheckSum opt64.NumberOfRvaAndSizes opt64.DataDirectory
datadir.size datadir.align datadir.VirtualAddress datadir.Size
sec.size sec.align sec.Name sec.VirtualSize sec.VirtualAddress sec.SizeOfRawData sec.PointerToRawData sec.Characteristics
const.IMAGE_DOS_SIGNATURE const.IMAGE_NT_HEADERS_SIGNATURE const.HDR32_MAGIC const.HDR64_MAGIC const.NUMBEROF_DIRECTORY_ENTRIES
basereloc.size basereloc.align
-/
namespace Pelite.Spec
def peFormatVals : List Nat :=
  [ 64, 4, 0, 60,  20, 2, 16,
    120, 4, 0, 4, 24,
    136, 4, 0, 4, 24,          -- IMAGE_NT_HEADERS64 is declared under pshpack4.h: alignment 4
    96, 0, 4, 16, 20, 28, 56, 60, 64, 92, 96,
    112, 0, 4, 16, 20, 24, 56, 60, 64, 108, 112,
    8, 4, 0, 4,
    40, 4, 0, 8, 12, 16, 20, 36,
    0x5A4D, 0x4550, 0x10b, 0x20b, 16,
    8, 4 ]
end Pelite.Spec

/-! ### the `Name` field of a section header (`BYTE Name[IMAGE_SIZEOF_SHORT_NAME]`, 8 bytes, NUL padded) -/
namespace Pelite.Pe

/-- byte `j` of the query of `by_name` as an 8-byte `Name` field would store it: the bytes of the
name followed by NULs -/
def paddedName (n : Bytes) (j : Nat) : Nat := if j < n.size then byteAt n j else 0

/-- byte `j` (`j < 8`) of the `Name` field of a decoded section header (`Sec` keeps the field as its
two little-endian halves) -/
def Sec.nameByte (s : Sec) : Nat → Nat
  | 0 => s.nameLo % 256 | 1 => s.nameLo / 256 % 256 | 2 => s.nameLo / 65536 % 256 | 3 => s.nameLo / 16777216 % 256
  | 4 => s.nameHi % 256 | 5 => s.nameHi / 256 % 256 | 6 => s.nameHi / 65536 % 256 | 7 => s.nameHi / 16777216 % 256
  | _ => 0

end Pelite.Pe
