import PeliteModel.Model.Relocs
import PeliteModel.Lemmas.IterSeq
/-!
Specification side of C14, written from the PE/COFF specification ("The .reloc Section"), not from
the code.  Only the last section (`stepOp` / `runOps`: the model's iterator in the vocabulary of the
sequence specification) mentions the model.

```
Base relocation block
  offset 0  size 4  Page RVA     the image base plus the page RVA is added to each offset
  offset 4  size 4  Block Size   total number of bytes in the block, including the Page RVA and
                                 Block Size fields and the Type/Offset fields that follow
  then (Block Size - 8) / 2 Type/Offset entries, each a WORD:
      high 4 bits  Type    IMAGE_REL_BASED_ABSOLUTE = 0: "the base relocation is skipped; this type
                           can be used to pad a block"
      low 12 bits  Offset  from the starting address given in the Page RVA field
The .reloc section is the concatenation of such blocks; each block starts on a 32-bit boundary.
```
The decoder works on the directory as a *list* of bytes with `take` / `drop`; the model reads an
array by index arithmetic.  The two meet in `C14_flat_eq_spec`.
-/
namespace Pelite.Relocs.Spec

/-- value of a little-endian byte string -/
def leVal : List UInt8 → Nat
  | [] => 0
  | b :: bs => b.toNat + 256 * leVal bs

/-- the consecutive little-endian WORDs of a byte string (a trailing odd byte is not a WORD) -/
def words16 : List UInt8 → List Nat
  | a :: b :: rest => leVal [a, b] :: words16 rest
  | _ => []

/-- one Type/Offset entry of a block with the given Page RVA: `none` for a padding entry, else
`(address to patch, type)`; addresses are 32 bit -/
def decodeEntry (pageRva : Nat) (w : Nat) : Option (Nat × Nat) :=
  let type := w >>> 12
  let offset := w &&& 0xFFF
  if type = 0 then none else some ((pageRva + offset) % 2 ^ 32, type)

/-- one block, given as exactly its `Block Size` bytes -/
def decodeBlock (blk : List UInt8) : List (Nat × Nat) :=
  (words16 (blk.drop 8)).filterMap (decodeEntry (leVal (blk.take 4)))

/-- a directory: the concatenation of blocks, each `Block Size` bytes long.  Where the header is
incomplete or `Block Size` is smaller than a header or reaches beyond the directory the format says
nothing and the decoder stops. -/
def decodeDir (dir : List UInt8) : List (Nat × Nat) :=
  if dir.length < 8 then []
  else
    let size := leVal ((dir.drop 4).take 4)
    if size < 8 ∨ dir.length < size then []
    else decodeBlock (dir.take size) ++ decodeDir (dir.drop size)
termination_by dir.length
decreasing_by simp only [List.length_drop]; omega

/-- **Well-formed directory**, read off the bytes as the format lays them out (nothing of the iterator): the
directory is a concatenation of blocks followed by a tail shorter than a block header (fewer than 8 bytes — nothing,
or padding).  A block: its 8-byte header is there; `Block Size` (the dword at +4) counts at least the header, is a
multiple of four ("each block must start on a 32-bit boundary") and does not reach beyond what is left of the
directory; what follows the block is again a well-formed directory. -/
def WellFormedDir (dir : List UInt8) : Prop :=
  if dir.length < 8 then True
  else
    let size := leVal ((dir.drop 4).take 4)
    if size < 8 ∨ dir.length < size then False
    else size % 4 = 0 ∧ WellFormedDir (dir.drop size)
termination_by dir.length
decreasing_by simp only [List.length_drop]; omega

/-- the same as a decision procedure (the driver's `hyp=`); `C14_wellFormedDir_decides` -/
def wellFormedDir (dir : List UInt8) : Bool :=
  if dir.length < 8 then true
  else
    let size := leVal ((dir.drop 4).take 4)
    if size < 8 ∨ dir.length < size then false
    else decide (size % 4 = 0) && wellFormedDir (dir.drop size)
termination_by dir.length
decreasing_by simp only [List.length_drop]; omega

end Pelite.Relocs.Spec

namespace Pelite.Relocs

/-! ### the words of the property statement -/

/-- a well-formed block: `SizeOfBlock` is a multiple of four, at least the header, and the block
lies inside the directory -/
def Block.WF (data : Bytes) (b : Block) : Prop :=
  b.size % 4 = 0 ∧ 8 ≤ b.size ∧ b.off + b.size ≤ data.size

instance (data : Bytes) (b : Block) : Decidable (b.WF data) := by unfold Block.WF; infer_instance

/-- well-formed data, in terms of what the iterator finds: every block it yields is well formed.  (The format-side
definition on the bytes is `Spec.WellFormedDir`; the two coincide: `C14_wellFormedDir_iff`.) -/
def WellFormed (data : Bytes) : Prop := ∀ b ∈ blocks data, b.WF data

instance (data : Bytes) : Decidable (WellFormed data) := by unfold WellFormed; infer_instance

/-- `Tiles s bs e`: the blocks `bs`, in order, tile the byte range `[s, e)` exactly — the first
starts at `s`, each next one starts where its predecessor ends (`off + SizeOfBlock`), the last one
ends at `e`.  No overlap, no gap. -/
def Tiles : Nat → List Block → Nat → Prop
  | s, [], e => s = e
  | s, b :: bs, e => b.off = s ∧ Tiles (s + b.size) bs e

/-! ### the model's iterator in the vocabulary of the sequence specification -/
open Pelite.Seq

/-- one call on the model's block iterator (state = offset of the remaining data), result in the
vocabulary of the sequence specification -/
def stepOp (data : Bytes) (off : Nat) : Op → Res Block × Nat
  | .next =>
    match nextBlock data off with
    | none => (.item none, off)              -- `self.data` is not touched on the `None` path
    | some (b, off') => (.item (some b), off')
  | .nth n => (.item (nthBlock data off n).1, (nthBlock data off n).2)
  | .sizeHint => (.hint (sizeHintBlocks data off).1 (sizeHintBlocks data off).2, off)
  | .count => (.num (countBlocks data off 0), off)        -- `it.clone().count()`
  | .clone => (.list (blocksFrom data off), off)          -- `it = it.clone()`: same slice; its items

/-- the answers of a whole call history on the block iterator standing at `off` -/
def runOps (data : Bytes) : Nat → List Op → List (Res Block)
  | _, [] => []
  | off, o :: os => (stepOp data off o).1 :: runOps data (stepOp data off o).2 os

end Pelite.Relocs
