import PeliteModel.Spec.Resources
/-!
The vocabulary in which the C12 headline theorems of `Thm/C12Find.lean` / `Thm/C12.lean` are stated
(`C12_lookup_local`, `C12_find_local`, `C12_helpers_local`, `C12_groups_on_tree`, `C12_group_lookups`,
`C12_get_on_tree`, `C12_find_on_tree`, `C12_helpers_on_tree`), written out in full so that it can be
audited without opening `Lemmas/`.  SELF-CONTAINED copies of definitions that live next to the lemmas:

| here                                                   | copy of (`Pelite.Resources.…`)                 | defined in                  |
|--------------------------------------------------------|------------------------------------------------|-----------------------------|
| `Sel`, `stepSel`, `walkSel`, `rootEntry`, `dataBytes`, `utf8Bytes`, `Follows`, `LocalResult` | the same names | `Lemmas/ResFindLocal.lean` |
| `versionFin`                                           | `versionFin`                                   | `Thm/C12Find.lean`          |
| `GroupOK`                                              | `GroupOK`                                      | `Lemmas/ResGroup.lean`      |
| `GroupRep`, `ItemRel`, `ItemsRel`                      | the same names                                 | `Lemmas/ResGroups.lean`     |
| `Rep`, `RepDir`, `RepData`, `RepBytes`, `FRelG`        | the same names                                 | `Lemmas/ResFind.lean`       |
| `Aligned`                                              | `Aligned`                                      | `Lemmas/Resources.lean`     |

This file imports `Spec/Resources.lean` (abstract trees, `IsNode`, `parseGroup`, …) and through it the
MODEL (`Model/Resources.lean`, `Model/ResFind.lean`, `Model/ResGroup.lean`) only — no `Lemmas/` file,
nothing outside core.  That the copies ARE what the theorems use is proved in `Spec/ResLocalEquiv.lean`
(`rfl` for the functions and relations; the selector type `Sel` is a separate inductive type, so there
the statements go through the bijection `selOfSpec`), which also restates the headline theorems in
this vocabulary.
-/
namespace Pelite.Spec
open Pelite Pelite.Resources

/-! ### lookups as folds of a one-level step -/

/-- how one level of a lookup selects a child of the current directory -/
inductive Sel
  /-- a component of a `find` path: must be UTF-8 (`Bad8Path`), then the child named `Name::Str(p)` -/
  | part (p : List Nat)
  /-- `get(q)`: the child named `q` -/
  | name (q : Name)
  /-- `first()`: the first child in stored order -/
  | first
  deriving DecidableEq, Repr

/-- One level of a lookup.  A path component must be UTF-8 (`Bad8Path` otherwise — checked first); the
current entry must be a directory (`UnDataEntry` otherwise); the selected child is what the public
one-level API returns: `Directory::get(name)` (`Dir.get`, model of find.rs) for `.part` / `.name`,
`Directory::first()` for `.first`. -/
def stepSel (r : Resources) (cur : Entry) (s : Sel) : Out (FRes Entry) :=
  match s with
  | .part p =>
    match utf8Chars p with
    | none => failF .bad8Path
    | some _ =>
      match cur with
      | .dir d => d.get r (.str p)
      | .data _ => failF .unDataEntry
  | .name q =>
    match cur with
    | .dir d => d.get r q
    | .data _ => failF .unDataEntry
  | .first =>
    match cur with
    | .dir d => d.first r
    | .data _ => failF .unDataEntry

/-- the LEFT fold of the one-level step over the selectors, from `start` (`bindF` = Rust's `?`) -/
def walkSel (r : Resources) (start : Out (FRes Entry)) (sels : List Sel) : Out (FRes Entry) :=
  sels.foldl (fun acc s => bindF acc fun cur => stepSel r cur s) start

/-- `self.root()?` as an entry -/
def rootEntry (r : Resources) : Out (FRes Entry) := liftE (root r) fun d => okF (.dir d)

/-- `.data().ok_or(UnDirectory)?.bytes()?` -/
def dataBytes (r : Resources) (en : Entry) : Out (FRes Ref) := bindF (asData en) fun de => liftE (de.bytes r) okF

/-- `str::from_utf8(bytes)?` on the data of the entry found -/
def utf8Bytes (r : Resources) (en : Entry) : Out (FRes Ref) :=
  bindF (dataBytes r en) fun b =>
    match utf8Chars ((bytesAt r.sec b.off b.len).map UInt8.toNat) with
    | some _ => okF b
    | none => failF (.pe .encoding)

/-- `version_info`: the lookup, then `VersionInfo::try_from` (4-alignment of the bytes; the length is
rounded down to whole UTF-16 words) -/
def versionFin (r : Resources) (en : Entry) : Out (FRes Ref) :=
  bindF (dataBytes r en) fun b =>
    if (r.base + b.off) % 4 ≠ 0 then failF (.pe .misaligned) else okF ⟨b.off, b.len / 2 * 2, 2⟩

/-- `tgt` is reached from `cur` by following, level by level, the child each selector selects -/
inductive Follows (r : Resources) : Entry → List Sel → Entry → Prop
  | done (e : Entry) : Follows r e [] e
  | step {cur nxt tgt : Entry} {s : Sel} {rest : List Sel} :
      stepSel r cur s = .ok (.ok nxt) → Follows r nxt rest tgt → Follows r cur (s :: rest) tgt

/-- The answer `res` of the lookup "`root()?`, then the selectors `sels` level by level, then `fin`" is
explained by the directories along the path alone: a value is what `fin` makes of the entry reached
by following the selectors from the root; an error is that of reading the root header, or of the
FIRST step that does not return an entry (after the steps before it were followed), or of `fin` on the
entry reached. -/
def LocalResult {α : Type} (r : Resources) (sels : List Sel) (fin : Entry → Out (FRes α)) : FRes α → Prop
  | .ok a => ∃ d0 tgt, root r = .ok d0 ∧ Follows r (.dir d0) sels tgt ∧ fin tgt = .ok (.ok a)
  | .error e =>
    (∃ e', root r = .err e' ∧ e = .pe e') ∨
    ∃ d0, root r = .ok d0 ∧
      ((∃ pre s post mid, sels = pre ++ s :: post ∧ Follows r (.dir d0) pre mid ∧ stepSel r mid s = .ok (.error e)) ∨
       ∃ tgt, Follows r (.dir d0) sels tgt ∧ fin tgt = .ok (.error e))

/-! ### group resources -/

/-- what `GroupResource::new` establishes about a group object `g = ⟨off, ty, count⟩`: the GRPICONDIR
lies at an even address, header and entries are inside the section, and type / count are the header's words -/
def GroupOK (r : Resources) (g : Group) : Prop :=
  (r.base + g.off) % 2 = 0 ∧ g.off + 6 + 14 * g.count ≤ r.sec.size ∧ (g.ty = 1 ∨ g.ty = 2) ∧
  g.ty = le16 r.sec (g.off + 2) ∧ g.count = le16 r.sec (g.off + 4)

instance (r : Resources) (g : Group) : Decidable (GroupOK r g) := by unfold GroupOK; exact inferInstance

/-- the group object stands for the parsed GRPICONDIR `G` -/
def GroupRep (r : Resources) (g : Group) (G : GroupSpec) : Prop :=
  GroupOK r g ∧ g.ty = G.kind ∧ g.count = G.entries.length ∧
  (groupEntriesFrom r (g.off + 6) g.count).map (fun e => (e.bytesInRes, e.nId)) = G.entries

instance (r : Resources) (g : Group) (G : GroupSpec) : Decidable (GroupRep r g G) := by unfold GroupRep; exact inferInstance

/-- One item of `icons()` / `cursors()` against one entry of `Node.groups`.  When the specification has
no group data the item is that error.  Otherwise the data lie somewhere in the section (`off`); the
item is `Misaligned` when that place is at an odd address (a property of the layout, not of the tree),
else the format error of `parseGroup`, else the entry's name with a group object that stands for the
parsed GRPICONDIR. -/
def ItemRel (r : Resources) (it : FRes (Name × Group)) (s : RName × FRes (List UInt8)) : Prop :=
  match s.2 with
  | .error e => it = .error e
  | .ok blob =>
    ∃ off, off + blob.length ≤ r.sec.size ∧ bytesAt r.sec off blob.length = blob ∧
      if (r.base + off) % 2 ≠ 0 then it = .error (.pe .misaligned)
      else
        match parseGroup blob with
        | .error e => it = .error (.pe e)
        | .ok G => ∃ g, it = .ok (s.1.toName, g) ∧ g.off = off ∧ GroupRep r g G

/-- `items` and `specs` have the same length and are related item by item -/
def ItemsRel (r : Resources) : List (FRes (Name × Group)) → List (RName × FRes (List UInt8)) → Prop
  | [], [] => True
  | it :: items, s :: specs => ItemRel r it s ∧ ItemsRel r items specs
  | _, _ => False

/-! ### code results against specification results -/

/-- the section is mapped at a 4-aligned address (what `Pe::resources` hands out) -/
def Aligned (r : Resources) : Prop := r.base % 4 = 0

instance (r : Resources) : Decidable (Aligned r) := by unfold Aligned; exact inferInstance

/-- the entry handed out by the code stands for the abstract node (`IsNode`: the layout relation of
`Spec/Resources.lean`) -/
def Rep (r : Resources) : Entry → Node → Prop
  | .dir d, .dir n es => d = ⟨d.off, n, es.length - n⟩ ∧ IsNode r d.off (.dir n es)
  | .data de, .data c cp =>
    de = ⟨de.off, le32 r.sec de.off, le32 r.sec (de.off + 4), le32 r.sec (de.off + 8)⟩ ∧ IsNode r de.off (.data c cp)
  | _, _ => False

def RepDir (r : Resources) (d : Dir) (t : Node) : Prop := Rep r (.dir d) t
def RepData (r : Resources) (de : DataEntry) (t : Node) : Prop := Rep r (.data de) t
/-- the returned bytes are the content of the abstract data entry -/
def RepBytes (r : Resources) (ref : Ref) (t : Node) : Prop :=
  ∃ c cp, t = .data c cp ∧ ref.off + ref.len ≤ r.sec.size ∧ ref.len = c.length ∧ bytesAt r.sec ref.off ref.len = c

/-- the code's `Result` corresponds to the specification's: same error, or related values -/
def FRelG {α β : Type} (R : α → β → Prop) (o : Out (FRes α)) (s : FRes β) : Prop :=
  match s with
  | .ok b => ∃ a, o = .ok (.ok a) ∧ R a b
  | .error e => o = .ok (.error e)

end Pelite.Spec
