import PeliteModel.Spec.ResLocal
import PeliteModel.Thm.C12Find
/-!
`Spec/ResLocal.lean` states the vocabulary of the C12 headline theorems without importing `Lemmas/`.
THIS file imports the lemma / theorem files (`Lemmas/ResFindLocal.lean`, `Lemmas/ResGroups.lean`,
`Lemmas/ResFind.lean`, … through `Thm/C12Find.lean`) and proves that the copies are what those theorems use:

* the selector type is a separate inductive type, related by the bijection `Spec.selOfSpec` /
  `Spec.selToSpec` (`selOfSpec_toSpec`, `selToSpec_ofSpec`);
* functions are equal: `Spec.stepSel_eq`, `Spec.walkSel_eq` (up to `selOfSpec`), `Spec.rootEntry_eq`,
  `Spec.dataBytes_eq`, `Spec.utf8Bytes_eq`, `Spec.versionFin_eq` (`rfl`);
* relations are equivalent: `Spec.Follows_iff` (induction both ways), `Spec.LocalResult_iff`,
  `Spec.Aligned_iff`, `Spec.GroupOK_iff`, `Spec.GroupRep_iff`, `Spec.ItemRel_iff` (`Iff.rfl`),
  `Spec.ItemsRel_iff`, `Spec.Rep_iff`, `Spec.RepDir_iff`, `Spec.RepData_iff`, `Spec.RepBytes_iff`, `Spec.FRelG_iff`;

and restates the headline theorems in the `Spec.` vocabulary: `C12_lookup_local_spec`, `C12_find_local_spec`,
`C12_helpers_local_spec`, `C12_groups_on_tree_spec`, `C12_group_lookups_spec`, `C12_get_on_tree_spec`,
`C12_find_on_tree_spec`, `C12_helpers_on_tree_spec`.
-/
namespace Pelite.Spec
open Pelite Pelite.Resources

/-! ### the two selector types -/

/-- the bijection between `Spec.Sel` and the `Sel` of `Lemmas/ResFindLocal.lean` (constructor by constructor) -/
def selOfSpec : Sel → Resources.Sel
  | .part p => .part p
  | .name q => .name q
  | .first => .first

/-- its inverse -/
def selToSpec : Resources.Sel → Sel
  | .part p => .part p
  | .name q => .name q
  | .first => .first

theorem selOfSpec_toSpec (s : Resources.Sel) : selOfSpec (selToSpec s) = s := by cases s <;> rfl
theorem selToSpec_ofSpec (s : Sel) : selToSpec (selOfSpec s) = s := by cases s <;> rfl

theorem map_selOfSpec_toSpec (l : List Resources.Sel) : (l.map selToSpec).map selOfSpec = l := by
  rw [List.map_map]
  conv => rhs; rw [← List.map_id l]
  exact List.map_congr_left (fun s _ => selOfSpec_toSpec s)

theorem map_part (ps : List (List Nat)) : (ps.map Sel.part).map selOfSpec = ps.map Resources.Sel.part := by
  rw [List.map_map]; rfl

/-! ### functions: equal (`rfl`, up to the bijection on selectors) -/

theorem stepSel_eq (r : Resources) (cur : Entry) (s : Sel) :
    stepSel r cur s = Resources.stepSel r cur (selOfSpec s) := by cases s <;> rfl

theorem walkSel_eq (r : Resources) (start : Out (FRes Entry)) (sels : List Sel) :
    walkSel r start sels = Resources.walkSel r start (sels.map selOfSpec) := by
  unfold walkSel Resources.walkSel
  rw [List.foldl_map]
  congr 1
  funext acc s
  congr 1
  funext cur
  exact stepSel_eq r cur s

theorem rootEntry_eq : rootEntry = Resources.rootEntry := rfl
theorem dataBytes_eq : dataBytes = Resources.dataBytes := rfl
theorem utf8Bytes_eq : utf8Bytes = Resources.utf8Bytes := rfl
theorem versionFin_eq : versionFin = Resources.versionFin := rfl

/-! ### relations: equivalent -/

theorem Follows_iff (r : Resources) (sels : List Sel) : ∀ (cur tgt : Entry),
    Follows r cur sels tgt ↔ Resources.Follows r cur (sels.map selOfSpec) tgt := by
  induction sels with
  | nil =>
    intro cur tgt
    rw [List.map_nil, (C12_follows r cur tgt .first []).1]
    exact ⟨fun h => by cases h; rfl, fun h => by rw [h]; exact .done _⟩
  | cons s rest ih =>
    intro cur tgt
    rw [List.map_cons, (C12_follows r cur tgt (selOfSpec s) (rest.map selOfSpec)).2.1]
    constructor
    · intro h
      cases h with
      | step h1 h2 => exact ⟨_, by rw [← stepSel_eq]; exact h1, (ih _ _).1 h2⟩
    · rintro ⟨nxt, h1, h2⟩
      exact .step (by rw [stepSel_eq]; exact h1) ((ih _ _).2 h2)

theorem LocalResult_iff {α : Type} (r : Resources) (sels : List Sel) (fin : Entry → Out (FRes α)) (res : FRes α) :
    LocalResult r sels fin res ↔ Resources.LocalResult r (sels.map selOfSpec) fin res := by
  cases res with
  | ok a =>
    simp only [LocalResult, Resources.LocalResult, Follows_iff]
  | error e =>
    simp only [LocalResult, Resources.LocalResult, Follows_iff]
    refine or_congr Iff.rfl (exists_congr fun d0 => and_congr Iff.rfl (or_congr ?_ Iff.rfl))
    constructor
    · rintro ⟨pre, s, post, mid, h1, h2, h3⟩
      refine ⟨pre.map selOfSpec, selOfSpec s, post.map selOfSpec, mid, by rw [h1]; simp, h2, ?_⟩
      rw [← stepSel_eq]; exact h3
    · rintro ⟨pre, s, post, mid, h1, h2, h3⟩
      obtain ⟨l1, l2, e1, e2, e3⟩ := List.map_eq_append_iff.1 h1
      obtain ⟨a, l3, e4, e5, e6⟩ := List.map_eq_cons_iff.1 e3
      subst e2 e5
      exact ⟨l1, a, l3, mid, by rw [e1, e4], h2, by rw [stepSel_eq]; exact h3⟩

theorem Aligned_iff (r : Resources) : Aligned r ↔ Resources.Aligned r := Iff.rfl
theorem GroupOK_iff (r : Resources) (g : Group) : GroupOK r g ↔ Resources.GroupOK r g := Iff.rfl
theorem GroupRep_iff (r : Resources) (g : Group) (G : GroupSpec) : GroupRep r g G ↔ Resources.GroupRep r g G := Iff.rfl
theorem ItemRel_iff (r : Resources) (it : FRes (Name × Group)) (s : RName × FRes (List UInt8)) :
    ItemRel r it s ↔ Resources.ItemRel r it s := Iff.rfl

theorem ItemsRel_iff (r : Resources) : ∀ (items : List (FRes (Name × Group))) (specs : List (RName × FRes (List UInt8))),
    ItemsRel r items specs ↔ Resources.ItemsRel r items specs
  | [], [] => Iff.rfl
  | [], _ :: _ => Iff.rfl
  | _ :: _, [] => Iff.rfl
  | it :: items, s :: specs => and_congr (ItemRel_iff r it s) (ItemsRel_iff r items specs)

theorem Rep_iff (r : Resources) (en : Entry) (t : Node) : Rep r en t ↔ Resources.Rep r en t := by
  cases en <;> cases t <;> exact Iff.rfl
theorem RepDir_iff (r : Resources) (d : Dir) (t : Node) : RepDir r d t ↔ Resources.RepDir r d t := Rep_iff r _ t
theorem RepData_iff (r : Resources) (de : DataEntry) (t : Node) : RepData r de t ↔ Resources.RepData r de t := Rep_iff r _ t
theorem RepBytes_iff (r : Resources) (ref : Ref) (t : Node) : RepBytes r ref t ↔ Resources.RepBytes r ref t := Iff.rfl

/-- `FRelG` with pointwise equivalent value relations -/
theorem FRelG_iff {α β : Type} {R R' : α → β → Prop} (hR : ∀ a b, R a b ↔ R' a b) (o : Out (FRes α)) (s : FRes β) :
    FRelG R o s ↔ Resources.FRelG R' o s := by
  cases s with
  | ok b => exact exists_congr fun a => and_congr Iff.rfl (hR a b)
  | error e => exact Iff.rfl

end Pelite.Spec

namespace Pelite.Resources
open Pelite

/-! ### the headline theorems in the `Spec.` vocabulary -/

/-- **`C12_lookup_local` with the vocabulary of `Spec/ResLocal.lean`.**  For arbitrary section bytes, any
selectors and any final conversion `fin`: the fold of one-level steps from the root followed by `fin`
answers `res` iff `res` is explained by the directories along the path (`Spec.LocalResult`). -/
theorem C12_lookup_local_spec (r : Resources) (sels : List Spec.Sel) {α : Type} (fin : Entry → Out (FRes α)) (res : FRes α) :
    bindF (Spec.walkSel r (Spec.rootEntry r) sels) fin = .ok res ↔ Spec.LocalResult r sels fin res := by
  rw [Spec.walkSel_eq, Spec.rootEntry_eq, Spec.LocalResult_iff]
  exact C12_lookup_local r _ fin res

/-- **`C12_find_local`** (`find`, `find_dir`, `find_data` on arbitrary bytes) in the `Spec.` vocabulary -/
theorem C12_find_local_spec (r : Resources) (p : List Nat) :
    (∀ res, find r p = .ok res ↔
      match pathSplit p with
      | none => res = .error .notFound
      | some (slash, rest) =>
        if slash ≠ [47] ∧ slash ≠ [92] then res = .error .noRootPath
        else Spec.LocalResult r (rest.map Spec.Sel.part) okF res) ∧
    (∀ res, findDir r p = .ok res ↔
      match pathSplit p with
      | none => res = .error .notFound
      | some (slash, rest) =>
        if slash ≠ [47] ∧ slash ≠ [92] then res = .error .noRootPath
        else Spec.LocalResult r (rest.map Spec.Sel.part) asDir res) ∧
    (∀ res, findData r p = .ok res ↔
      match pathSplit p with
      | none => res = .error .notFound
      | some (slash, rest) =>
        if slash ≠ [47] ∧ slash ≠ [92] then res = .error .noRootPath
        else Spec.LocalResult r (rest.map Spec.Sel.part) asData res) := by
  obtain ⟨h1, h2, h3⟩ := C12_find_local r p
  refine ⟨fun res => (h1 res).trans ?_, fun res => (h2 res).trans ?_, fun res => (h3 res).trans ?_⟩ <;>
  · cases pathSplit p with
    | none => exact Iff.rfl
    | some sp =>
      dsimp only
      split
      · exact Iff.rfl
      · rw [Spec.LocalResult_iff, Spec.map_part]

/-- **`C12_helpers_local`** (`find_resources`, `find_resource`, `find_resource_ex`, `manifest`, `version_info`,
`GroupResource::image` on arbitrary bytes) in the `Spec.` vocabulary -/
theorem C12_helpers_local_spec (r : Resources) (ty name lang : Name) (g : Group) (id t : Nat) (ht : g.typeId = .ok t) :
    (∀ res, findResources r ty name = .ok res ↔ Spec.LocalResult r [.name ty, .name name] asDir res) ∧
    (∀ res, findResource r ty name = .ok res ↔ Spec.LocalResult r [.name ty, .name name, .first] (Spec.dataBytes r) res) ∧
    (∀ res, findResourceEx r ty name lang = .ok res ↔ Spec.LocalResult r [.name ty, .name name, .name lang] (Spec.dataBytes r) res) ∧
    (∀ res, manifest r = .ok res ↔ Spec.LocalResult r [.name (.id 24), .first, .first] (Spec.utf8Bytes r) res) ∧
    (∀ res, versionBytes r = .ok res ↔ Spec.LocalResult r [.name (.id 16), .name (.id 1), .first] (Spec.dataBytes r) res) ∧
    (∀ res, versionInfo r = .ok res ↔ Spec.LocalResult r [.name (.id 16), .name (.id 1), .first] (Spec.versionFin r) res) ∧
    (∀ res, g.image r id = .ok res ↔ Spec.LocalResult r [.name (.id t), .name (.id id), .first] (Spec.dataBytes r) res) := by
  obtain ⟨h1, h2, h3, h4, h5, h6, h7⟩ := C12_helpers_local r ty name lang g id t ht
  refine ⟨fun res => (h1 res).trans ?_, fun res => (h2 res).trans ?_, fun res => (h3 res).trans ?_,
    fun res => (h4 res).trans ?_, fun res => (h5 res).trans ?_, fun res => (h6 res).trans ?_,
    fun res => (h7 res).trans ?_⟩ <;>
  · rw [Spec.LocalResult_iff]; exact Iff.rfl

/-- **`C12_groups_on_tree`** (`icons()` / `cursors()` on a section that represents any tree) in the `Spec.` vocabulary -/
theorem C12_groups_on_tree_spec (r : Resources) (hb : Spec.Aligned r) (t : Node) (h : IsTree r t) (ty : Nat) :
    ∃ items, groups r ty = .ok items ∧ Spec.ItemsRel r items (t.groups ty) ∧
      (icons r = groups r RT_GROUP_ICON ∧ cursors r = groups r RT_GROUP_CURSOR) := by
  obtain ⟨items, h1, h2, h3⟩ := C12_groups_on_tree r hb t h ty
  exact ⟨items, h1, (Spec.ItemsRel_iff r _ _).2 h2, h3⟩

/-- **`C12_group_lookups`** (`entries()` / `image(id)` of a group that stands for a parsed GRPICONDIR) in the `Spec.` vocabulary -/
theorem C12_group_lookups_spec (r : Resources) (hb : Spec.Aligned r) (g : Group) (G : GroupSpec) (hg : Spec.GroupRep r g G) :
    (∃ es, g.entries r = .ok es ∧ es.map (fun e => (e.bytesInRes, e.nId)) = G.entries) ∧
    (∀ id, g.image r id = findResource r (.id G.imageType) (.id id) ∧
      g.image r id = bindF (Spec.walkSel r (Spec.rootEntry r) [.name (.id G.imageType), .name (.id id), .first]) (Spec.dataBytes r)) ∧
    (G.imageType = RT_ICON ∨ G.imageType = RT_CURSOR) ∧
    (∀ t, IsTree r t → ∀ id, Spec.FRelG (Spec.RepBytes r) (g.image r id) (t.groupImage G id)) := by
  obtain ⟨h1, h2, h3, h4⟩ := C12_group_lookups r hb g G hg
  refine ⟨h1, fun id => ⟨(h2 id).1, ?_⟩, h3, fun t ht id => (Spec.FRelG_iff (Spec.RepBytes_iff r) _ _).2 (h4 t ht id)⟩
  rw [Spec.walkSel_eq]
  exact (h2 id).2

/-- **`C12_get_on_tree`** in the `Spec.` vocabulary -/
theorem C12_get_on_tree_spec (r : Resources) (hb : Spec.Aligned r) (d : Dir) (t : Node) (h : Spec.RepDir r d t) (q : Name) :
    Spec.FRelG (Spec.Rep r) (d.get r q) (t.get q) ∧ Spec.FRelG (Spec.RepData r) (d.getData r q) (t.getData q) ∧
    Spec.FRelG (Spec.RepDir r) (d.getDir r q) (t.getDir q) ∧ Spec.FRelG (Spec.Rep r) (d.first r) t.first ∧
    Spec.FRelG (Spec.RepData r) (d.firstData r) t.firstData ∧ Spec.FRelG (Spec.RepDir r) (d.firstDir r) t.firstDir := by
  obtain ⟨h1, h2, h3, h4, h5, h6⟩ := C12_get_on_tree r hb d t ((Spec.RepDir_iff r d t).1 h) q
  exact ⟨(Spec.FRelG_iff (Spec.Rep_iff r) _ _).2 h1, (Spec.FRelG_iff (Spec.RepData_iff r) _ _).2 h2,
    (Spec.FRelG_iff (Spec.RepDir_iff r) _ _).2 h3, (Spec.FRelG_iff (Spec.Rep_iff r) _ _).2 h4,
    (Spec.FRelG_iff (Spec.RepData_iff r) _ _).2 h5, (Spec.FRelG_iff (Spec.RepDir_iff r) _ _).2 h6⟩

/-- **`C12_find_on_tree`** in the `Spec.` vocabulary -/
theorem C12_find_on_tree_spec (r : Resources) (hb : Spec.Aligned r) (t : Node) (h : IsTree r t) (p : List Nat) :
    Spec.FRelG (Spec.Rep r) (find r p) (t.find p) :=
  (Spec.FRelG_iff (Spec.Rep_iff r) _ _).2 (C12_find_on_tree r hb t h p)

/-- **`C12_helpers_on_tree`** in the `Spec.` vocabulary -/
theorem C12_helpers_on_tree_spec (r : Resources) (hb : Spec.Aligned r) (t : Node) (h : IsTree r t) :
    (∀ ty name, Spec.FRelG (Spec.RepBytes r) (findResource r ty name) (t.findResource ty name)) ∧
    (∀ ty name lang, Spec.FRelG (Spec.RepBytes r) (findResourceEx r ty name lang) (t.findResourceEx ty name lang)) ∧
    Spec.FRelG (Spec.RepBytes r) (manifest r) t.manifest ∧
    Spec.FRelG (Spec.RepBytes r) (versionBytes r) t.version := by
  obtain ⟨h1, h2, h3, h4⟩ := C12_helpers_on_tree r hb t h
  exact ⟨fun ty name => (Spec.FRelG_iff (Spec.RepBytes_iff r) _ _).2 (h1 ty name),
    fun ty name lang => (Spec.FRelG_iff (Spec.RepBytes_iff r) _ _).2 (h2 ty name lang),
    (Spec.FRelG_iff (Spec.RepBytes_iff r) _ _).2 h3, (Spec.FRelG_iff (Spec.RepBytes_iff r) _ _).2 h4⟩

/-- the vocabulary on a non-trivial instance: on `cycSection` (`Thm/C12Find.lean`: a section that represents no
tree) the data entry is reached by following `#3`, `#1`, `#1033`, and `find` returns it -/
example : Spec.Follows cycSection (.dir ⟨0, 0, 2⟩) [.part (asc "#3"), .part (asc "#1"), .part (asc "#1033")]
      (.data ⟨112, 128, 4, 0⟩) ∧
    Spec.LocalResult cycSection [.part (asc "#3"), .part (asc "#1"), .part (asc "#1033")] okF (.ok (.data ⟨112, 128, 4, 0⟩)) := by
  have hf : Spec.Follows cycSection (.dir ⟨0, 0, 2⟩) [.part (asc "#3"), .part (asc "#1"), .part (asc "#1033")]
      (.data ⟨112, 128, 4, 0⟩) :=
    .step (nxt := .dir ⟨32, 0, 1⟩) (by decide +kernel) (.step (nxt := .dir ⟨56, 0, 1⟩) (by decide +kernel)
      (.step (nxt := .data ⟨112, 128, 4, 0⟩) (by decide +kernel) (.done _)))
  exact ⟨hf, ⟨0, 0, 2⟩, _, by decide +kernel, hf, rfl⟩

/-- … and `Spec.GroupRep` / `Spec.Aligned` on the section the reference writer makes of `groupsTree` -/
example : Spec.Aligned (resourcesOf 0 groupsTree) ∧ Spec.GroupRep (resourcesOf 0 groupsTree) ⟨264, 1, 1⟩ ⟨1, [(3, 7)]⟩ :=
  ⟨aligned_resourcesOf 0 _, by decide +kernel⟩

end Pelite.Resources
