import PeliteModel.Model.ResGroup
/-!
Specification side of C12, written from the PE/COFF description of the `.rsrc` section and from the
documentation of `pelite::resources`, not from the code:

* an abstract resource tree (`Node` / `Entries`),
* the layout relation `IsNode r off t`: "the bytes at `off` of the section represent `t`"
  (directory header of 16 bytes, then `Named + Id` 8-byte entries; names are length-prefixed UTF-16;
  data entries are 16 bytes: OffsetToData, Size, CodePage, Reserved),
* a reference writer `encNode` / `encodeTree`,
* the documented name matching rules (`nameMatch`) and lookups on the abstract tree,
* `.ico` / `.cur` files and the resource tree a resource compiler makes of one.
-/
namespace Pelite.Resources

/-- the name stored with a directory entry: an id (high bit of the Name field clear) or a
length-prefixed UTF-16 string -/
inductive RName
  | id (n : Nat)
  | wide (ws : List Nat)
  deriving DecidableEq, Repr

mutual
/-- an abstract resource tree: a data entry with its bytes and code page, or a directory with its
entries in stored order, the first `nNamed` of which the header counts as named -/
inductive Node
  | data (content : List UInt8) (codePage : Nat)
  | dir (nNamed : Nat) (es : Entries)
inductive Entries
  | nil
  | cons (name : RName) (child : Node) (rest : Entries)
end

def Node.isDir : Node → Bool
  | .dir .. => true
  | .data .. => false

def Entries.length : Entries → Nat
  | .nil => 0
  | .cons _ _ rest => rest.length + 1

def Entries.toList : Entries → List (RName × Node)
  | .nil => []
  | .cons nm ch rest => (nm, ch) :: rest.toList

def Entries.ofList : List (RName × Node) → Entries
  | [] => .nil
  | (nm, ch) :: rest => .cons nm ch (Entries.ofList rest)

mutual
/-- number of nested directory levels (a data entry is 0, a directory without sub-directories 1) -/
def Node.depth : Node → Nat
  | .data .. => 0
  | .dir _ es => es.depth + 1
def Entries.depth : Entries → Nat
  | .nil => 0
  | .cons _ ch rest => max ch.depth rest.depth
end

mutual
/-- number of directories in the tree (with multiplicity when the stored graph shares them) -/
def Node.dirCount : Node → Nat
  | .data .. => 0
  | .dir _ es => es.dirCount + 1
def Entries.dirCount : Entries → Nat
  | .nil => 0
  | .cons _ ch rest => ch.dirCount + rest.dirCount
end

mutual
/-- number of directory entries in the tree -/
def Node.entryCount : Node → Nat
  | .data .. => 0
  | .dir _ es => es.entryCount
def Entries.entryCount : Entries → Nat
  | .nil => 0
  | .cons _ ch rest => 1 + ch.entryCount + rest.entryCount
end

/-! ### the layout relation -/

/-- the Name field `f` of an entry record stores `nm`: an id with the high bit clear, or the high
bit and the (even, in-bounds) offset of a length-prefixed UTF-16 string -/
def NameAt (r : Resources) (f : Nat) : RName → Prop
  | .id n => f = n ∧ n < 0x80000000
  | .wide ws =>
    0x80000000 ≤ f ∧ (f % 0x80000000) % 2 = 0 ∧ (f % 0x80000000) + 2 + 2 * ws.length ≤ r.sec.size ∧
    le16 r.sec (f % 0x80000000) = ws.length ∧ ws = wordsAt r.sec (f % 0x80000000 + 2) ws.length

instance (r f nm) : Decidable (NameAt r f nm) := by
  cases nm <;> unfold NameAt <;> exact inferInstance

mutual
/-- the bytes at offset `off` of the section represent the tree `t` -/
def IsNode (r : Resources) : Nat → Node → Prop
  | off, .data content cp =>
    off % 4 = 0 ∧ off + 16 ≤ r.sec.size ∧
    r.dirVA ≤ le32 r.sec off ∧                                           -- OffsetToData is an RVA
    le32 r.sec off - r.dirVA + le32 r.sec (off + 4) < 4294967296 ∧
    le32 r.sec off - r.dirVA + le32 r.sec (off + 4) ≤ r.sec.size ∧       -- Size bytes inside the section
    content = bytesAt r.sec (le32 r.sec off - r.dirVA) (le32 r.sec (off + 4)) ∧
    cp = le32 r.sec (off + 8)
  | off, .dir n es =>
    off % 4 = 0 ∧ off + 16 + 8 * es.length ≤ r.sec.size ∧
    le16 r.sec (off + 12) = n ∧ le16 r.sec (off + 14) + n = es.length ∧
    IsEntries r (off + 16) es
/-- the 8-byte entry records from `pos` on represent `es` -/
def IsEntries (r : Resources) : Nat → Entries → Prop
  | _, .nil => True
  | pos, .cons nm ch rest =>
    NameAt r (le32 r.sec pos) nm ∧
    (0x80000000 ≤ le32 r.sec (pos + 4) ↔ ch.isDir = true) ∧              -- high bit: sub-directory
    IsNode r (le32 r.sec (pos + 4) % 0x80000000) ch ∧
    IsEntries r (pos + 8) rest
end

mutual
def decIsNode (r : Resources) : (off : Nat) → (t : Node) → Decidable (IsNode r off t)
  | off, .data c cp => by unfold IsNode; exact inferInstance
  | off, .dir n es => by
    unfold IsNode
    have := decIsEntries r (off + 16) es
    exact inferInstance
def decIsEntries (r : Resources) : (pos : Nat) → (es : Entries) → Decidable (IsEntries r pos es)
  | _, .nil => by unfold IsEntries; exact inferInstance
  | pos, .cons _ ch rest => by
    unfold IsEntries
    have := decIsNode r (le32 r.sec (pos + 4) % 0x80000000) ch
    have := decIsEntries r (pos + 8) rest
    exact inferInstance
end
instance (r off t) : Decidable (IsNode r off t) := decIsNode r off t
instance (r pos es) : Decidable (IsEntries r pos es) := decIsEntries r pos es

/-- the section represents the tree `t` (whose root is a directory at offset 0) -/
def IsTree (r : Resources) (t : Node) : Prop := t.isDir = true ∧ IsNode r 0 t

instance (r t) : Decidable (IsTree r t) := by unfold IsTree; exact inferInstance

/-! ### the reference writer

Depth first: a directory is its header and entry table, followed per entry by the name string
(padded to 4) and the entry's subtree; a data entry is followed by its bytes (padded to 4). -/

def le16b (n : Nat) : List UInt8 := [UInt8.ofNat (n % 256), UInt8.ofNat (n / 256 % 256)]
def le32b (n : Nat) : List UInt8 :=
  [UInt8.ofNat (n % 256), UInt8.ofNat (n / 256 % 256), UInt8.ofNat (n / 65536 % 256), UInt8.ofNat (n / 16777216 % 256)]

def pad4 (n : Nat) : Nat := (n + 3) / 4 * 4
def zeros (n : Nat) : List UInt8 := List.replicate n 0

def RName.size : RName → Nat
  | .id _ => 0
  | .wide ws => pad4 (2 + 2 * ws.length)

def encWords : List Nat → List UInt8
  | [] => []
  | w :: ws => le16b w ++ encWords ws

def encName : RName → List UInt8
  | .id _ => []
  | .wide ws => le16b ws.length ++ encWords ws ++ zeros (pad4 (2 + 2 * ws.length) - (2 + 2 * ws.length))

mutual
def Node.size : Node → Nat
  | .data c _ => 16 + pad4 c.length
  | .dir _ es => 16 + 8 * es.length + es.blobSize
def Entries.blobSize : Entries → Nat
  | .nil => 0
  | .cons nm ch rest => nm.size + ch.size + rest.blobSize
end

/-- the Name field for a name whose string (if any) is written at `o` -/
def nameField (nm : RName) (o : Nat) : Nat :=
  match nm with
  | .id n => n
  | .wide _ => 0x80000000 + o

/-- the Offset field for a child written at `o` -/
def offsetField (ch : Node) (o : Nat) : Nat := if ch.isDir then 0x80000000 + o else o

/-- the entry table; `o` = where the first entry's name string / subtree is written -/
def encTable : Nat → Entries → List UInt8
  | _, .nil => []
  | o, .cons nm ch rest =>
    le32b (nameField nm o) ++ le32b (offsetField ch (o + nm.size)) ++ encTable (o + nm.size + ch.size) rest

mutual
/-- the bytes of `t` written at offset `base` of a section whose directory RVA is `dirVA` -/
def encNode (dirVA : Nat) : Nat → Node → List UInt8
  | base, .data c cp =>
    le32b (dirVA + base + 16) ++ le32b c.length ++ le32b cp ++ le32b 0 ++ c ++ zeros (pad4 c.length - c.length)
  | base, .dir n es =>
    le32b 0 ++ le32b 0 ++ le16b 0 ++ le16b 0 ++ le16b n ++ le16b (es.length - n) ++
      encTable (base + 16 + 8 * es.length) es ++ encBlobs dirVA (base + 16 + 8 * es.length) es
def encBlobs (dirVA : Nat) : Nat → Entries → List UInt8
  | _, .nil => []
  | o, .cons nm ch rest => encName nm ++ encNode dirVA (o + nm.size) ch ++ encBlobs dirVA (o + nm.size + ch.size) rest
end

def encodeTree (dirVA : Nat) (t : Node) : List UInt8 := encNode dirVA 0 t

/-- the resources object over the written section, placed at a 4-aligned address -/
def resourcesOf (dirVA : Nat) (t : Node) : Resources := ⟨(encodeTree dirVA t).toArray, dirVA, 0⟩

def RName.WF : RName → Prop
  | .id n => n < 0x80000000
  | .wide ws => ws.length < 65536 ∧ ∀ w ∈ ws, w < 65536

instance (nm : RName) : Decidable nm.WF := by cases nm <;> unfold RName.WF <;> exact inferInstance

mutual
/-- every stored number fits its field -/
def Node.WF : Node → Prop
  | .data c cp => c.length < 4294967296 ∧ cp < 4294967296
  | .dir n es => n ≤ es.length ∧ n < 65536 ∧ es.length - n < 65536 ∧ es.WF
def Entries.WF : Entries → Prop
  | .nil => True
  | .cons nm ch rest => nm.WF ∧ ch.WF ∧ rest.WF
end

mutual
def decNodeWF : (t : Node) → Decidable t.WF
  | .data c cp => by unfold Node.WF; exact inferInstance
  | .dir n es => by
    unfold Node.WF
    have := decEntriesWF es
    exact inferInstance
def decEntriesWF : (es : Entries) → Decidable es.WF
  | .nil => by unfold Entries.WF; exact inferInstance
  | .cons nm ch rest => by
    unfold Entries.WF
    have := decNodeWF ch
    have := decEntriesWF rest
    exact inferInstance
end
instance (t : Node) : Decidable t.WF := decNodeWF t
instance (es : Entries) : Decidable es.WF := decEntriesWF es

/-- the tree can be written: fields fit, offsets stay below 2^31 and data RVAs below 2^32 -/
def Encodable (dirVA : Nat) (t : Node) : Prop :=
  t.isDir = true ∧ t.WF ∧ t.size < 0x80000000 ∧ dirVA + t.size < 4294967296

instance (dirVA t) : Decidable (Encodable dirVA t) := by unfold Encodable; exact inferInstance

/-! ### documented name matching -/

/-- value of a string of decimal digits -/
def decVal (ds : List Nat) : Nat := ds.foldl (fun acc d => acc * 10 + (d - 48)) 0

/-- `#<id>`: a `#`, then the id in decimal — digits only, the first one not `0` -/
def isIdString (n : Nat) (s : List Nat) : Bool :=
  match s with
  | 35 :: d :: ds => 49 ≤ d ∧ d ≤ 57 ∧ (ds.all fun c => 48 ≤ c ∧ c ≤ 57) ∧ decVal (d :: ds) = n
  | _ => false

/-- the predefined resource types of winuser.h (`RT_*`, `MAKEINTRESOURCE(n)`) -/
def msResourceTypes : List (Nat × String) := [
  (1, "CURSOR"), (2, "BITMAP"), (3, "ICON"), (4, "MENU"), (5, "DIALOG"), (6, "STRING"), (7, "FONTDIR"), (8, "FONT"),
  (9, "ACCELERATOR"), (10, "RCDATA"), (11, "MESSAGETABLE"), (12, "GROUP_CURSOR"), (14, "GROUP_ICON"), (16, "VERSION"),
  (17, "DLGINCLUDE"), (19, "PLUGPLAY"), (20, "VXD"), (21, "ANICURSOR"), (22, "ANIICON"), (23, "HTML"), (24, "MANIFEST")]

/-- `#TYPE` for a predefined type id -/
def typeString (n : Nat) : Option (List Nat) :=
  (msResourceTypes.find? (·.1 = n)).map fun p => 35 :: asc p.2

/-- UTF-16 encoding of a sequence of scalar values -/
def utf16Encode : List Nat → List Nat
  | [] => []
  | c :: cs =>
    if c < 0x10000 then c :: utf16Encode cs
    else (0xD800 + (c - 0x10000) / 0x400) :: (0xDC00 + (c - 0x10000) % 0x400) :: utf16Encode cs

/-- a Unicode scalar value -/
def IsScalar (c : Nat) : Prop := c < 0xD800 ∨ (0xE000 ≤ c ∧ c < 0x110000)

/-- Does the stored name match the queried one?  Ids and UTF-16 names compare exactly with their own
kind and never with each other; a string query matches an id as `#<id>` or as the predefined
`#TYPE` name of that id, and a UTF-16 name when it is exactly the string's UTF-16 encoding. -/
def nameMatch (stored : RName) (q : Name) : Bool :=
  match stored, q with
  | .id a, .id b => a = b
  | .wide a, .wide b => a = b
  | .id _, .wide _ => false
  | .wide _, .id _ => false
  | .id n, .str s => isIdString n s || typeString n == some s
  | .wide ws, .str s => ws = utf16Encode (strChars s)

/-- the name a traversal reports for a stored name -/
def RName.toName : RName → Name
  | .id n => .id n
  | .wide ws => .wide ws

/-- the first entry, in stored order, whose name matches -/
def Entries.lookup (q : Name) : Entries → Option Node
  | .nil => none
  | .cons nm ch rest => if nameMatch nm q then some ch else rest.lookup q

def Entries.first : Entries → Option Node
  | .nil => none
  | .cons _ ch _ => some ch

def Node.asDir : Node → FRes Node
  | t@(.dir ..) => .ok t
  | .data .. => .error .unDataEntry
def Node.asData : Node → FRes Node
  | t@(.data ..) => .ok t
  | .dir .. => .error .unDirectory

def Node.get (t : Node) (q : Name) : FRes Node :=
  match t with
  | .dir _ es => match es.lookup q with | some c => .ok c | none => .error .notFound
  | .data .. => .error .unDataEntry
def Node.first (t : Node) : FRes Node :=
  match t with
  | .dir _ es => match es.first with | some c => .ok c | none => .error .notFound
  | .data .. => .error .unDataEntry

/-- walk the path components from `t`: each must be valid UTF-8 and name a child of a directory -/
def Node.walk : List (List Nat) → Node → FRes Node
  | [], t => .ok t
  | part :: rest, t =>
    match utf8Chars part with
    | none => .error .bad8Path
    | some _ =>
      match t with
      | .dir _ es => match es.lookup (.str part) with | some c => Node.walk rest c | none => .error .notFound
      | .data .. => .error .unDataEntry

/-- `find(path)`: the path must start at the root (`/` or `\`) -/
def Node.find (t : Node) (p : List Nat) : FRes Node :=
  match pathSplit p with
  | none => .error .notFound
  | some (slash, rest) => if slash ≠ [47] ∧ slash ≠ [92] then .error .noRootPath else t.walk rest

def Node.getDir (t : Node) (q : Name) : FRes Node := (t.get q).bind Node.asDir
def Node.getData (t : Node) (q : Name) : FRes Node := (t.get q).bind Node.asData
def Node.firstDir (t : Node) : FRes Node := t.first.bind Node.asDir
def Node.firstData (t : Node) : FRes Node := t.first.bind Node.asData

/-- `find_resources([type, name])`: the language directory of that type and name -/
def Node.findResources (t : Node) (ty name : Name) : FRes Node := (t.getDir ty).bind fun a => a.getDir name
/-- `find_resource([type, name])`: the first language of that type and name -/
def Node.findResource (t : Node) (ty name : Name) : FRes Node := (t.findResources ty name).bind Node.firstData
/-- `find_resource_ex([type, name, language])` -/
def Node.findResourceEx (t : Node) (ty name lang : Name) : FRes Node := (t.findResources ty name).bind fun b => b.getData lang
/-- the text of a data entry must be UTF-8 -/
def Node.checkUtf8 : Node → FRes Node
  | .data c cp => if (utf8Chars (c.map UInt8.toNat)).isSome then .ok (.data c cp) else .error (.pe .encoding)
  | t => .ok t
/-- the manifest: whatever comes first below type 24 (RT_MANIFEST) -/
def Node.manifest (t : Node) : FRes Node :=
  (t.getDir (.id 24)).bind fun m => m.firstDir.bind fun l => l.firstData.bind Node.checkUtf8
/-- the version resource: type 16 (RT_VERSION), name 1, first language -/
def Node.version (t : Node) : FRes Node := t.findResource (.id 16) (.id 1)

/-! ### icon / cursor files -/

/-- one image of an `.ico` / `.cur` file: the first 8 bytes of its ICONDIRENTRY (width, height,
colour count, reserved, planes / hotspot x, bit count / hotspot y) and its data -/
structure IcoImage where
  hdr : List UInt8
  data : List UInt8

/-- ICONDIRENTRY records: header bytes, dwBytesInRes, dwImageOffset (running, from `off`) -/
def icoEntries : List IcoImage → Nat → List UInt8
  | [], _ => []
  | im :: rest, off => im.hdr ++ le32b im.data.length ++ le32b off ++ icoEntries rest (off + im.data.length)

def icoData : List IcoImage → List UInt8
  | [] => []
  | im :: rest => im.data ++ icoData rest

/-- the file: ICONDIR (reserved 0, type 1 = icon / 2 = cursor, count), the entries, the images -/
def icoFile (kind : Nat) (imgs : List IcoImage) : List UInt8 :=
  le16b 0 ++ le16b kind ++ le16b imgs.length ++ icoEntries imgs (6 + 16 * imgs.length) ++ icoData imgs

/-- GRPICONDIRENTRY records: header bytes, dwBytesInRes, nId (consecutive from `id`) -/
def groupEntries : List IcoImage → Nat → List UInt8
  | [], _ => []
  | im :: rest, id => im.hdr ++ le32b im.data.length ++ le16b id ++ groupEntries rest (id + 1)

/-- the RT_GROUP_ICON / RT_GROUP_CURSOR resource a resource compiler makes of the file -/
def groupBlob (kind : Nat) (imgs : List IcoImage) : List UInt8 :=
  le16b 0 ++ le16b kind ++ le16b imgs.length ++ groupEntries imgs 1

/-- RT_ICON / RT_CURSOR entries `id ↦ { 1033 ↦ image }` with consecutive ids from `id` -/
def imageEntries : List IcoImage → Nat → Entries
  | [], _ => .nil
  | im :: rest, id => .cons (.id id) (.dir 0 (.cons (.id 1033) (.data im.data 0) .nil)) (imageEntries rest (id + 1))

/-- the resource tree of a file with one icon (kind 1) or cursor (kind 2) group named `1` -/
def icoToTree (kind : Nat) (imgs : List IcoImage) : Node :=
  .dir 0 (.cons (.id (if kind = 1 then RT_ICON else RT_CURSOR)) (.dir 0 (imageEntries imgs 1))
    (.cons (.id (if kind = 1 then RT_GROUP_ICON else RT_GROUP_CURSOR))
      (.dir 0 (.cons (.id 1) (.dir 0 (.cons (.id 1033) (.data (groupBlob kind imgs) 0) .nil)) .nil)) .nil))

def icoToResources (kind : Nat) (imgs : List IcoImage) : Resources := resourcesOf 0 (icoToTree kind imgs)

/-! ### group resources (`RT_GROUP_ICON` / `RT_GROUP_CURSOR`) on the abstract tree

Written from the GRPICONDIR / GRPICONDIRENTRY layout (the `.ico` directory with `nId` in place of the
file offset) and from the documentation of `icons()` / `cursors()`, for ANY tree. -/

/-- little-endian u16 at index `i` of a byte string -/
def l16 (b : List UInt8) (i : Nat) : Nat := (b.getD i 0).toNat + 256 * (b.getD (i + 1) 0).toNat

/-- a parsed GRPICONDIR: `idType` (1 = icon, 2 = cursor) and, per GRPICONDIRENTRY in stored order,
`dwBytesInRes` and `nId` -/
structure GroupSpec where
  kind : Nat
  entries : List (Nat × Nat)
  deriving DecidableEq, Repr

/-- The GRPICONDIR format: `idReserved = 0`, `idType ∈ {1, 2}`, `idCount`, followed by exactly
`idCount` entries of 14 bytes (`dwBytesInRes` at offset 8, `nId` at offset 12) and nothing else.
Too short / wrong total length: `Bounds`; wrong reserved word or type: `BadMagic`. -/
def parseGroup (blob : List UInt8) : Except Err GroupSpec :=
  if blob.length < 6 then .error .bounds
  else if l16 blob 0 ≠ 0 ∨ ¬ (l16 blob 2 = 1 ∨ l16 blob 2 = 2) then .error .badMagic
  else if blob.length ≠ 6 + 14 * l16 blob 4 then .error .bounds
  else .ok ⟨l16 blob 2, (List.range (l16 blob 4)).map fun i =>
    (l16 blob (6 + 14 * i + 10) * 0x10000 + l16 blob (6 + 14 * i + 8), l16 blob (6 + 14 * i + 12))⟩

/-- the resource type holding the images of a group: `RT_ICON` for icons, `RT_CURSOR` for cursors -/
def GroupSpec.imageType (g : GroupSpec) : Nat := if g.kind = 1 then RT_ICON else RT_CURSOR

/-- the group data below an entry of the group directory: the entry must be a directory (`UnDataEntry`),
its first child (`NotFound` when empty) a data entry (`UnDirectory`) — "the first language" -/
def Node.groupData (ch : Node) : FRes (List UInt8) :=
  (ch.asDir.bind Node.firstData).bind fun
    | .data c _ => .ok c
    | .dir .. => .error .unDirectory

/-- `icons()` (`ty = RT_GROUP_ICON`) / `cursors()` (`ty = RT_GROUP_CURSOR`): for every entry of that
type's directory, in stored order, its name and the data of its first language; nothing at all when
the root has no such directory -/
def Node.groups (t : Node) (ty : Nat) : List (RName × FRes (List UInt8)) :=
  match t.getDir (.id ty) with
  | .ok (.dir _ es) => es.toList.map fun p => (p.1, p.2.groupData)
  | _ => []

/-- `GroupResource::image(id)`: the first language of `/<RT_ICON | RT_CURSOR>/<id>` -/
def Node.groupImage (t : Node) (g : GroupSpec) (id : Nat) : FRes Node := t.findResource (.id g.imageType) (.id id)

/-! ### full traversal through the public API

What a client sees that walks the tree with `entries()`, `name()`, `entry()`, `bytes()` and
`code_page()`; `k` bounds the nesting depth followed (`diverge` when it is exceeded). -/

/-- the stored form of a name reported by `DirectoryEntry::name` (never `Name::Str`) -/
def Name.toRName : Name → RName
  | .id n => .id n
  | .wide ws => .wide ws
  | .str _ => .id 0

def readEntries (rec : Dir → Out Node) (r : Resources) : List DirEntry → Out Entries
  | [] => .ok .nil
  | e :: rest =>
    match e.getName r with
    | .ok nm =>
      match e.entry r with
      | .ok (.dir d) =>
        match rec d with
        | .ok ch =>
          match readEntries rec r rest with
          | .ok more => .ok (.cons nm.toRName ch more)
          | o => o
        | .err e => .err e
        | .panic s => .panic s
        | .ub s => .ub s
        | .diverge => .diverge
      | .ok (.data de) =>
        match de.bytes r with
        | .ok ref =>
          match readEntries rec r rest with
          | .ok more => .ok (.cons nm.toRName (.data (bytesAt r.sec ref.off ref.len) de.codePageOf) more)
          | o => o
        | .err e => .err e
        | .panic s => .panic s
        | .ub s => .ub s
        | .diverge => .diverge
      | .err e => .err e
      | .panic s => .panic s
      | .ub s => .ub s
      | .diverge => .diverge
    | .err e => .err e
    | .panic s => .panic s
    | .ub s => .ub s
    | .diverge => .diverge

def readDir (r : Resources) : Nat → Dir → Out Node
  | 0, _ => .diverge
  | k+1, d =>
    match d.entries r with
    | .ok es =>
      match readEntries (readDir r k) r es with
      | .ok ents => .ok (.dir d.named ents)
      | .err e => .err e
      | .panic s => .panic s
      | .ub s => .ub s
      | .diverge => .diverge
    | .err e => .err e
    | .panic s => .panic s
    | .ub s => .ub s
    | .diverge => .diverge

/-- traverse everything from the root -/
def readTree (r : Resources) (k : Nat) : Out Node :=
  match root r with
  | .ok d => readDir r k d
  | .err e => .err e
  | .panic s => .panic s
  | .ub s => .ub s
  | .diverge => .diverge

end Pelite.Resources
