import PeliteModel.Model.Rich
/-!
Specification side of C16, written from the property statement and the public descriptions of the
Rich header (bytepointer "The Undocumented Microsoft Rich Header", ntcore "Microsoft's Rich
Signature", richprint), not from the code:

```
DOS header + DOS program                       (the "stub": everything before the header)
'DanS' ^ k, k, k, k                            (k = the checksum, used as xor key)
(comp.id ^ k, count ^ k) ...                   (comp.id = product << 16 | build)
'Rich', k
zero padding
```
`k = offset of 'DanS' + Σ rol32(byte_j, j) over the bytes before it (the four bytes of e_lfanew
at 0x3c count as zero) + Σ rol32(comp.id, count)`, all modulo 2^32.
Only the record type `Record` and the two marker constants are shared with the model.
-/
namespace Pelite.Rich.Spec

/-- "DanS" and "Rich" as little-endian dwords of their ASCII bytes -/
def dans : Nat := 0x44 + 0x61 * 256 + 0x6e * 65536 + 0x53 * 16777216
def rich : Nat := 0x52 + 0x69 * 256 + 0x63 * 65536 + 0x68 * 16777216

/-- comp.id: product in the high, build in the low half -/
def compId (r : Record) : Nat := r.product * 65536 + r.build

/-- a record on disk -/
def encRecord (k : Nat) (r : Record) : List Nat := [compId r ^^^ k, r.count ^^^ k]

/-- a record read back from two dwords -/
def decRecord (k w0 w1 : Nat) : Record := ⟨(w0 ^^^ k) % 65536, (w0 ^^^ k) / 65536, w1 ^^^ k⟩

/-- header, records, footer -/
def header (k : Nat) (rs : List Record) : List Nat :=
  [dans ^^^ k, k, k, k] ++ rs.flatMap (encRecord k) ++ [rich, k]

/-- the DOS area of an image with a Rich header: stub, header, zero padding up to `e_lfanew` -/
def layout (stub : List Nat) (k : Nat) (rs : List Record) (pad : Nat) : List Nat :=
  stub ++ header k rs ++ List.replicate pad 0

/-- rotate a 32-bit value left by `n mod 32` bits, arithmetically:
the low `32 - r` bits move up by `r`, the high `r` bits come back in at the bottom -/
def rol32 (x n : Nat) : Nat :=
  (x % 2 ^ (32 - n % 32)) * 2 ^ (n % 32) + x / 2 ^ (32 - n % 32)

/-- the bytes of the stub in file order (dwords are little endian) -/
def stubBytes (stub : List Nat) : List Nat :=
  stub.flatMap fun w => [w % 256, w / 256 % 256, w / 65536 % 256, w / 16777216 % 256]

/-- Σ rol32(byte_j, j) from offset `j` on; the e_lfanew bytes 0x3c..0x3f count as zero -/
def sumBytes : List Nat → Nat → Nat
  | [], _ => 0
  | b :: bs, j => (if 0x3c ≤ j ∧ j < 0x40 then 0 else rol32 b j) + sumBytes bs (j + 1)

/-- Σ rol32(comp.id, count) -/
def sumRecs : List Record → Nat
  | [] => 0
  | r :: rs => rol32 (compId r) r.count + sumRecs rs

/-- the Rich checksum of a stub and a record list -/
def checksum (stub : List Nat) (rs : List Record) : Nat :=
  (4 * stub.length + sumBytes (stubBytes stub) 0 + sumRecs rs) % 4294967296

/-- A record pair that on disk reads `DanS^k, k, k, k`: it is indistinguishable from the header. -/
def imitates : List Record → Bool
  | a :: b :: t => (decide (a = ⟨0x6144, 0x536e, 0⟩ ∧ b = ⟨0, 0, 0⟩)) || imitates (b :: t)
  | _ => false

/-! ### what "a well-formed `DanS … Rich key` trailer" means for an arbitrary DOS area -/

/-- `area` (the dwords before `e_lfanew`) carries a header at dwords `[s, e)` with key `k`:
`DanS^k, k, k, k` at `s`, `Rich, k` right before `e`, an even number of dwords in between, at least
the 16 dwords of the DOS header before it and nothing but zeroes after it. -/
def WellFormedAt (area : List Nat) (s e k : Nat) : Prop :=
  16 ≤ s ∧ s + 6 ≤ e ∧ e ≤ area.length ∧ (e - s) % 2 = 0 ∧
  area[s]? = some (dans ^^^ k) ∧ area[s + 1]? = some k ∧ area[s + 2]? = some k ∧ area[s + 3]? = some k ∧
  area[e - 2]? = some rich ∧ area[e - 1]? = some k ∧
  (∀ j, j < area.length → e ≤ j → area[j]? = some 0)

instance (area : List Nat) (s e k : Nat) : Decidable (WellFormedAt area s e k) := by
  unfold WellFormedAt; infer_instance

/-- number of trailing zero dwords -/
def trailingZeros (area : List Nat) : Nat := (area.reverse.takeWhile (· == 0)).length

/-- every `(s, e, k)` with `WellFormedAt area s e k`, by brute force (used by the driver only:
"is there any well-formed trailer at all?").  The key is the last non-zero dword, or zero when the
last non-zero dword is `Rich` itself. -/
def parses (area : List Nat) : List (Nat × Nat × Nat) :=
  let t := trailingZeros area
  let e1 := area.length - t
  let cands := [(e1, area.getD (e1 - 1) 0)] ++ (if t ≥ 1 then [(e1 + 1, 0)] else [])
  cands.flatMap fun (e, k) =>
    (List.range (e + 1)).filterMap fun s => if WellFormedAt area s e k then some (s, e, k) else none

/-- the DOS area `try_from` looks at: the dwords before `e_lfanew` (dword 15 of the image, in bytes) -/
def areaOf (image : List Nat) : List Nat := image.take (image.getD 15 0 / 4)

/-- `DanS^k, k, k, k` at dword `t` -/
def HeaderAt (area : List Nat) (k t : Nat) : Prop :=
  area[t]? = some (dans ^^^ k) ∧ area[t + 1]? = some k ∧ area[t + 2]? = some k ∧ area[t + 3]? = some k

instance (area : List Nat) (k t : Nat) : Decidable (HeaderAt area k t) := by
  unfold HeaderAt; infer_instance

/-- no block that reads `DanS^k, k, k, k` strictly between the header (at `s`) and the trailer (before
`e`), at even distance from the trailer — such a block is indistinguishable from the header for a
reader scanning backwards from `Rich`. -/
def NoFake (area : List Nat) (s e k : Nat) : Prop :=
  ∀ t, s < t → t + 6 ≤ e → (e - t) % 2 = 0 → ¬ HeaderAt area k t

/-! ### dwords and bytes -/

/-- the byte buffer that holds the dwords `ws` (little endian, file order) -/
def bytesOf (ws : List Nat) : Bytes := ((stubBytes ws).map UInt8.ofNat).toArray

/-! ### iterators: the reference is a double-ended queue of the records -/

inductive Op
  | next | nextBack | nth (n : Nat) | len | sizeHint | count | clone
  deriving DecidableEq, Repr

inductive Res
  | item (r : Option Record)      -- next / next_back / nth
  | num (n : Nat)                 -- len / count
  | hint (lo hi : Nat)            -- size_hint
  | list (l : List Record)        -- the items a clone still yields
  deriving DecidableEq, Repr

def stepDeque (q : List Record) : Op → Res × List Record
  | .next => (.item q.head?, q.tail)
  | .nextBack => (.item q.getLast?, q.dropLast)
  | .nth n => (.item q[n]?, q.drop (n + 1))
  | .len => (.num q.length, q)
  | .sizeHint => (.hint q.length q.length, q)
  | .count => (.num q.length, q)
  | .clone => (.list q, q)

def runDeque : List Record → List Op → List Res
  | _, [] => []
  | q, o :: os => (stepDeque q o).1 :: runDeque (stepDeque q o).2 os

end Pelite.Rich.Spec

namespace Pelite.Rich
open Spec

/-- one call on the model iterator, result in the vocabulary of the specification -/
def Iter.step (it : Iter) : Op → Out (Res × Iter)
  | .next => it.next >>= fun p => .ok (.item p.1, p.2)
  | .nextBack => it.nextBack >>= fun p => .ok (.item p.1, p.2)
  | .nth n => it.nth n >>= fun p => .ok (.item p.1, p.2)
  | .len => .ok (.num it.len, it)
  | .sizeHint => .ok (.hint it.sizeHint it.sizeHint, it)
  | .count => .ok (.num it.count, it)         -- `it.clone().count()`
  | .clone => .ok (.list it.collect, it)      -- `it.clone().collect()`

def Iter.run : Iter → List Op → Out (List Res)
  | _, [] => .ok []
  | it, o :: os => it.step o >>= fun p => Iter.run p.2 os >>= fun rs => .ok (p.1 :: rs)

/-! ### the round trip (C16 b) -/

/-- Typing and placement conditions of the round trip: the stub contains the 16 dwords of the DOS
header, everything is in range for its Rust type, and `e_lfanew` (dword 15 of the stub) points at
the first byte after the padding (only `e_lfanew / 4` matters). -/
def Admissible (stub : List Nat) (rs : List Record) (pad : Nat) : Prop :=
  16 ≤ stub.length ∧ (∀ w ∈ stub, w < 4294967296) ∧ (∀ r ∈ rs, r.WF) ∧
  stub.getD 15 0 / 4 = stub.length + (2 * rs.length + 6) + pad

/-- The round trip for one input: the image whose DOS area is the documented layout with the
checksum as key (followed by anything: `rest` = NT headers, sections) parses; the stub, the key,
the records and the recomputed checksum are the ones that went in, and encoding the decoded
records into a destination of the original size reproduces the original dwords. -/
def RoundTrips (stub : List Nat) (rs : List Record) (pad : Nat) (rest : List Nat) : Prop :=
  ∃ r, tryFrom (Spec.layout stub (Spec.checksum stub rs) rs pad ++ rest) = .ok r ∧
    r.dosStub = stub ∧
    r.xorKey = .ok (Spec.checksum stub rs) ∧
    (∃ it, r.records = .ok it ∧ it.collect = rs) ∧
    r.checksum = .ok (Spec.checksum stub rs) ∧
    (∃ t, r.encode rs (2 * rs.length + 6 + pad) =
      .ok (.done t (Spec.header (Spec.checksum stub rs) rs ++ List.replicate pad 0)))

/-- The same round trip on the buffer the Rust code sees: the BYTES of that image (little endian),
followed by up to three bytes that do not fill a dword, at address `base`, read through
`Pe::rich_structure` (`ofImage`: the `&[u8]` → `&[u32]` reinterpretation, then `try_from`). -/
def RoundTripsBytes (stub : List Nat) (rs : List Record) (pad : Nat) (rest : List Nat) (tail : Bytes)
    (base : Nat) : Prop :=
  ∃ r, ofImage ⟨bytesOf (Spec.layout stub (Spec.checksum stub rs) rs pad ++ rest) ++ tail, base⟩ = .ok r ∧
    r.dosStub = stub ∧
    r.xorKey = .ok (Spec.checksum stub rs) ∧
    (∃ it, r.records = .ok it ∧ it.collect = rs) ∧
    r.checksum = .ok (Spec.checksum stub rs) ∧
    (∃ t, r.encode rs (2 * rs.length + 6 + pad) =
      .ok (.done t (Spec.header (Spec.checksum stub rs) rs ++ List.replicate pad 0)))

end Pelite.Rich
