/-!
What a Rust *string literal token* means — written from the Rust Reference ("Tokens": string
literals, quote / ASCII / Unicode escapes, string continuation escapes), NOT from pelite's
`parse_str_literal`.  This file imports nothing of the model; core-only.

Reference grammar (the text is the token text `Literal::to_string()` hands to a proc macro, i.e. the
source text after CRLF normalisation):

```
STRING_LITERAL   → " ( ~[" \ CR] | QUOTE_ESCAPE | ASCII_ESCAPE | UNICODE_ESCAPE | STRING_CONTINUE )* " SUFFIX?
QUOTE_ESCAPE     → \' | \"
ASCII_ESCAPE     → \x OCT_DIGIT HEX_DIGIT | \n | \r | \t | \\ | \0
UNICODE_ESCAPE   → \u{ ( HEX_DIGIT _* ){1..6} }          -- value must be a Unicode scalar value
STRING_CONTINUE  → \ LF                                   -- the LF and all following HT, LF, CR, SPACE denote nothing
```

* a char other than `"`, `\`, CR denotes itself (LF and TAB included); a CR in the body is an error
  ("bare CR not allowed in string");
* raw strings (`r"…"`, `r#"…"#`), byte strings (`b"…"`), C strings (`c"…"`) are other token kinds:
  their text does not start with `"`, they have no value here;
* `SUFFIX` (an identifier directly after the closing quote) is part of the token but not of its value.
  Whether the text after the closing quote is a well-formed suffix is the lexer's business (a
  `proc_macro::Literal` is always one token); `rustLitLex` returns it uninterpreted.

Second part: `escapeWith`, a reference *writer* of string literals (the converse direction), moved
here from the model file because it is specification vocabulary of C17.
-/
namespace Pelite.Pattern.Spec

/-- HEX_DIGIT -/
def hexVal (c : Char) : Option Nat :=
  if '0' ≤ c ∧ c ≤ '9' then some (c.toNat - '0'.toNat)
  else if 'a' ≤ c ∧ c ≤ 'f' then some (c.toNat - 'a'.toNat + 10)
  else if 'A' ≤ c ∧ c ≤ 'F' then some (c.toNat - 'A'.toNat + 10)
  else none

/-- OCT_DIGIT -/
def octVal (c : Char) : Option Nat :=
  if '0' ≤ c ∧ c ≤ '7' then some (c.toNat - '0'.toNat) else none

/-- the whitespace a string continuation swallows: HT, LF, CR, SPACE -/
def isContWs (c : Char) : Bool := c = '\t' || c = '\n' || c = '\r' || c = ' '

/-- `( HEX_DIGIT _* ){1..6} }` — the text after `\u{`.  `v` = value so far, `n` = digits so far.
An underscore needs a digit before it, at most 6 digits, at least one.  Returns the value and the
text after `}`. -/
def uniDigits : List Char → Nat → Nat → Option (Nat × List Char)
  | [], _, _ => none
  | '}' :: cs, v, n => if 1 ≤ n then some (v, cs) else none
  | '_' :: cs, v, n => if 1 ≤ n then uniDigits cs v n else none
  | c :: cs, v, n =>
    match hexVal c with
    | some d => if n < 6 then uniDigits cs (16 * v + d) (n + 1) else none
    | none => none

/-- One escape: the text after the backslash ↦ the char it denotes (`none`: a string continuation,
which denotes nothing) and the text after the escape.  Everything not listed is not an escape. -/
def escapeSeq : List Char → Option (Option Char × List Char)
  | '\'' :: cs => some (some '\'', cs)
  | '"' :: cs => some (some '"', cs)
  | 'n' :: cs => some (some '\n', cs)
  | 'r' :: cs => some (some '\r', cs)
  | 't' :: cs => some (some '\t', cs)
  | '\\' :: cs => some (some '\\', cs)
  | '0' :: cs => some (some (Char.ofNat 0), cs)
  | 'x' :: a :: b :: cs =>                      -- 7-bit: at most \x7F
    match octVal a, hexVal b with
    | some hi, some lo => some (some (Char.ofNat (16 * hi + lo)), cs)
    | _, _ => none
  | 'u' :: '{' :: cs =>
    match uniDigits cs 0 0 with
    | some (v, rest) => if v.isValidChar then some (some (Char.ofNat v), rest) else none
    | none => none
  | '\n' :: cs => some (none, cs.dropWhile isContWs)
  | _ => none

theorem uniDigits_length (cs : List Char) (v n : Nat) (w : Nat) (rest : List Char)
    (h : uniDigits cs v n = some (w, rest)) : rest.length ≤ cs.length := by
  fun_induction uniDigits cs v n <;> simp_all <;> omega

theorem length_dropWhile_le' (p : Char → Bool) (l : List Char) : (l.dropWhile p).length ≤ l.length := by
  induction l with
  | nil => simp
  | cons a l ih => simp only [List.dropWhile_cons]; split <;> simp <;> omega

theorem escapeSeq_length (cs : List Char) (oc : Option Char) (rest : List Char)
    (h : escapeSeq cs = some (oc, rest)) : rest.length ≤ cs.length := by
  fun_cases escapeSeq cs <;> simp_all [escapeSeq]
  · omega
  · have := uniDigits_length _ _ _ _ _ ‹uniDigits _ 0 0 = _›; omega
  · have := uniDigits_length _ _ _ _ _ ‹uniDigits _ 0 0 = _›; omega
  · obtain ⟨_, rfl⟩ := h; exact Nat.le_succ_of_le (length_dropWhile_le' _ _)

/-- The body of a string literal: the text after the opening quote ↦ the denoted string and the text
after the closing quote.  `none`: no closing quote, a bare CR, or a malformed escape. -/
def litBody (cs : List Char) : Option (List Char × List Char) :=
  match cs with
  | [] => none
  | '"' :: rest => some ([], rest)
  | '\r' :: _ => none
  | '\\' :: cs' =>
    match _h : escapeSeq cs' with
    | none => none
    | some (oc, rest) =>
      match litBody rest with
      | some (v, r) => some (oc.toList ++ v, r)
      | none => none
  | c :: cs' =>
    match litBody cs' with
    | some (v, r) => some (c :: v, r)
    | none => none
termination_by cs.length
decreasing_by
  · have := escapeSeq_length _ _ _ (by assumption); simp; omega
  · simp

/-- A string literal token: its value and its suffix text.  `none`: not a (well-formed) string
literal. -/
def rustLitLex : List Char → Option (List Char × List Char)
  | '"' :: body => litBody body
  | _ => none

/-- **The value of a Rust string literal token** (the `str` it denotes), `none` if the text is not a
well-formed string literal. -/
def rustLitValue (lit : List Char) : Option (List Char) := (rustLitLex lit).map Prod.fst

/-- the token's suffix text (`"…"suffix`) -/
def rustLitSuffix (lit : List Char) : Option (List Char) := (rustLitLex lit).map Prod.snd

/-! ### The escapes `pelite::pattern!` does not implement -/

/-- scanning the body two chars at a time after a backslash: is there a `\0`, `\x`, `\u` or a
`\`+LF continuation before the closing quote?  (On a well-formed literal this walks the escapes
exactly as `litBody` does up to the first such escape.) -/
def usesUnsupported : List Char → Bool
  | [] => false
  | '"' :: _ => false
  | '\\' :: c :: cs => c = '0' || c = 'x' || c = 'u' || c = '\n' || usesUnsupported cs
  | _ :: cs => usesUnsupported cs

/-- the literal uses `\0`, `\xNN`, `\u{…}` or a string continuation -/
def UsesUnsupportedEscape (lit : List Char) : Prop :=
  match lit with
  | '"' :: body => usesUnsupported body = true
  | _ => False

instance (lit : List Char) : Decidable (UsesUnsupportedEscape lit) := by
  unfold UsesUnsupportedEscape; split <;> infer_instance

end Pelite.Pattern.Spec

/-! ## Reference writer of string literals -/
namespace Pelite.Pattern

/-- how a char may be written in the literal: `esc = true` uses the backslash form where one exists.
`"` and `\` must be escaped (rustc would end the literal / start an escape). -/
def escChar (esc : Bool) (c : Char) : List Char :=
  if c = '\\' then ['\\', '\\']
  else if c = '"' then ['\\', '"']
  else if esc then
    if c = '\'' then ['\\', '\'']
    else if c = '\t' then ['\\', 't']
    else if c = '\r' then ['\\', 'r']
    else if c = '\n' then ['\\', 'n']
    else [c]
  else [c]

/-- body of the literal: per char a choice between the verbatim and the backslash form
(missing choices default to the backslash form) -/
def escapeBody : List Bool → List Char → List Char
  | _, [] => []
  | [], c :: cs => escChar true c ++ escapeBody [] cs
  | b :: bs, c :: cs => escChar b c ++ escapeBody bs cs

/-- reference escaper: a Rust string literal denoting `cs`.  (With `false` chosen for a CR the text
contains a bare CR, which rustc rejects: see `C17_escapeWith_value_partial`.) -/
def escapeWith (choices : List Bool) (cs : List Char) : List Char := '"' :: (escapeBody choices cs ++ ['"'])

def escape (cs : List Char) : List Char := escapeWith [] cs

end Pelite.Pattern
