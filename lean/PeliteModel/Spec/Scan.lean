import PeliteModel.Model.Scan
/-!
Specification side of C10, written from the property statement:

  the reported matches are exactly the positions `c` of the range at which executing the pattern
  succeeds — at least every such `c` that lies in stored-and-mapped bytes and is a prefix length
  away from the end of the range and of its section (`IsCand`), at most every such `c` of the range.

`specMatches` is the executable reference (`filter execOK candidates`); `SecWF` is the shape of
section table the code documents it assumes for file views.
-/
namespace Pelite.Scan
open Pelite.Pattern Pelite.Exec

/-- executing the pattern at `c` succeeds (on a fresh, empty save array: for patterns without
`Check` / `Pir` the outcome does not depend on the save array, `Lemmas/Exec.lean:run_save_indep`) -/
def execOK (v : Pe.View) (pat : List Atom) (c : Nat) : Bool :=
  match Exec.run (Exec.ofView v) pat c #[] with
  | .ok (true, _) => true
  | _ => false

/-- the pattern never reads the save array: its outcome cannot depend on stale captures -/
def noRead : Atom → Bool
  | .check _ | .pir _ => false
  | _ => true

/-- section table as the scanner documents it assumes it: sorted by VirtualAddress, virtual extents
`[va, va + max(vs, rs))` pairwise disjoint, nothing wraps around 2^32 -/
def SecWF (secs : List Pe.Sec) : Prop :=
  (∀ s ∈ secs, s.va + max s.vs s.rs < 4294967296 ∧ s.prd < 4294967296 ∧ s.rs < 4294967296) ∧
  secs.Pairwise (fun a b => a.va + max a.vs a.rs ≤ b.va)

instance (secs : List Pe.Sec) : Decidable (SecWF secs) := by unfold SecWF; infer_instance

/-- `c` is a candidate of section `s`: inside the range, stored (below SizeOfRawData, raw data inside
the file) and mapped (below VirtualSize), and `m` bytes fit before the end of the range and of the
section's stored bytes -/
def IsCandSec (size m lo hi : Nat) (s : Pe.Sec) (c : Nat) : Prop :=
  lo ≤ c ∧ c < hi ∧ s.va ≤ c ∧ c - s.va < min s.vs s.rs ∧ s.prd + s.rs ≤ size ∧
  c + m ≤ hi ∧ c + m ≤ s.va + s.rs

instance (size m lo hi : Nat) (s : Pe.Sec) (c : Nat) : Decidable (IsCandSec size m lo hi s c) := by
  unfold IsCandSec; infer_instance

/-- candidate positions of a view for a literal prefix of length `m` and the range `lo..hi` -/
def IsCand (v : Pe.View) (m lo hi c : Nat) : Prop :=
  match v.kind with
  | .view => lo ≤ c ∧ c < hi ∧ c < v.b.size ∧ c + m ≤ hi ∧ c + m ≤ v.b.size
  | .file => ∃ s ∈ v.secs, IsCandSec v.b.size m lo hi s c

instance (v : Pe.View) (m lo hi c : Nat) : Decidable (IsCand v m lo hi c) := by
  unfold IsCand; split <;> infer_instance

/-- the positions `next` may examine at all: inside the range and inside stored bytes (the raw data
of a section whose raw range lies in the file, mapped or not; any byte of a mapped image) -/
def IsScanPos (v : Pe.View) (lo hi c : Nat) : Prop :=
  lo ≤ c ∧ c < hi ∧
  match v.kind with
  | .view => c < v.b.size
  | .file => ∃ s ∈ v.secs, s.va ≤ c ∧ c < s.va + s.rs ∧ s.prd + s.rs ≤ v.b.size

instance (v : Pe.View) (lo hi c : Nat) : Decidable (IsScanPos v lo hi c) := by
  unfold IsScanPos; split <;> infer_instance

/-- the candidates in ascending order (for `SecWF` tables) -/
def candidates (v : Pe.View) (m lo hi : Nat) : List Nat :=
  match v.kind with
  | .view => (List.range' lo (min hi v.b.size - lo)).filter fun c => c + m ≤ hi ∧ c + m ≤ v.b.size
  | .file => v.secs.flatMap fun s =>
      (List.range' (max lo s.va) (min hi (s.va + min s.vs s.rs) - max lo s.va)).filter
        fun c => decide (IsCandSec v.b.size m lo hi s c)

/-- **reference**: the candidates at which the pattern executes successfully -/
def specMatches (v : Pe.View) (pat : List Atom) (lo hi : Nat) : List Nat :=
  (candidates v (setup pat).length lo hi).filter (execOK v pat)

/-- hypotheses of the completeness theorems as one decidable predicate -/
def Hyp (v : Pe.View) (pat : List Atom) (lo hi : Nat) : Prop :=
  pat.all Atom.ok = true ∧ pat.all noRead = true ∧ v.b.size < 4294967296 ∧
  lo < 4294967296 ∧ hi < 4294967296 ∧ (v.kind = .file → SecWF v.secs)

instance (v : Pe.View) (pat : List Atom) (lo hi : Nat) : Decidable (Hyp v pat lo hi) := by
  unfold Hyp; infer_instance

end Pelite.Scan
