import PeliteModel.Model.Exec
/-!
The hypotheses of the C11 headline theorems (`Thm/C11*.lean`: `C11_exec_compile_impl`,
`C11_exec_compile_partial`, …) on the interface `ScanI` the interpreter runs against, written out in
full so that they can be audited without opening `Lemmas/`:

* `Spec.ScanIWF S`  — a copy of `Exec.ScanI.WF` (`Lemmas/Exec.lean`),
* `Spec.Coherent S` — a copy of `PatSem.Coherent` (`Lemmas/PatternSem.lean`).

This file imports the MODEL only (`Model/Exec.lean`: `ScanI`, `byteAt`, `wadd32`), no `Lemmas/` file and
nothing outside core.  That the copies ARE the predicates the theorems use is proved in
`Spec/ScanHypEquiv.lean` (`Spec.ScanIWF_iff`, `Spec.Coherent_iff`), which also restates the headline
theorem with the copies as hypotheses (`C11_exec_compile_impl_spec`).
-/
namespace Pelite.Spec
open Pelite.Exec

/-- What the interpreter needs from an implementation `S` of `trait Scan` (`read`, `pointer`, `slice`
over a byte store `S.mem`) to be panic free.  Three conditions on its answers:

* a successful ONE-byte read at `rva` lies strictly below `u32::MAX` (so `self.cursor += 1` cannot
  overflow) and yields a byte;
* a successful `w`-byte read yields a `w`-byte value;
* a successful `pointer` translation yields an `Rva` (`u32`).

Both implementations of the crate (`ofView`: `PeFile` / `PeView`; `ofRaw`: `&[u8]`) satisfy it for every
buffer below 4 GiB (`Thm/C11.lean:C11_interfaces`, restated as `Spec/ScanHypEquiv.lean:C11_interfaces_spec`). -/
structure ScanIWF (S : ScanI) : Prop where
  read1 : ∀ rva v, S.read 1 rva = some v → rva + 1 < 4294967296 ∧ v < 256
  read_lt : ∀ w rva v, S.read w rva = some v → v < 256 ^ w
  pointer_lt : ∀ va r, S.pointer va = some r → r < 4294967296

/-- `slice` and one-byte `read`s see the same bytes: whenever `slice(c)` answers the `len` bytes of the
store at `off`, a one-byte read at `c + i` (wrapping `u32` addition), `i < len`, answers byte `off + i`
of the store.  It is what makes the `memchr` shortcut of `exec_many` (which looks at the slice) agree
with executing the pattern at each offset (which reads).  Holds on every buffer below 4 GiB for `ofRaw`,
for mapped views, and for file views whose sections' virtual extents do not overlap
(`C11_interfaces_spec`). -/
def Coherent (S : ScanI) : Prop :=
  ∀ c off len i, S.slice c = some (off, len) → i < len → S.read 1 (wadd32 c i) = some (byteAt S.mem (off + i))

end Pelite.Spec
