import PeliteModel.Spec.ScanHyp
import PeliteModel.Thm.C11Impl
/-!
`Spec/ScanHyp.lean` states the hypotheses of the C11 headline theorems without importing `Lemmas/`.
THIS file imports the lemma / theorem files (`Lemmas/Exec.lean`, `Lemmas/PatternSem.lean` through
`Thm/C11Impl.lean`) and proves that the copies are the predicates those theorems use:

* `Spec.ScanIWF_iff  : Spec.ScanIWF S ↔ S.WF`,
* `Spec.Coherent_iff : Spec.Coherent S ↔ PatSem.Coherent S` (`Iff.rfl`: the bodies are identical),

and restates the headline theorems with the `Spec.` hypotheses: `C11_exec_compile_impl_spec` (T2'),
`C11_exec_compile_partial_spec` (T2 on the fragment), `C11_pattern_string_semantics_impl_spec` (T3'),
`C11_interfaces_spec` (the hypotheses hold for every image below 4 GiB).
-/
namespace Pelite.Spec
open Pelite.Exec

theorem ScanIWF_iff (S : ScanI) : ScanIWF S ↔ S.WF :=
  ⟨fun h => ⟨h.read1, h.read_lt, h.pointer_lt⟩, fun h => ⟨h.read1, h.read_lt, h.pointer_lt⟩⟩

theorem Coherent_iff (S : ScanI) : Coherent S ↔ PatSem.Coherent S := Iff.rfl

end Pelite.Spec

namespace Pelite.PatSem
open Pelite.Pattern Pelite.Exec

/-- **T2' with hypotheses readable from `Spec/`** (`Thm/C11Impl.lean:C11_exec_compile_impl`): for every
interface satisfying `Spec.ScanIWF` and `Spec.Coherent`, every well-formed pattern tree, every `u32` cursor
and every save array, running the reference compiler's output returns normally, answers `true` exactly
when `denoteImpl` matches, keeps the length of the save array and leaves every specified capture in it. -/
theorem C11_exec_compile_impl_spec {S : ScanI} (hS : Spec.ScanIWF S) (hC : Spec.Coherent S) (p : Pat) (hwf : WF p = true)
    (c : Nat) (hc : c < 4294967296) (save0 : Array Nat) :
    ∃ save, run S (compile p) c save0 = .ok ((denoteImpl S p c).isSome, save) ∧ save.size = save0.size ∧
      ∀ c' w, denoteImpl S p c = some (c', w) → ∀ s v, (s, v) ∈ w → s < save0.size → save[s]? = some v :=
  C11_exec_compile_impl ((Spec.ScanIWF_iff S).1 hS) ((Spec.Coherent_iff S).1 hC) p hwf c hc save0

/-- **T2 on the fragment** (`Thm/C11.lean:C11_exec_compile_partial`) with the `Spec.` hypotheses -/
theorem C11_exec_compile_partial_spec {S : ScanI} (hS : Spec.ScanIWF S) (hC : Spec.Coherent S) (p : Pat) (hwf : WF p = true)
    (hfr : InFragment p = true) (c : Nat) (hc : c < 4294967296) (save0 : Array Nat) :
    ∃ save, run S (compile p) c save0 = .ok ((denote S p c).isSome, save) ∧ save.size = save0.size ∧
      ∀ c' w, denote S p c = some (c', w) → ∀ s v, (s, v) ∈ w → s < save0.size → save[s]? = some v :=
  C11_exec_compile_partial ((Spec.ScanIWF_iff S).1 hS) ((Spec.Coherent_iff S).1 hC) p hwf hfr c hc save0

/-- **T3'** (`Thm/C11Impl.lean:C11_pattern_string_semantics_impl`) with the `Spec.` hypotheses -/
theorem C11_pattern_string_semantics_impl_spec (sty : Style) (p : Pat) (hwf : WF p = true)
    {S : ScanI} (hS : Spec.ScanIWF S) (hC : Spec.Coherent S) (c : Nat) (hc : c < 4294967296) (save0 : Array Nat) :
    ∃ atoms save, parse (render sty p) = .ok atoms ∧
      run S atoms c save0 = .ok ((denoteImpl S p c).isSome, save) ∧ save.size = save0.size ∧
      ∀ c' w, denoteImpl S p c = some (c', w) → ∀ s v, (s, v) ∈ w →
        (s < save0.size → save[s]? = some v) ∧ s + 1 ≤ saveLen atoms :=
  C11_pattern_string_semantics_impl sty p hwf ((Spec.ScanIWF_iff S).1 hS) ((Spec.Coherent_iff S).1 hC) c hc save0

/-- the `Spec.` hypotheses hold for the interfaces the scanner is instantiated with
(`Thm/C11.lean:C11_interfaces`): raw buffers, mapped views, and file views with non-overlapping sections
(`secsDisjointB`, decidable), below 4 GiB, PE32 and PE32+ -/
theorem C11_interfaces_spec :
    (∀ (f : Pe.Fmt) (b : Bytes), b.size < 4294967296 → Spec.ScanIWF (ofRaw f b) ∧ Spec.Coherent (ofRaw f b)) ∧
    (∀ v : Pe.View, v.kind = .view → v.b.size < 4294967296 → Spec.ScanIWF (ofView v) ∧ Spec.Coherent (ofView v)) ∧
    (∀ v : Pe.View, v.kind = .file → v.b.size < 4294967296 → secsDisjointB v.secs = true →
      Spec.ScanIWF (ofView v) ∧ Spec.Coherent (ofView v)) := by
  obtain ⟨h1, h2, h3⟩ := C11_interfaces
  exact ⟨fun f b hb => ⟨(Spec.ScanIWF_iff _).2 (h1 f b hb).1, (h1 f b hb).2⟩,
    fun v hk hsz => ⟨(Spec.ScanIWF_iff _).2 (h2 v hk hsz).1, (h2 v hk hsz).2⟩,
    fun v hk hsz hd => ⟨(Spec.ScanIWF_iff _).2 (h3 v hk hsz hd).1, (h3 v hk hsz hd).2⟩⟩

/-- the hypotheses on non-trivial instances: a PE32 and a PE32+ raw image, outside the fragment -/
example : WF devLastAlt = true ∧ InFragment devLastAlt = false ∧
    Spec.ScanIWF (ofRaw .pe32 #[0xbb, 0xbb, 0xcc]) ∧ Spec.Coherent (ofRaw .pe32 #[0xbb, 0xbb, 0xcc]) ∧
    Spec.ScanIWF (ofRaw .pe64 #[0xbb, 0xbb, 0xcc]) ∧ Spec.Coherent (ofRaw .pe64 #[0xbb, 0xbb, 0xcc]) :=
  ⟨by decide +kernel, by decide +kernel, (C11_interfaces_spec.1 _ _ (by decide)).1, (C11_interfaces_spec.1 _ _ (by decide)).2,
   (C11_interfaces_spec.1 _ _ (by decide)).1, (C11_interfaces_spec.1 _ _ (by decide)).2⟩

end Pelite.PatSem
