import PeliteModel.Model.Strings
import PeliteModel.Lemmas.IterSeq
/-! Specification side of C20, written from the property statement, not from the code. -/
namespace Pelite.Strings

/-- The documented printable set: TAB, LF, CR and space through tilde. -/
def specPrintable (b : Nat) : Bool := b == 9 || b == 10 || b == 13 || (0x20 ≤ b && b ≤ 0x7E)

/-- `f` is a maximal run of printable bytes of `bytes` that meets the minimum length for its
termination kind and the NUL policy; `hasNul` tells whether a NUL follows. -/
def Qualifies (bytes : Bytes) (cfg : Config) (f : Found) : Prop :=
  1 ≤ f.len ∧
  f.start + f.len ≤ bytes.size ∧
  (∀ j, f.start ≤ j → j < f.start + f.len → specPrintable (byteAt bytes j) = true) ∧
  (f.start = 0 ∨ specPrintable (byteAt bytes (f.start - 1)) = false) ∧
  ( (f.start + f.len < bytes.size ∧ byteAt bytes (f.start + f.len) = 0 ∧
        f.hasNul = true ∧ cfg.minLenNul ≤ f.len)
  ∨ (f.start + f.len < bytes.size ∧ byteAt bytes (f.start + f.len) ≠ 0 ∧
        specPrintable (byteAt bytes (f.start + f.len)) = false ∧
        f.hasNul = false ∧ cfg.strictNul = false ∧ cfg.minLen ≤ f.len)
  ∨ (f.start + f.len = bytes.size ∧
        f.hasNul = false ∧ cfg.strictNul = false ∧ cfg.minLen ≤ f.len) )

/-- executable reference: all qualifying maximal runs, by brute force over start positions
(used by the driver to print the specification's answer next to the model's).  That it lists exactly the runs that
`Qualifies`, in ascending order, and is the enumerator's answer for thresholds ≥ 1: `C20_specAll_exact`. -/
def runEnd (bytes : Bytes) (s : Nat) : Nat → Nat
  | 0 => s
  | fuel+1 => if s < bytes.size ∧ specPrintable (byteAt bytes s) then runEnd bytes (s+1) fuel else s

def specRunAt (bytes : Bytes) (cfg : Config) (s : Nat) : Option Found :=
  if s < bytes.size ∧ (s = 0 ∨ specPrintable (byteAt bytes (s-1)) = false) then
    let e := runEnd bytes s (bytes.size - s)
    let len := e - s
    if len = 0 then none
    else if e < bytes.size then
      if byteAt bytes e = 0 then (if cfg.minLenNul ≤ len then some ⟨s, len, true⟩ else none)
      else if !cfg.strictNul ∧ cfg.minLen ≤ len then some ⟨s, len, false⟩ else none
    else if !cfg.strictNul ∧ cfg.minLen ≤ len then some ⟨s, len, false⟩ else none
  else none

def specAll (bytes : Bytes) (cfg : Config) : List Found :=
  (List.range bytes.size).filterMap (specRunAt bytes cfg)

/-! ### the model's iterator in the vocabulary of the sequence specification (C18) -/
open Pelite.Seq

/-- one call on the model's enumerator (state = `self.offset`) -/
def stepOp (bytes : Bytes) (cfg : Config) (off : Nat) : Op → Res Found × Nat
  | .next => (.item (step bytes cfg off).1, (step bytes cfg off).2)
  | .nth n => (.item (nthFound bytes cfg off n).1, (nthFound bytes cfg off n).2)
  | .sizeHint => (.hint (sizeHintFound bytes cfg off).1 (sizeHintFound bytes cfg off).2, off)
  | .count => (.num (countFound bytes cfg off 0), off)     -- `it.clone().count()`
  | .clone => (.list (itemsFrom bytes cfg off), off)       -- `it = it.clone()`: same fields; its items

/-- the answers of a whole call history on the enumerator standing at `off` -/
def runOps (bytes : Bytes) (cfg : Config) : Nat → List Op → List (Res Found)
  | _, [] => []
  | off, o :: os => (stepOp bytes cfg off o).1 :: runOps bytes cfg (stepOp bytes cfg off o).2 os

/-- one call on the enumerator object over an arbitrary transition `nx` (Model/Strings.lean: `stepW`, `nthW`, `countW`,
`itemsW`; the provided `size_hint` is `(0, None)`) -/
def stepOpW (nx : Nat → Option (Found × Nat)) (fuel off : Nat) : Op → Out (Res Found × Nat)
  | .next => .ok (.item (stepW nx off).1, (stepW nx off).2)
  | .nth n => .ok (.item (nthW nx off n).1, (nthW nx off n).2)
  | .sizeHint => .ok (.hint 0 none, off)
  | .count => countW nx fuel off 0 >>= fun n => .ok (.num n, off)
  | .clone => itemsW nx fuel off >>= fun l => .ok (.list l, off)

/-- a whole call history on it -/
def runOpsW (nx : Nat → Option (Found × Nat)) (fuel : Nat) : Nat → List Op → Out (List (Res Found))
  | _, [] => .ok []
  | off, o :: os => stepOpW nx fuel off o >>= fun r => runOpsW nx fuel r.2 os >>= fun rs => .ok (r.1 :: rs)

end Pelite.Strings
