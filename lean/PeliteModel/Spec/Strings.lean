import PeliteModel.Model.Strings
import PeliteModel.Lemmas.IterSeq
/-! Specification side of C20, written from the property statement, not from the code. -/
namespace Pelite.Strings

/-- The documented printable set: TAB, LF, CR and space through tilde. -/
def specPrintable (b : Nat) : Bool := b == 9 || b == 10 || b == 13 || (0x20 ≤ b && b ≤ 0x7E)

/-- `f` is a maximal run of printable bytes of `bytes` that meets the minimum length for its
termination kind and the NUL policy; `hasNul` tells whether a NUL follows. -/
def Qualifies (bytes : Bytes) (cfg : Config) (f : Found) : Prop :=
  1 ≤ f.len ∧
  f.start + f.len ≤ bytes.size ∧
  (∀ j, f.start ≤ j → j < f.start + f.len → specPrintable (byteAt bytes j) = true) ∧
  (f.start = 0 ∨ specPrintable (byteAt bytes (f.start - 1)) = false) ∧
  ( (f.start + f.len < bytes.size ∧ byteAt bytes (f.start + f.len) = 0 ∧
        f.hasNul = true ∧ cfg.minLenNul ≤ f.len)
  ∨ (f.start + f.len < bytes.size ∧ byteAt bytes (f.start + f.len) ≠ 0 ∧
        specPrintable (byteAt bytes (f.start + f.len)) = false ∧
        f.hasNul = false ∧ cfg.strictNul = false ∧ cfg.minLen ≤ f.len)
  ∨ (f.start + f.len = bytes.size ∧
        f.hasNul = false ∧ cfg.strictNul = false ∧ cfg.minLen ≤ f.len) )

/-- executable reference: all qualifying maximal runs, by brute force over start positions
(used by the driver to print the specification's answer next to the model's). -/
def runEnd (bytes : Bytes) (s : Nat) : Nat → Nat
  | 0 => s
  | fuel+1 => if s < bytes.size ∧ specPrintable (byteAt bytes s) then runEnd bytes (s+1) fuel else s

def specRunAt (bytes : Bytes) (cfg : Config) (s : Nat) : Option Found :=
  if s < bytes.size ∧ (s = 0 ∨ specPrintable (byteAt bytes (s-1)) = false) then
    let e := runEnd bytes s (bytes.size - s)
    let len := e - s
    if len = 0 then none
    else if e < bytes.size then
      if byteAt bytes e = 0 then (if cfg.minLenNul ≤ len then some ⟨s, len, true⟩ else none)
      else if !cfg.strictNul ∧ cfg.minLen ≤ len then some ⟨s, len, false⟩ else none
    else if !cfg.strictNul ∧ cfg.minLen ≤ len then some ⟨s, len, false⟩ else none
  else none

def specAll (bytes : Bytes) (cfg : Config) : List Found :=
  (List.range bytes.size).filterMap (specRunAt bytes cfg)

/-! ### the model's iterator in the vocabulary of the sequence specification (C18) -/
open Pelite.Seq

/-- one call on the model's enumerator (state = `self.offset`) -/
def stepOp (bytes : Bytes) (cfg : Config) (off : Nat) : Op → Res Found × Nat
  | .next => (.item (step bytes cfg off).1, (step bytes cfg off).2)
  | .nth n => (.item (nthFound bytes cfg off n).1, (nthFound bytes cfg off n).2)
  | .sizeHint => (.hint (sizeHintFound bytes cfg off).1 (sizeHintFound bytes cfg off).2, off)
  | .count => (.num (countFound bytes cfg off 0), off)     -- `it.clone().count()`
  | .clone => (.list (itemsFrom bytes cfg off), off)       -- `it = it.clone()`: same fields; its items

/-- the answers of a whole call history on the enumerator standing at `off` -/
def runOps (bytes : Bytes) (cfg : Config) : Nat → List Op → List (Res Found)
  | _, [] => []
  | off, o :: os => (stepOp bytes cfg off o).1 :: runOps bytes cfg (stepOp bytes cfg off o).2 os

end Pelite.Strings
