import PeliteModel.Model.Strings
/-! Specification side of C20, written from the property statement, not from the code. -/
namespace Pelite.Strings

/-- The documented printable set: TAB, LF, CR and space through tilde. -/
def specPrintable (b : Nat) : Bool := b == 9 || b == 10 || b == 13 || (0x20 ≤ b && b ≤ 0x7E)

/-- `f` is a maximal run of printable bytes of `bytes` that meets the minimum length for its
termination kind and the NUL policy; `hasNul` tells whether a NUL follows. -/
def Qualifies (bytes : Bytes) (cfg : Config) (f : Found) : Prop :=
  1 ≤ f.len ∧
  f.start + f.len ≤ bytes.size ∧
  (∀ j, f.start ≤ j → j < f.start + f.len → specPrintable (byteAt bytes j) = true) ∧
  (f.start = 0 ∨ specPrintable (byteAt bytes (f.start - 1)) = false) ∧
  ( (f.start + f.len < bytes.size ∧ byteAt bytes (f.start + f.len) = 0 ∧
        f.hasNul = true ∧ cfg.minLenNul ≤ f.len)
  ∨ (f.start + f.len < bytes.size ∧ byteAt bytes (f.start + f.len) ≠ 0 ∧
        specPrintable (byteAt bytes (f.start + f.len)) = false ∧
        f.hasNul = false ∧ cfg.strictNul = false ∧ cfg.minLen ≤ f.len)
  ∨ (f.start + f.len = bytes.size ∧
        f.hasNul = false ∧ cfg.strictNul = false ∧ cfg.minLen ≤ f.len) )

/-- executable reference: all qualifying maximal runs, by brute force over start positions
(used by the driver to print the specification's answer next to the model's). -/
def runEnd (bytes : Bytes) (s : Nat) : Nat → Nat
  | 0 => s
  | fuel+1 => if s < bytes.size ∧ specPrintable (byteAt bytes s) then runEnd bytes (s+1) fuel else s

def specRunAt (bytes : Bytes) (cfg : Config) (s : Nat) : Option Found :=
  if s < bytes.size ∧ (s = 0 ∨ specPrintable (byteAt bytes (s-1)) = false) then
    let e := runEnd bytes s (bytes.size - s)
    let len := e - s
    if len = 0 then none
    else if e < bytes.size then
      if byteAt bytes e = 0 then (if cfg.minLenNul ≤ len then some ⟨s, len, true⟩ else none)
      else if !cfg.strictNul ∧ cfg.minLen ≤ len then some ⟨s, len, false⟩ else none
    else if !cfg.strictNul ∧ cfg.minLen ≤ len then some ⟨s, len, false⟩ else none
  else none

def specAll (bytes : Bytes) (cfg : Config) : List Found :=
  (List.range bytes.size).filterMap (specRunAt bytes cfg)

end Pelite.Strings
