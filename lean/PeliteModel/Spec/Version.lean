/-!
Specification side of C13, written from Microsoft's description of the VS_VERSIONINFO resource
(VS_VERSIONINFO / StringFileInfo / StringTable / String / VarFileInfo / Var), not from the code.

Every structure of the resource has the same shape

    WORD  wLength;        // length of the structure in bytes, children included, trailing padding excluded
    WORD  wValueLength;   // size of Value: in WORDS for text (wType = 1), in BYTES for binary (wType = 0)
    WORD  wType;          // 1 = text, 0 = binary
    WCHAR szKey[];        // NUL terminated
    WORD  Padding1[];     // zero words up to a 32-bit boundary
    ...   Value;
    WORD  Padding2[];     // zero words up to a 32-bit boundary
    ...   Children[];     // each child starts on a 32-bit boundary

`Node` is that shape, `encode` the reference writer.  `VInfo` is the abstract content of a version
resource, `VInfo.node` its documented arrangement, and `fixed` / `translations` / `strings` /
`eventsOf` what a reader has to report.  Words are `Nat` (u16 values).
-/
namespace Pelite.Version.Spec

/-- One structure of the resource. -/
inductive Node where
  | mk (key : List Nat) (value : List Nat) (text : Bool) (children : List Node)

/-- zero words that bring an offset of `n` words to a 32-bit boundary -/
def pad (n : Nat) : List Nat := List.replicate (n % 2) 0

/-- One structure around its already written children `body`.
`tight` selects the convention for a structure that has neither a value nor children: `true` ends
it right after the key's terminator (wLength excludes all padding, as it does after a value or after
the last child), `false` keeps Padding1 inside the structure. -/
def encNode (tight : Bool) (key value : List Nat) (text : Bool) (body : List Nat) : List Nat :=
  let head := key ++ [0]
  let hlen := 3 + head.length
  let valueLength := if text then value.length else 2 * value.length
  let wType := if text then 1 else 0
  let tail :=
    if value.isEmpty && body.isEmpty then (if tight then [] else pad hlen)
    else pad hlen ++ value ++ (if body.isEmpty then [] else pad value.length ++ body)
  [2 * (hlen + tail.length), valueLength, wType] ++ head ++ tail

/-- Siblings one after the other, each on a 32-bit boundary (padding between them only). -/
def encSiblings : List (List Nat) → List Nat
  | [] => []
  | n :: ns => n ++ (if ns.isEmpty then [] else pad n.length ++ encSiblings ns)

mutual
/-- the reference writer -/
def encode (tight : Bool) : Node → List Nat
  | .mk key value text children => encNode tight key value text (encodeList tight children)
def encodeList (tight : Bool) : List Node → List Nat
  | [] => []
  | n :: ns => encode tight n ++ (if ns.isEmpty then [] else pad (encode tight n).length ++ encodeList tight ns)
end

/-! ### abstract content -/

/-- `String`: key and the stored value (text; by convention it ends with a NUL, which is not part
of the value; the writer stores whatever it is given, also nothing at all). -/
structure VStr where
  key : List Nat
  stored : List Nat
  deriving DecidableEq, Repr

/-- `StringTable`: the 8 hex digit language/codepage key and its strings -/
structure VTable where
  lang : List Nat
  strings : List VStr
  deriving DecidableEq, Repr

/-- `Var`: key (documented: "Translation") and its binary value (language, codepage pairs) -/
structure VVar where
  key : List Nat
  value : List Nat
  deriving DecidableEq, Repr

inductive VBlock where
  | stringInfo (tables : List VTable)
  | varInfo (vars : List VVar)
  deriving DecidableEq, Repr

/-- `VS_VERSIONINFO`: key (documented: "VS_VERSION_INFO"), binary value (documented: the 52 bytes
of VS_FIXEDFILEINFO, or nothing) and the blocks in stored order. -/
structure VInfo where
  key : List Nat
  value : List Nat
  blocks : List VBlock
  deriving DecidableEq, Repr

def ofString (s : String) : List Nat := s.toList.map Char.toNat

def kStringFileInfo : List Nat := ofString "StringFileInfo"
def kVarFileInfo : List Nat := ofString "VarFileInfo"
def kTranslation : List Nat := ofString "Translation"

def VStr.node (s : VStr) : Node := .mk s.key s.stored true []
def VTable.node (t : VTable) : Node := .mk t.lang [] true (t.strings.map VStr.node)
def VVar.node (v : VVar) : Node := .mk v.key v.value false []
def VBlock.node : VBlock → Node
  | .stringInfo ts => .mk kStringFileInfo [] true (ts.map VTable.node)
  | .varInfo vs => .mk kVarFileInfo [] true (vs.map VVar.node)
def VInfo.node (v : VInfo) : Node := .mk v.key v.value false (v.blocks.map VBlock.node)

/-- the words of the resource -/
def VInfo.encode (tight : Bool) (v : VInfo) : List Nat := Spec.encode tight v.node

/-- a stored text value without its terminating NUL (one NUL, if there is one) -/
def stripTerminator (v : List Nat) : List Nat :=
  match v.reverse with
  | 0 :: r => r.reverse
  | _ => v

/-- the fixed file info: present iff the root value is the 52 bytes of VS_FIXEDFILEINFO -/
def VInfo.fixed (v : VInfo) : Option (List Nat) := if v.value.length = 26 then some v.value else none

def VTable.triples (t : VTable) : List (List Nat × List Nat × List Nat) :=
  t.strings.map fun s => (t.lang, s.key, stripTerminator s.stored)

def VBlock.triples : VBlock → List (List Nat × List Nat × List Nat)
  | .stringInfo ts => ts.flatMap VTable.triples
  | .varInfo _ => []

/-- every (language, key, value) in stored order -/
def VInfo.strings (v : VInfo) : List (List Nat × List Nat × List Nat) := v.blocks.flatMap VBlock.triples

/-- (language, codepage) pairs of a Var value -/
def pairs : List Nat → List (Nat × Nat)
  | a :: b :: rest => (a, b) :: pairs rest
  | _ => []

def VBlock.translationVars : VBlock → List (List Nat)
  | .stringInfo _ => []
  | .varInfo vs => (vs.filter fun x => x.key = kTranslation).map (·.value)

/-- all Translation values in stored order (the documented layout has exactly one) -/
def VInfo.translationVars (v : VInfo) : List (List Nat) := v.blocks.flatMap VBlock.translationVars

/-- the translation list -/
def VInfo.translations (v : VInfo) : List (Nat × Nat) :=
  match v.translationVars.getLast? with
  | some x => pairs x
  | none => []

/-- what a visitor of the resource is told, in order (contents only) -/
inductive SEvent where
  | versionInfo (key : List Nat) (fixed : Option (List Nat))
  | fileInfo (key : List Nat)
  | stringTable (lang : List Nat)
  | string (key value : List Nat)
  | var (key value : List Nat)
  | enter (depth : Nat)
  | exit (depth : Nat)
  deriving DecidableEq, Repr

def VTable.events (t : VTable) : List SEvent :=
  [.stringTable t.lang, .enter 2] ++ t.strings.map (fun s => .string s.key (stripTerminator s.stored)) ++ [.exit 2]

def VBlock.events : VBlock → List SEvent
  | .stringInfo ts => [.fileInfo kStringFileInfo, .enter 1] ++ ts.flatMap VTable.events ++ [.exit 1]
  | .varInfo vs => [.fileInfo kVarFileInfo, .enter 1] ++ vs.map (fun x => .var x.key x.value) ++ [.exit 1]

def VInfo.events (v : VInfo) : List SEvent :=
  [.versionInfo v.key v.fixed, .enter 0] ++ v.blocks.flatMap VBlock.events ++ [.exit 0]

/-- reading an event list: remember the string table last seen, file every string under it -/
def triplesStep (st : List Nat × List (List Nat × List Nat × List Nat)) :
    SEvent → List Nat × List (List Nat × List Nat × List Nat)
  | .stringTable l => (l, st.2)
  | .string k v => (st.1, st.2 ++ [(st.1, k, v)])
  | _ => st

/-- the (language, key, value) triples an event list reports: each string under the string
table that precedes it -/
def triples (es : List SEvent) : List (List Nat × List Nat × List Nat) := (es.foldl triplesStep ([], [])).2

def translationOf : SEvent → Option (List Nat)
  | .var k v => if k = kTranslation then some v else none
  | _ => none

/-- the Translation values an event list reports -/
def translationValues (es : List SEvent) : List (List Nat) := es.filterMap translationOf

/-! ### well-formedness (decidable) -/

/-- a key can be written: it contains no NUL -/
def keyOk (k : List Nat) : Bool := k.all (· != 0)

def VStr.wf (s : VStr) : Bool := keyOk s.key
def VTable.wf (t : VTable) : Bool := keyOk t.lang && t.strings.all VStr.wf
def VVar.wf (x : VVar) : Bool := keyOk x.key
def VBlock.wf : VBlock → Bool
  | .stringInfo ts => ts.all VTable.wf
  | .varInfo vs => vs.all VVar.wf
def VInfo.wf (v : VInfo) : Bool := keyOk v.key && v.blocks.all VBlock.wf

/-- every word the writer emits is a u16: content words are, and the root's length fits
(all other length fields are smaller) -/
def VInfo.fits (tight : Bool) (v : VInfo) : Bool := 2 * (v.encode tight).length < 65536

/-- the content words are u16 values -/
def u16s (l : List Nat) : Bool := l.all (· < 65536)
def VStr.u16 (s : VStr) : Bool := u16s s.key && u16s s.stored
def VTable.u16 (t : VTable) : Bool := u16s t.lang && t.strings.all VStr.u16
def VVar.u16 (x : VVar) : Bool := u16s x.key && u16s x.value
def VBlock.u16 : VBlock → Bool
  | .stringInfo ts => ts.all VTable.u16
  | .varInfo vs => vs.all VVar.u16
def VInfo.u16 (v : VInfo) : Bool := u16s v.key && u16s v.value && v.blocks.all VBlock.u16

/-! ### language keys -/

def hexDigitVal (c : Nat) : Option Nat :=
  if 48 ≤ c ∧ c ≤ 57 then some (c - 48)
  else if 65 ≤ c ∧ c ≤ 70 then some (c - 55)
  else if 97 ≤ c ∧ c ≤ 102 then some (c - 87)
  else none

/-- value of a big-endian hex numeral -/
def hexNumeral : List Nat → Option Nat
  | [] => some 0
  | cs => cs.foldl (fun acc c => match acc, hexDigitVal c with
      | some a, some d => some (a * 16 + d)
      | _, _ => none) (some 0)

/-- a StringTable key "LLLLCCCC": language id and codepage -/
def langOfKey (k : List Nat) : Option (Nat × Nat) :=
  if k.length = 8 then
    match hexNumeral (k.take 4), hexNumeral (k.drop 4) with
    | some l, some c => some (l, c)
    | _, _ => none
  else none

end Pelite.Version.Spec
