/-!
Specification side of C13, written from Microsoft's description of the VS_VERSIONINFO resource
(VS_VERSIONINFO / StringFileInfo / StringTable / String / VarFileInfo / Var), not from the code.

Every structure of the resource has the same shape

    WORD  wLength;        // length of the structure in bytes, children included, trailing padding excluded
    WORD  wValueLength;   // size of Value: in WORDS for text (wType = 1), in BYTES for binary (wType = 0)
    WORD  wType;          // 1 = text, 0 = binary
    WCHAR szKey[];        // NUL terminated
    WORD  Padding1[];     // zero words up to a 32-bit boundary
    ...   Value;
    WORD  Padding2[];     // zero words up to a 32-bit boundary
    ...   Children[];     // each child starts on a 32-bit boundary

`Node` is that shape, `encode` the reference writer.  `VInfo` is the abstract content of a version
resource, `VInfo.node` its documented arrangement, and `fixed` / `translations` / `strings` /
`eventsOf` what a reader has to report.  Words are `Nat` (u16 values).
-/
namespace Pelite.Version.Spec

/-- One structure of the resource. -/
inductive Node where
  | mk (key : List Nat) (value : List Nat) (text : Bool) (children : List Node)

/-- zero words that bring an offset of `n` words to a 32-bit boundary -/
def pad (n : Nat) : List Nat := List.replicate (n % 2) 0

/-- One structure around its already written children `body`.
`tight` selects the convention for a structure that has neither a value nor children: `true` ends
it right after the key's terminator (wLength excludes all padding, as it does after a value or after
the last child), `false` keeps Padding1 inside the structure. -/
def encNode (tight : Bool) (key value : List Nat) (text : Bool) (body : List Nat) : List Nat :=
  let head := key ++ [0]
  let hlen := 3 + head.length
  let valueLength := if text then value.length else 2 * value.length
  let wType := if text then 1 else 0
  let tail :=
    if value.isEmpty && body.isEmpty then (if tight then [] else pad hlen)
    else pad hlen ++ value ++ (if body.isEmpty then [] else pad value.length ++ body)
  [2 * (hlen + tail.length), valueLength, wType] ++ head ++ tail

/-- Siblings one after the other, each on a 32-bit boundary (padding between them only). -/
def encSiblings : List (List Nat) → List Nat
  | [] => []
  | n :: ns => n ++ (if ns.isEmpty then [] else pad n.length ++ encSiblings ns)

mutual
/-- the reference writer -/
def encode (tight : Bool) : Node → List Nat
  | .mk key value text children => encNode tight key value text (encodeList tight children)
def encodeList (tight : Bool) : List Node → List Nat
  | [] => []
  | n :: ns => encode tight n ++ (if ns.isEmpty then [] else pad (encode tight n).length ++ encodeList tight ns)
end

/-- a key can be written: it contains no NUL -/
def keyOk (k : List Nat) : Bool := k.all (· != 0)

/-! ### the documented layout as a relation

`encode` is one writer.  The documented layout leaves choices open: the contents of the padding
words, whether a structure without value and children ends right after its key (`tight`) or keeps
Padding1, whether padding follows a value that ends its structure or the last child of a structure,
and `wType` is not needed to read the structure back.  `IsNode n ws` says that the words `ws` (exactly
`wLength` bytes) are *a* layout of the structure `n` under any of these choices, made per structure. -/

mutual
def IsNode : Node → List Nat → Prop
  | .mk key value text children, ws =>
    ∃ (wType : Nat) (p1 p2 body : List Nat),
      keyOk key = true ∧ IsNodes children body ∧
      -- Padding1 brings the value to a 32-bit boundary; a structure with neither value nor children may omit it
      (p1.length = key.length % 2 ∨ (p1 = [] ∧ value = [] ∧ body = [])) ∧
      -- Padding2 brings the children to a 32-bit boundary; without children it may be omitted
      (p2.length = value.length % 2 ∨ (p2 = [] ∧ body = [])) ∧
      ws = [2 * (4 + key.length + p1.length + value.length + p2.length + body.length),
            (if text then value.length else 2 * value.length), wType]
           ++ key ++ [0] ++ p1 ++ value ++ p2 ++ body
/-- siblings: each starts on a 32-bit boundary; the padding after the last one may be omitted -/
def IsNodes : List Node → List Nat → Prop
  | [], ws => ws = []
  | n :: ns, ws =>
    ∃ (w pad rest : List Nat), IsNode n w ∧ IsNodes ns rest ∧
      (pad.length = w.length % 2 ∨ (pad = [] ∧ ns = [])) ∧ ws = w ++ pad ++ rest
end

/-! ### abstract content -/

/-- `String`: key and the stored value (text; by convention it ends with a NUL, which is not part
of the value; the writer stores whatever it is given, also nothing at all). -/
structure VStr where
  key : List Nat
  stored : List Nat
  deriving DecidableEq, Repr

/-- `StringTable`: the 8 hex digit language/codepage key and its strings -/
structure VTable where
  lang : List Nat
  strings : List VStr
  deriving DecidableEq, Repr

/-- `Var`: key (documented: "Translation") and its binary value (language, codepage pairs) -/
structure VVar where
  key : List Nat
  value : List Nat
  deriving DecidableEq, Repr

inductive VBlock where
  | stringInfo (tables : List VTable)
  | varInfo (vars : List VVar)
  deriving DecidableEq, Repr

/-- `VS_VERSIONINFO`: key (documented: "VS_VERSION_INFO"), binary value (documented: the 52 bytes
of VS_FIXEDFILEINFO, or nothing) and the blocks in stored order. -/
structure VInfo where
  key : List Nat
  value : List Nat
  blocks : List VBlock
  deriving DecidableEq, Repr

def ofString (s : String) : List Nat := s.toList.map Char.toNat

def kStringFileInfo : List Nat := ofString "StringFileInfo"
def kVarFileInfo : List Nat := ofString "VarFileInfo"
def kTranslation : List Nat := ofString "Translation"

def VStr.node (s : VStr) : Node := .mk s.key s.stored true []
def VTable.node (t : VTable) : Node := .mk t.lang [] true (t.strings.map VStr.node)
def VVar.node (v : VVar) : Node := .mk v.key v.value false []
def VBlock.node : VBlock → Node
  | .stringInfo ts => .mk kStringFileInfo [] true (ts.map VTable.node)
  | .varInfo vs => .mk kVarFileInfo [] true (vs.map VVar.node)
def VInfo.node (v : VInfo) : Node := .mk v.key v.value false (v.blocks.map VBlock.node)

/-- the words of the resource -/
def VInfo.encode (tight : Bool) (v : VInfo) : List Nat := Spec.encode tight v.node

/-- `ws` is a version resource block with content `v`: it starts with a layout of the root
structure (any of the documented choices, per structure); what follows the root is not part of
the resource. -/
def VInfo.IsBlock (v : VInfo) (ws : List Nat) : Prop := ∃ root tl, IsNode v.node root ∧ ws = root ++ tl

/-- a stored text value without its terminating NUL (one NUL, if there is one) -/
def stripTerminator (v : List Nat) : List Nat :=
  match v.reverse with
  | 0 :: r => r.reverse
  | _ => v

/-- the fixed file info: present iff the root value is the 52 bytes of VS_FIXEDFILEINFO -/
def VInfo.fixed (v : VInfo) : Option (List Nat) := if v.value.length = 26 then some v.value else none

def VTable.triples (t : VTable) : List (List Nat × List Nat × List Nat) :=
  t.strings.map fun s => (t.lang, s.key, stripTerminator s.stored)

def VBlock.triples : VBlock → List (List Nat × List Nat × List Nat)
  | .stringInfo ts => ts.flatMap VTable.triples
  | .varInfo _ => []

/-- every (language, key, value) in stored order -/
def VInfo.strings (v : VInfo) : List (List Nat × List Nat × List Nat) := v.blocks.flatMap VBlock.triples

/-- (language, codepage) pairs of a Var value -/
def pairs : List Nat → List (Nat × Nat)
  | a :: b :: rest => (a, b) :: pairs rest
  | _ => []

def VBlock.translationVars : VBlock → List (List Nat)
  | .stringInfo _ => []
  | .varInfo vs => (vs.filter fun x => x.key = kTranslation).map (·.value)

/-- all Translation values in stored order (the documented layout has exactly one) -/
def VInfo.translationVars (v : VInfo) : List (List Nat) := v.blocks.flatMap VBlock.translationVars

/-- the translation list -/
def VInfo.translations (v : VInfo) : List (Nat × Nat) :=
  match v.translationVars.getLast? with
  | some x => pairs x
  | none => []

/-- what a visitor of the resource is told, in order (contents only) -/
inductive SEvent where
  | versionInfo (key : List Nat) (fixed : Option (List Nat))
  | fileInfo (key : List Nat)
  | stringTable (lang : List Nat)
  | string (key value : List Nat)
  | var (key value : List Nat)
  | enter (depth : Nat)
  | exit (depth : Nat)
  deriving DecidableEq, Repr

def VTable.events (t : VTable) : List SEvent :=
  [.stringTable t.lang, .enter 2] ++ t.strings.map (fun s => .string s.key (stripTerminator s.stored)) ++ [.exit 2]

def VBlock.events : VBlock → List SEvent
  | .stringInfo ts => [.fileInfo kStringFileInfo, .enter 1] ++ ts.flatMap VTable.events ++ [.exit 1]
  | .varInfo vs => [.fileInfo kVarFileInfo, .enter 1] ++ vs.map (fun x => .var x.key x.value) ++ [.exit 1]

def VInfo.events (v : VInfo) : List SEvent :=
  [.versionInfo v.key v.fixed, .enter 0] ++ v.blocks.flatMap VBlock.events ++ [.exit 0]

/-- reading an event list: remember the string table last seen, file every string under it -/
def triplesStep (st : List Nat × List (List Nat × List Nat × List Nat)) :
    SEvent → List Nat × List (List Nat × List Nat × List Nat)
  | .stringTable l => (l, st.2)
  | .string k v => (st.1, st.2 ++ [(st.1, k, v)])
  | _ => st

/-- the (language, key, value) triples an event list reports: each string under the string
table that precedes it -/
def triples (es : List SEvent) : List (List Nat × List Nat × List Nat) := (es.foldl triplesStep ([], [])).2

def translationOf : SEvent → Option (List Nat)
  | .var k v => if k = kTranslation then some v else none
  | _ => none

/-- the Translation values an event list reports -/
def translationValues (es : List SEvent) : List (List Nat) := es.filterMap translationOf

/-! ### well-formedness (decidable) -/

def VStr.wf (s : VStr) : Bool := keyOk s.key
def VTable.wf (t : VTable) : Bool := keyOk t.lang && t.strings.all VStr.wf
def VVar.wf (x : VVar) : Bool := keyOk x.key
def VBlock.wf : VBlock → Bool
  | .stringInfo ts => ts.all VTable.wf
  | .varInfo vs => vs.all VVar.wf
def VInfo.wf (v : VInfo) : Bool := keyOk v.key && v.blocks.all VBlock.wf

/-- every word the writer emits is a u16: content words are, and the root's length fits
(all other length fields are smaller) -/
def VInfo.fits (tight : Bool) (v : VInfo) : Bool := 2 * (v.encode tight).length < 65536

/-- the content words are u16 values -/
def u16s (l : List Nat) : Bool := l.all (· < 65536)
def VStr.u16 (s : VStr) : Bool := u16s s.key && u16s s.stored
def VTable.u16 (t : VTable) : Bool := u16s t.lang && t.strings.all VStr.u16
def VVar.u16 (x : VVar) : Bool := u16s x.key && u16s x.value
def VBlock.u16 : VBlock → Bool
  | .stringInfo ts => ts.all VTable.u16
  | .varInfo vs => vs.all VVar.u16
def VInfo.u16 (v : VInfo) : Bool := u16s v.key && u16s v.value && v.blocks.all VBlock.u16

/-! ### deciding the layout relation

`IsNode` quantifies over the choices; given the abstract structure they can be read off the words.
`isNodeB` / `isNodesB` do that (the children through a checker for the level below),
`VInfo.isBlockB` is the resulting test for a whole block.  Sound for the relation
(`Lemmas/VersionLayout.lean: isBlockB_sound`), so it can serve as its decidable form. -/

/-- `ws = pre ++ rest`? -/
def stripPrefix (pre ws : List Nat) : Option (List Nat) :=
  if ws.take pre.length = pre then some (ws.drop pre.length) else none

/-- are `ws` a layout of a structure with this key, value and type, its children accepted by `bodyOk`? -/
def isNodeB (key value : List Nat) (text : Bool) (bodyOk : List Nat → Bool) (ws : List Nat) : Bool :=
  match ws with
  | wLength :: vLength :: _wType :: rest =>
    wLength == 2 * ws.length && vLength == (if text then value.length else 2 * value.length) && keyOk key &&
    match stripPrefix (key ++ [0]) rest with
    | none => false
    | some after =>
      -- neither value nor children and Padding1 omitted
      (after.isEmpty && value.isEmpty && bodyOk []) ||
      -- Padding1, the value, then either nothing, or Padding2 and the children
      (decide (key.length % 2 ≤ after.length) &&
       match stripPrefix value (after.drop (key.length % 2)) with
       | none => false
       | some after2 =>
         (after2.isEmpty && bodyOk []) ||
         (decide (value.length % 2 ≤ after2.length) && bodyOk (after2.drop (value.length % 2))))
  | _ => false

/-- are `ws` a layout of siblings, the i-th accepted by the i-th checker? -/
def isNodesB : List (List Nat → Bool) → List Nat → Bool
  | [], ws => ws.isEmpty
  | c :: cs, ws =>
    let n := ws.headD 0 / 2
    decide (n ≤ ws.length) && c (ws.take n) &&
    (if cs.isEmpty then (ws.drop n).isEmpty || decide ((ws.drop n).length = n % 2)
     else decide (n % 2 ≤ (ws.drop n).length) && isNodesB cs ((ws.drop n).drop (n % 2)))

def VStr.isB (s : VStr) : List Nat → Bool := isNodeB s.key s.stored true (isNodesB [])
def VTable.isB (t : VTable) : List Nat → Bool := isNodeB t.lang [] true (isNodesB (t.strings.map VStr.isB))
def VVar.isB (x : VVar) : List Nat → Bool := isNodeB x.key x.value false (isNodesB [])
def VBlock.isB : VBlock → List Nat → Bool
  | .stringInfo ts => isNodeB kStringFileInfo [] true (isNodesB (ts.map VTable.isB))
  | .varInfo vs => isNodeB kVarFileInfo [] true (isNodesB (vs.map VVar.isB))
def VInfo.isRootB (v : VInfo) : List Nat → Bool := isNodeB v.key v.value false (isNodesB (v.blocks.map VBlock.isB))

/-- does the block start with a layout of `v`'s root structure (of the length its `wLength` says)? -/
def VInfo.isBlockB (v : VInfo) (ws : List Nat) : Bool :=
  decide (ws.headD 0 / 2 ≤ ws.length) && v.isRootB (ws.take (ws.headD 0 / 2))

/-! ### language keys -/

def hexDigitVal (c : Nat) : Option Nat :=
  if 48 ≤ c ∧ c ≤ 57 then some (c - 48)
  else if 65 ≤ c ∧ c ≤ 70 then some (c - 55)
  else if 97 ≤ c ∧ c ≤ 102 then some (c - 87)
  else none

/-- value of a big-endian hex numeral -/
def hexNumeral : List Nat → Option Nat
  | [] => some 0
  | cs => cs.foldl (fun acc c => match acc, hexDigitVal c with
      | some a, some d => some (a * 16 + d)
      | _, _ => none) (some 0)

/-- a StringTable key "LLLLCCCC": language id and codepage -/
def langOfKey (k : List Nat) : Option (Nat × Nat) :=
  if k.length = 8 then
    match hexNumeral (k.take 4), hexNumeral (k.drop 4) with
    | some l, some c => some (l, c)
    | _, _ => none
  else none

/-! ### text (UTF-16, from the Unicode standard)

A code unit in D800..DBFF (high surrogate) followed by one in DC00..DFFF (low surrogate) encodes
the scalar value `0x10000 + (high - 0xD800) * 0x400 + (low - 0xDC00)`; every other code unit
outside D800..DFFF encodes itself; a surrogate that is not part of such a pair is ill-formed and
is read as U+FFFD REPLACEMENT CHARACTER.  Text is the list of scalar values. -/

def isHigh (u : Nat) : Bool := 0xD800 ≤ u && u ≤ 0xDBFF
def isLow (u : Nat) : Bool := 0xDC00 ≤ u && u ≤ 0xDFFF

/-- the text of a list of UTF-16 code units (ill-formed units replaced) -/
def text : List Nat → List Nat
  | [] => []
  | [u] => [if isHigh u || isLow u then 0xFFFD else u]
  | u :: u2 :: rest =>
    if isHigh u && isLow u2 then (0x10000 + (u - 0xD800) * 0x400 + (u2 - 0xDC00)) :: text rest
    else (if isHigh u || isLow u then 0xFFFD else u) :: text (u2 :: rest)

/-- well-formed UTF-16: every surrogate is part of a high, low pair -/
def wellFormed16 : List Nat → Bool
  | [] => true
  | [u] => !(isHigh u || isLow u)
  | u :: u2 :: rest =>
    if isHigh u && isLow u2 then wellFormed16 rest
    else !(isHigh u || isLow u) && wellFormed16 (u2 :: rest)

/-! ### what the queries answer (from the abstract content)

A language is the pair (language id, codepage) that a string table's key "LLLLCCCC" names
(`langOfKey`); keys and values are reported as text. -/

/-- all string tables in stored order -/
def VBlock.tables : VBlock → List VTable
  | .stringInfo ts => ts
  | .varInfo _ => []
def VInfo.tables (v : VInfo) : List VTable := v.blocks.flatMap VBlock.tables

/-- the (key, value) pairs of one table as text, in stored order, values without their terminator -/
def VTable.entries (t : VTable) : List (List Nat × List Nat) :=
  t.strings.map fun s => (text s.key, text (stripTerminator s.stored))

/-- `fixed()`: the 26 words of VS_FIXEDFILEINFO, if present -/
def fixedInfoOf (v : VInfo) : Option (List Nat) := v.fixed

/-- `translation()`: the (language, codepage) pairs of the Translation var -/
def translationsOf (v : VInfo) : List (Nat × Nat) := v.translations

/-- `strings(lang)`: every (key, value) of the tables that name `lang`, in stored order -/
def stringsOf (v : VInfo) (lang : Nat × Nat) : List (List Nat × List Nat) :=
  (v.tables.filter fun t => langOfKey t.lang = some lang).flatMap VTable.entries

/-- `value(lang, key)`: the value stored under `key` in the tables that name `lang`, `none` when
there is none (when the key is stored more than once: the last one; the documented layout stores
each key once per language, see `keysDistinct`) -/
def valueOf (v : VInfo) (lang : Nat × Nat) (key : List Nat) : Option (List Nat) :=
  ((stringsOf v lang).filter fun e => e.1 = key).getLast?.map (·.2)

/-- `file_info().strings`: one map per string table, keyed by the language the table names -/
def stringMapsOf (v : VInfo) : List ((Nat × Nat) × List (List Nat × List Nat)) :=
  v.tables.filterMap fun t => (langOfKey t.lang).map fun l => (l, t.entries)

/-! ### side conditions of the query theorems (decidable) -/

def distinct {α : Type} [DecidableEq α] : List α → Bool
  | [] => true
  | a :: l => !l.contains a && distinct l

/-- every string table key is 8 hex digits (names a language) -/
def VInfo.langKeysOk (v : VInfo) : Bool := v.tables.all fun t => (langOfKey t.lang).isSome
/-- every string key is well-formed UTF-16 (`value` compares keys exactly, the other queries read them as text) -/
def VInfo.keysValid (v : VInfo) : Bool := v.tables.all fun t => t.strings.all fun s => wellFormed16 s.key
/-- no two string tables name the same language -/
def VInfo.langsDistinct (v : VInfo) : Bool := distinct (v.tables.map fun t => langOfKey t.lang)
/-- within a table no two keys are the same text -/
def VInfo.keysDistinct (v : VInfo) : Bool := v.tables.all fun t => distinct (t.strings.map fun s => text s.key)

/-- under these conditions all string queries are determined by the abstract content alone -/
def VInfo.queriesDetermined (v : VInfo) : Bool :=
  v.langKeysOk && v.keysValid && v.langsDistinct && v.keysDistinct

/-! ### the source-code rendering

`VersionInfo::source_code`: "Renders the version info back into its source code form" — the
VERSIONINFO resource-definition statement of the resource compiler (Microsoft: "VERSIONINFO resource"),
one line per statement, nested blocks indented by two spaces:

    1 VERSIONINFO
    FILEVERSION 22, 607, 2013, 25        HIWORD, LOWORD of dwFileVersionMS, HIWORD, LOWORD of dwFileVersionLS
    PRODUCTVERSION 22, 607, 2013, 25     the same of dwProductVersionMS / LS
    FILEFLAGSMASK 0x3f                   hexadecimal
    FILEFLAGS 0x0
    FILEOS (4 << 16) | 4                 HIWORD, LOWORD of dwFileOS
    FILETYPE 2
    FILESUBTYPE 0
    {
      BLOCK L"StringFileInfo"
      {
        BLOCK L"040904b0"
        {
          VALUE L"CompanyName", L"BE.Essential"
        }
      }
      BLOCK L"VarFileInfo"
      {
        VALUE L"Translation", 1033, 1200
      }
    }

The fixed-info statements are present iff the resource has a fixed file info (`VInfo.fixed`).  Strings
are wide string literals; a string's value is written without its terminating NUL.  A Var other than
"Translation" has no statement and is left out.  Text is a list of characters (scalar values); the
definitions below do not refer to the model. -/

/-- decimal numeral -/
def decimal (n : Nat) : List Nat :=
  if n < 10 then [48 + n] else decimal (n / 10) ++ [48 + n % 10]
termination_by n
decreasing_by omega

/-- one lower-case hexadecimal digit -/
def hexDigitLower (d : Nat) : Nat := if d < 10 then 48 + d else 87 + d

/-- lower-case hexadecimal numeral, no prefix, no leading zeros -/
def hexLower (n : Nat) : List Nat :=
  if n < 16 then [hexDigitLower n] else hexLower (n / 16) ++ [hexDigitLower (n % 16)]
termination_by n
decreasing_by omega

/-- the four hexadecimal digits of a 16-bit code unit -/
def hex4 (u : Nat) : List Nat :=
  [hexDigitLower (u / 4096 % 16), hexDigitLower (u / 256 % 16), hexDigitLower (u / 16 % 16), hexDigitLower (u % 16)]

/-- UTF-16 read unit by unit: a scalar value, or a code unit that is ill-formed where it stands
(a surrogate that is not part of a high, low pair) -/
inductive Unit16 where
  | scalar (c : Nat)
  | unpaired (u : Nat)
  deriving DecidableEq, Repr

/-- the units of a list of UTF-16 code units (same reading as `text`, which replaces the ill-formed ones) -/
def read16 : List Nat → List Unit16
  | [] => []
  | [u] => [if isHigh u || isLow u then .unpaired u else .scalar u]
  | u :: u2 :: rest =>
    if isHigh u && isLow u2 then .scalar (0x10000 + (u - 0xD800) * 0x400 + (u2 - 0xDC00)) :: read16 rest
    else (if isHigh u || isLow u then .unpaired u else .scalar u) :: read16 (u2 :: rest)

/-- one unit inside a wide string literal: NUL, line feed, carriage return, tab, the quote and the
backslash are escaped, an ill-formed code unit is written `\uXXXX`, everything else stands for itself -/
def escapeUnit : Unit16 → List Nat
  | .scalar c =>
    if c = 0 then ofString "\\0"
    else if c = 10 then ofString "\\n"
    else if c = 13 then ofString "\\r"
    else if c = 9 then ofString "\\t"
    else if c = 34 then ofString "\\\""
    else if c = 92 then ofString "\\\\"
    else [c]
  | .unpaired u => ofString "\\u" ++ hex4 u

/-- a wide string literal `L"…"` -/
def quoted (ws : List Nat) : List Nat := ofString "L\"" ++ (read16 ws).flatMap escapeUnit ++ ofString "\""

/-- one line at nesting depth `depth` -/
def line (depth : Nat) (s : List Nat) : List Nat := List.replicate (2 * depth) 32 ++ s ++ [10]

/-- the 16-bit word at byte offset `off` of a structure given as its little-endian 16-bit words -/
def wordAt (f : List Nat) (off : Nat) : Nat := f.getD (off / 2) 0
/-- the DWORD at byte offset `off`: low word first -/
def dwordAt (f : List Nat) (off : Nat) : Nat := wordAt f off + 65536 * wordAt f (off + 2)
def hiword (d : Nat) : Nat := d / 65536
def loword (d : Nat) : Nat := d % 65536

/-! byte offsets of the members of VS_FIXEDFILEINFO (Microsoft: thirteen DWORDs) -/
def ffiFileVersionMS : Nat := 8
def ffiFileVersionLS : Nat := 12
def ffiProductVersionMS : Nat := 16
def ffiProductVersionLS : Nat := 20
def ffiFileFlagsMask : Nat := 24
def ffiFileFlags : Nat := 28
def ffiFileOS : Nat := 32
def ffiFileType : Nat := 36
def ffiFileSubtype : Nat := 40

def commaSep (xs : List (List Nat)) : List Nat :=
  match xs with
  | [] => []
  | x :: rest => x ++ rest.flatMap (fun y => ofString ", " ++ y)

/-- `a, b, c, d` of a version stored as two DWORDs (most / least significant) at byte offsets `ms`,
`ls`: high word, low word of the first, high word, low word of the second (the structure is given
as words, low word first, so these are the words at `ms + 2`, `ms`, `ls + 2`, `ls`) -/
def versionQuad (f : List Nat) (ms ls : Nat) : List Nat :=
  commaSep [decimal (wordAt f (ms + 2)), decimal (wordAt f ms), decimal (wordAt f (ls + 2)), decimal (wordAt f ls)]

/-- the fixed-info statements for the words `f` of a VS_FIXEDFILEINFO -/
def fixedSource (f : List Nat) : List Nat :=
  line 0 (ofString "1 VERSIONINFO") ++
  line 0 (ofString "FILEVERSION " ++ versionQuad f ffiFileVersionMS ffiFileVersionLS) ++
  line 0 (ofString "PRODUCTVERSION " ++ versionQuad f ffiProductVersionMS ffiProductVersionLS) ++
  line 0 (ofString "FILEFLAGSMASK 0x" ++ hexLower (dwordAt f ffiFileFlagsMask)) ++
  line 0 (ofString "FILEFLAGS 0x" ++ hexLower (dwordAt f ffiFileFlags)) ++
  line 0 (ofString "FILEOS (" ++ decimal (hiword (dwordAt f ffiFileOS)) ++ ofString " << 16) | "
            ++ decimal (loword (dwordAt f ffiFileOS))) ++
  line 0 (ofString "FILETYPE " ++ decimal (dwordAt f ffiFileType)) ++
  line 0 (ofString "FILESUBTYPE " ++ decimal (dwordAt f ffiFileSubtype))

/-- `VALUE L"key", L"value"` -/
def VStr.source (s : VStr) : List Nat :=
  line 3 (ofString "VALUE " ++ quoted s.key ++ ofString ", " ++ quoted (stripTerminator s.stored))

/-- `BLOCK L"lang-codepage" { … }` -/
def VTable.source (t : VTable) : List Nat :=
  line 2 (ofString "BLOCK " ++ quoted t.lang) ++ line 2 (ofString "{") ++ t.strings.flatMap VStr.source ++
  line 2 (ofString "}")

/-- `VALUE L"Translation", lang, codepage, …`; nothing for any other Var -/
def VVar.source (x : VVar) : List Nat :=
  if x.key = kTranslation then
    line 2 (ofString "VALUE " ++ quoted x.key ++
      (pairs x.value).flatMap (fun p => ofString ", " ++ decimal p.1 ++ ofString ", " ++ decimal p.2))
  else []

def VBlock.source : VBlock → List Nat
  | .stringInfo ts =>
    line 1 (ofString "BLOCK " ++ quoted kStringFileInfo) ++ line 1 (ofString "{") ++ ts.flatMap VTable.source ++
    line 1 (ofString "}")
  | .varInfo vs =>
    line 1 (ofString "BLOCK " ++ quoted kVarFileInfo) ++ line 1 (ofString "{") ++ vs.flatMap VVar.source ++
    line 1 (ofString "}")

/-- `source_code()`: the resource as a VERSIONINFO statement (characters) -/
def sourceOf (v : VInfo) : List Nat :=
  (match v.fixed with
   | some f => fixedSource f
   | none => []) ++
  line 0 (ofString "{") ++ v.blocks.flatMap VBlock.source ++ line 0 (ofString "}")

end Pelite.Version.Spec
