import PeliteModel.Lemmas.Cross
/-!
C01 — memory safety: every reference the safe API returns lies inside the buffer and is aligned for
its type; no operation performs an unchecked access outside the buffer (`Out.ub`).
This file gathers the obligations of the PE core, the typed reads and the relocation parser; the
other modules state theirs in their own property files (see DESIGN.md).
-/
namespace Pelite.Pe

/-- header accessors (restated from C07 for every constructor incl. the agnostic one) -/
theorem C01_header_refs (k : Kind) (img : Img) (v : View) (h : wrapFromBytes k img = .ok v) :
    RefOK img v.dosHeader ∧ RefOK img v.dosImage ∧ RefOK img v.ntHeaders ∧ RefOK img v.fileHeader ∧
    RefOK img v.optionalHeader ∧ RefOK img v.dataDirectory ∧ RefOK img v.sectionHeaders ∧
    RefOK img v.headersImage := by
  sorry

/-- every data directory entry and every section header the model decodes is read from inside the
accepted buffer -/
theorem C01_tables_inside (f : Fmt) (k : Kind) (img : Img) (v : View) (h : fromBytes f k img = .ok v) :
    (∀ i, i < numDataDirs f img.bytes → ntEnd f img.bytes + 8 * i + 8 ≤ img.bytes.size) ∧
    (∀ i, i < numberOfSections img.bytes → secTable img.bytes + 40 * i + 40 ≤ img.bytes.size) := by
  sorry

/-- `slice` / `read`, any view, any arguments: the result is inside the buffer and aligned as requested -/
theorem C01_slice_read (f : Fmt) (k : Kind) (img : Img) (v : View) (hv : fromBytes f k img = .ok v)
    (a : Addr) (min align : Nat) (ha : match a with | .rva r => r < 4294967296 | .va x => x < v.fmt.vaLimit)
    (ref : Ref) (h : v.at a min align = .ok ref) : RefOK v.img ref := by
  sorry

/-- typed reads hand out sub-ranges of what `slice`/`read` returned, with the alignment of their type -/
theorem C01_typed (f : Fmt) (k : Kind) (img : Img) (v : View) (hv : fromBytes f k img = .ok v)
    (a : Addr) (ha : match a with | .rva r => r < 4294967296 | .va x => x < v.fmt.vaLimit) :
    (∀ size align ref, v.derva a size align = .ok ref → RefOK v.img ref) ∧
    (∀ size align len ref, v.dervaSlice a size align len = .ok ref → RefOK v.img ref) ∧
    (∀ size align s ref, 1 ≤ size → v.dervaSliceS a size align s = .ok ref → RefOK v.img ref) ∧
    (∀ ref, v.dervaCStr a = .ok ref → RefOK v.img ref) := by
  sorry

/-- `get_section_bytes` -/
theorem C01_section_bytes (v : View) (s : Sec) (hs : s.InRange) (r : Ref) (h : v.sectionBytes s = .ok r) :
    RefOK v.img r := by
  sorry

/-- no modelled operation of the core ever performs an unchecked out-of-range access -/
theorem C01_no_ub (v : View) (a : Addr) (min align : Nat) (s : String) : v.at a min align ≠ .ub s := by
  sorry

end Pelite.Pe
