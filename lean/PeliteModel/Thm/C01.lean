import PeliteModel.Lemmas.Cross
/-!
C01 — memory safety: every reference the safe API returns lies inside the buffer and is aligned for
its type; no operation performs an unchecked access outside the buffer (`Out.ub`).
This file gathers the obligations of the PE core, the typed reads and the relocation parser; the
other modules state theirs in their own property files (see DESIGN.md).
-/
namespace Pelite.Pe

/-- header accessors (restated from C07 for every constructor incl. the agnostic one) -/
theorem C01_header_refs (k : Kind) (img : Img) (v : View) (h : wrapFromBytes k img = .ok v) :
    RefOK img v.dosHeader ∧ RefOK img v.dosImage ∧ RefOK img v.ntHeaders ∧ RefOK img v.fileHeader ∧
    RefOK img v.optionalHeader ∧ RefOK img v.dataDirectory ∧ RefOK img v.sectionHeaders ∧
    RefOK img v.headersImage := by
  obtain ⟨h1, h2, h3, h4, h5, h6, h7, h8, -⟩ := C07_header_refs_ok v.fmt k img v (wrap_ok_imp k img v h)
  exact ⟨h1, h2, h3, h4, h5, h6, h7, h8⟩

/-- every data directory entry and every section header the model decodes is read from inside the
accepted buffer -/
theorem C01_tables_inside (f : Fmt) (k : Kind) (img : Img) (v : View) (h : fromBytes f k img = .ok v) :
    (∀ i, i < numDataDirs f img.bytes → ntEnd f img.bytes + 8 * i + 8 ≤ img.bytes.size) ∧
    (∀ i, i < numberOfSections img.bytes → secTable img.bytes + 40 * i + 40 ≤ img.bytes.size) := by
  obtain ⟨ha, -⟩ := (fromBytes_ok_iff _ _ _ _).1 h
  unfold Accept at ha
  dsimp only at ha
  obtain ⟨-, -, -, -, -, -, -, -, -, -, hd, -, hsec, -⟩ := ha
  simp only [ntEnd, numDataDirs, secTable, optOff]
  constructor
  · intro i hi; omega
  · intro i hi; omega

/-- `slice` / `read`, any view, any arguments: the result is inside the buffer and aligned as requested -/
theorem C01_slice_read (f : Fmt) (k : Kind) (img : Img) (v : View) (hv : fromBytes f k img = .ok v)
    (a : Addr) (min align : Nat) (ha : match a with | .rva r => r < 4294967296 | .va x => x < v.fmt.vaLimit)
    (ref : Ref) (h : v.at a min align = .ok ref) : RefOK v.img ref := by
  exact (C05_at_sound f k img v hv a min align ha ref h).1

/-- typed reads hand out sub-ranges of what `slice`/`read` returned, with the alignment of their type -/
theorem C01_typed (f : Fmt) (k : Kind) (img : Img) (v : View) (hv : fromBytes f k img = .ok v)
    (a : Addr) (ha : match a with | .rva r => r < 4294967296 | .va x => x < v.fmt.vaLimit) :
    (∀ size align ref, v.derva a size align = .ok ref → RefOK v.img ref) ∧
    (∀ size align len ref, v.dervaSlice a size align len = .ok ref → RefOK v.img ref) ∧
    (∀ size align s ref, 1 ≤ size → v.dervaSliceS a size align s = .ok ref → RefOK v.img ref) ∧
    (∀ ref, v.dervaCStr a = .ok ref → RefOK v.img ref) := by
  refine ⟨?_, ?_, ?_, ?_⟩
  · intro size align ref h
    obtain ⟨s, hs, rfl⟩ := (C05_derva v a size align ref).1 h
    obtain ⟨⟨hb, hal⟩, hm, hsa⟩ := C05_at_sound f k img v hv a size align ha s hs
    rw [hsa] at hal
    exact ⟨by simp only; omega, hal⟩
  · intro size align len ref h
    obtain ⟨-, s, hs, rfl⟩ := (C05_derva_slice v a size align len ref).1 h
    obtain ⟨⟨hb, hal⟩, hm, hsa⟩ := C05_at_sound f k img v hv a (size * len) align ha s hs
    rw [hsa] at hal
    exact ⟨by simp only; omega, hal⟩
  · intro size align sen ref hsz h
    cases hat : v.at a 0 align with
    | ok s =>
      obtain ⟨n, rfl, hn, -⟩ := (C05_derva_slice_s v a size align sen hsz s hat).1 ref h
      obtain ⟨⟨hb, hal⟩, -, hsa⟩ := C05_at_sound f k img v hv a 0 align ha s hat
      rw [hsa] at hal
      rw [Nat.succ_mul] at hn
      exact ⟨by simp only; omega, hal⟩
    | _ =>
      unfold View.dervaSliceS View.dervaSliceF at h
      rw [hat] at h
      cases h
  · intro ref h
    cases hat : v.at a 0 1 with
    | ok s =>
      obtain ⟨⟨hb, -⟩, -, -⟩ := C05_at_sound f k img v hv a 0 1 ha s hat
      unfold View.dervaCStr cstrFromBytes at h
      rw [hat] at h
      simp only at h
      cases hf : findNul v.b s.off s.len 0 with
      | none => rw [hf] at h; cases h
      | some n =>
        rw [hf] at h
        cases h
        obtain ⟨-, h2, -, -⟩ := findNul_some _ _ _ hf
        exact ⟨by simp only; omega, Nat.mod_one _⟩
    | _ =>
      unfold View.dervaCStr at h
      rw [hat] at h
      cases h

/-- `get_section_bytes` -/
theorem C01_section_bytes (v : View) (s : Sec) (hs : s.InRange) (r : Ref) (h : v.sectionBytes s = .ok r) :
    RefOK v.img r := by
  have := (C04_section_bytes v s hs r).1 h
  obtain ⟨h1, h2, h3, h4⟩ := hs
  unfold RefOK
  cases hk : v.kind <;> rw [hk] at this <;> simp only at this <;> obtain ⟨-, -, hb, rfl⟩ := this <;>
    exact ⟨hb, Nat.mod_one _⟩

/-- no modelled operation of the core ever performs an unchecked out-of-range access -/
theorem C01_no_ub (v : View) (a : Addr) (min align : Nat) (s : String) : v.at a min align ≠ .ub s := by
  exact v.at_ne_ub a min align s

end Pelite.Pe
