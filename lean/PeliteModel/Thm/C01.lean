import PeliteModel.Lemmas.Cross
import PeliteModel.Thm.C02Arith
import PeliteModel.Generated.ImageLayout
/-!
C01 — memory safety: every reference the safe API returns lies inside the buffer and is aligned for
its type; no operation performs an unchecked access outside the buffer (`Out.ub`).
This file gathers the obligations of the PE core, the typed reads and the relocation parser; the
other modules state theirs in their own property files (see DESIGN.md).
-/
namespace Pelite.Pe

/-- header accessors (restated from C07 for every constructor incl. the agnostic one) -/
theorem C01_header_refs (k : Kind) (img : Img) (v : View) (h : wrapFromBytes k img = .ok v) :
    RefOK img v.dosHeader ∧ RefOK img v.dosImage ∧ RefOK img v.ntHeaders ∧ RefOK img v.fileHeader ∧
    RefOK img v.optionalHeader ∧ RefOK img v.dataDirectory ∧ RefOK img v.sectionHeaders ∧
    RefOK img v.headersImage := by
  obtain ⟨h1, h2, h3, h4, h5, h6, h7, h8, -⟩ := C07_header_refs_ok v.fmt k img v (wrap_ok_imp k img v h)
  exact ⟨h1, h2, h3, h4, h5, h6, h7, h8⟩

/-- every data directory entry and every section header the model decodes is read from inside the
accepted buffer -/
theorem C01_tables_inside (f : Fmt) (k : Kind) (img : Img) (v : View) (h : fromBytes f k img = .ok v) :
    (∀ i, i < numDataDirs f img.bytes → ntEnd f img.bytes + 8 * i + 8 ≤ img.bytes.size) ∧
    (∀ i, i < numberOfSections img.bytes → secTable img.bytes + 40 * i + 40 ≤ img.bytes.size) := by
  obtain ⟨ha, -⟩ := (fromBytes_ok_iff _ _ _ _).1 h
  unfold Accept at ha
  dsimp only at ha
  obtain ⟨-, -, -, -, -, -, -, -, -, -, hd, -, hsec, -⟩ := ha
  simp only [ntEnd, numDataDirs, secTable, optOff]
  constructor
  · intro i hi; omega
  · intro i hi; omega

/-- `slice` / `read`, any view, any arguments: the result is inside the buffer and aligned as requested -/
theorem C01_slice_read (f : Fmt) (k : Kind) (img : Img) (v : View) (hv : fromBytes f k img = .ok v)
    (a : Addr) (min align : Nat) (ha : match a with | .rva r => r < 4294967296 | .va x => x < v.fmt.vaLimit)
    (ref : Ref) (h : v.at a min align = .ok ref) : RefOK v.img ref := by
  exact (C05_at_sound f k img v hv a min align ha ref h).1

/-- typed reads hand out sub-ranges of what `slice`/`read` returned, with the alignment of their type -/
theorem C01_typed (f : Fmt) (k : Kind) (img : Img) (v : View) (hv : fromBytes f k img = .ok v)
    (a : Addr) (ha : match a with | .rva r => r < 4294967296 | .va x => x < v.fmt.vaLimit) :
    (∀ size align ref, v.derva a size align = .ok ref → RefOK v.img ref) ∧
    (∀ size align len ref, v.dervaSlice a size align len = .ok ref → RefOK v.img ref) ∧
    (∀ size align s ref, 1 ≤ size → v.dervaSliceS a size align s = .ok ref → RefOK v.img ref) ∧
    (∀ ref, v.dervaCStr a = .ok ref → RefOK v.img ref) := by
  refine ⟨?_, ?_, ?_, ?_⟩
  · intro size align ref h
    obtain ⟨s, hs, rfl⟩ := (C05_derva v a size align ref).1 h
    obtain ⟨⟨hb, hal⟩, hm, hsa⟩ := C05_at_sound f k img v hv a size align ha s hs
    rw [hsa] at hal
    exact ⟨by simp only; omega, hal⟩
  · intro size align len ref h
    obtain ⟨-, s, hs, rfl⟩ := (C05_derva_slice v a size align len ref).1 h
    obtain ⟨⟨hb, hal⟩, hm, hsa⟩ := C05_at_sound f k img v hv a (size * len) align ha s hs
    rw [hsa] at hal
    exact ⟨by simp only; omega, hal⟩
  · intro size align sen ref hsz h
    cases hat : v.at a 0 align with
    | ok s =>
      obtain ⟨n, rfl, hn, -⟩ := (C05_derva_slice_s v a size align sen hsz s hat).1 ref h
      obtain ⟨⟨hb, hal⟩, -, hsa⟩ := C05_at_sound f k img v hv a 0 align ha s hat
      rw [hsa] at hal
      rw [Nat.succ_mul] at hn
      exact ⟨by simp only; omega, hal⟩
    | _ =>
      unfold View.dervaSliceS View.dervaSliceF at h
      rw [hat] at h
      cases h
  · intro ref h
    cases hat : v.at a 0 1 with
    | ok s =>
      obtain ⟨⟨hb, -⟩, -, -⟩ := C05_at_sound f k img v hv a 0 1 ha s hat
      unfold View.dervaCStr cstrFromBytes at h
      rw [hat] at h
      simp only at h
      cases hf : findNul v.b s.off s.len 0 with
      | none => rw [hf] at h; cases h
      | some n =>
        rw [hf] at h
        cases h
        obtain ⟨-, h2, -, -⟩ := findNul_some _ _ _ hf
        exact ⟨by simp only; omega, Nat.mod_one _⟩
    | _ =>
      unfold View.dervaCStr at h
      rw [hat] at h
      cases h

/-- `get_section_bytes` -/
theorem C01_section_bytes (v : View) (s : Sec) (hs : s.InRange) (r : Ref) (h : v.sectionBytes s = .ok r) :
    RefOK v.img r := by
  have := (C04_section_bytes v s hs r).1 h
  obtain ⟨h1, h2, h3, h4⟩ := hs
  unfold RefOK
  cases hk : v.kind <;> rw [hk] at this <;> simp only at this <;> obtain ⟨-, -, hb, rfl⟩ := this <;>
    exact ⟨hb, Nat.mod_one _⟩

/-- no modelled operation of the core ever performs an unchecked out-of-range access -/
theorem C01_no_ub (v : View) (a : Addr) (min align : Nat) (s : String) : v.at a min align ≠ .ub s := by
  exact v.at_ne_ub a min align s

/-! ### views with an overridden base address, and every `View` value -/

/-- `slice` / `read` on a view whose base address was overridden (`PeView::set_base_address`, any base,
also one that makes `base + SizeOfImage` wrap): the result is inside the buffer, aligned as requested
and holds the requested number of bytes.  No range hypothesis on the address or the arguments. -/
theorem C01_at_any_base (f : Fmt) (k : Kind) (img : Img) (v : View) (hv : fromBytes f k img = .ok v)
    (base : Nat) (a : Addr) (min align : Nat) (ref : Ref) (h : (v.setBase base).at a min align = .ok ref) :
    RefOK img ref ∧ min ≤ ref.len ∧ ref.align = align := by
  obtain ⟨-, rfl⟩ := (fromBytes_ok_iff _ _ _ _).1 hv
  exact View.at_sound _ a min align ref h

/-- the same for every `View` value whatsoever (the section fields are `u32` because they are decoded
from the buffer; nothing else is needed) — `C01_slice_read` without its hypotheses -/
theorem C01_at_every_view (v : View) (a : Addr) (min align : Nat) (ref : Ref) (h : v.at a min align = .ok ref) :
    RefOK v.img ref ∧ min ≤ ref.len ∧ ref.align = align :=
  v.at_sound a min align ref h

/-- typed reads on every view (in particular after `set_base_address`) -/
theorem C01_typed_any_base (v : View) (a : Addr) :
    (∀ size align ref, v.derva a size align = .ok ref → RefOK v.img ref) ∧
    (∀ size align len ref, v.dervaSlice a size align len = .ok ref → RefOK v.img ref) ∧
    (∀ size align s ref, 1 ≤ size → v.dervaSliceS a size align s = .ok ref → RefOK v.img ref) ∧
    (∀ ref, v.dervaCStr a = .ok ref → RefOK v.img ref) ∧
    (∀ ref, v.dervaWStr a = .ok ref → RefOK v.img ref) := by
  refine ⟨?_, ?_, ?_, ?_, ?_⟩
  · intro size align ref h
    obtain ⟨s, hs, rfl⟩ := (C05_derva v a size align ref).1 h
    obtain ⟨⟨hb, hal⟩, hm, hsa⟩ := v.at_sound a size align s hs
    rw [hsa] at hal
    exact ⟨by simp only; omega, hal⟩
  · intro size align len ref h
    obtain ⟨-, s, hs, rfl⟩ := (C05_derva_slice v a size align len ref).1 h
    obtain ⟨⟨hb, hal⟩, hm, hsa⟩ := v.at_sound a (size * len) align s hs
    rw [hsa] at hal
    exact ⟨by simp only; omega, hal⟩
  · intro size align sen ref hsz h
    cases hat : v.at a 0 align with
    | ok s =>
      obtain ⟨n, rfl, hn, -⟩ := (C05_derva_slice_s v a size align sen hsz s hat).1 ref h
      obtain ⟨⟨hb, hal⟩, -, hsa⟩ := v.at_sound a 0 align s hat
      rw [hsa] at hal
      rw [Nat.succ_mul] at hn
      exact ⟨by simp only; omega, hal⟩
    | _ =>
      unfold View.dervaSliceS View.dervaSliceF at h
      rw [hat] at h
      cases h
  · intro ref h
    cases hat : v.at a 0 1 with
    | ok s =>
      obtain ⟨⟨hb, -⟩, -, -⟩ := v.at_sound a 0 1 s hat
      unfold View.dervaCStr cstrFromBytes at h
      rw [hat] at h
      simp only at h
      cases hf : findNul v.b s.off s.len 0 with
      | none => rw [hf] at h; cases h
      | some n =>
        rw [hf] at h
        cases h
        obtain ⟨-, h2, -, -⟩ := findNul_some _ _ _ hf
        exact ⟨by simp only; omega, Nat.mod_one _⟩
    | _ =>
      unfold View.dervaCStr at h
      rw [hat] at h
      cases h
  · intro ref h
    cases hat : v.at a 2 2 with
    | ok s =>
      obtain ⟨⟨hb, hal⟩, -, hsa⟩ := v.at_sound a 2 2 s hat
      rw [hsa] at hal
      obtain ⟨h1, rfl⟩ := ((C05_derva_wstr v a s hat).1 ref).1 h
      exact ⟨by simp only; omega, hal⟩
    | _ =>
      unfold View.dervaWStr at h
      rw [hat] at h
      cases h

/-! ### the unchecked accesses, as the driver runs them -/

/-- In the checked model (`Model/PeChecked.lean`, the one the correspondence run executes) every
`&*(p as *const T)`, `slice::from_raw_parts`, `get_unchecked`, `ptr::read_unaligned` of the typed reads
and of the conversions goes through `rawRef`, which answers `ub` when the access is outside the
buffer or misaligned.  That branch is never taken: for every view, address, size, length, sentinel and
every power-of-two `usize` alignment with `size % align = 0` (true of every Rust type). -/
theorem C01_checked_no_ub (v : View) (a : Addr) (size align len sentinel : Nat) (hb : v.b.size < 4294967296)
    (hs : 1 ≤ size) (hsz : size < 18446744073709551616) (hsa : size % align = 0)
    (ha : align < 18446744073709551616) (hp : isPow2 align = true) (s : String) :
    v.atChk a size align ≠ .ub s ∧ v.dervaChk a size align ≠ .ub s ∧ v.dervaCopyChk a size ≠ .ub s ∧
    v.dervaIntoChk a len ≠ .ub s ∧ v.dervaSliceChk a size align len ≠ .ub s ∧
    v.dervaSliceSChk a size align sentinel ≠ .ub s ∧ v.dervaCStrChk a ≠ .ub s ∧ v.dervaWStrChk a ≠ .ub s := by
  refine ⟨?_, (C02_derva_never_panics v a size align ha hp).ne_ub s, (C02_dervaCopy_never_panics v a size).ne_ub s,
    (C02_dervaInto_never_panics v a len).ne_ub s, (C02_dervaSlice_never_panics v a size align len ha hp).ne_ub s,
    (C02_dervaSliceS_never_panics v a size align sentinel hb hs hsz hsa ha hp).ne_ub s,
    (C02_dervaCStr_never_panics v a hb).ne_ub s, (C02_dervaWStr_never_panics v a).ne_ub s⟩
  rw [C02_at_checked_eq v a size align ha]
  exact v.at_ne_ub a size align s

/-- `to_view` / `to_file`: `get_unchecked(..SizeOfHeaders)` on both buffers stays inside them -/
theorem C01_convert_checked_no_ub (f : Fmt) (k : Kind) (img : Img) (v : View) (hv : fromBytes f k img = .ok v)
    (s : String) : v.toViewChk ≠ .ub s ∧ v.toFileChk ≠ .ub s :=
  ⟨(C02_toView_never_panics f k img v hv).ne_ub s, (C02_toFile_never_panics f k img v hv).ne_ub s⟩

/-! ### non-vacuity -/

/-- a PE32+ file the model — and the real `PeFile::from_bytes` — accepts, through the format specific and
the agnostic constructor; all header references inside its 256 bytes -/
example : fromBytes .pe64 .file demo64Img = .ok demo64File ∧ wrapFromBytes .file demo64Img = .ok demo64File ∧
    demo64File.ntHeaders = ⟨64, 136, 4⟩ ∧ demo64File.sectionHeaders = ⟨200, 40, 4⟩ ∧
    demo64File.headersImage = ⟨0, 240, 1⟩ ∧ RefOK demo64Img demo64File.sectionHeaders := by
  refine ⟨demo64File_ok, C07_wrap_complete _ _ _ _ demo64File_ok, ?_⟩
  decide +kernel

/-- `C01_slice_read` / `C01_typed`: hypotheses met by the PE32+ file (rva 260 < 2^32, va < 2^64) and the
PE32 view; the references handed out -/
example : (260 : Nat) < 4294967296 ∧ (0x140000104 : Nat) < demo64File.fmt.vaLimit ∧
    demo64File.at (.rva 260) 0 2 = .ok ⟨244, 12, 2⟩ ∧ demo64File.at (.va 0x140000104) 0 2 = .ok ⟨244, 12, 2⟩ ∧
    RefOK demo64File.img ⟨244, 12, 2⟩ ∧
    demo64File.dervaSliceS (.rva 260) 2 2 0xffff = .ok ⟨244, 4, 2⟩ ∧ demo64File.dervaCStr (.rva 256) = .ok ⟨240, 3, 1⟩ ∧
    demo64File.sectionBytes ⟨0, 0, 24, 256, 16, 240, 0⟩ = .ok ⟨240, 16, 1⟩ := by
  decide +kernel

/-- `C01_at_any_base`: the PE32 view relocated to 0x10000, and to a base where `base + SizeOfImage`
wraps the 32-bit address space -/
example : fromBytes .pe32 .view demoImg = .ok demoView ∧
    (demoView.setBase 0x10000).at (.va 0x100b8) 0 1 = .ok ⟨184, 16, 1⟩ ∧
    (demoView.setBase 0x10000).at (.va 0x4000b8) 0 1 = .err .bounds ∧
    (demoView.setBase 0xffffff80).at (.va 0xffffff90) 4 4 = .ok ⟨16, 184, 4⟩ ∧
    (demoView.setBase 0x10000).dervaCStr (.va 0x100b8) = .ok ⟨184, 3, 1⟩ := by
  refine ⟨(fromBytes_ok_iff _ _ _ _).2 ⟨by decide +kernel,
    by rw [show imageBaseField .pe32 demoImg.bytes = 0x400000 by decide +kernel]; rfl⟩, ?_⟩
  decide +kernel

/-! ### second audit round: the unchecked reads of `validate_headers` and `check_sum` -/

/-- `Headers::check_sum` (headers.rs:39) and `Pe::rich_structure` (pe.rs:479) reinterpret the whole
buffer as `&[u32]` with `slice::from_raw_parts(image.as_ptr() as *const u32, image.len() / 4)`: for every
constructed view (both formats, both kinds) that slice lies inside the buffer and is dword aligned —
the alignment is the constructor's test `image.as_ptr().aligned_to(4)` (pe.rs:778). -/
theorem C01_checksum_dwords (f : Fmt) (k : Kind) (img : Img) (v : View) (hv : fromBytes f k img = .ok v) :
    RefOK img ⟨0, 4 * (img.bytes.size / 4), 4⟩ := by
  obtain ⟨ha, -⟩ := (fromBytes_ok_iff _ _ _ _).1 hv
  unfold Accept at ha
  dsimp only at ha
  refine ⟨?_, ?_⟩
  · show 0 + 4 * (img.bytes.size / 4) ≤ img.bytes.size
    omega
  · show (img.base + 0) % 4 = 0
    rw [Nat.add_zero]; exact ha.2.1

/-- `validate_headers` reads the DOS header, the signature, the optional-header magic and the NT headers
through raw pointers (pe.rs:781, 801, 802, 817); in the checked model each of them is a `rawRef` (`ub`
when outside the buffer or misaligned for the pointee).  No input whatsoever — any bytes, any length, any
address — reaches such a branch: the length and alignment guards that precede each read discharge it.
Likewise for the constructors built on it. -/
theorem C01_validate_no_ub (f : Fmt) (k : Kind) (img : Img) (s : String) :
    validateChk f img ≠ .ub s ∧ fromBytesChk f k img ≠ .ub s ∧ wrapFromBytesChk k img ≠ .ub s :=
  ⟨(C02_validate_never_panics f img).ne_ub s, (C02_fromBytes_never_panics f k img).ne_ub s,
    (C02_wrapFromBytes_never_panics k img).ne_ub s⟩

/-- `check_sum` on every constructed view (also after `set_base_address`): the dword view is never UB -/
theorem C01_checksum_no_ub (f : Fmt) (k : Kind) (img : Img) (v : View) (hv : fromBytes f k img = .ok v)
    (base : Nat) (hb : img.bytes.size < 4294967296) (s : String) : (v.setBase base).checkSumChk ≠ .ub s := by
  rw [C02_checkSum_checked_eq_constructed f k img v hv base hb]
  intro h; cases h

/-- the predicate-terminated reads with ANY callable, stateful ones included: no `&*s` of the loop and
no final `from_raw_parts` is outside the buffer or misaligned -/
theorem C01_checked_slice_f_no_ub (v : View) (a : Addr) (size align : Nat) (stop : Nat → Nat → Bool)
    (hb : v.b.size < 4294967296) (hs : 1 ≤ size) (hsz : size < 18446744073709551616) (hsa : size % align = 0)
    (ha : align < 18446744073709551616) (hp : isPow2 align = true) (s : String) :
    v.dervaSliceFIChk a size align stop ≠ .ub s :=
  (C02_dervaSliceFI_never_panics v a size align stop hb hs hsz hsa ha hp).ne_ub s

/-- what a predicate-terminated read hands out lies inside the buffer and is aligned for the element type -/
theorem C01_slice_f_ref (v : View) (a : Addr) (size align : Nat) (stop : Nat → Nat → Bool) (ref : Ref)
    (h : v.dervaSliceFI a size align stop = .ok ref) : RefOK v.img ref := by
  unfold View.dervaSliceFI at h
  cases hat : v.at a 0 align with
  | ok r =>
    rw [hat] at h
    dsimp only at h
    obtain ⟨⟨hb, hal⟩, -, hra⟩ := v.at_sound a 0 align r hat
    rw [hra] at hal
    cases hL : sliceFLoopI v.b r.off r.len size stop (r.len + 2) 0 with
    | ok n =>
      rw [hL] at h
      cases h
      obtain ⟨-, h2, -, -⟩ := sliceFLoopI_ok _ _ _ hL
      rw [Nat.succ_mul] at h2
      exact ⟨by show r.off + n * size ≤ _; omega, hal⟩
    | _ => rw [hL] at h; cases h
  | _ => rw [hat] at h; cases h

/-- the sizes and alignments handed to `rawRef` in `validateChk` / `checkSumChk` are those of the
pointees in the CURRENT source (`Generated/ImageLayout.lean` is rewritten from /repo on every run) -/
theorem C01_validate_pointee_layout :
    (64 = Generated.Layout.IMAGE_DOS_HEADER__size ∧ 4 = Generated.Layout.IMAGE_DOS_HEADER__align) ∧
    (Fmt.pe32.ntSize = Generated.Layout.IMAGE_NT_HEADERS32__size ∧ 4 = Generated.Layout.IMAGE_NT_HEADERS32__align) ∧
    (Fmt.pe64.ntSize = Generated.Layout.IMAGE_NT_HEADERS64__size ∧ 4 = Generated.Layout.IMAGE_NT_HEADERS64__align) ∧
    (Fmt.pe32.ntSize - Fmt.pe32.optSize = Generated.Layout.IMAGE_NT_HEADERS32__OptionalHeader ∧
     Fmt.pe64.ntSize - Fmt.pe64.optSize = Generated.Layout.IMAGE_NT_HEADERS64__OptionalHeader) := by
  decide

/-- the PE32+ file and the PE32 view: constructed, hence the dword view of the whole buffer is fine; the
`ub` branch of `rawRef` is live code (a read one byte beyond the buffer, a misaligned read) -/
example : fromBytes .pe64 .file demo64Img = .ok demo64File ∧ RefOK demo64Img ⟨0, 4 * (256 / 4), 4⟩ ∧
    validateChk .pe64 demo64Img = .ok 288 ∧ validateChk .pe32 demoImg = .ok 200 ∧
    validateChk .pe32 ⟨demoImg.bytes, 2⟩ = .err .misaligned ∧
    rawRef "site" demo64Img 253 4 1 = .ub "site" ∧ rawRef "site" demo64Img 2 4 4 = .ub "site" ∧
    rawRef "site" demo64Img 64 136 4 = .ok ⟨64, 136, 4⟩ :=
  ⟨demo64File_ok, by decide +kernel, by decide +kernel, by decide +kernel, by decide +kernel,
    by decide +kernel, by decide +kernel, by decide +kernel⟩

end Pelite.Pe
