import PeliteModel.Lemmas.Cross
/-!
C02 — totality: parsing and querying never panics or aborts, whatever the input.
One theorem per modelled operation of the PE core, the typed reads, the string enumerator and the
relocation parser/builder; the theorems of the other modules (exports, imports, resources, version
info, Rich header, pattern parser, interpreter, scanner, …) live in their own property files and are
listed in DESIGN.md.  `Out.Clean o` = `o` is `ok _` or `err _` (not `panic`, `ub`, `diverge`).
-/
namespace Pelite.Pe

theorem C02_validate (f : Fmt) (img : Img) : (validate f img).Clean := by
  sorry

theorem C02_from_bytes (f : Fmt) (k : Kind) (img : Img) : (fromBytes f k img).Clean := by
  sorry

theorem C02_wrap_from_bytes (k : Kind) (img : Img) : (wrapFromBytes k img).Clean := by
  sorry

theorem C02_rva_to_file_offset (v : View) (rva : Nat) : (v.rvaToFileOffset rva).Clean := by
  sorry

theorem C02_file_offset_to_rva (v : View) (fo : Nat) : (v.fileOffsetToRva fo).Clean := by
  sorry

theorem C02_rva_to_va (v : View) (rva : Nat) : (v.rvaToVa rva).Clean := by
  sorry

theorem C02_va_to_rva (v : View) (va : Nat) : (v.vaToRva va).Clean := by
  sorry

/-- `slice` / `read` are total for every power-of-two alignment (every alignment the typed API
passes); for other alignments the checked build hits `debug_assert!` in `AlignTo` — known finding. -/
theorem C02_slice (v : View) (rva min align : Nat) (hp : isPow2 align = true) : (v.slice rva min align).Clean := by
  sorry

theorem C02_read (v : View) (va min align : Nat) (hp : isPow2 align = true) : (v.read va min align).Clean := by
  sorry

/-- the one way `slice` can panic: a non-power-of-two alignment on a non-null address -/
theorem C02_slice_panics_only_if (v : View) (rva min align : Nat) (s : String)
    (h : v.slice rva min align = .panic s) : isPow2 align = false ∧ rva ≠ 0 := by
  sorry

theorem C02_section_bytes (v : View) (s : Sec) : (v.sectionBytes s).Clean := by
  sorry

theorem C02_derva (v : View) (a : Addr) (size align : Nat) (hp : isPow2 align = true) : (v.derva a size align).Clean := by
  sorry

theorem C02_derva_copy (v : View) (a : Addr) (size : Nat) : (v.dervaCopy a size).Clean := by
  sorry

theorem C02_derva_into (v : View) (a : Addr) (len : Nat) : (v.dervaInto a len).Clean := by
  sorry

theorem C02_derva_slice (v : View) (a : Addr) (size align len : Nat) (hp : isPow2 align = true) :
    (v.dervaSlice a size align len).Clean := by
  sorry

theorem C02_derva_slice_s (v : View) (a : Addr) (size align sentinel : Nat) (hs : 1 ≤ size) (hp : isPow2 align = true) :
    (v.dervaSliceS a size align sentinel).Clean := by
  sorry

theorem C02_derva_cstr (v : View) (a : Addr) : (v.dervaCStr a).Clean := by
  sorry

/-- the string enumerator returns a list for every byte string and every configuration with
thresholds ≥ 1 (from C20) -/
theorem C02_strings (bytes : Bytes) (cfg : Strings.Config) (hm : 1 ≤ cfg.minLen) (hn : 1 ≤ cfg.minLenNul) :
    (Strings.enumAll bytes cfg (bytes.size + 2) 0).Clean := by
  sorry

theorem C02_relocs_parse (img : Img) : (Relocs.parse img).Clean := by
  sorry

end Pelite.Pe
