import PeliteModel.Lemmas.Cross
/-!
C02 — totality: parsing and querying never panics or aborts, whatever the input.
One theorem per modelled operation of the PE core, the typed reads, the string enumerator and the
relocation parser/builder; the theorems of the other modules (exports, imports, resources, version
info, Rich header, pattern parser, interpreter, scanner, …) live in their own property files and are
listed in DESIGN.md.  `Out.Clean o` = `o` is `ok _` or `err _` (not `panic`, `ub`, `diverge`).
-/
namespace Pelite.Pe

theorem C02_validate (f : Fmt) (img : Img) : (validate f img).Clean := by
  exact C07_validate_total f img

theorem C02_from_bytes (f : Fmt) (k : Kind) (img : Img) : (fromBytes f k img).Clean := by
  unfold fromBytes
  rcases C07_validate_total f img with ⟨n, h⟩ | ⟨e, h⟩ <;> rw [h]
  · exact Out.clean_ok _
  · exact Out.clean_err _

theorem C02_wrap_from_bytes (k : Kind) (img : Img) : (wrapFromBytes k img).Clean := by
  unfold wrapFromBytes
  rcases C02_from_bytes .pe64 k img with ⟨w, h⟩ | ⟨e, h⟩ <;> rw [h]
  · exact Out.clean_ok _
  · cases e <;> first | exact C02_from_bytes .pe32 k img | exact Out.clean_err _

theorem C02_rva_to_file_offset (v : View) (rva : Nat) : (v.rvaToFileOffset rva).Clean := by
  unfold View.rvaToFileOffset Pe.rvaToFileOffset
  exact Out.clean_ite (Out.clean_ok _) (r2fSecs_clean _ _)

theorem C02_file_offset_to_rva (v : View) (fo : Nat) : (v.fileOffsetToRva fo).Clean := by
  unfold View.fileOffsetToRva Pe.fileOffsetToRva
  exact Out.clean_ite (Out.clean_ok _) (f2rSecs_clean _ _)

theorem C02_rva_to_va (v : View) (rva : Nat) : (v.rvaToVa rva).Clean := by
  unfold View.rvaToVa
  exact Out.clean_ite (Out.clean_err _)
    (Out.clean_ite (Out.clean_ite (Out.clean_ok _) (Out.clean_err _)) (Out.clean_err _))

theorem C02_va_to_rva (v : View) (va : Nat) : (v.vaToRva va).Clean := by
  unfold View.vaToRva
  exact Out.clean_ite (Out.clean_err _) (Out.clean_ite (Out.clean_err _) (Out.clean_ok _))

/-- `slice` / `read` are total for every power-of-two alignment (every alignment the typed API
passes); for other alignments the checked build hits `debug_assert!` in `AlignTo` — known finding. -/
theorem C02_slice (v : View) (rva min align : Nat) (hp : isPow2 align = true) : (v.slice rva min align).Clean := by
  exact v.at_clean (.rva rva) min align hp

theorem C02_read (v : View) (va min align : Nat) (hp : isPow2 align = true) : (v.read va min align).Clean := by
  exact v.at_clean (.va va) min align hp

/-- the one way `slice` can panic: a non-power-of-two alignment on a non-null address -/
theorem C02_slice_panics_only_if (v : View) (rva min align : Nat) (s : String)
    (h : v.slice rva min align = .panic s) : isPow2 align = false ∧ rva ≠ 0 := by
  rcases v.slice_shape rva min align with hc | ⟨h1, h2, -⟩
  · exact absurd h (hc.ne_panic s)
  · exact ⟨h1, h2⟩

theorem C02_section_bytes (v : View) (s : Sec) : (v.sectionBytes s).Clean := by
  obtain ⟨img, fmt, kind, ib⟩ := v
  cases kind
  · show (if s.prd = 0 then Out.err Err.null
      else if s.prd ≤ wadd32 s.prd s.rs ∧ wadd32 s.prd s.rs ≤ img.bytes.size then
        Out.ok (⟨s.prd, wadd32 s.prd s.rs - s.prd, 1⟩ : Ref) else .err .bounds).Clean
    exact Out.clean_ite (Out.clean_err _) (Out.clean_ite (Out.clean_ok _) (Out.clean_err _))
  · show (if s.va = 0 then Out.err Err.null
      else if s.va ≤ wadd32 s.va s.vs ∧ wadd32 s.va s.vs ≤ img.bytes.size then
        Out.ok (⟨s.va, wadd32 s.va s.vs - s.va, 1⟩ : Ref) else .err .bounds).Clean
    exact Out.clean_ite (Out.clean_err _) (Out.clean_ite (Out.clean_ok _) (Out.clean_err _))

theorem C02_derva (v : View) (a : Addr) (size align : Nat) (hp : isPow2 align = true) : (v.derva a size align).Clean := by
  unfold View.derva
  rcases v.at_clean a size align hp with ⟨r, h⟩ | ⟨e, h⟩ <;> rw [h]
  · exact Out.clean_ok _
  · exact Out.clean_err _

theorem C02_derva_copy (v : View) (a : Addr) (size : Nat) : (v.dervaCopy a size).Clean := by
  unfold View.dervaCopy
  rcases v.at_clean a size 1 isPow2_one with ⟨r, h⟩ | ⟨e, h⟩ <;> rw [h]
  · exact Out.clean_ok _
  · exact Out.clean_err _

theorem C02_derva_into (v : View) (a : Addr) (len : Nat) : (v.dervaInto a len).Clean := by
  unfold View.dervaInto
  rcases v.at_clean a len 1 isPow2_one with ⟨r, h⟩ | ⟨e, h⟩ <;> rw [h]
  · exact Out.clean_ok _
  · exact Out.clean_err _

theorem C02_derva_slice (v : View) (a : Addr) (size align len : Nat) (hp : isPow2 align = true) :
    (v.dervaSlice a size align len).Clean := by
  unfold View.dervaSlice
  refine Out.clean_ite (Out.clean_err _) ?_
  refine Out.clean_ite (Out.clean_err _) ?_
  rcases v.at_clean a (size * len) align hp with ⟨r, h⟩ | ⟨e, h⟩ <;> rw [h]
  · exact Out.clean_ok _
  · exact Out.clean_err _

theorem C02_derva_slice_s (v : View) (a : Addr) (size align sentinel : Nat) (hs : 1 ≤ size) (hp : isPow2 align = true) :
    (v.dervaSliceS a size align sentinel).Clean := by
  unfold View.dervaSliceS View.dervaSliceF
  rcases v.at_clean a 0 align hp with ⟨r, h⟩ | ⟨e, h⟩ <;> rw [h]
  · simp only
    rcases sliceFLoop_clean (b := v.b) (off := r.off) (blen := r.len) (stop := fun x => x == sentinel) hs
      (r.len + 2) 0 (by omega) (by omega) with ⟨n, hn⟩ | ⟨e, hn⟩ <;> rw [hn]
    · exact Out.clean_ok _
    · exact Out.clean_err _
  · exact Out.clean_err _

/-- `derva_slice_f` / `deref_slice_f` with ANY callable, stateful ones included (`stop i x` = the answer
of call `i` on element `i`): a slice or an error, for every element size ≥ 1 -/
theorem C02_derva_slice_fi (v : View) (a : Addr) (size align : Nat) (stop : Nat → Nat → Bool) (hs : 1 ≤ size)
    (hp : isPow2 align = true) : (v.dervaSliceFI a size align stop).Clean := by
  unfold View.dervaSliceFI
  rcases v.at_clean a 0 align hp with ⟨r, h⟩ | ⟨e, h⟩ <;> rw [h]
  · simp only
    rcases sliceFLoopI_shape (b := v.b) (off := r.off) (blen := r.len) (size := size) (stop := stop)
      (r.len + 2) 0 with ⟨n, hn⟩ | hn | hn
    · rw [hn]; exact Out.clean_ok _
    · rw [hn]; exact Out.clean_err _
    · exact absurd hn (sliceFLoopI_ne_diverge hs _ _ (by omega) (by omega))
  · exact Out.clean_err _

/-- the stateless special case (`F: Fn`) -/
theorem C02_derva_slice_f (v : View) (a : Addr) (size align : Nat) (stop : Nat → Bool) (hs : 1 ≤ size)
    (hp : isPow2 align = true) : (v.dervaSliceF a size align stop).Clean := by
  rw [View.dervaSliceF_eq_I]; exact C02_derva_slice_fi v a size align _ hs hp

theorem C02_derva_cstr (v : View) (a : Addr) : (v.dervaCStr a).Clean := by
  unfold View.dervaCStr
  rcases v.at_clean a 0 1 isPow2_one with ⟨r, h⟩ | ⟨e, h⟩ <;> rw [h]
  · simp only
    cases cstrFromBytes v.b r.off r.len
    · exact Out.clean_err _
    · exact Out.clean_ok _
  · exact Out.clean_err _

/-- the string enumerator returns a list for every byte string and every configuration with
thresholds ≥ 1 (from C20) -/
theorem C02_strings (bytes : Bytes) (cfg : Strings.Config) (hm : 1 ≤ cfg.minLen) (hn : 1 ≤ cfg.minLenNul) :
    (Strings.enumAll bytes cfg (bytes.size + 2) 0).Clean := by
  obtain ⟨fs, h, -⟩ := Strings.C20_enumerate_exact bytes cfg hm hn
  rw [h]
  exact Out.clean_ok _

theorem C02_relocs_parse (img : Img) : (Relocs.parse img).Clean := by
  unfold Relocs.parse
  exact Out.clean_ite (Out.clean_ok _) (Out.clean_err _)

/-! ### non-vacuity
(The theorems above are about the unchecked model; `Thm/C02Arith.lean` proves the checked model —
panicking arithmetic and slice primitives at the Rust sites, the one the driver runs — equal to it.) -/

/-- a PE32+ file and a PE32 mapped view the constructors accept (so the `View`s the theorems range
over exist for both formats and both kinds); a rejected buffer gives an error, not a panic -/
example : fromBytes .pe64 .file demo64Img = .ok demo64File ∧ wrapFromBytes .file demo64Img = .ok demo64File ∧
    fromBytes .pe32 .file demo64Img = .err .peMagic ∧
    fromBytes .pe32 .view demoImg = .ok demoView ∧ validate .pe64 ⟨#[77, 90], 0⟩ = .err .bounds := by
  refine ⟨demo64File_ok, C07_wrap_complete _ _ _ _ demo64File_ok,
    fromBytes_err_of_validate (by decide +kernel),
    (fromBytes_ok_iff _ _ _ _).2 ⟨by decide +kernel,
      by rw [show imageBaseField .pe32 demoImg.bytes = 0x400000 by decide +kernel]; rfl⟩, by decide +kernel⟩

/-- `isPow2 align` (hypothesis of `C02_slice`, `C02_read`, `C02_derva`, `C02_derva_slice`,
`C02_derva_slice_s`) holds for the alignments of the Rust types and fails for 0, 3, 6, 12;
`1 ≤ size` of `C02_derva_slice_s` for every integer type -/
example : isPow2 1 = true ∧ isPow2 2 = true ∧ isPow2 4 = true ∧ isPow2 8 = true ∧ isPow2 16 = true ∧
    isPow2 0 = false ∧ isPow2 3 = false ∧ isPow2 6 = false ∧ isPow2 12 = false ∧ 1 ≤ 2 := by decide

/-- the operations on the PE32+ file: values and every error kind of the address conversions
(answers identical to the real code's, checked with the harness) -/
example : demo64File.rvaToFileOffset 256 = .ok 240 ∧ demo64File.rvaToFileOffset 272 = .err .zeroFill ∧
    demo64File.rvaToFileOffset 280 = .err .bounds ∧ demo64File.fileOffsetToRva 250 = .ok 266 ∧
    demo64File.rvaToVa 287 = .ok 5368709407 ∧ demo64File.vaToRva 0 = .err .null ∧
    demo64File.slice 256 0 1 = .ok ⟨240, 16, 1⟩ ∧ demo64File.slice 271 2 1 = .err .zeroFill ∧
    demo64File.read 0x140000100 4 4 = .ok ⟨240, 16, 4⟩ ∧ demo64File.derva (.rva 257) 4 4 = .err .misaligned ∧
    demo64File.dervaSliceS (.rva 260) 2 2 0x1234 = .err .bounds ∧
    demo64File.sectionBytes ⟨0, 0, 24, 256, 16, 240, 0⟩ = .ok ⟨240, 16, 1⟩ := by
  decide +kernel

/-- `C02_slice_panics_only_if` is about something that happens: alignment 3 on the PE32 view -/
example : demoView.slice 184 0 3 = .panic "slice_section:aligned_to" ∧ demoView.slice 0 0 3 = .err .null := by
  decide +kernel

/-- `C02_strings`: a configuration with thresholds ≥ 1 and a buffer with two qualifying runs -/
example : (1 ≤ (⟨3, 3, false⟩ : Strings.Config).minLen ∧ 1 ≤ (⟨3, 3, false⟩ : Strings.Config).minLenNul) ∧
    Strings.enumAll #[0x1f, 0x43, 0x2d, 0x53, 0x54, 0x00, 0x80, 0x41, 0x41, 0x41, 0xff] ⟨3, 3, false⟩ 13 0 =
      .ok [⟨1, 4, true⟩, ⟨7, 3, false⟩] := by
  decide +kernel

end Pelite.Pe
