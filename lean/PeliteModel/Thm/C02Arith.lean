import PeliteModel.Lemmas.PeChecked
import PeliteModel.Thm.C02
/-!
C02 — the arithmetic, indexing and unchecked-access sites of the PE core.

`Model/Pe.lean`, `Model/Typed.lean` and `Model/Convert.lean` compute on unbounded `Nat`; their
`C02_*` theorems (`Thm/C02.lean`) therefore say nothing about the places where the Rust code has
fixed-width `+ - *`, `&bytes[..len]`, `s[i]`, `copy_from_slice` (all of which PANIC in a checked
build when they go wrong) or `&*(p as *const T)`, `from_raw_parts`, `get_unchecked` (UB when they
go wrong).  `Model/PeChecked.lean` has a CHECKED variant of every function with at least one such
site: same branches as the Rust code, a panicking primitive / `rawRef` at exactly each site, casts and
`wrapping_add` as on a 64-bit target.  The drivers run the checked variants against the real code.

For every such function this file proves `fChk args = f args` — equality of `Out` values with the
unchecked model — for ALL inputs in the range of their Rust types: so no panic / ub branch of a
checked function is ever taken, and every theorem about `f` transfers to `fChk`.
The corollaries `…_never_panics` state `(fChk args).Clean` (a value or a `pelite::Error`; no `panic`,
no `ub`, no `diverge`).  No site was found that can be reached with an overflow.

The only hypotheses are type ranges: `align < 2^64` (`usize`), element `size < 2^64`, buffers
`< 4 GiB` (the model's global bound; only the sentinel loop, `CStr`, and `check_sum` need it),
`SizeOfHeaders ≤ 2^32` / `SizeOfImage < 2^32` where a theorem takes them as free parameters instead
of reading them from the buffer, `size % align = 0` for the element type of the sentinel loop (true of
every Rust type), and — for the conversions only — that the view came out of `from_bytes`.
The section table needs NO hypothesis (not even `Sec.InRange`): the guards of the Rust code suffice.
-/
namespace Pelite.Pe

/-! ### constructors -/

theorem C02_validate_checked_eq (f : Fmt) (img : Img) : validateChk f img = validate f img :=
  validateChk_eq f img

theorem C02_fromBytes_checked_eq (f : Fmt) (k : Kind) (img : Img) : fromBytesChk f k img = fromBytes f k img :=
  fromBytesChk_eq f k img

theorem C02_wrapFromBytes_checked_eq (k : Kind) (img : Img) : wrapFromBytesChk k img = wrapFromBytes k img :=
  wrapFromBytesChk_eq k img

theorem C02_validate_never_panics (f : Fmt) (img : Img) : (validateChk f img).Clean := by
  rw [C02_validate_checked_eq]; exact C02_validate f img
theorem C02_fromBytes_never_panics (f : Fmt) (k : Kind) (img : Img) : (fromBytesChk f k img).Clean := by
  rw [C02_fromBytes_checked_eq]; exact C02_from_bytes f k img
theorem C02_wrapFromBytes_never_panics (k : Kind) (img : Img) : (wrapFromBytesChk k img).Clean := by
  rw [C02_wrapFromBytes_checked_eq]; exact C02_wrap_from_bytes k img

/-! ### address conversion: every section table, every rva / offset / va -/

theorem C02_r2fSecs_checked_eq (secs : List Sec) (rva : Nat) : r2fSecsChk secs rva = r2fSecs secs rva :=
  r2fSecsChk_eq secs rva

theorem C02_f2rSecs_checked_eq (secs : List Sec) (fo : Nat) : f2rSecsChk secs fo = f2rSecs secs fo :=
  f2rSecsChk_eq secs fo

theorem C02_rvaToFileOffset_checked_eq (soh : Nat) (secs : List Sec) (rva : Nat) :
    rvaToFileOffsetChk soh secs rva = rvaToFileOffset soh secs rva :=
  rvaToFileOffsetChk_eq soh secs rva

/-- `soh ≤ 2^32`: `SizeOfHeaders` is a `u32` (`file_offset as Rva` truncates below it) -/
theorem C02_fileOffsetToRva_checked_eq (soh : Nat) (secs : List Sec) (fo : Nat) (hs : soh ≤ 4294967296) :
    fileOffsetToRvaChk soh secs fo = fileOffsetToRva soh secs fo :=
  fileOffsetToRvaChk_eq soh secs fo hs

/-- the hypothesis is needed (the cast is real) and satisfiable -/
example : fileOffsetToRvaChk 8589934592 [] 4294967296 = .ok 0 ∧ fileOffsetToRva 8589934592 [] 4294967296 = .ok 4294967296 ∧
    fileOffsetToRvaChk 240 demo64File.secs 250 = .ok 266 := by decide +kernel

theorem C02_rva_to_file_offset_checked_eq (v : View) (rva : Nat) : v.rvaToFileOffsetChk rva = v.rvaToFileOffset rva :=
  rvaToFileOffsetChk_eq _ _ _

theorem C02_file_offset_to_rva_checked_eq (v : View) (fo : Nat) : v.fileOffsetToRvaChk fo = v.fileOffsetToRva fo :=
  fileOffsetToRvaChk_eq _ _ _ (Nat.le_of_lt (le32_lt _ _))

theorem C02_va_to_rva_checked_eq (v : View) (va : Nat) : v.vaToRvaChk va = v.vaToRva va :=
  vaToRvaChk_eq v va

theorem C02_r2fSecs_never_panics (secs : List Sec) (rva : Nat) : (r2fSecsChk secs rva).Clean := by
  rw [C02_r2fSecs_checked_eq]; exact r2fSecs_clean secs rva
theorem C02_f2rSecs_never_panics (secs : List Sec) (fo : Nat) : (f2rSecsChk secs fo).Clean := by
  rw [C02_f2rSecs_checked_eq]; exact f2rSecs_clean secs fo
theorem C02_rva_to_file_offset_never_panics (v : View) (rva : Nat) : (v.rvaToFileOffsetChk rva).Clean := by
  rw [C02_rva_to_file_offset_checked_eq]; exact C02_rva_to_file_offset v rva
theorem C02_file_offset_to_rva_never_panics (v : View) (fo : Nat) : (v.fileOffsetToRvaChk fo).Clean := by
  rw [C02_file_offset_to_rva_checked_eq]; exact C02_file_offset_to_rva v fo
theorem C02_va_to_rva_never_panics (v : View) (va : Nat) : (v.vaToRvaChk va).Clean := by
  rw [C02_va_to_rva_checked_eq]; exact C02_va_to_rva v va

/-- C04: file offsets below SizeOfHeaders map to themselves (the model's — and the code's — condition is
`file_offset < SizeOfHeaders`, pe.rs:135; the answer is `file_offset as Rva`, the same number as
`SizeOfHeaders` is a `u32`). -/
theorem C04_f2r_headers (soh : Nat) (secs : List Sec) (fo : Nat) (h : fo < soh) :
    fileOffsetToRva soh secs fo = .ok fo := by
  unfold fileOffsetToRva
  rw [if_pos h]

/-- the same through the checked function, on a view -/
theorem C04_f2r_headers_checked (v : View) (fo : Nat) (h : fo < sizeOfHeaders v.b) :
    v.fileOffsetToRvaChk fo = .ok fo := by
  rw [C02_file_offset_to_rva_checked_eq]
  exact C04_f2r_headers _ _ _ h

example : sizeOfHeaders demo64File.b = 240 ∧ demo64File.fileOffsetToRva 239 = .ok 239 ∧
    demo64File.fileOffsetToRva 240 = .ok 256 := by decide +kernel

/-! ### the alignment test and the untyped slices -/

/-- `self & (align - 1) == 0` after `debug_assert!(align.is_power_of_two())` is `self % align == 0` -/
theorem C02_alignedTo_checked_eq (site : String) (addr align : Nat) :
    alignedToChk site addr align = alignedTo site addr align :=
  alignedToChk_eq site addr align

/-- `usize::wrapping_add(image.as_ptr() as usize, start).aligned_to(align)`: the wrap at 2^64 cannot be seen -/
theorem C02_alignedTo_wrapping (site : String) (a b align : Nat) (ha : align < 18446744073709551616) :
    alignedToChk site (wadd64 a b) align = alignedTo site (a + b) align :=
  alignedToChk_wadd64 site a b align ha

theorem C02_rangeFile_checked_eq (size : Nat) (secs : List Sec) (rva min : Nat) :
    rangeFileChk size secs rva min = rangeFile size secs rva min :=
  rangeFileChk_eq size secs rva min

theorem C02_sliceSection_checked_eq (img : Img) (rva min align : Nat) (ha : align < 18446744073709551616) :
    sliceSectionChk img rva min align = sliceSection img rva min align :=
  sliceSectionChk_eq img rva min align ha

theorem C02_sliceFile_checked_eq (img : Img) (secs : List Sec) (rva min align : Nat)
    (ha : align < 18446744073709551616) :
    sliceFileChk img secs rva min align = sliceFile img secs rva min align :=
  sliceFileChk_eq img secs rva min align ha

theorem C02_readSection_checked_eq (img : Img) (imageBase soi va min align : Nat)
    (ha : align < 18446744073709551616) :
    readSectionChk img imageBase soi va min align = readSection img imageBase soi va min align :=
  readSectionChk_eq img imageBase soi va min align ha

/-- `soi < 2^32`: `SizeOfImage` is a `u32` (`(va - image_base) as Rva` truncates below it) -/
theorem C02_readFile_checked_eq (img : Img) (secs : List Sec) (imageBase soi va min align : Nat)
    (hs : soi < 4294967296) (ha : align < 18446744073709551616) :
    readFileChk img secs imageBase soi va min align = readFile img secs imageBase soi va min align :=
  readFileChk_eq img secs imageBase soi va min align hs ha

/-- `slice`: every view, every rva, every minimum size, every `usize` alignment (power of two or not:
then both sides are the same `debug_assert!` panic) -/
theorem C02_slice_checked_eq (v : View) (rva min align : Nat) (ha : align < 18446744073709551616) :
    v.sliceChk rva min align = v.slice rva min align :=
  v.sliceChk_eq rva min align ha

theorem C02_read_checked_eq (v : View) (va min align : Nat) (ha : align < 18446744073709551616) :
    v.readChk va min align = v.read va min align :=
  v.readChk_eq va min align ha

theorem C02_at_checked_eq (v : View) (a : Addr) (min align : Nat) (ha : align < 18446744073709551616) :
    v.atChk a min align = v.at a min align :=
  v.atChk_eq a min align ha

theorem C02_rangeFile_never_panics (size : Nat) (secs : List Sec) (rva min : Nat) :
    (rangeFileChk size secs rva min).Clean := by
  rw [C02_rangeFile_checked_eq]; exact rangeFile_clean size secs rva min

/-- for every alignment the typed API can pass (a power of two) -/
theorem C02_slice_never_panics (v : View) (rva min align : Nat) (ha : align < 18446744073709551616)
    (hp : isPow2 align = true) : (v.sliceChk rva min align).Clean := by
  rw [C02_slice_checked_eq v rva min align ha]; exact C02_slice v rva min align hp

theorem C02_read_never_panics (v : View) (va min align : Nat) (ha : align < 18446744073709551616)
    (hp : isPow2 align = true) : (v.readChk va min align).Clean := by
  rw [C02_read_checked_eq v va min align ha]; exact C02_read v va min align hp

/-- the only panic of the checked `slice` is the `debug_assert!` of `aligned_to` (known finding) -/
theorem C02_slice_checked_panics_only_if (v : View) (rva min align : Nat) (ha : align < 18446744073709551616)
    (s : String) (h : v.sliceChk rva min align = .panic s) : isPow2 align = false ∧ rva ≠ 0 := by
  rw [C02_slice_checked_eq v rva min align ha] at h
  exact C02_slice_panics_only_if v rva min align s h

/-- the checked functions evaluated on the PE32+ file and the PE32 view (same answers as the real
code, see the correspondence run); the last three: the panic branches are live code -/
example : demo64File.sliceChk 256 0 1 = .ok ⟨240, 16, 1⟩ ∧ demo64File.sliceChk 271 2 1 = .err .zeroFill ∧
    demo64File.readChk 0x140000100 4 4 = .ok ⟨240, 16, 4⟩ ∧ demo64File.rvaToFileOffsetChk 272 = .err .zeroFill ∧
    demo64File.vaToRvaChk 0x140000120 = .ok 288 ∧ demoView.sliceChk 184 0 1 = .ok ⟨184, 16, 1⟩ ∧
    demoView.readChk 0x4000b8 0 8 = .ok ⟨184, 16, 8⟩ ∧
    demoView.sliceChk 184 0 3 = .panic "slice_section:aligned_to" ∧
    psub "site" 1 2 = .panic "site" ∧ pmulUsize "site" 4294967296 4294967296 = .panic "site" := by
  decide +kernel

/-! ### `Headers::check_sum` -/

/-- the checked checksum (u64 additions, `dwords[i]`, `&image[n * 4..]`, `last[..tail.len()]`,
`copy_from_slice`, `as u32`) never panics and is the model's checksum.

`hbase` (second audit round): `check_sum` reinterprets the buffer as `&[u32]` (`slice::from_raw_parts`,
headers.rs:39) without testing its alignment; the checked model now has `rawRef` there, so the statement
needs the buffer to be dword aligned.  Every view that came out of a constructor is
(`C02_checkSum_checked_eq_constructed`: `validate_headers` tests `image.as_ptr().aligned_to(4)`, pe.rs:778);
for other `View` values the hypothesis is necessary (`C02_checkSum_needs_aligned_base`). -/
theorem C02_checkSum_checked_eq (v : View) (hb : v.b.size < 4294967296) (hbase : v.img.base % 4 = 0) :
    v.checkSumChk = .ok v.checkSum :=
  checkSumChk_eq v hb hbase

/-- the guard of the constructor discharges the alignment: every constructed view, both formats, both
kinds, any overridden base address (`set_base_address` changes `imageBase`, not the buffer) -/
theorem C02_checkSum_checked_eq_constructed (f : Fmt) (k : Kind) (img : Img) (v : View)
    (hv : fromBytes f k img = .ok v) (base : Nat) (hb : img.bytes.size < 4294967296) :
    (v.setBase base).checkSumChk = .ok (v.setBase base).checkSum := by
  obtain ⟨ha, rfl⟩ := (fromBytes_ok_iff _ _ _ _).1 hv
  exact checkSumChk_eq _ hb ha.2.1

theorem C02_checkSum_never_panics (v : View) (hb : v.b.size < 4294967296) (hbase : v.img.base % 4 = 0) :
    v.checkSumChk.Clean := by
  rw [C02_checkSum_checked_eq v hb hbase]; exact Out.clean_ok _

/-- a `View` VALUE over a buffer at an odd address (no constructor returns one): the dword view is a
misaligned `from_raw_parts` -/
theorem C02_checkSum_needs_aligned_base :
    (⟨⟨demo64Img.bytes, 2⟩, .pe64, .file, 0⟩ : View).checkSumChk =
      .ub "headers.rs:39 slice::from_raw_parts(image.as_ptr() as *const u32, image.len() / 4)" ∧
    fromBytes .pe64 .file ⟨demo64Img.bytes, 2⟩ = .err .misaligned :=
  ⟨by decide +kernel, fromBytes_err_of_validate (by decide +kernel)⟩

example : demo64File.b.size = 256 ∧ demo64File.img.base % 4 = 0 ∧ demo64File.checkSumChk = .ok 45333 ∧
    demoView.checkSumChk = .ok demoView.checkSum ∧ (demoView.setBase 0x10000).checkSumChk = .ok demoView.checkSum := by
  decide +kernel

/-! ### `SectionHeaders::by_name` -/

/-- the two index expressions of the copy loop `name_buf[i] = name[i]` (wrap/sections.rs:104) are in range
for EVERY query (the length guard `name.len() > 8 → None` precedes the loop): the checked function —
the one the `byname` driver runs — never panics and is the model's `byNameBytes` -/
theorem C02_byNameBytes_checked_eq (secs : List Sec) (n : Bytes) :
    byNameBytesChk secs n = .ok (byNameBytes secs n) :=
  byNameBytesChk_eq secs n

theorem C02_byNameBytes_never_panics (secs : List Sec) (n : Bytes) : (byNameBytesChk secs n).Clean := by
  rw [C02_byNameBytes_checked_eq]; exact Out.clean_ok _

/-- queries of length 0, 4, 8 (no padding left) and 9 (too long) on the two sections of `twoSecPe32`;
the panicking primitive is live code (`pIndex`) -/
example : byNameBytesChk (sections twoSecPe32) #[46, 98, 115, 115] = .ok (some 1) ∧
    byNameBytesChk (sections twoSecPe32) #[46, 97] = .ok (some 0) ∧
    byNameBytesChk (sections twoSecPe32) #[] = .ok none ∧
    byNameBytesChk (sections twoSecPe32) #[46, 98, 115, 115, 0, 0, 0, 0] = .ok (some 1) ∧
    byNameBytesChk (sections twoSecPe32) #[46, 98, 115, 115, 0, 0, 0, 0, 0] = .ok none ∧
    byNameBytesChk (sections onePe64) #[46, 116] = .ok (some 0) ∧
    pIndex "site" 8 8 = .panic "site" := by
  decide +kernel

/-! ### typed reads (arithmetic, `&bytes[..len]`, `copy_from_slice`, and the unchecked accesses) -/

theorem C02_derva_checked_eq (v : View) (a : Addr) (size align : Nat) (ha : align < 18446744073709551616) :
    v.dervaChk a size align = v.derva a size align :=
  v.dervaChk_eq a size align ha

theorem C02_dervaCopy_checked_eq (v : View) (a : Addr) (size : Nat) : v.dervaCopyChk a size = v.dervaCopy a size :=
  v.dervaCopyChk_eq a size

theorem C02_dervaInto_checked_eq (v : View) (a : Addr) (len : Nat) : v.dervaIntoChk a len = v.dervaInto a len :=
  v.dervaIntoChk_eq a len

theorem C02_dervaSlice_checked_eq (v : View) (a : Addr) (size align len : Nat) (ha : align < 18446744073709551616) :
    v.dervaSliceChk a size align len = v.dervaSlice a size align len :=
  v.dervaSliceChk_eq a size align len ha

/-- the loop of `derva_slice_f`: `len * size_of::<T>()`, `offset + size_of::<T>()`, `len += 1`, `&*s`.
`hsa`: the size of a Rust type is a multiple of its alignment. -/
theorem C02_dervaSliceF_checked_eq (v : View) (a : Addr) (size align : Nat) (stop : Nat → Bool)
    (hb : v.b.size < 4294967296) (hsz : size < 18446744073709551616) (hsa : size % align = 0)
    (ha : align < 18446744073709551616) :
    v.dervaSliceFChk a size align stop = v.dervaSliceF a size align stop :=
  v.dervaSliceFChk_eq a size align stop hb hsz hsa ha

/-- the same loop driven by a STATEFUL callable (`F: FnMut`; `stop i x` = the answer of call `i`, made on
element `i` of value `x` — `Model/Typed.lean:sliceFLoopI`): the `derva_slice_f` / `deref_slice_f` ops of
the driver run this function -/
theorem C02_dervaSliceFI_checked_eq (v : View) (a : Addr) (size align : Nat) (stop : Nat → Nat → Bool)
    (hb : v.b.size < 4294967296) (hsz : size < 18446744073709551616) (hsa : size % align = 0)
    (ha : align < 18446744073709551616) :
    v.dervaSliceFIChk a size align stop = v.dervaSliceFI a size align stop :=
  v.dervaSliceFIChk_eq a size align stop hb hsz hsa ha

theorem C02_dervaSliceS_checked_eq (v : View) (a : Addr) (size align sentinel : Nat)
    (hb : v.b.size < 4294967296) (hsz : size < 18446744073709551616) (hsa : size % align = 0)
    (ha : align < 18446744073709551616) :
    v.dervaSliceSChk a size align sentinel = v.dervaSliceS a size align sentinel :=
  v.dervaSliceSChk_eq a size align sentinel hb hsz hsa ha

theorem C02_dervaCStr_checked_eq (v : View) (a : Addr) (hb : v.b.size < 4294967296) :
    v.dervaCStrChk a = v.dervaCStr a :=
  v.dervaCStrChk_eq a hb

theorem C02_dervaWStr_checked_eq (v : View) (a : Addr) : v.dervaWStrChk a = v.dervaWStr a :=
  v.dervaWStrChk_eq a

theorem C02_derva_never_panics (v : View) (a : Addr) (size align : Nat) (ha : align < 18446744073709551616)
    (hp : isPow2 align = true) : (v.dervaChk a size align).Clean := by
  rw [C02_derva_checked_eq v a size align ha]; exact C02_derva v a size align hp
theorem C02_dervaCopy_never_panics (v : View) (a : Addr) (size : Nat) : (v.dervaCopyChk a size).Clean := by
  rw [C02_dervaCopy_checked_eq]; exact C02_derva_copy v a size
theorem C02_dervaInto_never_panics (v : View) (a : Addr) (len : Nat) : (v.dervaIntoChk a len).Clean := by
  rw [C02_dervaInto_checked_eq]; exact C02_derva_into v a len
theorem C02_dervaSlice_never_panics (v : View) (a : Addr) (size align len : Nat) (ha : align < 18446744073709551616)
    (hp : isPow2 align = true) : (v.dervaSliceChk a size align len).Clean := by
  rw [C02_dervaSlice_checked_eq v a size align len ha]; exact C02_derva_slice v a size align len hp
/-- `1 ≤ size`: for a zero-sized element type the loop does not terminate (`C03_slice_f_zst_diverges`) -/
theorem C02_dervaSliceS_never_panics (v : View) (a : Addr) (size align sentinel : Nat)
    (hb : v.b.size < 4294967296) (hs : 1 ≤ size) (hsz : size < 18446744073709551616) (hsa : size % align = 0)
    (ha : align < 18446744073709551616) (hp : isPow2 align = true) :
    (v.dervaSliceSChk a size align sentinel).Clean := by
  rw [C02_dervaSliceS_checked_eq v a size align sentinel hb hsz hsa ha]
  exact C02_derva_slice_s v a size align sentinel hs hp
theorem C02_dervaSliceFI_never_panics (v : View) (a : Addr) (size align : Nat) (stop : Nat → Nat → Bool)
    (hb : v.b.size < 4294967296) (hs : 1 ≤ size) (hsz : size < 18446744073709551616) (hsa : size % align = 0)
    (ha : align < 18446744073709551616) (hp : isPow2 align = true) :
    (v.dervaSliceFIChk a size align stop).Clean := by
  rw [C02_dervaSliceFI_checked_eq v a size align stop hb hsz hsa ha]
  exact C02_derva_slice_fi v a size align stop hs hp
theorem C02_dervaCStr_never_panics (v : View) (a : Addr) (hb : v.b.size < 4294967296) : (v.dervaCStrChk a).Clean := by
  rw [C02_dervaCStr_checked_eq v a hb]; exact C02_derva_cstr v a
theorem C02_dervaWStr_never_panics (v : View) (a : Addr) : (v.dervaWStrChk a).Clean := by
  rw [C02_dervaWStr_checked_eq]
  unfold View.dervaWStr
  rcases v.at_clean a 2 2 (by decide) with ⟨r, h⟩ | ⟨e, h⟩ <;> rw [h]
  · dsimp only
    cases wstrFromBytes v.b r.off r.len
    · exact Out.clean_err _
    · exact Out.clean_ok _
  · exact Out.clean_err _

/-- hypotheses satisfied and the checked typed reads evaluated (u16 table `7, 9, 0xffff` at rva 260,
`"hi\0"` at rva 256, wide string at rva 266 of the PE32+ file) -/
example : demo64File.b.size < 4294967296 ∧ 2 % 2 = 0 ∧ isPow2 2 = true ∧
    demo64File.dervaSliceSChk (.rva 260) 2 2 0xffff = .ok ⟨244, 4, 2⟩ ∧
    demo64File.dervaSliceSChk (.va 0x140000104) 2 2 0x1234 = .err .bounds ∧
    demo64File.dervaCStrChk (.rva 256) = .ok ⟨240, 3, 1⟩ ∧ demo64File.dervaWStrChk (.rva 266) = .ok ⟨250, 6, 2⟩ ∧
    demo64File.dervaCopyChk (.rva 262) 2 = .ok 9 ∧ demo64File.dervaIntoChk (.rva 256) 3 = .ok [104, 105, 0] ∧
    demo64File.dervaIntoChk (.rva 256) 17 = .err .zeroFill ∧ demo64File.dervaIntoChk (.rva 256) 25 = .err .bounds ∧
    demo64File.dervaChk (.rva 257) 4 4 = .err .misaligned ∧ demo64File.dervaSliceChk (.rva 260) 2 2 3 = .ok ⟨244, 6, 2⟩ := by
  decide +kernel

/-! ### conversions -/

/-- `to_view` (`get_unchecked(..SizeOfHeaders)`, `dest[..len]`, `&src[..len]`, `copy_from_slice`) on a
constructed file view -/
theorem C02_toView_checked_eq (f : Fmt) (k : Kind) (img : Img) (v : View) (hv : fromBytes f k img = .ok v) :
    v.toViewChk = .ok v.toView :=
  v.toViewChk_eq (accept_soh hv).2 (accept_soh hv).1

/-- `to_file` on a constructed view -/
theorem C02_toFile_checked_eq (f : Fmt) (k : Kind) (img : Img) (v : View) (hv : fromBytes f k img = .ok v) :
    v.toFileChk = .ok v.toFile :=
  v.toFileChk_eq (soh_le_fileSize hv) (accept_soh hv).1

/-- the loop bodies alone: every section header, every pair of buffers -/
theorem C02_toViewStep_checked_eq (image vec : Bytes) (s : Sec) :
    toViewStepChk image vec s = .ok (toViewStep image vec s) := toViewStepChk_eq image vec s
theorem C02_toFileStep_checked_eq (image vec : Bytes) (s : Sec) :
    toFileStepChk image vec s = .ok (toFileStep image vec s) := toFileStepChk_eq image vec s

theorem C02_toView_never_panics (f : Fmt) (k : Kind) (img : Img) (v : View) (hv : fromBytes f k img = .ok v) :
    v.toViewChk.Clean := by
  rw [C02_toView_checked_eq f k img v hv]; exact Out.clean_ok _
theorem C02_toFile_never_panics (f : Fmt) (k : Kind) (img : Img) (v : View) (hv : fromBytes f k img = .ok v) :
    v.toFileChk.Clean := by
  rw [C02_toFile_checked_eq f k img v hv]; exact Out.clean_ok _

/-- the hypothesis holds for the PE32+ file; its conversion has the declared SizeOfImage -/
example : fromBytes .pe64 .file demo64Img = .ok demo64File ∧
    (demo64File.toViewChk >>= fun b => .ok (b.size, byteAt b 256, byteAt b 272)) = .ok (288, 104, 0) := by
  refine ⟨demo64File_ok, ?_⟩
  decide +kernel

end Pelite.Pe
