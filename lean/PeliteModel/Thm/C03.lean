import PeliteModel.Lemmas.Cross
/-!
C03 — termination and work bounds.  Every model function is total in Lean (structural or
well-founded recursion, whose termination proofs the kernel checked), so what remains to state are
the fuel-sufficiency theorems of the fuel-driven loops and the item-count bounds.
The obligations of the other modules (resources, version info, interpreter, scanner, Rich header,
formatters) are in their own property files.
-/
namespace Pelite.Pe

/-- string enumeration: fuel `len + 2` suffices and at most `len` strings are reported -/
theorem C03_strings (bytes : Bytes) (cfg : Strings.Config) (hm : 1 ≤ cfg.minLen) (hn : 1 ≤ cfg.minLenNul) :
    ∃ fs, Strings.enumAll bytes cfg (bytes.size + 2) 0 = .ok fs ∧ fs.length ≤ bytes.size := by
  obtain ⟨fs, h, hmem, hpw⟩ := Strings.C20_enumerate_exact bytes cfg hm hn
  refine ⟨fs, h, ?_⟩
  have := Strings.length_le_of_pairwise bytes.size fs 0
    (fun f hf => by
      obtain ⟨h1, h2, -⟩ := (hmem f).1 hf
      exact ⟨Nat.zero_le _, h1, h2⟩) hpw
  omega

/-- relocation blocks: at most `len / 8` blocks, each with at most `len / 2` entries -/
theorem C03_reloc_blocks (data : Bytes) :
    (Relocs.blocks data).length ≤ data.size / 8 ∧ ∀ b ∈ Relocs.blocks data, 2 * b.nwords ≤ data.size := by
  exact ⟨Relocs.C14_blocks_count data, fun b hb => Relocs.nwords_le hb⟩

/-- sentinel scans: the loop runs at most `window / size + 1` iterations (fuel `window + 2` suffices) -/
theorem C03_sentinel_scan (v : View) (a : Addr) (size align sentinel : Nat) (hs : 1 ≤ size) :
    v.dervaSliceS a size align sentinel ≠ .diverge := by
  cases hat : v.at a 0 align with
  | ok s => exact (C05_derva_slice_s v a size align sentinel hs s hat).2.2
  | diverge => exact absurd hat (v.at_ne_diverge a 0 align)
  | _ =>
    unfold View.dervaSliceS View.dervaSliceF
    rw [hat]
    intro h
    cases h

/-- section lookups visit each of the (at most 96) section headers once -/
theorem C03_section_count (f : Fmt) (k : Kind) (img : Img) (v : View) (h : fromBytes f k img = .ok v) :
    v.secs.length ≤ 96 := by
  obtain ⟨ha, rfl⟩ := (fromBytes_ok_iff _ _ _ _).1 h
  unfold Accept at ha
  dsimp only at ha
  show (sections img.bytes).length ≤ 96
  rw [C07_sections_length]
  exact ha.2.2.2.2.2.2.2.2.2.2.2.1

/-- the loop of `derva_slice_f` / `deref_slice_f` for EVERY callable `f` (not only `== sentinel`) and
every element size ≥ 1: fuel `window + 2` is never exhausted -/
theorem C03_slice_f (v : View) (a : Addr) (size align : Nat) (stop : Nat → Bool) (hs : 1 ≤ size) :
    v.dervaSliceF a size align stop ≠ .diverge := by
  unfold View.dervaSliceF
  cases hat : v.at a 0 align with
  | ok s =>
    dsimp only
    have := sliceFLoop_ne_diverge (b := v.b) (off := s.off) (blen := s.len) (stop := stop) hs (s.len + 2) 0
      (by omega) (by omega)
    cases hL : sliceFLoop v.b s.off s.len size stop (s.len + 2) 0 with
    | diverge => exact absurd hL this
    | _ => intro h; cases h
  | diverge => exact absurd hat (v.at_ne_diverge a 0 align)
  | _ => intro h; cases h

/-- the iteration bound itself: when fewer than `k + 1` elements fit into the window
(`window < (k + 1) * size`, e.g. `k = window / size`), `k + 1` iterations always suffice — whatever the
callable, whatever the bytes -/
theorem C03_slice_f_iterations (b : Bytes) (off blen size : Nat) (stop : Nat → Bool) (k : Nat)
    (hk : blen < (k + 1) * size) : sliceFLoop b off blen size stop (k + 1) 0 ≠ .diverge := by
  have key : ∀ (fuel len : Nat), 1 ≤ fuel → blen < (fuel + len) * size →
      sliceFLoop b off blen size stop fuel len ≠ .diverge := by
    intro fuel
    induction fuel with
    | zero => intro len h; omega
    | succ fuel ih =>
      intro len _ h
      rw [sliceFLoop_succ]
      by_cases hb : len * size + size > blen
      · rw [if_pos hb]; intro h'; cases h'
      · rw [if_neg hb]
        by_cases hst : stop (leN b (off + len * size) size) = true
        · rw [if_pos hst]; intro h'; cases h'
        · rw [if_neg hst]
          have e : fuel + 1 + len = fuel + (len + 1) := by omega
          rw [e] at h
          rcases Nat.eq_zero_or_pos fuel with h0 | h0
          · subst h0
            rw [Nat.zero_add, Nat.succ_mul] at h
            omega
          · exact ih (len + 1) h0 h
  exact key (k + 1) 0 (by omega) (by simpa using hk)

/-- `window / size + 1` iterations, as the bound is usually quoted -/
theorem C03_slice_f_iterations_div (b : Bytes) (off blen size : Nat) (stop : Nat → Bool) (hs : 1 ≤ size) :
    sliceFLoop b off blen size stop (blen / size + 1) 0 ≠ .diverge := by
  apply C03_slice_f_iterations
  have := Nat.lt_div_mul_add (a := blen) (b := size) hs
  rw [Nat.succ_mul]
  exact this

/-- **The hypothesis `1 ≤ size` is necessary, in the model and in the Rust code.**  For a zero-sized
element type the test `offset + size_of::<T>() > bytes.len()` (pe.rs:354) is `0 > len`: never true, so
the loop is bounded only by the callable.  `()` is `Pod` in `dataview`, and
`file.derva_slice_f::<(), _>(256, f)` on this very 256-byte image called `f` 10^9 times inside a
16-byte window before `f` gave up (scratch program against the real code, checked build): the number
of iterations is NOT bounded by the input.  No type of the crate's own API is zero sized. -/
theorem C03_slice_f_zst_diverges :
    demo64File.at (.rva 256) 0 1 = .ok ⟨240, 16, 1⟩ ∧
    demo64File.dervaSliceF (.rva 256) 0 1 (fun _ => false) = .diverge ∧
    ∀ fuel len, sliceFLoop demo64File.b 240 16 0 (fun _ => false) fuel len = .diverge := by
  refine ⟨by decide +kernel, by decide +kernel, ?_⟩
  intro fuel
  induction fuel with
  | zero => intro len; rfl
  | succ fuel ih =>
    intro len
    rw [sliceFLoop_succ, if_neg (by omega), if_neg (by simp)]
    exact ih (len + 1)

/-! ### non-vacuity -/

/-- `C03_section_count`: a PE32+ file the model (and the real code) accepts, with its one section -/
example : fromBytes .pe64 .file demo64Img = .ok demo64File ∧ demo64File.secs.length = 1 ∧
    demo64File.secs = [⟨0x7461642e, 0x61, 24, 256, 16, 240, 0⟩] := by
  refine ⟨demo64File_ok, ?_⟩
  decide +kernel

/-- `C03_sentinel_scan` / `C03_slice_f`: `1 ≤ size` for every integer element; the u16 table `7, 9, 0xffff`
of the PE32+ file is scanned in 3 iterations, a missing sentinel ends at the window (`Bounds`) -/
example : 1 ≤ 2 ∧ demo64File.dervaSliceS (.rva 260) 2 2 0xffff = .ok ⟨244, 4, 2⟩ ∧
    sliceFLoop demo64File.b 244 12 2 (fun x => x == 0xffff) 3 0 = .ok 2 ∧
    demo64File.dervaSliceS (.rva 260) 2 2 0x1234 = .err .bounds ∧
    sliceFLoop demo64File.b 244 12 2 (fun x => x == 0x1234) (12 / 2 + 1) 0 = .err .bounds := by
  decide +kernel

/-- `C03_strings`: thresholds ≥ 1, two strings out of 11 bytes; `C03_reloc_blocks` has no hypothesis -/
example : (1 ≤ (⟨3, 3, false⟩ : Strings.Config).minLen ∧ 1 ≤ (⟨3, 3, false⟩ : Strings.Config).minLenNul) ∧
    Strings.enumAll #[0x1f, 0x43, 0x2d, 0x53, 0x54, 0x00, 0x80, 0x41, 0x41, 0x41, 0xff] ⟨3, 3, false⟩ 13 0 =
      .ok [⟨1, 4, true⟩, ⟨7, 3, false⟩] := by
  decide +kernel

end Pelite.Pe
