import PeliteModel.Lemmas.Cross
import PeliteModel.Thm.C06
/-!
C03 — termination and work bounds.  Every model function is total in Lean (structural or
well-founded recursion, whose termination proofs the kernel checked), so what remains to state are
the fuel-sufficiency theorems of the fuel-driven loops and the item-count bounds.
The obligations of the other modules (resources, version info, interpreter, scanner, Rich header,
formatters) are in their own property files.
-/
namespace Pelite.Pe

/-- string enumeration: fuel `len + 2` suffices and at most `len` strings are reported -/
theorem C03_strings (bytes : Bytes) (cfg : Strings.Config) (hm : 1 ≤ cfg.minLen) (hn : 1 ≤ cfg.minLenNul) :
    ∃ fs, Strings.enumAll bytes cfg (bytes.size + 2) 0 = .ok fs ∧ fs.length ≤ bytes.size := by
  obtain ⟨fs, h, hmem, hpw⟩ := Strings.C20_enumerate_exact bytes cfg hm hn
  refine ⟨fs, h, ?_⟩
  have := Strings.length_le_of_pairwise bytes.size fs 0
    (fun f hf => by
      obtain ⟨h1, h2, -⟩ := (hmem f).1 hf
      exact ⟨Nat.zero_le _, h1, h2⟩) hpw
  omega

/-- relocation blocks: at most `len / 8` blocks, each with at most `len / 2` entries -/
theorem C03_reloc_blocks (data : Bytes) :
    (Relocs.blocks data).length ≤ data.size / 8 ∧ ∀ b ∈ Relocs.blocks data, 2 * b.nwords ≤ data.size := by
  exact ⟨Relocs.C14_blocks_count data, fun b hb => Relocs.nwords_le hb⟩

/-- sentinel scans: the loop runs at most `window / size + 1` iterations (fuel `window + 2` suffices) -/
theorem C03_sentinel_scan (v : View) (a : Addr) (size align sentinel : Nat) (hs : 1 ≤ size) :
    v.dervaSliceS a size align sentinel ≠ .diverge := by
  cases hat : v.at a 0 align with
  | ok s => exact (C05_derva_slice_s v a size align sentinel hs s hat).2.2
  | diverge => exact absurd hat (v.at_ne_diverge a 0 align)
  | _ =>
    unfold View.dervaSliceS View.dervaSliceF
    rw [hat]
    intro h
    cases h

/-- section lookups visit each of the (at most 96) section headers once -/
theorem C03_section_count (f : Fmt) (k : Kind) (img : Img) (v : View) (h : fromBytes f k img = .ok v) :
    v.secs.length ≤ 96 := by
  obtain ⟨ha, rfl⟩ := (fromBytes_ok_iff _ _ _ _).1 h
  unfold Accept at ha
  dsimp only at ha
  show (sections img.bytes).length ≤ 96
  rw [C07_sections_length]
  exact ha.2.2.2.2.2.2.2.2.2.2.2.1

/-- the loop of `derva_slice_f` / `deref_slice_f` for EVERY callable `f` (not only `== sentinel`) and
every element size ≥ 1: fuel `window + 2` is never exhausted -/
theorem C03_slice_f (v : View) (a : Addr) (size align : Nat) (stop : Nat → Bool) (hs : 1 ≤ size) :
    v.dervaSliceF a size align stop ≠ .diverge := by
  unfold View.dervaSliceF
  cases hat : v.at a 0 align with
  | ok s =>
    dsimp only
    have := sliceFLoop_ne_diverge (b := v.b) (off := s.off) (blen := s.len) (stop := stop) hs (s.len + 2) 0
      (by omega) (by omega)
    cases hL : sliceFLoop v.b s.off s.len size stop (s.len + 2) 0 with
    | diverge => exact absurd hL this
    | _ => intro h; cases h
  | diverge => exact absurd hat (v.at_ne_diverge a 0 align)
  | _ => intro h; cases h

/-- the iteration bound itself: when fewer than `k + 1` elements fit into the window
(`window < (k + 1) * size`, e.g. `k = window / size`), `k + 1` iterations always suffice — whatever the
callable, whatever the bytes -/
theorem C03_slice_f_iterations (b : Bytes) (off blen size : Nat) (stop : Nat → Bool) (k : Nat)
    (hk : blen < (k + 1) * size) : sliceFLoop b off blen size stop (k + 1) 0 ≠ .diverge := by
  have key : ∀ (fuel len : Nat), 1 ≤ fuel → blen < (fuel + len) * size →
      sliceFLoop b off blen size stop fuel len ≠ .diverge := by
    intro fuel
    induction fuel with
    | zero => intro len h; omega
    | succ fuel ih =>
      intro len _ h
      rw [sliceFLoop_succ]
      by_cases hb : len * size + size > blen
      · rw [if_pos hb]; intro h'; cases h'
      · rw [if_neg hb]
        by_cases hst : stop (leN b (off + len * size) size) = true
        · rw [if_pos hst]; intro h'; cases h'
        · rw [if_neg hst]
          have e : fuel + 1 + len = fuel + (len + 1) := by omega
          rw [e] at h
          rcases Nat.eq_zero_or_pos fuel with h0 | h0
          · subst h0
            rw [Nat.zero_add, Nat.succ_mul] at h
            omega
          · exact ih (len + 1) h0 h
  exact key (k + 1) 0 (by omega) (by simpa using hk)

/-- `window / size + 1` iterations, as the bound is usually quoted -/
theorem C03_slice_f_iterations_div (b : Bytes) (off blen size : Nat) (stop : Nat → Bool) (hs : 1 ≤ size) :
    sliceFLoop b off blen size stop (blen / size + 1) 0 ≠ .diverge := by
  apply C03_slice_f_iterations
  have := Nat.lt_div_mul_add (a := blen) (b := size) hs
  rw [Nat.succ_mul]
  exact this

/-- **The hypothesis `1 ≤ size` is necessary, in the model and in the Rust code.**  For a zero-sized
element type the test `offset + size_of::<T>() > bytes.len()` (pe.rs:354) is `0 > len`: never true, so
the loop is bounded only by the callable.  `()` is `Pod` in `dataview`, and
`file.derva_slice_f::<(), _>(256, f)` on this very 256-byte image called `f` 10^9 times inside a
16-byte window before `f` gave up (scratch program against the real code, checked build): the number
of iterations is NOT bounded by the input.  No type of the crate's own API is zero sized. -/
theorem C03_slice_f_zst_diverges :
    demo64File.at (.rva 256) 0 1 = .ok ⟨240, 16, 1⟩ ∧
    demo64File.dervaSliceF (.rva 256) 0 1 (fun _ => false) = .diverge ∧
    ∀ fuel len, sliceFLoop demo64File.b 240 16 0 (fun _ => false) fuel len = .diverge := by
  refine ⟨by decide +kernel, by decide +kernel, ?_⟩
  intro fuel
  induction fuel with
  | zero => intro len; rfl
  | succ fuel ih =>
    intro len
    rw [sliceFLoop_succ, if_neg (by omega), if_neg (by simp)]
    exact ih (len + 1)

/-! ### non-vacuity -/

/-- `C03_section_count`: a PE32+ file the model (and the real code) accepts, with its one section -/
example : fromBytes .pe64 .file demo64Img = .ok demo64File ∧ demo64File.secs.length = 1 ∧
    demo64File.secs = [⟨0x7461642e, 0x61, 24, 256, 16, 240, 0⟩] := by
  refine ⟨demo64File_ok, ?_⟩
  decide +kernel

/-- `C03_sentinel_scan` / `C03_slice_f`: `1 ≤ size` for every integer element; the u16 table `7, 9, 0xffff`
of the PE32+ file is scanned in 3 iterations, a missing sentinel ends at the window (`Bounds`) -/
example : 1 ≤ 2 ∧ demo64File.dervaSliceS (.rva 260) 2 2 0xffff = .ok ⟨244, 4, 2⟩ ∧
    sliceFLoop demo64File.b 244 12 2 (fun x => x == 0xffff) 3 0 = .ok 2 ∧
    demo64File.dervaSliceS (.rva 260) 2 2 0x1234 = .err .bounds ∧
    sliceFLoop demo64File.b 244 12 2 (fun x => x == 0x1234) (12 / 2 + 1) 0 = .err .bounds := by
  decide +kernel

/-- `C03_strings`: thresholds ≥ 1, two strings out of 11 bytes; `C03_reloc_blocks` has no hypothesis -/
example : (1 ≤ (⟨3, 3, false⟩ : Strings.Config).minLen ∧ 1 ≤ (⟨3, 3, false⟩ : Strings.Config).minLenNul) ∧
    Strings.enumAll #[0x1f, 0x43, 0x2d, 0x53, 0x54, 0x00, 0x80, 0x41, 0x41, 0x41, 0xff] ⟨3, 3, false⟩ 13 0 =
      .ok [⟨1, 4, true⟩, ⟨7, 3, false⟩] := by
  decide +kernel

/-! ### second audit round -/

/-- the loop of `derva_slice_f` / `deref_slice_f` driven by a STATEFUL callable (`F: FnMut`; `stop i x` is the
answer of call `i`): fuel `window + 2` is never exhausted, whatever the callable does -/
theorem C03_slice_fi (v : View) (a : Addr) (size align : Nat) (stop : Nat → Nat → Bool) (hs : 1 ≤ size) :
    v.dervaSliceFI a size align stop ≠ .diverge := by
  unfold View.dervaSliceFI
  cases hat : v.at a 0 align with
  | ok s =>
    dsimp only
    have := sliceFLoopI_ne_diverge (b := v.b) (off := s.off) (blen := s.len) (stop := stop) hs (s.len + 2) 0
      (by omega) (by omega)
    cases hL : sliceFLoopI v.b s.off s.len size stop (s.len + 2) 0 with
    | diverge => exact absurd hL this
    | _ => intro h; cases h
  | diverge => exact absurd hat (v.at_ne_diverge a 0 align)
  | _ => intro h; cases h

/-- … and it makes at most `window / size + 1` calls: the callable is called once per loop iteration -/
theorem C03_slice_fi_iterations (b : Bytes) (off blen size : Nat) (stop : Nat → Nat → Bool) (hs : 1 ≤ size) :
    sliceFLoopI b off blen size stop (blen / size + 1) 0 ≠ .diverge := by
  have key : ∀ (fuel len : Nat), 1 ≤ fuel → blen < (fuel + len) * size →
      sliceFLoopI b off blen size stop fuel len ≠ .diverge := by
    intro fuel
    induction fuel with
    | zero => intro len h; omega
    | succ fuel ih =>
      intro len _ h
      rw [sliceFLoopI_succ]
      by_cases hb : len * size + size > blen
      · rw [if_pos hb]; intro h'; cases h'
      · rw [if_neg hb]
        by_cases hst : stop len (leN b (off + len * size) size) = true
        · rw [if_pos hst]; intro h'; cases h'
        · rw [if_neg hst]
          have e : fuel + 1 + len = fuel + (len + 1) := by omega
          rw [e] at h
          rcases Nat.eq_zero_or_pos fuel with h0 | h0
          · subst h0
            rw [Nat.zero_add, Nat.succ_mul] at h
            omega
          · exact ih (len + 1) h0 h
  apply key (blen / size + 1) 0 (Nat.le_add_left 1 _)
  have := Nat.lt_div_mul_add (a := blen) (b := size) hs
  rw [Nat.add_zero, Nat.succ_mul]
  exact this

/-- a 226-byte PE32 file (`tinyPe`, Lemmas/Convert.lean) whose SizeOfImage field is `0xffffffff` -/
def hugeImg : Img := ⟨(((tinyPe 2 255).set! 145 255).set! 146 255).set! 147 255, 0⟩
def hugeFile : View := ⟨hugeImg, .pe32, .file, imageBaseField .pe32 hugeImg.bytes⟩
/-- the 256-byte PE32+ file `demo64Img` with SizeOfImage `0xffffffff` -/
def huge64Img : Img := ⟨(((demo64Img.bytes.set! 144 255).set! 145 255).set! 146 255).set! 147 255, 0⟩
def huge64File : View := ⟨huge64Img, .pe64, .file, imageBaseField .pe64 huge64Img.bytes⟩

/-- **Scope of C03: the conversions do work proportional to the DECLARED image size, not to the input.**
`validate_headers` bounds `SizeOfHeaders` by the buffer and by `SizeOfImage`, but `SizeOfImage` itself by
nothing (`C07_validate_ok_iff`).  `PeFile::to_view` allocates and zero-fills `vec![0u8; SizeOfImage]`
(file.rs:52; `C06_to_view_size`: the result has exactly `SizeOfImage` bytes for EVERY accepted file), so an
accepted file of 226 bytes (PE32) or 256 bytes (PE32+) makes it produce `2^32 - 1` bytes.  The work of
the parsing entry points of C03 (constructors, lookups, scans) is bounded by the input length; that of
`to_view` — and of `to_file`, whose result is at most `SizeOfImage` long, the buffer of a mapped image —
by the declared size.  (Stated from the size theorem; nothing here evaluates the 4 GiB buffer.) -/
theorem C03_to_view_size_unbounded :
    (hugeImg.bytes.size = 226 ∧ fromBytes .pe32 .file hugeImg = .ok hugeFile ∧ hugeFile.secs.length = 1 ∧
      hugeFile.toView.size = 4294967295) ∧
    (huge64Img.bytes.size = 256 ∧ fromBytes .pe64 .file huge64Img = .ok huge64File ∧ huge64File.secs.length = 1 ∧
      huge64File.toView.size = 4294967295) := by
  have h1 : fromBytes .pe32 .file hugeImg = .ok hugeFile :=
    (fromBytes_ok_iff _ _ _ _).2 ⟨by decide +kernel, rfl⟩
  have h2 : fromBytes .pe64 .file huge64Img = .ok huge64File :=
    (fromBytes_ok_iff _ _ _ _).2 ⟨by decide +kernel, rfl⟩
  refine ⟨⟨by decide +kernel, h1, by decide +kernel, ?_⟩, ⟨by decide +kernel, h2, by decide +kernel, ?_⟩⟩
  · rw [C06_to_view_size .pe32 hugeImg hugeFile h1]
    decide +kernel
  · rw [C06_to_view_size .pe64 huge64Img huge64File h2]
    decide +kernel

/-- in general: the size of the conversion result is the declared one, for every accepted file, and every
value of the field is possible above `SizeOfHeaders` -/
theorem C03_to_view_work_is_declared_size (f : Fmt) (img : Img) (v : View) (hv : fromBytes f .file img = .ok v) :
    v.toView.size = sizeOfImage v.b ∧ sizeOfImage v.b < 4294967296 :=
  ⟨C06_to_view_size f img v hv, le32_lt _ _⟩

end Pelite.Pe
