import PeliteModel.Lemmas.Cross
/-!
C03 — termination and work bounds.  Every model function is total in Lean (structural or
well-founded recursion, whose termination proofs the kernel checked), so what remains to state are
the fuel-sufficiency theorems of the fuel-driven loops and the item-count bounds.
The obligations of the other modules (resources, version info, interpreter, scanner, Rich header,
formatters) are in their own property files.
-/
namespace Pelite.Pe

/-- string enumeration: fuel `len + 2` suffices and at most `len` strings are reported -/
theorem C03_strings (bytes : Bytes) (cfg : Strings.Config) (hm : 1 ≤ cfg.minLen) (hn : 1 ≤ cfg.minLenNul) :
    ∃ fs, Strings.enumAll bytes cfg (bytes.size + 2) 0 = .ok fs ∧ fs.length ≤ bytes.size := by
  obtain ⟨fs, h, hmem, hpw⟩ := Strings.C20_enumerate_exact bytes cfg hm hn
  refine ⟨fs, h, ?_⟩
  have := Strings.length_le_of_pairwise bytes.size fs 0
    (fun f hf => by
      obtain ⟨h1, h2, -⟩ := (hmem f).1 hf
      exact ⟨Nat.zero_le _, h1, h2⟩) hpw
  omega

/-- relocation blocks: at most `len / 8` blocks, each with at most `len / 2` entries -/
theorem C03_reloc_blocks (data : Bytes) :
    (Relocs.blocks data).length ≤ data.size / 8 ∧ ∀ b ∈ Relocs.blocks data, 2 * b.nwords ≤ data.size := by
  exact ⟨Relocs.C14_blocks_count data, fun b hb => Relocs.nwords_le hb⟩

/-- sentinel scans: the loop runs at most `window / size + 1` iterations (fuel `window + 2` suffices) -/
theorem C03_sentinel_scan (v : View) (a : Addr) (size align sentinel : Nat) (hs : 1 ≤ size) :
    v.dervaSliceS a size align sentinel ≠ .diverge := by
  cases hat : v.at a 0 align with
  | ok s => exact (C05_derva_slice_s v a size align sentinel hs s hat).2.2
  | diverge => exact absurd hat (v.at_ne_diverge a 0 align)
  | _ =>
    unfold View.dervaSliceS View.dervaSliceF
    rw [hat]
    intro h
    cases h

/-- section lookups visit each of the (at most 96) section headers once -/
theorem C03_section_count (f : Fmt) (k : Kind) (img : Img) (v : View) (h : fromBytes f k img = .ok v) :
    v.secs.length ≤ 96 := by
  obtain ⟨ha, rfl⟩ := (fromBytes_ok_iff _ _ _ _).1 h
  unfold Accept at ha
  dsimp only at ha
  show (sections img.bytes).length ≤ 96
  rw [C07_sections_length]
  exact ha.2.2.2.2.2.2.2.2.2.2.2.1

end Pelite.Pe
