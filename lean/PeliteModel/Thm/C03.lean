import PeliteModel.Lemmas.Cross
/-!
C03 — termination and work bounds.  Every model function is total in Lean (structural or
well-founded recursion, whose termination proofs the kernel checked), so what remains to state are
the fuel-sufficiency theorems of the fuel-driven loops and the item-count bounds.
The obligations of the other modules (resources, version info, interpreter, scanner, Rich header,
formatters) are in their own property files.
-/
namespace Pelite.Pe

/-- string enumeration: fuel `len + 2` suffices and at most `len` strings are reported -/
theorem C03_strings (bytes : Bytes) (cfg : Strings.Config) (hm : 1 ≤ cfg.minLen) (hn : 1 ≤ cfg.minLenNul) :
    ∃ fs, Strings.enumAll bytes cfg (bytes.size + 2) 0 = .ok fs ∧ fs.length ≤ bytes.size := by
  sorry

/-- relocation blocks: at most `len / 8` blocks, each with at most `len / 2` entries -/
theorem C03_reloc_blocks (data : Bytes) :
    (Relocs.blocks data).length ≤ data.size / 8 ∧ ∀ b ∈ Relocs.blocks data, 2 * b.nwords ≤ data.size := by
  sorry

/-- sentinel scans: the loop runs at most `window / size + 1` iterations (fuel `window + 2` suffices) -/
theorem C03_sentinel_scan (v : View) (a : Addr) (size align sentinel : Nat) (hs : 1 ≤ size) :
    v.dervaSliceS a size align sentinel ≠ .diverge := by
  sorry

/-- section lookups visit each of the (at most 96) section headers once -/
theorem C03_section_count (f : Fmt) (k : Kind) (img : Img) (v : View) (h : fromBytes f k img = .ok v) :
    v.secs.length ≤ 96 := by
  sorry

end Pelite.Pe
