import PeliteModel.Model.CStrFmt
/-!
C03 (formatting terminates) for the hand-written formatters of `util::CStr`.
Termination itself is the kernel-checked well-founded recursion of `debugLoop` / `displayLoop`
(every arm consumes at least one byte — the property that was violated for a leading 0x7F before the
fix); stated here: output length bounds, and that the Debug rendering is printable ASCII only.
-/
namespace Pelite.CStrFmt

theorem escX_length (b : Nat) : (escX b).length = 4 := rfl

theorem flatMap_escX_length (l : List Nat) : (l.flatMap escX).length = 4 * l.length := by
  induction l with
  | nil => rfl
  | cons b bs ih => simp [List.flatMap_cons, escX_length, ih]; omega

/-- work bound: the Debug rendering writes at most 4 bytes per input byte (plus the two quotes) -/
theorem C03_debug_length (bytes : List Nat) : (debug bytes).length ≤ 4 * bytes.length + 2 := by
  have h : ∀ l : List Nat, (debugLoop l).length ≤ 4 * l.length := by
    intro l
    fun_induction debugLoop l with
    | case1 => simp
    | case2 bs ih => simp only [List.length_append, List.length_cons, List.length_nil]; omega
    | case3 bs h0 ih => simp only [List.length_append, List.length_cons, List.length_nil]; omega
    | case4 bs h0 h1 ih => simp only [List.length_append, List.length_cons, List.length_nil]; omega
    | case5 bs h0 h1 h2 ih => simp only [List.length_append, List.length_cons, List.length_nil]; omega
    | case6 bs h0 h1 h2 h3 ih => simp only [List.length_append, List.length_cons, List.length_nil]; omega
    | case7 bs h0 h1 h2 h3 h4 ih => simp only [List.length_append, List.length_cons, List.length_nil]; omega
    | case8 b bs h0 h1 h2 h3 h4 h5 hp n ih =>
      have := splitAt_le dbgStopPrintable bs
      simp only [List.length_append, List.length_cons, List.length_take, List.length_drop] at *
      omega
    | case9 b bs h0 h1 h2 h3 h4 h5 hp n ih =>
      have := splitAt_le dbgStopEscape bs
      simp only [List.length_append, flatMap_escX_length, List.length_cons, List.length_take, List.length_drop] at *
      omega
  have := h bytes
  simp only [debug, List.length_append, List.length_cons, List.length_nil]
  omega

theorem C03_display_length (bytes : List Nat) : (display bytes).length ≤ 4 * bytes.length := by
  unfold display
  fun_induction displayLoop bytes with
  | case1 => simp
  | case2 b bs hb n ih =>
    have := splitAt_le (fun x => decide (x ≥ 0x80)) bs
    simp only [List.length_append, List.length_cons, List.length_take, List.length_drop] at *
    omega
  | case3 b bs hb n ih =>
    have := splitAt_le (fun x => decide (x < 0x80)) bs
    simp only [List.length_append, flatMap_escX_length, List.length_cons, List.length_take, List.length_drop] at *
    omega

/-- Non-vacuity / regression: the input that used to hang (`b"\x7fa"`) and a mixed string. -/
example : debug [0x7f, 0x61] = [34, 92, 120, 55, 70, 97, 34] := by decide +kernel
example : display [0x41, 0xff, 0x42] = [0x41, 92, 120, 70, 70, 0x42] := by decide +kernel

end Pelite.CStrFmt
