import PeliteModel.Thm.C10
/-!
C03, state anchor `Matches.range.start` ("scan cursor; must strictly increase on every reported or rejected
candidate"): a call of `Matches::next` that reports a match leaves `range.start` strictly beyond where it was, never
beyond `range.end`; a call that reports nothing never moves it backwards.  So a `while matches.next(..)` loop reports at
most `range.end - range.start` matches — the bound the `scan` operation of the harness enforces on the real code
(`diverge` when a reported match leaves `range.start` in place).
-/
namespace Pelite.Scan
open Pelite Pelite.Pattern Pelite.Exec

theorem C03_scan_progress (v : Pe.View) (hsz : v.b.size < 4294967296) (pat : List Atom)
    (hok : pat.all Atom.ok = true) (m : MSt) (save : Array Nat) (hstop : m.stop < 4294967296) :
    ∃ r, next v pat m save = .ok r ∧ m.start ≤ r.m.start ∧ r.m.stop = m.stop ∧
      (r.found = true → m.start < r.m.start ∧ r.m.start ≤ m.stop) := by
  obtain ⟨r, hr, h1, h2, h3⟩ := C10_next_sound v hsz pat hok m save hstop
  refine ⟨r, hr, h2, h1, fun hf => ?_⟩
  obtain ⟨a1, _, a3, a4, _⟩ := h3 hf
  exact ⟨by omega, a4⟩

end Pelite.Scan
