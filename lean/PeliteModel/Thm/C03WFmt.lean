import PeliteModel.Model.WStrFmt
/-!
C03 (and the strings C12/C13/C19 print): the formatters of `util::WideStr` (src/util/wide_str.rs).

* termination is structural (`decodeUtf16` consumes at least one code unit per item);
* work / output bounds: at most one item per code unit, at most 4 bytes (Display) or 6 bytes (Debug) per
  code unit, for EVERY word list — unpaired surrogates, NULs, quotes included;
* Display is the lossy decoding the serializer of wide resource names writes (`resNameJson`), equals
  `to_string()` whenever that succeeds, and `to_string` fails exactly with the first unpaired surrogate;
* `PartialEq<str>` (used by `Name::eq_string`, i.e. by `find`) holds exactly for the strings whose
  `to_string` is the UTF-8 text of the given scalar values;
* Debug never writes a raw NUL, line break, tab, and every quote / backslash of the body is escaped:
  the text between `L"` and the final `"` consists of two-byte escapes, `\uXXXX` escapes and other characters.
-/
namespace Pelite.WStrFmt
open Pelite.Resources (decodeUtf16 U16Item)
open Pelite.Pe (utf8Enc)

theorem utf8Enc_length_le (c : Nat) : (utf8Enc c).length ≤ 4 := by
  unfold utf8Enc; split
  · simp
  · split
    · simp
    · split <;> simp

theorem utf8Enc_length_pos (c : Nat) : 1 ≤ (utf8Enc c).length := by
  unfold utf8Enc; split
  · simp
  · split
    · simp
    · split <;> simp

theorem utf8Enc_length_bmp (c : Nat) (h : c < 0x10000) : (utf8Enc c).length ≤ 3 := by
  unfold utf8Enc; split
  · simp
  · split
    · simp
    · simp

/-- one item per code unit at most: the loop of both formatters runs at most `len` times -/
theorem C03_wstr_items_le (ws : List Nat) : (decodeUtf16 ws).length ≤ ws.length := by
  fun_induction decodeUtf16 ws <;> simp_all <;> try omega

theorem displayItem_length_le (it : U16Item) : (displayItem it).length ≤ 4 := by
  cases it <;> simp [displayItem, utf8Enc_length_le]

theorem escU_length (u : Nat) : (escU u).length = 6 := rfl

theorem debugItem_length_le (it : U16Item) : (debugItem it).length ≤ 6 := by
  cases it with
  | ok c =>
    simp only [debugItem]
    have := utf8Enc_length_le c
    repeat' split
    all_goals (try simp)
    all_goals (try omega)
  | bad u => simp [debugItem, escU_length]

theorem flatMap_length_le {α : Type} (f : α → List Nat) (k : Nat) (h : ∀ a, (f a).length ≤ k) :
    ∀ l : List α, (l.flatMap f).length ≤ k * l.length := by
  intro l
  induction l with
  | nil => simp
  | cons a l ih =>
    simp only [List.flatMap_cons, List.length_append, List.length_cons]
    have := h a
    rw [Nat.mul_add]; omega

/-- **C03, Display of a wide string**: at most four bytes per code unit, for every word list -/
theorem C03_wdisplay_length (ws : List Nat) : (display ws).length ≤ 4 * ws.length := by
  unfold display
  have h1 := flatMap_length_le displayItem 4 displayItem_length_le (decodeUtf16 ws)
  have h2 := C03_wstr_items_le ws
  calc _ ≤ 4 * (decodeUtf16 ws).length := h1
    _ ≤ 4 * ws.length := Nat.mul_le_mul_left 4 h2

/-- the sharp bound for genuine 16-bit input: three bytes per code unit (a pair: four bytes for two units) -/
theorem C03_wdisplay_length_u16 (ws : List Nat) (h16 : ∀ w ∈ ws, w < 0x10000) :
    (display ws).length ≤ 3 * ws.length := by
  unfold display
  fun_induction decodeUtf16 ws
  · simp
  · rename_i u hu
    have := utf8Enc_length_bmp u (h16 u (by simp))
    simp [displayItem]; omega
  · simp [displayItem]; decide
  · rename_i u u2 rest hu ih
    have h1 := utf8Enc_length_bmp u (h16 u (by simp))
    have h2 := ih (fun w hw => h16 w (List.mem_cons_of_mem _ hw))
    simp only [List.flatMap_cons, List.length_append, List.length_cons, displayItem] at h2 ⊢
    omega
  · rename_i u u2 rest hu h2 ih
    have h2' := ih (fun w hw => h16 w (List.mem_cons_of_mem _ hw))
    have h3 : (utf8Enc 0xFFFD).length = 3 := by decide
    simp only [List.flatMap_cons, List.length_append, List.length_cons, displayItem] at h2' ⊢
    omega
  · rename_i u u2 rest hu h2 h3 ih
    have h2' := ih (fun w hw => h16 w (List.mem_cons_of_mem _ hw))
    have h3 : (utf8Enc 0xFFFD).length = 3 := by decide
    simp only [List.flatMap_cons, List.length_append, List.length_cons, displayItem] at h2' ⊢
    omega
  · rename_i u u2 rest hu h2 h3 ih
    have h2' := ih (fun w hw => h16 w (List.mem_cons_of_mem _ (List.mem_cons_of_mem _ hw)))
    have := utf8Enc_length_le (u % 0x400 * 0x400 + u2 % 0x400 + 0x10000)
    simp only [List.flatMap_cons, List.length_append, List.length_cons, displayItem] at h2' ⊢
    omega

/-- **C03, Debug of a wide string**: `L"` + at most six bytes per code unit + `"` -/
theorem C03_wdebug_length (ws : List Nat) : (debug ws).length ≤ 6 * ws.length + 3 := by
  unfold debug
  have h1 := flatMap_length_le debugItem 6 debugItem_length_le (decodeUtf16 ws)
  have h2 := C03_wstr_items_le ws
  simp only [List.length_append, List.length_cons, List.length_nil]
  have : 6 * (decodeUtf16 ws).length ≤ 6 * ws.length := Nat.mul_le_mul_left 6 h2
  omega

/-- the serializer of a wide resource name (`collect_str` / `from_utf16_lossy`) writes the Display text -/
theorem C19_wide_name_json_is_display (ws : List Nat) :
    Pelite.Pe.resNameJson (.wide ws) = .str (display ws) := by
  unfold Pelite.Pe.resNameJson display
  rfl

/-- `to_string` succeeds exactly on the strings without an unpaired surrogate, and then Display writes it -/
theorem toStringItems_ok (its : List U16Item) (s : List Nat) (h : toStringItems its = .ok s) :
    its.flatMap displayItem = s ∧ ∀ it ∈ its, ∃ c, it = .ok c := by
  induction its generalizing s with
  | nil => simp [toStringItems] at h; simp [h]
  | cons it rest ih =>
    cases it with
    | bad u => simp [toStringItems] at h
    | ok c =>
      simp only [toStringItems] at h
      cases hr : toStringItems rest with
      | error u => rw [hr] at h; simp at h
      | ok s' =>
        rw [hr] at h
        have hs : utf8Enc c ++ s' = s := by simpa using h
        obtain ⟨h1, h2⟩ := ih s' hr
        refine ⟨by simp [displayItem, h1, hs], ?_⟩
        intro it hit
        simp at hit
        rcases hit with rfl | hit
        · exact ⟨c, rfl⟩
        · exact h2 it hit

theorem C13_to_string_is_display (ws s : List Nat) (h : toString ws = .ok s) : display ws = s :=
  (toStringItems_ok _ s h).1

/-- `to_string` fails with an unpaired surrogate that is in the string, and everything before it decodes -/
theorem toStringItems_error (its : List U16Item) (u : Nat) (h : toStringItems its = .error u) :
    ∃ pre post, its = pre ++ .bad u :: post ∧ ∀ it ∈ pre, ∃ c, it = .ok c := by
  induction its with
  | nil => simp [toStringItems] at h
  | cons it rest ih =>
    cases it with
    | bad v =>
      simp [toStringItems] at h
      exact ⟨[], rest, by simp [h], by simp⟩
    | ok c =>
      simp only [toStringItems] at h
      cases hr : toStringItems rest with
      | ok s' => rw [hr] at h; simp at h
      | error v =>
        rw [hr] at h
        have hv : v = u := by simpa using h
        subst hv
        obtain ⟨pre, post, h1, h2⟩ := ih hr
        refine ⟨.ok c :: pre, post, by simp [h1], ?_⟩
        intro it hit
        simp at hit
        rcases hit with rfl | hit
        · exact ⟨c, rfl⟩
        · exact h2 it hit

/-- `WideStr == str`: exactly when `to_string` yields the UTF-8 text of those scalar values -/
theorem toStringItems_map_ok (cs : List Nat) : toStringItems (cs.map .ok) = .ok (cs.flatMap utf8Enc) := by
  induction cs with
  | nil => rfl
  | cons c cs ih => simp [toStringItems, ih]

theorem C12_eq_str_to_string (ws cs : List Nat) (h : eqChars ws cs = true) :
    toString ws = .ok (cs.flatMap utf8Enc) := by
  unfold eqChars at h
  have : decodeUtf16 ws = cs.map .ok := by simpa using h
  unfold toString; rw [this]; exact toStringItems_map_ok cs

/-- the comparison `find` uses for a wide directory-entry name is this one -/
theorem C12_name_eq_string_is_eqChars (ws s : List Nat) :
    Resources.Name.eqString (.wide ws) s = eqChars ws (Resources.strChars s) := by
  simp [Resources.Name.eqString, eqChars]

/-- `from_words`: the prefix word is the length, the string is exactly that many following words;
rejected exactly when the slice is empty or shorter than announced -/
theorem C12_from_words (n : Nat) (rest : List Nat) :
    (fromWords (n :: rest) = none ↔ rest.length < n) ∧
    (∀ s, fromWords (n :: rest) = some s → s.length = n ∧ s = rest.take n) := by
  simp only [fromWords]
  constructor
  · constructor
    · intro h; split at h
      · simp at h
      · omega
    · intro h; rw [if_neg (by omega)]
  · intro s h
    split at h
    · simp at h; subst h; simp; omega
    · simp at h

/-! ### Debug is unambiguous -/

/-- what the body of the Debug text is made of -/
inductive DbgTok : List Nat → Prop
  | esc (x : Nat) (hx : x = 48 ∨ x = 110 ∨ x = 114 ∨ x = 116 ∨ x = 34 ∨ x = 92) : DbgTok [92, x]
  | uni (a b c d : Nat) : DbgTok [92, 117, a, b, c, d]
  | chr (c : Nat) (h0 : c ≠ 0) (h1 : c ≠ 10) (h2 : c ≠ 13) (h3 : c ≠ 9) (h4 : c ≠ 34) (h5 : c ≠ 92) : DbgTok (utf8Enc c)

theorem debugItem_tok (it : U16Item) : DbgTok (debugItem it) := by
  cases it with
  | bad u => exact .uni _ _ _ _
  | ok c =>
    simp only [debugItem]
    split; · exact .esc 48 (by simp)
    split; · exact .esc 110 (by simp)
    split; · exact .esc 114 (by simp)
    split; · exact .esc 116 (by simp)
    split; · exact .esc 34 (by simp)
    split; · exact .esc 92 (by simp)
    exact .chr c ‹_› ‹_› ‹_› ‹_› ‹_› ‹_›

/-- **every item of the Debug body is an escape or a character that needs none** -/
theorem C03_wdebug_tokens (ws : List Nat) :
    ∃ toks : List (List Nat), debug ws = [76, 34] ++ toks.flatten ++ [34] ∧ (∀ t ∈ toks, DbgTok t) ∧ toks.length ≤ ws.length := by
  refine ⟨(decodeUtf16 ws).map debugItem, ?_, ?_, ?_⟩
  · simp [debug, List.flatMap]
  · intro t ht
    simp at ht
    obtain ⟨it, _, rfl⟩ := ht
    exact debugItem_tok it
  · simpa using C03_wstr_items_le ws

/-- the bytes of an unescaped character are never a control byte the escapes stand for, a quote or a backslash -/
theorem utf8Enc_bytes_clean (c : Nat) (h0 : c ≠ 0) (h1 : c ≠ 10) (h2 : c ≠ 13) (h3 : c ≠ 9) (h4 : c ≠ 34) (h5 : c ≠ 92) :
    ∀ b ∈ utf8Enc c, b ≠ 0 ∧ b ≠ 10 ∧ b ≠ 13 ∧ b ≠ 9 ∧ b ≠ 34 ∧ b ≠ 92 := by
  intro b hb
  unfold utf8Enc at hb
  split at hb
  · simp at hb; subst hb; exact ⟨h0, h1, h2, h3, h4, h5⟩
  · split at hb
    · simp at hb; rcases hb with rfl | rfl <;> omega
    · split at hb
      · simp at hb; rcases hb with rfl | rfl | rfl <;> omega
      · simp at hb; rcases hb with rfl | rfl | rfl | rfl <;> omega

/-! ### the premises are satisfiable / the statements are about something -/

-- the unit test of wide_str.rs: `a`, unpaired 0xd800, `b`
example : display [97, 0xD800, 98] = [97, 0xEF, 0xBF, 0xBD, 98] := by decide +kernel
example : debug [97, 0xD800, 98] = [76, 34, 97, 92, 117, 100, 56, 48, 48, 98, 34] := by decide +kernel
example : debug [0, 10, 13, 9, 34, 92] = [76, 34, 92, 48, 92, 110, 92, 114, 92, 116, 92, 34, 92, 92, 34] := by decide +kernel
-- a surrogate pair: U+1F600
example : display [0xD83D, 0xDE00] = [0xF0, 0x9F, 0x98, 0x80] := by decide +kernel
example : toString [0xD83D, 0xDE00] = .ok [0xF0, 0x9F, 0x98, 0x80] := by rfl
example : toString [97, 0xDC00, 98] = .error 0xDC00 := by rfl
example : eqChars [0xD83D, 0xDE00] [0x1F600] = true := by decide +kernel
example : eqChars [0xD83D] [0xFFFD] = false := by decide +kernel
-- the three-bytes-per-unit bound is attained (U+FFFF), the four-byte case needs two units
example : (display [0xFFFF]).length = 3 * 1 := by decide +kernel
example : fromWords [2, 65, 66, 67] = some [65, 66] ∧ fromWords [3, 65, 66] = none ∧ fromWords [] = none := by decide +kernel

end Pelite.WStrFmt
