import PeliteModel.Lemmas.PeAddr
/-!
C04 — file views resolve RVAs through the section table exactly as the PE mapping says.
All theorems quantify over arbitrary section tables (any length, any `u32` field values,
overlapping, wrapping, partly outside the buffer), arbitrary rvas / offsets and arbitrary images.
-/
namespace Pelite.Pe

-- the statements are fixed; several carry hypotheses (`hs`, `hr`) the proofs do not need
set_option linter.unusedVariables false

/-- RVAs below SizeOfHeaders map to themselves. -/
theorem C04_r2f_headers (soh : Nat) (secs : List Sec) (rva : Nat) (h : rva < soh) :
    rvaToFileOffset soh secs rva = .ok rva := by
  unfold rvaToFileOffset
  rw [if_pos h]

/-- **RVA → file offset.**  At or beyond the headers the answer is decided by the *first* section
whose virtual extent contains the rva: offset `PointerToRawData + (rva - VirtualAddress)` exactly
when that lies inside the section's raw data, `ZeroFill` in the virtual-only tail, `Overflow` when
the raw range wraps, `Bounds` otherwise and when no section contains the rva. -/
theorem C04_r2f_spec (soh : Nat) (secs : List Sec) (hs : ∀ s ∈ secs, s.InRange) (rva : Nat)
    (hr : rva < 4294967296) (h : soh ≤ rva) :
    rvaToFileOffset soh secs rva = specR2F secs rva := by
  unfold rvaToFileOffset
  rw [if_neg (by omega), r2fSecs_eq_spec]

/-- file offset → RVA, same shape. -/
theorem C04_f2r_spec (soh : Nat) (secs : List Sec) (hs : ∀ s ∈ secs, s.InRange) (fo : Nat)
    (hr : fo < 4294967296) (h : soh ≤ fo) :
    fileOffsetToRva soh secs fo = specF2R secs fo := by
  unfold fileOffsetToRva
  rw [if_neg (by omega), f2rSecs_eq_spec]

/-- **Slicing a file view.**  `slice(rva, min, align)` succeeds exactly when the rva is non-null and
aligned, the first section containing it has its raw data inside the buffer (no wrap), the rva lies
strictly inside that raw data (offset `< SizeOfRawData`: the byte at `SizeOfRawData` is the first byte
of the zero-filled tail, not an empty window, see `C04_tail_zero_fill`), and at least `min` bytes
remain to the end of the raw data; the returned bytes then start at the mapped file offset and end
where the section's raw data ends. -/
theorem C04_slice_file_ok_iff (img : Img) (secs : List Sec) (hs : ∀ s ∈ secs, s.InRange)
    (rva min align : Nat) (hr : rva < 4294967296) (r : Ref) :
    sliceFile img secs rva min align = .ok r ↔
      rva ≠ 0 ∧ isPow2 align = true ∧ (img.base + rva) % align = 0 ∧
      ∃ s, firstV secs rva = some s ∧ s.prd + s.rs < 4294967296 ∧ s.prd + s.rs ≤ img.bytes.size ∧
        rva - s.va < s.rs ∧ min ≤ s.rs - (rva - s.va) ∧
        (img.base + (s.prd + (rva - s.va))) % align = 0 ∧
        r = ⟨s.prd + (rva - s.va), s.rs - (rva - s.va), align⟩ := by
  rw [sliceFile_ok_iff_range, rangeFile_eq]
  cases hf : firstV secs rva with
  | none => simp
  | some s =>
    have hsr := hs s (firstV_some hf).1
    simp only [rangeOne_ok_iff hsr, Option.some.injEq]
    constructor
    · rintro ⟨h0, hp, ha, o, l, ⟨h1, h2, h3, h4, rfl, rfl⟩, hal, rfl⟩
      exact ⟨h0, hp, ha, s, rfl, h1, h2, h3, h4, hal, rfl⟩
    · rintro ⟨h0, hp, ha, s', rfl, h1, h2, h3, h4, hal, rfl⟩
      exact ⟨h0, hp, ha, _, _, ⟨h1, h2, h3, h4, rfl, rfl⟩, hal, rfl⟩

/-- A request for more bytes than the raw data holds never succeeds, and what is returned lies
inside the buffer and is aligned as requested (the C01 obligation of `slice` on file views).
True since `slice_file` checks the alignment of the bytes it returns (`bytes.as_ptr()`), not only of
`image.as_ptr() + rva`; before that fix the alignment half failed, see
`C04_slice_file_formerly_misaligned_rejected`. -/
theorem C04_slice_file_sound (img : Img) (secs : List Sec) (hs : ∀ s ∈ secs, s.InRange)
    (rva min align : Nat) (hr : rva < 4294967296) (r : Ref)
    (h : sliceFile img secs rva min align = .ok r) :
    RefOK img r ∧ min ≤ r.len ∧
    ∃ s, firstV secs rva = some s ∧ r.off + r.len = s.prd + s.rs ∧ r.off = s.prd + (rva - s.va) := by
  obtain ⟨_, _, _, s, hf, h1, h2, h3, h4, hal, rfl⟩ :=
    (C04_slice_file_ok_iff img secs hs rva min align hr r).1 h
  refine ⟨⟨?_, hal⟩, h4, s, hf, ?_, rfl⟩
  · show s.prd + (rva - s.va) + (s.rs - (rva - s.va)) ≤ _
    omega
  · show s.prd + (rva - s.va) + (s.rs - (rva - s.va)) = _
    omega

/-- The same facts spelled out without `RefOK`, plus what the pre-check established about the rva. -/
theorem C04_slice_file_sound_bounds (img : Img) (secs : List Sec) (hs : ∀ s ∈ secs, s.InRange)
    (rva min align : Nat) (hr : rva < 4294967296) (r : Ref)
    (h : sliceFile img secs rva min align = .ok r) :
    r.off + r.len ≤ img.bytes.size ∧ r.align = align ∧ (img.base + rva) % align = 0 ∧ min ≤ r.len ∧
    ∃ s, firstV secs rva = some s ∧ r.off + r.len = s.prd + s.rs ∧ r.off = s.prd + (rva - s.va) := by
  obtain ⟨⟨hb, _⟩, hm, hex⟩ := C04_slice_file_sound img secs hs rva min align hr r h
  obtain ⟨_, _, ha, s, _, _, _, _, _, _, rfl⟩ :=
    (C04_slice_file_ok_iff img secs hs rva min align hr r).1 h
  exact ⟨hb, rfl, ha, hm, hex⟩

/-- `RefOK` of the returned window is exactly the alignment of the *file offset* (both sides now
always hold, by `C04_slice_file_sound`). -/
theorem C04_slice_file_refok_iff (img : Img) (secs : List Sec) (hs : ∀ s ∈ secs, s.InRange)
    (rva min align : Nat) (hr : rva < 4294967296) (r : Ref)
    (h : sliceFile img secs rva min align = .ok r) :
    RefOK img r ↔ (img.base + r.off) % align = 0 := by
  obtain ⟨hb, ha, _⟩ := C04_slice_file_sound_bounds img secs hs rva min align hr r h
  unfold RefOK
  rw [ha]
  exact ⟨fun h => h.2, fun h => ⟨hb, h⟩⟩

/-- When the section that maps the rva has `PointerToRawData ≡ VirtualAddress (mod align)` (e.g.
both multiples of a FileAlignment / SectionAlignment that `align` divides) the check on the stored
bytes is implied by the check on the rva: on such tables the fix changes no outcome. -/
theorem C04_slice_file_congruent (img : Img) (secs : List Sec) (hs : ∀ s ∈ secs, s.InRange)
    (rva align : Nat) (s : Sec) (hf : firstV secs rva = some s)
    (hcong : s.prd % align = s.va % align) (ha : (img.base + rva) % align = 0) :
    (img.base + (s.prd + (rva - s.va))) % align = 0 := by
  have hc := containsRva_nowrap (hs s (firstV_some hf).1) (firstV_some hf).2
  exact aligned_transfer _ _ _ _ _ hc.1 hcong ha

/-- The input on which `slice_file` used to hand out a misaligned window (one section with
`VirtualAddress = 2`, `PointerToRawData = 1`, one byte of raw data, two-byte buffer at address 0,
`slice(2, 1, 2)`: the address of the *rva* `0 + 2` is even, the bytes live at file offset 1) is now
rejected with `Misaligned`. -/
theorem C04_slice_file_formerly_misaligned_rejected :
    sliceFile ⟨#[0, 0], 0⟩ [⟨0, 0, 1, 2, 1, 1, 0⟩] 2 1 2 = .err .misaligned := by
  decide

/-- The slice starts at the offset `rva_to_file_offset` reports. -/
theorem C04_slice_agrees_r2f (img : Img) (soh : Nat) (secs : List Sec) (hs : ∀ s ∈ secs, s.InRange)
    (rva align : Nat) (hr : rva < 4294967296) (hsoh : soh ≤ rva) (r : Ref)
    (h : sliceFile img secs rva 1 align = .ok r) :
    rvaToFileOffset soh secs rva = .ok r.off := by
  obtain ⟨_, _, _, s, hf, h1, h2, h3, h4, _, rfl⟩ :=
    (C04_slice_file_ok_iff img secs hs rva 1 align hr r).1 h
  rw [C04_r2f_spec soh secs hs rva hr hsoh]
  unfold specR2F
  rw [hf]
  show (if s.prd + s.rs ≥ 4294967296 then _ else _) = _
  rw [if_neg (by omega), if_pos (by omega)]

/-- The same for every requested length, `min = 0` included: a successful slice never starts on a
byte that `rva_to_file_offset` does not map (before the boundary fix of `range_file` the empty
window at offset `SizeOfRawData` was a counterexample for `min = 0`). -/
theorem C04_slice_agrees_r2f_any_min (img : Img) (soh : Nat) (secs : List Sec) (hs : ∀ s ∈ secs, s.InRange)
    (rva min align : Nat) (hr : rva < 4294967296) (hsoh : soh ≤ rva) (r : Ref)
    (h : sliceFile img secs rva min align = .ok r) :
    rvaToFileOffset soh secs rva = .ok r.off ∧ 1 ≤ r.len := by
  obtain ⟨_, _, _, s, hf, h1, h2, h3, h4, _, rfl⟩ :=
    (C04_slice_file_ok_iff img secs hs rva min align hr r).1 h
  refine ⟨?_, ?_⟩
  · rw [C04_r2f_spec soh secs hs rva hr hsoh]
    unfold specR2F
    rw [hf]
    show (if s.prd + s.rs ≥ 4294967296 then _ else _) = _
    rw [if_neg (by omega), if_pos h3]
  · show 1 ≤ s.rs - (rva - s.va)
    omega

/-- Error classes of a failing slice: virtual-only tail (from its first byte, offset
`SizeOfRawData`, on, and for every requested length that fits the virtual extent, zero included)
→ `ZeroFill`; outside every section → `Bounds`; request longer than the virtual extent → `Bounds`. -/
theorem C04_slice_file_errors (img : Img) (secs : List Sec) (hs : ∀ s ∈ secs, s.InRange)
    (rva min align : Nat) (hr : rva < 4294967296) (h0 : rva ≠ 0) (hp : isPow2 align = true)
    (ha : (img.base + rva) % align = 0) :
    (firstV secs rva = none → sliceFile img secs rva min align = .err .bounds) ∧
    (∀ s, firstV secs rva = some s → s.prd + s.rs < 4294967296 → s.prd + s.rs ≤ img.bytes.size →
        s.rs ≤ rva - s.va → min ≤ (s.va + max s.vs s.rs) % 4294967296 - rva →
        sliceFile img secs rva min align = .err .zeroFill) ∧
    (∀ s, firstV secs rva = some s → s.prd + s.rs < 4294967296 → s.prd + s.rs ≤ img.bytes.size →
        (s.va + max s.vs s.rs) % 4294967296 - rva < min →
        sliceFile img secs rva min align = .err .bounds) := by
  have hE := sliceFile_aligned img secs rva min align h0 hp ha
  refine ⟨?_, ?_, ?_⟩
  · intro hf
    rw [hE, rangeFile_eq, hf]
  · intro s hf h1 h2 h3 h4
    rw [hE, rangeFile_eq, hf]
    show (match rangeOne img.bytes.size s rva min with
      | .ok (o, l) => if (img.base + o) % align = 0 then Out.ok (⟨o, l, align⟩ : Ref) else .err .misaligned
      | .err e => .err e | .panic s => .panic s
      | .ub s => .ub s | .diverge => .diverge) = _
    rw [rangeOne_nowrap h1 h2, if_neg (by omega), if_neg (by unfold wadd32; omega)]
  · intro s hf h1 h2 h3
    have hc := containsRva_nowrap (hs s (firstV_some hf).1) (firstV_some hf).2
    rw [hE, rangeFile_eq, hf]
    show (match rangeOne img.bytes.size s rva min with
      | .ok (o, l) => if (img.base + o) % align = 0 then Out.ok (⟨o, l, align⟩ : Ref) else .err .misaligned
      | .err e => .err e | .panic s => .panic s
      | .ub s => .ub s | .diverge => .diverge) = _
    rw [rangeOne_nowrap h1 h2, if_neg (by omega), if_pos (by unfold wadd32; omega)]

/-- **The virtual-only tail.**  Let `s` be the first section containing `rva`, its raw range inside
the buffer and not wrapping, and `rva` at or beyond the end of the raw data (`SizeOfRawData ≤
rva - VirtualAddress`; equality is the first tail byte).  Then `slice_file` never succeeds, whatever
length (zero included) and alignment are requested; it answers exactly `ZeroFill` when the rva is
non-null and aligned and the request fits the virtual extent; and `rva_to_file_offset` answers
`ZeroFill` at the same rva: the two lookups agree on every tail byte, the first one included. -/
theorem C04_tail_zero_fill (img : Img) (soh : Nat) (secs : List Sec) (hs : ∀ s ∈ secs, s.InRange)
    (rva min align : Nat) (hr : rva < 4294967296)
    (s : Sec) (hf : firstV secs rva = some s) (h1 : s.prd + s.rs < 4294967296)
    (h2 : s.prd + s.rs ≤ img.bytes.size) (h3 : s.rs ≤ rva - s.va) :
    (∀ r, sliceFile img secs rva min align ≠ .ok r) ∧
    (rva ≠ 0 → isPow2 align = true → (img.base + rva) % align = 0 →
        min ≤ (s.va + max s.vs s.rs) % 4294967296 - rva →
        sliceFile img secs rva min align = .err .zeroFill) ∧
    specR2F secs rva = .err .zeroFill ∧
    (soh ≤ rva → rvaToFileOffset soh secs rva = .err .zeroFill) := by
  have hc := containsRva_nowrap (hs s (firstV_some hf).1) (firstV_some hf).2
  have hspec : specR2F secs rva = .err .zeroFill := by
    unfold specR2F
    rw [hf]
    show (if s.prd + s.rs ≥ 4294967296 then Out.err Err.overflow
      else if rva - s.va < s.rs then Out.ok (s.prd + (rva - s.va))
      else if rva - s.va < s.vs then .err .zeroFill else .err .bounds) = _
    rw [if_neg (by omega), if_neg (by omega), if_pos (by omega)]
  refine ⟨?_, ?_, hspec, ?_⟩
  · intro r h
    obtain ⟨_, _, _, s', hf', _, _, h3', _⟩ :=
      (C04_slice_file_ok_iff img secs hs rva min align hr r).1 h
    rw [hf] at hf'
    cases hf'
    omega
  · intro h0 hp ha hm
    exact (C04_slice_file_errors img secs hs rva min align hr h0 hp ha).2.1 s hf h1 h2 h3 hm
  · intro hsoh
    rw [C04_r2f_spec soh secs hs rva hr hsoh, hspec]

/-- The first tail byte on a concrete section (`VirtualAddress = 0x1000`, `SizeOfRawData = 0x10`,
`VirtualSize = 0x20`, raw data at file offset 0x20 of a 0x30-byte buffer): a zero-length request at
`va + rs` is `ZeroFill` (it used to be an empty window), like the byte after it and like
`rva_to_file_offset`; the last stored byte still slices. -/
example : let img : Img := ⟨⟨List.replicate 0x30 0⟩, 0⟩
    let secs : List Sec := [⟨0, 0, 0x20, 0x1000, 0x10, 0x20, 0⟩]
    sliceFile img secs (0x1000 + 0x10) 0 1 = .err .zeroFill ∧
    sliceFile img secs (0x1000 + 0x11) 0 1 = .err .zeroFill ∧
    sliceFile img secs (0x1000 + 0x10) 1 1 = .err .zeroFill ∧
    sliceFile img secs (0x1000 + 0x10) 0x11 1 = .err .bounds ∧
    sliceFile img secs (0x1000 + 0xF) 0 1 = .ok ⟨0x2F, 1, 1⟩ ∧
    rvaToFileOffset 0x20 secs (0x1000 + 0x10) = .err .zeroFill ∧
    firstV secs (0x1000 + 0x10) = some ⟨0, 0, 0x20, 0x1000, 0x10, 0x20, 0⟩ := by
  decide +kernel

/-- **Inversion** on every byte that is both stored and mapped, for well-formed tables. -/
theorem C04_f2r_inverts_r2f (soh : Nat) (secs : List Sec) (hs : ∀ s ∈ secs, s.InRange) (hwf : WF soh secs)
    (rva off : Nat) (hr : rva < 4294967296) (hsoh : soh ≤ rva)
    (h : rvaToFileOffset soh secs rva = .ok off)
    (hmapped : ∀ s, firstV secs rva = some s → rva - s.va < s.vs) :
    fileOffsetToRva soh secs off = .ok rva := by
  rw [C04_r2f_spec soh secs hs rva hr hsoh] at h
  unfold specR2F at h
  cases hf : firstV secs rva with
  | none => rw [hf] at h; cases h
  | some s =>
    rw [hf] at h
    have hm := (firstV_some hf).1
    have hc := containsRva_nowrap (hs s hm) (firstV_some hf).2
    obtain ⟨hv, hp, hsp, hsv⟩ := hwf.1 s hm
    have hmp := hmapped s hf
    replace h : (if s.prd + s.rs ≥ 4294967296 then Out.err Err.overflow
      else if rva - s.va < s.rs then Out.ok (s.prd + (rva - s.va))
      else if rva - s.va < s.vs then .err .zeroFill else .err .bounds) = Out.ok off := h
    rw [if_neg (by omega)] at h
    by_cases hlt : rva - s.va < s.rs
    · rw [if_pos hlt] at h
      cases h
      have hF := firstF_of_firstV secs hwf.raw_nowrap hwf.raw_disjoint hf hlt
      rw [C04_f2r_spec soh secs hs _ (by omega) (by omega)]
      unfold specF2R
      rw [hF]
      show (if s.va + s.vs ≥ 4294967296 then _ else _) = _
      have e : s.prd + (rva - s.va) - s.prd = rva - s.va := by omega
      rw [e, if_neg (by omega), if_pos hmp]
      congr 1
      omega
    · rw [if_neg hlt] at h
      split at h <;> cases h

theorem C04_r2f_inverts_f2r (soh : Nat) (secs : List Sec) (hs : ∀ s ∈ secs, s.InRange) (hwf : WF soh secs)
    (rva off : Nat) (hr : off < 4294967296) (hsoh : soh ≤ off)
    (h : fileOffsetToRva soh secs off = .ok rva)
    (hstored : ∀ s, firstF secs off = some s → off - s.prd < s.rs) :
    rvaToFileOffset soh secs rva = .ok off := by
  rw [C04_f2r_spec soh secs hs off hr hsoh] at h
  unfold specF2R at h
  cases hf : firstF secs off with
  | none => rw [hf] at h; cases h
  | some s =>
    rw [hf] at h
    have hm := (firstF_some hf).1
    have hc := containsOff_nowrap (hs s hm) (firstF_some hf).2
    obtain ⟨hv, hp, hsp, hsv⟩ := hwf.1 s hm
    replace h : (if s.va + s.vs ≥ 4294967296 then Out.err Err.overflow
      else if off - s.prd < s.vs then Out.ok (s.va + (off - s.prd))
      else if off - s.prd < s.rs then .err .unmapped else .err .bounds) = Out.ok rva := h
    rw [if_neg (by omega)] at h
    by_cases hlt : off - s.prd < s.vs
    · rw [if_pos hlt] at h
      cases h
      have hV := firstV_of_firstF secs hwf.virt_nowrap hwf.virt_disjoint hf hlt
      rw [C04_r2f_spec soh secs hs _ (by omega) (by omega)]
      unfold specR2F
      rw [hV]
      show (if s.prd + s.rs ≥ 4294967296 then _ else _) = _
      have e : s.va + (off - s.prd) - s.va = off - s.prd := by omega
      rw [e, if_neg (by omega), if_pos (by omega)]
      congr 1
      omega
    · rw [if_neg hlt] at h
      split at h <;> cases h

/-- Without well-formedness the inversion is false: an earlier section whose raw range overlaps
shadows the later one (two-section witness). -/
theorem C04_inversion_needs_wf :
    ∃ (soh : Nat) (secs : List Sec) (rva off : Nat),
      (∀ s ∈ secs, s.InRange) ∧ soh ≤ rva ∧ rvaToFileOffset soh secs rva = .ok off ∧
      (∀ s, firstV secs rva = some s → rva - s.va < s.vs) ∧
      fileOffsetToRva soh secs off ≠ .ok rva := by
  refine ⟨0x400, [⟨0, 0, 0x100, 0x1000, 0x400, 0x400, 0⟩, ⟨0, 0, 0x100, 0x2000, 0x200, 0x500, 0⟩],
    0x2010, 0x510, ?_, by decide, by decide, ?_, by decide⟩
  · unfold Sec.InRange
    decide
  · intro s hs
    have : firstV [⟨0, 0, 0x100, 0x1000, 0x400, 0x400, 0⟩, ⟨0, 0, 0x100, 0x2000, 0x200, 0x500, 0⟩] 0x2010
        = some ⟨0, 0, 0x100, 0x2000, 0x200, 0x500, 0⟩ := by decide
    rw [this] at hs
    cases hs
    decide

/-- `get_section_bytes`: the raw range (file view) / virtual range (mapped view) of the header,
exactly when it is non-null and inside the buffer. -/
theorem C04_section_bytes (v : View) (s : Sec) (hs : s.InRange) (r : Ref) :
    v.sectionBytes s = .ok r ↔
      (match v.kind with
       | .file => s.prd ≠ 0 ∧ s.prd + s.rs < 4294967296 ∧ s.prd + s.rs ≤ v.img.bytes.size ∧ r = ⟨s.prd, s.rs, 1⟩
       | .view => s.va ≠ 0 ∧ s.va + s.vs < 4294967296 ∧ s.va + s.vs ≤ v.img.bytes.size ∧ r = ⟨s.va, s.vs, 1⟩) := by
  obtain ⟨h1, h2, h3, h4⟩ := hs
  obtain ⟨img, fmt, kind, ib⟩ := v
  cases kind
  · show (if s.prd = 0 then Out.err Err.null
      else if s.prd ≤ wadd32 s.prd s.rs ∧ wadd32 s.prd s.rs ≤ img.bytes.size then
        Out.ok (⟨s.prd, wadd32 s.prd s.rs - s.prd, 1⟩ : Ref) else .err .bounds) = .ok r ↔
      s.prd ≠ 0 ∧ s.prd + s.rs < 4294967296 ∧ s.prd + s.rs ≤ img.bytes.size ∧ r = ⟨s.prd, s.rs, 1⟩
    unfold wadd32
    by_cases h0 : s.prd = 0
    · simp [h0]
    · rw [if_neg h0]
      by_cases hw : s.prd + s.rs < 4294967296
      · rw [Nat.mod_eq_of_lt hw]
        by_cases hb : s.prd + s.rs ≤ img.bytes.size
        · simp [h0, hw, hb, eq_comm]
        · simp [hb]
      · have : ¬ (s.prd ≤ (s.prd + s.rs) % 4294967296 ∧ (s.prd + s.rs) % 4294967296 ≤ img.bytes.size) := by
          omega
        simp [this, hw]
  · show (if s.va = 0 then Out.err Err.null
      else if s.va ≤ wadd32 s.va s.vs ∧ wadd32 s.va s.vs ≤ img.bytes.size then
        Out.ok (⟨s.va, wadd32 s.va s.vs - s.va, 1⟩ : Ref) else .err .bounds) = .ok r ↔
      s.va ≠ 0 ∧ s.va + s.vs < 4294967296 ∧ s.va + s.vs ≤ img.bytes.size ∧ r = ⟨s.va, s.vs, 1⟩
    unfold wadd32
    by_cases h0 : s.va = 0
    · simp [h0]
    · rw [if_neg h0]
      by_cases hw : s.va + s.vs < 4294967296
      · rw [Nat.mod_eq_of_lt hw]
        by_cases hb : s.va + s.vs ≤ img.bytes.size
        · simp [h0, hw, hb, eq_comm]
        · simp [hb]
      · have : ¬ (s.va ≤ (s.va + s.vs) % 4294967296 ∧ (s.va + s.vs) % 4294967296 ≤ img.bytes.size) := by
          omega
        simp [this, hw]

/-- Non-vacuity: a two-section table on which every branch above is reachable. -/
example : let secs : List Sec := [⟨0,0,0x300,0x1000,0x200,0x400,0⟩, ⟨0,0,0x100,0x2000,0x200,0x600,0⟩]
    rvaToFileOffset 0x400 secs 0x1010 = .ok 0x410 ∧ rvaToFileOffset 0x400 secs 0x1250 = .err .zeroFill ∧
    rvaToFileOffset 0x400 secs 0x1300 = .err .bounds ∧ fileOffsetToRva 0x400 secs 0x610 = .ok 0x2010 ∧
    WF 0x400 secs := by
  intro secs
  refine ⟨by decide, by decide, by decide, by decide, ?_⟩
  unfold WF
  decide

/-! ### second audit round: header RVAs on file views, the buffer-blind conversion, `.bss` sections -/

/-- no section of a table whose virtual extents all start at or beyond `soh` contains an rva below `soh` -/
theorem firstV_none_below (soh : Nat) (secs : List Sec) (hva : ∀ s ∈ secs, soh ≤ s.va) (rva : Nat)
    (hlt : rva < soh) : firstV secs rva = none := by
  unfold firstV
  rw [List.find?_eq_none]
  intro s hs hc
  have := hva s hs
  simp only [Sec.containsRva, Bool.and_eq_true, decide_eq_true_eq] at hc
  omega

/-- **Header RVAs on a file view.**  `rva_to_file_offset` maps every rva below `SizeOfHeaders` to
itself (pe.rs:87) whereas `slice` on a file view (`slice_file` → `range_file`, pe.rs:700-724) looks only
at the section table: a non-null, aligned rva inside the header area that no section covers is
`Bounds` — for every requested length, zero included.  (The property's clause "RVAs outside every
section report out-of-bounds" is what `slice` does; "RVAs below SizeOfHeaders map to themselves" is
about the conversion.  The two lookups therefore DISAGREE on the header area; `headers().image()` is
the way to the header bytes of a file.) -/
theorem C04_slice_below_headers_bounds (img : Img) (soh : Nat) (secs : List Sec) (rva min align : Nat)
    (h0 : rva ≠ 0) (hlt : rva < soh) (hnone : firstV secs rva = none)
    (hp : isPow2 align = true) (ha : (img.base + rva) % align = 0) :
    sliceFile img secs rva min align = .err .bounds ∧ rvaToFileOffset soh secs rva = .ok rva := by
  refine ⟨?_, C04_r2f_headers soh secs rva hlt⟩
  rw [sliceFile_aligned img secs rva min align h0 hp ha, rangeFile_eq, hnone]

/-- the same when every section starts at or beyond the headers (every `WF` table, every loader-made file) -/
theorem C04_slice_below_headers_bounds_wf (img : Img) (soh : Nat) (secs : List Sec) (rva min align : Nat)
    (hva : ∀ s ∈ secs, soh ≤ s.va) (h0 : rva ≠ 0) (hlt : rva < soh)
    (hp : isPow2 align = true) (ha : (img.base + rva) % align = 0) :
    sliceFile img secs rva min align = .err .bounds ∧ rvaToFileOffset soh secs rva = .ok rva :=
  C04_slice_below_headers_bounds img soh secs rva min align h0 hlt (firstV_none_below soh secs hva rva hlt) hp ha

/-- witness: `SizeOfHeaders = 0x20`, one section at rva 0x1000; rva 0x10 is `Bounds` for `slice`
(every length, every alignment that divides it) and maps to file offset 0x10 -/
example : let img : Img := ⟨⟨List.replicate 0x30 0⟩, 0⟩
    let secs : List Sec := [⟨0, 0, 0x20, 0x1000, 0x10, 0x20, 0⟩]
    (∀ s ∈ secs, 0x20 ≤ s.va) ∧ firstV secs 0x10 = none ∧
    sliceFile img secs 0x10 0 1 = .err .bounds ∧ sliceFile img secs 0x10 4 4 = .err .bounds ∧
    rvaToFileOffset 0x20 secs 0x10 = .ok 0x10 ∧ rvaToFileOffset 0x20 secs 0x1f = .ok 0x1f := by
  decide +kernel

/-- **`rva_to_file_offset` does not consult the buffer** (documented: "pure header arithmetic").  When
the first section containing the rva stores it (`rva - VirtualAddress < SizeOfRawData`, raw range not
wrapping) the answer is `PointerToRawData + (rva - VirtualAddress)` — whatever the buffer is; when that
section's raw range does not lie inside the buffer (a truncated file) the offset answered may be at or
beyond the end of the buffer, and `slice` at the same rva never succeeds (`range_file`:
`image.get(..)` fails, `Invalid`). -/
theorem C04_r2f_ignores_buffer (soh : Nat) (secs : List Sec) (hs : ∀ s ∈ secs, s.InRange) (rva : Nat)
    (hr : rva < 4294967296) (hsoh : soh ≤ rva) (s : Sec) (hf : firstV secs rva = some s)
    (hnw : s.prd + s.rs < 4294967296) (hlt : rva - s.va < s.rs) :
    rvaToFileOffset soh secs rva = .ok (s.prd + (rva - s.va)) ∧
    ∀ (img : Img), img.bytes.size < s.prd + s.rs →
      (∀ min align r, sliceFile img secs rva min align ≠ .ok r) ∧
      (rva ≠ 0 → sliceFile img secs rva 0 1 = .err .invalid) := by
  refine ⟨?_, ?_⟩
  · rw [C04_r2f_spec soh secs hs rva hr hsoh]
    unfold specR2F
    rw [hf]
    show (if s.prd + s.rs ≥ 4294967296 then _ else _) = _
    rw [if_neg (by omega), if_pos hlt]
  · intro img hsz
    refine ⟨?_, ?_⟩
    · intro min align r h
      obtain ⟨_, _, _, s', hf', _, h2, _⟩ := (C04_slice_file_ok_iff img secs hs rva min align hr r).1 h
      rw [hf] at hf'
      cases hf'
      omega
    · intro h0
      rw [sliceFile_aligned img secs rva 0 1 h0 (by decide) (Nat.mod_one _), rangeFile_eq, hf]
      have hsr := hs s (firstV_some hf).1
      have : ¬ (s.prd ≤ wadd32 s.prd s.rs ∧ wadd32 s.prd s.rs ≤ img.bytes.size) := by
        rw [rawRange_ok_iff hsr]; omega
      show (match rangeOne img.bytes.size s rva 0 with
        | .ok (o, l) => if (img.base + o) % 1 = 0 then Out.ok (⟨o, l, 1⟩ : Ref) else .err .misaligned
        | .err e => .err e | .panic s => .panic s
        | .ub s => .ub s | .diverge => .diverge) = _
      unfold rangeOne
      simp only [this, if_false]

/-- witness: a section declaring 0x200 bytes of raw data at file offset 0x400 in a buffer of 0x410 bytes:
rva 0x1100 "maps" to file offset 0x500 ≥ 0x410, and `slice` there is `Invalid` -/
example : let img : Img := ⟨⟨List.replicate 0x410 0⟩, 0⟩
    let secs : List Sec := [⟨0, 0, 0x300, 0x1000, 0x200, 0x400, 0⟩]
    img.bytes.size = 0x410 ∧ firstV secs 0x1100 = some ⟨0, 0, 0x300, 0x1000, 0x200, 0x400, 0⟩ ∧
    rvaToFileOffset 0x400 secs 0x1100 = .ok 0x500 ∧ sliceFile img secs 0x1100 0 1 = .err .invalid := by
  decide +kernel

/-- `WF` allows an ordinary `.bss` section (`SizeOfRawData = 0`, `PointerToRawData = 0`): the inversion
theorems `C04_f2r_inverts_r2f` / `C04_r2f_inverts_f2r` apply to such tables (before the second audit
round `WF` demanded `SizeOfHeaders ≤ PointerToRawData` of every section, which no table with a `.bss`
satisfies); on the `.bss` section every rva is `ZeroFill`, on the stored section the inversion holds. -/
example : let secs : List Sec := [⟨0,0,0x300,0x1000,0x200,0x400,0⟩, ⟨0,0,0x100,0x2000,0,0,0⟩]
    WF 0x400 secs ∧ ¬ (0x400 ≤ (⟨0,0,0x100,0x2000,0,0,0⟩ : Sec).prd) ∧
    rvaToFileOffset 0x400 secs 0x2010 = .err .zeroFill ∧
    rvaToFileOffset 0x400 secs 0x1010 = .ok 0x410 ∧ fileOffsetToRva 0x400 secs 0x410 = .ok 0x1010 := by
  intro secs
  refine ⟨?_, by decide, by decide, by decide, by decide⟩
  unfold WF
  decide

end Pelite.Pe
