import PeliteModel.Model.Pe
import PeliteModel.Spec.Pe
/-!
C04: two branches of the address conversions are DEAD — the final `Err(Bounds)` inside the matched section of
`rva_to_file_offset` and of `file_offset_to_rva` (src/pe64/pe.rs).  The line-coverage run of the operation streams never
executed them; here is why no input can: once the section test has passed, the offset into the section is below
`max(VirtualSize, SizeOfRawData)` (resp. below `SizeOfRawData`), so one of the two earlier branches is taken.
Stated as: the conversions equal their variants WITHOUT that branch, for every section table with 32-bit fields and
every address.  (So the error kinds a matched section can produce are exactly Overflow, ZeroFill / Unmapped.)
-/
namespace Pelite.Pe


/-- `r2fSecs` without the dead `Bounds` of the matched section -/
def r2fSecsLive : List Sec → Nat → Out Nat
  | [], _ => .err .bounds
  | s :: rest, rva =>
    let vend := wadd32 s.va (max s.vs s.rs)
    if s.va ≤ rva ∧ rva < vend then
      if (cadd32 s.prd s.rs).isNone then .err .overflow
      else if rva - s.va < s.rs then .ok (rva - s.va + s.prd) else .err .zeroFill
    else r2fSecsLive rest rva

/-- `f2rSecs` without the dead `Bounds` of the matched section -/
def f2rSecsLive : List Sec → Nat → Out Nat
  | [], _ => .err .bounds
  | s :: rest, fo =>
    let eord := wadd32 s.prd s.rs
    if s.prd ≤ fo ∧ fo < eord then
      if (cadd32 s.va s.vs).isNone then .err .overflow
      else if fo - s.prd < s.vs then .ok (fo - s.prd + s.va) else .err .unmapped
    else f2rSecsLive rest fo

theorem C04_r2f_matched_bounds_dead (secs : List Sec) (hs : ∀ s ∈ secs, s.InRange) (rva : Nat) :
    r2fSecs secs rva = r2fSecsLive secs rva := by
  induction secs with
  | nil => rfl
  | cons s rest ih =>
    have hr := hs s (by simp)
    obtain ⟨h1, h2, h3, h4⟩ := hr
    simp only [r2fSecs, r2fSecsLive]
    rw [ih (fun t ht => hs t (by simp [ht]))]
    by_cases hm : s.va ≤ rva ∧ rva < wadd32 s.va (max s.vs s.rs)
    · simp only [hm, and_self, if_true]
      split
      · rfl
      · by_cases ha : rva - s.va < s.rs
        · simp [ha]
        · simp only [ha, if_false]
          have hlt : rva - s.va < s.vs := by
            have hv := hm.2
            unfold wadd32 at hv
            have : (s.va + max s.vs s.rs) % 4294967296 ≤ s.va + max s.vs s.rs := Nat.mod_le _ _
            have hmx : max s.vs s.rs = s.vs ∨ max s.vs s.rs = s.rs := by omega
            omega
          simp [hlt]
    · simp only [hm, if_false]

theorem C04_f2r_matched_bounds_dead (secs : List Sec) (hs : ∀ s ∈ secs, s.InRange) (fo : Nat) :
    f2rSecs secs fo = f2rSecsLive secs fo := by
  induction secs with
  | nil => rfl
  | cons s rest ih =>
    simp only [f2rSecs, f2rSecsLive]
    rw [ih (fun t ht => hs t (by simp [ht]))]
    by_cases hm : s.prd ≤ fo ∧ fo < wadd32 s.prd s.rs
    · simp only [hm, and_self, if_true]
      split
      · rfl
      · by_cases ha : fo - s.prd < s.vs
        · simp [ha]
        · simp only [ha, if_false]
          have hlt : fo - s.prd < s.rs := by
            have hv := hm.2
            unfold wadd32 at hv
            have : (s.prd + s.rs) % 4294967296 ≤ s.prd + s.rs := Nat.mod_le _ _
            omega
          simp [hlt]
    · simp only [hm, if_false]

end Pelite.Pe
