import PeliteModel.Lemmas.Typed
/-!
C04 at the level of constructed FILE views (second audit round).  `Thm/C04.lean` states the property
over arbitrary section tables with `Sec.InRange` as a hypothesis; here the table is the one
`PeFile::from_bytes` decoded, so the hypothesis is discharged from acceptance, and the VA path
(`read` → `read_file`) gets its own exact statement (so far it was reached only through
`C05_read_eq_slice` under `NoWrap`).
-/
namespace Pelite.Pe

/-- **`slice` on a constructed file view**: `C04_slice_file_ok_iff` with the view's own section table. -/
theorem C04_view_slice_ok_iff (f : Fmt) (img : Img) (v : View) (hv : fromBytes f .file img = .ok v)
    (rva min align : Nat) (hr : rva < 4294967296) (r : Ref) :
    v.slice rva min align = .ok r ↔
      rva ≠ 0 ∧ isPow2 align = true ∧ (img.base + rva) % align = 0 ∧
      ∃ s, firstV v.secs rva = some s ∧ s.prd + s.rs < 4294967296 ∧ s.prd + s.rs ≤ img.bytes.size ∧
        rva - s.va < s.rs ∧ min ≤ s.rs - (rva - s.va) ∧
        (img.base + (s.prd + (rva - s.va))) % align = 0 ∧
        r = ⟨s.prd + (rva - s.va), s.rs - (rva - s.va), align⟩ := by
  obtain ⟨-, rfl⟩ := (fromBytes_ok_iff _ _ _ _).1 hv
  exact C04_slice_file_ok_iff img _ (C07_sections_in_range _) rva min align hr r

/-- **`read_file`, every section table.**  `read(va, min, align)` on a file succeeds exactly when the
address is non-null, lies in `[image_base, image_base + SizeOfImage]`, `rva = va - image_base` is
aligned, and the section lookup of `C04_slice_file_ok_iff` succeeds for that rva; the bytes returned are
the same window.  (Unlike `slice`, `read` does not reject `rva = 0`, i.e. `va = image_base`: the answer
there is whatever the section lookup says.) -/
theorem C04_read_file_ok_iff (img : Img) (secs : List Sec) (hs : ∀ s ∈ secs, s.InRange)
    (imageBase soi va min align : Nat) (r : Ref) :
    readFile img secs imageBase soi va min align = .ok r ↔
      va ≠ 0 ∧ imageBase ≤ va ∧ va - imageBase ≤ soi ∧ isPow2 align = true ∧
      (img.base + (va - imageBase)) % align = 0 ∧
      ∃ s, firstV secs (va - imageBase) = some s ∧ s.prd + s.rs < 4294967296 ∧
        s.prd + s.rs ≤ img.bytes.size ∧ (va - imageBase) - s.va < s.rs ∧
        min ≤ s.rs - ((va - imageBase) - s.va) ∧
        (img.base + (s.prd + ((va - imageBase) - s.va))) % align = 0 ∧
        r = ⟨s.prd + ((va - imageBase) - s.va), s.rs - ((va - imageBase) - s.va), align⟩ := by
  rw [readFile_eq_tail]
  by_cases h0 : va = 0
  · rw [if_pos h0]
    exact ⟨fun h => (by cases h), fun h => absurd h0 h.1⟩
  rw [if_neg h0]
  by_cases hb : va < imageBase ∨ va - imageBase > soi
  · rw [if_pos hb]
    exact ⟨fun h => (by cases h), fun h => by omega⟩
  rw [if_neg hb]
  by_cases hp : isPow2 align = true
  · rw [if_pos hp]
    by_cases ha : (img.base + (va - imageBase)) % align = 0
    · rw [if_pos ha, fileTail_ok_iff img secs hs]
      exact ⟨fun h => ⟨h0, by omega, by omega, hp, ha, h⟩, fun h => h.2.2.2.2.2⟩
    · rw [if_neg ha]
      exact ⟨fun h => (by cases h), fun h => absurd h.2.2.2.2.1 ha⟩
  · rw [if_neg hp]
    exact ⟨fun h => (by cases h), fun h => absurd h.2.2.2.1 hp⟩

/-- **`read` on a constructed file view** (both formats; `image_base` is the header's ImageBase field) -/
theorem C04_view_read_ok_iff (f : Fmt) (img : Img) (v : View) (hv : fromBytes f .file img = .ok v)
    (va min align : Nat) (r : Ref) :
    v.read va min align = .ok r ↔
      va ≠ 0 ∧ v.imageBase ≤ va ∧ va - v.imageBase ≤ sizeOfImage img.bytes ∧ isPow2 align = true ∧
      (img.base + (va - v.imageBase)) % align = 0 ∧
      ∃ s, firstV v.secs (va - v.imageBase) = some s ∧ s.prd + s.rs < 4294967296 ∧
        s.prd + s.rs ≤ img.bytes.size ∧ (va - v.imageBase) - s.va < s.rs ∧
        min ≤ s.rs - ((va - v.imageBase) - s.va) ∧
        (img.base + (s.prd + ((va - v.imageBase) - s.va))) % align = 0 ∧
        r = ⟨s.prd + ((va - v.imageBase) - s.va), s.rs - ((va - v.imageBase) - s.va), align⟩ := by
  obtain ⟨-, rfl⟩ := (fromBytes_ok_iff _ _ _ _).1 hv
  exact C04_read_file_ok_iff img _ (C07_sections_in_range _) _ _ va min align r

/-- what `slice` / `read` answer on a constructed file lies inside the buffer (the view-level form of
`C04_slice_file_sound`, for both paths) -/
theorem C04_view_file_sound (f : Fmt) (img : Img) (v : View) (hv : fromBytes f .file img = .ok v)
    (a : Addr) (min align : Nat) (r : Ref) (h : v.at a min align = .ok r) :
    RefOK img r ∧ min ≤ r.len ∧ r.align = align := by
  have := v.at_sound a min align r h
  obtain ⟨-, rfl⟩ := (fromBytes_ok_iff _ _ _ _).1 hv
  exact this

/-! ### witnesses: PE32+ (`demo64File`) and PE32 (`twoSecPe32`) files -/

/-- the PE32 file `twoSecPe32` as a file view -/
def twoSecFile : View := ⟨⟨twoSecPe32, 0⟩, .pe32, .file, imageBaseField .pe32 twoSecPe32⟩

theorem twoSecFile_ok : fromBytes .pe32 .file ⟨twoSecPe32, 0⟩ = .ok twoSecFile :=
  (fromBytes_ok_iff _ _ _ _).2 ⟨by decide +kernel, rfl⟩

/-- `C04_slice_below_headers_bounds_wf` on the PE32+ file (SizeOfHeaders 240, its section at rva 256) and on
the PE32 file (SizeOfHeaders 280, sections at 280 and 288): the rva of the section table itself (200) and
of the optional header (88) — inside the headers, covered by no section — is `Bounds` for `slice`, for
every length, while `rva_to_file_offset` maps it to itself -/
example :
    (∀ s ∈ demo64File.secs, sizeOfHeaders demo64File.b ≤ s.va) ∧ sizeOfHeaders demo64File.b = 240 ∧
    demo64File.slice 200 0 4 = .err .bounds ∧ demo64File.slice 88 2 2 = .err .bounds ∧
    demo64File.slice 239 0 1 = .err .bounds ∧
    demo64File.rvaToFileOffset 200 = .ok 200 ∧ demo64File.rvaToFileOffset 239 = .ok 239 ∧
    demo64File.read (0x140000000 + 200) 0 4 = .err .bounds ∧
    (∀ s ∈ twoSecFile.secs, sizeOfHeaders twoSecFile.b ≤ s.va) ∧
    twoSecFile.slice 200 0 4 = .err .bounds ∧ twoSecFile.rvaToFileOffset 200 = .ok 200 := by
  decide +kernel

/-- derived from the theorem rather than evaluated -/
example : demo64File.slice 200 40 4 = .err .bounds ∧ demo64File.rvaToFileOffset 200 = .ok 200 :=
  C04_slice_below_headers_bounds_wf demo64File.img (sizeOfHeaders demo64File.b) demo64File.secs 200 40 4
    (by decide +kernel) (by decide) (by decide +kernel) (by decide) (by decide +kernel)

/-- `demo64File` cut down to 248 bytes (its section declares raw data `[240, 256)`): still accepted by
`PeFile::from_bytes`; `rva_to_file_offset` maps rva 266 to file offset 250 ≥ 248 — beyond the buffer —
and `slice` refuses every rva of the section (`C04_r2f_ignores_buffer`) -/
def truncFile : View := ⟨⟨demo64Img.bytes.extract 0 248, 0⟩, .pe64, .file, 0x140000000⟩

theorem C04_r2f_ignores_buffer_witness :
    fromBytes .pe64 .file ⟨demo64Img.bytes.extract 0 248, 0⟩ = .ok truncFile ∧ truncFile.b.size = 248 ∧
    truncFile.rvaToFileOffset 266 = .ok 250 ∧ truncFile.rvaToFileOffset 271 = .ok 255 ∧
    truncFile.slice 266 0 1 = .err .invalid ∧ truncFile.slice 256 0 1 = .err .invalid ∧
    truncFile.read 0x14000010a 0 1 = .err .invalid := by
  refine ⟨(fromBytes_ok_iff _ _ _ _).2 ⟨by decide +kernel,
    by rw [show imageBaseField .pe64 (demo64Img.bytes.extract 0 248) = 0x140000000 by decide +kernel]; rfl⟩, ?_⟩
  decide +kernel

/-- `C04_view_slice_ok_iff` / `C04_view_read_ok_iff`: the hypotheses hold for both files, and both sides of
the equivalences are inhabited — the windows the two paths return on the PE32+ file (rva 260 = file offset
244, twelve bytes to the end of the raw data) and on the PE32 file (".bss": rva 288 stored at 284) -/
example : fromBytes .pe64 .file demo64Img = .ok demo64File ∧ fromBytes .pe32 .file ⟨twoSecPe32, 0⟩ = .ok twoSecFile ∧
    demo64File.slice 260 4 4 = .ok ⟨244, 12, 4⟩ ∧ demo64File.read 0x140000104 4 4 = .ok ⟨244, 12, 4⟩ ∧
    firstV demo64File.secs 260 = some ⟨0x7461642e, 0x61, 24, 256, 16, 240, 0⟩ ∧
    demo64File.read 0x140000000 0 1 = .err .bounds ∧ demo64File.slice 0 0 1 = .err .null ∧
    twoSecFile.slice 288 2 2 = .ok ⟨284, 4, 2⟩ ∧ twoSecFile.read (0x400000 + 288) 2 2 = .ok ⟨284, 4, 2⟩ ∧
    twoSecFile.read (0x400000 + 292) 0 1 = .err .zeroFill :=
  ⟨demo64File_ok, twoSecFile_ok, by decide +kernel, by decide +kernel, by decide +kernel, by decide +kernel,
    by decide +kernel, by decide +kernel, by decide +kernel, by decide +kernel⟩

/-- … and the right-hand side of `C04_view_read_ok_iff` derived from the left through the theorem -/
example : ∃ s, firstV demo64File.secs (0x140000104 - demo64File.imageBase) = some s ∧ s.prd + s.rs ≤ demo64Img.bytes.size := by
  obtain ⟨-, -, -, -, -, s, h1, -, h2, -⟩ :=
    (C04_view_read_ok_iff .pe64 demo64Img demo64File demo64File_ok 0x140000104 4 4 ⟨244, 12, 4⟩).1 (by decide +kernel)
  exact ⟨s, h1, h2⟩

end Pelite.Pe
