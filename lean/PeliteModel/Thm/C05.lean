import PeliteModel.Lemmas.Typed
/-!
C05 — VA-based, RVA-based and typed reads are consistent views of the same bytes.
`v` ranges over every constructed view (any format, file or mapped, any overridden base address);
addresses and lengths over all naturals in the ranges of their Rust types.
-/
namespace Pelite.Pe

/-- the view's VA space does not wrap: `image_base + SizeOfImage` is representable in `Va` -/
def View.NoWrap (v : View) : Prop := v.imageBase + sizeOfImage v.b < v.fmt.vaLimit

/-- rva → va → rva is the identity on (0, SizeOfImage). -/
theorem C05_rva_va_rva (v : View) (hw : v.NoWrap) (r : Nat) (h0 : 0 < r) (h1 : r < sizeOfImage v.b) :
    v.rvaToVa r = .ok (v.imageBase + r) ∧ v.vaToRva (v.imageBase + r) = .ok r := by
  sorry

/-- va → rva → va is the identity on (base, base + SizeOfImage). -/
theorem C05_va_rva_va (v : View) (hw : v.NoWrap) (va r : Nat) (h : v.vaToRva va = .ok r)
    (h0 : 0 < r) (h1 : r < sizeOfImage v.b) : v.rvaToVa r = .ok va := by
  sorry

/-- When the VA space would wrap, `rva_to_va` reports `Overflow` (it neither panics nor wraps). -/
theorem C05_rva_to_va_total (v : View) (r : Nat) :
    (∃ va, v.rvaToVa r = .ok va ∧ va < v.fmt.vaLimit) ∨ (∃ e, v.rvaToVa r = .err e) := by
  sorry

/-- A mapped view slices the buffer at offset `rva`: exact success condition and result. -/
theorem C05_view_slice_iff (v : View) (hk : v.kind = .view) (r n a : Nat) (ref : Ref) :
    v.slice r n a = .ok ref ↔
      r ≠ 0 ∧ isPow2 a = true ∧ (v.img.base + r) % a = 0 ∧ r ≤ v.img.bytes.size ∧
      n ≤ v.img.bytes.size - r ∧ ref = ⟨r, v.img.bytes.size - r, a⟩ := by
  sorry

/-- Reading at virtual address B + r returns exactly what slicing at RVA r returns — same reference,
same error — for file views and mapped views. -/
theorem C05_read_eq_slice (v : View) (hw : v.NoWrap) (r n a : Nat) (h0 : 0 < r) (h1 : r < sizeOfImage v.b) :
    v.read (v.imageBase + r) n a = v.slice r n a := by
  sorry

/-- Whatever `slice` / `read` hand out lies inside the buffer, is aligned as requested and holds at
least the requested number of bytes (C01 obligation of the two primitives, every view kind). -/
theorem C05_at_sound (f : Fmt) (k : Kind) (img : Img) (v : View) (hv : fromBytes f k img = .ok v)
    (a : Addr) (min align : Nat) (ha : match a with | .rva r => r < 4294967296 | .va x => x < v.fmt.vaLimit)
    (ref : Ref) (h : v.at a min align = .ok ref) :
    RefOK v.img ref ∧ min ≤ ref.len ∧ ref.align = align := by
  sorry

/-- A zero address always yields the null error, for every typed read. -/
theorem C05_null (v : View) (min align : Nat) :
    v.at (.rva 0) min align = .err .null ∧ v.at (.va 0) min align = .err .null := by
  sorry

/-- Aligned struct read: the reference is the first `size` bytes of the untyped slice. -/
theorem C05_derva (v : View) (a : Addr) (size align : Nat) (ref : Ref) :
    v.derva a size align = .ok ref ↔
      ∃ s, v.at a size align = .ok s ∧ ref = ⟨s.off, size, align⟩ := by
  sorry

/-- Unaligned copy: the little-endian value of the first `size` bytes of the untyped slice. -/
theorem C05_derva_copy (v : View) (a : Addr) (size : Nat) (x : Nat) :
    v.dervaCopy a size = .ok x ↔ ∃ s, v.at a size 1 = .ok s ∧ x = leN v.b s.off size := by
  sorry

/-- Copy-into: exactly the first `len` bytes of the untyped slice, or an error (never fewer). -/
theorem C05_derva_into (v : View) (a : Addr) (len : Nat) (out : List UInt8) :
    v.dervaInto a len = .ok out ↔
      ∃ s, v.at a len 1 = .ok s ∧ out.length = len ∧ ∀ i, i < len → out[i]? = some (v.b.getD (s.off + i) 0) := by
  sorry

/-- Fixed-length array: `len` elements, only if all of them are inside the slice. -/
theorem C05_derva_slice (v : View) (a : Addr) (size align len : Nat) (ref : Ref) :
    v.dervaSlice a size align len = .ok ref ↔
      size * len < 18446744073709551616 ∧ ∃ s, v.at a (size * len) align = .ok s ∧ ref = ⟨s.off, size * len, align⟩ := by
  sorry

/-- Sentinel-terminated array: the elements before the FIRST element equal to the sentinel, and the
sentinel itself lies inside the slice; if the slice ends first the read fails with `Bounds` — never a
truncated table, never an over-read; the loop terminates (no `diverge`). -/
theorem C05_derva_slice_s (v : View) (a : Addr) (size align sentinel : Nat) (hs : 1 ≤ size) (s : Ref)
    (hat : v.at a 0 align = .ok s) :
    (∀ ref, v.dervaSliceS a size align sentinel = .ok ref →
        ∃ n, ref = ⟨s.off, n * size, align⟩ ∧ (n + 1) * size ≤ s.len ∧
          leN v.b (s.off + n * size) size = sentinel ∧
          ∀ j, j < n → leN v.b (s.off + j * size) size ≠ sentinel) ∧
    ((∀ j, (j + 1) * size ≤ s.len → leN v.b (s.off + j * size) size ≠ sentinel) →
        v.dervaSliceS a size align sentinel = .err .bounds) ∧
    v.dervaSliceS a size align sentinel ≠ .diverge := by
  sorry

/-- C string: up to and including the first NUL of the slice; no NUL in the slice → `Encoding`. -/
theorem C05_derva_cstr (v : View) (a : Addr) (s : Ref) (hat : v.at a 0 1 = .ok s) :
    (∀ ref, v.dervaCStr a = .ok ref →
        ref.off = s.off ∧ 1 ≤ ref.len ∧ ref.len ≤ s.len ∧ byteAt v.b (s.off + ref.len - 1) = 0 ∧
        ∀ j, j + 1 < ref.len → byteAt v.b (s.off + j) ≠ 0) ∧
    ((∀ j, j < s.len → byteAt v.b (s.off + j) ≠ 0) → v.dervaCStr a = .err .encoding) := by
  sorry

/-- Length-prefixed wide string (type not exported by the crate; stated on the model of
`WideStr::from_bytes`): the length word plus that many words, only if they fit. -/
theorem C05_wstr (b : Bytes) (off len : Nat) (ref : Ref) :
    wstrFromBytes b off len = some ref ↔
      (le16 b off + 1) * 2 ≤ len ∧ ref = ⟨off, (le16 b off + 1) * 2, 2⟩ := by
  sorry

/-- Prefix monotonicity: a C-string / sentinel scan that succeeds inside a window returns the same
result inside every longer window starting at the same place (used by C06: file → mapped view). -/
theorem C05_cstr_prefix_mono (b : Bytes) (off len len' : Nat) (hl : len ≤ len') (ref : Ref)
    (h : cstrFromBytes b off len = some ref) : cstrFromBytes b off len' = some ref := by
  sorry

theorem C05_sentinel_prefix_mono (b : Bytes) (off blen blen' size : Nat) (stop : Nat → Bool) (hl : blen ≤ blen')
    (fuel fuel' n : Nat) (hf : fuel ≤ fuel') (h : sliceFLoop b off blen size stop fuel 0 = .ok n) :
    sliceFLoop b off blen' size stop fuel' 0 = .ok n := by
  sorry

end Pelite.Pe
