import PeliteModel.Lemmas.Typed
/-!
C05 — VA-based, RVA-based and typed reads are consistent views of the same bytes.
`v` ranges over every constructed view (any format, file or mapped, any overridden base address);
addresses and lengths over all naturals in the ranges of their Rust types.
-/
namespace Pelite.Pe

-- the statements are fixed; `hw` of `C05_read_eq_slice*` makes `imageBase + r` a representable `Va`
-- but is not needed by the proof (the model computes on `Nat`)
set_option linter.unusedVariables false

/-- the view's VA space does not wrap: `image_base + SizeOfImage` is representable in `Va` -/
def View.NoWrap (v : View) : Prop := v.imageBase + sizeOfImage v.b < v.fmt.vaLimit

/-- rva → va → rva is the identity on (0, SizeOfImage). -/
theorem C05_rva_va_rva (v : View) (hw : v.NoWrap) (r : Nat) (h0 : 0 < r) (h1 : r < sizeOfImage v.b) :
    v.rvaToVa r = .ok (v.imageBase + r) ∧ v.vaToRva (v.imageBase + r) = .ok r := by
  unfold View.NoWrap at hw
  unfold View.rvaToVa View.vaToRva
  refine ⟨?_, ?_⟩
  · rw [if_neg (by omega), if_pos h1, if_pos (by omega)]
  · rw [if_neg (by omega), if_neg (by omega), Nat.add_sub_cancel_left]

/-- va → rva → va is the identity on (base, base + SizeOfImage). -/
theorem C05_va_rva_va (v : View) (hw : v.NoWrap) (va r : Nat) (h : v.vaToRva va = .ok r)
    (h0 : 0 < r) (h1 : r < sizeOfImage v.b) : v.rvaToVa r = .ok va := by
  unfold View.NoWrap at hw
  unfold View.vaToRva at h
  unfold View.rvaToVa
  by_cases hz : va = 0
  · rw [if_pos hz] at h; cases h
  · rw [if_neg hz] at h
    by_cases hb : va < v.imageBase ∨ va - v.imageBase > sizeOfImage v.b
    · rw [if_pos hb] at h; cases h
    · rw [if_neg hb] at h
      cases h
      have e : v.imageBase + (va - v.imageBase) = va := by omega
      rw [if_neg (by omega), if_pos h1, e, if_pos (by omega)]

/-- When the VA space would wrap, `rva_to_va` reports `Overflow` (it neither panics nor wraps). -/
theorem C05_rva_to_va_total (v : View) (r : Nat) :
    (∃ va, v.rvaToVa r = .ok va ∧ va < v.fmt.vaLimit) ∨ (∃ e, v.rvaToVa r = .err e) := by
  unfold View.rvaToVa
  by_cases hz : r = 0
  · rw [if_pos hz]; exact .inr ⟨_, rfl⟩
  · rw [if_neg hz]
    by_cases h1 : r < sizeOfImage v.b
    · rw [if_pos h1]
      by_cases h2 : v.imageBase + r < v.fmt.vaLimit
      · rw [if_pos h2]; exact .inl ⟨_, rfl, h2⟩
      · rw [if_neg h2]; exact .inr ⟨_, rfl⟩
    · rw [if_neg h1]; exact .inr ⟨_, rfl⟩

/-- A mapped view slices the buffer at offset `rva`: exact success condition and result. -/
theorem C05_view_slice_iff (v : View) (hk : v.kind = .view) (r n a : Nat) (ref : Ref) :
    v.slice r n a = .ok ref ↔
      r ≠ 0 ∧ isPow2 a = true ∧ (v.img.base + r) % a = 0 ∧ r ≤ v.img.bytes.size ∧
      n ≤ v.img.bytes.size - r ∧ ref = ⟨r, v.img.bytes.size - r, a⟩ := by
  unfold View.slice
  rw [hk]
  show sliceSection v.img r n a = .ok ref ↔ _
  rw [sliceSection_eq]
  by_cases h0 : r = 0
  · simp [h0]
  · rw [if_neg h0]
    by_cases hp : isPow2 a = true
    · rw [if_pos hp]
      by_cases ha : (v.img.base + r) % a = 0
      · rw [if_pos ha]
        by_cases hb : r ≤ v.img.bytes.size ∧ v.img.bytes.size - r ≥ n
        · rw [if_pos hb]
          simp only [Out.ok.injEq, ne_eq, h0, not_false_eq_true, hp, ha, hb.1, true_and]
          exact ⟨fun h => ⟨hb.2, h.symm⟩, fun h => h.2.symm⟩
        · rw [if_neg hb]
          constructor
          · intro h; cases h
          · intro h; exact absurd ⟨h.2.2.2.1, h.2.2.2.2.1⟩ hb
      · rw [if_neg ha]
        constructor
        · intro h; cases h
        · intro h; exact absurd h.2.2.1 ha
    · rw [if_neg hp]
      constructor
      · intro h; cases h
      · intro h; exact absurd h.2.1 hp

/-- Reading at virtual address B + r returns exactly what slicing at RVA r returns — same reference,
same error — for file views and mapped views.  When `a` is not a power of two both primitives panic
(the `debug_assert!` of `aligned_to`); the model's panic *site strings* differ (`read_*:aligned_to`
vs `slice_*:aligned_to`), a diagnostic that the property does not compare: hence the second disjunct.
Plain equality fails there only for that reason, e.g. on
`v = ⟨⟨Array.replicate 80 0 ++ #[2], 0⟩, .pe32, .view, 0⟩` (SizeOfImage = 2), `r = 1, n = 0, a = 0`
(`C05_read_eq_slice_sites_differ`). -/
theorem C05_read_eq_slice (v : View) (hw : v.NoWrap) (r n a : Nat) (h0 : 0 < r) (h1 : r < sizeOfImage v.b) :
    v.read (v.imageBase + r) n a = v.slice r n a ∨
    (∃ s1 s2, v.read (v.imageBase + r) n a = .panic s1 ∧ v.slice r n a = .panic s2) := by
  unfold View.read View.slice
  cases v.kind
  · obtain ⟨hA, hB⟩ := readFile_vs_sliceFile v.img v.secs v.imageBase (sizeOfImage v.b) r n a h0 (by omega)
    by_cases hp : isPow2 a = true
    · exact .inl (hA hp)
    · exact .inr ⟨_, _, (hB hp).1, (hB hp).2⟩
  · obtain ⟨hA, hB⟩ := readSection_vs_sliceSection v.img v.imageBase (sizeOfImage v.b) r n a h0 (by omega)
    by_cases hp : isPow2 a = true
    · exact .inl (hA hp)
    · exact .inr ⟨_, _, (hB hp).1, (hB hp).2⟩

/-- For every alignment a Rust type can have (a power of two) the two answers are equal outright. -/
theorem C05_read_eq_slice_pow2 (v : View) (hw : v.NoWrap) (r n a : Nat) (h0 : 0 < r)
    (h1 : r < sizeOfImage v.b) (hp : isPow2 a = true) :
    v.read (v.imageBase + r) n a = v.slice r n a := by
  unfold View.read View.slice
  cases v.kind
  · exact (readFile_vs_sliceFile v.img v.secs v.imageBase (sizeOfImage v.b) r n a h0 (by omega)).1 hp
  · exact (readSection_vs_sliceSection v.img v.imageBase (sizeOfImage v.b) r n a h0 (by omega)).1 hp

/-- The instance on which the panic site strings differ (so plain equality without `isPow2 a` is false
of the model; both sides are panics). -/
theorem C05_read_eq_slice_sites_differ :
    let v : View := ⟨⟨Array.replicate 80 0 ++ #[2], 0⟩, .pe32, .view, 0⟩
    v.NoWrap ∧ sizeOfImage v.b = 2 ∧ v.read (v.imageBase + 1) 0 0 = .panic "read_section:aligned_to" ∧
    v.slice 1 0 0 = .panic "slice_section:aligned_to" := by
  intro v
  unfold View.NoWrap
  decide

/-- Whatever `slice` / `read` hand out lies inside the buffer, is aligned as requested and holds at
least the requested number of bytes (C01 obligation of the two primitives, every view kind). -/
theorem C05_at_sound (f : Fmt) (k : Kind) (img : Img) (v : View) (hv : fromBytes f k img = .ok v)
    (a : Addr) (min align : Nat) (ha : match a with | .rva r => r < 4294967296 | .va x => x < v.fmt.vaLimit)
    (ref : Ref) (h : v.at a min align = .ok ref) :
    RefOK v.img ref ∧ min ≤ ref.len ∧ ref.align = align := by
  obtain ⟨_, rfl⟩ := (fromBytes_ok_iff _ _ _ _).1 hv
  have hs : ∀ s ∈ sections img.bytes, s.InRange := C07_sections_in_range _
  cases a with
  | rva r =>
    cases k
    · have h' : sliceFile img (sections img.bytes) r min align = .ok ref := h
      obtain ⟨hok, hm, _⟩ := C04_slice_file_sound img _ hs r min align ha ref h'
      exact ⟨hok, hm, (sliceFile_sound' hs h').2.2⟩
    · have h' : sliceSection img r min align = .ok ref := h
      exact sliceSection_sound h'
  | va x =>
    cases k
    · have h' : readFile img (sections img.bytes) (imageBaseField f img.bytes) (sizeOfImage img.bytes)
          x min align = .ok ref := h
      exact readFile_sound hs h'
    · have h' : readSection img (imageBaseField f img.bytes) (sizeOfImage img.bytes) x min align = .ok ref := h
      exact readSection_sound h'

/-- A zero address always yields the null error, for every typed read. -/
theorem C05_null (v : View) (min align : Nat) :
    v.at (.rva 0) min align = .err .null ∧ v.at (.va 0) min align = .err .null := by
  unfold View.at View.slice View.read
  cases v.kind <;> simp [sliceFile, sliceSection, readFile, readSection]

/-- Aligned struct read: the reference is the first `size` bytes of the untyped slice. -/
theorem C05_derva (v : View) (a : Addr) (size align : Nat) (ref : Ref) :
    v.derva a size align = .ok ref ↔
      ∃ s, v.at a size align = .ok s ∧ ref = ⟨s.off, size, align⟩ := by
  unfold View.derva
  cases h : v.at a size align <;> simp [eq_comm]

/-- Unaligned copy: the little-endian value of the first `size` bytes of the untyped slice. -/
theorem C05_derva_copy (v : View) (a : Addr) (size : Nat) (x : Nat) :
    v.dervaCopy a size = .ok x ↔ ∃ s, v.at a size 1 = .ok s ∧ x = leN v.b s.off size := by
  unfold View.dervaCopy
  cases h : v.at a size 1 <;> simp [eq_comm]

/-- Copy-into: exactly the first `len` bytes of the untyped slice, or an error (never fewer). -/
theorem C05_derva_into (v : View) (a : Addr) (len : Nat) (out : List UInt8) :
    v.dervaInto a len = .ok out ↔
      ∃ s, v.at a len 1 = .ok s ∧ out.length = len ∧ ∀ i, i < len → out[i]? = some (v.b.getD (s.off + i) 0) := by
  unfold View.dervaInto
  cases h : v.at a len 1 with
  | ok r => simp only [Out.ok.injEq, exists_eq_left']; exact map_range_eq_iff _ _ _
  | _ => simp

/-- Fixed-length array: `len` elements, only if all of them are inside the slice. -/
theorem C05_derva_slice (v : View) (a : Addr) (size align len : Nat) (ref : Ref) :
    v.dervaSlice a size align len = .ok ref ↔
      size * len < 18446744073709551616 ∧ ∃ s, v.at a (size * len) align = .ok s ∧ ref = ⟨s.off, size * len, align⟩ := by
  unfold View.dervaSlice
  by_cases hz : a.isZero = true
  · -- a zero address: Null before anything else (and `at` says Null as well)
    rw [if_pos hz]
    have hn : v.at a (size * len) align = .err .null := by
      cases a with
      | rva r => simp [Addr.isZero] at hz; subst hz; exact (C05_null v _ _).1
      | va x => simp [Addr.isZero] at hz; subst hz; exact (C05_null v _ _).2
    constructor
    · intro h; cases h
    · rintro ⟨_, s, hs, _⟩; rw [hn] at hs; cases hs
  · rw [if_neg hz]
    by_cases ho : size * len ≥ 18446744073709551616
    · rw [if_pos ho]
      constructor
      · intro h; cases h
      · intro h; omega
    · rw [if_neg ho]
      cases h : v.at a (size * len) align <;> simp [eq_comm] <;> omega

/-- "A zero address always yields the null error": every typed read, whatever the element size, length,
sentinel or alignment (for the fixed-length array this needed a repair of the Rust code: the length
overflow check used to come first). -/
theorem C05_null_typed (v : View) (size align len sentinel : Nat) :
    (v.derva (.rva 0) size align = .err .null ∧ v.derva (.va 0) size align = .err .null) ∧
    (v.dervaCopy (.rva 0) size = .err .null ∧ v.dervaCopy (.va 0) size = .err .null) ∧
    (v.dervaInto (.rva 0) len = .err .null ∧ v.dervaInto (.va 0) len = .err .null) ∧
    (v.dervaSlice (.rva 0) size align len = .err .null ∧ v.dervaSlice (.va 0) size align len = .err .null) ∧
    (v.dervaSliceS (.rva 0) size align sentinel = .err .null ∧ v.dervaSliceS (.va 0) size align sentinel = .err .null) ∧
    (v.dervaCStr (.rva 0) = .err .null ∧ v.dervaCStr (.va 0) = .err .null) ∧
    (v.dervaWStr (.rva 0) = .err .null ∧ v.dervaWStr (.va 0) = .err .null) := by
  have h1 := fun m a => (C05_null v m a).1
  have h2 := fun m a => (C05_null v m a).2
  simp [View.derva, View.dervaCopy, View.dervaInto, View.dervaSlice, View.dervaSliceS, View.dervaSliceF,
    View.dervaCStr, View.dervaWStr, Addr.isZero, h1, h2]

/-- Sentinel-terminated array: the elements before the FIRST element equal to the sentinel, and the
sentinel itself lies inside the slice; if the slice ends first the read fails with `Bounds` — never a
truncated table, never an over-read; the loop terminates (no `diverge`). -/
theorem C05_derva_slice_s (v : View) (a : Addr) (size align sentinel : Nat) (hs : 1 ≤ size) (s : Ref)
    (hat : v.at a 0 align = .ok s) :
    (∀ ref, v.dervaSliceS a size align sentinel = .ok ref →
        ∃ n, ref = ⟨s.off, n * size, align⟩ ∧ (n + 1) * size ≤ s.len ∧
          leN v.b (s.off + n * size) size = sentinel ∧
          ∀ j, j < n → leN v.b (s.off + j * size) size ≠ sentinel) ∧
    ((∀ j, (j + 1) * size ≤ s.len → leN v.b (s.off + j * size) size ≠ sentinel) →
        v.dervaSliceS a size align sentinel = .err .bounds) ∧
    v.dervaSliceS a size align sentinel ≠ .diverge := by
  unfold View.dervaSliceS View.dervaSliceF
  rw [hat]
  simp only
  refine ⟨?_, ?_, ?_⟩
  · intro ref h
    cases hL : sliceFLoop v.b s.off s.len size (fun x => x == sentinel) (s.len + 2) 0 with
    | ok n =>
      rw [hL] at h
      cases h
      obtain ⟨_, h2, h3, h4⟩ := sliceFLoop_ok _ _ _ hL
      refine ⟨n, rfl, h2, by simpa using h3, ?_⟩
      intro j hj
      simpa using h4 j (Nat.zero_le _) hj
    | _ => rw [hL] at h; cases h
  · intro hns
    rw [sliceFLoop_bounds (b := v.b) (off := s.off) (blen := s.len) (stop := fun x => x == sentinel) hs
      (s.len + 2) 0 (by omega) (by omega) (fun j _ hj => by simpa using hns j hj)]
  · have := sliceFLoop_ne_diverge (b := v.b) (off := s.off) (blen := s.len)
      (stop := fun x => x == sentinel) hs (s.len + 2) 0 (by omega) (by omega)
    cases hL : sliceFLoop v.b s.off s.len size (fun x => x == sentinel) (s.len + 2) 0 with
    | diverge => exact absurd hL this
    | _ => intro h; cases h

/-- Completeness of the sentinel read (the direction `C05_derva_slice_s` lacked): if the `n`-th element
of the slice is the first one equal to the sentinel and lies inside the slice, the read succeeds with
exactly the `n` elements before it. -/
theorem C05_derva_slice_s_complete (v : View) (a : Addr) (size align sentinel : Nat) (hs : 1 ≤ size) (s : Ref)
    (hat : v.at a 0 align = .ok s) (n : Nat) (hin : (n + 1) * size ≤ s.len)
    (hsen : leN v.b (s.off + n * size) size = sentinel)
    (hbefore : ∀ j, j < n → leN v.b (s.off + j * size) size ≠ sentinel) :
    v.dervaSliceS a size align sentinel = .ok ⟨s.off, n * size, align⟩ := by
  unfold View.dervaSliceS View.dervaSliceF
  rw [hat]
  dsimp only
  have hle : n + 1 ≤ (n + 1) * size := Nat.le_mul_of_pos_right _ hs
  rw [sliceFLoop_finds (b := v.b) (off := s.off) (blen := s.len) (stop := fun x => x == sentinel)
    (s.len + 2) 0 n (Nat.zero_le _) hin (by omega) (by simpa using hsen)
    (fun j _ hj => by simpa using hbefore j hj)]

/-- C string: up to and including the first NUL of the slice; no NUL in the slice → `Encoding`. -/
theorem C05_derva_cstr (v : View) (a : Addr) (s : Ref) (hat : v.at a 0 1 = .ok s) :
    (∀ ref, v.dervaCStr a = .ok ref →
        ref.off = s.off ∧ 1 ≤ ref.len ∧ ref.len ≤ s.len ∧ byteAt v.b (s.off + ref.len - 1) = 0 ∧
        ∀ j, j + 1 < ref.len → byteAt v.b (s.off + j) ≠ 0) ∧
    ((∀ j, j < s.len → byteAt v.b (s.off + j) ≠ 0) → v.dervaCStr a = .err .encoding) := by
  unfold View.dervaCStr cstrFromBytes
  rw [hat]
  simp only
  refine ⟨?_, ?_⟩
  · intro ref h
    cases hf : findNul v.b s.off s.len 0 with
    | none => rw [hf] at h; cases h
    | some n =>
      rw [hf] at h
      cases h
      obtain ⟨_, h2, h3, h4⟩ := findNul_some _ _ _ hf
      refine ⟨rfl, by simp, by simp; omega, ?_, ?_⟩
      · show byteAt v.b (s.off + (n + 1) - 1) = 0
        rw [show s.off + (n + 1) - 1 = s.off + n by omega]; exact h3
      · intro j hj
        exact h4 j (Nat.zero_le _) (by simp at hj; omega)
  · intro hnn
    rw [findNul_none s.len 0 (fun j _ hj => hnn j (by omega))]

/-- Length-prefixed wide string (type not exported by the crate; stated on the model of
`WideStr::from_bytes`): the length word plus that many words, only if they fit. -/
theorem C05_wstr (b : Bytes) (off len : Nat) (ref : Ref) :
    wstrFromBytes b off len = some ref ↔
      (le16 b off + 1) * 2 ≤ len ∧ ref = ⟨off, (le16 b off + 1) * 2, 2⟩ := by
  unfold wstrFromBytes
  simp only
  by_cases hc : (le16 b off + 1) * 2 > len
  · rw [if_pos hc]
    constructor
    · intro h; cases h
    · intro h; omega
  · rw [if_neg hc]
    constructor
    · intro h; cases h; exact ⟨by omega, rfl⟩
    · intro h; rw [h.2]

/-- Prefix monotonicity: a C-string / sentinel scan that succeeds inside a window returns the same
result inside every longer window starting at the same place (used by C06: file → mapped view). -/
theorem C05_cstr_prefix_mono (b : Bytes) (off len len' : Nat) (hl : len ≤ len') (ref : Ref)
    (h : cstrFromBytes b off len = some ref) : cstrFromBytes b off len' = some ref := by
  unfold cstrFromBytes at h ⊢
  cases hf : findNul b off len 0 with
  | none => rw [hf] at h; cases h
  | some n =>
    rw [hf] at h
    rw [findNul_mono len len' 0 n hl hf]
    exact h

theorem C05_sentinel_prefix_mono (b : Bytes) (off blen blen' size : Nat) (stop : Nat → Bool) (hl : blen ≤ blen')
    (fuel fuel' n : Nat) (hf : fuel ≤ fuel') (h : sliceFLoop b off blen size stop fuel 0 = .ok n) :
    sliceFLoop b off blen' size stop fuel' 0 = .ok n := by
  exact sliceFLoop_mono hl fuel fuel' 0 n hf h

/-! ### non-vacuity: a minimal accepted PE32 image (200 bytes, no sections, mapped), data after the headers -/

/-- DOS header, `e_lfanew = 64`, NT headers (PE32, ImageBase 0x400000, SizeOfImage 200, SizeOfHeaders 184),
then `"ab\0"` at 184 and the u16 table `1, 2, 0xffff` at 188 -/
def demoImg : Img := ⟨
    #[77, 90, 0, 0, 0, 0, 0, 0, 0, 0, 0, 0, 0, 0, 0, 0, 0, 0, 0, 0, 0, 0, 0, 0, 0, 0, 0, 0, 0, 0, 0, 0,
    0, 0, 0, 0, 0, 0, 0, 0, 0, 0, 0, 0, 0, 0, 0, 0, 0, 0, 0, 0, 0, 0, 0, 0, 0, 0, 0, 0, 64, 0, 0, 0, 80,
    69, 0, 0, 0, 0, 0, 0, 0, 0, 0, 0, 0, 0, 0, 0, 0, 0, 0, 0, 96, 0, 0, 0, 11, 1, 0, 0, 0, 0, 0, 0, 0,
    0, 0, 0, 0, 0, 0, 0, 0, 0, 0, 0, 0, 0, 0, 0, 0, 0, 0, 0, 0, 0, 64, 0, 0, 0, 0, 0, 0, 0, 0, 0, 0, 0,
    0, 0, 0, 0, 0, 0, 0, 0, 0, 0, 0, 0, 0, 0, 200, 0, 0, 0, 184, 0, 0, 0, 0, 0, 0, 0, 0, 0, 0, 0, 0, 0,
    0, 0, 0, 0, 0, 0, 0, 0, 0, 0, 0, 0, 0, 0, 0, 0, 0, 0, 0, 0, 0, 0, 97, 98, 0, 0, 1, 0, 2, 0, 255,
    255, 0, 0, 0, 0, 0, 0], 0⟩

def demoView : View := ⟨demoImg, .pe32, .view, 0x400000⟩

example : fromBytes .pe32 .view demoImg = .ok demoView ∧ demoView.NoWrap ∧ sizeOfImage demoView.b = 200 ∧
    demoView.rvaToVa 184 = .ok 0x4000b8 ∧ demoView.vaToRva 0x4000b8 = .ok 184 ∧
    demoView.at (.rva 184) 0 1 = .ok ⟨184, 16, 1⟩ ∧ demoView.at (.va 0x4000b8) 0 1 = .ok ⟨184, 16, 1⟩ ∧
    demoView.dervaCStr (.rva 184) = .ok ⟨184, 3, 1⟩ ∧
    demoView.at (.rva 188) 0 2 = .ok ⟨188, 12, 2⟩ ∧
    demoView.dervaSliceS (.rva 188) 2 2 0xffff = .ok ⟨188, 4, 2⟩ ∧
    demoView.dervaSliceS (.va 0x4000bc) 2 2 0x1234 = .err .bounds ∧
    demoView.dervaCopy (.rva 190) 2 = .ok 2 ∧
    demoView.derva (.rva 189) 2 2 = .err .misaligned := by
  refine ⟨(fromBytes_ok_iff _ _ _ _).2 ⟨by decide +kernel,
    by rw [show imageBaseField .pe32 demoImg.bytes = 0x400000 by decide +kernel]; rfl⟩, ?_⟩
  unfold View.NoWrap
  decide +kernel

/-! ### endpoint asymmetry of the two address conversions -/

/-- `va_to_rva` accepts the one-past-the-end address `image_base + SizeOfImage` (its test is
`va - image_base > size_of_image`, pe.rs:213) while `rva_to_va` rejects the rva `SizeOfImage` (its test
is `rva < size_of_image`, pe.rs:187): the round trip of C05 holds on `(0, SizeOfImage)` only, and the
two functions disagree at exactly one point.  Stated as the model and the Rust code behave. -/
theorem C05_va_rva_endpoint (v : View) (h : 0 < sizeOfImage v.b) :
    v.vaToRva (v.imageBase + sizeOfImage v.b) = .ok (sizeOfImage v.b) ∧
    v.rvaToVa (sizeOfImage v.b) = .err .bounds ∧
    (∀ d, 0 < d → v.vaToRva (v.imageBase + sizeOfImage v.b + d) = .err .bounds) ∧
    (∀ d, v.rvaToVa (sizeOfImage v.b + d) = .err .bounds) := by
  unfold View.vaToRva View.rvaToVa
  refine ⟨?_, ?_, ?_, ?_⟩
  · rw [if_neg (by omega), if_neg (by omega), Nat.add_sub_cancel_left]
  · rw [if_neg (by omega), if_neg (by omega)]
  · intro d hd
    rw [if_neg (by omega), if_pos (by omega)]
  · intro d
    rw [if_neg (by omega), if_neg (by omega)]

/-- the endpoint on the 200-byte PE32 view and on the PE32+ file (answers confirmed with the harness:
`v2r f64 0x140000120` = `ok 288`, `r2v f64 288` = `err Bounds`) -/
example : demoView.vaToRva (0x400000 + 200) = .ok 200 ∧ demoView.rvaToVa 200 = .err .bounds ∧
    demoView.rvaToVa 199 = .ok (0x400000 + 199) ∧
    demo64File.vaToRva (0x140000000 + 288) = .ok 288 ∧ demo64File.rvaToVa 288 = .err .bounds := by
  decide +kernel

/-! ### the wide string read itself -/

/-- Length-prefixed wide string through `derva_string::<WideStr>` / `deref_string::<WideStr>`: with
`s` the untyped slice (`slice(rva, 2, 2)` / `read(va, 2, 2)`) and `n` its first (length) word, the
result is the first `2 + 2 * n` bytes of `s` (2-aligned) exactly when they fit into `s`; when they do
not fit the answer is `Encoding` (`T::from_bytes(bytes).ok_or(Error::Encoding)`, pe.rs:383) — never a
truncated string.  (When fewer than two bytes are available `slice` itself fails: `C05_derva_wstr_err`.) -/
theorem C05_derva_wstr (v : View) (a : Addr) (s : Ref) (hat : v.at a 2 2 = .ok s) :
    (∀ ref, v.dervaWStr a = .ok ref ↔
        2 + 2 * le16 v.b s.off ≤ s.len ∧ ref = ⟨s.off, 2 + 2 * le16 v.b s.off, 2⟩) ∧
    (s.len < 2 + 2 * le16 v.b s.off → v.dervaWStr a = .err .encoding) := by
  unfold View.dervaWStr wstrFromBytes
  rw [hat]
  dsimp only
  have e : (le16 v.b s.off + 1) * 2 = 2 + 2 * le16 v.b s.off := by omega
  rw [e]
  by_cases hc : 2 + 2 * le16 v.b s.off > s.len
  · rw [if_pos hc]
    refine ⟨fun ref => ⟨fun h => (by cases h), fun h => (by omega)⟩, fun _ => rfl⟩
  · rw [if_neg hc]
    refine ⟨fun ref => ⟨fun h => ?_, fun h => ?_⟩, fun h => (by omega)⟩
    · cases h; exact ⟨by omega, rfl⟩
    · rw [h.2]

/-- whatever error the untyped primitive reports (Null, Misaligned, Bounds, ZeroFill, …) is the answer -/
theorem C05_derva_wstr_err (v : View) (a : Addr) (e : Err) (hat : v.at a 2 2 = .err e) :
    v.dervaWStr a = .err e := by
  unfold View.dervaWStr
  rw [hat]

/-- on the PE32+ file: the wide string `2, 'a', 'b'` at rva 266; a length word of 7 (rva 260) does not
fit the 12 bytes left → `Encoding`; an odd rva → `Misaligned`; the zero-filled tail → `ZeroFill` -/
example : demo64File.at (.rva 266) 2 2 = .ok ⟨250, 6, 2⟩ ∧ demo64File.dervaWStr (.rva 266) = .ok ⟨250, 6, 2⟩ ∧
    demo64File.dervaWStr (.va 0x14000010a) = .ok ⟨250, 6, 2⟩ ∧
    demo64File.dervaWStr (.rva 260) = .err .encoding ∧ demo64File.dervaWStr (.rva 267) = .err .misaligned ∧
    demo64File.dervaWStr (.rva 272) = .err .zeroFill := by
  decide +kernel

/-! ### `leN` made honest -/

/-- `leN` — the value the model hands to the sentinel predicate and returns from `derva_copy` — is the
little-endian value of the element exactly for the sizes of the integer types; for every other size
it is 0 (`leN_other`), so `C05_derva_copy` / `C05_derva_slice_s` speak about the element VALUE only for
sizes 1, 2, 4, 8 (the driver never evaluates it for the struct element types).  The two theorems
below restate them against the size-independent specification `leValue`. -/
theorem C05_leN_is_le_value (b : Bytes) (off size : Nat) :
    (size = 1 ∨ size = 2 ∨ size = 4 ∨ size = 8 → leN b off size = leValue b off size) ∧
    (¬ (size = 1 ∨ size = 2 ∨ size = 4 ∨ size = 8) → leN b off size = 0) :=
  ⟨leN_eq_leValue b off size, leN_other b off size⟩

/-- the limitation is real: three bytes `01 02 03` -/
example : leN #[1, 2, 3] 0 3 = 0 ∧ leValue #[1, 2, 3] 0 3 = 0x030201 ∧ leN #[1, 2, 3] 0 2 = 0x0201 ∧
    leValue #[1, 2, 3] 0 2 = 0x0201 := by decide

/-- Unaligned copy of an integer: the little-endian value of the first `size` bytes of the untyped slice. -/
theorem C05_derva_copy_le (v : View) (a : Addr) (size : Nat) (hs : size = 1 ∨ size = 2 ∨ size = 4 ∨ size = 8)
    (x : Nat) :
    v.dervaCopy a size = .ok x ↔ ∃ s, v.at a size 1 = .ok s ∧ x = leValue v.b s.off size := by
  rw [C05_derva_copy]
  simp only [leN_eq_leValue _ _ _ hs]

/-- Sentinel-terminated array of integers, against `leValue`; with the completeness direction: the
elements before the first sentinel inside the slice ARE returned. -/
theorem C05_derva_slice_s_le (v : View) (a : Addr) (size align sentinel : Nat)
    (hs : size = 1 ∨ size = 2 ∨ size = 4 ∨ size = 8) (s : Ref) (hat : v.at a 0 align = .ok s) :
    (∀ ref, v.dervaSliceS a size align sentinel = .ok ref →
        ∃ n, ref = ⟨s.off, n * size, align⟩ ∧ (n + 1) * size ≤ s.len ∧
          leValue v.b (s.off + n * size) size = sentinel ∧
          ∀ j, j < n → leValue v.b (s.off + j * size) size ≠ sentinel) ∧
    (∀ n, (n + 1) * size ≤ s.len → leValue v.b (s.off + n * size) size = sentinel →
        (∀ j, j < n → leValue v.b (s.off + j * size) size ≠ sentinel) →
        v.dervaSliceS a size align sentinel = .ok ⟨s.off, n * size, align⟩) ∧
    ((∀ j, (j + 1) * size ≤ s.len → leValue v.b (s.off + j * size) size ≠ sentinel) →
        v.dervaSliceS a size align sentinel = .err .bounds) := by
  have h1 : 1 ≤ size := by omega
  simp only [← leN_eq_leValue _ _ _ hs]
  obtain ⟨hA, hB, -⟩ := C05_derva_slice_s v a size align sentinel h1 s hat
  exact ⟨hA, C05_derva_slice_s_complete v a size align sentinel h1 s hat, hB⟩

/-! ### second audit round: `NoWrap` — instances for both formats and both kinds, and what fails without it -/

/-- the PE32+ image of `demo64File` handed to `PeView::from_bytes` (the constructors do not look at the
section contents: the same bytes are accepted as a mapped image of 256 of its declared 288 bytes) -/
def demo64View : View := ⟨demo64Img, .pe64, .view, 0x140000000⟩
/-- `twoSecPe32` (Lemmas/PeHdr.lean) as a PE32 file view -/
def twoSec32File : View := ⟨⟨twoSecPe32, 0⟩, .pe32, .file, 0x400000⟩

/-- hypotheses of `C05_rva_va_rva`, `C05_va_rva_va`, `C05_read_eq_slice(_pow2)` on a PE32+ FILE, a PE32+
mapped VIEW and a PE32 FILE (the PE32 view is the example above), with the identities they give -/
example :
    (fromBytes .pe64 .file demo64Img = .ok demo64File ∧ demo64File.NoWrap ∧ 260 < sizeOfImage demo64File.b ∧
      demo64File.rvaToVa 260 = .ok 0x140000104 ∧ demo64File.vaToRva 0x140000104 = .ok 260 ∧
      demo64File.read 0x140000104 2 2 = .ok ⟨244, 12, 2⟩ ∧ demo64File.slice 260 2 2 = .ok ⟨244, 12, 2⟩) ∧
    (fromBytes .pe64 .view demo64Img = .ok demo64View ∧ demo64View.NoWrap ∧ 240 < sizeOfImage demo64View.b ∧
      demo64View.rvaToVa 240 = .ok 0x1400000f0 ∧ demo64View.vaToRva 0x1400000f0 = .ok 240 ∧
      demo64View.read 0x1400000f0 8 8 = .ok ⟨240, 16, 8⟩ ∧ demo64View.slice 240 8 8 = .ok ⟨240, 16, 8⟩) ∧
    (fromBytes .pe32 .file ⟨twoSecPe32, 0⟩ = .ok twoSec32File ∧ twoSec32File.NoWrap ∧
      288 < sizeOfImage twoSec32File.b ∧
      twoSec32File.rvaToVa 288 = .ok 0x400120 ∧ twoSec32File.vaToRva 0x400120 = .ok 288 ∧
      twoSec32File.read 0x400120 2 2 = .ok ⟨284, 4, 2⟩ ∧ twoSec32File.slice 288 2 2 = .ok ⟨284, 4, 2⟩) := by
  refine ⟨⟨demo64File_ok, ?_⟩, ⟨(fromBytes_ok_iff _ _ _ _).2 ⟨by decide +kernel,
      by rw [show imageBaseField .pe64 demo64Img.bytes = 0x140000000 by decide +kernel]; rfl⟩, ?_⟩,
    ⟨(fromBytes_ok_iff _ _ _ _).2 ⟨by decide +kernel,
      by rw [show imageBaseField .pe32 twoSecPe32 = 0x400000 by decide +kernel]; rfl⟩, ?_⟩⟩ <;>
  · unfold View.NoWrap
    decide +kernel

/-- **`NoWrap` is necessary** (PE32).  The PE32 view relocated with `set_base_address(0xffffff80)`:
`base + SizeOfImage` exceeds the 32-bit address space.  For the rva 184 (inside the image, beyond the wrap)
`rva_to_va` answers `Overflow` (`checked_add`), the wrapped address `base + 184 mod 2^32 = 0x38` is `Bounds`
for `va_to_rva` and for `read`, while `slice 184` succeeds: the conclusions of `C05_rva_va_rva` and
`C05_read_eq_slice` fail.  Below the wrap (rva 100) they still hold.  The real code answers the same
(`r2v v32@0xffffff80 184` = `err Overflow`, `read v32@0xffffff80 0x38 0 1` = `err Bounds`). -/
theorem C05_rva_va_rva_wrap_false :
    let v := demoView.setBase 0xffffff80
    ¬ v.NoWrap ∧ 0 < 184 ∧ 184 < sizeOfImage v.b ∧
    v.rvaToVa 184 = .err .overflow ∧ v.vaToRva 0x38 = .err .bounds ∧
    v.slice 184 0 1 = .ok ⟨184, 16, 1⟩ ∧ v.read 0x38 0 1 = .err .bounds ∧
    v.rvaToVa 100 = .ok 0xffffffe4 ∧ v.vaToRva 0xffffffe4 = .ok 100 ∧
    v.read 0xffffffe4 0 1 = v.slice 100 0 1 := by
  intro v
  unfold View.NoWrap
  decide +kernel

/-- the same for PE32+: `set_base_address(0xffffffffffffff00)` on the PE32+ view; rva 256 sits exactly at
the wrap (`base + 256 = 2^64`) -/
theorem C05_rva_va_rva_wrap_false_64 :
    let v := demo64View.setBase 0xffffffffffffff00
    ¬ v.NoWrap ∧ 0 < 256 ∧ 256 < sizeOfImage v.b ∧
    v.rvaToVa 256 = .err .overflow ∧ v.rvaToVa 255 = .ok 0xffffffffffffffff ∧
    v.vaToRva 0xffffffffffffffff = .ok 255 := by
  intro v
  unfold View.NoWrap
  decide +kernel

end Pelite.Pe
