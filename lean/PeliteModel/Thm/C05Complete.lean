import PeliteModel.Thm.C05
import PeliteModel.Lemmas.TypedComplete
/-!
C05 (completeness of the sentinel-terminated read).  `C05_derva_slice_s` says what an `Ok` answer of
`derva_slice_s` / `deref_slice_s` looks like and when the answer is `Bounds`; a model that always
answered `Bounds` would satisfy its first conjunct.  Here: the answer is DETERMINED by the bytes — the
table ending at the first sentinel whenever that sentinel lies inside the readable bytes, `Bounds`
otherwise, and the error of the address resolution when that fails.  (The positive direction alone is
also `C05_derva_slice_s_complete` in Thm/C05.lean; the proofs here do not depend on it.)
-/
namespace Pelite.Pe

/-- Completeness: when the untyped slice at `a` is `s`, element `n` equals the sentinel, no earlier element
does, and element `n` lies inside `s`, the read answers exactly the `n` elements before it.  Conversely,
when none of the `s.len / size` whole elements inside `s` equals the sentinel the answer is `Bounds`. -/
theorem C05_derva_slice_s_determined (v : View) (a : Addr) (size align sentinel : Nat) (hs : 1 ≤ size) (s : Ref)
    (hat : v.at a 0 align = .ok s) :
    (∀ n, (n + 1) * size ≤ s.len → leN v.b (s.off + n * size) size = sentinel →
        (∀ j, j < n → leN v.b (s.off + j * size) size ≠ sentinel) →
        v.dervaSliceS a size align sentinel = .ok ⟨s.off, n * size, align⟩) ∧
    ((∀ j, j < s.len / size → leN v.b (s.off + j * size) size ≠ sentinel) →
        v.dervaSliceS a size align sentinel = .err .bounds) := by
  refine ⟨?_, ?_⟩
  · intro n hin hz hno
    unfold View.dervaSliceS View.dervaSliceF
    rw [hat]
    simp only
    have hn : n + 1 ≤ (n + 1) * size := Nat.le_mul_of_pos_right _ hs
    rw [sliceFLoop_eq_ok (b := v.b) (off := s.off) (blen := s.len) (stop := fun x => x == sentinel)
      (s.len + 2) 0 n (Nat.zero_le _) (by omega) hin (by simpa using hz)
      (fun j _ hj => by simpa using hno j hj)]
  · intro hno
    apply (C05_derva_slice_s v a size align sentinel hs s hat).2.1
    intro j hj
    exact hno j ((Nat.le_div_iff_mul_le (by omega)).2 hj)

/-- Exact characterisation: `Ok(ref)` iff `ref` is the table before the FIRST sentinel inside the slice. -/
theorem C05_derva_slice_s_iff (v : View) (a : Addr) (size align sentinel : Nat) (hs : 1 ≤ size) (s : Ref)
    (hat : v.at a 0 align = .ok s) (ref : Ref) :
    v.dervaSliceS a size align sentinel = .ok ref ↔
      ∃ n, ref = ⟨s.off, n * size, align⟩ ∧ (n + 1) * size ≤ s.len ∧
        leN v.b (s.off + n * size) size = sentinel ∧
        ∀ j, j < n → leN v.b (s.off + j * size) size ≠ sentinel := by
  constructor
  · exact (C05_derva_slice_s v a size align sentinel hs s hat).1 ref
  · rintro ⟨n, rfl, h1, h2, h3⟩
    exact (C05_derva_slice_s_determined v a size align sentinel hs s hat).1 n h1 h2 h3

/-- The answer is a function of the bytes: exactly one of "first sentinel at element `n` inside the slice"
and "no sentinel among the whole elements of the slice" holds, so the two conjuncts of
`C05_derva_slice_s_determined` cover every input; and when the address does not resolve, its error is the answer. -/
theorem C05_derva_slice_s_total (v : View) (a : Addr) (size align sentinel : Nat) (hs : 1 ≤ size) :
    (∀ e, v.at a 0 align = .err e → v.dervaSliceS a size align sentinel = .err e) ∧
    (∀ s, v.at a 0 align = .ok s →
      (∃ n, (n + 1) * size ≤ s.len ∧ leN v.b (s.off + n * size) size = sentinel ∧
        (∀ j, j < n → leN v.b (s.off + j * size) size ≠ sentinel) ∧
        v.dervaSliceS a size align sentinel = .ok ⟨s.off, n * size, align⟩) ∨
      ((∀ j, j < s.len / size → leN v.b (s.off + j * size) size ≠ sentinel) ∧
        v.dervaSliceS a size align sentinel = .err .bounds)) := by
  refine ⟨fun e he => dervaSliceS_at_err v a size align sentinel e he, ?_⟩
  intro s hat
  obtain ⟨c1, c2⟩ := C05_derva_slice_s_determined v a size align sentinel hs s hat
  -- search for the first sentinel among the `s.len / size` whole elements
  have key : ∀ m, m ≤ s.len / size → (∀ j, j < m → leN v.b (s.off + j * size) size ≠ sentinel) →
      (∃ n, (n + 1) * size ≤ s.len ∧ leN v.b (s.off + n * size) size = sentinel ∧
        (∀ j, j < n → leN v.b (s.off + j * size) size ≠ sentinel)) ∨
      (∀ j, j < s.len / size → leN v.b (s.off + j * size) size ≠ sentinel) := by
    intro m
    induction hm : s.len / size - m generalizing m with
    | zero =>
      intro hle hall
      have : m = s.len / size := by omega
      subst this
      exact .inr hall
    | succ k ih =>
      intro hle hall
      by_cases hz : leN v.b (s.off + m * size) size = sentinel
      · exact .inl ⟨m, (Nat.le_div_iff_mul_le (by omega)).1 (by omega), hz, hall⟩
      · exact ih (m + 1) (by omega) (by omega) (fun j hj => by
          by_cases hjm : j = m
          · subst hjm; exact hz
          · exact hall j (by omega))
  rcases key 0 (Nat.zero_le _) (fun j hj => by omega) with ⟨n, h1, h2, h3⟩ | hno
  · exact .inl ⟨n, h1, h2, h3, c1 n h1 h2 h3⟩
  · exact .inr ⟨hno, c2 hno⟩

/-! ### non-vacuity: the u16 table `1, 2, 0xffff` at 188 of `demoView` (12 readable bytes = 6 elements) -/

/-- the hypotheses of the positive conjunct hold with `n = 2`, those of the `Bounds` conjunct for a sentinel
that does not occur; the model answers as the theorem says -/
example :
    demoView.at (.rva 188) 0 2 = .ok ⟨188, 12, 2⟩ ∧
    (2 + 1) * 2 ≤ 12 ∧ leN demoView.b (188 + 2 * 2) 2 = 0xffff ∧
    (∀ j, j < 2 → leN demoView.b (188 + j * 2) 2 ≠ 0xffff) ∧
    demoView.dervaSliceS (.rva 188) 2 2 0xffff = .ok ⟨188, 2 * 2, 2⟩ ∧
    (∀ j, j < 12 / 2 → leN demoView.b (188 + j * 2) 2 ≠ 0x1234) ∧
    demoView.dervaSliceS (.rva 188) 2 2 0x1234 = .err .bounds := by
  decide +kernel

end Pelite.Pe
