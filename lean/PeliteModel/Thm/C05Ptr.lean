import PeliteModel.Model.Ptr
import PeliteModel.Thm.C05
/-!
C05, typed addresses (src/pe64/ptr.rs, src/pir.rs): pointer arithmetic is address arithmetic, the printed text is
the address, and **element `i` of a typed array read is the typed read at `p.at(i)`**.
-/
namespace Pelite.PtrT
open Pelite Pelite.Pe

/-- `at`: the address of element `i` whenever nothing overflows — and it panics (checked build) exactly otherwise -/
theorem C05_ptr_at (w va size i : Nat) (hw : w = 32 ∨ w = 64) (h : va + i * size < 2 ^ w) :
    elemAt w va size i = .ok (va + i * size) := by
  have h64 : i * size < 2 ^ 64 := by rcases hw with rfl | rfl <;> omega
  have hm : (i * size) % 2 ^ w = i * size := Nat.mod_eq_of_lt (by omega)
  simp [elemAt, h64, hm, h]

theorem C05_ptr_at_zero (w va size : Nat) (hv : va < 2 ^ w) : elemAt w va size 0 = .ok va := by
  simp [elemAt, hv]

/-- in the 32-bit format the element offset is truncated BEFORE the (checked) addition: an index whose byte offset
is a multiple of 2^32 silently yields the pointer itself (observed, recorded; `i` is caller-supplied) -/
theorem C05_ptr_at_truncates_pe32 : elemAt 32 0x1000 4 0x40000000 = .ok 0x1000 := by decide

theorem C05_ptr_offset_back (w va off : Nat) (hv : va < 2 ^ w) (ho : off < 2 ^ w) :
    offset w (offset w va off) ((2 ^ w - off) % 2 ^ w) = va := by
  unfold offset
  by_cases h0 : off = 0
  · subst h0; simp [Nat.mod_eq_of_lt hv]
  · rw [Nat.mod_eq_of_lt (show 2 ^ w - off < 2 ^ w by omega)]
    rw [Nat.mod_add_mod, show va + off + (2 ^ w - off) = va + 2 ^ w by omega, Nat.add_mod_right, Nat.mod_eq_of_lt hv]

/-- a negative byte offset `-k` (two's complement `2^w - k`) steps back `k` bytes — in BOTH formats (the sixth round's
C05-r6-1 zero-extended the 32-bit pattern in PE32+: `p.offset(-16)` became `p + 2^32 - 16`) -/
theorem C05_ptr_offset_neg (w va k : Nat) (hv : va < 2 ^ w) (hk : k ≤ va) (hk0 : 0 < k) :
    offset w va (2 ^ w - k) = va - k := by
  unfold offset
  rw [show va + (2 ^ w - k) = (va - k) + 2 ^ w by omega, Nat.add_mod_right, Nat.mod_eq_of_lt (by omega)]

theorem C05_ptr_offset_pos (w va k : Nat) (h : va + k < 2 ^ w) : offset w va k = va + k := by
  unfold offset; exact Nat.mod_eq_of_lt h

theorem C05_ptr_member (w va off : Nat) (h : va + off < 2 ^ w) : member w va off = .ok (va + off) := by
  simp [member, h]

/-! ### the text is the address -/

def unhexDigitL (c : Nat) : Nat := if c < 58 then c - 48 else c - 87

/-- value of a digit string, most significant first -/
def valueOf : List Nat → Nat → Nat
  | [], acc => acc
  | c :: cs, acc => valueOf cs (acc * 16 + unhexDigitL c)

theorem unhex_hex (n : Nat) (h : n < 16) : unhexDigitL (hexDigitL n) = n := by
  unfold unhexDigitL hexDigitL; split <;> split <;> omega

theorem nibbles_length (va n : Nat) : (nibbles va n).length = n := by
  induction n with
  | zero => rfl
  | succ n ih => simp [nibbles, ih]

theorem valueOf_nibbles (va n acc : Nat) : valueOf (nibbles va n) acc = acc * 16 ^ n + va % 16 ^ n := by
  induction n generalizing acc with
  | zero => simp [nibbles, valueOf, Nat.mod_one]
  | succ n ih =>
    simp only [nibbles, valueOf]
    rw [ih, unhex_hex _ (Nat.mod_lt _ (by omega))]
    have h1 : va % 16 ^ (n + 1) = (va / 16 ^ n % 16) * 16 ^ n + va % 16 ^ n := by
      rw [Nat.pow_succ, Nat.mod_mul, Nat.add_comm, Nat.mul_comm]
    rw [h1, Nat.pow_succ]
    rw [Nat.add_mul, Nat.mul_assoc, Nat.mul_comm 16 (16 ^ n)]
    omega

/-- **Display / Debug of a typed address**: `0x`, then exactly `w/4` lower-case hex digits whose value is the address -/
theorem C05_ptr_text (w va : Nat) (hw : w = 32 ∨ w = 64) (hv : va < 2 ^ w) :
    (text w va).length = 2 + w / 4 ∧ (text w va).take 2 = [48, 120] ∧ valueOf ((text w va).drop 2) 0 = va := by
  refine ⟨by simp [text, nibbles_length]; omega, by simp [text], ?_⟩
  simp only [text, List.drop_append, List.length_cons, List.length_nil]
  simp only [show List.drop 2 [48, 120] = ([] : List Nat) from rfl, Nat.sub_self, List.drop_zero, List.nil_append]
  rw [valueOf_nibbles]
  rcases hw with rfl | rfl
  · simpa using Nat.mod_eq_of_lt hv
  · simpa using Nat.mod_eq_of_lt hv

theorem C05_ptr_text_injective (w a b : Nat) (hw : w = 32 ∨ w = 64) (ha : a < 2 ^ w) (hb : b < 2 ^ w)
    (h : text w a = text w b) : a = b := by
  have h1 := (C05_ptr_text w a hw ha).2.2
  have h2 := (C05_ptr_text w b hw hb).2.2
  rw [h] at h1; exact h1.symm.trans h2

example : text 32 0x1000 = "0x00001000".toList.map Char.toNat := by decide
example : text 64 0x140001000 = "0x0000000140001000".toList.map Char.toNat := by decide
example : text 32 0xDEADBEEF = "0xdeadbeef".toList.map Char.toNat := by decide

/-! ### element `i` of an array read = the read at `p.at(i)` (mapped views) -/

/-- **A mapped view**: if the `len`-element array at rva `r` is readable, then for every `i < len` the single
element at `Pir::at(i)` is readable and is the `i`-th `size`-byte piece of the array (the element size a multiple of
the alignment, as for every Rust type). -/
theorem C05_slice_element_view (v : View) (hk : v.kind = .view) (r size align len i : Nat) (ref : Ref)
    (hsz : v.img.bytes.size < 2 ^ 32)
    (h : v.dervaSlice (.rva r) size align len = .ok ref) (hi : i < len) (hal : size % align = 0)
    (p : Nat) (hp : elemAt 32 r size i = .ok p) :
    p = r + i * size ∧ v.derva (.rva p) size align = .ok ⟨ref.off + i * size, size, align⟩ := by
  obtain ⟨_, s, hs, rfl⟩ := (C05_derva_slice v _ _ _ _ _).1 h
  have hs' := (C05_view_slice_iff v hk r (size * len) align s).1 hs
  obtain ⟨h0, hp2, ha, hle, hn, rfl⟩ := hs'
  have hlt : i * size + size ≤ size * len := by
    have : (i + 1) * size ≤ len * size := Nat.mul_le_mul_right size (by omega)
    rw [Nat.mul_comm size len]; rw [Nat.add_mul] at this; omega
  -- the pointer arithmetic did not truncate: the element lies inside the buffer (< 4 GiB by `at`'s success)
  have hpv : p = r + (i * size) % 2 ^ 32 ∧ r + (i * size) % 2 ^ 32 < 2 ^ 32 := by
    unfold elemAt at hp
    split at hp
    · simp only at hp
      split at hp
      · exact ⟨by cases hp; rfl, by assumption⟩
      · cases hp
    · cases hp
  by_cases hsmall : i * size < 2 ^ 32
  · have hpe : p = r + i * size := by rw [hpv.1, Nat.mod_eq_of_lt hsmall]
    refine ⟨hpe, ?_⟩
    subst hpe
    apply (C05_derva v _ _ _ _).2
    refine ⟨⟨r + i * size, v.img.bytes.size - (r + i * size), align⟩, ?_, rfl⟩
    show v.slice (r + i * size) size align = _
    apply (C05_view_slice_iff v hk _ _ _ _).2
    refine ⟨by omega, hp2, ?_, by omega, by omega, rfl⟩
    have hdiv : (i * size) % align = 0 := by
      rw [Nat.mul_mod, hal]; simp
    rw [← Nat.add_assoc, Nat.add_mod, ha, hdiv]; simp
  · -- a byte offset ≥ 4 GiB inside a buffer: outside the model bound (buffers < 4 GiB); the array read
    -- itself would need 4 GiB of bytes
    exfalso
    have : size * len ≤ v.img.bytes.size := by omega
    omega

end Pelite.PtrT

namespace Pelite.PtrT
open Pelite Pelite.Pe Pelite.Spec

/-- **A mapped view, sentinel-terminated array**: walking the table element by element with `Pir::at(i)` sees exactly
what `derva_slice_s` returned — every element before the terminator is readable at `r + i·size`, is the `i`-th piece of
the returned array and differs from the sentinel, and the element right behind the array is readable and IS the sentinel. -/
theorem C05_sentinel_elements_view (v : View) (hk : v.kind = .view) (r size align sentinel : Nat) (ref : Ref)
    (hs : 1 ≤ size) (hal : size % align = 0)
    (h : v.dervaSliceS (.rva r) size align sentinel = .ok ref) :
    ∃ n, ref.len = n * size ∧
      (∀ i, i < n → v.derva (.rva (r + i * size)) size align = .ok ⟨ref.off + i * size, size, align⟩ ∧
                    leN v.b (ref.off + i * size) size ≠ sentinel) ∧
      v.derva (.rva (r + n * size)) size align = .ok ⟨ref.off + n * size, size, align⟩ ∧
      leN v.b (ref.off + n * size) size = sentinel := by
  -- the untyped slice the scan runs over
  have hat : ∃ s, v.at (.rva r) 0 align = .ok s := by
    unfold View.dervaSliceS View.dervaSliceF at h
    cases hh : v.at (.rva r) 0 align with
    | ok s => exact ⟨s, rfl⟩
    | _ => rw [hh] at h; cases h
  obtain ⟨s, hs0⟩ := hat
  obtain ⟨n, rfl, hn1, hn2, hn3⟩ := (C05_derva_slice_s v (.rva r) size align sentinel hs s hs0).1 ref h
  have hs' := (C05_view_slice_iff v hk r 0 align s).1 hs0
  obtain ⟨h0, hp2, ha, hle, _, rfl⟩ := hs'
  have hn1' : (n + 1) * size ≤ v.img.bytes.size - r := hn1
  have elem : ∀ i, i ≤ n → v.derva (.rva (r + i * size)) size align = .ok ⟨r + i * size, size, align⟩ := by
    intro i hi
    have hlt : (i + 1) * size ≤ (n + 1) * size := Nat.mul_le_mul_right size (by omega)
    have hdiv : (i * size) % align = 0 := by rw [Nat.mul_mod, hal]; simp
    rw [Nat.add_mul, Nat.one_mul] at hlt
    apply (C05_derva v _ _ _ _).2
    refine ⟨⟨r + i * size, v.img.bytes.size - (r + i * size), align⟩, ?_, rfl⟩
    show v.slice (r + i * size) size align = _
    apply (C05_view_slice_iff v hk _ _ _ _).2
    generalize i * size = d at *
    generalize (n + 1) * size = m at *
    refine ⟨by omega, hp2, ?_, by omega, by omega, rfl⟩
    rw [← Nat.add_assoc, Nat.add_mod, ha, hdiv]; simp
  refine ⟨n, rfl, ?_, elem n (Nat.le_refl _), hn2⟩
  intro i hi
  exact ⟨elem i (by omega), hn3 i hi⟩

/-- the exact success condition of the VA path on a mapped view -/
theorem readSection_ok_iff (img : Img) (imageBase soi va min align : Nat) (ref : Ref) :
    readSection img imageBase soi va min align = .ok ref ↔
      va ≠ 0 ∧ imageBase ≤ va ∧ va - imageBase ≤ soi ∧ isPow2 align = true ∧ (img.base + (va - imageBase)) % align = 0 ∧
      va - imageBase ≤ img.bytes.size ∧ min ≤ img.bytes.size - (va - imageBase) ∧
      ref = ⟨va - imageBase, img.bytes.size - (va - imageBase), align⟩ := by
  rw [readSection_eq]
  by_cases h0 : va = 0
  · simp [h0]
  · rw [if_neg h0]
    by_cases hb : va < imageBase ∨ va - imageBase > soi
    · rw [if_pos hb]
      constructor
      · intro h; cases h
      · intro h; omega
    · rw [if_neg hb]
      by_cases hp : isPow2 align = true
      · rw [if_pos hp]
        by_cases ha : (img.base + (va - imageBase)) % align = 0
        · rw [if_pos ha]
          by_cases hc : va - imageBase ≤ img.bytes.size ∧ img.bytes.size - (va - imageBase) ≥ min
          · rw [if_pos hc]
            constructor
            · intro h; cases h; exact ⟨h0, by omega, by omega, hp, ha, hc.1, hc.2, rfl⟩
            · intro h; rw [h.2.2.2.2.2.2.2]
          · rw [if_neg hc]
            constructor
            · intro h; cases h
            · intro h; exact absurd ⟨h.2.2.2.2.2.1, h.2.2.2.2.2.2.1⟩ hc
        · rw [if_neg ha]
          constructor
          · intro h; cases h
          · intro h; exact absurd h.2.2.2.2.1 ha
      · rw [if_neg hp]
        constructor
        · intro h; cases h
        · intro h; exact absurd h.2.2.2.1 hp

/-- **A mapped view, VA path** (`deref_slice(p, len)` and `deref(p.at(i))`, the form in which TLS callbacks, vtables
and load-config tables are walked): element `i` of a readable array is the read at `Ptr::at(i)`, provided the
element still lies within SizeOfImage (`hsoi`: the VA path tests the address against the DECLARED image size, the
array read tests only its first byte against it; a buffer longer than SizeOfImage is where they differ). -/
theorem C05_deref_element_view (v : View) (hk : v.kind = .view) (w x size align len i : Nat) (ref : Ref)
    (hw : w = 32 ∨ w = 64)
    (h : v.dervaSlice (.va x) size align len = .ok ref) (hi : i < len) (hal : size % align = 0)
    (hsoi : x - v.imageBase + i * size ≤ sizeOfImage v.b)
    (p : Nat) (hp : elemAt w x size i = .ok p) (hsz : v.img.bytes.size < 2 ^ 32) :
    p = x + i * size ∧ v.derva (.va p) size align = .ok ⟨ref.off + i * size, size, align⟩ := by
  obtain ⟨_, s, hs, rfl⟩ := (C05_derva_slice v _ _ _ _ _).1 h
  have hs' : readSection v.img v.imageBase (sizeOfImage v.b) x (size * len) align = .ok s := by
    have : v.at (.va x) (size * len) align = v.read x (size * len) align := rfl
    rw [this] at hs; unfold View.read at hs; rw [hk] at hs; exact hs
  obtain ⟨h0, hB, hS, hp2, ha, hle, hn, rfl⟩ := (readSection_ok_iff _ _ _ _ _ _ _).1 hs'
  have hlt : i * size + size ≤ size * len := by
    have : (i + 1) * size ≤ len * size := Nat.mul_le_mul_right size (by omega)
    rw [Nat.mul_comm size len]; rw [Nat.add_mul] at this; omega
  have hdiv : (i * size) % align = 0 := by rw [Nat.mul_mod, hal]; simp
  have hsmall : i * size < 2 ^ 32 := by omega
  have hpe : p = x + i * size := by
    unfold elemAt at hp
    have h64 : i * size < 2 ^ 64 := by omega
    have hm : (i * size) % 2 ^ w = i * size := Nat.mod_eq_of_lt (by rcases hw with rfl | rfl <;> omega)
    simp only [h64, if_true, hm] at hp
    split at hp
    · cases hp; rfl
    · cases hp
  refine ⟨hpe, ?_⟩
  subst hpe
  apply (C05_derva v _ _ _ _).2
  refine ⟨⟨x - v.imageBase + i * size, v.img.bytes.size - (x - v.imageBase + i * size), align⟩, ?_, rfl⟩
  show v.read (x + i * size) size align = _
  unfold View.read; rw [hk]
  apply (readSection_ok_iff _ _ _ _ _ _ _).2
  generalize i * size = d at *
  generalize size * len = m at *
  have e1 : x + d - v.imageBase = x - v.imageBase + d := by omega
  refine ⟨by omega, by omega, by omega, hp2, ?_, by omega, by omega, by rw [e1]⟩
  rw [e1, ← Nat.add_assoc, Nat.add_mod, ha, hdiv]; simp

/-- **A file view**: the same statement holds when element `i` is resolved by the SAME section as the array's first
byte (`hsame`; true for every section table whose virtual extents do not overlap).  With overlapping extents the
section lookup of `slice` is first-match per address, and the element can come from other bytes than the array
holds (`C05_slice_element_file_needs_same`). -/
theorem C05_slice_element_file (img : Img) (secs : List Sec) (hs : ∀ s ∈ secs, s.InRange)
    (r size align len i : Nat) (ref : Ref)
    (h : sliceFile img secs r (size * len) align = .ok ref) (hi : i < len) (hal : size % align = 0)
    (hr : r + i * size < 4294967296) (hsame : firstV secs (r + i * size) = firstV secs r) :
    sliceFile img secs (r + i * size) size align = .ok ⟨ref.off + i * size, ref.len - i * size, align⟩ := by
  obtain ⟨h0, hp, ha, s, hf, h1, h2, h3, h4, h5, rfl⟩ :=
    (C04_slice_file_ok_iff img secs hs r (size * len) align (by omega) ref).1 h
  have hva : s.va ≤ r := by
    have := (firstV_some hf).2
    simp [Sec.containsRva] at this
    exact this.1
  have hlt : i * size + size ≤ size * len := by
    have : (i + 1) * size ≤ len * size := Nat.mul_le_mul_right size (by omega)
    rw [Nat.mul_comm size len]; rw [Nat.add_mul] at this; omega
  have hdiv : (i * size) % align = 0 := by rw [Nat.mul_mod, hal]; simp
  have hz : size = 0 → i * size = 0 := by intro h; simp [h]
  generalize hd : i * size = d at *
  generalize hm : size * len = m at *
  have e1 : r + d - s.va = (r - s.va) + d := by omega
  apply (C04_slice_file_ok_iff img secs hs _ size align hr _).2
  refine ⟨by omega, hp, ?_, s, hsame.trans hf, h1, h2, ?_, ?_, ?_, ?_⟩
  · rw [← Nat.add_assoc, Nat.add_mod, ha, hdiv]; simp
  · rw [e1]; omega
  · rw [e1]; omega
  · rw [e1, ← Nat.add_assoc, ← Nat.add_assoc, Nat.add_mod, Nat.add_assoc img.base, h5, hdiv]; simp
  · rw [e1]
    simp only [Ref.mk.injEq, and_true]
    constructor <;> omega

/-- on a section table whose virtual extents are pairwise disjoint (and do not wrap), every address inside the extent
of the section that resolves `x` is resolved by that same section -/
theorem firstV_same_of_disjoint (secs : List Sec)
    (hnw : ∀ s ∈ secs, s.va + max s.vs s.rs < 4294967296)
    (hpw : secs.Pairwise (fun a b => a.va + max a.vs a.rs ≤ b.va ∨ b.va + max b.vs b.rs ≤ a.va))
    (x y : Nat) (s : Sec) (hf : firstV secs x = some s) (hy : s.containsRva y = true) :
    firstV secs y = some s := by
  induction secs with
  | nil => simp [firstV] at hf
  | cons a rest ih =>
    unfold firstV at hf ⊢
    rw [List.find?_cons] at hf ⊢
    cases hax : a.containsRva x with
    | true =>
      rw [hax] at hf
      have : a = s := by simpa using hf
      subst this
      rw [hy]
    | false =>
      rw [hax] at hf
      have hs : s ∈ rest := List.mem_of_find?_eq_some hf
      have hdis := (List.pairwise_cons.1 hpw).1 s hs
      have ha := hnw a (by simp)
      have hs' := hnw s (by simp [hs])
      have hay : a.containsRva y = false := by
        simp only [Sec.containsRva, Nat.mod_eq_of_lt ha, Nat.mod_eq_of_lt hs', Bool.and_eq_true, decide_eq_true_eq] at hy ⊢
        rcases hdis with h | h
        · simp; omega
        · simp; omega
      rw [hay]
      exact ih (fun t ht => hnw t (by simp [ht])) (List.pairwise_cons.1 hpw).2 hf

/-- **File views with a well-formed section table** (`Spec.WF`, the hypothesis of the C04 inversion theorems): element
`i` of a readable typed array is the typed read at `p.at(i)` -/
theorem C05_slice_element_file_wf (img : Img) (soh : Nat) (secs : List Sec) (hs : ∀ s ∈ secs, s.InRange) (hwf : WF soh secs)
    (r size align len i : Nat) (ref : Ref)
    (h : sliceFile img secs r (size * len) align = .ok ref) (hi : i < len) (hal : size % align = 0)
    (hr : r + i * size < 4294967296) :
    sliceFile img secs (r + i * size) size align = .ok ⟨ref.off + i * size, ref.len - i * size, align⟩ := by
  apply C05_slice_element_file img secs hs r size align len i ref h hi hal hr
  obtain ⟨h0, hp, ha, s, hf, h1, h2, h3, h4, h5, rfl⟩ :=
    (C04_slice_file_ok_iff img secs hs r (size * len) align (by omega) ref).1 h
  rw [hf]
  have hc := (firstV_some hf).2
  have hsm := (firstV_some hf).1
  have hnw : ∀ t ∈ secs, t.va + max t.vs t.rs < 4294967296 := fun t ht => (hwf.1 t ht).1
  apply firstV_same_of_disjoint secs hnw (hwf.2.imp (fun h => h.2)) r _ s hf
  have hlt : i * size + size ≤ size * len := by
    have : (i + 1) * size ≤ len * size := Nat.mul_le_mul_right size (by omega)
    rw [Nat.mul_comm size len]; rw [Nat.add_mul] at this; omega
  have hz : size = 0 → i * size = 0 := by intro h; simp [h]
  generalize i * size = d at *
  generalize size * len = m at *
  simp only [Sec.containsRva, Nat.mod_eq_of_lt (hnw s hsm), Bool.and_eq_true, decide_eq_true_eq] at hc ⊢
  have : s.rs ≤ max s.vs s.rs := Nat.le_max_right _ _
  omega

/-! the hypothesis `hsame` is needed: two sections whose virtual extents overlap, the array starts in the one that
comes SECOND in the table and runs into addresses the FIRST one also covers -/
def wA : Sec := { nameLo := 0, nameHi := 0, chars := 0, va := 0x2000, vs := 0x1000, prd := 0x400, rs := 0x1000 }
def wB : Sec := { nameLo := 0, nameHi := 0, chars := 0, va := 0x1000, vs := 0x3000, prd := 0x1400, rs := 0x1C00 }
def wImg : Img := ⟨Array.replicate 0x3000 0, 0⟩

/-- the eight dwords at rva 0x1FF0 are the stored bytes 0x23F0.., but the dword at rva 0x2000 = `at(4)` is read from
offset 0x400: not the fifth element of the array (which is at 0x2400) -/
theorem C05_slice_element_file_needs_same :
    sliceFile wImg [wA, wB] 0x1FF0 (4 * 8) 4 = .ok ⟨0x23F0, 0xC10, 4⟩ ∧
    elemAt 32 0x1FF0 4 4 = .ok 0x2000 ∧
    sliceFile wImg [wA, wB] 0x2000 4 4 = .ok ⟨0x400, 0x1000, 4⟩ ∧ 0x400 ≠ 0x23F0 + 4 * 4 ∧
    firstV [wA, wB] 0x2000 ≠ firstV [wA, wB] 0x1FF0 := by
  decide +kernel

/-- the premises of `C05_slice_element_file` are satisfiable: the same table, an array that stays below 0x2000 -/
example : sliceFile wImg [wA, wB] 0x1F00 (4 * 8) 4 = .ok ⟨0x2300, 0xD00, 4⟩ ∧
    firstV [wA, wB] (0x1F00 + 7 * 4) = firstV [wA, wB] 0x1F00 ∧
    sliceFile wImg [wA, wB] (0x1F00 + 7 * 4) 4 4 = .ok ⟨0x2300 + 7 * 4, 0xD00 - 7 * 4, 4⟩ := by
  decide +kernel

end Pelite.PtrT
