import PeliteModel.Thm.C05
import PeliteModel.Driver.Typed
import PeliteModel.Generated.ImageLayout
/-!
C05 — predicate-terminated arrays (`derva_slice_f` / `deref_slice_f`, pe.rs:346-367 / 434-455), functionally.

`C05_derva_slice_s` and its completions speak about the special callable `|e| *e == sentinel`.  The
general API takes `F: FnMut(&T) -> bool`: any callable, possibly with internal state.  The loop calls it
exactly once per element, in index order from element 0, and stops at the first `true`; so the answer of
call `i` is a function `stop i x` of the call number and the element value (`Model/Typed.lean:
sliceFLoopI`, `View.dervaSliceFI`).  Below: the result is DETERMINED by the bytes and the callable —
exactly the elements before the first call that answers `true`, provided that element lies inside the
untyped slice; `Bounds` exactly when no call inside the slice answers `true`; the error of the address
resolution otherwise.  `C05_derva_slice_f_*` are the instances for a stateless callable
(`View.dervaSliceF`, `stop : Nat → Bool`).

The driver ops `derva_slice_f <k> <t> <rva> <pred>` / `deref_slice_f <k> <t> <va> <pred>` run the checked
variant (`View.dervaSliceFIChk`, equal to `View.dervaSliceFI` by `C02_dervaSliceFI_checked_eq`) with
`pred = ge:<x>` (stateless) or `count:<n>` (stateful: `true` on the n-th call) against the real code.
-/
namespace Pelite.Pe

/-- **Exact characterisation, any callable.**  With `s` the untyped slice (`slice(rva, 0, align)` /
`read(va, 0, align)`): `Ok(ref)` iff `ref` is the `n` elements before the first call that answers `true`,
and element `n` — the one that call looks at — lies inside `s`. -/
theorem C05_derva_slice_fi_iff (v : View) (a : Addr) (size align : Nat) (stop : Nat → Nat → Bool)
    (hs : 1 ≤ size) (s : Ref) (hat : v.at a 0 align = .ok s) (ref : Ref) :
    v.dervaSliceFI a size align stop = .ok ref ↔
      ∃ n, ref = ⟨s.off, n * size, align⟩ ∧ (n + 1) * size ≤ s.len ∧
        stop n (leN v.b (s.off + n * size) size) = true ∧
        ∀ j, j < n → stop j (leN v.b (s.off + j * size) size) = false := by
  unfold View.dervaSliceFI
  rw [hat]
  dsimp only
  constructor
  · intro h
    cases hL : sliceFLoopI v.b s.off s.len size stop (s.len + 2) 0 with
    | ok n =>
      rw [hL] at h
      cases h
      obtain ⟨-, h2, h3, h4⟩ := sliceFLoopI_ok _ _ _ hL
      exact ⟨n, rfl, h2, h3, fun j hj => h4 j (Nat.zero_le _) hj⟩
    | _ => rw [hL] at h; cases h
  · rintro ⟨n, rfl, h1, h2, h3⟩
    have hn : n + 1 ≤ (n + 1) * size := Nat.le_mul_of_pos_right _ hs
    rw [sliceFLoopI_finds (b := v.b) (off := s.off) (blen := s.len) (stop := stop) (s.len + 2) 0 n
      (Nat.zero_le _) h1 (by omega) h2 (fun j _ hj => h3 j hj)]

/-- **Failure direction.**  `Bounds` iff no call on a whole element inside the slice answers `true` —
never a truncated table, never a read beyond the slice. -/
theorem C05_derva_slice_fi_bounds_iff (v : View) (a : Addr) (size align : Nat) (stop : Nat → Nat → Bool)
    (hs : 1 ≤ size) (s : Ref) (hat : v.at a 0 align = .ok s) :
    v.dervaSliceFI a size align stop = .err .bounds ↔
      ∀ j, (j + 1) * size ≤ s.len → stop j (leN v.b (s.off + j * size) size) = false := by
  unfold View.dervaSliceFI
  rw [hat]
  dsimp only
  constructor
  · intro h
    cases hL : sliceFLoopI v.b s.off s.len size stop (s.len + 2) 0 with
    | err e =>
      obtain ⟨-, h2⟩ := sliceFLoopI_err _ _ _ hL
      exact fun j hj => h2 j (Nat.zero_le _) hj
    | ok n => rw [hL] at h; cases h
    | panic x => rw [hL] at h; cases h
    | ub x => rw [hL] at h; cases h
    | diverge => rw [hL] at h; cases h
  · intro hns
    rw [sliceFLoopI_bounds (b := v.b) (off := s.off) (blen := s.len) (stop := stop) hs (s.len + 2) 0
      (by omega) (by omega) (fun j _ hj => hns j hj)]

/-- **Totality of the description**: an `at` failure is the answer; otherwise the answer is `Ok` (described
by `C05_derva_slice_fi_iff`) or `Bounds` (described by `C05_derva_slice_fi_bounds_iff`) — nothing else,
in particular the loop terminates. -/
theorem C05_derva_slice_fi_total (v : View) (a : Addr) (size align : Nat) (stop : Nat → Nat → Bool)
    (hs : 1 ≤ size) :
    (∀ e, v.at a 0 align = .err e → v.dervaSliceFI a size align stop = .err e) ∧
    (∀ s, v.at a 0 align = .ok s →
      (∃ ref, v.dervaSliceFI a size align stop = .ok ref) ∨ v.dervaSliceFI a size align stop = .err .bounds) := by
  refine ⟨?_, ?_⟩
  · intro e he
    unfold View.dervaSliceFI
    rw [he]
  · intro s hat
    unfold View.dervaSliceFI
    rw [hat]
    dsimp only
    rcases sliceFLoopI_shape (b := v.b) (off := s.off) (blen := s.len) (size := size) (stop := stop)
      (s.len + 2) 0 with ⟨n, hn⟩ | hn | hn
    · rw [hn]; exact .inl ⟨_, rfl⟩
    · rw [hn]; exact .inr rfl
    · exact absurd hn (sliceFLoopI_ne_diverge hs _ _ (by omega) (by omega))

/-! ### the stateless callable (`stop : Nat → Bool`, what `View.dervaSliceF` takes) -/

/-- `Ok(ref)` iff `ref` is the elements before the FIRST element satisfying the predicate, that element inside the slice -/
theorem C05_derva_slice_f_iff (v : View) (a : Addr) (size align : Nat) (stop : Nat → Bool) (hs : 1 ≤ size)
    (s : Ref) (hat : v.at a 0 align = .ok s) (ref : Ref) :
    v.dervaSliceF a size align stop = .ok ref ↔
      ∃ n, ref = ⟨s.off, n * size, align⟩ ∧ (n + 1) * size ≤ s.len ∧
        stop (leN v.b (s.off + n * size) size) = true ∧
        ∀ j, j < n → stop (leN v.b (s.off + j * size) size) = false := by
  rw [View.dervaSliceF_eq_I]
  exact C05_derva_slice_fi_iff v a size align _ hs s hat ref

/-- `Bounds` iff no whole element inside the slice satisfies the predicate -/
theorem C05_derva_slice_f_bounds_iff (v : View) (a : Addr) (size align : Nat) (stop : Nat → Bool) (hs : 1 ≤ size)
    (s : Ref) (hat : v.at a 0 align = .ok s) :
    v.dervaSliceF a size align stop = .err .bounds ↔
      ∀ j, (j + 1) * size ≤ s.len → stop (leN v.b (s.off + j * size) size) = false := by
  rw [View.dervaSliceF_eq_I]
  exact C05_derva_slice_fi_bounds_iff v a size align _ hs s hat

theorem C05_derva_slice_f_total (v : View) (a : Addr) (size align : Nat) (stop : Nat → Bool) (hs : 1 ≤ size) :
    (∀ e, v.at a 0 align = .err e → v.dervaSliceF a size align stop = .err e) ∧
    (∀ s, v.at a 0 align = .ok s →
      (∃ ref, v.dervaSliceF a size align stop = .ok ref) ∨ v.dervaSliceF a size align stop = .err .bounds) := by
  rw [View.dervaSliceF_eq_I]
  exact C05_derva_slice_fi_total v a size align _ hs

/-- the sentinel read is the instance `stop = (· == sentinel)` (by definition) -/
theorem C05_derva_slice_s_is_f (v : View) (a : Addr) (size align sentinel : Nat) :
    v.dervaSliceS a size align sentinel = v.dervaSliceF a size align (fun x => x == sentinel) := rfl

/-- A zero address is `Null` whatever the callable. -/
theorem C05_null_slice_f (v : View) (size align : Nat) (stop : Nat → Nat → Bool) :
    v.dervaSliceFI (.rva 0) size align stop = .err .null ∧ v.dervaSliceFI (.va 0) size align stop = .err .null := by
  unfold View.dervaSliceFI
  rw [(C05_null v 0 align).1, (C05_null v 0 align).2]
  exact ⟨rfl, rfl⟩

/-! ### witnesses: PE32+ file (RVA and VA path), PE32 mapped view; a stateless and a stateful callable -/

/-- the two predicates of the driver ops (`Driver.predGe x` for `ge:<x>`, `Driver.predCount n` for `count:<n>`) -/
example : Driver.predGe 9 0 8 = false ∧ Driver.predGe 9 5 9 = true ∧ Driver.predCount 3 1 0xffff = false ∧
    Driver.predCount 3 2 0 = true ∧ (∀ i, i < 50 → Driver.predCount 0 i 0 = false) := by
  decide +kernel

/-- hypotheses of `C05_derva_slice_fi_iff` on the PE32+ FILE `demo64File` (u16 table `7, 9, 0xffff` at rva 260,
stored at file offset 244, twelve bytes to the end of the raw data = six elements): `1 ≤ 2`, the untyped
slice; then the answers for `ge:9` (element 1 is the first ≥ 9), the stateful `count:n` for n = 1, 2, 6 (the
last call that still fits), 7 and 0 (`Bounds`), through both address paths; and the same on the PE32 mapped
VIEW `demoView` (table `1, 2, 0xffff` at 188).  All answers are those of the real code (checked with the harness). -/
example : 1 ≤ 2 ∧ demo64File.at (.rva 260) 0 2 = .ok ⟨244, 12, 2⟩ ∧ demo64File.at (.va 0x140000104) 0 2 = .ok ⟨244, 12, 2⟩ ∧
    demo64File.dervaSliceF (.rva 260) 2 2 (fun x => decide (9 ≤ x)) = .ok ⟨244, 2, 2⟩ ∧
    demo64File.dervaSliceF (.va 0x140000104) 2 2 (fun x => decide (9 ≤ x)) = .ok ⟨244, 2, 2⟩ ∧
    demo64File.dervaSliceF (.rva 260) 2 2 (fun x => decide (0x10000 ≤ x)) = .err .bounds ∧
    demo64File.dervaSliceFI (.rva 260) 2 2 (Driver.predCount 1) = .ok ⟨244, 0, 2⟩ ∧
    demo64File.dervaSliceFI (.rva 260) 2 2 (Driver.predCount 2) = .ok ⟨244, 2, 2⟩ ∧
    demo64File.dervaSliceFI (.va 0x140000104) 2 2 (Driver.predCount 6) = .ok ⟨244, 10, 2⟩ ∧
    demo64File.dervaSliceFI (.rva 260) 2 2 (Driver.predCount 7) = .err .bounds ∧
    demo64File.dervaSliceFI (.rva 260) 2 2 (Driver.predCount 0) = .err .bounds ∧
    demo64File.dervaSliceFI (.rva 256) 8 4 (Driver.predCount 2) = .ok ⟨240, 8, 4⟩ ∧
    demo64File.dervaSliceFI (.rva 261) 2 2 (Driver.predCount 1) = .err .misaligned ∧
    demoView.at (.rva 188) 0 2 = .ok ⟨188, 12, 2⟩ ∧
    demoView.dervaSliceF (.rva 188) 2 2 (fun x => decide (2 ≤ x)) = .ok ⟨188, 2, 2⟩ ∧
    demoView.dervaSliceFI (.va 0x4000bc) 2 2 (Driver.predCount 3) = .ok ⟨188, 4, 2⟩ ∧
    demoView.dervaSliceFI (.rva 188) 2 2 (Driver.predCount 7) = .err .bounds := by
  decide +kernel

/-- … and the checked variants the driver runs give the same (instances of `C02_dervaSliceFI_checked_eq`) -/
example : demo64File.dervaSliceFIChk (.rva 260) 2 2 (Driver.predCount 6) = .ok ⟨244, 10, 2⟩ ∧
    demo64File.dervaSliceFIChk (.rva 256) 8 4 (Driver.predCount 3) = .err .bounds ∧
    demoView.dervaSliceFIChk (.va 0x4000bc) 2 2 (Driver.predGe 2) = .ok ⟨188, 2, 2⟩ := by
  decide +kernel

/-- the right-hand side of the equivalence derived THROUGH the theorem from the model's answer: the
stateful `count:2` on the PE32+ file stops at call 2 = element 1 -/
example : ∃ n, (⟨244, 2, 2⟩ : Ref) = ⟨244, n * 2, 2⟩ ∧ (n + 1) * 2 ≤ 12 :=
  let ⟨n, h1, h2, _⟩ := (C05_derva_slice_fi_iff demo64File (.rva 260) 2 2 (Driver.predCount 2) (by decide)
    ⟨244, 12, 2⟩ (by decide +kernel) ⟨244, 2, 2⟩).1 (by decide +kernel)
  ⟨n, h1, h2⟩

/-! ### the element types of the driver ops are those of the current source -/

/-- `tySize` / `tyAlign` of `Driver/Typed.lean` — the `size_of` / `align_of` the driver hands to the model for
the struct element types `dd` (`IMAGE_DATA_DIRECTORY`) and `sh` (`IMAGE_SECTION_HEADER`) — are the values of
the layout table regenerated from /repo's `src/image.rs` on every run (a layout change in the source
breaks this theorem); the integer types and `[u8; 16]` have the sizes Rust fixes, `size % align = 0` holds
for all of them (hypothesis `hsa` of the `…_checked_eq` theorems). -/
theorem C05_driver_type_table :
    Driver.tySize "dd" = Generated.Layout.IMAGE_DATA_DIRECTORY__size ∧
    Driver.tyAlign "dd" = Generated.Layout.IMAGE_DATA_DIRECTORY__align ∧
    Driver.tySize "sh" = Generated.Layout.IMAGE_SECTION_HEADER__size ∧
    Driver.tyAlign "sh" = Generated.Layout.IMAGE_SECTION_HEADER__align ∧
    (Driver.tySize "u8", Driver.tySize "u16", Driver.tySize "u32", Driver.tySize "u64", Driver.tySize "b16") = (1, 2, 4, 8, 16) ∧
    (Driver.tyAlign "u8", Driver.tyAlign "u16", Driver.tyAlign "u32", Driver.tyAlign "u64", Driver.tyAlign "b16") = (1, 2, 4, 8, 1) ∧
    (∀ t ∈ ["u8", "u16", "u32", "u64", "dd", "sh", "b16"],
      1 ≤ Driver.tySize t ∧ Driver.tySize t % Driver.tyAlign t = 0 ∧ isPow2 (Driver.tyAlign t) = true) := by
  decide +kernel

end Pelite.Pe
