import PeliteModel.Lemmas.Convert
/-!
C06 — file and mapped representations of one image are interchangeable.
-/
namespace Pelite.Pe

/-- Shape, for EVERY accepted file (no layout assumption): the converted buffer has SizeOfImage bytes. -/
theorem C06_to_view_size (f : Fmt) (img : Img) (v : View) (hv : fromBytes f .file img = .ok v) :
    v.toView.size = sizeOfImage v.b := by
  sorry

/-- Shape of the reverse conversion for every accepted mapped image. -/
theorem C06_to_file_size (f : Fmt) (img : Img) (v : View) (hv : fromBytes f .view img = .ok v) :
    v.toFile.size = v.fileSize := by
  sorry

/-- The headers appear unchanged at offset 0. -/
theorem C06_to_view_headers (f : Fmt) (img : Img) (v : View) (hv : fromBytes f .file img = .ok v)
    (hl : Loadable v) (i : Nat) (hi : i < sizeOfHeaders v.b) :
    byteAt v.toView i = byteAt v.b i := by
  sorry

/-- Each section's stored bytes appear at their virtual addresses. -/
theorem C06_to_view_section (f : Fmt) (img : Img) (v : View) (hv : fromBytes f .file img = .ok v)
    (hl : Loadable v) (s : Sec) (hs : s ∈ v.secs) (j : Nat) (hj : j < min s.vs s.rs) :
    byteAt v.toView (s.va + j) = byteAt v.b (s.prd + j) := by
  sorry

/-- The virtual-only tail of every section and every byte outside all sections is zero. -/
theorem C06_to_view_zero (f : Fmt) (img : Img) (v : View) (hv : fromBytes f .file img = .ok v)
    (hl : Loadable v) (i : Nat) (hi : i < sizeOfImage v.b) (hh : sizeOfHeaders v.b ≤ i)
    (hout : ∀ s ∈ v.secs, ¬ (s.va ≤ i ∧ i < s.va + min s.vs s.rs)) :
    byteAt v.toView i = 0 := by
  sorry

/-- For every RVA whose byte is stored in the file and mapped, the file view and the view over the
converted buffer denote the same byte: `file.slice(rva)` starts at the byte that sits at offset
`rva` of the converted buffer. -/
theorem C06_same_byte (f : Fmt) (img : Img) (v : View) (hv : fromBytes f .file img = .ok v)
    (hl : Loadable v) (rva : Nat) (hr : rva < 4294967296) (r : Ref)
    (hslice : v.slice rva 1 1 = .ok r)
    (hmapped : ∀ s, firstV v.secs rva = some s → rva - s.va < s.vs) :
    byteAt v.toView rva = byteAt v.b r.off := by
  sorry

end Pelite.Pe
