import PeliteModel.Lemmas.Convert
/-!
C06 — file and mapped representations of one image are interchangeable.
-/
namespace Pelite.Pe

-- the statements are fixed; some carry hypotheses (`hi`, `hr`) the proofs do not need
set_option linter.unusedVariables false

/-- Shape, for EVERY accepted file (no layout assumption): the converted buffer has SizeOfImage bytes. -/
theorem C06_to_view_size (f : Fmt) (img : Img) (v : View) (hv : fromBytes f .file img = .ok v) :
    v.toView.size = sizeOfImage v.b := by
  obtain ⟨h1, h2⟩ := accept_soh hv
  rw [toView_eq, cfold_size, initVec_size _ _ _ h2 h1]

/-- Shape of the reverse conversion for every accepted mapped image. -/
theorem C06_to_file_size (f : Fmt) (img : Img) (v : View) (hv : fromBytes f .view img = .ok v) :
    v.toFile.size = v.fileSize := by
  obtain ⟨h1, h2⟩ := accept_soh hv
  rw [toFile_eq, cfold_size, initVec_size _ _ _ (soh_le_fileSize hv) h1]

/-- The headers appear unchanged at offset 0. -/
theorem C06_to_view_headers (f : Fmt) (img : Img) (v : View) (hv : fromBytes f .file img = .ok v)
    (hl : Loadable v) (i : Nat) (hi : i < sizeOfHeaders v.b) :
    byteAt v.toView i = byteAt v.b i := by
  obtain ⟨h1, h2⟩ := accept_soh hv
  rw [toView_eq, cfold_out _ _ _ _ _ _ endExact_le, initVec_hdr _ _ _ h2 h1 _ hi]
  intro s hs
  have := (hl.1 s hs).2.2.2.2
  omega

/-- Each section's stored bytes appear at their virtual addresses. -/
theorem C06_to_view_section (f : Fmt) (img : Img) (v : View) (hv : fromBytes f .file img = .ok v)
    (hl : Loadable v) (s : Sec) (hs : s ∈ v.secs) (j : Nat) (hj : j < min s.vs s.rs) :
    byteAt v.toView (s.va + j) = byteAt v.b (s.prd + j) := by
  obtain ⟨h1, h2⟩ := accept_soh hv
  obtain ⟨a1, a2, a3, a4, a5⟩ := hl.1 s hs
  rw [toView_eq]
  exact cfold_in_exact v.b Sec.va Sec.vs Sec.prd Sec.rs v.secs _ s hs hl.2 a1 a2
    (by rw [initVec_size _ _ _ h2 h1]; exact a3) a4 j hj

/-- The virtual-only tail of every section and every byte outside all sections is zero. -/
theorem C06_to_view_zero (f : Fmt) (img : Img) (v : View) (hv : fromBytes f .file img = .ok v)
    (hl : Loadable v) (i : Nat) (hi : i < sizeOfImage v.b) (hh : sizeOfHeaders v.b ≤ i)
    (hout : ∀ s ∈ v.secs, ¬ (s.va ≤ i ∧ i < s.va + min s.vs s.rs)) :
    byteAt v.toView i = 0 := by
  obtain ⟨h1, h2⟩ := accept_soh hv
  rw [toView_eq, cfold_out _ _ _ _ _ _ endExact_le, initVec_zero _ _ _ h2 h1 _ hh]
  intro s hs
  have := hout s hs
  omega

/-- For every RVA whose byte is stored in the file and mapped, the file view and the view over the
converted buffer denote the same byte: `file.slice(rva)` starts at the byte that sits at offset
`rva` of the converted buffer. -/
theorem C06_same_byte (f : Fmt) (img : Img) (v : View) (hv : fromBytes f .file img = .ok v)
    (hl : Loadable v) (rva : Nat) (hr : rva < 4294967296) (r : Ref)
    (hslice : v.slice rva 1 1 = .ok r)
    (hmapped : ∀ s, firstV v.secs rva = some s → rva - s.va < s.vs) :
    byteAt v.toView rva = byteAt v.b r.off := by
  have hk : v.kind = .file := by
    rw [((fromBytes_ok_iff _ _ _ _).1 hv).2]
  have hsl : sliceFile v.img v.secs rva 1 1 = .ok r := by
    unfold View.slice at hslice
    rw [hk] at hslice
    exact hslice
  obtain ⟨_, _, _, s, hf, _, _, h3, h4, _, rfl⟩ :=
    (C04_slice_file_ok_iff v.img v.secs (sections_in_range v.b) rva 1 1 hr r).1 hsl
  obtain ⟨hmem, hc⟩ := firstV_some hf
  have hva := (containsRva_nowrap (sections_in_range v.b s hmem) hc).1
  have hm := hmapped s hf
  have := C06_to_view_section f img v hv hl s hmem (rva - s.va) (by omega)
  have e : s.va + (rva - s.va) = rva := by omega
  rw [e] at this
  exact this

/-- Non-vacuity: a concrete PE32 file (`tinyPe`, one section of two stored and mapped bytes) is
accepted, is `Loadable`, and `slice(224, 1, 1)` succeeds on it with the byte mapped — all
hypotheses of the theorems above hold together. -/
example : fromBytes .pe32 .file ⟨tinyPe 2 226, 0⟩ = .ok (tinyView 2 226) ∧ Loadable (tinyView 2 226) ∧
    (tinyView 2 226).secs = [⟨0, 0, 2, 224, 2, 224, 0⟩] ∧
    (tinyView 2 226).slice 224 1 1 = .ok ⟨224, 2, 1⟩ ∧
    firstV (tinyView 2 226).secs 224 = some ⟨0, 0, 2, 224, 2, 224, 0⟩ := by
  refine ⟨tinyView_ok _ _ (by decide +kernel), ?_, by decide +kernel, by decide +kernel, by decide +kernel⟩
  unfold Loadable
  decide +kernel

/-- **`hmapped` is necessary: stored-but-unmapped bytes are NOT "the same through both views".**
The file `tinyPe 1 226` has a section with `SizeOfRawData = 2 > VirtualSize = 1`: the byte at rva 225 is
stored (file offset 225, value `bb`) but not mapped.  The file view serves it (`slice` / `derva_copy` look
at the raw data: `C04_slice_file_ok_iff` bounds the offset by `SizeOfRawData`), `to_view` copies only
`min(VirtualSize, SizeOfRawData)` bytes, so the converted buffer holds 0 there (`C06_to_view_zero`): all
other hypotheses of `C06_same_byte` hold and its conclusion fails.  The real code answers the same
(`derva_copy f32 u8 225` = 187, after `img_to_view`: `derva_copy v32 u8 225` = 0). -/
theorem C06_same_byte_unmapped_false :
    fromBytes .pe32 .file ⟨tinyPe 1 226, 0⟩ = .ok (tinyView 1 226) ∧ Loadable (tinyView 1 226) ∧
    (225 : Nat) < 4294967296 ∧ (tinyView 1 226).slice 225 1 1 = .ok ⟨225, 1, 1⟩ ∧
    firstV (tinyView 1 226).secs 225 = some ⟨0, 0, 1, 224, 2, 224, 0⟩ ∧
    ¬ (225 - (⟨0, 0, 1, 224, 2, 224, 0⟩ : Sec).va < (⟨0, 0, 1, 224, 2, 224, 0⟩ : Sec).vs) ∧
    byteAt (tinyView 1 226).b 225 = 187 ∧ byteAt (tinyView 1 226).toView 225 = 0 := by
  have h1 : fromBytes .pe32 .file ⟨tinyPe 1 226, 0⟩ = .ok (tinyView 1 226) := tinyView_ok _ _ (by decide +kernel)
  have h2 : Loadable (tinyView 1 226) := by unfold Loadable; decide +kernel
  refine ⟨h1, h2, by decide, by decide +kernel, by decide +kernel, by decide, by decide +kernel, ?_⟩
  -- from the general theorem rather than by evaluation
  exact C06_to_view_zero _ _ _ h1 h2 225 (by decide +kernel) (by decide +kernel) (by decide +kernel)

end Pelite.Pe
