import PeliteModel.Thm.C06
/-! C06, last sentence: converting the mapped form back to file layout. -/
namespace Pelite.Pe

/-- Converting the mapped form back reproduces the original headers and every section's
stored-and-mapped bytes at their file offsets.  `w` is any view constructed over the converted
buffer (any placement, any base). -/
theorem C06_round_trip (f : Fmt) (img : Img) (v : View) (hv : fromBytes f .file img = .ok v)
    (hl : LoadableFile v) (base : Nat) (w : View) (hw : fromBytes f .view ⟨v.toView, base⟩ = .ok w) :
    (∀ i, i < sizeOfHeaders v.b → byteAt w.toFile i = byteAt v.b i) ∧
    (∀ s ∈ v.secs, ∀ j, j < min s.vs s.rs → s.prd + j < sizeOfImage v.b →
        byteAt w.toFile (s.prd + j) = byteAt v.b (s.prd + j)) := by
  sorry

end Pelite.Pe
