import PeliteModel.Thm.C06
/-! C06, last sentence: converting the mapped form back to file layout. -/
namespace Pelite.Pe

/-! ### the headers of the converted buffer are those of the file -/

/-- Under `LoadableFile` a view over `v.toView` sees the same SizeOfHeaders, SizeOfImage and section
table as the file view `v`. -/
theorem C06_to_view_same_headers (f : Fmt) (img : Img) (v : View) (hv : fromBytes f .file img = .ok v)
    (hl : LoadableFile v) :
    sizeOfHeaders v.toView = sizeOfHeaders v.b ∧ sizeOfImage v.toView = sizeOfImage v.b ∧
    sections v.toView = sections v.b := by
  have hagree : HdrAgree (sizeOfHeaders v.b) v.toView v.b :=
    fun i hi => C06_to_view_headers f img v hv hl.1 i hi
  obtain ⟨_, _, _, hst, hnt⟩ := hl
  have hf : 120 ≤ v.fmt.ntSize := by cases v.fmt <;> decide
  unfold ntEnd at hnt
  exact hagree.fields (by omega) hst

/-- The converted buffer is accepted by `PeView::from_bytes` at every 4-aligned address (so the
hypothesis `hw` of the round-trip theorems is satisfiable for every such file). -/
theorem C06_to_view_accepted (f : Fmt) (img : Img) (v : View) (hv : fromBytes f .file img = .ok v)
    (hl : LoadableFile v) (base : Nat) (hbase : base % 4 = 0) :
    fromBytes f .view ⟨v.toView, base⟩ =
      .ok ⟨⟨v.toView, base⟩, f, .view, imageBaseField f v.toView⟩ := by
  have hagree : HdrAgree (sizeOfHeaders v.b) v.toView v.b :=
    fun i hi => C06_to_view_headers f img v hv hl.1 i hi
  have hsize := C06_to_view_size f img v hv
  have hsoh := (accept_soh hv).2
  obtain ⟨ha, rfl⟩ := (fromBytes_ok_iff _ _ _ _).1 hv
  obtain ⟨_, _, _, hst, hnt⟩ := hl
  exact (fromBytes_ok_iff _ _ _ _).2
    ⟨hagree.accept f base img.base ha hbase (by rw [hsize]; exact hsoh) hnt hst (Nat.le_refl _), rfl⟩

/-- what a view `w` over the converted buffer sees -/
theorem C06_round_trip_setup (f : Fmt) (img : Img) (v : View) (hv : fromBytes f .file img = .ok v)
    (hl : LoadableFile v) (base : Nat) (w : View) (hw : fromBytes f .view ⟨v.toView, base⟩ = .ok w) :
    w.b = v.toView ∧ sizeOfHeaders w.b = sizeOfHeaders v.b ∧ sizeOfImage w.b = sizeOfImage v.b ∧
    w.secs = v.secs ∧ w.b.size = sizeOfImage v.b ∧ sizeOfHeaders w.b ≤ w.fileSize ∧
    sizeOfHeaders w.b ≤ w.b.size ∧ w.fileSize ≤ sizeOfImage v.b := by
  obtain ⟨e1, e2, e3⟩ := C06_to_view_same_headers f img v hv hl
  have hwb : w.b = v.toView := by rw [((fromBytes_ok_iff _ _ _ _).1 hw).2]; rfl
  refine ⟨hwb, by rw [hwb, e1], by rw [hwb, e2], by unfold View.secs; rw [hwb, e3],
    by rw [hwb]; exact C06_to_view_size f img v hv, soh_le_fileSize hw, (accept_soh hw).1, ?_⟩
  unfold View.fileSize
  rw [hwb, e2]
  exact Nat.min_le_right _ _

/-- Converting the mapped form back reproduces the original headers and every section's
stored-and-mapped bytes at their file offsets.  `w` is any view constructed over the converted
buffer (any placement, any base).

(`to_file` clamps the file size to SizeOfImage; since the fix of `to_file` the part of a section's
raw data that still fits is copied — hence the side condition `s.prd + j < SizeOfImage` —
where formerly a section whose raw range ended beyond SizeOfImage was skipped entirely, see
`C06_round_trip_formerly_failing`.) -/
theorem C06_round_trip (f : Fmt) (img : Img) (v : View) (hv : fromBytes f .file img = .ok v)
    (hl : LoadableFile v) (base : Nat) (w : View) (hw : fromBytes f .view ⟨v.toView, base⟩ = .ok w) :
    (∀ i, i < sizeOfHeaders v.b → byteAt w.toFile i = byteAt v.b i) ∧
    (∀ s ∈ v.secs, ∀ j, j < min s.vs s.rs → s.prd + j < sizeOfImage v.b →
        byteAt w.toFile (s.prd + j) = byteAt v.b (s.prd + j)) := by
  obtain ⟨hwb, hsoh, hsoi, hsecs, hsize, hF, hs1, hFle⟩ := C06_round_trip_setup f img v hv hl base w hw
  obtain ⟨hload, hprd, hraw, _, _⟩ := hl
  have hvs : (initVec w.fileSize w.b (sizeOfHeaders w.b)).size = w.fileSize :=
    initVec_size _ _ _ hF hs1
  constructor
  · intro i hi
    rw [toFile_eq, cfold_out _ _ _ _ _ _ endClamp_le, initVec_hdr _ _ _ hF hs1 _ (by omega), hwb]
    · exact C06_to_view_headers f img v hv hload i hi
    · intro s hs
      rw [hsecs] at hs
      have := hprd s hs
      omega
  · intro s hs j hj hfit
    obtain ⟨a1, a2, a3, a4, a5⟩ := hload.1 s hs
    -- the byte lies inside the clamped file: below the largest raw end and below SizeOfImage
    have hlt : s.prd + j < w.fileSize := by
      have := foldl_max_mem w.secs (fun s => wadd32 s.prd s.rs) (sizeOfHeaders w.b) s
        (by rw [hsecs]; exact hs)
      have h1 : wadd32 s.prd s.rs = s.prd + s.rs := Nat.mod_eq_of_lt a2
      rw [h1] at this
      unfold View.fileSize
      omega
    rw [toFile_eq, cfold_in_clamp w.b Sec.prd Sec.rs Sec.va Sec.vs w.secs _ s (by rw [hsecs]; exact hs)
      (by rw [hsecs]; exact hraw) a2 a1 (by omega) j (by omega) (by rw [hvs]; exact hlt), hwb]
    exact C06_to_view_section f img v hv hload s hs j hj

/-- Corollary (the variant that held before the fix of `to_file`): sections whose whole raw range
lies below SizeOfImage. -/
theorem C06_round_trip_partial (f : Fmt) (img : Img) (v : View) (hv : fromBytes f .file img = .ok v)
    (hl : LoadableFile v) (base : Nat) (w : View) (hw : fromBytes f .view ⟨v.toView, base⟩ = .ok w) :
    (∀ i, i < sizeOfHeaders v.b → byteAt w.toFile i = byteAt v.b i) ∧
    (∀ s ∈ v.secs, ∀ j, j < min s.vs s.rs → s.prd + s.rs ≤ sizeOfImage v.b →
        byteAt w.toFile (s.prd + j) = byteAt v.b (s.prd + j)) := by
  obtain ⟨h1, h2⟩ := C06_round_trip f img v hv hl base w hw
  exact ⟨h1, fun s hs j hj hfit => h2 s hs j hj (by omega)⟩

/-- Non-vacuity: the concrete file `tinyPe 2 226` (accepted, see the example in `Thm/C06.lean`) is
`LoadableFile` and its section has stored-and-mapped bytes below SizeOfImage; by
`C06_to_view_accepted` a view `w` exists for every 4-aligned base. -/
example : LoadableFile (tinyView 2 226) ∧
    ∀ s ∈ (tinyView 2 226).secs, 0 < min s.vs s.rs ∧ s.prd + s.rs ≤ sizeOfImage (tinyView 2 226).b := by
  constructor
  · unfold LoadableFile Loadable
    decide +kernel
  · decide +kernel

/-! ### the input on which `to_file` used to lose a section -/

/-- The file `tinyPe 1 225` (Lemmas/Convert.lean): SizeOfImage = 225, one section with
VirtualAddress = 224, VirtualSize = 1, PointerToRawData = 224, SizeOfRawData = 2 — its raw range
`[224, 226)` is inside the 226-byte file but ends beyond SizeOfImage. -/
def cexBytes : Bytes := tinyPe 1 225
def cexV : View := tinyView 1 225
def cexW : View := ⟨⟨cexV.toView, 0⟩, .pe32, .view, imageBaseField .pe32 cexV.toView⟩

/-- Before the fix `to_file` answered 0 at offset 224 of this input (`file_size` is clamped to
SizeOfImage = 225, `vec.get_mut(224 .. 226)` was `None` and the section was skipped) although all
hypotheses of `C06_round_trip` hold with `s.prd + 0 = 224 < 225`; now the stored byte `aa` comes back. -/
theorem C06_round_trip_formerly_failing :
    fromBytes .pe32 .file ⟨cexBytes, 0⟩ = .ok cexV ∧ LoadableFile cexV ∧
    fromBytes .pe32 .view ⟨cexV.toView, 0⟩ = .ok cexW ∧
    (⟨0, 0, 1, 224, 2, 224, 0⟩ : Sec) ∈ cexV.secs ∧ sizeOfImage cexV.b = 225 ∧
    byteAt cexW.toFile 224 = 170 ∧ byteAt cexV.b 224 = 170 := by
  have h1 : fromBytes .pe32 .file ⟨cexBytes, 0⟩ = .ok cexV := tinyView_ok _ _ (by decide +kernel)
  have h2 : LoadableFile cexV := by unfold LoadableFile Loadable; decide +kernel
  have h3 : fromBytes .pe32 .view ⟨cexV.toView, 0⟩ = .ok cexW :=
    C06_to_view_accepted _ _ _ h1 h2 0 (by decide)
  have hs : (⟨0, 0, 1, 224, 2, 224, 0⟩ : Sec) ∈ cexV.secs := by decide +kernel
  have hsoi : sizeOfImage cexV.b = 225 := by decide +kernel
  have hb : byteAt cexV.b 224 = 170 := by decide +kernel
  refine ⟨h1, h2, h3, hs, hsoi, ?_, hb⟩
  -- from the general theorem rather than by evaluation
  have := (C06_round_trip _ _ _ h1 h2 _ _ h3).2 _ hs 0 (by decide) (by rw [hsoi]; decide)
  rw [← hb]
  exact this

/-! ### the `SizeOfImage` clamp: the side condition of `C06_round_trip` is necessary -/

/-- `tinyPe 2 226` with the raw data moved behind the image: SizeOfImage = 226, one section with
VirtualAddress = 224, VirtualSize = 2, PointerToRawData = 226, SizeOfRawData = 2 (raw bytes `cc dd` at
`[226, 228)` of the 228-byte file) — stored AND mapped, but stored at file offsets ≥ SizeOfImage. -/
def clampBytes : Bytes := ((tinyPe 2 226).set! 204 226) ++ #[204, 221]
def clampV : View := ⟨⟨clampBytes, 0⟩, .pe32, .file, imageBaseField .pe32 clampBytes⟩
def clampW : View := ⟨⟨clampV.toView, 0⟩, .pe32, .view, imageBaseField .pe32 clampV.toView⟩

/-- **The clamp loses stored-and-mapped bytes.**  `to_file` sizes its result `min(max raw end, SizeOfImage)`
(view.rs:99-104), so on this `LoadableFile` input the round trip returns at most 226 bytes and the
section's bytes — mapped at 224 in the converted buffer, `C06_to_view_section` — have no place in it: at
`s.prd + 0 = 226` the original file has `cc`, the round-tripped file nothing.  Every hypothesis of
`C06_round_trip` holds; only the side condition `s.prd + j < SizeOfImage` fails.  (The real code answers the
same: after `img_to_view`, `img_to_file` the file is 226 bytes long and `derva_copy f32 u8 224` is `Invalid`.) -/
theorem C06_round_trip_clamp_false :
    fromBytes .pe32 .file ⟨clampBytes, 0⟩ = .ok clampV ∧ LoadableFile clampV ∧
    fromBytes .pe32 .view ⟨clampV.toView, 0⟩ = .ok clampW ∧
    (⟨0, 0, 2, 224, 2, 226, 0⟩ : Sec) ∈ clampV.secs ∧ sizeOfImage clampV.b = 226 ∧
    (0 < min (⟨0, 0, 2, 224, 2, 226, 0⟩ : Sec).vs (⟨0, 0, 2, 224, 2, 226, 0⟩ : Sec).rs) ∧
    ¬ ((⟨0, 0, 2, 224, 2, 226, 0⟩ : Sec).prd + 0 < 226) ∧
    byteAt clampV.b 226 = 204 ∧ byteAt clampV.toView 224 = 204 ∧
    clampW.toFile.size ≤ 226 ∧ byteAt clampW.toFile 226 = 0 := by
  have h1 : fromBytes .pe32 .file ⟨clampBytes, 0⟩ = .ok clampV :=
    (fromBytes_ok_iff _ _ _ _).2 ⟨by decide +kernel, rfl⟩
  have h2 : LoadableFile clampV := by unfold LoadableFile Loadable; decide +kernel
  have h3 : fromBytes .pe32 .view ⟨clampV.toView, 0⟩ = .ok clampW :=
    C06_to_view_accepted _ _ _ h1 h2 0 (by decide)
  have hs : (⟨0, 0, 2, 224, 2, 226, 0⟩ : Sec) ∈ clampV.secs := by decide +kernel
  have hsoi : sizeOfImage clampV.b = 226 := by decide +kernel
  have hb : byteAt clampV.b 226 = 204 := by decide +kernel
  have hsize : clampW.toFile.size ≤ 226 := by
    rw [C06_to_file_size _ _ _ h3, ← hsoi]
    exact (C06_round_trip_setup _ _ _ h1 h2 0 _ h3).2.2.2.2.2.2.2
  refine ⟨h1, h2, h3, hs, hsoi, by decide, by decide, hb, ?_, hsize, ?_⟩
  · have := C06_to_view_section _ _ _ h1 h2.1 _ hs 0 (by decide)
    rw [← hb]
    exact this
  · rw [byteAt_eq, Array.getElem?_eq_none (by omega)]
    rfl

/-! ### `LoadableFile` allows an ordinary `.bss` section -/

/-- `twoSecPe32` (Lemmas/PeHdr.lean) with its second section turned into a plain `.bss`:
`SizeOfRawData = 0`, `PointerToRawData = 0` (VirtualSize 8 at rva 288 stays) -/
def bssBytes : Bytes := ((twoSecPe32.set! 256 0).set! 260 0).set! 261 0
def bssV : View := ⟨⟨bssBytes, 0⟩, .pe32, .file, imageBaseField .pe32 bssBytes⟩

/-- Since the second audit round `LoadableFile` asks `SizeOfHeaders ≤ PointerToRawData` only of sections
that HAVE raw data; this file — whose `.bss` has `PointerToRawData = 0 < SizeOfHeaders` — satisfies it, the
converted buffer is accepted and the round trip reproduces the stored section (both through the general
theorems; `C06_round_trip` and `C06_to_view_accepted` are unchanged statements over the wider class). -/
example : fromBytes .pe32 .file ⟨bssBytes, 0⟩ = .ok bssV ∧ LoadableFile bssV ∧
    bssV.secs = [⟨0x612e, 0, 4, 280, 4, 280, 0⟩, ⟨0x7373622e, 0, 8, 288, 0, 0, 0⟩] ∧
    ¬ (sizeOfHeaders bssV.b ≤ (⟨0x7373622e, 0, 8, 288, 0, 0, 0⟩ : Sec).prd) ∧
    ∃ w, fromBytes .pe32 .view ⟨bssV.toView, 0⟩ = .ok w ∧
      (∀ j, j < 4 → byteAt w.toFile (280 + j) = byteAt bssV.b (280 + j)) := by
  have h1 : fromBytes .pe32 .file ⟨bssBytes, 0⟩ = .ok bssV :=
    (fromBytes_ok_iff _ _ _ _).2 ⟨by decide +kernel, by unfold bssV; with_reducible rfl⟩
  have h2 : LoadableFile bssV := by unfold LoadableFile Loadable; decide +kernel
  have hsecs : bssV.secs = [⟨0x612e, 0, 4, 280, 4, 280, 0⟩, ⟨0x7373622e, 0, 8, 288, 0, 0, 0⟩] := by decide +kernel
  refine ⟨h1, h2, hsecs, by decide +kernel, _, C06_to_view_accepted _ _ _ h1 h2 0 (by decide), ?_⟩
  intro j hj
  exact (C06_round_trip _ _ _ h1 h2 0 _ (C06_to_view_accepted _ _ _ h1 h2 0 (by decide))).2
    ⟨0x612e, 0, 4, 280, 4, 280, 0⟩ (by rw [hsecs]; exact List.mem_cons_self) j (by simpa using hj)
    (by rw [show sizeOfImage bssV.b = 296 by decide +kernel]; show 280 + j < 296; omega)

end Pelite.Pe
