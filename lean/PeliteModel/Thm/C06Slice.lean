import PeliteModel.Lemmas.ConvertSlice
import PeliteModel.Thm.C06RoundTrip
/-!
C06 — "every RVA whose bytes are stored in the file and mapped reads identically through a file view
and through a view over the converted buffer", at the level of the view API: `slice`, C strings and
sentinel-terminated arrays on the view `w` that `PeView::from_bytes` constructs over `v.to_view()`.

`w` exists for every `LoadableFile v` and every 4-aligned placement (`C06_to_view_accepted`); the
theorems below need only `Loadable v` once `w` is given.
-/
namespace Pelite.Pe

/-- **Same slice.**  A request `(rva, n)` that the file view answers and that lies inside the mapped
part of its first containing section (inside the stored part it lies because the file view answered)
is answered by the view over the converted buffer, at offset `rva` of that buffer, and the `n`
requested bytes are the same bytes. The two references differ (`r.off` is the file offset
`PointerToRawData + (rva - VirtualAddress)`, `r'.off = rva`): only the contents are compared. -/
theorem C06_same_slice (f : Fmt) (img : Img) (v : View) (hv : fromBytes f .file img = .ok v)
    (hl : Loadable v) (base : Nat) (w : View) (hw : fromBytes f .view ⟨v.toView, base⟩ = .ok w)
    (rva n : Nat) (hr : rva < 4294967296) (r : Ref) (hslice : v.slice rva n 1 = .ok r)
    (hmapped : ∀ s, firstV v.secs rva = some s → rva - s.va + n ≤ s.vs) :
    ∃ r', w.slice rva n 1 = .ok r' ∧ r'.off = rva ∧ n ≤ r'.len ∧ RefOK w.img r' ∧
      ∀ i, i < n → byteAt w.b (rva + i) = byteAt v.b (r.off + i) := by
  obtain ⟨s, hf, hmem, hva, h3, h4, rfl, hp, h0, hwi, hwk, hws, hsoi, hbytes⟩ :=
    file_slice_window hv hl hw hr hslice
  have hm := hmapped s hf
  have hsz : w.img.bytes.size = sizeOfImage v.b := hws
  refine ⟨⟨rva, w.img.bytes.size - rva, 1⟩, ?_, rfl, ?_, ?_, ?_⟩
  · exact (C05_view_slice_iff w hwk rva n 1 _).2
      ⟨h0, by decide, Nat.mod_one _, by omega, by omega, rfl⟩
  · show n ≤ w.img.bytes.size - rva
    omega
  · exact ⟨by show rva + (w.img.bytes.size - rva) ≤ w.img.bytes.size; omega, Nat.mod_one _⟩
  · intro i hi
    exact hbytes i (by show rva - s.va + i < min s.vs s.rs; omega)

/-- **Same C string.**  A C string the file view reads at `rva` and that lies, NUL included, in
mapped bytes reads through the converted view as a string of the same length with the same bytes
(the file view scans the section's raw data, the mapped view scans to the end of the image: the
first NUL is the same because the bytes up to it are, `C05_cstr_prefix_mono`). -/
theorem C06_cstr_same (f : Fmt) (img : Img) (v : View) (hv : fromBytes f .file img = .ok v)
    (hl : Loadable v) (base : Nat) (w : View) (hw : fromBytes f .view ⟨v.toView, base⟩ = .ok w)
    (rva : Nat) (hr : rva < 4294967296) (c : Ref) (hc : v.dervaCStr (.rva rva) = .ok c)
    (hmapped : ∀ s, firstV v.secs rva = some s → rva - s.va + c.len ≤ s.vs) :
    ∃ c', w.dervaCStr (.rva rva) = .ok c' ∧ c'.off = rva ∧ c'.len = c.len ∧
      ∀ i, i < c.len → byteAt w.b (c'.off + i) = byteAt v.b (c.off + i) := by
  unfold View.dervaCStr at hc
  rw [show v.at (.rva rva) 0 1 = v.slice rva 0 1 from rfl] at hc
  cases hs : v.slice rva 0 1 with
  | ok r =>
    rw [hs] at hc
    simp only at hc
    cases hcs : cstrFromBytes v.b r.off r.len with
    | none => rw [hcs] at hc; cases hc
    | some c0 =>
      rw [hcs] at hc
      cases hc
      obtain ⟨s, hf, hmem, hva, h3, h4, rfl, hp, h0, hwi, hwk, hws, hsoi, hbytes⟩ :=
        file_slice_window hv hl hw hr hs
      have hm := hmapped s hf
      have hsz : w.img.bytes.size = sizeOfImage v.b := hws
      have hb : ∀ i, i < c.len → byteAt w.b (rva + i) = byteAt v.b (s.prd + (rva - s.va) + i) := by
        intro i hi
        have hlen := (cstr_transfer (b' := v.b) (off' := s.prd + (rva - s.va)) hcs (fun _ _ => rfl)).2.2.2
        exact hbytes i (by show rva - s.va + i < min s.vs s.rs; simp only at hlen; omega)
      obtain ⟨ht, hoff, h1, hlen⟩ := cstr_transfer (b' := w.b) (off' := rva) hcs hb
      simp only at hlen hoff
      have hw0 : w.slice rva 0 1 = .ok ⟨rva, w.img.bytes.size - rva, 1⟩ :=
        (C05_view_slice_iff w hwk rva 0 1 _).2 ⟨h0, by decide, Nat.mod_one _, by omega, by omega, rfl⟩
      have hext := C05_cstr_prefix_mono w.b rva c.len (w.img.bytes.size - rva) (by omega) _ ht
      refine ⟨⟨rva, c.len, 1⟩, ?_, rfl, rfl, ?_⟩
      · unfold View.dervaCStr
        rw [show w.at (.rva rva) 0 1 = w.slice rva 0 1 from rfl, hw0]
        simp only
        rw [hext]
      · intro i hi
        rw [hoff]
        exact hb i hi
  | err e => rw [hs] at hc; cases hc
  | panic e => rw [hs] at hc; cases hc
  | ub e => rw [hs] at hc; cases hc
  | diverge => rw [hs] at hc; cases hc

/-- **Same sentinel-terminated array.**  An array of `size`-byte integers terminated by `sentinel`
that the file view reads at `rva` and that lies, terminator included (`t.len + size` bytes), in mapped
bytes reads through the converted view with the same length and the same bytes, provided the
converted buffer is placed so that `rva` is aligned for the element type there too
(`C05_sentinel_prefix_mono`). -/
theorem C06_sentinel_same (f : Fmt) (img : Img) (v : View) (hv : fromBytes f .file img = .ok v)
    (hl : Loadable v) (base : Nat) (w : View) (hw : fromBytes f .view ⟨v.toView, base⟩ = .ok w)
    (rva size a sentinel : Nat) (hr : rva < 4294967296) (hsize : 1 ≤ size) (ha : (base + rva) % a = 0)
    (t : Ref) (ht : v.dervaSliceS (.rva rva) size a sentinel = .ok t)
    (hmapped : ∀ s, firstV v.secs rva = some s → rva - s.va + (t.len + size) ≤ s.vs) :
    ∃ t', w.dervaSliceS (.rva rva) size a sentinel = .ok t' ∧ t'.off = rva ∧ t'.len = t.len ∧
      ∀ i, i < t.len + size → byteAt w.b (t'.off + i) = byteAt v.b (t.off + i) := by
  unfold View.dervaSliceS View.dervaSliceF at ht
  rw [show v.at (.rva rva) 0 a = v.slice rva 0 a from rfl] at ht
  cases hs : v.slice rva 0 a with
  | ok r =>
    rw [hs] at ht
    simp only at ht
    cases hL : sliceFLoop v.b r.off r.len size (fun x => x == sentinel) (r.len + 2) 0 with
    | ok n =>
      rw [hL] at ht
      cases ht
      obtain ⟨s, hf, hmem, hva, h3, h4, rfl, hp, h0, hwi, hwk, hws, hsoi, hbytes⟩ :=
        file_slice_window hv hl hw hr hs
      have hm := hmapped s hf
      simp only at hm
      have hsz : w.img.bytes.size = sizeOfImage v.b := hws
      have hwbase : w.img.base = base := by rw [hwi]
      have hfit := (sentinel_transfer (b' := v.b) (off' := s.prd + (rva - s.va)) hL (fun _ _ => rfl)).2
      simp only at hfit
      have hsm : (n + 1) * size = n * size + size := Nat.succ_mul _ _
      have hb : ∀ i, i < (n + 1) * size → byteAt w.b (rva + i) = byteAt v.b (s.prd + (rva - s.va) + i) := by
        intro i hi
        exact hbytes i (by show rva - s.va + i < min s.vs s.rs; omega)
      obtain ⟨hmin, -⟩ := sentinel_transfer (b' := w.b) (off' := rva) hL hb
      have hn1 : n + 1 ≤ (n + 1) * size := Nat.le_mul_of_pos_right _ hsize
      have hw0 : w.slice rva 0 a = .ok ⟨rva, w.img.bytes.size - rva, a⟩ :=
        (C05_view_slice_iff w hwk rva 0 a _).2 ⟨h0, hp, by rw [hwbase]; exact ha, by omega, by omega, rfl⟩
      have hext := C05_sentinel_prefix_mono w.b rva ((n + 1) * size) (w.img.bytes.size - rva) size
        (fun x => x == sentinel) (by omega) (n + 1) (w.img.bytes.size - rva + 2) n (by omega) hmin
      refine ⟨⟨rva, n * size, a⟩, ?_, rfl, rfl, ?_⟩
      · unfold View.dervaSliceS View.dervaSliceF
        rw [show w.at (.rva rva) 0 a = w.slice rva 0 a from rfl, hw0]
        simp only
        rw [hext]
      · intro i hi
        exact hb i (by simp only at hi; omega)
    | err e => rw [hL] at ht; cases ht
    | panic e => rw [hL] at ht; cases ht
    | ub e => rw [hL] at ht; cases ht
    | diverge => rw [hL] at ht; cases ht
  | err e => rw [hs] at ht; cases ht
  | panic e => rw [hs] at ht; cases ht
  | ub e => rw [hs] at ht; cases ht
  | diverge => rw [hs] at ht; cases ht

/-! ### non-vacuity: a file with TWO sections, one of them stored and mapped at different offsets -/

/-- `twoSecPe32` (Lemmas/PeHdr.lean) as a file view: sections ".a" (rva 280 = file offset 280, 4 bytes)
and ".bss" (rva 288, stored at file offset 284, 4 stored + 4 virtual-only bytes) -/
def twoSecV : View := ⟨⟨twoSecPe32, 0⟩, .pe32, .file, imageBaseField .pe32 twoSecPe32⟩
/-- the view `PeView::from_bytes` constructs over its converted buffer placed at address 0 -/
def twoSecW : View := ⟨⟨twoSecV.toView, 0⟩, .pe32, .view, imageBaseField .pe32 twoSecV.toView⟩

/-- All hypotheses of the three theorems hold together on it: the file is accepted and `LoadableFile`
with a two-element section table (so both `Pairwise` conjuncts compare two different sections), the
view over the converted buffer is constructed, and the file view answers a slice, a C string and a
sentinel-terminated `u16` array inside stored-and-mapped bytes — in ".bss" at file offset 284 for
rva 288, so the references differ. -/
theorem C06_slice_witness :
    fromBytes .pe32 .file ⟨twoSecPe32, 0⟩ = .ok twoSecV ∧ LoadableFile twoSecV ∧
    twoSecV.secs = [⟨0x612e, 0, 4, 280, 4, 280, 0⟩, ⟨0x7373622e, 0, 8, 288, 4, 284, 0⟩] ∧
    fromBytes .pe32 .view ⟨twoSecV.toView, 0⟩ = .ok twoSecW ∧
    firstV twoSecV.secs 288 = some ⟨0x7373622e, 0, 8, 288, 4, 284, 0⟩ ∧
    firstV twoSecV.secs 280 = some ⟨0x612e, 0, 4, 280, 4, 280, 0⟩ ∧
    twoSecV.slice 288 2 1 = .ok ⟨284, 4, 1⟩ ∧
    twoSecV.dervaCStr (.rva 280) = .ok ⟨280, 3, 1⟩ ∧
    twoSecV.dervaSliceS (.rva 288) 2 2 0xffff = .ok ⟨284, 2, 2⟩ := by
  have h1 : fromBytes .pe32 .file ⟨twoSecPe32, 0⟩ = .ok twoSecV :=
    (fromBytes_ok_iff _ _ _ _).2 ⟨by decide +kernel, rfl⟩
  have h2 : LoadableFile twoSecV := by unfold LoadableFile Loadable; decide +kernel
  exact ⟨h1, h2, by decide +kernel, C06_to_view_accepted _ _ _ h1 h2 0 (by decide), by decide +kernel,
    by decide +kernel, by decide +kernel, by decide +kernel, by decide +kernel⟩

/-- … and what the theorems conclude there (derived from them, not evaluated): the converted view
answers at offset 288 where the file view answered at 284, with the same bytes; the string "ab" and
the one-element table `[5]` come back with the same lengths. -/
example :
    (∃ r', twoSecW.slice 288 2 1 = .ok r' ∧ r'.off = 288 ∧
      byteAt twoSecW.b 288 = byteAt twoSecV.b 284 ∧ byteAt twoSecW.b 289 = byteAt twoSecV.b 285) ∧
    (∃ c', twoSecW.dervaCStr (.rva 280) = .ok c' ∧ c'.off = 280 ∧ c'.len = 3) ∧
    (∃ t', twoSecW.dervaSliceS (.rva 288) 2 2 0xffff = .ok t' ∧ t'.off = 288 ∧ t'.len = 2) := by
  obtain ⟨h1, h2, -, h4, h5, h6, h7, h8, h9⟩ := C06_slice_witness
  refine ⟨?_, ?_, ?_⟩
  · obtain ⟨r', a1, a2, -, -, a3⟩ := C06_same_slice _ _ _ h1 h2.1 0 _ h4 288 2 (by decide) _ h7
      (by intro s hs; rw [h5] at hs; cases hs; decide)
    exact ⟨r', a1, a2, a3 0 (by decide), a3 1 (by decide)⟩
  · obtain ⟨c', a1, a2, a3, -⟩ := C06_cstr_same _ _ _ h1 h2.1 0 _ h4 280 (by decide) _ h8
      (by intro s hs; rw [h6] at hs; cases hs; decide)
    exact ⟨c', a1, a2, a3⟩
  · obtain ⟨t', a1, a2, a3, -⟩ := C06_sentinel_same _ _ _ h1 h2.1 0 _ h4 288 2 2 0xffff (by decide)
      (by decide) (by decide) _ h9 (by intro s hs; rw [h5] at hs; cases hs; decide)
    exact ⟨t', a1, a2, a3⟩

end Pelite.Pe
