import PeliteModel.Thm.C06Slice
/-!
C06 — "every RVA whose bytes are stored in the file and mapped reads identically through a file view and
through a view over the converted buffer", for the TYPED reads at the alignments of the Rust types
(second audit round): `derva` (aligned reference), `derva_copy` (value), `derva_into` (bytes) and
`derva_slice` (fixed-length array), in the pattern of `C06_same_slice` (`Thm/C06Slice.lean`, alignment 1)
with the placement condition `(base + rva) % a = 0` of `C06_sentinel_same`: the converted buffer must be
placed so that the rva is aligned for the element type there too (the file view answered, so it is
aligned in the file: both `image + rva` and the stored bytes, `C04_slice_file_ok_iff`).

`w` is any view `PeView::from_bytes` constructs over `v.to_view()` placed at `base`
(`C06_to_view_accepted`: one exists for every `LoadableFile v` and every 4-aligned `base`).
-/
namespace Pelite.Pe

/-- **Same slice, any alignment** (`C06_same_slice` is the case `a = 1`). -/
theorem C06_same_slice_aligned (f : Fmt) (img : Img) (v : View) (hv : fromBytes f .file img = .ok v)
    (hl : Loadable v) (base : Nat) (w : View) (hw : fromBytes f .view ⟨v.toView, base⟩ = .ok w)
    (rva n a : Nat) (hr : rva < 4294967296) (ha : (base + rva) % a = 0) (r : Ref)
    (hslice : v.slice rva n a = .ok r)
    (hmapped : ∀ s, firstV v.secs rva = some s → rva - s.va + n ≤ s.vs) :
    ∃ r', w.slice rva n a = .ok r' ∧ r'.off = rva ∧ n ≤ r'.len ∧ r'.align = a ∧ RefOK w.img r' ∧
      ∀ i, i < n → byteAt w.b (rva + i) = byteAt v.b (r.off + i) := by
  obtain ⟨s, hf, hmem, hva, h3, h4, rfl, hp, h0, hwi, hwk, hws, hsoi, hbytes⟩ :=
    file_slice_window hv hl hw hr hslice
  have hm := hmapped s hf
  have hsz : w.img.bytes.size = sizeOfImage v.b := hws
  have hwbase : w.img.base = base := by rw [hwi]
  refine ⟨⟨rva, w.img.bytes.size - rva, a⟩, ?_, rfl, ?_, rfl, ?_, ?_⟩
  · exact (C05_view_slice_iff w hwk rva n a _).2
      ⟨h0, hp, by rw [hwbase]; exact ha, by omega, by omega, rfl⟩
  · show n ≤ w.img.bytes.size - rva
    omega
  · exact ⟨by show rva + (w.img.bytes.size - rva) ≤ w.img.bytes.size; omega, by rw [hwbase]; exact ha⟩
  · intro i hi
    exact hbytes i (by show rva - s.va + i < min s.vs s.rs; omega)

/-- **Same `derva`.**  A `T` (`size_of = size`, `align_of = a`) the file view hands out at `rva`, all of it in
mapped bytes, is handed out by the converted view at offset `rva` of its buffer — inside that buffer,
aligned for `T` — and consists of the same bytes. -/
theorem C06_derva_same (f : Fmt) (img : Img) (v : View) (hv : fromBytes f .file img = .ok v)
    (hl : Loadable v) (base : Nat) (w : View) (hw : fromBytes f .view ⟨v.toView, base⟩ = .ok w)
    (rva size a : Nat) (hr : rva < 4294967296) (ha : (base + rva) % a = 0) (r : Ref)
    (hd : v.derva (.rva rva) size a = .ok r)
    (hmapped : ∀ s, firstV v.secs rva = some s → rva - s.va + size ≤ s.vs) :
    ∃ r', w.derva (.rva rva) size a = .ok r' ∧ r' = ⟨rva, size, a⟩ ∧ RefOK w.img r' ∧
      ∀ i, i < size → byteAt w.b (r'.off + i) = byteAt v.b (r.off + i) := by
  obtain ⟨s0, hs0, rfl⟩ := (C05_derva v (.rva rva) size a r).1 hd
  obtain ⟨r', h1, h2, h3, h4, ⟨h5, h6⟩, h7⟩ :=
    C06_same_slice_aligned f img v hv hl base w hw rva size a hr ha s0 hs0 hmapped
  refine ⟨⟨rva, size, a⟩, ?_, rfl, ⟨?_, ?_⟩, h7⟩
  · rw [(C05_derva w (.rva rva) size a ⟨rva, size, a⟩).2 ⟨r', h1, by rw [h2]⟩]
  · show rva + size ≤ w.img.bytes.size
    rw [h2] at h5; omega
  · show (w.img.base + rva) % a = 0
    rw [h2, h4] at h6; exact h6

/-- **Same `derva_copy`.**  The VALUE read (unaligned copy) is the same number. -/
theorem C06_derva_copy_same (f : Fmt) (img : Img) (v : View) (hv : fromBytes f .file img = .ok v)
    (hl : Loadable v) (base : Nat) (w : View) (hw : fromBytes f .view ⟨v.toView, base⟩ = .ok w)
    (rva size : Nat) (hr : rva < 4294967296) (x : Nat) (hd : v.dervaCopy (.rva rva) size = .ok x)
    (hmapped : ∀ s, firstV v.secs rva = some s → rva - s.va + size ≤ s.vs) :
    w.dervaCopy (.rva rva) size = .ok x := by
  obtain ⟨s0, hs0, rfl⟩ := (C05_derva_copy v (.rva rva) size x).1 hd
  obtain ⟨r', h1, h2, -, -, -, h7⟩ :=
    C06_same_slice_aligned f img v hv hl base w hw rva size 1 hr (Nat.mod_one _) s0 hs0 hmapped
  refine (C05_derva_copy w (.rva rva) size _).2 ⟨r', h1, ?_⟩
  rw [h2]
  exact (leN_same_bytes (b := v.b) (b' := w.b) (o := s0.off) (o' := rva) h7).symm

/-- **Same `derva_into`.**  The bytes copied out are the same list. -/
theorem C06_derva_into_same (f : Fmt) (img : Img) (v : View) (hv : fromBytes f .file img = .ok v)
    (hl : Loadable v) (base : Nat) (w : View) (hw : fromBytes f .view ⟨v.toView, base⟩ = .ok w)
    (rva len : Nat) (hr : rva < 4294967296) (out : List UInt8) (hd : v.dervaInto (.rva rva) len = .ok out)
    (hmapped : ∀ s, firstV v.secs rva = some s → rva - s.va + len ≤ s.vs) :
    w.dervaInto (.rva rva) len = .ok out := by
  obtain ⟨s0, hs0, hlen, hout⟩ := (C05_derva_into v (.rva rva) len out).1 hd
  obtain ⟨r', h1, h2, -, -, -, h7⟩ :=
    C06_same_slice_aligned f img v hv hl base w hw rva len 1 hr (Nat.mod_one _) s0 hs0 hmapped
  refine (C05_derva_into w (.rva rva) len out).2 ⟨r', h1, hlen, ?_⟩
  intro i hi
  rw [hout i hi, h2]
  congr 1
  have := h7 i hi
  unfold byteAt at this
  exact (UInt8.toNat_inj.1 this).symm

/-- **Same `derva_slice`.**  A fixed-length array of `len` elements (`size_of = size`, `align_of = a`). -/
theorem C06_derva_slice_same (f : Fmt) (img : Img) (v : View) (hv : fromBytes f .file img = .ok v)
    (hl : Loadable v) (base : Nat) (w : View) (hw : fromBytes f .view ⟨v.toView, base⟩ = .ok w)
    (rva size a len : Nat) (hr : rva < 4294967296) (ha : (base + rva) % a = 0) (r : Ref)
    (hd : v.dervaSlice (.rva rva) size a len = .ok r)
    (hmapped : ∀ s, firstV v.secs rva = some s → rva - s.va + size * len ≤ s.vs) :
    ∃ r', w.dervaSlice (.rva rva) size a len = .ok r' ∧ r' = ⟨rva, size * len, a⟩ ∧ RefOK w.img r' ∧
      ∀ i, i < size * len → byteAt w.b (r'.off + i) = byteAt v.b (r.off + i) := by
  obtain ⟨hov, s0, hs0, rfl⟩ := (C05_derva_slice v (.rva rva) size a len r).1 hd
  obtain ⟨r', h1, h2, h3, h4, ⟨h5, h6⟩, h7⟩ :=
    C06_same_slice_aligned f img v hv hl base w hw rva (size * len) a hr ha s0 hs0 hmapped
  refine ⟨⟨rva, size * len, a⟩, ?_, rfl, ⟨?_, ?_⟩, h7⟩
  · rw [(C05_derva_slice w (.rva rva) size a len ⟨rva, size * len, a⟩).2 ⟨hov, r', h1, by rw [h2]⟩]
  · show rva + size * len ≤ w.img.bytes.size
    rw [h2] at h5; omega
  · show (w.img.base + rva) % a = 0
    rw [h2, h4] at h6; exact h6

/-! ### witnesses: PE32+ (alignments 2, 4, 8) and PE32 (alignments 2, 4; stored and mapped at DIFFERENT offsets) -/

/-- PE32+ is covered: `demo64File` (Lemmas/Typed.lean) is `LoadableFile` and its VA space does not wrap -/
example : fromBytes .pe64 .file demo64Img = .ok demo64File ∧ LoadableFile demo64File ∧ demo64File.NoWrap := by
  refine ⟨demo64File_ok, ?_, ?_⟩
  · unfold LoadableFile Loadable; decide +kernel
  · unfold View.NoWrap; decide +kernel

/-- the view `PeView::from_bytes` constructs over the converted buffer of `demo64File` placed at address 0 -/
def demo64W : View := ⟨⟨demo64File.toView, 0⟩, .pe64, .view, imageBaseField .pe64 demo64File.toView⟩

/-- all hypotheses together on the PE32+ file: accepted, `LoadableFile`, the converted view constructed, and
the file view answers a `u16` at rva 262 (file offset 246), a `u32` at 260 (244), a `u64` at 256 (240), a
`[u16; 3]` at 260 and an 8-byte copy — all inside the 16 stored of the 24 mapped bytes of its section -/
theorem C06_typed_witness64 :
    fromBytes .pe64 .file demo64Img = .ok demo64File ∧ LoadableFile demo64File ∧
    fromBytes .pe64 .view ⟨demo64File.toView, 0⟩ = .ok demo64W ∧
    (∀ rva, rva < 272 → 256 ≤ rva → firstV demo64File.secs rva = some ⟨0x7461642e, 0x61, 24, 256, 16, 240, 0⟩) ∧
    demo64File.derva (.rva 262) 2 2 = .ok ⟨246, 2, 2⟩ ∧ demo64File.derva (.rva 260) 4 4 = .ok ⟨244, 4, 4⟩ ∧
    demo64File.derva (.rva 256) 8 8 = .ok ⟨240, 8, 8⟩ ∧ demo64File.dervaSlice (.rva 260) 2 2 3 = .ok ⟨244, 6, 2⟩ ∧
    demo64File.dervaCopy (.rva 262) 2 = .ok 9 ∧ demo64File.dervaInto (.rva 256) 3 = .ok [104, 105, 0] := by
  have h1 := demo64File_ok
  have h2 : LoadableFile demo64File := by unfold LoadableFile Loadable; decide +kernel
  exact ⟨h1, h2, C06_to_view_accepted _ _ _ h1 h2 0 (by decide), by decide +kernel, by decide +kernel,
    by decide +kernel, by decide +kernel, by decide +kernel, by decide +kernel, by decide +kernel⟩

/-- … and what the theorems conclude there, derived from them (nothing below evaluates the converted view):
the references at the rvas, aligned 2 / 4 / 8, the same value and the same bytes -/
example :
    demo64W.derva (.rva 262) 2 2 = .ok ⟨262, 2, 2⟩ ∧ demo64W.derva (.rva 260) 4 4 = .ok ⟨260, 4, 4⟩ ∧
    demo64W.derva (.rva 256) 8 8 = .ok ⟨256, 8, 8⟩ ∧ RefOK demo64W.img ⟨256, 8, 8⟩ ∧
    byteAt demo64W.b 256 = byteAt demo64File.b 240 ∧
    demo64W.dervaSlice (.rva 260) 2 2 3 = .ok ⟨260, 6, 2⟩ ∧
    demo64W.dervaCopy (.rva 262) 2 = .ok 9 ∧ demo64W.dervaInto (.rva 256) 3 = .ok [104, 105, 0] := by
  obtain ⟨h1, h2, h3, hf, d2, d4, d8, ds, dc, di⟩ := C06_typed_witness64
  have hm : ∀ (rva n : Nat), 256 ≤ rva → rva + n ≤ 272 → 0 < n →
      ∀ s, firstV demo64File.secs rva = some s → rva - s.va + n ≤ s.vs := by
    intro rva n a b c s hs
    rw [hf rva (by omega) a] at hs
    cases hs
    show rva - 256 + n ≤ 24
    omega
  obtain ⟨r2, a2, rfl, -, -⟩ := C06_derva_same _ _ _ h1 h2.1 0 _ h3 262 2 2 (by decide) (by decide) _ d2
    (hm 262 2 (by decide) (by decide) (by decide))
  obtain ⟨r4, a4, rfl, -, -⟩ := C06_derva_same _ _ _ h1 h2.1 0 _ h3 260 4 4 (by decide) (by decide) _ d4
    (hm 260 4 (by decide) (by decide) (by decide))
  obtain ⟨r8, a8, rfl, ok8, b8⟩ := C06_derva_same _ _ _ h1 h2.1 0 _ h3 256 8 8 (by decide) (by decide) _ d8
    (hm 256 8 (by decide) (by decide) (by decide))
  obtain ⟨rs, as, rfl, -, -⟩ := C06_derva_slice_same _ _ _ h1 h2.1 0 _ h3 260 2 2 3 (by decide) (by decide) _ ds
    (hm 260 (2 * 3) (by decide) (by decide) (by decide))
  exact ⟨a2, a4, a8, ok8, b8 0 (by decide), as,
    C06_derva_copy_same _ _ _ h1 h2.1 0 _ h3 262 2 (by decide) _ dc (hm 262 2 (by decide) (by decide) (by decide)),
    C06_derva_into_same _ _ _ h1 h2.1 0 _ h3 256 3 (by decide) _ di (hm 256 3 (by decide) (by decide) (by decide))⟩

/-- PE32, two sections, ".bss" stored at file offset 284 and mapped at rva 288 (`C06_slice_witness`): the
`u32` the file view hands out at ⟨284, 4⟩ is handed out by the converted view at ⟨288, 4⟩, 4-aligned, with the
same value `0xffff0005`; an 8-aligned read of it is refused by the FILE view (284 is not a multiple of 8), so the
theorems — whose hypothesis is the file view's answer — say nothing there -/
example :
    twoSecV.derva (.rva 288) 4 4 = .ok ⟨284, 4, 4⟩ ∧ twoSecW.derva (.rva 288) 4 4 = .ok ⟨288, 4, 4⟩ ∧
    twoSecV.dervaCopy (.rva 288) 4 = .ok 0xffff0005 ∧ twoSecW.dervaCopy (.rva 288) 4 = .ok 0xffff0005 ∧
    twoSecW.dervaSlice (.rva 288) 2 2 2 = .ok ⟨288, 4, 2⟩ ∧
    twoSecV.derva (.rva 288) 4 8 = .err .misaligned := by
  obtain ⟨h1, h2, -, h4, h5, -, -, -, -⟩ := C06_slice_witness
  have hm : ∀ s, firstV twoSecV.secs 288 = some s → 288 - s.va + 4 ≤ s.vs := by
    intro s hs; rw [h5] at hs; cases hs; decide
  have d4 : twoSecV.derva (.rva 288) 4 4 = .ok ⟨284, 4, 4⟩ := by decide +kernel
  have dc : twoSecV.dervaCopy (.rva 288) 4 = .ok 0xffff0005 := by decide +kernel
  have ds : twoSecV.dervaSlice (.rva 288) 2 2 2 = .ok ⟨284, 4, 2⟩ := by decide +kernel
  obtain ⟨r4, a4, rfl, -, -⟩ := C06_derva_same _ _ _ h1 h2.1 0 _ h4 288 4 4 (by decide) (by decide) _ d4 hm
  obtain ⟨rs, as, rfl, -, -⟩ := C06_derva_slice_same _ _ _ h1 h2.1 0 _ h4 288 2 2 2 (by decide) (by decide) _ ds hm
  exact ⟨d4, a4, dc, C06_derva_copy_same _ _ _ h1 h2.1 0 _ h4 288 4 (by decide) _ dc hm, as, by decide +kernel⟩

end Pelite.Pe
