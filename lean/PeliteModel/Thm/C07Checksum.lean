import PeliteModel.Lemmas.PeCsum
/-! C07, last clause: the computed checksum equals the standard PE checksum of the buffer. -/
namespace Pelite.Pe

/-- For buffers whose length is a multiple of four the 32-bit accumulate-and-fold of
`Headers::check_sum` equals the ImageHlp algorithm over 16-bit words (2^16 ≡ 1 mod 65535 and both
keep the non-zero representative). -/
theorem C07_checksum_std (v : View) (h4 : v.img.bytes.size % 4 = 0) (hl : eLfanew v.img.bytes % 4 = 0) :
    v.checkSum = stdPeChecksum v.img.bytes :=
  checkSum_std v h4 hl

end Pelite.Pe
