import PeliteModel.Lemmas.PeCsum
/-! C07, last clause: the computed checksum equals the standard PE checksum of the buffer. -/
namespace Pelite.Pe

/-- For every buffer length the 32-bit accumulate-and-fold of `Headers::check_sum` (dwords, then the
remaining 1–3 bytes zero extended) equals the ImageHlp algorithm over all 16-bit words of the file,
the last one zero extended (2^16 ≡ 1 mod 65535 and both keep the non-zero representative). -/
theorem C07_checksum_std (v : View) (hl : eLfanew v.img.bytes % 4 = 0)
    (hpos : eLfanew v.img.bytes + 24 + 64 + 4 ≤ v.img.bytes.size) :
    v.checkSum = stdPeChecksum v.img.bytes :=
  checkSum_std v hl hpos

/-- Extra (more general): it suffices that the trailing partial dword, if there is one, is not the
dword the CheckSum field is looked for in; this covers every length that is a multiple of four with
no condition on `e_lfanew` beyond alignment.  `hpos` of `C07_checksum_std` cannot be dropped
altogether: the 89-byte buffer that is zero except for byte 88 = 1 has `e_lfanew = 0`, `check_sum`
adds the partial dword at 88 (result 90) while the standard algorithm zeroes word 44 (result 89). -/
theorem C07_checksum_std_general (v : View) (hl : eLfanew v.img.bytes % 4 = 0)
    (hp : (eLfanew v.img.bytes + 24 + 64) / 4 ≠ v.img.bytes.size / 4 ∨ v.img.bytes.size % 4 = 0) :
    v.checkSum = stdPeChecksum v.img.bytes :=
  checkSum_std_general v hl hp

end Pelite.Pe
