import PeliteModel.Lemmas.PeCsum
import PeliteModel.Lemmas.PeHdr
/-! C07, last clause: the computed checksum equals the standard PE checksum of the buffer. -/
namespace Pelite.Pe

/-- For every buffer length the 32-bit accumulate-and-fold of `Headers::check_sum` (dwords, then the
remaining 1–3 bytes zero extended) equals the ImageHlp algorithm over all 16-bit words of the file,
the last one zero extended (2^16 ≡ 1 mod 65535 and both keep the non-zero representative). -/
theorem C07_checksum_std (v : View) (hl : eLfanew v.img.bytes % 4 = 0)
    (hpos : eLfanew v.img.bytes + 24 + 64 + 4 ≤ v.img.bytes.size) :
    v.checkSum = stdPeChecksum v.img.bytes :=
  checkSum_std v hl hpos

/-- Extra (more general): it suffices that the trailing partial dword, if there is one, is not the
dword the CheckSum field is looked for in; this covers every length that is a multiple of four with
no condition on `e_lfanew` beyond alignment.  `hpos` of `C07_checksum_std` cannot be dropped
altogether: the 89-byte buffer that is zero except for byte 88 = 1 has `e_lfanew = 0`, `check_sum`
adds the partial dword at 88 (result 90) while the standard algorithm zeroes word 44 (result 89). -/
theorem C07_checksum_std_general (v : View) (hl : eLfanew v.img.bytes % 4 = 0)
    (hp : (eLfanew v.img.bytes + 24 + 64) / 4 ≠ v.img.bytes.size / 4 ∨ v.img.bytes.size % 4 = 0) :
    v.checkSum = stdPeChecksum v.img.bytes :=
  checkSum_std_general v hl hp

/-- **The clause as the property states it**: for every image the constructor accepts (either format,
file or mapped, every buffer length) the computed checksum is the standard PE checksum of the buffer.
The two hypotheses of `C07_checksum_std` are discharged by acceptance: `e_lfanew` is a multiple of 4
and the NT headers (at least 120 bytes, the CheckSum dword ends at +92) lie inside the buffer. -/
theorem C07_checksum_accepted (f : Fmt) (k : Kind) (img : Img) (v : View) (h : fromBytes f k img = .ok v) :
    v.checkSum = stdPeChecksum img.bytes := by
  obtain ⟨ha, rfl⟩ := (fromBytes_ok_iff _ _ _ _).1 h
  unfold Accept at ha
  dsimp only at ha
  obtain ⟨-, -, -, h4, -, h6, -⟩ := ha
  have hf : 120 ≤ f.ntSize := by cases f <;> decide
  exact checkSum_std _ h4 (by dsimp only; omega)

/-- … also through the format-agnostic constructor. -/
theorem C07_checksum_accepted_wrap (k : Kind) (img : Img) (v : View) (h : wrapFromBytes k img = .ok v) :
    v.checkSum = stdPeChecksum img.bytes :=
  C07_checksum_accepted v.fmt k img v (wrap_ok_imp k img v h)

/-- the two hand-built images of Lemmas/PeHdr.lean as constructed views, and the first with one byte
appended (length 289 = 1 mod 4: the trailing partial dword takes part) -/
def csV32 : View := ⟨⟨twoSecPe32, 0⟩, .pe32, .file, imageBaseField .pe32 twoSecPe32⟩
def csV64 : View := ⟨⟨onePe64, 0⟩, .pe64, .view, imageBaseField .pe64 onePe64⟩
def csV32odd : View := ⟨⟨twoSecPe32.push 7, 0⟩, .pe32, .file, imageBaseField .pe32 (twoSecPe32.push 7)⟩

/-- Non-vacuity and closed instances: the images are accepted, and the numbers computed by the model of
`check_sum` are the ones the standard algorithm gives. -/
example : fromBytes .pe32 .file ⟨twoSecPe32, 0⟩ = .ok csV32 ∧ csV32.checkSum = 17623 ∧
    stdPeChecksum twoSecPe32 = 17623 ∧
    fromBytes .pe64 .view ⟨onePe64, 0⟩ = .ok csV64 ∧ csV64.checkSum = 59622 ∧ stdPeChecksum onePe64 = 59622 ∧
    fromBytes .pe32 .file ⟨twoSecPe32.push 7, 0⟩ = .ok csV32odd ∧ csV32odd.checkSum = 17631 ∧
    stdPeChecksum (twoSecPe32.push 7) = 17631 := by
  have h1 : fromBytes .pe32 .file ⟨twoSecPe32, 0⟩ = .ok csV32 :=
    (fromBytes_ok_iff _ _ _ _).2 ⟨by decide +kernel, rfl⟩
  have h2 : fromBytes .pe64 .view ⟨onePe64, 0⟩ = .ok csV64 :=
    (fromBytes_ok_iff _ _ _ _).2 ⟨by decide +kernel, rfl⟩
  have h3 : fromBytes .pe32 .file ⟨twoSecPe32.push 7, 0⟩ = .ok csV32odd :=
    (fromBytes_ok_iff _ _ _ _).2 ⟨by decide +kernel, rfl⟩
  have s1 : stdPeChecksum twoSecPe32 = 17623 := by decide +kernel
  have s2 : stdPeChecksum onePe64 = 59622 := by decide +kernel
  have s3 : stdPeChecksum (twoSecPe32.push 7) = 17631 := by decide +kernel
  -- the model side from the theorem, not by evaluation
  exact ⟨h1, (C07_checksum_accepted .pe32 .file ⟨twoSecPe32, 0⟩ csV32 h1).trans s1, s1,
    h2, (C07_checksum_accepted .pe64 .view ⟨onePe64, 0⟩ csV64 h2).trans s2, s2,
    h3, (C07_checksum_accepted .pe32 .file ⟨twoSecPe32.push 7, 0⟩ csV32odd h3).trans s3, s3⟩

end Pelite.Pe
