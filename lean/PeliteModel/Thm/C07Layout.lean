import PeliteModel.Lemmas.PeLayoutTie
/-!
C07 — the literal offsets of `Model/Pe.lean` are the struct layout of the *current source*.

`Generated/Tables.lean` is rewritten on every run by `harness/src/probe.rs` from `size_of`,
`align_of` and `offset_of!` of pelite's `image.rs` structs; `Src.*` (Lemmas/PeLayoutTie.lean) names
its entries.  Every theorem below is proved by evaluation of that table: when a struct of the Rust
source changes layout the table changes and these proofs fail.
-/
namespace Pelite.Pe
open Src

/-- **Every raw header accessor of the model reads at the offset the source's struct layout gives.**
`f` is the format whose `IMAGE_NT_HEADERS` / `IMAGE_OPTIONAL_HEADER` is used: the accessors the model
shares between the two formats (`e_lfanew`, the file header, Magic … CheckSum) are at the same offset
in both, which is part of the statement (it holds for `f = .pe32` and for `f = .pe64`). -/
theorem C07_model_offsets (f : Fmt) (b : Bytes) :
    -- IMAGE_DOS_HEADER
    eLfanew b = le32 b dos_e_lfanew ∧
    -- IMAGE_NT_HEADERS: Signature first, then the file header, then the optional header
    nt_Signature f = 0 ∧
    optOff b = eLfanew b + nt_OptionalHeader f ∧
    optOff b = eLfanew b + (nt_size f - opt_size f) ∧
    ntEnd f b = eLfanew b + nt_size f ∧
    f.ntSize = nt_size f ∧ f.optSize = opt_size f ∧ f.magic = hdr_magic f ∧
    nt_OptionalHeader f + opt_DataDirectory f = nt_size f ∧    -- the directory array starts where the NT headers end
    -- IMAGE_FILE_HEADER
    numberOfSections b = le16 b (eLfanew b + nt_FileHeader f + file_NumberOfSections) ∧
    sizeOfOptionalHeader b = le16 b (eLfanew b + nt_FileHeader f + file_SizeOfOptionalHeader) ∧
    -- IMAGE_OPTIONAL_HEADER
    optMagic b = le16 b (eLfanew b + nt_OptionalHeader f + opt_Magic f) ∧
    sizeOfCode b = le32 b (eLfanew b + nt_OptionalHeader f + opt_SizeOfCode f) ∧
    baseOfCode b = le32 b (eLfanew b + nt_OptionalHeader f + opt_BaseOfCode f) ∧
    sizeOfImage b = le32 b (eLfanew b + nt_OptionalHeader f + opt_SizeOfImage f) ∧
    sizeOfHeaders b = le32 b (eLfanew b + nt_OptionalHeader f + opt_SizeOfHeaders f) ∧
    checkSumField b = le32 b (eLfanew b + nt_OptionalHeader f + opt_CheckSum f) ∧
    numberOfRvaAndSizes f b = le32 b (eLfanew b + nt_OptionalHeader f + opt_NumberOfRvaAndSizes f) ∧
    f.offNumRva = opt_NumberOfRvaAndSizes f ∧
    imageBaseField f b =
      (match f with
       | .pe32 => le32 b (eLfanew b + nt_OptionalHeader .pe32 + opt_ImageBase .pe32)     -- `ImageBase: u32`
       | .pe64 => le64 b (eLfanew b + nt_OptionalHeader .pe64 + opt_ImageBase .pe64)) ∧  -- `ImageBase: u64`
    numDataDirs f b = min (numberOfRvaAndSizes f b) NUMBEROF_DIRECTORY_ENTRIES ∧
    -- section table: located through SizeOfOptionalHeader, `size_of::<IMAGE_SECTION_HEADER>()` apart
    secTable b = eLfanew b + nt_OptionalHeader f + sizeOfOptionalHeader b ∧
    (∀ o, secAt b o = secAtSrc b o) ∧
    sections b = (List.range (numberOfSections b)).map (fun i => secAtSrc b (secTable b + sec_size * i)) := by
  cases f <;> exact ⟨rfl, rfl, rfl, rfl, rfl, rfl, rfl, rfl, rfl, rfl, rfl, rfl, rfl, rfl, rfl, rfl, rfl,
    rfl, rfl, rfl, rfl, rfl, fun _ => rfl, rfl⟩

/-- The constructed view's accessors: data directory entry `i` is the `i`-th
`IMAGE_DATA_DIRECTORY` of the array at `OptionalHeader.DataDirectory`, and every header reference
has the offset, `size_of` and `align_of` of its struct.  (`align_of::<IMAGE_FILE_HEADER>()` and
`align_of::<IMAGE_OPTIONAL_HEADER>()` are not exported by the probe; the model claims 4, which the
enclosing `IMAGE_NT_HEADERS` — alignment `nt_align` — guarantees.) -/
theorem C07_model_view_offsets (v : View) (i : Nat) :
    v.dataDir i =
      (if i < min (numberOfRvaAndSizes v.fmt v.b) NUMBEROF_DIRECTORY_ENTRIES then
        some (le32 v.b (eLfanew v.b + nt_OptionalHeader v.fmt + opt_DataDirectory v.fmt + dd_size * i + dd_VirtualAddress),
              le32 v.b (eLfanew v.b + nt_OptionalHeader v.fmt + opt_DataDirectory v.fmt + dd_size * i + dd_Size))
       else none) ∧
    v.dosHeader = ⟨0, dos_size, dos_align⟩ ∧
    v.dosImage = ⟨0, le32 v.b dos_e_lfanew, 1⟩ ∧
    v.ntHeaders = ⟨eLfanew v.b, nt_size v.fmt, nt_align v.fmt⟩ ∧
    v.fileHeader = ⟨eLfanew v.b + nt_FileHeader v.fmt, file_size, nt_align v.fmt⟩ ∧
    v.optionalHeader = ⟨eLfanew v.b + nt_OptionalHeader v.fmt, opt_size v.fmt, nt_align v.fmt⟩ ∧
    v.dataDirectory = ⟨eLfanew v.b + nt_OptionalHeader v.fmt + opt_DataDirectory v.fmt,
                       dd_size * numDataDirs v.fmt v.b, dd_align⟩ ∧
    v.sectionHeaders = ⟨secTable v.b, sec_size * numberOfSections v.b, sec_align⟩ ∧
    v.checkSum = checkSumAt v ((eLfanew v.b + nt_OptionalHeader v.fmt + opt_CheckSum v.fmt) / 4) := by
  obtain ⟨img, f, k, ib⟩ := v
  cases f <;> exact ⟨rfl, rfl, rfl, rfl, rfl, rfl, rfl, rfl, rfl⟩

/-- **`validate` is `validate_headers` over the source's layout**: the model's if-chain with literal
sizes and offsets equals, on every input, the transcription of `validate_headers` in which every
size and offset is looked up in the regenerated table (`Src.validateSrc`). -/
theorem C07_validate_reads_source_layout (f : Fmt) (img : Img) : validate f img = validateSrc f img := by
  cases f <;> rfl

/-- The constants the checks compare with are the source's. -/
theorem C07_model_constants :
    IMAGE_DOS_SIGNATURE = 0x5A4D ∧ IMAGE_NT_HEADERS_SIGNATURE = 0x00004550 ∧
    Fmt.magic .pe32 = HDR32_MAGIC ∧ Fmt.magic .pe64 = HDR64_MAGIC ∧ NUMBEROF_DIRECTORY_ENTRIES = 16 ∧
    dos_size = 64 ∧ dos_e_magic = 0 ∧ sec_size = 40 ∧ sec_align = 4 ∧ dd_size = 8 ∧ sec_Name = 0 := by
  decide

/-- Non-vacuity of the tie: the table is long enough for every name (a truncated table would make
`Src.val` answer 0 and the proofs above fail, not hold vacuously); the last named entry is entry 55. -/
example : Generated.layoutVals.length = 58 ∧ Src.val 55 = 16 ∧ Src.val 58 = 0 := by decide

end Pelite.Pe
