import PeliteModel.Model.JsonDirs
import PeliteModel.Model.Pe
import PeliteModel.Spec.PeFormat

/-!
# C07 — the names a section header reports (`name_bytes()`, `name()`) against the `Name` field

`SectionHeader::name_bytes()` is `util::trimn(&Name)` and `name()` is `util::parsen(&Name)` (the same bytes
when they are UTF-8, else the untouched field as the error value): the driver operation `secname`
(Driver/Json.lean) prints both from `trimn`.  These theorems say what `trimn` keeps: the field is the
reported name followed by NULs only, the reported name does not end in a NUL, interior NULs stay — so
looking the reported name up again (`by_name(name_bytes())`, NUL padded by `nameBuf`) compares the very
eight bytes of the field.
-/

namespace Pelite.Pe

theorem all_zero_replicate : ∀ (l : List Nat), (∀ x ∈ l, (x == 0) = true) → l = List.replicate l.length 0
  | [], _ => rfl
  | x :: xs, h => by
    have hx : x = 0 := by simpa using h x (List.mem_cons_self ..)
    have := all_zero_replicate xs (fun y hy => h y (List.mem_cons_of_mem _ hy))
    simp only [List.length_cons, List.replicate_succ]
    rw [hx, ← this]

theorem takeWhile_all (p : Nat → Bool) : ∀ (l : List Nat), ∀ x ∈ l.takeWhile p, p x = true
  | [], x, hx => by simp at hx
  | a :: as, x, hx => by
    simp only [List.takeWhile_cons] at hx
    split at hx
    · cases List.mem_cons.mp hx with
      | inl h => subst h; assumption
      | inr h => exact takeWhile_all p as x h
    · simp at hx

/-- the field is the reported name followed by NUL bytes and nothing else -/
theorem C07_trimn_pad (l : List Nat) :
    trimn l ++ List.replicate (l.length - (trimn l).length) 0 = l := by
  unfold trimn
  generalize hr : l.reverse = r
  have hl : l = r.reverse := by rw [← hr, List.reverse_reverse]
  subst hl
  have split : r.takeWhile (· == 0) ++ r.dropWhile (· == 0) = r := List.takeWhile_append_dropWhile
  have hz := all_zero_replicate (r.takeWhile (· == 0)) (takeWhile_all (· == 0) r)
  have hlen : r.length = (r.takeWhile (· == 0)).length + (r.dropWhile (· == 0)).length := by
    have := congrArg List.length split
    rw [List.length_append] at this
    omega
  conv => rhs; rw [← split, List.reverse_append]
  congr 1
  rw [hz, List.reverse_replicate]
  congr 1
  simp only [List.length_reverse]
  omega

/-- the reported name does not end in a NUL (trailing NULs are all removed) -/
theorem C07_trimn_last (l : List Nat) (x : Nat) (h : (trimn l).getLast? = some x) : x ≠ 0 := by
  unfold trimn at h
  rw [List.getLast?_reverse] at h
  have := List.head?_dropWhile_not (fun x : Nat => x == 0) l.reverse
  rw [h] at this
  simpa using this

/-- nothing else is removed: the reported name is a prefix of the field (interior and leading NULs stay) -/
theorem C07_trimn_prefix (l : List Nat) : trimn l <+: l :=
  ⟨_, C07_trimn_pad l⟩

/-- a field without a trailing NUL is reported whole -/
theorem C07_trimn_id (l : List Nat) (h : ∀ x, l.getLast? = some x → x ≠ 0) : trimn l = l := by
  have hp := C07_trimn_pad l
  by_cases hk : l.length - (trimn l).length = 0
  · rw [hk] at hp; simpa using hp
  · exfalso
    obtain ⟨k, hk'⟩ : ∃ k, l.length - (trimn l).length = k + 1 := ⟨_, (Nat.succ_pred_eq_of_ne_zero hk).symm⟩
    rw [hk', List.replicate_succ'] at hp
    have : l.getLast? = some 0 := by
      rw [← hp, ← List.append_assoc, List.getLast?_append]
      simp
    exact h 0 this rfl

/-- **looking a reported name up again compares the whole field**: the NUL-padded query `by_name` builds
from `name_bytes()` (`paddedName`, the right-hand side of `C07_by_name_bytes`) is byte for byte the
`Name` field the name was taken from — so `by_name(s.name_bytes())` answers the FIRST section whose
eight name bytes equal those of `s` (by `C07_by_name_bytes`), interior NULs included. -/
theorem C07_name_bytes_padded (name : List Nat) (hb : ∀ x ∈ name, x < 256) (j : Nat) :
    paddedName ((trimn name).map (·.toUInt8)).toArray j = name.getD j 0 := by
  have hp := C07_trimn_pad name
  have ht : ∀ x ∈ trimn name, x < 256 := fun x hx => hb x ((C07_trimn_prefix name).subset hx)
  conv => rhs; rw [← hp]
  generalize trimn name = t at ht ⊢
  unfold paddedName byteAt
  by_cases hj : j < t.length
  · have hx : t[j] < 256 := ht _ (List.getElem_mem hj)
    simp [hj, List.getD_eq_getElem?_getD, List.getElem?_append_left hj, Nat.toUInt8, UInt8.toNat_ofNat', Nat.mod_eq_of_lt hx]
  · simp only [List.size_toArray, List.length_map, hj, if_false]
    rw [List.getD_eq_getElem?_getD, List.getElem?_append_right (by omega)]
    cases h : (List.replicate (name.length - t.length) 0)[j - t.length]? with
    | none => rfl
    | some v =>
      have := List.mem_of_getElem? h
      simp only [List.mem_replicate] at this
      simp [this.2]

-- non-vacuity / examples: "UPX\01" keeps its interior NUL, "\0\0\0\0tail" its leading ones
example : trimn [85, 80, 88, 0, 49, 0, 0, 0] = [85, 80, 88, 0, 49] := by decide
example : trimn [0, 0, 0, 0, 116, 97, 105, 108] = [0, 0, 0, 0, 116, 97, 105, 108] := by decide
example : trimn [0, 0, 0, 0, 0, 0, 0, 0] = [] := by decide

end Pelite.Pe
