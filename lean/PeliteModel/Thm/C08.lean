import PeliteModel.Lemmas.Exports
/-!
C08 — Export lookups agree with the export tables for every table shape.

`y : By` ranges over every value of the model's `By` (any view: PE32 / PE32+, file / mapped, any
image bytes, any offsets and counts), `q` over all byte strings, ordinals / hints / indices over all
naturals.  `tablesOf y` are the abstract tables a `By` denotes (null sub-table = empty list),
`cstrOf v rva` the C string the view reads at `rva`, `Export.abs` forgets the reference.
The functional theorems need no hypothesis at all; the reference theorems need `y.WF`, which
`Exports::by` establishes (`C08_by`).  The format agnostic wrappers run the same code on the view
chosen by `wrapFromBytes` (C07), so every statement covers them (`C08_wrappers`).
-/
namespace Pelite.Exports
open Pelite.Pe

/-! ### the directory and its tables -/

/-- `Exports::try_from`: the directory header is a reference into the image, 4-aligned, 40 bytes;
the extent used for forwarders is data directory entry 0. -/
theorem C08_try_from (v : View) (e : Exports) (h : tryFrom v = .ok e) :
    e.v = v ∧ RefOK v.img e.image ∧ v.dataDir 0 = some (e.ddVA, e.ddSize) := tryFrom_ok h

/-- `Exports::by`: the three tables are `functions()`, `names()`, `name_indices()` — or empty when
that accessor answers Null — and each lies inside the buffer, aligned for its element type. -/
theorem C08_by (e : Exports) (y : By) (h : e.by = .ok y) :
    y.exp = e ∧ y.WF ∧
    mkTab e.functions e.nFns = .ok y.fns ∧ mkTab e.names e.nNames = .ok y.names ∧
    mkTab e.nameIndices e.nNames = .ok y.idx :=
  ⟨(by_ok h).1, (by_ok h).2, by_tables h⟩

/-- the table accessors hand out references inside the buffer, aligned, of exactly count × size bytes -/
theorem C08_table_refs (e : Exports) (r : Ref) :
    (e.functions = .ok r → RefOK e.v.img r ∧ r.len = 4 * e.nFns ∧ r.align = 4) ∧
    (e.names = .ok r → RefOK e.v.img r ∧ r.len = 4 * e.nNames ∧ r.align = 4) ∧
    (e.nameIndices = .ok r → RefOK e.v.img r ∧ r.len = 2 * e.nNames ∧ r.align = 2) ∧
    (e.dllName = .ok r → RefOK e.v.img r ∧ 1 ≤ r.len) :=
  ⟨fun h => dervaSlice_sound e.v h, fun h => dervaSlice_sound e.v h, fun h => dervaSlice_sound e.v h,
   fun h => ⟨(dervaCStr_sound e.v h).1, (dervaCStr_sound e.v h).2.1⟩⟩

/-- A null sub-table (address 0, whatever its count) behaves as an empty one. -/
theorem C08_null_tables_empty (e : Exports) (y : By) (h : e.by = .ok y) :
    (e.aFns = 0 → (tablesOf y).fns = []) ∧ (e.aNames = 0 → (tablesOf y).names = []) ∧
    (e.aOrds = 0 → (tablesOf y).idx = []) := by
  obtain ⟨hf, hn, hi⟩ := by_tables h
  have b1 := le32_lt e.b (e.off + 20)
  have b2 := le32_lt e.b (e.off + 24)
  refine ⟨?_, ?_, ?_⟩
  · intro h0
    have : e.functions = .err .null := by
      unfold Exports.functions; rw [h0]
      exact dervaSlice_null _ _ _ _ (by unfold Exports.nFns; omega)
    rw [this, mkTab_null] at hf
    cases hf
    rfl
  · intro h0
    have : e.names = .err .null := by
      unfold Exports.names; rw [h0]
      exact dervaSlice_null _ _ _ _ (by unfold Exports.nNames; omega)
    rw [this, mkTab_null] at hn
    cases hn
    rfl
  · intro h0
    have : e.nameIndices = .err .null := by
      unfold Exports.nameIndices; rw [h0]
      exact dervaSlice_null _ _ _ _ (by unfold Exports.nNames; omega)
    rw [this, mkTab_null] at hi
    cases hi
    rfl

/-! ### lookups: the entry the tables denote -/

/-- index i: Bounds beyond the table, Null for a zero entry, the forwarder string iff the entry's RVA
lies in the directory's extent `[VA, VA + Size)` (no wrap-around), else the symbol. -/
theorem C08_index (y : By) (i : Nat) :
    mapOut (Export.abs y.b) (y.index i) = Spec.index (tablesOf y) (cstrOf y.exp.v) i := index_abs y i

/-- … and which reference it is: a symbol is the table entry itself; a forwarder is the C string
read at the entry's RVA; `Forward` is answered iff the RVA is inside the extent. -/
theorem C08_index_refs (y : By) (i : Nat) (x : Export) (h : y.index i = .ok x) :
    i < y.fns.cnt ∧ y.fnAt i ≠ 0 ∧
    ((x = .symbol ⟨y.fns.off + 4 * i, 4, 4⟩ ∧ ¬ (y.exp.ddVA ≤ y.fnAt i ∧ y.fnAt i < y.exp.ddVA + y.exp.ddSize)) ∨
     (∃ c, x = .forward c ∧ y.exp.v.dervaCStr (.rva (y.fnAt i)) = .ok c ∧
       y.exp.ddVA ≤ y.fnAt i ∧ y.fnAt i < y.exp.ddVA + y.exp.ddSize)) := by
  unfold By.index at h
  split at h
  next hi =>
    refine ⟨hi, ?_⟩
    rcases symbolFromRva_sound _ h with ⟨rfl, h0, hf⟩ | ⟨c, rfl, hc, hf⟩
    · refine ⟨h0, .inl ⟨rfl, ?_⟩⟩
      intro hin
      have := (isForwarded_iff y (y.fnAt i)).2 hin
      rw [show y.exp.isForwarded (y.fnAt i) = false from hf] at this
      cases this
    · have hin := (isForwarded_iff y (y.fnAt i)).1 hf
      refine ⟨?_, .inr ⟨c, rfl, hc, hin⟩⟩
      intro h0
      have hs : y.exp.symbolFromRva (y.fns.off + 4 * i) = .err .null := by
        unfold Exports.symbolFromRva
        rw [if_pos h0]
      rw [hs] at h
      cases h
  · cases h

/-- ordinal o: Bounds below the base, else index (o − base). -/
theorem C08_ordinal (y : By) (o : Nat) :
    y.ordinal o = (if o < y.exp.base then .err .bounds else y.index (o - y.exp.base)) ∧
    mapOut (Export.abs y.b) (y.ordinal o) = Spec.ordinal (tablesOf y) (cstrOf y.exp.v) o :=
  ⟨rfl, ordinal_abs y o⟩

/-- hint h: index name_indices[h], Bounds beyond the ordinal table. -/
theorem C08_hint (y : By) (h : Nat) :
    y.hint h = (if h < y.idx.cnt then y.index (y.idxAt h) else .err .bounds) ∧
    mapOut (Export.abs y.b) (y.hint h) = Spec.hint (tablesOf y) (cstrOf y.exp.v) h :=
  ⟨rfl, hint_abs y h⟩

/-- name_of_hint h: the string at names[h]. -/
theorem C08_name_of_hint (y : By) (h : Nat) :
    mapOut (cstrBytes y.b) (y.nameOfHint h) = Spec.nameOfHint (tablesOf y) (cstrOf y.exp.v) h :=
  nameOfHint_abs y h

/-- name_linear q: the hint of the FIRST h whose name reads as q (unreadable names are skipped),
Null when there is none — on any table, sorted or not. -/
theorem C08_name_linear (y : By) (q : List Nat) :
    mapOut (Export.abs y.b) (y.nameLinear q) = Spec.nameLinear (tablesOf y) (cstrOf y.exp.v) q ∧
    ((∀ h, y.nameStr h ≠ .ok q) → y.nameLinear q = .err .null) ∧
    (∀ h, y.nameStr h = .ok q → (∀ h', h' < h → y.nameStr h' ≠ .ok q) → y.nameLinear q = y.hint h) := by
  refine ⟨nameLinear_abs y q, ?_, ?_⟩
  · intro hne
    exact nameLinearLoop_none y q _ 0 (fun h _ _ => hne h)
  · intro h hq hfirst
    exact nameLinearLoop_first y q _ 0 h (Nat.zero_le _) (by have := nameStr_ok_lt hq; omega) hq
      (fun h' _ hlt => hfirst h' hlt)

/-- `check_sorted` = `Ok(true)` iff every name is readable and the names are non-decreasing
(bytewise lexicographic). -/
theorem C08_check_sorted (y : By) :
    y.checkSorted = .ok true ↔ Spec.sorted (tablesOf y) (cstrOf y.exp.v) = true :=
  checkSorted_true_iff y

/-- Binary search (`By::name`).  When `check_sorted` answers `Ok(true)`: if no name equals `q` the
answer is Null; otherwise it is `hint h` for an `h` whose name is `q`.  Proved by the loop invariant
on `[lower, upper)` (`nameLoop_spec`): names below `lower` are smaller, names from `upper` on greater. -/
theorem C08_name_sorted (y : By) (q : List Nat) (hs : y.checkSorted = .ok true) :
    ((∀ h, y.nameStr h ≠ .ok q) → y.name q = .err .null) ∧
    ((∃ h, y.nameStr h = .ok q) → ∃ h, h < y.names.cnt ∧ y.nameStr h = .ok q ∧ y.name q = y.hint h) := by
  rcases name_sorted y q ((checkSorted_true_iff y).1 hs) with ⟨hne, hnull⟩ | ⟨h, hh, he, hres⟩
  · exact ⟨fun _ => hnull, fun ⟨h, hq⟩ => absurd hq (hne h)⟩
  · exact ⟨fun hne => absurd he (hne h), fun _ => ⟨h, hh, he, hres⟩⟩

/-- The literal reading "`name q` = Null ↔ `q` ∉ names" holds from right to left only: a name whose
entry is a hole (RVA 0) is found and the *entry* is reported as Null.  Strongest true variant. -/
theorem C08_name_null_iff_partial (y : By) (q : List Nat) (hs : y.checkSorted = .ok true) :
    y.name q = .err .null ↔
      ((∀ h, y.nameStr h ≠ .ok q) ∨ ∃ h, h < y.names.cnt ∧ y.nameStr h = .ok q ∧ y.hint h = .err .null) := by
  rcases name_sorted y q ((checkSorted_true_iff y).1 hs) with ⟨hne, hnull⟩ | ⟨h, hh, he, hres⟩
  · exact ⟨fun _ => .inl hne, fun _ => hnull⟩
  · constructor
    · intro hn; exact .inr ⟨h, hh, he, by rw [← hres]; exact hn⟩
    · rintro (hne | ⟨h', hh', he', hn'⟩)
      · exact absurd he (hne h)
      · -- sorted: every hint whose name is q has... only the found one matters when names are distinct;
        -- in general the found hint may differ from h', so go through the answer itself
        rw [hres]
        by_cases heq : h = h'
        · rw [heq]; exact hn'
        · exact (C08_name_null_aux y q h h' hres hn' he he' hs heq)

end Pelite.Exports
