import PeliteModel.Lemmas.Exports
/-!
C08 — Export lookups agree with the export tables for every table shape.

`y : By` ranges over every value of the model's `By` (any view: PE32 / PE32+, file / mapped, any
image bytes, any offsets and counts), `q` over all byte strings, ordinals / hints / indices over all
naturals.  `tablesOf y` are the abstract tables a `By` denotes (null sub-table = empty list),
`cstrOf v rva` the C string the view reads at `rva`, `Export.abs` forgets the reference,
`y.nameStr h` is the name of hint `h` as bytes.  The functional theorems need no hypothesis at all;
the reference theorems need `y.WF`, which `Exports::by` establishes (`C08_by`).  The format agnostic
wrappers run on the view chosen by `wrapFromBytes` (`C08_wrappers`); their own model — three of
their iterators are hand-written twins, not forwards — is `Model/WrapExports.lean`, proved equal to
the functions below in `Thm/C19Wrap.lean` (`C19_wrap_iter`, `C19_wrap_iter_names`,
`C19_wrap_iter_name_indices`, `C19_wrap_by_forwards`, `C19_wrap_get_export`).
-/
namespace Pelite.Exports
open Pelite.Pe

/-! ### the directory and its tables -/

/-- `Exports::try_from`: the directory header is a reference into the image, 4-aligned, 40 bytes;
the extent used for forwarders is data directory entry 0. -/
theorem C08_try_from (v : View) (e : Exports) (h : tryFrom v = .ok e) :
    e.v = v ∧ RefOK v.img e.image ∧ v.dataDir 0 = some (e.ddVA, e.ddSize) := tryFrom_ok h

/-- `Exports::by`: the three tables are `functions()`, `names()`, `name_indices()` — or empty when
that accessor answers Null — and each lies inside the buffer, aligned for its element type. -/
theorem C08_by (e : Exports) (y : By) (h : e.by = .ok y) :
    y.exp = e ∧ y.WF ∧
    mkTab e.functions e.nFns = .ok y.fns ∧ mkTab e.names e.nNames = .ok y.names ∧
    mkTab e.nameIndices e.nNames = .ok y.idx :=
  ⟨(by_ok h).1, (by_ok h).2, by_tables h⟩

/-- the table accessors hand out references inside the buffer, aligned, of exactly count × size bytes -/
theorem C08_table_refs (e : Exports) (r : Ref) :
    (e.functions = .ok r → RefOK e.v.img r ∧ r.len = 4 * e.nFns ∧ r.align = 4) ∧
    (e.names = .ok r → RefOK e.v.img r ∧ r.len = 4 * e.nNames ∧ r.align = 4) ∧
    (e.nameIndices = .ok r → RefOK e.v.img r ∧ r.len = 2 * e.nNames ∧ r.align = 2) ∧
    (e.dllName = .ok r → RefOK e.v.img r ∧ 1 ≤ r.len) :=
  ⟨fun h => dervaSlice_sound e.v h, fun h => dervaSlice_sound e.v h, fun h => dervaSlice_sound e.v h,
   fun h => ⟨(dervaCStr_sound e.v h).1, (dervaCStr_sound e.v h).2.1⟩⟩

/-- A null sub-table (address 0, whatever its count) behaves as an empty one. -/
theorem C08_null_tables_empty (e : Exports) (y : By) (h : e.by = .ok y) :
    (e.aFns = 0 → (tablesOf y).fns = []) ∧ (e.aNames = 0 → (tablesOf y).names = []) ∧
    (e.aOrds = 0 → (tablesOf y).idx = []) := by
  obtain ⟨hf, hn, hi⟩ := by_tables h
  have b1 := le32_lt e.b (e.off + 20)
  have b2 := le32_lt e.b (e.off + 24)
  refine ⟨?_, ?_, ?_⟩
  · intro h0
    have : e.functions = .err .null := by
      unfold Exports.functions; rw [h0]
      exact dervaSlice_null _ _ _ _ (by unfold Exports.nFns; omega)
    rw [this, mkTab_null] at hf
    show (List.range y.fns.cnt).map y.fnAt = []
    rw [← Out.ok.inj hf]
    rfl
  · intro h0
    have : e.names = .err .null := by
      unfold Exports.names; rw [h0]
      exact dervaSlice_null _ _ _ _ (by unfold Exports.nNames; omega)
    rw [this, mkTab_null] at hn
    show (List.range y.names.cnt).map y.nameAt = []
    rw [← Out.ok.inj hn]
    rfl
  · intro h0
    have : e.nameIndices = .err .null := by
      unfold Exports.nameIndices; rw [h0]
      exact dervaSlice_null _ _ _ _ (by unfold Exports.nNames; omega)
    rw [this, mkTab_null] at hi
    show (List.range y.idx.cnt).map y.idxAt = []
    rw [← Out.ok.inj hi]
    rfl

/-! ### lookups: the entry the tables denote -/

/-- index i: Bounds beyond the table, Null for a zero entry, the forwarder string iff the entry's RVA
lies in the directory's extent `[VA, VA + Size)` (no wrap-around), else the symbol. -/
theorem C08_index (y : By) (i : Nat) :
    mapOut (Export.abs y.b) (y.index i) = Spec.index (tablesOf y) (cstrOf y.exp.v) i := index_abs y i

/-- … and which reference it is: a symbol is the table entry itself; a forwarder is the C string
read at the entry's RVA; `Forward` is answered iff the RVA is inside the extent. -/
theorem C08_index_refs (y : By) (i : Nat) (x : Export) (h : y.index i = .ok x) :
    i < y.fns.cnt ∧ y.fnAt i ≠ 0 ∧
    ((x = .symbol ⟨y.fns.off + 4 * i, 4, 4⟩ ∧ ¬ (y.exp.ddVA ≤ y.fnAt i ∧ y.fnAt i < y.exp.ddVA + y.exp.ddSize)) ∨
     (∃ c, x = .forward c ∧ y.exp.v.dervaCStr (.rva (y.fnAt i)) = .ok c ∧
       y.exp.ddVA ≤ y.fnAt i ∧ y.fnAt i < y.exp.ddVA + y.exp.ddSize)) := by
  unfold By.index at h
  split at h
  next hi =>
    refine ⟨hi, ?_⟩
    rcases symbolFromRva_sound _ h with ⟨rfl, h0, hf⟩ | ⟨c, rfl, hc, hf⟩
    · refine ⟨h0, .inl ⟨rfl, ?_⟩⟩
      intro hin
      have := (isForwarded_iff y (y.fnAt i)).2 hin
      rw [show y.exp.isForwarded (y.fnAt i) = false from hf] at this
      cases this
    · have hin := (isForwarded_iff y (y.fnAt i)).1 hf
      refine ⟨?_, .inr ⟨c, rfl, hc, hin⟩⟩
      intro h0
      have hs : y.exp.symbolFromRva (y.fns.off + 4 * i) = .err .null := by
        unfold Exports.symbolFromRva
        exact if_pos h0
      rw [hs] at h
      cases h
  · cases h

/-- ordinal o: Bounds below the base, else index (o − base). -/
theorem C08_ordinal (y : By) (o : Nat) :
    y.ordinal o = (if o < y.exp.base then .err .bounds else y.index (o - y.exp.base)) ∧
    mapOut (Export.abs y.b) (y.ordinal o) = Spec.ordinal (tablesOf y) (cstrOf y.exp.v) o :=
  ⟨rfl, ordinal_abs y o⟩

/-- hint h: index name_indices[h], Bounds beyond the ordinal table. -/
theorem C08_hint (y : By) (h : Nat) :
    y.hint h = (if h < y.idx.cnt then y.index (y.idxAt h) else .err .bounds) ∧
    mapOut (Export.abs y.b) (y.hint h) = Spec.hint (tablesOf y) (cstrOf y.exp.v) h :=
  ⟨rfl, hint_abs y h⟩

/-- name_of_hint h: the string at names[h]. -/
theorem C08_name_of_hint (y : By) (h : Nat) :
    mapOut (cstrBytes y.b) (y.nameOfHint h) = Spec.nameOfHint (tablesOf y) (cstrOf y.exp.v) h :=
  nameOfHint_abs y h

/-- name_linear q: the hint of the FIRST h whose name reads as q (unreadable names are skipped),
Null when there is none — on any table, sorted or not. -/
theorem C08_name_linear (y : By) (q : List Nat) :
    mapOut (Export.abs y.b) (y.nameLinear q) = Spec.nameLinear (tablesOf y) (cstrOf y.exp.v) q ∧
    ((∀ h, y.nameStr h ≠ .ok q) → y.nameLinear q = .err .null) ∧
    (∀ h, y.nameStr h = .ok q → (∀ h', h' < h → y.nameStr h' ≠ .ok q) → y.nameLinear q = y.hint h) := by
  refine ⟨nameLinear_abs y q, ?_, ?_⟩
  · intro hne
    exact nameLinearLoop_none y q _ 0 (fun h _ _ => hne h)
  · intro h hq hfirst
    exact nameLinearLoop_first y q _ 0 h (Nat.zero_le _) (by have := nameStr_ok_lt hq; omega) hq
      (fun h' _ hlt => hfirst h' hlt)

/-- `check_sorted` = `Ok(true)` iff every name is readable and the names are non-decreasing
(bytewise lexicographic). -/
theorem C08_check_sorted (y : By) :
    y.checkSorted = .ok true ↔ Spec.sorted (tablesOf y) (cstrOf y.exp.v) = true :=
  checkSorted_true_iff y

/-- Binary search (`By::name`).  When `check_sorted` answers `Ok(true)`: if no name equals `q` the
answer is Null; otherwise it is `hint h` for an `h` whose name is `q`.  Proved by the loop invariant
on `[lower, upper)` (`nameLoop_spec`): names below `lower` are smaller, names from `upper` on greater. -/
theorem C08_name_sorted (y : By) (q : List Nat) (hs : y.checkSorted = .ok true) :
    ((∀ h, y.nameStr h ≠ .ok q) → y.name q = .err .null) ∧
    ((∃ h, y.nameStr h = .ok q) → ∃ h, h < y.names.cnt ∧ y.nameStr h = .ok q ∧ y.name q = y.hint h) := by
  rcases name_sorted y q ((checkSorted_true_iff y).1 hs) with ⟨hne, hnull⟩ | ⟨h, hh, he, hres⟩
  · exact ⟨fun _ => hnull, fun ⟨h, hq⟩ => absurd hq (hne h)⟩
  · exact ⟨fun hne => absurd he (hne h), fun _ => ⟨h, hh, he, hres⟩⟩

/-- On ANY table — unsorted, duplicated, with unreadable names — the binary search never answers an
entry of a different name: an `Ok` answer is `hint h` for an `h` whose name is `q`.  (What an unsorted
table loses is completeness only: an existing name may be reported as Null.) -/
theorem C08_name_sound (y : By) (q : List Nat) (x : Export) (h : y.name q = .ok x) :
    ∃ hn, hn < y.names.cnt ∧ y.nameStr hn = .ok q ∧ y.hint hn = .ok x :=
  nameLoop_ok y q 0 y.names.cnt x h

/-- The literal reading "`name q` = Null ↔ `q` ∉ names" holds from right to left only
(`C08_name_sorted`): a name whose entry is a hole (RVA 0) is found, and its *entry* is reported as
Null (`C08_name_null_iff_counterexample`).  Strongest true variant of the left-to-right direction. -/
theorem C08_name_null_partial (y : By) (q : List Nat) (hs : y.checkSorted = .ok true)
    (hn : y.name q = .err .null) :
    (∀ h, y.nameStr h ≠ .ok q) ∨ ∃ h, h < y.names.cnt ∧ y.nameStr h = .ok q ∧ y.hint h = .err .null := by
  rcases name_sorted y q ((checkSorted_true_iff y).1 hs) with ⟨hne, _⟩ | ⟨h, hh, he, hres⟩
  · exact .inl hne
  · exact .inr ⟨h, hh, he, by rw [← hres]; exact hn⟩

/-- Sorted without duplicates (`Spec.nameDetermined`): binary search and linear search are the same
function, so lookup by name is the function `Spec.name` of the tables. -/
theorem C08_name_eq_linear (y : By) (q : List Nat)
    (hd : Spec.nameDetermined (tablesOf y) (cstrOf y.exp.v) = true) :
    y.name q = y.nameLinear q ∧
    mapOut (Export.abs y.b) (y.name q) = Spec.name (tablesOf y) (cstrOf y.exp.v) q :=
  ⟨name_eq_nameLinear y q hd, name_abs y q hd⟩

/-- hint_name h q: the hint's entry when the hint resolves and its name is `q`, else lookup by name. -/
theorem C08_hint_name (y : By) (h : Nat) (q : List Nat) :
    y.hintName h q = (if (y.hint h).isOk = true ∧ y.nameStr h = .ok q then y.hint h else y.name q) ∧
    (Spec.nameDetermined (tablesOf y) (cstrOf y.exp.v) = true →
      mapOut (Export.abs y.b) (y.hintName h q) = Spec.hintName (tablesOf y) (cstrOf y.exp.v) h q) :=
  ⟨hintName_eq y h q, hintName_abs y h q⟩

/-- import descriptor: `ByName { hint, name }` = hint_name, `ByOrdinal { ord }` = ordinal. -/
theorem C08_import (y : By) (i : ImportQ) :
    y.import i = (match i with | .byName h q => y.hintName h q | .byOrdinal o => y.ordinal o) ∧
    (Spec.nameDetermined (tablesOf y) (cstrOf y.exp.v) = true →
      mapOut (Export.abs y.b) (y.import i) =
        match i with
        | .byName h q => Spec.hintName (tablesOf y) (cstrOf y.exp.v) h q
        | .byOrdinal o => Spec.ordinal (tablesOf y) (cstrOf y.exp.v) o) :=
  ⟨by cases i <;> rfl, import_abs y i⟩

/-- On ANY table — no `Spec.nameDetermined`, no sortedness — `hint_name` never answers an entry of a
different name: an `Ok` answer is `hint h'` for an `h'` whose name is `q` (`h' = h` when the hint was
right, else the entry the binary search found, `C08_name_sound`). -/
theorem C08_hint_name_sound (y : By) (h : Nat) (q : List Nat) (x : Export) (hx : y.hintName h q = .ok x) :
    ∃ h', h' < y.names.cnt ∧ y.nameStr h' = .ok q ∧ y.hint h' = .ok x := by
  rw [hintName_eq] at hx
  split at hx
  next hc => exact ⟨h, nameStr_ok_lt hc.2, hc.2, hx⟩
  next => exact C08_name_sound y q x hx

/-- … and so for an import descriptor, on any table: `ByName` answers an entry named `q`, `ByOrdinal`
the entry `o − base` of the address table. -/
theorem C08_import_sound (y : By) (i : ImportQ) (x : Export) (hx : y.import i = .ok x) :
    match i with
    | .byName _ q => ∃ h', h' < y.names.cnt ∧ y.nameStr h' = .ok q ∧ y.hint h' = .ok x
    | .byOrdinal o => y.exp.base ≤ o ∧ o - y.exp.base < y.fns.cnt ∧ y.index (o - y.exp.base) = .ok x := by
  cases i with
  | byName h q => exact C08_hint_name_sound y h q x hx
  | byOrdinal o =>
    have h1 : y.ordinal o = .ok x := hx
    unfold By.ordinal at h1
    split at h1
    · cases h1
    next hb =>
      refine ⟨by omega, ?_, h1⟩
      unfold By.index at h1
      split at h1
      · assumption
      · cases h1

/-- name_lookup i: `ByName` of the first hint whose index is `i` (with the name at that hint; Bounds
if the name table is shorter), else `ByOrdinal((i + base) mod 2^16)`. -/
theorem C08_name_lookup (y : By) (i : Nat) :
    mapOut (Import.abs y.b) (y.nameLookup i) = Spec.nameLookup (tablesOf y) (cstrOf y.exp.v) i :=
  nameLookup_abs y i

/-- get_export: `exports()?.by()?` followed by the lookup. -/
theorem C08_get_export (v : View) (q : Query) (x : Export) (h : getExport v q = .ok x) :
    ∃ e y, tryFrom v = .ok e ∧ e.by = .ok y ∧ y.exp.v = v ∧ y.WF ∧
      (match q with
       | .name n => y.name n
       | .ordinal o => y.ordinal o
       | .import i => y.import i) = .ok x := getExport_ok h

/-- Which answer an entry of the address table gets — all four cases, as equalities (so both
directions): beyond the table Bounds; a hole (RVA 0) Null; an RVA inside the directory's extent the
forwarder string read there, or the error of that read (`C08_forwarder_error`); any other RVA the symbol. -/
theorem C08_index_cases (y : By) (i : Nat) :
    (y.fns.cnt ≤ i → y.index i = .err .bounds) ∧
    (i < y.fns.cnt → y.fnAt i = 0 → y.index i = .err .null) ∧
    (i < y.fns.cnt → y.fnAt i ≠ 0 → (y.exp.ddVA ≤ y.fnAt i ∧ y.fnAt i < y.exp.ddVA + y.exp.ddSize) →
      y.index i = (y.exp.v.dervaCStr (.rva (y.fnAt i))).bind fun c => .ok (.forward c)) ∧
    (i < y.fns.cnt → y.fnAt i ≠ 0 → ¬ (y.exp.ddVA ≤ y.fnAt i ∧ y.fnAt i < y.exp.ddVA + y.exp.ddSize) →
      y.index i = .ok (.symbol ⟨y.fns.off + 4 * i, 4, 4⟩)) := index_cases y i

/-- a forwarder whose string cannot be read reports the error of the string read (never a symbol) -/
theorem C08_forwarder_error (y : By) (i : Nat) (hi : i < y.fns.cnt) (h0 : y.fnAt i ≠ 0)
    (hin : y.exp.ddVA ≤ y.fnAt i ∧ y.fnAt i < y.exp.ddVA + y.exp.ddSize) (er : Err)
    (hc : y.exp.v.dervaCStr (.rva (y.fnAt i)) = .err er) : y.index i = .err er := by
  rw [(C08_index_cases y i).2.2.1 hi h0 hin, hc]
  rfl

/-- an ordinal: Bounds below the base and beyond the table, Null for a hole -/
theorem C08_ordinal_errors (y : By) (o : Nat) :
    (o < y.exp.base → y.ordinal o = .err .bounds) ∧
    (y.exp.base ≤ o → y.fns.cnt ≤ o - y.exp.base → y.ordinal o = .err .bounds) ∧
    (y.exp.base ≤ o → o - y.exp.base < y.fns.cnt → y.fnAt (o - y.exp.base) = 0 → y.ordinal o = .err .null) ∧
    (∀ er, y.ordinal o = .err er → er = .bounds ∨ er = .null ∨
      (o - y.exp.base < y.fns.cnt ∧ y.exp.v.dervaCStr (.rva (y.fnAt (o - y.exp.base))) = .err er)) :=
  ordinal_errors y o

/-- get_export, the failure direction: the answer is the first failure of `exports()`, `by()`, the
lookup — in that order — as equalities (with `C08_get_export`: the complete behaviour). -/
theorem C08_get_export_cases (v : View) (q : Query) :
    (∀ er, tryFrom v = .err er → getExport v q = .err er) ∧
    (∀ e er, tryFrom v = .ok e → e.by = .err er → getExport v q = .err er) ∧
    (∀ e y, tryFrom v = .ok e → e.by = .ok y →
      getExport v q = match q with
        | .name n => y.name n
        | .ordinal o => y.ordinal o
        | .import i => y.import i) := by
  unfold getExport
  refine ⟨?_, ?_, ?_⟩
  · intro er h; rw [h]; rfl
  · intro e er h1 h2; rw [h1]; show e.by.bind _ = _; rw [h2]; rfl
  · intro e y h1 h2; rw [h1]; show e.by.bind _ = _; rw [h2]; rfl

/-- … and conversely every error of `get_export` is one of those three. -/
theorem C08_get_export_err (v : View) (q : Query) (er : Err) (h : getExport v q = .err er) :
    tryFrom v = .err er ∨ (∃ e, tryFrom v = .ok e ∧ e.by = .err er) ∨
    (∃ e y, tryFrom v = .ok e ∧ e.by = .ok y ∧ y.exp.v = v ∧ y.WF ∧
      (match q with
       | .name n => y.name n
       | .ordinal o => y.ordinal o
       | .import i => y.import i) = .err er) := by
  rcases tryFrom_okOrErr v with ⟨e, he⟩ | ⟨e', he⟩
  · rcases by_okOrErr e with ⟨y, hy⟩ | ⟨e'', hy⟩
    · right; right
      obtain ⟨hev, _, _⟩ := tryFrom_ok he
      obtain ⟨hye, hw⟩ := by_ok hy
      refine ⟨e, y, he, hy, by rw [hye, hev], hw, ?_⟩
      rw [← (C08_get_export_cases v q).2.2 e y he hy]; exact h
    · right; left
      rw [(C08_get_export_cases v q).2.1 e e'' he hy] at h
      cases h
      exact ⟨e, he, hy⟩
  · left
    rw [(C08_get_export_cases v q).1 e' he] at h
    cases h
    exact he

/-- No export directory — no entry 0 in the data-directory array, or entry 0 with RVA 0 — answers
Null for every query; an ordinal that is below the base or beyond the table answers Bounds, a hole
Null (through `get_export`, whatever the view). -/
theorem C08_get_export_errors (v : View) (q : Query) :
    (v.dataDir 0 = none → getExport v q = .err .null) ∧
    (∀ sz, v.dataDir 0 = some (0, sz) → getExport v q = .err .null) ∧
    (∀ e y o, tryFrom v = .ok e → e.by = .ok y →
      (o < y.exp.base ∨ y.fns.cnt ≤ o - y.exp.base → getExport v (.ordinal o) = .err .bounds) ∧
      (y.exp.base ≤ o → o - y.exp.base < y.fns.cnt → y.fnAt (o - y.exp.base) = 0 →
        getExport v (.ordinal o) = .err .null)) := by
  refine ⟨?_, ?_, ?_⟩
  · intro hd
    apply (C08_get_export_cases v q).1
    unfold tryFrom; rw [hd]
  · intro sz hd
    apply (C08_get_export_cases v q).1
    unfold tryFrom; rw [hd]
    show (v.derva (.rva 0) 40 4).bind _ = _
    unfold View.derva
    rw [at_rva, slice_null]
    rfl
  · intro e y o he hy
    have hq := (C08_get_export_cases v (.ordinal o)).2.2 e y he hy
    obtain ⟨h1, h2, h3, _⟩ := C08_ordinal_errors y o
    refine ⟨?_, ?_⟩
    · intro hc
      rw [hq]
      rcases hc with hc | hc
      · exact h1 hc
      · by_cases hb : o < y.exp.base
        · exact h1 hb
        · exact h2 (by omega) hc
    · intro hb hi h0
      rw [hq]
      exact h3 hb hi h0

/-- get_proc_address: `rva_to_va` of the symbol's RVA; Null for a forwarder; the lookup's error otherwise. -/
theorem C08_get_proc_address (v : View) (q : Query) :
    getProcAddress v q =
      Spec.procAddress v.imageBase (sizeOfImage v.b) v.fmt.vaLimit (mapOut (Export.abs v.b) (getExport v q)) :=
  getProcAddress_abs v q

/-- … so an address is answered for real symbols only, and it is image base + rva. -/
theorem C08_get_proc_address_ok (v : View) (q : Query) (va : Nat) (h : getProcAddress v q = .ok va) :
    ∃ r, getExport v q = .ok (.symbol r) ∧ va = v.imageBase + le32 v.b r.off ∧
      0 < le32 v.b r.off ∧ le32 v.b r.off < sizeOfImage v.b ∧ va < v.fmt.vaLimit := by
  unfold getProcAddress at h
  obtain ⟨x, hx, h⟩ := bind_eq_ok h
  cases x with
  | forward c => cases h
  | symbol r =>
    refine ⟨r, hx, ?_⟩
    dsimp only at h
    unfold View.rvaToVa at h
    split at h
    · cases h
    · split at h
      · split at h
        · cases h; exact ⟨rfl, by omega, by assumption, by assumption⟩
        · cases h
      · cases h

/-! ### C01: every reference handed out lies inside the buffer and is aligned for its type -/

theorem C08_refs_ok (y : By) (hw : y.WF) (x : Export) :
    (∀ i, y.index i = .ok x → RefOK y.exp.v.img x.ref) ∧
    (∀ o, y.ordinal o = .ok x → RefOK y.exp.v.img x.ref) ∧
    (∀ h, y.hint h = .ok x → RefOK y.exp.v.img x.ref) ∧
    (∀ q, y.nameLinear q = .ok x → RefOK y.exp.v.img x.ref) ∧
    (∀ q, y.name q = .ok x → RefOK y.exp.v.img x.ref) ∧
    (∀ h q, y.hintName h q = .ok x → RefOK y.exp.v.img x.ref) ∧
    (∀ i, y.import i = .ok x → RefOK y.exp.v.img x.ref) ∧
    (.ok x ∈ y.iter → RefOK y.exp.v.img x.ref) ∧
    (∀ n, (n, .ok x) ∈ y.iterNames → RefOK y.exp.v.img x.ref) :=
  ⟨fun _ h => (index_sound hw h).1, fun _ h => ordinal_sound hw h, fun _ h => hint_sound hw h,
   fun _ h => nameLinearLoop_sound hw _ _ _ _ h, fun _ h => nameLoop_sound hw _ _ _ h,
   fun _ _ h => hintName_sound hw h, fun _ h => import_sound hw h,
   fun h => by
     unfold By.iter at h
     obtain ⟨i, hi, he⟩ := List.mem_map.1 h
     have hi' := List.mem_range.1 hi
     have : y.index i = .ok x := by unfold By.index; rw [if_pos hi']; exact he
     exact (index_sound hw this).1,
   fun n h => by
     unfold By.iterNames at h
     obtain ⟨i, _, he⟩ := List.mem_map.1 h
     exact hint_sound hw (congrArg Prod.snd he)⟩

theorem C08_name_refs_ok (y : By) (c : Ref) :
    (∀ h, y.nameOfHint h = .ok c → RefOK y.exp.v.img c ∧ h < y.names.cnt) ∧
    (∀ i h, y.nameLookup i = .ok (.byName h c) → RefOK y.exp.v.img c ∧ h < y.names.cnt) ∧
    (∀ x, (.ok c, x) ∈ y.iterNames → RefOK y.exp.v.img c) ∧
    (∀ i, .ok (.ok c, i) ∈ y.iterNameIndices → RefOK y.exp.v.img c) :=
  ⟨fun _ h => nameOfHint_sound h, fun _ _ h => nameLookup_sound h,
   fun x h => by
     unfold By.iterNames at h
     obtain ⟨i, _, he⟩ := List.mem_map.1 h
     exact (nameOfHint_sound (congrArg Prod.fst he)).1,
   fun i h => by
     obtain ⟨hn, _, _, he⟩ := iterNameIndices_ok y _ h
     have := Out.ok.inj he
     exact (nameOfHint_sound (congrArg Prod.fst this).symm).1⟩

theorem C08_get_export_ref_ok (v : View) (q : Query) (x : Export) (h : getExport v q = .ok x) :
    RefOK v.img x.ref := getExport_sound h

/-! ### C02 / C03: no panic, no unchecked access, no divergence — for ANY image bytes -/

/-- Every operation of the module answers a value or a typed error on every view whatsoever: the
binary search never indexes outside `names`, `upper - lower` never underflows and the loop ends;
`is_forwarded`, `name_lookup` and `iter_name_indices` (format specific and wrapper) never overflow
or index out of range. -/
theorem C08_total (v : View) (e : Exports) (y : By) (q : List Nat) (n : Nat) (i : ImportQ) (g : Query) :
    OkOrErr (tryFrom v) ∧ OkOrErr e.dllName ∧ OkOrErr e.functions ∧ OkOrErr e.names ∧
    OkOrErr e.nameIndices ∧ OkOrErr e.by ∧ OkOrErr y.checkSorted ∧
    OkOrErr (y.ordinal n) ∧ OkOrErr (y.index n) ∧ OkOrErr (y.hint n) ∧ OkOrErr (y.nameLinear q) ∧
    OkOrErr (y.name q) ∧ OkOrErr (y.hintName n q) ∧ OkOrErr (y.import i) ∧
    OkOrErr (y.nameOfHint n) ∧ OkOrErr (y.nameLookup n) ∧
    OkOrErr (getExport v g) ∧ OkOrErr (getProcAddress v g) :=
  ⟨tryFrom_okOrErr v, dllName_okOrErr e, functions_okOrErr e, names_okOrErr e, nameIndices_okOrErr e,
   by_okOrErr e, checkSorted_okOrErr y, ordinal_okOrErr y n, index_okOrErr y n, hint_okOrErr y n,
   nameLinear_okOrErr y q, name_okOrErr y q, hintName_okOrErr y n q, import_okOrErr y i,
   nameOfHint_okOrErr y n, nameLookup_okOrErr y n, getExport_okOrErr v g, getProcAddress_okOrErr v g⟩

/-- … and every item of the three iterators. -/
theorem C08_iter_total (y : By) :
    (∀ x ∈ y.iter, OkOrErr x) ∧ (∀ x ∈ y.iterNames, OkOrErr x.1 ∧ OkOrErr x.2) ∧
    (∀ x ∈ y.iterNameIndices, ∃ h, h < y.names.cnt ∧ h < y.idx.cnt ∧ x = .ok (y.nameOfHint h, y.idxAt h)) :=
  ⟨iter_okOrErr y, iterNames_okOrErr y, iterNameIndices_ok y⟩

/-- The iterators enumerate the tables in order: `iter` is index 0, 1, …; `iter_names` is
(name_of_hint h, hint h); `iter_name_indices` is (name_of_hint h, name_indices[h]) for the hints both
tables have. -/
theorem C08_iter (y : By) :
    y.iter = (List.range y.fns.cnt).map y.index ∧
    y.iterNames = (List.range y.names.cnt).map (fun h => (y.nameOfHint h, y.hint h)) ∧
    y.iterNameIndices =
      (List.range (min y.names.cnt y.idx.cnt)).map (fun h => .ok (y.nameOfHint h, y.idxAt h)) := by
  refine ⟨?_, rfl, ?_⟩
  · unfold By.iter
    apply List.map_congr_left
    intro i hi
    unfold By.index
    rw [if_pos (List.mem_range.1 hi)]
  · unfold By.iterNameIndices
    apply List.map_congr_left
    intro h hh
    have := List.mem_range.1 hh
    rw [if_pos (by omega)]

/-- The wrappers (`src/wrap/exports.rs`) dispatch on the format of the view `wrapFromBytes` chose and
call the code above: a wrapped view is a format specific view of the same buffer. -/
theorem C08_wrappers (k : Kind) (img : Img) (v : View) (h : wrapFromBytes k img = .ok v) :
    fromBytes v.fmt k img = .ok v := wrap_ok_imp k img v h

/-! ### non-vacuity: a 278-byte PE32 image with an export directory at 192
(base 5; functions `[0x10, 0 (hole), 274 → "k.f" (forwarder, inside the extent 192..278), 0x20]`;
names `"a","b","c"` with indices `[0, 1, 3]`) -/

def demoImg : Img := ⟨#[
    77, 90, 0, 0, 0, 0, 0, 0, 0, 0, 0, 0, 0, 0, 0, 0, 0, 0, 0, 0, 0, 0, 0, 0, 0, 0, 0, 0, 0, 0, 0,
    0, 0, 0, 0, 0, 0, 0, 0, 0, 0, 0, 0, 0, 0, 0, 0, 0, 0, 0, 0, 0, 0, 0, 0, 0, 0, 0, 0, 0, 64, 0, 0,
    0, 80, 69, 0, 0, 76, 1, 0, 0, 0, 0, 0, 0, 0, 0, 0, 0, 0, 0, 0, 0, 104, 0, 2, 33, 11, 1, 0, 0, 0,
    0, 0, 0, 0, 0, 0, 0, 0, 0, 0, 0, 0, 0, 0, 0, 0, 0, 0, 0, 0, 0, 0, 0, 0, 0, 64, 0, 0, 0, 0, 0, 0,
    0, 0, 0, 0, 0, 0, 0, 0, 0, 0, 0, 0, 0, 0, 0, 0, 0, 0, 0, 22, 1, 0, 0, 192, 0, 0, 0, 0, 0, 0, 0,
    0, 0, 0, 0, 0, 0, 0, 0, 0, 0, 0, 0, 0, 0, 0, 0, 0, 0, 0, 0, 0, 0, 0, 0, 1, 0, 0, 0, 192, 0, 0,
    0, 86, 0, 0, 0, 0, 0, 0, 0, 0, 0, 0, 0, 0, 0, 0, 0, 10, 1, 0, 0, 5, 0, 0, 0, 4, 0, 0, 0, 3, 0,
    0, 0, 232, 0, 0, 0, 248, 0, 0, 0, 4, 1, 0, 0, 16, 0, 0, 0, 0, 0, 0, 0, 18, 1, 0, 0, 32, 0, 0, 0,
    12, 1, 0, 0, 14, 1, 0, 0, 16, 1, 0, 0, 0, 0, 1, 0, 3, 0, 100, 0, 97, 0, 98, 0, 99, 0, 107, 46,
    102, 0], 0⟩

def demoView : View := ⟨demoImg, .pe32, .view, 0x400000⟩
def demoExp : Exports := ⟨demoView, 192, 86, 192⟩
def demoBy : By := ⟨demoExp, ⟨232, 4, false⟩, ⟨248, 3, false⟩, ⟨260, 3, false⟩⟩

/-- the image is accepted, and `exports()?.by()?` yields `demoBy` -/
example : (fromBytes .pe32 .view demoImg).isOk = true ∧
    (tryFrom demoView).bind (fun e => e.by.bind fun y => .ok (e.ddVA, e.ddSize, e.off, y.fns, y.names, y.idx)) =
      .ok (192, 86, 192, ⟨232, 4, false⟩, ⟨248, 3, false⟩, ⟨260, 3, false⟩) := by decide +kernel

example : demoBy.WF :=
  ⟨by unfold Tab.OK; decide +kernel, by unfold Tab.OK; decide +kernel, by unfold Tab.OK; decide +kernel⟩

/-- the hypotheses of the name theorems hold on it, and the lookups give the expected entries -/
example : demoBy.checkSorted = .ok true ∧ Spec.nameDetermined (tablesOf demoBy) (cstrOf demoView) = true ∧
    demoBy.ordinal 4 = .err .bounds ∧ demoBy.ordinal 5 = .ok (.symbol ⟨232, 4, 4⟩) ∧
    demoBy.ordinal 6 = .err .null ∧ demoBy.ordinal 7 = .ok (.forward ⟨274, 4, 1⟩) ∧
    demoBy.ordinal 9 = .err .bounds ∧
    demoBy.name [97] = .ok (.symbol ⟨232, 4, 4⟩) ∧ demoBy.name [99] = .ok (.symbol ⟨244, 4, 4⟩) ∧
    demoBy.name [98, 98] = .err .null ∧ demoBy.nameLinear [99] = .ok (.symbol ⟨244, 4, 4⟩) ∧
    demoBy.hintName 0 [99] = .ok (.symbol ⟨244, 4, 4⟩) ∧ demoBy.hintName 2 [99] = .ok (.symbol ⟨244, 4, 4⟩) ∧
    demoBy.nameLookup 3 = .ok (.byName 2 ⟨272, 2, 1⟩) ∧ demoBy.nameLookup 2 = .ok (.byOrdinal 7) ∧
    getProcAddress demoView (.name [97]) = .ok 0x400010 ∧
    getProcAddress demoView (.ordinal 7) = .err .null ∧
    mapOut (Export.abs demoView.b) (demoBy.ordinal 7) = .ok (.forward [107, 46, 102]) := by decide +kernel

/-- "`name q` = Null ↔ `q` ∉ names" is false as written: `"b"` is a name (hint 1) of this sorted
table, its entry is the hole functions[1] = 0, and `name "b"` answers Null. -/
theorem C08_name_null_iff_counterexample :
    demoBy.checkSorted = .ok true ∧ demoBy.nameStr 1 = .ok [98] ∧ demoBy.name [98] = .err .null ∧
    demoBy.hint 1 = .err .null := by decide +kernel

/-! ### non-vacuity of the "any table" theorems: an UNSORTED table with a DUPLICATE name

`demoImg` with the name pointer table `[272 "c", 272 "c", 268 "a"]` and the ordinal table `[0, 3, 2]`:
not sorted ("c" before "a"), "c" twice (entries 0 and 3), "a" a forwarder (entry 2). -/

def demoImg2 : Img :=
  ⟨((((demoImg.bytes.set! 248 16).set! 252 16).set! 256 12).set! 262 3).set! 264 2, 0⟩
def demoView2 : View := ⟨demoImg2, .pe32, .view, 0x400000⟩
def demoBy2 : By := ⟨⟨demoView2, 192, 86, 192⟩, ⟨232, 4, false⟩, ⟨248, 3, false⟩, ⟨260, 3, false⟩⟩

/-- the image is accepted and `exports()?.by()?` yields `demoBy2`; its tables are as described:
`check_sorted` answers false, `Spec.nameDetermined` fails -/
example : (fromBytes .pe32 .view demoImg2).isOk = true ∧
    (tryFrom demoView2).bind (fun e => e.by.bind fun y => .ok (e.ddVA, e.ddSize, e.off, y.fns, y.names, y.idx)) =
      .ok (192, 86, 192, ⟨232, 4, false⟩, ⟨248, 3, false⟩, ⟨260, 3, false⟩) ∧
    (tablesOf demoBy2).names = [272, 272, 268] ∧ (tablesOf demoBy2).idx = [0, 3, 2] ∧
    demoBy2.nameStr 0 = .ok [99] ∧ demoBy2.nameStr 1 = .ok [99] ∧ demoBy2.nameStr 2 = .ok [97] ∧
    demoBy2.checkSorted = .ok false ∧ Spec.sorted (tablesOf demoBy2) (cstrOf demoView2) = false ∧
    Spec.nameDetermined (tablesOf demoBy2) (cstrOf demoView2) = false := by decide +kernel

/-- `C08_name_linear` on it: the FIRST of the two "c" (hint 0, entry 0); `C08_name_sound`: the binary
search answers the OTHER "c" (hint 1, entry 3) — a different entry, but one named "c" all the same;
completeness is what the unsorted table loses: "a" is a name (hint 2, found by the linear search as
the forwarder) and the binary search reports Null; `hint_name` with the right hint needs no search,
with a wrong hint it inherits the binary search's answer. -/
example :
    demoBy2.nameLinear [99] = demoBy2.hint 0 ∧ demoBy2.hint 0 = .ok (.symbol ⟨232, 4, 4⟩) ∧
    demoBy2.name [99] = demoBy2.hint 1 ∧ demoBy2.hint 1 = .ok (.symbol ⟨244, 4, 4⟩) ∧
    demoBy2.nameLinear [97] = .ok (.forward ⟨274, 4, 1⟩) ∧ demoBy2.name [97] = .err .null ∧
    demoBy2.hintName 2 [97] = .ok (.forward ⟨274, 4, 1⟩) ∧ demoBy2.hintName 0 [97] = .err .null ∧
    demoBy2.hintName 0 [99] = .ok (.symbol ⟨232, 4, 4⟩) ∧ demoBy2.hintName 2 [99] = .ok (.symbol ⟨244, 4, 4⟩) ∧
    demoBy2.import (.byName 2 [99]) = .ok (.symbol ⟨244, 4, 4⟩) := by decide +kernel

/-- the theorems instantiated (no hypothesis about the table to discharge) -/
example : ∃ hn, hn < demoBy2.names.cnt ∧ demoBy2.nameStr hn = .ok [99] ∧
    demoBy2.hint hn = .ok (.symbol ⟨244, 4, 4⟩) :=
  C08_name_sound demoBy2 [99] _ (by decide +kernel)

example : demoBy2.nameLinear [99] = demoBy2.hint 0 :=
  (C08_name_linear demoBy2 [99]).2.2 0 (by decide +kernel) (fun h' hlt => by omega)

example : ∃ h', h' < demoBy2.names.cnt ∧ demoBy2.nameStr h' = .ok [99] ∧
    demoBy2.hint h' = .ok (.symbol ⟨244, 4, 4⟩) :=
  C08_hint_name_sound demoBy2 2 [99] _ (by decide +kernel)

example : ∃ h', h' < demoBy2.names.cnt ∧ demoBy2.nameStr h' = .ok [97] ∧
    demoBy2.hint h' = .ok (.forward ⟨274, 4, 1⟩) :=
  C08_import_sound demoBy2 (.byName 2 [97]) _ (by decide +kernel)

/-- the failure direction on `demoBy` (base 5, four entries, entry 1 a hole, entry 2 a forwarder) and on
an image without export directory -/
example :
    getExport demoView (.ordinal 4) = .err .bounds ∧ getExport demoView (.ordinal 9) = .err .bounds ∧
    getExport demoView (.ordinal 6) = .err .null ∧ getExport demoView (.ordinal 7) = .ok (.forward ⟨274, 4, 1⟩) ∧
    getProcAddress demoView (.ordinal 7) = .err .null ∧ getExport demoView (.name [98]) = .err .null ∧
    getExport demoView (.name [100]) = .err .null := by decide +kernel

/-! ### lookup by name on ANY table: the answer is a member of the acceptable-answer set

`Spec.acceptName T cstr q` (Spec/Exports.lean) is written from the format: what any hint named `q`
denotes; Null when there is none; on a table that is not sorted additionally Null and the failure of
reading a name.  The model driver prints it (`accept=[…]`) for every `name` / `hint_name` /
`import byname` / `get name` / `get byname` operation and the Python oracle requires the REAL code's
answer to be a member — also where `Spec.nameDetermined` fails (`hyp=0`). -/

/-- (helper for `C08_name_in_accept`) what the binary search answers on any table: Null, or what a
hint named `q` denotes (value or error), or the failure of reading a name it probed -/
theorem nameLoop_answer (y : By) (q : List Nat) (lower upper : Nat)
    (h1 : lower ≤ upper) (h2 : upper ≤ y.names.cnt) :
    y.nameLoop q lower upper = .err .null ∨
    (∃ h, h < y.names.cnt ∧ y.nameStr h = .ok q ∧ y.nameLoop q lower upper = y.hint h) ∨
    (∃ h e, h < y.names.cnt ∧ y.nameStr h = .err e ∧ y.nameLoop q lower upper = .err e) := by
  fun_induction By.nameLoop y q lower upper with
  | case1 lower => exact .inl rfl
  | case2 lower upper hne hlt => omega
  | case3 lower upper hne hlt i hi c hc s hqs ih => exact ih (by omega) (by omega)
  | case4 lower upper hne hlt i hi c hc s hqs hsq ih => exact ih (by omega) (by omega)
  | case5 lower upper hne hlt i hi c hc s hqs hsq hix =>
    refine .inr (.inl ⟨i, hi, ?_, ?_⟩)
    · rw [nameStr_of_derva hi hc]
      exact congrArg Out.ok (List.le_antisymm (List.not_lt.1 hqs) (List.not_lt.1 hsq))
    · unfold By.hint; rw [if_pos hix]
  | case6 lower upper hne hlt i hi c hc s hqs hsq hix =>
    refine .inr (.inl ⟨i, hi, ?_, ?_⟩)
    · rw [nameStr_of_derva hi hc]
      exact congrArg Out.ok (List.le_antisymm (List.not_lt.1 hqs) (List.not_lt.1 hsq))
    · unfold By.hint; rw [if_neg hix]
  | case7 lower upper hne hlt i hi e hc =>
    refine .inr (.inr ⟨i, e, hi, ?_, rfl⟩)
    unfold By.nameStr By.nameOfHint
    rw [if_pos hi, hc]
    rfl
  | case8 lower upper hne hlt i hi s hc =>
    rcases dervaCStr_okOrErr y.exp.v (y.nameAt i) with ⟨_, h⟩ | ⟨_, h⟩ <;> rw [hc] at h <;> cases h
  | case9 lower upper hne hlt i hi s hc =>
    rcases dervaCStr_okOrErr y.exp.v (y.nameAt i) with ⟨_, h⟩ | ⟨_, h⟩ <;> rw [hc] at h <;> cases h
  | case10 lower upper hne hlt i hi hc =>
    rcases dervaCStr_okOrErr y.exp.v (y.nameAt i) with ⟨_, h⟩ | ⟨_, h⟩ <;> rw [hc] at h <;> cases h
  | case11 lower upper hne hlt i hi => omega

/-- (helper) what a hint named `q` denotes is one of the table's entries for `q` -/
theorem hint_mem_namedEntries (y : By) (q : List Nat) (h : Nat) (hq : y.nameStr h = .ok q) :
    mapOut (Export.abs y.b) (y.hint h) ∈ Spec.namedEntries (tablesOf y) (cstrOf y.exp.v) q := by
  unfold Spec.namedEntries
  rw [hint_abs]
  refine List.mem_map.2 ⟨h, ?_, rfl⟩
  unfold Spec.hintsOf
  refine List.mem_filter.2 ⟨List.mem_range.2 (by rw [tablesOf_names_length]; exact nameStr_ok_lt hq), ?_⟩
  rw [← nameStr_eq_spec, hq]
  exact decide_eq_true rfl

/-- (helper) a member of the named entries is a member of the acceptable-answer set -/
theorem acceptName_of_named (T : Spec.Tables) (cs : Nat → Out (List Nat)) (q : List Nat) (a : Out Spec.Sym)
    (h : a ∈ Spec.namedEntries T cs q) : a ∈ Spec.acceptName T cs q :=
  List.mem_append_left _ h

/-- `By::name` on ANY table — unsorted, duplicated, unreadable names, short ordinal table: the answer
(value or error, references forgotten) is a member of the acceptable-answer set of the tables.
No hypothesis.  (Ok answers: `C08_name_sound`; the errors: `nameLoop_answer`, and `name_sorted` where
the table is sorted — there neither the extra Null nor a read failure is in the set.) -/
theorem C08_name_in_accept (y : By) (q : List Nat) :
    mapOut (Export.abs y.b) (y.name q) ∈ Spec.acceptName (tablesOf y) (cstrOf y.exp.v) q := by
  by_cases hs : Spec.sorted (tablesOf y) (cstrOf y.exp.v) = true
  · rcases name_sorted y q hs with ⟨hne, hnull⟩ | ⟨h, _, he, hres⟩
    · have hemp : Spec.namedEntries (tablesOf y) (cstrOf y.exp.v) q = [] := by
        unfold Spec.namedEntries Spec.hintsOf
        rw [List.map_eq_nil_iff, List.filter_eq_nil_iff]
        intro h _ hq
        rw [← nameStr_eq_spec] at hq
        exact hne h (of_decide_eq_true hq)
      rw [hnull]
      unfold Spec.acceptName
      rw [hemp]
      exact List.mem_append_right _ (List.mem_append_left _ (List.mem_singleton.2 rfl))
    · rw [hres]
      exact acceptName_of_named _ _ _ _ (hint_mem_namedEntries y q h he)
  · have hb : Spec.sorted (tablesOf y) (cstrOf y.exp.v) = false := by
      cases hv : Spec.sorted (tablesOf y) (cstrOf y.exp.v)
      · rfl
      · exact absurd hv hs
    rcases nameLoop_answer y q 0 y.names.cnt (Nat.zero_le _) (Nat.le_refl _) with
      hn | ⟨h, _, he, hres⟩ | ⟨h, e, hh, he, hres⟩
    · have : y.name q = .err .null := hn
      rw [this]
      unfold Spec.acceptName
      rw [hb]
      refine List.mem_append_right _ (List.mem_append_left _ ?_)
      rw [Bool.not_false, Bool.or_true, if_pos rfl]
      exact List.mem_singleton.2 rfl
    · have : y.name q = y.hint h := hres
      rw [this]
      exact acceptName_of_named _ _ _ _ (hint_mem_namedEntries y q h he)
    · have : y.name q = .err e := hres
      rw [this]
      unfold Spec.acceptName
      rw [hb]
      refine List.mem_append_right _ (List.mem_append_right _ ?_)
      rw [if_neg (by decide)]
      unfold Spec.nameReadFailures
      refine List.mem_filterMap.2 ⟨h, List.mem_range.2 (by rw [tablesOf_names_length]; exact hh), ?_⟩
      rw [← nameStr_eq_spec, he]
      rfl

/-- `By::hint_name` on ANY table: the same set — a right hint answers one of the entries named `q`
directly (`C08_hint_name_sound`), a wrong one inherits the binary search's answer. -/
theorem C08_hint_name_in_accept (y : By) (h : Nat) (q : List Nat) :
    mapOut (Export.abs y.b) (y.hintName h q) ∈ Spec.acceptName (tablesOf y) (cstrOf y.exp.v) q := by
  rw [hintName_eq]
  split
  next hc => exact acceptName_of_named _ _ _ _ (hint_mem_namedEntries y q h hc.2)
  next => exact C08_name_in_accept y q

/-- … and `By::import` with a `ByName` descriptor, `get_export` by name / by `ByName` descriptor
(whenever `exports()?.by()?` yields `y`). -/
theorem C08_import_in_accept (y : By) (h : Nat) (q : List Nat) :
    mapOut (Export.abs y.b) (y.import (.byName h q)) ∈ Spec.acceptName (tablesOf y) (cstrOf y.exp.v) q :=
  C08_hint_name_in_accept y h q

theorem C08_get_export_in_accept (v : View) (e : Exports) (y : By) (h : Nat) (q : List Nat)
    (he : tryFrom v = .ok e) (hy : e.by = .ok y) :
    mapOut (Export.abs y.b) (getExport v (.name q)) ∈ Spec.acceptName (tablesOf y) (cstrOf y.exp.v) q ∧
    mapOut (Export.abs y.b) (getExport v (.import (.byName h q))) ∈
      Spec.acceptName (tablesOf y) (cstrOf y.exp.v) q := by
  rw [(C08_get_export_cases v (.name q)).2.2 e y he hy,
      (C08_get_export_cases v (.import (.byName h q))).2.2 e y he hy]
  exact ⟨C08_name_in_accept y q, C08_import_in_accept y h q⟩

/-- What the set contains, read off its definition: every Ok member is what a hint named `q` denotes
(so membership of an Ok answer is exactly the soundness of `C08_name_sound`), and on a sorted table
the set is nothing but the named entries, or Null alone when there are none. -/
theorem C08_accept_members (T : Spec.Tables) (cs : Nat → Out (List Nat)) (q : List Nat) :
    (∀ s, .ok s ∈ Spec.acceptName T cs q →
      ∃ h, h < T.names.length ∧ Spec.nameOfHint T cs h = .ok q ∧ Spec.hint T cs h = .ok s) ∧
    (Spec.sorted T cs = true →
      Spec.acceptName T cs q =
        Spec.namedEntries T cs q ++ (if (Spec.namedEntries T cs q).isEmpty then [.err .null] else [])) := by
  refine ⟨?_, ?_⟩
  · intro s hs
    unfold Spec.acceptName at hs
    rcases List.mem_append.1 hs with h1 | h2
    · unfold Spec.namedEntries Spec.hintsOf at h1
      obtain ⟨h, hh, he⟩ := List.mem_map.1 h1
      obtain ⟨hr, hq⟩ := List.mem_filter.1 hh
      exact ⟨h, List.mem_range.1 hr, of_decide_eq_true hq, he⟩
    · rcases List.mem_append.1 h2 with h3 | h3
      · split at h3
        · cases List.mem_singleton.1 h3
        · cases h3
      · split at h3
        · cases h3
        · unfold Spec.nameReadFailures at h3
          obtain ⟨h, _, hf⟩ := List.mem_filterMap.1 h3
          cases hn : Spec.nameOfHint T cs h <;> rw [hn] at hf <;> cases hf
  · intro hs
    unfold Spec.acceptName
    rw [hs, if_pos rfl, List.append_nil, Bool.not_true, Bool.or_false]

/-- non-vacuity on the UNSORTED table with a DUPLICATE name (`demoBy2`: names "c","c","a", indices
0, 3, 2): the set for "c" is both entries named "c" plus the Null an unsorted table may answer — the
binary search answers the second of them (the linear search the first); the set for "a" is the
forwarder plus Null — the binary search misses it and answers Null; a name that is not in the table
has Null alone.  None of the three is `Spec.nameDetermined`. -/
example :
    Spec.acceptName (tablesOf demoBy2) (cstrOf demoView2) [99] =
      [.ok (.symbol 16), .ok (.symbol 32), .err .null] ∧
    mapOut (Export.abs demoBy2.b) (demoBy2.name [99]) = .ok (.symbol 32) ∧
    mapOut (Export.abs demoBy2.b) (demoBy2.nameLinear [99]) = .ok (.symbol 16) ∧
    Spec.acceptName (tablesOf demoBy2) (cstrOf demoView2) [97] =
      [.ok (.forward [107, 46, 102]), .err .null] ∧
    demoBy2.name [97] = .err .null ∧
    mapOut (Export.abs demoBy2.b) (demoBy2.hintName 2 [97]) = .ok (.forward [107, 46, 102]) ∧
    Spec.acceptName (tablesOf demoBy2) (cstrOf demoView2) [98] = [.err .null] := by
  decide +kernel

/-- a SORTED table with a duplicate name: `demoImg` with the name pointer table `[268 "a", 272 "c",
272 "c"]` (indices 0, 1, 3; entry 1 is a hole).  `check_sorted` answers true, `Spec.nameDetermined`
fails.  The set for "c" is `[Null (the hole), Symbol(32)]` with no further Null; the binary search
answers the hole's Null, `hint_name 2 "c"` the symbol; "b" is no longer a name: Null alone. -/
def demoImg3 : Img := ⟨demoImg.bytes.set! 252 16, 0⟩
def demoView3 : View := ⟨demoImg3, .pe32, .view, 0x400000⟩
def demoBy3 : By := ⟨⟨demoView3, 192, 86, 192⟩, ⟨232, 4, false⟩, ⟨248, 3, false⟩, ⟨260, 3, false⟩⟩

example : (fromBytes .pe32 .view demoImg3).isOk = true ∧
    (tryFrom demoView3).bind (fun e => e.by.bind fun y => .ok (e.ddVA, e.ddSize, e.off, y.fns, y.names, y.idx)) =
      .ok (192, 86, 192, ⟨232, 4, false⟩, ⟨248, 3, false⟩, ⟨260, 3, false⟩) ∧
    demoBy3.checkSorted = .ok true ∧ Spec.sorted (tablesOf demoBy3) (cstrOf demoView3) = true ∧
    Spec.nameDetermined (tablesOf demoBy3) (cstrOf demoView3) = false ∧
    Spec.acceptName (tablesOf demoBy3) (cstrOf demoView3) [99] = [.err .null, .ok (.symbol 32)] ∧
    demoBy3.name [99] = .err .null ∧
    mapOut (Export.abs demoBy3.b) (demoBy3.hintName 2 [99]) = .ok (.symbol 32) ∧
    Spec.acceptName (tablesOf demoBy3) (cstrOf demoView3) [98] = [.err .null] ∧
    Spec.acceptName (tablesOf demoBy3) (cstrOf demoView3) [97] = [.ok (.symbol 16)] := by
  decide +kernel

/-- the theorems instantiated on both (membership decided independently of the proof) -/
example : mapOut (Export.abs demoBy2.b) (demoBy2.name [99]) ∈
    Spec.acceptName (tablesOf demoBy2) (cstrOf demoView2) [99] := C08_name_in_accept demoBy2 [99]
example : (Out.ok (.symbol 32) : Out Spec.Sym) ∈ Spec.acceptName (tablesOf demoBy2) (cstrOf demoView2) [99] ∧
    (Out.ok (.symbol 48) : Out Spec.Sym) ∉ Spec.acceptName (tablesOf demoBy2) (cstrOf demoView2) [99] ∧
    (Out.err .null : Out Spec.Sym) ∉ Spec.acceptName (tablesOf demoBy3) (cstrOf demoView3) [97] := by
  decide +kernel

end Pelite.Exports
