import PeliteModel.Model.Exports
import PeliteModel.Generated.ImageLayout
/-!
C08 — the literal offsets of `Model/Exports.lean` are the layout of `IMAGE_EXPORT_DIRECTORY` in the *current source*.

`Generated/ImageLayout.lean` is rewritten on every check run from `size_of`, `align_of` and `offset_of!` of the
structs of `src/image.rs`; `Generated.Layout.IMAGE_EXPORT_DIRECTORY__<field>` names its entries.  Every conjunct
below is proved by unfolding those definitions: when the struct changes layout in the Rust source the constants
change and this proof fails on the next run.

Not tied (no struct of `image.rs` behind them): the element sizes of the three tables — `functions: &[Rva]`,
`names: &[Rva]` (`size_of::<u32>() = align_of::<u32>() = 4`) and `name_indices: &[u16]` (2 / 2) — are sizes of
primitive integer types; they are stated below as what they are.  The data directory index 0 is the constant
`IMAGE_DIRECTORY_ENTRY_EXPORT`, not a layout quantity.
-/
namespace Pelite.Exports
open Pelite Pelite.Pe Pelite.Generated.Layout

/-- **Every field the export model reads is read at the offset the source's struct layout gives**, the
`&IMAGE_EXPORT_DIRECTORY` handed out has the struct's size and alignment, and `try_from` asks the typed read
for exactly that size and alignment. -/
theorem C08_model_offsets (e : Exports) (v : View) :
    e.nameRva = le32 e.b (e.off + IMAGE_EXPORT_DIRECTORY__Name) ∧
    e.base = le32 e.b (e.off + IMAGE_EXPORT_DIRECTORY__Base) ∧
    e.nFns = le32 e.b (e.off + IMAGE_EXPORT_DIRECTORY__NumberOfFunctions) ∧
    e.nNames = le32 e.b (e.off + IMAGE_EXPORT_DIRECTORY__NumberOfNames) ∧
    e.aFns = le32 e.b (e.off + IMAGE_EXPORT_DIRECTORY__AddressOfFunctions) ∧
    e.aNames = le32 e.b (e.off + IMAGE_EXPORT_DIRECTORY__AddressOfNames) ∧
    e.aOrds = le32 e.b (e.off + IMAGE_EXPORT_DIRECTORY__AddressOfNameOrdinals) ∧
    e.image = ⟨e.off, IMAGE_EXPORT_DIRECTORY__size, IMAGE_EXPORT_DIRECTORY__align⟩ ∧
    tryFrom v =
      (match v.dataDir 0 with
       | none => .err .null
       | some (va, size) =>
         (v.derva (.rva va) IMAGE_EXPORT_DIRECTORY__size IMAGE_EXPORT_DIRECTORY__align).bind fun r =>
           .ok ⟨v, va, size, r.off⟩) :=
  ⟨rfl, rfl, rfl, rfl, rfl, rfl, rfl, rfl, rfl⟩

/-- the seven fields read are `u32`s that do not overlap: each is 4 bytes before the next one / the end of the
struct (the widths the model's `le32` assumes) -/
theorem C08_model_field_widths :
    IMAGE_EXPORT_DIRECTORY__Base - IMAGE_EXPORT_DIRECTORY__Name = 4 ∧
    IMAGE_EXPORT_DIRECTORY__NumberOfFunctions - IMAGE_EXPORT_DIRECTORY__Base = 4 ∧
    IMAGE_EXPORT_DIRECTORY__NumberOfNames - IMAGE_EXPORT_DIRECTORY__NumberOfFunctions = 4 ∧
    IMAGE_EXPORT_DIRECTORY__AddressOfFunctions - IMAGE_EXPORT_DIRECTORY__NumberOfNames = 4 ∧
    IMAGE_EXPORT_DIRECTORY__AddressOfNames - IMAGE_EXPORT_DIRECTORY__AddressOfFunctions = 4 ∧
    IMAGE_EXPORT_DIRECTORY__AddressOfNameOrdinals - IMAGE_EXPORT_DIRECTORY__AddressOfNames = 4 ∧
    IMAGE_EXPORT_DIRECTORY__size - IMAGE_EXPORT_DIRECTORY__AddressOfNameOrdinals = 4 := by decide

/-- the three tables: element size and alignment are those of `u32`, `u32`, `u16` (primitive types — no entry of
the layout table), the element count is the directory's `NumberOfFunctions` / `NumberOfNames`, the table address
its `AddressOf…` field; element `i` is read `size_of::<T>() * i` bytes into the table -/
theorem C08_model_table_elements (e : Exports) (y : By) (i : Nat) :
    e.functions = e.v.dervaSlice (.rva (le32 e.b (e.off + IMAGE_EXPORT_DIRECTORY__AddressOfFunctions))) 4 4
      (le32 e.b (e.off + IMAGE_EXPORT_DIRECTORY__NumberOfFunctions)) ∧
    e.names = e.v.dervaSlice (.rva (le32 e.b (e.off + IMAGE_EXPORT_DIRECTORY__AddressOfNames))) 4 4
      (le32 e.b (e.off + IMAGE_EXPORT_DIRECTORY__NumberOfNames)) ∧
    e.nameIndices = e.v.dervaSlice (.rva (le32 e.b (e.off + IMAGE_EXPORT_DIRECTORY__AddressOfNameOrdinals))) 2 2
      (le32 e.b (e.off + IMAGE_EXPORT_DIRECTORY__NumberOfNames)) ∧
    y.fnAt i = le32 y.b (y.fns.off + 4 * i) ∧ y.nameAt i = le32 y.b (y.names.off + 4 * i) ∧
    y.idxAt i = le16 y.b (y.idx.off + 2 * i) :=
  ⟨rfl, rfl, rfl, rfl, rfl, rfl⟩

/-- non-vacuity of the tie: the constants are the ones of the 40-byte, 4-aligned directory -/
example : IMAGE_EXPORT_DIRECTORY__size = 40 ∧ IMAGE_EXPORT_DIRECTORY__align = 4 ∧
    IMAGE_EXPORT_DIRECTORY__AddressOfNameOrdinals = 36 := by decide

end Pelite.Exports
