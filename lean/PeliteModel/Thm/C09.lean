import PeliteModel.Spec.Imports
namespace Pelite.Imports
end Pelite.Imports
