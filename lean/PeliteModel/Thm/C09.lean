import PeliteModel.Lemmas.Imports
/-!
C09 — Import descriptors, name tables and the IAT are decoded as stored.

Model: `Model/Imports.lean` (`tryFrom`, `descs`, `dllName`, `intSlice`/`int`, `iatSlice`/`iat`,
`importFromVa`, `iatTryFrom`, `iatIter`) over `View` with the typed reads of C05.
Specification: `Spec/Imports.lean` — the layout relations `IsImportDir`, `IsImportDirZ`, `IsThunkTable`,
`IsCStr`, the answer relations `ImportDirAnswer`, `ThunkTableAnswer`, `CStrAnswer` (each determines the
answer uniquely) and the executable `spec…` functions the driver prints.

Every theorem quantifies over ALL `v : View` — any image bytes, any buffer address, PE32 and PE32+,
file and mapped, format specific or selected by the wrappers (`wrapFromBytes` yields such a `View`,
`C07_wrap_selects_magic`), any overridden base address — and over all descriptor / thunk values.
No size bound other than the global "buffers are shorter than 4 GiB" where `rva + 2` is computed.

Findings recorded here (mirrored by the model, see the theorems of the same name):
* `C09_terminator_readings_differ`: the scan stops at the first descriptor with `FirstThunk = 0`, not at
  the first all-zero descriptor; the two readings agree exactly on well-formed directories
  (`C09_terminator_readings`).
* `C09_decode_high_bits_ignored`: a PE32+ by-name thunk is truncated to its low 32 bits (`va as Rva`),
  bits 32..62 are ignored rather than rejected.
A former finding is gone: an image whose data-directory array is too short to have the import (IAT)
entry used to answer `Bounds`; since the fix in the code it answers `Null` as the property's wording
("an image without the directory reports the null error") asks — `C09_missing_entry_null`.
-/
namespace Pelite.Imports
open Pelite Pelite.Pe

/-! ### 1. the descriptor array -/

/-- **The import directory is the descriptors before the terminator.** With data directory 1 =
`(rva, _)`: if the RVA does not resolve to a 4-aligned window of bytes the slice's error is reported;
otherwise the answer is the array of the `n` descriptors for which `IsImportDir` holds (descriptor `i`
at `+20·i`, terminator = first `FirstThunk = 0`, terminator inside the window), and `Bounds` when
the window ends before any terminator — never a truncated or over-long table. -/
theorem C09_directory (v : View) (rva sz : Nat) (hd : v.dataDir 1 = some (rva, sz)) :
    ImportDirAnswer v rva (tryFrom v) := by
  rw [tryFrom_eq_spec]
  exact specTryFrom_answer v rva sz hd

/-- the same as an equivalence, once the window is known -/
theorem C09_directory_exact (v : View) (rva sz : Nat) (hd : v.dataDir 1 = some (rva, sz))
    (w : Ref) (hw : v.at (.rva rva) 0 4 = .ok w) (image : Ref) :
    tryFrom v = .ok image ↔ ∃ n, IsImportDir v.b w.off w.len n ∧ image = ⟨w.off, n * 20, 4⟩ := by
  have h := C09_directory v rva sz hd
  unfold ImportDirAnswer at h
  rw [hw] at h
  obtain ⟨hA, hB⟩ := h
  constructor
  · intro hok
    by_cases hex : ∃ n, IsImportDir v.b w.off w.len n
    · obtain ⟨n, hn⟩ := hex
      have := hA n hn
      rw [hok] at this
      cases this
      exact ⟨n, hn, rfl⟩
    · have := hB (fun n hn => hex ⟨n, hn⟩)
      rw [hok] at this
      cases this
  · rintro ⟨n, hn, rfl⟩
    exact hA n hn

/-- the number of descriptors is determined by the bytes -/
theorem C09_directory_unique (b : Bytes) (off len n m : Nat) (h1 : IsImportDir b off len n)
    (h2 : IsImportDir b off len m) : n = m :=
  h1.unique h2

/-- **The iterator yields exactly the descriptors before the terminator, in order**: `n` references,
the `i`-th to the 20 bytes at `+20·i`, each with `FirstThunk ≠ 0`; the record after the last one is
the terminator. -/
theorem C09_iter_exact (v : View) (rva sz : Nat) (hd : v.dataDir 1 = some (rva, sz))
    (w : Ref) (hw : v.at (.rva rva) 0 4 = .ok w) (n : Nat) (hn : IsImportDir v.b w.off w.len n) :
    ∃ image, tryFrom v = .ok image ∧
      descs image = (List.range n).map (fun i => ⟨w.off + 20 * i, 20, 4⟩) ∧
      (descs image).length = n ∧
      (∀ i, i < n → Desc.ft v ⟨w.off + 20 * i, 20, 4⟩ ≠ 0) ∧
      Desc.ft v ⟨w.off + 20 * n, 20, 4⟩ = 0 := by
  refine ⟨⟨w.off, n * 20, 4⟩, (C09_directory_exact v rva sz hd w hw _).2 ⟨n, hn, rfl⟩, descs_eq _ _, ?_, ?_, ?_⟩
  · rw [descs_eq]; simp
  · intro i hi; exact hn.live i hi
  · exact hn.term

/-- **"All-zero terminator" vs. the field the code tests.** On a well-formed directory (inside the
window only all-zero records have `FirstThunk = 0`) "first record with `FirstThunk = 0`" and "first
all-zero record" are the same descriptor count. -/
theorem C09_terminator_readings (b : Bytes) (off len : Nat) (hwf : WellFormedDir b off len) (n : Nat) :
    IsImportDir b off len n ↔ IsImportDirZ b off len n :=
  readings_agree b off len hwf n

/-- Without well-formedness the readings differ: a live-looking record (Name = 1) with
`FirstThunk = 0` followed by an all-zero record is an empty directory for the code (and the Windows
loader) and a one-descriptor directory under the all-zero reading. -/
theorem C09_terminator_readings_differ :
    let b : Bytes := #[0,0,0,0, 0,0,0,0, 0,0,0,0, 1,0,0,0, 0,0,0,0,  0,0,0,0, 0,0,0,0, 0,0,0,0, 0,0,0,0, 0,0,0,0]
    IsImportDir b 0 40 0 ∧ IsImportDirZ b 0 40 1 ∧ ¬ WellFormedDir b 0 40 := by
  intro b
  refine ⟨⟨by decide, fun i hi => by omega, by decide⟩, ⟨by decide, ?_, by decide⟩, ?_⟩
  · intro i hi
    have : i = 0 := by omega
    subst this
    decide
  · intro h
    exact absurd (h 0 (by decide) (by decide)) (by decide)

/-! ### 2. per-DLL tables -/

/-- **Import name table** (`Desc::int`): the thunks at `OriginalFirstThunk` up to the first zero thunk;
`Bounds` if the bytes end first; the slice's error (`Null` for a missing OriginalFirstThunk,
`Misaligned`, …) if the RVA does not resolve. -/
theorem C09_int_table (v : View) (d : Ref) : ThunkTableAnswer v (Desc.oft v d) (intSlice v d) := by
  unfold intSlice
  rw [thunks_eq_spec]
  exact specThunks_answer v _

/-- **Import address table** (`Desc::iat`): the same at `FirstThunk`. -/
theorem C09_iat_table (v : View) (d : Ref) : ThunkTableAnswer v (Desc.ft v d) (iatSlice v d) := by
  unfold iatSlice
  rw [thunks_eq_spec]
  exact specThunks_answer v _

/-- a table of `n` thunks is handed out as `n` element references, in order, naturally aligned -/
theorem C09_thunk_refs (f : Fmt) (off n : Nat) :
    thunkRefs f ⟨off, n * vaSize f, vaSize f⟩ =
      (List.range n).map (fun i => ⟨off + vaSize f * i, vaSize f, vaSize f⟩) ∧
    (thunkRefs f ⟨off, n * vaSize f, vaSize f⟩).length = n := by
  refine ⟨thunkRefs_eq f off n, ?_⟩
  rw [thunkRefs_eq]; simp

/-- `int` decodes every thunk of the name table with `import_from_va`, `iat` yields the raw thunks;
errors of the table lookup are passed on unchanged. -/
theorem C09_table_items (v : View) (d : Ref) :
    (∀ s, intSlice v d = .ok s →
      int v d = .ok ((thunkRefs v.fmt s).map (fun t => importFromVa v (thunkVal v t)))) ∧
    (∀ e, intSlice v d = .err e → int v d = .err e) ∧
    (∀ s, iatSlice v d = .ok s → iat v d = .ok (thunkRefs v.fmt s)) ∧
    (∀ e, iatSlice v d = .err e → iat v d = .err e) := by
  unfold int iat
  refine ⟨?_, ?_, ?_, ?_⟩ <;> intro x h <;> rw [h] <;> rfl

/-- missing OriginalFirstThunk: the name table is reported as absent (`Null`), not as empty -/
theorem C09_missing_oft (v : View) (d : Ref) (h : Desc.oft v d = 0) : int v d = .err .null := by
  have := (C05_null v 0 (vaSize v.fmt)).1
  unfold int intSlice View.dervaSliceS View.dervaSliceF
  rw [h, this]
  rfl

/-- **DLL name**: the NUL-terminated string at `Name` (reference = string plus its NUL);
`Encoding` if the bytes end before a NUL. -/
theorem C09_dll_name (v : View) (d : Ref) : CStrAnswer v (Desc.name v d) (dllName v d) := by
  unfold dllName
  rw [cstr_eq_spec]
  exact specCStr_answer v _

/-! ### 3. thunk decoding -/

/-- **A thunk decodes as the specification says** (`specImport`: ordinal = low 16 bits when the top
bit of the thunk's own width is set; otherwise hint = the 2-aligned u16 at the RVA and name = the C
string at RVA + 2, errors of either read passed on). -/
theorem C09_decode (v : View) (hsz : v.img.bytes.size < 4294967296) (va : Nat) :
    importFromVa v va = specImport v va :=
  import_eq_spec v hsz va

/-- the name of a decoded import is what `CStrAnswer` prescribes at RVA + 2 -/
theorem C09_decode_name_spec (v : View) (rva : Nat) : CStrAnswer v rva (specCStr v rva) :=
  specCStr_answer v rva

/-- by ordinal: no read at all, the low 16 bits (no buffer bound needed) -/
theorem C09_decode_ordinal (v : View) (va : Nat) (h : isOrdinal v.fmt va = true) :
    importFromVa v va = .ok (.byOrdinal (va % 65536)) := by
  unfold importFromVa
  have : ¬ (va &&& ordinalFlag v.fmt = 0) := by
    intro h0
    rw [(flag_test _ _).1 h0] at h
    cases h
  rw [if_neg this]
  rfl

/-- **ByOrdinal iff the top bit of ITS width is set.** -/
theorem C09_decode_ordinal_iff (v : View) (hsz : v.img.bytes.size < 4294967296) (va : Nat) :
    (∃ o, importFromVa v va = .ok (.byOrdinal o)) ↔ isOrdinal v.fmt va = true := by
  constructor
  · rintro ⟨o, h⟩
    cases hb : isOrdinal v.fmt va with
    | true => rfl
    | false =>
      exfalso
      rw [C09_decode v hsz va] at h
      unfold specImport decodeThunk at h
      rw [hb] at h
      simp only [Bool.false_eq_true, if_false] at h
      cases h1 : v.at (.rva (va % 4294967296)) 2 2 with
      | ok w =>
        rw [h1] at h; dsimp only at h
        cases h2 : specCStr v (va % 4294967296 + 2) <;> rw [h2] at h <;> cases h
      | _ => rw [h1] at h; cases h
  · intro h
    exact ⟨_, C09_decode_ordinal v va h⟩

/-- by name, spelled out: hint = little-endian u16 at the RVA (2-aligned), name = C string at RVA + 2 -/
theorem C09_decode_by_name (v : View) (hsz : v.img.bytes.size < 4294967296) (va : Nat)
    (hno : isOrdinal v.fmt va = false) :
    (∀ e, v.at (.rva (va % 4294967296)) 2 2 = .err e → importFromVa v va = .err e) ∧
    (∀ h, v.at (.rva (va % 4294967296)) 2 2 = .ok h →
      (∀ e, specCStr v (va % 4294967296 + 2) = .err e → importFromVa v va = .err e) ∧
      (∀ nm, specCStr v (va % 4294967296 + 2) = .ok nm →
        importFromVa v va = .ok (.byName (le16 v.b h.off) nm))) := by
  rw [C09_decode v hsz va]
  unfold specImport decodeThunk
  rw [hno]
  simp only [Bool.false_eq_true, if_false]
  refine ⟨?_, ?_⟩
  · intro e h; rw [h]
  · intro h hh
    rw [hh]
    dsimp only
    refine ⟨?_, ?_⟩ <;> intro x hx <;> rw [hx]

/-- the flag is bit 31 of a 32-bit thunk and bit 63 of a 64-bit thunk -/
theorem C09_ordinal_flag_width (va : Nat) :
    (va < 4294967296 → (isOrdinal .pe32 va = true ↔ 2147483648 ≤ va)) ∧
    (va < 18446744073709551616 → (isOrdinal .pe64 va = true ↔ 9223372036854775808 ≤ va)) := by
  refine ⟨?_, ?_⟩
  · intro h
    show Nat.testBit va 31 = true ↔ _
    rw [Nat.testBit_eq_decide_div_mod_eq]
    simp only [decide_eq_true_eq, Nat.reducePow]
    omega
  · intro h
    show Nat.testBit va 63 = true ↔ _
    rw [Nat.testBit_eq_decide_div_mod_eq]
    simp only [decide_eq_true_eq, Nat.reducePow]
    omega

/-- a conforming by-name thunk (only the 31 RVA bits set) is its own RVA in both formats -/
theorem C09_conforming_name (f : Fmt) (va : Nat) (h : ConformingName va) : decodeThunk f va = .hintName va := by
  unfold ConformingName at h
  have hb : isOrdinal f va = false := by
    cases f
    · show Nat.testBit va 31 = false
      rw [Nat.testBit_eq_decide_div_mod_eq]
      simp only [decide_eq_false_iff_not, Nat.reducePow]
      omega
    · show Nat.testBit va 63 = false
      rw [Nat.testBit_eq_decide_div_mod_eq]
      simp only [decide_eq_false_iff_not, Nat.reducePow]
      omega
  unfold decodeThunk
  rw [hb]
  simp only [Bool.false_eq_true, if_false]
  rw [Nat.mod_eq_of_lt (by omega)]

/-- the flag of the *other* width is not a flag: `0x80000007` is ordinal 7 as a 32-bit thunk and a
by-name thunk (RVA 0x80000007) as a 64-bit thunk; the ordinal keeps only 16 bits -/
theorem C09_decode_widths :
    decodeThunk .pe32 0x80000007 = .ordinal 7 ∧ decodeThunk .pe64 0x80000007 = .hintName 0x80000007 ∧
    decodeThunk .pe64 0x8000000000010005 = .ordinal 5 ∧ decodeThunk .pe32 0x7FFFFFFF = .hintName 0x7FFFFFFF := by
  decide

/-- finding (mirrored): bits 32..62 of a PE32+ by-name thunk are dropped by `va as Rva` -/
theorem C09_decode_high_bits_ignored : decodeThunk .pe64 0x100002000 = .hintName 0x2000 := by
  decide

/-! ### 4. the image-wide IAT -/

/-- **Exactly ⌊Size / pointer size⌋ entries.** With data directory 12 = `(rva, size)` the IAT is the
`n = size / ptrSize` thunks at the RVA — all of them inside the window or the slice's error, never
fewer — handed out as `n` naturally aligned element references. When `size` is not a multiple of the
pointer size the trailing `size % ptrSize` bytes are ignored (the code says so in a comment). -/
theorem C09_iat_directory (v : View) (rva size : Nat) (hd : v.dataDir 12 = some (rva, size)) :
    let sz := vaSize v.fmt
    let n := size / sz
    (∀ e, v.at (.rva rva) (n * sz) sz = .err e → iatTryFrom v = .err e) ∧
    (∀ w, v.at (.rva rva) (n * sz) sz = .ok w →
      iatTryFrom v = .ok ⟨w.off, n * sz, sz⟩ ∧ n * sz ≤ w.len ∧
      thunkRefs v.fmt ⟨w.off, n * sz, sz⟩ = (List.range n).map (fun i => ⟨w.off + sz * i, sz, sz⟩) ∧
      (thunkRefs v.fmt ⟨w.off, n * sz, sz⟩).length = n) ∧
    n * sz = size - size % sz := by
  intro sz n
  have hd' : v.dataDir dirIAT = some (rva, size) := hd
  refine ⟨?_, ?_, ?_⟩
  · intro e h
    rw [iat_eq_spec]; unfold specIat; rw [hd']; dsimp only
    rw [h]
  · intro w h
    refine ⟨?_, (at_rva_sound v h).2.1, (C09_thunk_refs v.fmt w.off n).1, (C09_thunk_refs v.fmt w.off n).2⟩
    rw [iat_eq_spec]; unfold specIat; rw [hd']; dsimp only
    rw [h]
  · have := Nat.div_add_mod size sz
    have e : n * sz = sz * (size / sz) := Nat.mul_comm _ _
    omega

/-- every IAT entry is decoded by the same function as the name-table thunks (`C09_decode`) -/
theorem C09_iat_entries (v : View) (image : Ref) :
    iatIter v image = (thunkRefs v.fmt image).map (fun t => (t, importFromVa v (thunkVal v t))) ∧
    (iatIter v image).length = image.len / vaSize v.fmt := by
  refine ⟨rfl, ?_⟩
  unfold iatIter thunkRefs
  simp

/-! ### 5. absent directories -/

/-- **Directory RVA 0 ⇒ `Null`**, for the import directory and for the IAT, whatever the Size field says. -/
theorem C09_null_dir (v : View) (sz : Nat) :
    (v.dataDir 1 = some (0, sz) → tryFrom v = .err .null) ∧
    (v.dataDir 12 = some (0, sz) → iatTryFrom v = .err .null) := by
  refine ⟨?_, ?_⟩
  · intro hd
    have hd' : v.dataDir dirImport = some (0, sz) := hd
    rw [tryFrom_eq_spec]; unfold specTryFrom; rw [hd']; dsimp only
    rw [(C05_null v 0 4).1]
  · intro hd
    have hd' : v.dataDir dirIAT = some (0, sz) := hd
    rw [iat_eq_spec]; unfold specIat; rw [hd']; dsimp only
    rw [(C05_null v _ _).1]

/-- **No data-directory entry ⇒ `Null`**: "an image without the directory reports the null error" also
holds for images whose data-directory array is too short to contain the entry (`NumberOfRvaAndSizes ≤ 1`
resp. `≤ 12`): the import directory resp. the IAT is absent and the answer is `Null` — as for a zero
RVA (`C09_null_dir`), never `Bounds`, never an empty or bogus table. -/
theorem C09_missing_entry_null (v : View) :
    (v.dataDir 1 = none → tryFrom v = .err .null) ∧
    (v.dataDir 12 = none → iatTryFrom v = .err .null) := by
  refine ⟨?_, ?_⟩
  · intro hd
    have hd' : v.dataDir dirImport = none := hd
    unfold tryFrom; rw [hd']
  · intro hd
    have hd' : v.dataDir dirIAT = none := hd
    unfold iatTryFrom; rw [hd']

/-! ### 6. C01 / C02 / C03 obligations of this module -/

/-- **Every reference handed out lies inside the buffer and is aligned for its type**: the descriptor
array and each descriptor (4), DLL names and import names (1), thunk arrays and each thunk (4 / 8),
the IAT array and each of its entries. -/
theorem C09_refs_ok (v : View) :
    (∀ image, tryFrom v = .ok image → RefOK v.img image ∧ ∀ d ∈ descs image, RefOK v.img d) ∧
    (∀ d r, dllName v d = .ok r → RefOK v.img r) ∧
    (∀ d s, iatSlice v d = .ok s → RefOK v.img s ∧ ∀ t ∈ thunkRefs v.fmt s, RefOK v.img t) ∧
    (∀ d s, intSlice v d = .ok s → RefOK v.img s ∧ ∀ t ∈ thunkRefs v.fmt s, RefOK v.img t) ∧
    (∀ va h nm, importFromVa v va = .ok (.byName h nm) → RefOK v.img nm) ∧
    (∀ image, iatTryFrom v = .ok image → RefOK v.img image ∧ ∀ t ∈ thunkRefs v.fmt image, RefOK v.img t) := by
  refine ⟨?_, ?_, ?_, ?_, ?_, ?_⟩
  · intro image h
    rw [tryFrom_eq_spec] at h
    obtain ⟨rva, sz, w, n, _, hat, hn, rfl⟩ := specTryFrom_ok h
    obtain ⟨⟨h1, h2⟩, _, hal⟩ := at_rva_sound v hat
    have hf := hn.fits
    rw [hal] at h2
    have hok : RefOK v.img ⟨w.off, n * 20, 4⟩ := ⟨by show w.off + n * 20 ≤ _; omega, h2⟩
    exact ⟨hok, descs_ok hok rfl⟩
  · intro d r h
    exact cstr_refok h
  · intro d s h
    obtain ⟨hok, hal⟩ := thunks_refok h
    exact ⟨hok, thunkRefs_ok hok hal⟩
  · intro d s h
    obtain ⟨hok, hal⟩ := thunks_refok h
    exact ⟨hok, thunkRefs_ok hok hal⟩
  · intro va h nm hi
    exact import_name_refok hi
  · intro image h
    rw [iat_eq_spec] at h
    obtain ⟨rva, size, w, _, hat, rfl⟩ := specIat_ok h
    obtain ⟨⟨h1, h2⟩, hm, hal⟩ := at_rva_sound v hat
    rw [hal] at h2
    have hok : RefOK v.img ⟨w.off, size / vaSize v.fmt * vaSize v.fmt, vaSize v.fmt⟩ :=
      ⟨by show w.off + size / vaSize v.fmt * vaSize v.fmt ≤ _; omega, h2⟩
    exact ⟨hok, thunkRefs_ok hok rfl⟩

/-- for a constructed view the data-directory entries read by `try_from` lie inside the validated,
dword-aligned data-directory array of the header (C07) -/
theorem C09_datadir_in_header (f : Fmt) (k : Kind) (img : Img) (v : View) (hv : fromBytes f k img = .ok v)
    (i : Nat) (p : Nat × Nat) (h : v.dataDir i = some p) :
    RefOK img v.dataDirectory ∧ 8 * i + 8 ≤ v.dataDirectory.len := by
  have hr := (C07_header_refs_ok f k img v hv).2.2.2.2.2.1
  refine ⟨hr, ?_⟩
  unfold View.dataDir at h
  split at h
  · show 8 * i + 8 ≤ 8 * numDataDirs v.fmt v.b
    omega
  · cases h

/-- **No panic, no unchecked out-of-bounds or misaligned access, no divergence, for any image bytes**:
the directory, the IAT and every per-descriptor table lookup return a value or one of the library's
errors — for every `View`, without any bound. -/
theorem C09_total (v : View) :
    OkOrErr (tryFrom v) ∧ OkOrErr (iatTryFrom v) ∧
    (∀ d, OkOrErr (dllName v d) ∧ OkOrErr (iatSlice v d) ∧ OkOrErr (intSlice v d) ∧
      OkOrErr (iat v d) ∧ OkOrErr (int v d)) := by
  refine ⟨?_, ?_, ?_⟩
  · rw [tryFrom_eq_spec]; exact specTryFrom_okOrErr v
  · rw [iat_eq_spec]; exact specIat_okOrErr v
  · intro d
    have h1 : OkOrErr (iatSlice v d) := by unfold iatSlice; rw [thunks_eq_spec]; exact specThunks_okOrErr v _
    have h2 : OkOrErr (intSlice v d) := by unfold intSlice; rw [thunks_eq_spec]; exact specThunks_okOrErr v _
    refine ⟨?_, h1, h2, ?_, ?_⟩
    · unfold dllName; rw [cstr_eq_spec]; exact specCStr_okOrErr v _
    · unfold iat; exact okOrErr_bind h1 (fun _ _ => .inl ⟨_, rfl⟩)
    · unfold int; exact okOrErr_bind h2 (fun _ _ => .inl ⟨_, rfl⟩)

/-- … and so does the decoding of every thunk value (the items of `int`, the entries of the IAT),
for buffers shorter than 4 GiB (the global model bound): then the `rva + 2` of `import_from_va`
cannot overflow once the hint has been read (`hint_ok_bound`). -/
theorem C09_total_decode (v : View) (hsz : v.img.bytes.size < 4294967296) (va : Nat) :
    OkOrErr (importFromVa v va) := by
  rw [import_eq_spec v hsz]; exact specImport_okOrErr v va

/-- The bound is needed: over a mapped PE32+ image of 4 GiB or more the by-name thunk `0xFFFFFFFE`
reads its hint successfully and then `rva + 2` overflows `u32` — a panic of the checked build
(outside the model's global "buffers < 4 GiB" assumption; recorded for the report). -/
theorem C09_rva_plus_2_needs_bound (v : View) (hk : v.kind = .view) (hf : v.fmt = .pe64)
    (hsz : 4294967296 ≤ v.img.bytes.size) (hal : v.img.base % 2 = 0) :
    importFromVa v 0xFFFFFFFE = .panic "import_from_va:rva+2" := by
  have hat : v.at (.rva (0xFFFFFFFE % 4294967296)) 2 2 =
      .ok ⟨0xFFFFFFFE, v.img.bytes.size - 0xFFFFFFFE, 2⟩ :=
    (C05_view_slice_iff v hk _ 2 2 _).2 ⟨by decide, by decide, by omega, by omega, by omega, rfl⟩
  unfold importFromVa
  rw [hf, if_pos (by decide)]
  unfold View.derva
  dsimp only
  rw [hat]
  rfl

/-- the loops terminate with the fuel the model gives them (never `diverge`), stated on the scans -/
theorem C09_scans_terminate (v : View) (d : Ref) :
    tryFrom v ≠ .diverge ∧ iatSlice v d ≠ .diverge ∧ intSlice v d ≠ .diverge := by
  have ne : ∀ {α} {o : Out α}, OkOrErr o → o ≠ .diverge := by
    intro α o h hd
    obtain ⟨_, h⟩ | ⟨_, h⟩ := h <;> rw [hd] at h <;> cases h
  refine ⟨ne ?_, ne ?_, ne ?_⟩
  · rw [tryFrom_eq_spec]; exact specTryFrom_okOrErr v
  · unfold iatSlice; rw [thunks_eq_spec]; exact specThunks_okOrErr v _
  · unfold intSlice; rw [thunks_eq_spec]; exact specThunks_okOrErr v _

/-- the model computes what the executable specification (the driver's `spec=` answer) computes -/
theorem C09_model_eq_spec (v : View) (hsz : v.img.bytes.size < 4294967296) :
    tryFrom v = specTryFrom v ∧ iatTryFrom v = specIat v ∧
    (∀ d, dllName v d = specCStr v (Desc.name v d) ∧ iatSlice v d = specThunks v (Desc.ft v d) ∧
      intSlice v d = specThunks v (Desc.oft v d)) ∧
    (∀ va, importFromVa v va = specImport v va) :=
  ⟨tryFrom_eq_spec v, iat_eq_spec v,
   fun d => ⟨cstr_eq_spec v _, thunks_eq_spec v _, thunks_eq_spec v _⟩,
   fun va => import_eq_spec v hsz va⟩

/-! ### non-vacuity: a 364-byte PE32 image (mapped), 13 data directories, no sections -/

/-- headers (288 bytes), then at 288 one descriptor {OFT 328, Name 358, FT 340} and the terminator,
at 328 the name table {352, 0x80000007, 0}, at 340 the address table (same), at 352 hint 5 "Fn\0",
at 358 "k.dll\0"; data directory 1 = (288, 40), data directory 12 = (340, 13) -/
def demoBytes : Bytes :=
  #[77, 90, 0, 0, 0, 0, 0, 0, 0, 0, 0, 0, 0, 0, 0, 0, 0, 0, 0, 0, 0, 0, 0, 0, 0, 0, 0, 0, 0, 0, 0, 0,
    0, 0, 0, 0, 0, 0, 0, 0, 0, 0, 0, 0, 0, 0, 0, 0, 0, 0, 0, 0, 0, 0, 0, 0, 0, 0, 0, 0, 64, 0, 0, 0, 80,
    69, 0, 0, 76, 1, 0, 0, 0, 0, 0, 95, 0, 0, 0, 0, 0, 0, 0, 0, 200, 0, 2, 33, 11, 1, 14, 0, 0, 2, 0, 0,
    0, 2, 0, 0, 0, 0, 0, 0, 0, 16, 0, 0, 0, 16, 0, 0, 0, 32, 0, 0, 0, 0, 64, 0, 0, 16, 0, 0, 0, 2, 0, 0,
    6, 0, 0, 0, 0, 0, 0, 0, 6, 0, 0, 0, 0, 0, 0, 0, 108, 1, 0, 0, 32, 1, 0, 0, 0, 0, 0, 0, 3, 0, 64,
    129, 0, 0, 16, 0, 0, 16, 0, 0, 0, 0, 16, 0, 0, 16, 0, 0, 0, 0, 0, 0, 13, 0, 0, 0, 0, 0, 0, 0, 0, 0,
    0, 0, 32, 1, 0, 0, 40, 0, 0, 0, 0, 0, 0, 0, 0, 0, 0, 0, 0, 0, 0, 0, 0, 0, 0, 0, 0, 0, 0, 0, 0, 0, 0,
    0, 0, 0, 0, 0, 0, 0, 0, 0, 0, 0, 0, 0, 0, 0, 0, 0, 0, 0, 0, 0, 0, 0, 0, 0, 0, 0, 0, 0, 0, 0, 0, 0,
    0, 0, 0, 0, 0, 0, 0, 0, 0, 0, 0, 0, 0, 0, 0, 0, 0, 0, 0, 0, 0, 0, 0, 0, 84, 1, 0, 0, 13, 0, 0, 0,
    72, 1, 0, 0, 0, 0, 0, 0, 0, 0, 0, 0, 102, 1, 0, 0, 84, 1, 0, 0, 0, 0, 0, 0, 0, 0, 0, 0, 0, 0, 0, 0,
    0, 0, 0, 0, 0, 0, 0, 0, 96, 1, 0, 0, 7, 0, 0, 128, 0, 0, 0, 0, 96, 1, 0, 0, 7, 0, 0, 128, 0, 0, 0,
    0, 5, 0, 70, 110, 0, 0, 107, 46, 100, 108, 108, 0]

def demoView : View := ⟨⟨demoBytes, 0⟩, .pe32, .view, 0x400000⟩
def demoDesc : Ref := ⟨288, 20, 4⟩

/-- the image is accepted, holds a one-descriptor directory in the sense of both readings, and every
operation answers as the theorems say (by name + by ordinal, IAT Size 13 → 3 entries) -/
example :
    fromBytes .pe32 .view ⟨demoBytes, 0⟩ = .ok demoView ∧
    demoView.dataDir 1 = some (288, 40) ∧ demoView.at (.rva 288) 0 4 = .ok ⟨288, 76, 4⟩ ∧
    tryFrom demoView = .ok ⟨288, 20, 4⟩ ∧ descs ⟨288, 20, 4⟩ = [demoDesc] ∧
    dllName demoView demoDesc = .ok ⟨358, 6, 1⟩ ∧
    intSlice demoView demoDesc = .ok ⟨328, 8, 4⟩ ∧ iatSlice demoView demoDesc = .ok ⟨340, 8, 4⟩ ∧
    int demoView demoDesc = .ok [.ok (.byName 5 ⟨354, 3, 1⟩), .ok (.byOrdinal 7)] ∧
    iat demoView demoDesc = .ok [⟨340, 4, 4⟩, ⟨344, 4, 4⟩] ∧
    demoView.dataDir 12 = some (340, 13) ∧ iatTryFrom demoView = .ok ⟨340, 12, 4⟩ ∧
    iatIter demoView ⟨340, 12, 4⟩ = [(⟨340, 4, 4⟩, .ok (.byName 5 ⟨354, 3, 1⟩)),
      (⟨344, 4, 4⟩, .ok (.byOrdinal 7)), (⟨348, 4, 4⟩, .err .null)] := by
  refine ⟨(fromBytes_ok_iff _ _ _ _).2 ⟨by decide +kernel,
    by rw [show imageBaseField .pe32 demoBytes = 0x400000 by decide +kernel]; rfl⟩, ?_⟩
  decide +kernel

example : IsImportDir demoBytes 288 76 1 ∧ IsImportDirZ demoBytes 288 76 1 ∧
    IsThunkTable demoBytes 328 36 4 2 ∧ IsCStr demoBytes 358 6 5 := by
  refine ⟨⟨by decide, ?_, by decide +kernel⟩, ⟨by decide, ?_, by decide +kernel⟩, ⟨by decide, ?_, by decide +kernel⟩,
    ⟨by decide, ?_, by decide +kernel⟩⟩
  · intro i hi; have : i = 0 := by omega
    subst this; decide +kernel
  · intro i hi; have : i = 0 := by omega
    subst this; decide +kernel
  · intro i hi
    have : i = 0 ∨ i = 1 := by omega
    rcases this with rfl | rfl <;> decide +kernel
  · intro i hi
    have : i = 0 ∨ i = 1 ∨ i = 2 ∨ i = 3 ∨ i = 4 := by omega
    rcases this with rfl | rfl | rfl | rfl | rfl <;> decide +kernel

/-- The hypotheses of `C09_missing_entry_null` are satisfiable: the same image with
`NumberOfRvaAndSizes` patched to 1 is still accepted, has neither an import nor an IAT entry in its
data-directory array, and `imports()` / `iat()` answer `Null`. -/
example :
    let img : Img := ⟨demoBytes.setIfInBounds 180 1, 0⟩
    ∃ v, fromBytes .pe32 .view img = .ok v ∧ v.dataDir 1 = none ∧ v.dataDir 12 = none ∧
      tryFrom v = .err .null ∧ iatTryFrom v = .err .null := by
  intro img
  refine ⟨⟨img, .pe32, .view, 0x400000⟩, (fromBytes_ok_iff _ _ _ _).2 ⟨by decide +kernel,
    by rw [show imageBaseField .pe32 img.bytes = 0x400000 by decide +kernel]⟩, ?_⟩
  decide +kernel

/-! ### non-vacuity of `C09_terminator_readings`: a well-formed directory of two DLLs -/

/-- a 400-byte PE32 image (mapped): the headers of `demoBytes` with SizeOfImage 400, data directory 1 =
(288, 60), data directory 12 = (360, 20); at 288 descriptor 0 {OFT 348, Name 386 "k.dll", FT 360}, at 308
descriptor 1 {OFT 0 (no name table), Name 392 "u.dll", FT 372}, at 328 the all-zero terminator; at 348 the
name table {380, 0x80000007, 0}, at 360 / 372 the address tables {380, 0x80000007, 0} / {0x80000009, 0},
at 380 hint 5 "Fn", then the two DLL names.  The real `pelite` answers the same two descriptors
(`imports v32 dump` on these bytes). -/
def twoDllBytes : Bytes :=
  #[77, 90, 0, 0, 0, 0, 0, 0, 0, 0, 0, 0, 0, 0, 0, 0, 0, 0, 0, 0, 0, 0, 0, 0, 0, 0, 0, 0, 0, 0, 0, 0,
    0, 0, 0, 0, 0, 0, 0, 0, 0, 0, 0, 0, 0, 0, 0, 0, 0, 0, 0, 0, 0, 0, 0, 0, 0, 0, 0, 0, 64, 0, 0, 0,
    80, 69, 0, 0, 76, 1, 0, 0, 0, 0, 0, 95, 0, 0, 0, 0, 0, 0, 0, 0, 200, 0, 2, 33, 11, 1, 14, 0, 0, 2,
    0, 0, 0, 2, 0, 0, 0, 0, 0, 0, 0, 16, 0, 0, 0, 16, 0, 0, 0, 32, 0, 0, 0, 0, 64, 0, 0, 16, 0, 0, 0,
    2, 0, 0, 6, 0, 0, 0, 0, 0, 0, 0, 6, 0, 0, 0, 0, 0, 0, 0, 144, 1, 0, 0, 32, 1, 0, 0, 0, 0, 0, 0, 3,
    0, 64, 129, 0, 0, 16, 0, 0, 16, 0, 0, 0, 0, 16, 0, 0, 16, 0, 0, 0, 0, 0, 0, 13, 0, 0, 0, 0, 0, 0,
    0, 0, 0, 0, 0, 32, 1, 0, 0, 60, 0, 0, 0, 0, 0, 0, 0, 0, 0, 0, 0, 0, 0, 0, 0, 0, 0, 0, 0, 0, 0, 0,
    0, 0, 0, 0, 0, 0, 0, 0, 0, 0, 0, 0, 0, 0, 0, 0, 0, 0, 0, 0, 0, 0, 0, 0, 0, 0, 0, 0, 0, 0, 0, 0, 0,
    0, 0, 0, 0, 0, 0, 0, 0, 0, 0, 0, 0, 0, 0, 0, 0, 0, 0, 0, 0, 0, 0, 0, 0, 0, 0, 0, 0, 104, 1, 0, 0,
    20, 0, 0, 0, 92, 1, 0, 0, 0, 0, 0, 0, 0, 0, 0, 0, 130, 1, 0, 0, 104, 1, 0, 0, 0, 0, 0, 0, 0, 0, 0,
    0, 0, 0, 0, 0, 136, 1, 0, 0, 116, 1, 0, 0, 0, 0, 0, 0, 0, 0, 0, 0, 0, 0, 0, 0, 0, 0, 0, 0, 0, 0, 0,
    0, 124, 1, 0, 0, 7, 0, 0, 128, 0, 0, 0, 0, 124, 1, 0, 0, 7, 0, 0, 128, 0, 0, 0, 0, 9, 0, 0, 128, 0,
    0, 0, 0, 5, 0, 70, 110, 0, 0, 107, 46, 100, 108, 108, 0, 117, 46, 100, 108, 108, 0, 0, 0]

def twoDllView : View := ⟨⟨twoDllBytes, 0⟩, .pe32, .view, 0x400000⟩

/-- `WellFormedDir` holds on the window of its import directory (the 112 bytes from 288 to the end of
the image: five records fit, only the third has `FirstThunk = 0`, and it is all zero) -/
example : WellFormedDir twoDllBytes 288 112 := by decide +kernel

/-- … so `C09_terminator_readings` applies: the window is a two-descriptor directory under the code's
reading, hence under the all-zero reading, and under either reading the count 2 is the only one. -/
theorem C09_two_dll_readings :
    IsImportDir twoDllBytes 288 112 2 ∧ IsImportDirZ twoDllBytes 288 112 2 ∧
    (∀ n, IsImportDirZ twoDllBytes 288 112 n → n = 2) := by
  have hwf : WellFormedDir twoDllBytes 288 112 := by decide +kernel
  have h2 : IsImportDir twoDllBytes 288 112 2 := by decide +kernel
  refine ⟨h2, (C09_terminator_readings _ _ _ hwf 2).1 h2, ?_⟩
  intro n hn
  exact C09_directory_unique _ _ _ _ _ ((C09_terminator_readings _ _ _ hwf n).2 hn) h2

/-- the image is accepted, the window is the one used above, and `imports()` answers the two
descriptors with their names and tables (descriptor 1 has no name table: `Null`) -/
example :
    fromBytes .pe32 .view ⟨twoDllBytes, 0⟩ = .ok twoDllView ∧
    twoDllView.dataDir 1 = some (288, 60) ∧ twoDllView.at (.rva 288) 0 4 = .ok ⟨288, 112, 4⟩ ∧
    tryFrom twoDllView = .ok ⟨288, 40, 4⟩ ∧ descs ⟨288, 40, 4⟩ = [⟨288, 20, 4⟩, ⟨308, 20, 4⟩] ∧
    dllName twoDllView ⟨288, 20, 4⟩ = .ok ⟨386, 6, 1⟩ ∧ dllName twoDllView ⟨308, 20, 4⟩ = .ok ⟨392, 6, 1⟩ ∧
    int twoDllView ⟨288, 20, 4⟩ = .ok [.ok (.byName 5 ⟨382, 3, 1⟩), .ok (.byOrdinal 7)] ∧
    int twoDllView ⟨308, 20, 4⟩ = .err .null ∧
    iat twoDllView ⟨308, 20, 4⟩ = .ok [⟨372, 4, 4⟩] := by
  refine ⟨(fromBytes_ok_iff _ _ _ _).2 ⟨by decide +kernel,
    by rw [show imageBaseField .pe32 twoDllBytes = 0x400000 by decide +kernel]; rfl⟩, ?_⟩
  decide +kernel

/-- `C09_directory_exact` / `C09_iter_exact` instantiated on it: the answer of `imports()` is forced by
the layout relation -/
example : ∃ image, tryFrom twoDllView = .ok image ∧ (descs image).length = 2 := by
  obtain ⟨image, h1, _, h3, _⟩ := C09_iter_exact twoDllView 288 60 (by decide +kernel) ⟨288, 112, 4⟩
    (by decide +kernel) 2 C09_two_dll_readings.1
  exact ⟨image, h1, h3⟩

end Pelite.Imports
