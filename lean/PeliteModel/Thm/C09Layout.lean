import PeliteModel.Model.Imports
import PeliteModel.Generated.ImageLayout
/-!
C09 — the literal sizes and offsets of `Model/Imports.lean` are the layout of `IMAGE_IMPORT_DESCRIPTOR` in the
*current source* (`Generated/ImageLayout.lean`, rewritten on every check run from `size_of` / `align_of` /
`offset_of!` of the structs of `src/image.rs`).

Not tied (no struct of `image.rs` behind them):
* the thunk width `vaSize f` = `size_of::<Va>()` — `Va` is the type alias `u32` / `u64` of `pe32/image.rs` /
  `pe64/image.rs`, not a struct.  What the table does contain are the `Va`-typed fields of
  `IMAGE_TLS_DIRECTORY32/64`; `C09_model_va_width` states that the model's thunk width is the width of those.
* `import_from_va` reads an `IMAGE_IMPORT_BY_NAME` as `derva::<u16>(rva)` + `derva_c_str(rva + 2)`: the source has
  no struct for it (the hint is a `u16`, the name follows it), the `2` is `size_of::<u16>()` in the source too.
* the data directory indices 1 / 12 are the constants `IMAGE_DIRECTORY_ENTRY_IMPORT` / `_IAT`.
-/
namespace Pelite.Imports
open Pelite Pelite.Pe Pelite.Generated.Layout

/-- **The named layout constants of the import model are the source's**, and the three fields the model reads
are read there. -/
theorem C09_model_offsets (v : View) (d : Ref) (b : Bytes) (o : Nat) :
    descSize = IMAGE_IMPORT_DESCRIPTOR__size ∧ descAlign = IMAGE_IMPORT_DESCRIPTOR__align ∧
    offOFT = IMAGE_IMPORT_DESCRIPTOR__OriginalFirstThunk ∧ offName = IMAGE_IMPORT_DESCRIPTOR__Name ∧
    offFT = IMAGE_IMPORT_DESCRIPTOR__FirstThunk ∧
    Desc.oft v d = le32 v.b (d.off + IMAGE_IMPORT_DESCRIPTOR__OriginalFirstThunk) ∧
    Desc.name v d = le32 v.b (d.off + IMAGE_IMPORT_DESCRIPTOR__Name) ∧
    Desc.ft v d = le32 v.b (d.off + IMAGE_IMPORT_DESCRIPTOR__FirstThunk) ∧
    -- `IMAGE_IMPORT_DESCRIPTOR::is_null`: the `FirstThunk` field
    isNullAt b o = (le32 b (o + IMAGE_IMPORT_DESCRIPTOR__FirstThunk) == 0) :=
  ⟨rfl, rfl, rfl, rfl, rfl, rfl, rfl, rfl, rfl⟩

/-- the fields read are `u32`s: `Name` ends where `FirstThunk` starts, `FirstThunk` where the struct ends, and
`OriginalFirstThunk` is 4 bytes before `TimeDateStamp` -/
theorem C09_model_field_widths :
    IMAGE_IMPORT_DESCRIPTOR__TimeDateStamp - IMAGE_IMPORT_DESCRIPTOR__OriginalFirstThunk = 4 ∧
    IMAGE_IMPORT_DESCRIPTOR__FirstThunk - IMAGE_IMPORT_DESCRIPTOR__Name = 4 ∧
    IMAGE_IMPORT_DESCRIPTOR__size - IMAGE_IMPORT_DESCRIPTOR__FirstThunk = 4 := by decide

/-- the descriptor array: element `i` of `Imports::image()` is the struct `size_of` bytes after element `i - 1`,
handed out with the struct's size and alignment; the scan steps by the struct's size -/
theorem C09_model_descriptor_stride (image : Ref) :
    descs image = (List.range (image.len / IMAGE_IMPORT_DESCRIPTOR__size)).map (fun i =>
      ⟨image.off + IMAGE_IMPORT_DESCRIPTOR__size * i, IMAGE_IMPORT_DESCRIPTOR__size, IMAGE_IMPORT_DESCRIPTOR__align⟩) :=
  rfl

/-- thunk width: `Va` is not a struct of `image.rs`; the model's width is the width of the `Va`-typed fields the
table does list (`IMAGE_TLS_DIRECTORY32/64::StartAddressOfRawData`), and the ordinal flag is its top bit -/
theorem C09_model_va_width :
    vaSize .pe32 = IMAGE_TLS_DIRECTORY32__EndAddressOfRawData - IMAGE_TLS_DIRECTORY32__StartAddressOfRawData ∧
    vaSize .pe64 = IMAGE_TLS_DIRECTORY64__EndAddressOfRawData - IMAGE_TLS_DIRECTORY64__StartAddressOfRawData ∧
    vaSize .pe32 = 4 ∧ vaSize .pe64 = 8 ∧
    ordinalFlag .pe32 = 2 ^ (8 * vaSize .pe32 - 1) ∧ ordinalFlag .pe64 = 2 ^ (8 * vaSize .pe64 - 1) := by decide

/-- non-vacuity of the tie: the constants are the ones of the 20-byte, 4-aligned descriptor -/
example : IMAGE_IMPORT_DESCRIPTOR__size = 20 ∧ IMAGE_IMPORT_DESCRIPTOR__align = 4 ∧
    IMAGE_IMPORT_DESCRIPTOR__FirstThunk = 16 := by decide

end Pelite.Imports
