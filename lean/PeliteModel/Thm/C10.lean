import PeliteModel.Lemmas.Scan
/-!
C10 — the scanner reports exactly the positions where the pattern matches
(src/pe64/scanner.rs, src/wrap/scanner.rs), and the C02 / C03 obligations of the interpreter.

Model: `Exec.exec` / `Exec.run` (`Exec::exec`, `exec_many`, `Scanner::exec`), `Scan.next`
(`Matches::next` with `setup`, the three strategies, `next_section`), `Scan.scanAll` (repeated
`next` on one save array), `Scan.finds`.  Reference: `Spec/Scan.lean` (`execOK`, `IsCand`,
`specMatches`, `SecWF`, `Hyp`).

All theorems quantify over every image (`Pe.View`: both formats, file and mapped, any section table
unless `SecWF` is asked for), every atom list (not only parser output), every range and save array.
The only size assumption is the global model bound "buffers are below 4 GiB".

Continued in `Thm/C10Pos.lean`: the ghost position `Res.pos` is the observable capture `save[0]`, a scan
writes only below `save_len`, parsed patterns satisfy the pattern half of `Hyp`, a `Hyp` witness on a file
view with two sections and the witness that `SecWF` cannot be dropped; the counter `hits` is bounded by
the progress of `range.start` and its checked `u32` increment cannot overflow (`C10_hits_bounded`,
`C10_hits_no_overflow`).
-/
namespace Pelite.Scan
open Pelite.Pattern Pelite.Exec

/-! ## (a) the interpreter is total: no panic, no UB, bounded recursion -/

/-- `exec` started at any `pc` with fuel `pat.length + 1 - pc` (at least 1) returns normally — for
ARBITRARY atom lists, cursors, masks and save arrays.  The fuel is handed down to nested calls and to
the loop continuation alike, so it bounds the length of the chain of active frames: the Rust
recursion depth is at most `pat.len() + 1`.  (The number of *steps* is not bounded by the pattern
length: `exec_many` re-runs the rest of the pattern once per candidate offset, so the total work is
bounded only by the product of the `Many` limits, each at most the slice length.) -/
theorem C10_exec_total (v : Pe.View) (hsz : v.b.size < 4294967296) (pat : List Atom)
    (fuel : Nat) (st : St) (mask ext : Nat) (hfuel : pat.length + 1 ≤ fuel + st.pc) (h1 : 1 ≤ fuel) :
    ∃ b st', exec (ofView v) pat fuel st mask ext = .ok (b, st') := by
  obtain ⟨⟨b, st'⟩, h⟩ := exec_total (ofView_wf v hsz) pat fuel st mask ext hfuel h1
  exact ⟨b, st', h⟩

/-- why that fuel suffices: every call returns with a `pc` at or beyond its entry `pc`, so the loop
continuation and every nested frame (`Push`, `Case`, each attempt of `Many`) start strictly beyond
the atom that caused them — the entry `pc` strictly increases along the chain of active frames. -/
theorem C10_exec_pc_monotone (S : ScanI) (pat : List Atom) (fuel : Nat) (st : St) (mask ext : Nat)
    (b : Bool) (st' : St) (h : exec S pat fuel st mask ext = .ok (b, st')) : st.pc ≤ st'.pc :=
  exec_pc_mono S pat fuel st mask ext b st' h

/-- `Scanner::exec` never panics (in particular `self.cursor += 1` cannot overflow), never reads
outside the image and terminates, on every view and every atom list. -/
theorem C10_exec_never_fails (v : Pe.View) (hsz : v.b.size < 4294967296) (pat : List Atom)
    (cursor : Nat) (save : Array Nat) :
    ∃ b s, Exec.run (ofView v) pat cursor save = .ok (b, s) :=
  run_total (ofView_wf v hsz) pat cursor save

/-- the same for `impl Scan for &[u8]` (the repository's unit test harness) -/
theorem C10_exec_raw_never_fails (f : Pe.Fmt) (bytes : Bytes) (hsz : bytes.size < 4294967296)
    (pat : List Atom) (cursor : Nat) (save : Array Nat) :
    ∃ b s, Exec.run (ofRaw f bytes) pat cursor save = .ok (b, s) :=
  run_total (ofRaw_wf f bytes hsz) pat cursor save

/-- `self.pc` stays within `pat.len() + 255`: none of the `usize` additions on it can overflow. -/
theorem C10_exec_pc_bounded (S : ScanI) (pat : List Atom) (hok : pat.all Atom.ok = true)
    (fuel : Nat) (st : St) (mask ext : Nat) (b : Bool) (st' : St)
    (h : exec S pat fuel st mask ext = .ok (b, st')) (hpc : st.pc ≤ pat.length + 255) :
    st'.pc ≤ pat.length + 255 :=
  exec_pc_le S pat hok fuel st mask ext b st' h hpc

/-- The model's unbounded integers are the machine's: started on a `u32` cursor and a save array of
`u32`s, the execution hands back a save array of the same length whose slots are `u32`s (and the
cursor is a `u32` throughout, `Lemmas/Exec.lean:exec_inRange`). -/
theorem C10_exec_machine_range (v : Pe.View) (hsz : v.b.size < 4294967296) (pat : List Atom)
    (cursor : Nat) (save s' : Array Nat) (b : Bool) (hc : cursor < 4294967296) (hs : SaveOK save)
    (h : Exec.run (ofView v) pat cursor save = .ok (b, s')) :
    SaveOK s' ∧ s'.size = save.size := by
  unfold Exec.run at h
  split at h <;> try (cases h; done)
  next b' st hex =>
    simp only [Out.ok.injEq, Prod.mk.injEq] at h
    obtain ⟨_, rfl⟩ := h
    have := exec_inRange (ofView_wf v hsz) pat save.size _ _ _ _ _ _ hex ⟨hc, hs, rfl⟩
    exact ⟨this.2.1, this.2.2⟩

/-! ## (b) the prefix lemma -/

/-- If the pattern executes successfully at `c`, the image holds the literal prefix extracted by
`Matches::setup` (the leading `Byte`s, looking through `Save` / `Aligned` / `Nop`, at most
`QS_BUF_LEN`) at `c, c+1, …` — this is what makes the first-byte scan and the quick search complete. -/
theorem C10_prefix (v : Pe.View) (hsz : v.b.size < 4294967296) (pat : List Atom)
    (hok : pat.all Atom.ok = true) (c : Nat) (save s' : Array Nat)
    (h : Exec.run (ofView v) pat c save = .ok (true, s')) :
    ∀ i b, (setup pat)[i]? = some b → (ofView v).read 1 (c + i) = some b :=
  run_prefix (ofView_wf v hsz) pat hok c save s' h

/-! ## (c) the Horspool skip table -/

/-- every entry used lies between 1 and the prefix length (progress, and `cursor + jump` stays in
the window) -/
theorem C10_jumps_bounds (qs : List Nat) (hq : ∀ q ∈ qs, q < 256) (hlen : 1 ≤ qs.length) (b : Nat) (hb : b < 256) :
    1 ≤ (mkJumps qs).getD b 0 ∧ (mkJumps qs).getD b 0 ≤ qs.length :=
  mkJumps_bounds qs hq hlen b hb

/-- `jumps[p[t]] ≤ m - 1 - t` for `t < m - 1`: the table holds `m - 1 - (last index of the byte in
p[0..m-1))`, default `m` -/
theorem C10_jumps_le (qs : List Nat) (hq : ∀ q ∈ qs, q < 256) (t : Nat) (ht : t + 1 < qs.length) :
    (mkJumps qs).getD (qs.getD t 0) 0 ≤ qs.length - 1 - t :=
  mkJumps_le qs hq t ht

/-- **`shift_safe`**: with `b` the last byte of the window at offset `o`, the prefix does not occur
at `o + j` for `0 < j < jumps[b]` — for every prefix, repeated and periodic bytes included.  It
justifies `i += jump` after a rejected window and `range.start = cursor + jump` after a match. -/
theorem C10_shift_safe (bytes : Bytes) (qs : List Nat) (hq : ∀ q ∈ qs, q < 256) (o j : Nat)
    (hj0 : 0 < j) (hj : j < (mkJumps qs).getD (byteAt bytes (o + qs.length - 1)) 0) :
    winEq bytes (o + j) qs = false :=
  shift_safe bytes qs hq o j hj0 hj

/-! ## (d) soundness — every image, every section table, every pattern -/

/-- One call of `Matches::next` returns normally (no panic in the range arithmetic of the three
strategies and of `next_section`, the quick search terminates) and, when it reports a match, that
match is at a position `c` with `range.start ≤ c < range.end`, below the new `range.start`; the
pattern was executed at `c` successfully and the save array handed back is what that execution left.
`range.end` never changes. -/
theorem C10_next_sound (v : Pe.View) (hsz : v.b.size < 4294967296) (pat : List Atom)
    (hok : pat.all Atom.ok = true) (m : MSt) (save : Array Nat) (hstop : m.stop < 4294967296) :
    ∃ r, next v pat m save = .ok r ∧ r.m.stop = m.stop ∧ m.start ≤ r.m.start ∧
      (r.found = true → m.start ≤ r.pos ∧ r.pos < m.stop ∧ r.pos < r.m.start ∧ r.m.start ≤ m.stop ∧
        ∃ s, Exec.run (ofView v) pat r.pos s = .ok (true, r.save)) := by
  obtain ⟨r, hr, hs⟩ := nextWith_sound (interp_total v hsz pat) v (setup pat) (setup_lt pat hok) m save hstop
  refine ⟨r, hr, hs.stop_eq, hs.start_le, fun hf => ?_⟩
  obtain ⟨a1, a2, a3, a4, a5⟩ := hs.found hf
  exact ⟨a1, a3, a2, a4, a5⟩

/-- The whole sequence `while matches.next(&mut save) { … }` (at most `n` calls): every reported
position lies in the range and the pattern executes there with the reported captures; the positions
are strictly ascending; `hi - lo + 1` calls exhaust the iterator. -/
theorem C10_scan_sound (v : Pe.View) (hsz : v.b.size < 4294967296) (pat : List Atom)
    (hok : pat.all Atom.ok = true) (lo hi : Nat) (hhi : hi < 4294967296) (n : Nat) (save : Array Nat) :
    ∃ a, scanAll (next v pat) n (matchesInit lo hi) save = .ok a ∧
      (∀ h ∈ a.hits, lo ≤ h.1 ∧ h.1 < hi ∧ ∃ s, Exec.run (ofView v) pat h.1 s = .ok (true, h.2)) ∧
      (a.hits.map (·.1)).Pairwise (· < ·) ∧
      (hi - lo < n → a.exhausted = true) := by
  obtain ⟨a, ha, _, h2, h3, h4⟩ := scanAll_sound (ex := interp v pat) (nx := next v pat) hi
    (fun m save hm => nextWith_sound (interp_total v hsz pat) v (setup pat) (setup_lt pat hok) m save (by omega))
    n (matchesInit lo hi) save rfl
  exact ⟨a, ha, h2, h3, h4⟩

/-- `matches_code` / `finds_code` are `matches` / `finds` over `headers().code_range()` =
`BaseOfCode .. BaseOfCode.wrapping_add(SizeOfCode)`, whose end is a `u32`: the theorems of this file
apply to them as they are. -/
theorem C10_matches_code_range (v : Pe.View) :
    matchesCodeInit v = matchesInit (Pe.baseOfCode v.b) (wadd32 (Pe.baseOfCode v.b) (Pe.sizeOfCode v.b)) ∧
    (matchesCodeInit v).stop < 4294967296 := by
  refine ⟨rfl, ?_⟩
  show wadd32 _ _ < _
  unfold wadd32; omega

/-! ## (e) completeness — mapped views, and file views with sections sorted by VirtualAddress

The pattern must not read the save array (`noRead`: no `Check`, no `Pir` — atoms the parser never
emits, `Thm/C11Frame.lean:C11_parse_atoms_scannable`): `next` executes the pattern on whatever the previous attempts left in the caller's save
array, so for such atoms "executing the pattern at `c` succeeds" is not a property of `c` alone. -/

/-- For patterns that do not read the save array the outcome of an execution is a function of the
position only: it agrees with the reference predicate `execOK` (execution on an empty save array). -/
theorem C10_exec_save_independent (v : Pe.View) (pat : List Atom) (hnr : pat.all noRead = true)
    (c : Nat) (s s' : Array Nat) (b : Bool) (h : Exec.run (ofView v) pat c s = .ok (b, s')) :
    execOK v pat c = b :=
  execOK_of_run hnr h

/-- … and so are its captures: `next` runs the pattern on whatever earlier attempts left in the save
array, yet (same length, pattern without `Check` / `Pir`) every slot handed back holds the value an
execution on any other array `s2` writes there, or is a slot that execution does not write at all
(`SaveRel`: slot by slot "equal in both, or untouched in both").  With `C10_next_sound` the reported
captures are those of the execution at the reported position, not of stale attempts. -/
theorem C10_captures_independent (v : Pe.View) (pat : List Atom) (hnr : pat.all noRead = true)
    (c : Nat) (s1 s2 t1 : Array Nat) (hsz : s1.size = s2.size) (b : Bool)
    (h : Exec.run (ofView v) pat c s1 = .ok (b, t1)) :
    ∃ t2, Exec.run (ofView v) pat c s2 = .ok (b, t2) ∧ t1.size = t2.size ∧
      ∀ i : Nat, t1[i]? = t2[i]? ∨ (t1[i]? = s1[i]? ∧ t2[i]? = s2[i]?) := by
  obtain ⟨t2, h2, hrel⟩ := run_captures_indep (ofView v) pat hnr c s1 s2 t1 hsz b h
  exact ⟨t2, h2, hrel.1, hrel.2⟩

/-- Which of the three searches runs is decided by the length of the literal prefix alone; the
theorems below hold for all of them. -/
theorem C10_strategy_selection (ex : Interp) (bytes : Bytes) (qs : List Nat) (off len : Nat) (m : MSt) (save : Array Nat) :
    strategy ex bytes qs off len m save =
      if qs.length = 0 then strategy0 ex len m save
      else if qs.length < 4 then strategy1 ex bytes qs off len m save
      else strategy2 ex bytes qs off len m save := rfl

/-- One call of `next` under `Hyp`: every candidate position below the new `range.start` other than
the reported one — every candidate of the remaining range when `false` is returned — is a position
at which the pattern does not execute successfully.  Whichever strategy the prefix selects. -/
theorem C10_next_complete (v : Pe.View) (pat : List Atom) (lo hi : Nat) (h : Hyp v pat lo hi)
    (m : MSt) (save : Array Nat) (hm : m.stop = hi) :
    ∃ r, next v pat m save = .ok r ∧
      (r.found = true → ∀ p, IsCand v (setup pat).length m.start hi p → p < r.m.start → p ≠ r.pos → execOK v pat p = false) ∧
      (r.found = false → ∀ p, IsCand v (setup pat).length m.start hi p → execOK v pat p = false) := by
  obtain ⟨hok, hnr, hsz, _, hhi, hwf⟩ := h
  obtain ⟨r, hr, hs⟩ := nextWith_spec (interp_total v hsz pat) v hsz (setup pat) (setup_lt pat hok) hwf m save (by omega)
  subst hm
  exact ⟨r, hr, fun hf p hc hp1 hp2 => deadV_not_execOK hsz hok hnr hwf (hs.skipped hf p hc hp1 hp2),
    fun hf p hc => deadV_not_execOK hsz hok hnr hwf (hs.notfound hf p hc)⟩

/-- **Completeness.**  Under `Hyp` (mapped view, or file view with a `SecWF` section table; pattern
without `Check` / `Pir`), once `next` has returned `false` every position of the reference list
`specMatches` — every candidate position of the range at which the pattern executes — has been
reported.  With `C10_scan_sound`: it was reported exactly once, in ascending order. -/
theorem C10_scan_complete (v : Pe.View) (pat : List Atom) (lo hi : Nat) (h : Hyp v pat lo hi)
    (n : Nat) (save : Array Nat) (a : All)
    (ha : scanAll (next v pat) n (matchesInit lo hi) save = .ok a) (hex : a.exhausted = true) :
    ∀ p ∈ specMatches v pat lo hi, p ∈ a.hits.map (·.1) := by
  obtain ⟨hok, hnr, hsz, _, hhi, hwf⟩ := h
  intro p hp
  obtain ⟨hc, hE⟩ := (mem_specMatches v pat lo hi p).1 hp
  apply scanAll_complete (ex := interp v pat) (v := v) (qs := setup pat) (nx := next v pat) hi
    (fun m save hm => nextWith_spec (interp_total v hsz pat) v hsz (setup pat) (setup_lt pat hok) hwf m save (by omega))
    n (matchesInit lo hi) save a rfl ha hex p hc
  intro hd
  rw [deadV_not_execOK hsz hok hnr hwf hd] at hE
  cases hE

/-- Soundness and completeness together, against the reference predicate: under `Hyp` the exhausted
scan reports a strictly ascending list of positions of the range at which the pattern executes,
containing every candidate position at which it executes. -/
theorem C10_scan_exact (v : Pe.View) (pat : List Atom) (lo hi : Nat) (h : Hyp v pat lo hi)
    (n : Nat) (hn : hi - lo < n) (save : Array Nat) :
    ∃ a, scanAll (next v pat) n (matchesInit lo hi) save = .ok a ∧ a.exhausted = true ∧
      (a.hits.map (·.1)).Pairwise (· < ·) ∧
      (∀ p ∈ a.hits.map (·.1), lo ≤ p ∧ p < hi ∧ execOK v pat p = true) ∧
      (∀ p ∈ specMatches v pat lo hi, p ∈ a.hits.map (·.1)) := by
  have h' := h
  obtain ⟨hok, hnr, hsz, _, hhi, hwf⟩ := h'
  obtain ⟨a, ha, h1, h2, h3⟩ := C10_scan_sound v hsz pat hok lo hi hhi n save
  refine ⟨a, ha, h3 hn, h2, ?_, C10_scan_complete v pat lo hi h n save a ha (h3 hn)⟩
  intro p hp
  obtain ⟨hh, hmem, rfl⟩ := List.mem_map.1 hp
  obtain ⟨c1, c2, s, hs⟩ := h1 hh hmem
  exact ⟨c1, c2, execOK_of_run hnr hs⟩

/-! ## (f) the unique-match query -/

/-- `finds` returns normally; when it answers `true` the save array holds the captures of an
execution at a position `c` of the range, and `c` is the only candidate position at which the
pattern executes. -/
theorem C10_finds_true (v : Pe.View) (pat : List Atom) (lo hi : Nat) (h : Hyp v pat lo hi) (save : Array Nat) :
    ∃ b s, finds v pat lo hi save = .ok (b, s) ∧
      (b = true → ∃ c, lo ≤ c ∧ c < hi ∧ (∃ s0, Exec.run (ofView v) pat c s0 = .ok (true, s)) ∧
        ∀ p ∈ specMatches v pat lo hi, p = c) := by
  obtain ⟨hok, hnr, hsz, _, hhi, hwf⟩ := h
  obtain ⟨b, s, hf, h1, _⟩ := findsWith_spec (ex := interp v pat) (v := v) (qs := setup pat) (nx := next v pat) hi
    (fun m save hm => nextWith_spec (interp_total v hsz pat) v hsz (setup pat) (setup_lt pat hok) hwf m save (by omega))
    (execOK v pat) (fun p s ⟨s0, hs0⟩ => execOK_of_run hnr hs0)
    (fun p hd => deadV_not_execOK hsz hok hnr hwf hd) (matchesInit lo hi) save rfl
  refine ⟨b, s, hf, fun hb => ?_⟩
  obtain ⟨c, hacc, hsp, huniq⟩ := h1 hb
  refine ⟨c, hsp.1, hsp.2.1, hacc, fun p hp => ?_⟩
  obtain ⟨hc, hE⟩ := (mem_specMatches v pat lo hi p).1 hp
  exact huniq p hc hE

/-- **`finds` succeeds precisely when the scan reports exactly one match.**  For every image (any
section table) and every pattern without `Check` / `Pir`: `finds(pat, lo..hi, save)` answers `true`
exactly when the exhaustive loop `while matches.next(save) { record }` started from the same state
(`scanAll`, with more calls allowed than the range has positions, so it ends by `next` returning
`false`) records exactly one match; the save array `finds` hands back is then the one recorded with
that match: it is what the execution of the pattern at the reported position `c` left, i.e. (by
`C10_captures_independent`) it holds that match's captures on every slot its execution writes.
The grey-zone behaviour of `C10_strategy1_reports_past_range_end` is consistent with this: `finds`
is `false` when the scan reports two matches, whether or not both are candidates. -/
theorem C10_finds_iff_one_reported (v : Pe.View) (hsz : v.b.size < 4294967296) (pat : List Atom)
    (hok : pat.all Atom.ok = true) (hnr : pat.all noRead = true) (lo hi : Nat) (hhi : hi < 4294967296)
    (save : Array Nat) (n : Nat) (hn : hi - lo < n + 2) :
    ∃ b s a, finds v pat lo hi save = .ok (b, s) ∧
      scanAll (next v pat) (n + 2) (matchesInit lo hi) save = .ok a ∧ a.exhausted = true ∧
      (b = true ↔ a.hits.length = 1) ∧
      (b = true → ∃ c, a.hits = [(c, s)] ∧ lo ≤ c ∧ c < hi ∧
        ∃ s0, Exec.run (ofView v) pat c s0 = .ok (true, s)) := by
  have hsound := fun (m : MSt) (save : Array Nat) (hm : m.stop = hi) =>
    nextWith_sound (interp_total v hsz pat) v (setup pat) (setup_lt pat hok) m save (by omega)
  obtain ⟨a, ha, _, h2, _, h4⟩ := scanAll_sound (ex := interp v pat) (nx := next v pat) hi hsound
    (n + 2) (matchesInit lo hi) save rfl
  obtain ⟨b, s, hf, hiff⟩ := findsWith_iff_scanAll (nx := next v pat) hi
    (fun m save hm => by
      obtain ⟨r, hr, hs⟩ := hsound m save hm
      exact ⟨r, hr, by rw [hs.stop_eq, hm]⟩)
    (fun m s1 s2 r1 r2 h1 h2 => nextWith_agree (interp_indep v hsz pat hnr) v (setup pat) m s1 s2 r1 r2 h1 h2)
    (matchesInit lo hi) rfl save n
  obtain ⟨h5, h6⟩ := hiff a ha
  refine ⟨b, s, a, hf, ha, h4 hn, h5, fun hb => ?_⟩
  obtain ⟨c, hc⟩ := h6 hb
  obtain ⟨c1, c2, c3⟩ := h2 (c, s) (by rw [hc]; exact List.mem_cons_self ..)
  exact ⟨c, hc, c1, c2, c3⟩

/-- The statement "`finds` succeeds precisely when exactly one candidate position executes" is
FALSE for the code as written: the first-byte scan (prefixes of 1–3 bytes) also reports matches
whose prefix crosses the end of the range — positions that are not candidates — and such a match
makes `finds` answer `false` although exactly one candidate matches.  Witness: mapped bytes
`00 aa bb 00 aa bb`, pattern `aa bb`, range `0..5`: the reference list is `[1]`, the scan reports
1 and 4, `finds` answers `false`.  (Replay: `finds v32 Byte(170),Byte(187) 0 5 0` on an image with
these bytes in a section; see `C10_strategy1_reports_past_range_end` for the scan.) -/
theorem C10_finds_iff_unique_false :
    ∃ (v : Pe.View) (pat : List Atom) (lo hi : Nat) (save : Array Nat), Hyp v pat lo hi ∧
      (∃ c, ∀ p, p ∈ specMatches v pat lo hi ↔ p = c) ∧ ∃ s, finds v pat lo hi save = .ok (false, s) := by
  refine ⟨⟨⟨#[0, 0xAA, 0xBB, 0, 0xAA, 0xBB], 0⟩, .pe32, .view, 0⟩, [.byte 0xAA, .byte 0xBB], 0, 5, #[], ?_, ⟨1, ?_⟩, #[], ?_⟩
  · decide +kernel
  · have : specMatches ⟨⟨#[0, 0xAA, 0xBB, 0, 0xAA, 0xBB], 0⟩, .pe32, .view, 0⟩ [.byte 0xAA, .byte 0xBB] 0 5 = [1] := by
      decide +kernel
    intro p; rw [this]; simp
  · decide +kernel

/-- The strongest true variant: if no examined position outside the candidates executes
successfully (`hG`: no match in the grey zone — stored bytes of the range that are beyond
VirtualSize or less than a prefix length before the end of the range / section), then `finds`
answers `true` precisely when exactly one candidate position executes, and then (by
`C10_finds_true`) leaves that match's captures in the save array. -/
theorem C10_finds_iff_unique_partial (v : Pe.View) (pat : List Atom) (lo hi : Nat) (h : Hyp v pat lo hi)
    (hG : ∀ c, IsScanPos v lo hi c → execOK v pat c = true → IsCand v (setup pat).length lo hi c)
    (save : Array Nat) :
    ∃ b s, finds v pat lo hi save = .ok (b, s) ∧
      (b = true ↔ ∃ c, ∀ p, p ∈ specMatches v pat lo hi ↔ p = c) := by
  obtain ⟨hok, hnr, hsz, _, hhi, hwf⟩ := h
  obtain ⟨b, s, hf, _, h2⟩ := findsWith_spec (ex := interp v pat) (v := v) (qs := setup pat) (nx := next v pat) hi
    (fun m save hm => nextWith_spec (interp_total v hsz pat) v hsz (setup pat) (setup_lt pat hok) hwf m save (by omega))
    (execOK v pat) (fun p s ⟨s0, hs0⟩ => execOK_of_run hnr hs0)
    (fun p hd => deadV_not_execOK hsz hok hnr hwf hd) (matchesInit lo hi) save rfl
  refine ⟨b, s, hf, ?_⟩
  rw [h2 hG]
  constructor
  · rintro ⟨c, hc⟩; exact ⟨c, fun p => by rw [mem_specMatches]; exact hc p⟩
  · rintro ⟨c, hc⟩; exact ⟨c, fun p => by rw [← mem_specMatches]; exact hc p⟩

/-- Corollary with `C10_scan_exact` / `C10_finds_iff_unique_partial`: under `Hyp`, when no examined
position outside the candidates executes successfully (no grey-zone match), "the scan reports
exactly one match" is "exactly one candidate position executes": the exhausted scan then reports one
match precisely when the reference list has exactly one element — and `finds` answers `true` in
exactly that case. -/
theorem C10_one_reported_iff_one_candidate (v : Pe.View) (pat : List Atom) (lo hi : Nat) (h : Hyp v pat lo hi)
    (hG : ∀ c, IsScanPos v lo hi c → execOK v pat c = true → IsCand v (setup pat).length lo hi c)
    (save : Array Nat) (n : Nat) (hn : hi - lo < n + 2) :
    ∃ b s a, finds v pat lo hi save = .ok (b, s) ∧
      scanAll (next v pat) (n + 2) (matchesInit lo hi) save = .ok a ∧ a.exhausted = true ∧
      (b = true ↔ a.hits.length = 1) ∧
      (a.hits.length = 1 ↔ ∃ c, ∀ p, p ∈ specMatches v pat lo hi ↔ p = c) := by
  have h' := h
  obtain ⟨hok, hnr, hsz, _, hhi, _⟩ := h'
  obtain ⟨b, s, a, hf, ha, hex, h1, _⟩ := C10_finds_iff_one_reported v hsz pat hok hnr lo hi hhi save n hn
  obtain ⟨b', s', hf', h2⟩ := C10_finds_iff_unique_partial v pat lo hi h hG save
  rw [hf] at hf'
  simp only [Out.ok.injEq, Prod.mk.injEq] at hf'
  obtain ⟨rfl, rfl⟩ := hf'
  exact ⟨b, s, a, hf, ha, hex, h1, by rw [← h1, h2]⟩

/-! ## why the candidate positions stop a prefix length before the end

The property restricts completeness to positions "at least a prefix length away from the end of the
range and of its section".  The restriction is necessary for the quick search ("FIXME! Quicksearch
stops too soon") and the strategies disagree beyond it: -/

/-- quick search (prefix ≥ 4 bytes): mapped bytes `00 01 02 03 04 01 02 03 04`, range `0..8`; the
pattern executes at 5 (inside the range) but only 1 is reported -/
theorem C10_quicksearch_stops_before_range_end :
    let v : Pe.View := ⟨⟨#[0, 1, 2, 3, 4, 1, 2, 3, 4], 0⟩, .pe32, .view, 0⟩
    let pat : List Atom := [.byte 1, .byte 2, .byte 3, .byte 4]
    execOK v pat 5 = true ∧
    (scanAll (next v pat) 9 (matchesInit 0 8) #[]).bind (fun a => .ok (a.hits.map (·.1), a.exhausted)) = .ok ([1], true) := by
  decide +kernel

/-- first-byte scan (prefix of 1–3 bytes): the same situation is reported -/
theorem C10_strategy1_reports_past_range_end :
    let v : Pe.View := ⟨⟨#[0, 0xAA, 0xBB, 0, 0xAA, 0xBB], 0⟩, .pe32, .view, 0⟩
    let pat : List Atom := [.byte 0xAA, .byte 0xBB]
    (scanAll (next v pat) 9 (matchesInit 0 5) #[]).bind (fun a => .ok (a.hits.map (·.1), a.exhausted)) = .ok ([1, 4], true) := by
  decide +kernel

/-! ## the hypotheses are satisfiable on non-trivial instances

(for a FILE view with two sections, where `SecWF` is not vacuous, see `Thm/C10Pos.lean`) -/

example : SecWF [⟨0, 0, 0x30, 0x1000, 0x40, 0x200, 0⟩, ⟨0, 0, 0x95, 0x2000, 0x80, 0x240, 0⟩, ⟨0, 0, 0x10, 0x2100, 0x10, 0x2c0, 0⟩] := by
  decide

example : Hyp ⟨⟨#[0, 1, 2, 3, 4, 1, 2, 3, 4], 0⟩, .pe32, .view, 0⟩
    [.save 0, .byte 1, .byte 2, .skip 1, .many 2, .byte 4, .case 1, .byte 1, .brk 0, .readU8 1] 0 9 := by
  decide +kernel

example : specMatches ⟨⟨#[0, 1, 2, 3, 4, 1, 2, 3, 4], 0⟩, .pe32, .view, 0⟩
    [.save 0, .byte 1, .byte 2, .skip 1, .many 2, .byte 4] 0 9 = [1, 5] := by
  decide +kernel

end Pelite.Scan
