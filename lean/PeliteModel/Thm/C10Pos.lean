import PeliteModel.Thm.C10
import PeliteModel.Lemmas.ExecFrame
import PeliteModel.Lemmas.ParseShape
/-!
C10 — additions to `Thm/C10.lean`:

* the *ghost* match position `Res.pos` of the scanner model is observable: it is what a reported
  match leaves in `save[0]` (`C10_pos_is_save0`, `C10_scan_positions_are_save0`) — for every atom list
  that starts with `Save(0)` and does not write slot 0 again, in particular for every pattern that
  comes out of `pattern::parse` (`C10_pos_is_save0_parsed`);
* `next` / a whole scan never change the length of the caller's save array and write only below
  `save_len(pat)` (`C10_next_writes_below_save_len`, `C10_scan_writes_below_save_len`);
* every parsed pattern string satisfies the pattern half of `Hyp` (`C10_hyp_of_parse`,
  `C10_scan_exact_parsed`);
* witnesses: `Hyp` on a FILE view with two sections and a non-empty reference list; `SecWF` cannot be
  dropped from `Hyp` (`C10_scan_complete_needs_SecWF`: the same file with its two section headers in
  descending order of VirtualAddress — a file `PeFile::from_bytes` accepts — loses a match).
-/
namespace Pelite.Scan
open Pelite.Pattern Pelite.Exec

/-! ## the reported position is `save[0]` -/

/-- **`Res.pos` is observable.**  Let the pattern start with `Save(0)` and let no later atom write
slot 0 (`slot0Reserved pat`, decidable).  Then one call of `next` returns normally, hands back a save
array of the length it was given, and — when it reports a match and the caller's array has a slot 0 —
that slot holds the model's ghost position `r.pos`.  So everything `Thm/C10.lean` says about `r.pos` / the positions in `All.hits`
is a statement about the value the Rust caller reads from `save[0]`. -/
theorem C10_pos_is_save0 (v : Pe.View) (hsz : v.b.size < 4294967296) (pat : List Atom)
    (hok : pat.all Atom.ok = true) (hres : slot0Reserved pat = true)
    (m : MSt) (save : Array Nat) (hstop : m.stop < 4294967296) :
    ∃ r, next v pat m save = .ok r ∧ r.save.size = save.size ∧
      (r.found = true → 0 < save.size → r.save[0]? = some r.pos) := by
  obtain ⟨h0, hno⟩ := slot0Reserved_spec hres
  obtain ⟨r, hr, hs⟩ := nextWith_sound (interp_total v hsz pat) v (setup pat) (setup_lt pat hok) m save hstop
  have hfr := next_frame v pat m save r hr
  refine ⟨r, hr, hfr.1, fun hf hpos => ?_⟩
  obtain ⟨_, _, _, _, s, hrun⟩ := hs.found hf
  obtain ⟨h1, h2⟩ := run_first_save (ofView v) pat 0 h0 hno r.pos s r.save true hrun
  exact h2 (by rw [← h1, hfr.1]; exact hpos)

/-- the same for the documented loop `while matches.next(&mut save) { … }`: every recorded pair
`(position, save array)` has the position in slot 0 of the array -/
theorem C10_scan_positions_are_save0 (v : Pe.View) (hsz : v.b.size < 4294967296) (pat : List Atom)
    (hok : pat.all Atom.ok = true) (hres : slot0Reserved pat = true)
    (lo hi : Nat) (hhi : hi < 4294967296) (n : Nat) (save : Array Nat) (hpos : 0 < save.size) :
    ∃ a, scanAll (next v pat) n (matchesInit lo hi) save = .ok a ∧
      ∀ x ∈ a.hits, x.2.size = save.size ∧ x.2[0]? = some x.1 := by
  obtain ⟨h0, hno⟩ := slot0Reserved_spec hres
  obtain ⟨a, ha, _, h2, _, _⟩ := scanAll_sound (ex := interp v pat) (nx := next v pat) hi
    (fun m save hm => nextWith_sound (interp_total v hsz pat) v (setup pat) (setup_lt pat hok) m save (by omega))
    n (matchesInit lo hi) save rfl
  refine ⟨a, ha, fun x hx => ?_⟩
  have hfr := ((scanAll_frame v pat n _ save a ha).2 x hx).1
  obtain ⟨_, _, s, hrun⟩ := h2 x hx
  obtain ⟨h1, h3⟩ := run_first_save (ofView v) pat 0 h0 hno x.1 s x.2 true hrun
  exact ⟨hfr, h3 (by rw [← h1, hfr]; exact hpos)⟩

/-- the hypotheses on a non-trivial instance (nested frames, alternatives, reads; slot 0 named once) -/
example : slot0Reserved [.save 0, .byte 0xe8, .push 4, .jump4, .save 1, .case 3, .byte 0x6a, .readU8 2, .brk 2,
    .nop, .byte 0x68, .pop, .zero 3, .check 0] = true ∧
    slot0Reserved [.save 0, .byte 1, .readU8 0] = false := by decide

/-- **every parsed pattern has that shape**: the parser emits `Save(0)` first and its slot counter
starts at 1 and never returns to 0 (`Thm/C11Frame.lean:C11_parse_slot0_only_first`) -/
theorem C10_parse_slot0_reserved (s : List UInt8) (pat : List Atom) (hp : parse s = .ok pat) :
    slot0Reserved pat = true := by
  have hsh := parse_shape hp
  obtain ⟨tail, hw, ht, hl⟩ := parse_ok_struct hp
  refine slot0Reserved_of (trimmedOK_of hw ht hl).first ?_
  intro j a hj ha hw'
  have := (hsh j a ha).2 0 (slotOf_of_wslot hw') hj
  omega

/-- … so for every pattern string that parses, a reported match leaves its position in `save[0]` — "the first entry in the save array is reserved for the rva where
the pattern was matched" (documentation of `pattern::parse`). -/
theorem C10_pos_is_save0_parsed (s : List UInt8) (pat : List Atom) (hp : parse s = .ok pat)
    (v : Pe.View) (hsz : v.b.size < 4294967296) (m : MSt) (save : Array Nat) (hstop : m.stop < 4294967296) :
    ∃ r, next v pat m save = .ok r ∧ r.save.size = save.size ∧
      (r.found = true → 0 < save.size → r.save[0]? = some r.pos) := by
  have hok : pat.all Atom.ok = true := by
    obtain ⟨tail, hw, ht, hl⟩ := parse_ok_struct hp
    rw [List.all_eq_true]
    intro a ha
    exact ok_of_argOf ((trimmedOK_of hw ht hl).args a ha)
  exact C10_pos_is_save0 v hsz pat hok (C10_parse_slot0_reserved s pat hp) m save hstop

/-! ## what a scan does to the rest of the save array -/

/-- one call of `next`, ANY atom list, any image: the caller's save array keeps its length, and every
index at or beyond `save_len(pat)` keeps its value — whether or not a match is reported, and however
many positions were tried and rejected on the way -/
theorem C10_next_writes_below_save_len (v : Pe.View) (pat : List Atom) (m : MSt) (save : Array Nat) (r : Res)
    (h : next v pat m save = .ok r) :
    r.save.size = save.size ∧ ∀ i : Nat, saveLen pat ≤ i → r.save[i]? = save[i]? := by
  obtain ⟨h1, h2⟩ := next_frame v pat m save r h
  exact ⟨h1, fun i hi => h2 i (not_written_of_saveLen_le hi)⟩

/-- … and a whole scan: every recorded save array and the final one -/
theorem C10_scan_writes_below_save_len (v : Pe.View) (pat : List Atom) (n : Nat) (m : MSt) (save : Array Nat)
    (a : All) (h : scanAll (next v pat) n m save = .ok a) :
    (a.save.size = save.size ∧ ∀ i : Nat, saveLen pat ≤ i → a.save[i]? = save[i]?) ∧
    ∀ x ∈ a.hits, x.2.size = save.size ∧ ∀ i : Nat, saveLen pat ≤ i → x.2[i]? = save[i]? := by
  obtain ⟨h1, h2⟩ := scanAll_frame v pat n m save a h
  exact ⟨⟨h1.1, fun i hi => h1.2 i (not_written_of_saveLen_le hi)⟩,
    fun x hx => ⟨(h2 x hx).1, fun i hi => (h2 x hx).2 i (not_written_of_saveLen_le hi)⟩⟩

/-! ## parsed patterns satisfy the pattern half of `Hyp` -/

/-- For a pattern that came out of `pattern::parse`, `Hyp` is a condition on the image and the range
only: buffer and range bounds below 4 GiB and, for file views, the `SecWF` section table.  No
documented pattern feature is outside the completeness theorems (the five atoms the parser never
emits — `Fuzzy`, `Back`, `Pir`, `VTypeName`, `Check` — are reachable through hand-written atom lists
only; of these `Pir` and `Check` are excluded by `noRead`). -/
theorem C10_hyp_of_parse (s : List UInt8) (pat : List Atom) (hp : parse s = .ok pat) (v : Pe.View) (lo hi : Nat)
    (hsz : v.b.size < 4294967296) (hlo : lo < 4294967296) (hhi : hi < 4294967296)
    (hwf : v.kind = .file → SecWF v.secs) : Hyp v pat lo hi := by
  obtain ⟨tail, hw, ht, hl⟩ := parse_ok_struct hp
  refine ⟨?_, ?_, hsz, hlo, hhi, hwf⟩
  · rw [List.all_eq_true]
    intro a ha
    exact ok_of_argOf ((trimmedOK_of hw ht hl).args a ha)
  · rw [List.all_eq_true]
    intro a ha
    obtain ⟨i, hi⟩ := List.mem_iff_getElem?.mp ha
    exact noRead_of_emitted (parse_shape hp i a hi).1

/-- **C10 for pattern strings.**  For every pattern string that parses, every image below 4 GiB (file
views: `SecWF` section table), every range and every save array with at least one slot: the
exhausted scan reports a strictly ascending list of positions of the range at which the pattern
executes, containing every candidate position at which it executes, and the caller finds each
reported position in `save[0]` of the array recorded with it. -/
theorem C10_scan_exact_parsed (s : List UInt8) (pat : List Atom) (hp : parse s = .ok pat) (v : Pe.View) (lo hi : Nat)
    (hsz : v.b.size < 4294967296) (hlo : lo < 4294967296) (hhi : hi < 4294967296)
    (hwf : v.kind = .file → SecWF v.secs) (n : Nat) (hn : hi - lo < n) (save : Array Nat) (hpos : 0 < save.size) :
    ∃ a, scanAll (next v pat) n (matchesInit lo hi) save = .ok a ∧ a.exhausted = true ∧
      (a.hits.map (·.1)).Pairwise (· < ·) ∧
      (∀ p ∈ a.hits.map (·.1), lo ≤ p ∧ p < hi ∧ execOK v pat p = true) ∧
      (∀ p ∈ specMatches v pat lo hi, p ∈ a.hits.map (·.1)) ∧
      ∀ x ∈ a.hits, x.2.size = save.size ∧ x.2[0]? = some x.1 := by
  have hH := C10_hyp_of_parse s pat hp v lo hi hsz hlo hhi hwf
  obtain ⟨a, ha, h1, h2, h3, h4⟩ := C10_scan_exact v pat lo hi hH n hn save
  obtain ⟨a', ha', h5⟩ := C10_scan_positions_are_save0 v hsz pat hH.1 (C10_parse_slot0_reserved s pat hp)
    lo hi hhi n save hpos
  rw [ha] at ha'
  cases ha'
  exact ⟨a, ha, h1, h2, h3, h4, h5⟩

/-! ## witnesses -/

/-- A PE32 file of 352 bytes with no data directories (`e_lfanew = 0x40`, `NumberOfSections = 2`,
`SizeOfOptionalHeader = 96`, `FileAlignment = 0x20`, `SizeOfHeaders = 0x120`, `SizeOfImage = 0x3000`); section
table at 184: `.text` (VirtualSize 0x20, VirtualAddress 0x1000, SizeOfRawData 0x20, PointerToRawData 0x120),
then `.data` (VirtualSize 0x18, VirtualAddress 0x2000, SizeOfRawData 0x20, PointerToRawData 0x140); raw data:
`aa bb 00 cc` at rva 0x1004, `aa bb 00 dd` at 0x1010, `aa bb 11 cc` at rva 0x2008 -/
def wSortedBytes : Bytes :=
  #[77, 90, 0, 0, 0, 0, 0, 0, 0, 0, 0, 0, 0, 0, 0, 0, 0, 0, 0, 0, 0, 0, 0, 0, 0, 0, 0, 0, 0, 0, 0, 0, 0, 0, 0, 0,
  0, 0, 0, 0, 0, 0, 0, 0, 0, 0, 0, 0, 0, 0, 0, 0, 0, 0, 0, 0, 0, 0, 0, 0, 64, 0, 0, 0, 80, 69, 0, 0, 76, 1, 2,
  0, 0, 0, 0, 95, 0, 0, 0, 0, 0, 0, 0, 0, 96, 0, 2, 33, 11, 1, 14, 0, 32, 0, 0, 0, 0, 2, 0, 0, 0, 0, 0, 0, 0,
  16, 0, 0, 0, 16, 0, 0, 0, 32, 0, 0, 0, 0, 64, 0, 0, 16, 0, 0, 32, 0, 0, 0, 6, 0, 0, 0, 0, 0, 0, 0, 6, 0, 0,
  0, 0, 0, 0, 0, 0, 48, 0, 0, 32, 1, 0, 0, 0, 0, 0, 0, 3, 0, 64, 129, 0, 0, 16, 0, 0, 16, 0, 0, 0, 0, 16, 0, 0,
  16, 0, 0, 0, 0, 0, 0, 0, 0, 0, 0, 46, 116, 101, 120, 116, 0, 0, 0, 32, 0, 0, 0, 0, 16, 0, 0, 32, 0, 0, 0, 32,
  1, 0, 0, 0, 0, 0, 0, 0, 0, 0, 0, 0, 0, 0, 0, 32, 0, 0, 96, 46, 100, 97, 116, 97, 0, 0, 0, 24, 0, 0, 0, 0, 32,
  0, 0, 32, 0, 0, 0, 64, 1, 0, 0, 0, 0, 0, 0, 0, 0, 0, 0, 0, 0, 0, 0, 64, 0, 0, 192, 0, 0, 0, 0, 0, 0, 0, 0, 0,
  0, 0, 0, 0, 0, 0, 0, 0, 0, 0, 0, 0, 0, 0, 0, 0, 0, 0, 0, 170, 187, 0, 204, 0, 0, 0, 0, 0, 0, 0, 0, 170, 187,
  0, 221, 0, 0, 0, 0, 0, 0, 0, 0, 0, 0, 0, 0, 0, 0, 0, 0, 0, 0, 0, 0, 170, 187, 17, 204, 0, 0, 0, 0, 0, 0, 0,
  0, 0, 0, 0, 0, 0, 0, 0, 0, 0, 0, 0, 0]
/-- the same file with the two 40-byte section headers exchanged: `.data` (0x2000) first, then `.text` (0x1000) -/
def wDescBytes : Bytes :=
  #[77, 90, 0, 0, 0, 0, 0, 0, 0, 0, 0, 0, 0, 0, 0, 0, 0, 0, 0, 0, 0, 0, 0, 0, 0, 0, 0, 0, 0, 0, 0, 0, 0, 0, 0, 0,
  0, 0, 0, 0, 0, 0, 0, 0, 0, 0, 0, 0, 0, 0, 0, 0, 0, 0, 0, 0, 0, 0, 0, 0, 64, 0, 0, 0, 80, 69, 0, 0, 76, 1, 2,
  0, 0, 0, 0, 95, 0, 0, 0, 0, 0, 0, 0, 0, 96, 0, 2, 33, 11, 1, 14, 0, 32, 0, 0, 0, 0, 2, 0, 0, 0, 0, 0, 0, 0,
  16, 0, 0, 0, 16, 0, 0, 0, 32, 0, 0, 0, 0, 64, 0, 0, 16, 0, 0, 32, 0, 0, 0, 6, 0, 0, 0, 0, 0, 0, 0, 6, 0, 0,
  0, 0, 0, 0, 0, 0, 48, 0, 0, 32, 1, 0, 0, 0, 0, 0, 0, 3, 0, 64, 129, 0, 0, 16, 0, 0, 16, 0, 0, 0, 0, 16, 0, 0,
  16, 0, 0, 0, 0, 0, 0, 0, 0, 0, 0, 46, 100, 97, 116, 97, 0, 0, 0, 24, 0, 0, 0, 0, 32, 0, 0, 32, 0, 0, 0, 64,
  1, 0, 0, 0, 0, 0, 0, 0, 0, 0, 0, 0, 0, 0, 0, 64, 0, 0, 192, 46, 116, 101, 120, 116, 0, 0, 0, 32, 0, 0, 0, 0,
  16, 0, 0, 32, 0, 0, 0, 32, 1, 0, 0, 0, 0, 0, 0, 0, 0, 0, 0, 0, 0, 0, 0, 32, 0, 0, 96, 0, 0, 0, 0, 0, 0, 0, 0,
  0, 0, 0, 0, 0, 0, 0, 0, 0, 0, 0, 0, 0, 0, 0, 0, 0, 0, 0, 0, 170, 187, 0, 204, 0, 0, 0, 0, 0, 0, 0, 0, 170,
  187, 0, 221, 0, 0, 0, 0, 0, 0, 0, 0, 0, 0, 0, 0, 0, 0, 0, 0, 0, 0, 0, 0, 170, 187, 17, 204, 0, 0, 0, 0, 0, 0,
  0, 0, 0, 0, 0, 0, 0, 0, 0, 0, 0, 0, 0, 0]

/-- the file with its section table in ascending order of VirtualAddress -/
def wSorted : Pe.View := ⟨⟨wSortedBytes, 0⟩, .pe32, .file, 0x400000⟩
/-- the same file with the two section headers exchanged (descending VirtualAddress) -/
def wDesc : Pe.View := ⟨⟨wDescBytes, 0⟩, .pe32, .file, 0x400000⟩
/-- "the same file": the two images differ in the order of the two section headers only -/
example : wDescBytes.toList = wSortedBytes.toList.take 184 ++ (wSortedBytes.toList.drop 224).take 40 ++
    (wSortedBytes.toList.drop 184).take 40 ++ wSortedBytes.toList.drop 264 := by decide +kernel

/-- `aa bb ' ? cc` -/
def wPat : List Atom := [.save 0, .byte 0xAA, .byte 0xBB, .save 1, .skip 1, .byte 0xCC]

/-- both are what `PeFile::from_bytes` constructs from those bytes (the headers validate) -/
theorem wSorted_from_bytes : Pe.fromBytes .pe32 .file wSorted.img = .ok wSorted := by
  have h1 : Pe.validate .pe32 wSorted.img = .ok 0x3000 := by decide +kernel
  have h2 : Pe.imageBaseField .pe32 wSorted.img.bytes = 0x400000 := by decide +kernel
  simp only [Pe.fromBytes, h1, h2]; rfl

theorem wDesc_from_bytes : Pe.fromBytes .pe32 .file wDesc.img = .ok wDesc := by
  have h1 : Pe.validate .pe32 wDesc.img = .ok 0x3000 := by decide +kernel
  have h2 : Pe.imageBaseField .pe32 wDesc.img.bytes = 0x400000 := by decide +kernel
  simp only [Pe.fromBytes, h1, h2]; rfl

/-- the pattern is what the parser makes of `aa bb ' ? cc` -/
example : parse "aa bb ' ? cc".toUTF8.toList = .ok wPat := by decide +kernel

/-- **`Hyp` on a file view** with two sections (so `SecWF` is a real condition), and the reference
list is not empty: one match in each section -/
example : Hyp wSorted wPat 0 0x3000 ∧ SecWF wSorted.secs ∧ wSorted.secs.length = 2 ∧
    specMatches wSorted wPat 0 0x3000 = [0x1004, 0x2008] := by
  decide +kernel

/-- … and the scan of that file reports exactly the reference list, with the positions in slot 0, the
bookmark in slot 1 and slot 2 (beyond `save_len = 2`) untouched -/
example : scanAll (next wSorted wPat) 4 (matchesInit 0 0x3000) #[0, 0, 7] =
    .ok ⟨[(0x1004, #[0x1004, 0x1006, 7]), (0x2008, #[0x2008, 0x200a, 7])], ⟨0x2020, 0x3000, 3⟩, #[0x2008, 0x200a, 7], true⟩ := by
  decide +kernel

/-- **`SecWF` is needed.**  Every conjunct of `Hyp` other than `SecWF` holds for the file with the
descending section table, the scan runs to exhaustion, and yet the match at rva 0x1004 — a member of
the reference list — is not reported: after the `.data` section (listed first) the section loop has
moved `range.start` to 0x2020 and the overlap test then skips `.text`.  The real code behaves the
same (corpus file `corpus/C10/secwf_witnesses.txt`, replayed against the real code on every check:
answer `[8200{8200,8202,0}]`; `finds` over the same range even answers `true`). -/
theorem C10_scan_complete_needs_SecWF :
    ∃ (v : Pe.View) (pat : List Atom) (lo hi n : Nat) (save : Array Nat) (a : All),
      Pe.fromBytes .pe32 .file v.img = .ok v ∧
      pat.all Atom.ok = true ∧ pat.all noRead = true ∧ v.b.size < 4294967296 ∧ lo < 4294967296 ∧ hi < 4294967296 ∧
      ¬ SecWF v.secs ∧
      scanAll (next v pat) n (matchesInit lo hi) save = .ok a ∧ a.exhausted = true ∧
      ∃ p ∈ specMatches v pat lo hi, p ∉ a.hits.map (·.1) := by
  refine ⟨wDesc, wPat, 0, 0x3000, 4, #[0, 0], ⟨[(0x2008, #[0x2008, 0x200a])], ⟨0x2020, 0x3000, 1⟩, #[0x2008, 0x200a], true⟩,
    wDesc_from_bytes, by decide, by decide, by decide +kernel, by decide, by decide, by decide +kernel,
    by decide +kernel, rfl, 0x1004, by decide +kernel, by decide⟩

/-- so the conclusion of `C10_scan_complete` is false for it: the hypothesis `SecWF` of `Hyp` cannot be removed -/
theorem C10_scan_complete_without_SecWF_false :
    ¬ ∀ (v : Pe.View) (pat : List Atom) (lo hi : Nat),
        (pat.all Atom.ok = true ∧ pat.all noRead = true ∧ v.b.size < 4294967296 ∧ lo < 4294967296 ∧ hi < 4294967296) →
        ∀ (n : Nat) (save : Array Nat) (a : All), scanAll (next v pat) n (matchesInit lo hi) save = .ok a →
          a.exhausted = true → ∀ p ∈ specMatches v pat lo hi, p ∈ a.hits.map (·.1) := by
  intro h
  obtain ⟨v, pat, lo, hi, n, save, a, _, h1, h2, h3, h4, h5, _, h7, h8, p, hp, hnp⟩ := C10_scan_complete_needs_SecWF
  exact hnp (h v pat lo hi ⟨h1, h2, h3, h4, h5⟩ n save a h7 h8 p hp)

end Pelite.Scan
